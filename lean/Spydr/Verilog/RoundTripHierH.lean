/-
  Verilog engine — proof side, part 48 (hierarchy): C04 for a HIERARCHICAL netlist up to the syntax trees
  (`c04_view_hier`, `c04_ast_hier`): every module of the file — the top, every other work module, every primitive —
  shows the view / the interface of its definition in the netlist; non-vacuity `exNetH_frag`.
-/
import Spydr.Verilog.RoundTripHierG
set_option maxHeartbeats 1600000
namespace Spydr.Verilog.Elab
open Spydr.Verilog

/-! ### the views of ALL modules of a hierarchical file -/

/-- the syntax the writer prints for a definition written after the top: a `celldefine` module for a primitive, a module
    for anything else -/
def astAny (n : Text.WNet) (r : Text.WDef) : Option WAny :=
  if r.lib == "hdi_primitives" then (astLeaf r).map WAny.leaf else (astOf n r).map (fun m => WAny.work m.toI)

def fragAny (n : Text.WNet) (r : Text.WDef) : Bool := r.lib == "hdi_primitives" || fragTop n r

structure HI (n : Text.WNet) (s : St) : Prop where
  wf : TableWF s
  leaf : LeafInv n s.defs
  stub : ∀ D ∈ s.defs, StubOK D

def DoneW (n : Text.WNet) (defs : List Def) (Ws : List Text.WDef) : Prop :=
  ∀ W ∈ Ws, ∃ D ∈ defs, D.name = W.name ∧ viewD D = viewT n W ∧ D.lib = some "work"

def DoneL (defs : List Def) (Rl : List Text.WDef) : Prop :=
  ∀ r ∈ Rl, ∃ L ∈ defs, L.name = r.name ∧ L.lib = some "hdi_primitives" ∧ ifaceD L = ifaceT r

/-- every instance of a definition of the table has a row for each of its ports -/
def FullT (defs : List Def) : Prop :=
  ∀ L ∈ defs, ∀ x ∈ defs, ∀ j ∈ x.insts, j.ref = L.name → L.ports.length ≤ j.pins.length

theorem foldDecl_bound : ∀ (ps : List PDecl) (d : Def) (n : Nat) (d' : Def) (n' : Nat) (ops : List (Nat × Nat)),
    foldDecl d n ps = some (d', n', ops) → ∀ op ∈ ops, op.1 < d.ports.length := by
  intro ps
  induction ps with
  | nil =>
    intro d n d' n' ops h
    simp only [foldDecl, Option.some.injEq, Prod.mk.injEq] at h
    rw [← h.2.2]; intro op hop; cases hop
  | cons p ps ih =>
    intro d n d' n' ops h
    unfold foldDecl at h
    cases hs : declStepL d n p with
    | none => simp [hs] at h
    | some r =>
      obtain ⟨d1, n1, k, post⟩ := r
      simp only [hs, Option.map_eq_some_iff] at h
      obtain ⟨q, hq, he⟩ := h
      obtain ⟨d2, n2, ops2⟩ := q
      simp only [Prod.mk.injEq] at he
      obtain ⟨_, _, e3⟩ := he
      obtain ⟨hk, Pn, _, _, hp, _⟩ := declStepL_spec d n p d1 n1 k post hs
      have := ih d1 n1 d2 n2 ops2 hq
      rw [← e3]
      intro op hop
      rcases List.mem_cons.mp hop with e | e
      · rw [e]; exact hk
      · have := this op e
        rw [hp] at this
        simpa using this

theorem declStepL_frame (d : Def) (n : Nat) (p : PDecl) (d' : Def) (n' k post : Nat)
    (h : declStepL d n p = some (d', n', k, post)) : d'.name = d.name ∧ d'.ports.map (·.name) = d.ports.map (·.name) := by
  obtain ⟨hk, Pn, a1, _, a3, a4, _⟩ := declStepL_spec d n p d' n' k post h
  refine ⟨?_, by rw [a3]; exact map_set_same' d.ports k hk Pn (·.name) (by rw [a4, a1])⟩
  unfold declStepL at h
  split at h
  · split at h
    · simp only [Option.some.injEq, Prod.mk.injEq] at h; rw [← h.1]
    · cases h
  · cases h

theorem foldDecl_frame : ∀ (ps : List PDecl) (d : Def) (n : Nat) (d' : Def) (n' : Nat) (ops : List (Nat × Nat)),
    foldDecl d n ps = some (d', n', ops) → d'.name = d.name ∧ d'.ports.map (·.name) = d.ports.map (·.name) := by
  intro ps
  induction ps with
  | nil =>
    intro d n d' n' ops h
    simp only [foldDecl, Option.some.injEq, Prod.mk.injEq] at h
    rw [← h.1]; exact ⟨rfl, rfl⟩
  | cons p ps ih =>
    intro d n d' n' ops h
    unfold foldDecl at h
    cases hs : declStepL d n p with
    | none => simp [hs] at h
    | some r =>
      obtain ⟨d1, n1, k, post⟩ := r
      simp only [hs, Option.map_eq_some_iff] at h
      obtain ⟨q, hq, he⟩ := h
      obtain ⟨d2, n2, ops2⟩ := q
      simp only [Prod.mk.injEq] at he
      obtain ⟨e1, _, _⟩ := he
      subst e1
      obtain ⟨a1, a2⟩ := declStepL_frame d n p d1 n1 k post hs
      obtain ⟨b1, b2⟩ := ih d1 n1 d2 n2 ops2 hq
      exact ⟨b1.trans a1, b2.trans a2⟩

theorem buildLeaf_bound (L : Def) (n : Nat) (ps : List PDecl) (L' : Def) (n' : Nat) (ops : List (Nat × Nat))
    (hb : buildLeaf L n ps = some (L', n', ops)) :
    (∀ op ∈ ops, op.1 < L.ports.length) ∧ L.lib = none ∧ L'.ports.map (·.name) = L.ports.map (·.name) ∧ L'.name = L.name := by
  unfold buildLeaf at hb
  split at hb
  · rename_i hc
    cases h1 : foldLocal hdrStepL { L with lib := some "hdi_primitives" } n (ps.map (·.name)) with
    | none => simp [h1] at hb
    | some r1 =>
      obtain ⟨d1, n1⟩ := r1
      simp only [h1] at hb
      have hn1 := foldLocal_pres (fun d => d.ports.map (·.name)) hdrStepL hdrStepL_names _ _ _ _ _ h1
      have hnm1 := foldLocal_pres (·.name) hdrStepL (fun d n a d' n' h => by
        obtain ⟨_, _, _, _, _, _, _, _, _, b1, _⟩ := hdrStepL_spec d n a d' n' h; exact b1) _ _ _ _ _ h1
      have hb' := foldDecl_bound ps d1 n1 L' n' ops hb
      have hlen : d1.ports.length = L.ports.length := by
        have := congrArg List.length hn1; simpa using this
      obtain ⟨f1, f2⟩ := foldDecl_frame ps d1 n1 L' n' ops hb
      exact ⟨fun op hop => by rw [← hlen]; exact hb' op hop, hc.1, f2.trans hn1, f1.trans hnm1⟩
  · cases hb
theorem stubOK_pad (y : Def) (dn : String) (ops : List (Nat × Nat)) (h : StubOK y) : StubOK (padOpsD y dn ops) := by
  intro hl
  obtain ⟨a, b, c, d⟩ := h hl
  refine ⟨a, ?_, c, d⟩
  show y.insts.map _ = []
  rw [b]; rfl

theorem astAny_name (n : Text.WNet) (r : Text.WDef) (M : WAny) (h : astAny n r = some M) : M.name = r.name := by
  unfold astAny at h
  split at h
  · simp only [Option.map_eq_some_iff] at h
    obtain ⟨lf, hlf, e⟩ := h
    rw [← e]
    exact (astLeaf_iface r lf hlf).1
  · simp only [Option.map_eq_some_iff] at h
    obtain ⟨m, hm, e⟩ := h
    rw [← e]
    unfold astOf at hm
    cases h1 : r.ports.mapM (astPort r) with
    | none => simp [h1] at hm
    | some ports =>
      cases h2 : r.insts.mapM (astInst n r) with
      | none => simp [h1, h2] at hm
      | some insts => simp only [h1, h2, Option.some.injEq] at hm; rw [← hm]; rfl

theorem mem_maptbl (defs : List Def) (nm : String) (D : Def) (ops : List (Nat × Nat)) (x : Def)
    (hx : x ∈ defs.map (fun x => if x.name == nm then D else padOpsD x nm ops)) :
    x = D ∨ ∃ y ∈ defs, y.name ≠ nm ∧ x = padOpsD y nm ops := by
  obtain ⟨y, hy, e⟩ := List.mem_map.mp hx
  by_cases en : y.name = nm
  · left; simp only [en, beq_self_eq_true, if_true] at e; exact e.symm
  · right
    simp only [show (y.name == nm) = false by simp [en], Bool.false_eq_true, if_false] at e
    exact ⟨y, hy, en, e.symm⟩

theorem maptbl_other (defs : List Def) (nm : String) (D : Def) (ops : List (Nat × Nat)) (y : Def) (hy : y ∈ defs)
    (hn : y.name ≠ nm) : padOpsD y nm ops ∈ defs.map (fun x => if x.name == nm then D else padOpsD x nm ops) :=
  List.mem_map.mpr ⟨y, hy, by simp [hn]⟩

theorem maptbl_self (defs : List Def) (nm : String) (D : Def) (ops : List (Nat × Nat)) (L : Def) (hL : L ∈ defs)
    (hn : L.name = nm) : D ∈ defs.map (fun x => if x.name == nm then D else padOpsD x nm ops) :=
  List.mem_map.mpr ⟨L, hL, by simp [hn]⟩

/-- the facts about the new table that do not depend on the kind of module: earlier views and interfaces survive the
    padding of instance rows -/
theorem done_pad (n : Text.WNet) (defs : List Def) (nm : String) (D L : Def) (ops : List (Nat × Nat)) (extra : List Def)
    (Ws Rl : List Text.WDef) (hfull : FullT defs) (hL : L ∈ defs) (hLn : L.name = nm)
    (hops : ∀ op ∈ ops, op.1 < L.ports.length) (hdw : DoneW n defs Ws) (hdl : DoneL defs Rl)
    (hnw : ∀ W ∈ Ws, W.name ≠ nm) (hnl : ∀ x ∈ Rl, x.name ≠ nm) :
    DoneW n (defs.map (fun x => if x.name == nm then D else padOpsD x nm ops) ++ extra) Ws ∧
    DoneL (defs.map (fun x => if x.name == nm then D else padOpsD x nm ops) ++ extra) Rl := by
  constructor
  · intro W hW
    obtain ⟨D0, hD0, e1, e2, e3⟩ := hdw W hW
    have hne : D0.name ≠ nm := by rw [e1]; exact hnw W hW
    refine ⟨padOpsD D0 nm ops, List.mem_append_left _ (maptbl_other defs nm D ops D0 hD0 hne), e1, ?_, e3⟩
    rw [viewD_padOps D0 nm L.ports.length ops (fun i hi e => hfull L hL D0 hD0 i hi (e.trans hLn.symm)) hops]
    exact e2
  · intro x hx
    obtain ⟨L0, hL0, e1, e2, e3⟩ := hdl x hx
    have hne : L0.name ≠ nm := by rw [e1]; exact hnl x hx
    exact ⟨padOpsD L0 nm ops, List.mem_append_left _ (maptbl_other defs nm D ops L0 hL0 hne), e1, e2, e3⟩
theorem leafInv_sub (n : Text.WNet) (defs : List Def) (p : Def → Bool) (h : LeafInv n defs) : LeafInv n (defs.filter p) :=
  fun L hL => h L (List.mem_filter.mp hL).1

theorem astOf_name (n : Text.WNet) (r : Text.WDef) (m : WModP) (hm : astOf n r = some m) :
    m.toI.name = r.name ∧ m.toI.attrs = r.attrs.getD [] := by
  unfold astOf at hm
  cases h1 : r.ports.mapM (astPort r) with
  | none => simp [h1] at hm
  | some ports =>
    cases h2 : r.insts.mapM (astInst n r) with
    | none => simp [h1, h2] at hm
    | some insts => simp only [h1, h2, Option.some.injEq] at hm; rw [← hm]; exact ⟨rfl, rfl⟩

/-- a work module declared late, on the table (pure) -/
theorem hier_tbl_work (n : Text.WNet) (t : String) (defs : List Def) (nx : Nat) (r : Text.WDef) (m : WModP)
    (tbl' : List Def) (n' : Nat) (Ws Rl : List Text.WDef) (hfull : FullT defs) (hleaf : LeafInv n defs)
    (hstub : ∀ D ∈ defs, StubOK D) (hfrag : fragTop n r = true) (hm : astOf n r = some m)
    (hstep : lateStep defs nx t (.work m.toI) = some (tbl', n'))
    (hdw : DoneW n defs Ws) (hdl : DoneL defs Rl) (hnw : ∀ W ∈ Ws, W.name ≠ r.name) (hnl : ∀ x ∈ Rl, x.name ≠ r.name) :
    LeafInv n tbl' ∧ (∀ D ∈ tbl', StubOK D) ∧ DoneW n tbl' (r :: Ws) ∧ DoneL tbl' Rl := by
  obtain ⟨hMn, _⟩ := astOf_name n r m hm
  unfold lateStep at hstep
  simp only [WAny.name] at hstep
  cases hf : defs.find? (fun d => d.name == m.toI.name) with
  | none => simp [hf] at hstep
  | some L =>
    simp only [hf] at hstep
    have hLm := List.mem_of_find?_eq_some hf
    have hLn : L.name = m.toI.name := by simpa using List.find?_some hf
    cases hb : buildLateW L (defs.filter (fun x => x.name != m.toI.name)) nx m.toI t with
    | none => simp [hb] at hstep
    | some rr =>
      obtain ⟨D, ls', n1, ops⟩ := rr
      simp only [hb, Option.some.injEq, Prod.mk.injEq] at hstep
      obtain ⟨e1, _⟩ := hstep
      obtain ⟨v1, v2, v3, v4, ⟨new, en, hnew⟩, v6, _, v8⟩ := buildLateW_view n r m L _ nx t D ls' n1 ops hfrag hm
        (hstub L hLm) (leafInv_sub n defs _ hleaf) hb
      have hdrop : ls'.drop (defs.filter (fun x => x.name != m.toI.name)).length = new := by
        have : (defs.filter (fun x => x.name != m.toI.name)).length =
            ((defs.filter (fun x => x.name != m.toI.name)).map (fun x => padOpsD x r.name ops)).length := by simp
        rw [en, this, List.drop_left]
      rw [hdrop, hMn] at e1
      rw [hMn] at hLn
      obtain ⟨p1, p2⟩ := done_pad n defs r.name D L ops new Ws Rl hfull hLm hLn v6 hdw hdl hnw hnl
      rw [← e1]
      refine ⟨?_, ?_, ?_, p2⟩
      · intro x hx
        rcases List.mem_append.mp hx with h | h
        · rcases mem_maptbl defs r.name D ops x h with e | ⟨y, hy, _, e⟩
          · obtain ⟨r0, hr0, hp0⟩ := hleaf L hLm
            rw [e]
            exact ⟨r0, by rw [v3]; exact hr0, by rw [v8]; exact hp0⟩
          · obtain ⟨r0, hr0, hp0⟩ := hleaf y hy
            rw [e]
            exact ⟨r0, hr0, hp0⟩
        · exact v4 x (by rw [en]; exact List.mem_append_right _ h)
      · intro x hx
        rcases List.mem_append.mp hx with h | h
        · rcases mem_maptbl defs r.name D ops x h with e | ⟨y, hy, _, e⟩
          · rw [e]; intro hl; rw [v2] at hl; cases hl
          · rw [e]; exact stubOK_pad y r.name ops (hstub y hy)
        · exact (hnew x h).1
      · intro W hW
        rcases List.mem_cons.mp hW with e | e
        · rw [e]
          exact ⟨D, List.mem_append_left _ (maptbl_self defs r.name D ops L hLm hLn), v3.trans hLn, v1, v2⟩
        · exact p1 W e

/-- a primitive declared late, on the table (pure) -/
theorem hier_tbl_leaf (n : Text.WNet) (t : String) (defs : List Def) (nx : Nat) (r : Text.WDef) (lf : WLeaf)
    (tbl' : List Def) (n' : Nat) (Ws Rl : List Text.WDef) (hfull : FullT defs) (hleaf : LeafInv n defs)
    (hstub : ∀ D ∈ defs, StubOK D) (ha : astLeaf r = some lf)
    (hstep : lateStep defs nx t (.leaf lf) = some (tbl', n'))
    (hdw : DoneW n defs Ws) (hdl : DoneL defs Rl) (hnw : ∀ W ∈ Ws, W.name ≠ r.name) (hnl : ∀ x ∈ Rl, x.name ≠ r.name) :
    LeafInv n tbl' ∧ (∀ D ∈ tbl', StubOK D) ∧ DoneW n tbl' Ws ∧ DoneL tbl' (r :: Rl) := by
  obtain ⟨hMn, hifc⟩ := astLeaf_iface r lf ha
  unfold lateStep at hstep
  simp only [WAny.name] at hstep
  cases hf : defs.find? (fun d => d.name == lf.name) with
  | none => simp [hf] at hstep
  | some L =>
    simp only [hf] at hstep
    have hLm := List.mem_of_find?_eq_some hf
    have hLn : L.name = lf.name := by simpa using List.find?_some hf
    cases hb : buildLeaf L nx lf.ports with
    | none => simp [hb] at hstep
    | some rr =>
      obtain ⟨L', n1, ops⟩ := rr
      simp only [hb, Option.some.injEq, Prod.mk.injEq] at hstep
      obtain ⟨e1, _⟩ := hstep
      obtain ⟨b1, b2, b3, b4⟩ := buildLeaf_bound L nx lf.ports L' n1 ops hb
      obtain ⟨c1, c2⟩ := buildLeaf_iface L nx lf.ports L' n1 ops hb (fun P hP => ((hstub L hLm b2).2.2.2 P hP).1)
      rw [hMn] at e1 hLn
      obtain ⟨p1, p2⟩ := done_pad n defs r.name L' L ops [] Ws Rl hfull hLm hLn b1 hdw hdl hnw hnl
      simp only [List.append_nil] at p1 p2
      rw [← e1]
      refine ⟨?_, ?_, p1, ?_⟩
      · intro x hx
        rcases mem_maptbl defs r.name L' ops x hx with e | ⟨y, hy, _, e⟩
        · obtain ⟨r0, hr0, hp0⟩ := hleaf L hLm
          rw [e]
          exact ⟨r0, by rw [b4]; exact hr0, by rw [b3]; exact hp0⟩
        · obtain ⟨r0, hr0, hp0⟩ := hleaf y hy
          rw [e]
          exact ⟨r0, hr0, hp0⟩
      · intro x hx
        rcases mem_maptbl defs r.name L' ops x hx with e | ⟨y, hy, _, e⟩
        · rw [e]; intro hl; rw [c2] at hl; cases hl
        · rw [e]; exact stubOK_pad y r.name ops (hstub y hy)
      · intro x hx
        rcases List.mem_cons.mp hx with e | e
        · rw [e]
          exact ⟨L', maptbl_self defs r.name L' ops L hLm hLn, b4.trans hLn, c2, c1.trans hifc⟩
        · exact p2 x e
theorem fullT_of_wf {s : St} (hwf : TableWF s) : FullT s.defs := by
  intro L hL x hx j hj href
  exact rowsFull_of_wf hwf hL x hx j hj href

def isPrim (r : Text.WDef) : Bool := r.lib == "hdi_primitives"

/-- **hier_fold.**  The later modules of a hierarchical file, one after the other: the run succeeds, and at the end every
    work module shows the view and every primitive the interface of its definition in the netlist. -/
theorem hier_fold (n : Text.WNet) (t : String) : ∀ (Rs : List Text.WDef) (Ms : List WAny) (s : St) (tbl' : List Def) (n' : Nat)
    (Ws Rl : List Text.WDef), Rs.mapM (astAny n) = some Ms → (∀ r ∈ Rs, fragAny n r = true) → (Rs.map (·.name)).Nodup →
    (∀ r ∈ Rs, ∀ W ∈ Ws, W.name ≠ r.name) → (∀ r ∈ Rs, ∀ x ∈ Rl, x.name ≠ r.name) →
    HI n s → s.top = some t → s.acount = 0 → foldLate s.defs s.next t Ms = some (tbl', n') →
    DoneW n s.defs Ws → DoneL s.defs Rl →
    ∃ s', (Ms.map WAny.toModule).foldlM elabModule s = .ok s' ∧ s'.defs = tbl' ∧ s'.next = n' ∧ s'.top = some t ∧
      s'.acount = 0 ∧ s'.pending = s.pending ∧
      DoneW n s'.defs (Ws ++ Rs.filter (fun r => !isPrim r)) ∧ DoneL s'.defs (Rl ++ Rs.filter isPrim) := by
  intro Rs
  induction Rs with
  | nil =>
    intro Ms s tbl' n' Ws Rl hM _ _ _ _ hi htop hac h hdw hdl
    simp only [List.mapM_nil, pure, Option.some.injEq] at hM
    subst hM
    simp only [foldLate, Option.some.injEq, Prod.mk.injEq] at h
    exact ⟨s, rfl, h.1, h.2, htop, hac, rfl, by simpa using hdw, by simpa using hdl⟩
  | cons r Rs ih =>
    intro Ms s tbl' n' Ws Rl hM hfa hnd hnw hnl hi htop hac h hdw hdl
    rw [List.mapM_cons] at hM
    cases ha : astAny n r with
    | none => simp [ha] at hM
    | some M =>
      cases hr : Rs.mapM (astAny n) with
      | none => simp [ha, hr] at hM
      | some Ms' =>
        simp only [ha, hr, Option.bind_eq_bind, Option.bind_some, pure, Option.some.injEq] at hM
        subst hM
        unfold foldLate at h
        cases hs : lateStep s.defs s.next t M with
        | none => simp [hs] at h
        | some r1 =>
          obtain ⟨tbl1, n1⟩ := r1
          simp only [hs] at h
          obtain ⟨s1, g1, g2, g3, g4, g5, g6, g7⟩ := late_step s t M tbl1 n1 hi.wf htop hac hs
          rw [List.map_cons, List.nodup_cons] at hnd
          have hrest : ∀ x ∈ Rs, x.name ≠ r.name := fun x hx e => hnd.1 (List.mem_map.mpr ⟨x, hx, e⟩)
          -- the facts about the new table
          have hfacts : LeafInv n tbl1 ∧ (∀ D ∈ tbl1, StubOK D) ∧
              DoneW n tbl1 (if isPrim r then Ws else r :: Ws) ∧ DoneL tbl1 (if isPrim r then r :: Rl else Rl) := by
            have hfr := hfa r List.mem_cons_self
            unfold astAny at ha
            unfold fragAny at hfr
            by_cases hp : (r.lib == "hdi_primitives") = true
            · simp only [hp, if_true, Option.map_eq_some_iff] at ha
              obtain ⟨lf, hlf, e⟩ := ha
              subst e
              have := hier_tbl_leaf n t s.defs s.next r lf tbl1 n1 Ws Rl (fullT_of_wf hi.wf) hi.leaf hi.stub hlf hs hdw hdl
                (hnw r List.mem_cons_self) (hnl r List.mem_cons_self)
              simpa [isPrim, hp] using this
            · have hp' : (r.lib == "hdi_primitives") = false := by simpa using hp
              simp only [hp', Bool.false_eq_true, if_false, Option.map_eq_some_iff] at ha
              obtain ⟨m, hm, e⟩ := ha
              subst e
              simp only [hp', Bool.false_or] at hfr
              have := hier_tbl_work n t s.defs s.next r m tbl1 n1 Ws Rl (fullT_of_wf hi.wf) hi.leaf hi.stub hfr hm hs hdw hdl
                (hnw r List.mem_cons_self) (hnl r List.mem_cons_self)
              simpa [isPrim, hp'] using this
          obtain ⟨k1, k2, k3, k4⟩ := hfacts
          have hi1 : HI n s1 := ⟨g2, by rw [g3]; exact k1, by rw [g3]; exact k2⟩
          rw [← g3, ← g4] at h
          obtain ⟨s2, f1, f2, f3, f4, f5, f6, f7, f8⟩ := ih Ms' s1 tbl' n' (if isPrim r then Ws else r :: Ws)
            (if isPrim r then r :: Rl else Rl) hr
            (fun x hx => hfa x (List.mem_cons_of_mem _ hx)) hnd.2
            (by
              intro x hx W hW
              split at hW
              · exact hnw x (List.mem_cons_of_mem _ hx) W hW
              · rcases List.mem_cons.mp hW with e | e
                · rw [e]; exact fun e' => hrest x hx e'.symm
                · exact hnw x (List.mem_cons_of_mem _ hx) W e)
            (by
              intro x hx y hy
              split at hy
              · rcases List.mem_cons.mp hy with e | e
                · rw [e]; exact fun e' => hrest x hx e'.symm
                · exact hnl x (List.mem_cons_of_mem _ hx) y e
              · exact hnl x (List.mem_cons_of_mem _ hx) y hy)
            hi1 g5 g6 h (by rw [g3]; exact k3) (by rw [g3]; exact k4)
          refine ⟨s2, ?_, f2, f3, f4, f5, f6.trans g7, ?_, ?_⟩
          · simp only [List.map_cons, List.foldlM_cons, bind, Except.bind, g1]
            exact f1
          · intro W hW
            apply f7 W
            rcases List.mem_append.mp hW with e | e
            · apply List.mem_append_left
              split
              · exact e
              · exact List.mem_cons_of_mem _ e
            · simp only [List.filter_cons] at e
              split at e
              · rename_i hnp
                rcases List.mem_cons.mp e with e' | e'
                · apply List.mem_append_left
                  have : isPrim r = false := by simpa using hnp
                  simp only [this, Bool.false_eq_true, if_false]
                  rw [e']; exact List.mem_cons_self
                · exact List.mem_append_right _ e'
              · exact List.mem_append_right _ e
          · intro x hx
            apply f8 x
            rcases List.mem_append.mp hx with e | e
            · apply List.mem_append_left
              split
              · exact List.mem_cons_of_mem _ e
              · exact e
            · simp only [List.filter_cons] at e
              split at e
              · rename_i hnp
                rcases List.mem_cons.mp e with e' | e'
                · apply List.mem_append_left
                  simp only [hnp, if_true]
                  rw [e']; exact List.mem_cons_self
                · exact List.mem_append_right _ e'
              · exact List.mem_append_right _ e
theorem buildW3_name (d0 : Def) (n : Nat) (ports : List PDecl) (wires : List FWire) (d3 : Def) (n3 : Nat)
    (hb : buildW3 d0 n ports wires = some (d3, n3)) : d3.name = d0.name := by
  unfold buildW3 at hb
  cases h1 : foldLocal stubStep d0 n (ports.map (·.name)) with
  | none => simp [h1] at hb
  | some r1 =>
    simp only [h1] at hb
    split at hb
    · cases h2 : foldLocal declStep r1.1 r1.2 ports with
      | none => simp [h2] at hb
      | some r2 =>
        simp only [h2] at hb
        have a := foldLocal_pres (·.name) stubStep (fun d n a d' n' h => (stubStep_name d n a d' n' h).1) _ _ _ r1.1 r1.2 (by rw [h1])
        have b := foldLocal_pres (·.name) declStep (fun d n a d' n' h => (declStep_name d n a d' n' h).1) _ _ _ r2.1 r2.2 (by rw [h2])
        have c := foldLocal_pres (·.name) wireStep (fun d n a d' n' h => (wireStep_name d n a d' n' h).1) _ _ _ d3 n3 hb
        exact c.trans (b.trans a)
    · cases hb

theorem astPorts_nodup (T : Text.WDef) (ports : List PDecl) (hports : T.ports.mapM (astPort T) = some ports)
    (hn : (T.ports.map (·.name)).Nodup) : (ports.map (·.name)).Nodup := by
  obtain ⟨hplen, hpidx⟩ := mapM_index _ _ _ hports
  have hpnames : ports.map (fun p => some p.name) = T.ports.map (·.name) := by
    apply List.ext_getElem (by simp [hplen])
    intro k g1 g2
    simp only [List.length_map] at g1 g2
    simp only [List.getElem_map]
    obtain ⟨nm, c, dir, hn', _, _, e⟩ := astPort_spec T _ _ (hpidx k g2 g1)
    rw [e, hn']
  have : (ports.map (·.name)).map some = T.ports.map (·.name) := by rw [List.map_map]; exact hpnames
  have hn2 : ((ports.map (·.name)).map some).Nodup := by rw [this]; exact hn
  exact (List.pairwise_map.mp hn2).imp (fun h e => h (congrArg some e))

theorem viewD_port_names (D : Def) : (viewD D).ports.map (·.name) = D.ports.map (·.name) := by
  unfold viewD; simp [List.map_map, Function.comp_def]

theorem viewT_port_names (n : Text.WNet) (T : Text.WDef) : (viewT n T).ports.map (·.name) = T.ports.map (·.name) := by
  unfold viewT; simp [List.map_map, Function.comp_def]

/-- **c04_view_hier.**  C04 for a HIERARCHICAL netlist, up to the syntax trees: the file `top; then the definitions `Rs` in the
    writer's order` (work modules and `celldefine` modules, each declared after a module that instantiates it) is accepted
    by the REAL `elabDesign`, the top is elected, and EVERY module shows the view of its definition in the netlist — the
    top, every other work module (ports, nets, instances), and every primitive its interface. -/
theorem c04_view_hier (n : Text.WNet) (T : Text.WDef) (Rs : List Text.WDef) (m : WModP) (Ms : List WAny)
    (defs : List Def) (nx : Nat) (hfrag : fragTop n T = true) (hm : astOf n T = some m)
    (hRs : Rs.mapM (astAny n) = some Ms) (hfa : ∀ r ∈ Rs, fragAny n r = true)
    (hnd : (T.name :: Rs.map (·.name)).Nodup)
    (hrefT : ∃ r0, Text.refOf n T.name = some r0 ∧ T.ports.map (·.name) = r0.ports.map (·.name))
    (hb : buildHier m.toI Ms = some (defs, nx)) :
    elabDesign (m.toI.toModule :: Ms.map WAny.toModule) = .ok ⟨defs, nx, some T.name, 0, []⟩ ∧
    (∃ D ∈ defs, D.name = T.name ∧ viewD D = viewT n T ∧ D.lib = some "work") ∧
    (∀ r ∈ Rs, isPrim r = false → ∃ D ∈ defs, D.name = r.name ∧ viewD D = viewT n r ∧ D.lib = some "work") ∧
    (∀ r ∈ Rs, isPrim r = true → ∃ L ∈ defs, L.name = r.name ∧ L.lib = some "hdi_primitives" ∧ ifaceD L = ifaceT r) := by
  obtain ⟨hTn, hTa⟩ := astOf_name n T m hm
  have hrun := elabDesign_hier m.toI Ms defs nx hb
  rw [hTn] at hrun
  refine ⟨hrun, ?_⟩
  -- the syntax of the top
  have hm0 := hm
  unfold astOf at hm
  cases hports : T.ports.mapM (astPort T) with
  | none => simp [hports] at hm
  | some ports =>
    cases hinsts : T.insts.mapM (astInst n T) with
    | none => simp [hports, hinsts] at hm
    | some insts =>
      simp only [hports, hinsts, Option.some.injEq] at hm
      subst hm
      unfold buildHier WModP.toI at hb
      generalize hws : T.cables.reverse.map astWire = wires at hb
      simp only at hb
      generalize hd0 : (⟨T.name, some "work", false, [], none, [], [], []⟩ : Def) = d0 at hb
      cases h3 : buildW3 d0 0 ports wires with
      | none => simp [h3] at hb
      | some r3 =>
        obtain ⟨d3, n3⟩ := r3
        simp only [h3] at hb
        split at hb
        · rename_i hcn
          cases h4 : foldInst d3 [] (insts.map PInst.toN) with
          | none => simp [h4] at hb
          | some r4 =>
            obtain ⟨d4, ls4⟩ := r4
            simp only [h4] at hb
            cases h5 : foldLate (withAttrs (T.attrs.getD []) d4 :: ls4) n3 T.name Ms with
            | none => simp [h5] at hb
            | some r5 =>
              obtain ⟨tbl, n5⟩ := r5
              simp only [h5, Option.some.injEq, Prod.mk.injEq] at hb
              obtain ⟨hdefs, _⟩ := hb
              -- the facts about the top
              have hfr := hfrag
              simp only [fragTop, Bool.and_eq_true, decide_eq_true_eq, List.all_eq_true] at hfr
              obtain ⟨⟨⟨⟨_, _⟩, F2n⟩, _⟩, _⟩ := hfr
              have H3 := astPorts_nodup T ports hports F2n
              have hd0c : d0.cables = [] := by rw [← hd0]
              have hd0p : d0.ports = [] := by rw [← hd0]
              have hcab0 : cabOf d0 = fun _ => none := by funext nm; unfold cabOf; rw [hd0c]; rfl
              have hcabE := buildW3_cab d0 0 ports wires d3 n3 h3
              rw [hcab0, ← hws] at hcabE
              have hWF : WF d3 n3 := buildW3_WF d0 0 ports wires d3 n3
                ⟨⟨by rw [hd0c]; exact List.nodup_nil, by rw [hd0c]; exact List.nodup_nil⟩, by rw [hd0c]; intro c hc; cases hc⟩ h3
              have hPC : PC d3 := buildW3_PC d0 0 ports wires d3 n3 (by intro P hP; rw [hd0p] at hP; cases hP) h3
              have hpv := buildW3_ports d0 0 ports wires d3 n3 hd0p H3 h3
              obtain ⟨hi3, ha3⟩ := buildW3_frame d0 0 ports wires d3 n3 h3
              obtain ⟨v1, v2, _, _⟩ := view_core n T ports insts d3 d4 [] ls4 n3 hfrag hports hinsts hpv hPC hWF hcabE
                (by rw [hi3, ← hd0]) (by rw [ha3, ← hd0]) (by intro L hL; cases hL) h4
              have hlib4 : (withAttrs (T.attrs.getD []) d4).lib = some "work" := by
                have h1 : d3.lib = some "work" := by rw [buildW3_lib d0 0 ports wires d3 n3 h3, ← hd0]
                have h2 : d4.lib = d3.lib := foldInst_lib _ d3 [] d4 ls4 h4
                unfold withAttrs; split <;> simp [h2, h1]
              have hname4 : (withAttrs (T.attrs.getD []) d4).name = T.name := by
                have h1 : d3.name = T.name := by
                  rw [buildW3_name d0 0 ports wires d3 n3 h3, ← hd0]
                have h2 : d4.name = d3.name := foldInst_name _ d3 [] d4 ls4 h4
                unfold withAttrs; split <;> simp [h2, h1]
              -- the state after the top
              rw [← hd0] at h3
              have hcn' : (d3.cables.map (·.name)).Nodup := hcn
              obtain ⟨hE, _, _⟩ := elabModule_wtop (⟨T.name, T.attrs.getD [], ports, wires, insts.map PInst.toN⟩ : WModI) d3 n3 d4 ls4
                h3 hcn' h4
              generalize hS1 : S2 (withAttrs (T.attrs.getD []) d4) ls4 n3 (some T.name) = S1
              have hE' : elabModule ⟨[], 0, none, 0, []⟩
                  (⟨T.name, T.attrs.getD [], ports, wires, insts.map PInst.toN⟩ : WModI).toModule = .ok S1 := by
                rw [hE, ← hS1]; rfl
              have hwf1 : TableWF S1 := elabModule_wf _ _ _ tableWF_init hE'
              have hS1d : S1.defs = withAttrs (T.attrs.getD []) d4 :: ls4 := by rw [← hS1]; rfl
              obtain ⟨new, en, hnew⟩ := foldInst_new _ d3 [] d4 ls4 h4
              have hi1 : HI n S1 := by
                refine ⟨hwf1, ?_, ?_⟩
                · rw [hS1d]
                  intro x hx
                  rcases List.mem_cons.mp hx with e | e
                  · obtain ⟨r0, hr0, hp0⟩ := hrefT
                    rw [e, hname4]
                    refine ⟨r0, hr0, ?_⟩
                    rw [← hp0, ← viewT_port_names n T, ← v1, viewD_port_names]
                  · exact v2 x e
                · rw [hS1d]
                  intro x hx
                  rcases List.mem_cons.mp hx with e | e
                  · rw [e]; intro hl; rw [hlib4] at hl; cases hl
                  · exact (hnew x (by rw [en] at e; simpa using e)).1
              rw [List.nodup_cons] at hnd
              have hdw0 : DoneW n S1.defs [T] := by
                intro W hW
                simp only [List.mem_singleton] at hW
                rw [hW, hS1d]
                exact ⟨_, List.mem_cons_self, hname4, v1, hlib4⟩
              obtain ⟨s', _, f2, _, _, _, _, f7, f8⟩ := hier_fold n T.name Rs Ms S1 tbl n5 [T] [] hRs hfa hnd.2
                (by
                  intro r hr W hW
                  simp only [List.mem_singleton] at hW
                  rw [hW]
                  exact fun e => hnd.1 (List.mem_map.mpr ⟨r, hr, e.symm⟩))
                (by intro r _ x hx; cases hx) hi1 (by rw [← hS1]; rfl) (by rw [← hS1]; rfl)
                (by rw [hS1d, ← hS1]; exact h5) hdw0 (by intro x hx; cases hx)
              rw [f2] at f7 f8
              have hmark : ∀ D ∈ tbl, D.lib.isSome → markBB D ∈ defs ∧ markBB D = D := by
                intro D hD hl
                refine ⟨by rw [← hdefs]; exact List.mem_map.mpr ⟨D, hD, rfl⟩, ?_⟩
                unfold markBB
                cases hDl : D.lib with
                | none => rw [hDl] at hl; cases hl
                | some v => simp
              refine ⟨?_, ?_, ?_⟩
              · obtain ⟨D, hD, e1, e2, e3⟩ := f7 T (by simp)
                obtain ⟨g1, g2⟩ := hmark D hD (by rw [e3]; rfl)
                exact ⟨D, by rw [← g2]; exact g1, e1, e2, e3⟩
              · intro r hr hp
                obtain ⟨D, hD, e1, e2, e3⟩ := f7 r (by
                  apply List.mem_append_right
                  exact List.mem_filter.mpr ⟨hr, by simp [hp]⟩)
                obtain ⟨g1, g2⟩ := hmark D hD (by rw [e3]; rfl)
                exact ⟨D, by rw [← g2]; exact g1, e1, e2, e3⟩
              · intro r hr hp
                obtain ⟨L, hL, e1, e2, e3⟩ := f8 r (by
                  apply List.mem_append_right
                  exact List.mem_filter.mpr ⟨hr, hp⟩)
                obtain ⟨g1, g2⟩ := hmark L hL (by rw [e2]; rfl)
                exact ⟨L, by rw [← g2]; exact g1, e1, e2, e3⟩
        · cases hb
/-- the fragment of the hierarchical theorem up to the syntax trees (decidable): the top `T` and every other work module
    in `fragTop`, distinct module names, `T` found under its name, and the pure reader `buildHier` accepts the file -/
def fragHier (n : Text.WNet) (T : Text.WDef) (Rs : List Text.WDef) : Bool :=
  fragTop n T && Rs.all (fragAny n) && decide ((T.name :: Rs.map (·.name)).Nodup) &&
  (match Text.refOf n T.name with
   | some r0 => decide (T.ports.map (·.name) = r0.ports.map (·.name))
   | none => false) &&
  (match astOf n T, Rs.mapM (astAny n) with
   | some m, some Ms => (buildHier m.toI Ms).isSome
   | _, _ => false)

/-- **c04_ast_hier.**  `c04_view_hier` from the decidable fragment predicate. -/
theorem c04_ast_hier (n : Text.WNet) (T : Text.WDef) (Rs : List Text.WDef) (h : fragHier n T Rs = true) :
    ∃ m Ms s, astOf n T = some m ∧ Rs.mapM (astAny n) = some Ms ∧
      elabDesign (m.toI.toModule :: Ms.map WAny.toModule) = .ok s ∧ s.top = some T.name ∧ s.pending = [] ∧
      (∃ D ∈ s.defs, D.name = T.name ∧ viewD D = viewT n T ∧ D.lib = some "work") ∧
      (∀ r ∈ Rs, isPrim r = false → ∃ D ∈ s.defs, D.name = r.name ∧ viewD D = viewT n r ∧ D.lib = some "work") ∧
      (∀ r ∈ Rs, isPrim r = true → ∃ L ∈ s.defs, L.name = r.name ∧ L.lib = some "hdi_primitives" ∧ ifaceD L = ifaceT r) := by
  unfold fragHier at h
  simp only [Bool.and_eq_true, decide_eq_true_eq, List.all_eq_true] at h
  obtain ⟨⟨⟨⟨h1, h2⟩, h3⟩, h4⟩, h5⟩ := h
  cases hr : Text.refOf n T.name with
  | none => simp [hr] at h4
  | some r0 =>
    simp only [hr, decide_eq_true_eq] at h4
    cases hm : astOf n T with
    | none => simp [hm] at h5
    | some m =>
      cases hM : Rs.mapM (astAny n) with
      | none => simp [hm, hM] at h5
      | some Ms =>
        simp only [hm, hM] at h5
        obtain ⟨r, hb⟩ := Option.isSome_iff_exists.mp h5
        obtain ⟨defs, nx⟩ := r
        obtain ⟨a1, a2, a3, a4⟩ := c04_view_hier n T Rs m Ms defs nx h1 hm hM h2 h3 ⟨r0, hr, h4⟩ hb
        exact ⟨m, Ms, _, rfl, rfl, a1, rfl, rfl, a2, a3, a4⟩

/-- non-vacuity: a three-level netlist `top → sub → LUT1` with `LUT1` also under `top`; `sub` has a two-bit port, an
    attribute on a port and one on the module -/
def exNetH : Text.WNet :=
  let b (c : String) (i : Int) : Option Bit := some ⟨c, i⟩
  { name := "exh", top := some "top",
    defs := [
      { name := "top", lib := "work", params := none, attrs := none,
        ports := [⟨some "a", "IN", 0, 2, [b "a" 0, b "a" 1], none⟩, ⟨some "y", "OUT", 0, 1, [b "y" 0], none⟩],
        cables := [⟨"a", 0, 2, none, none⟩, ⟨"y", 0, 1, none, none⟩, ⟨"w", 0, 1, none, none⟩],
        insts := [⟨"u0", "sub", none, none, [[b "a" 0, b "a" 1], [b "w" 0]]⟩,
                  ⟨"u1", "LUT1", none, none, [[b "w" 0], [b "y" 0]]⟩] },
      { name := "sub", lib := "work", params := none, attrs := some [("keep", none)],
        ports := [⟨some "p", "IN", 0, 2, [b "p" 0, b "p" 1], none⟩, ⟨some "q", "OUT", 0, 1, [b "q" 0], some [("mark", none)]⟩],
        cables := [⟨"p", 0, 2, none, none⟩, ⟨"q", 0, 1, none, none⟩],
        insts := [⟨"g0", "LUT1", none, none, [[b "p" 0], [b "q" 0]]⟩] },
      { name := "LUT1", lib := "hdi_primitives", params := none, attrs := none,
        ports := [⟨some "I0", "IN", 0, 1, [none], none⟩, ⟨some "O", "OUT", 0, 1, [none], none⟩],
        cables := [], insts := [] }] }

def exTopH : Text.WDef := exNetH.defs.headD default

theorem exNetH_frag : fragHier exNetH exTopH (exNetH.defs.drop 1) = true := by decide
end Spydr.Verilog.Elab
