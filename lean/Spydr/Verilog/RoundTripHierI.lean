/-
  Verilog engine — proof side, part 49 (hierarchy): the text level for several modules — `parse_hier` (the real parser on
  the tokens of the top and of the later work / `celldefine` modules), `composeV_text_hier`, pieces, and the end-to-end
  theorem `c04_text_hier` with its structural fragment `fragStructH`; non-vacuity `exNetH_struct`, `exNetH_roundtrip`.
-/
import Spydr.Verilog.RoundTripHierH
set_option maxHeartbeats 1600000
namespace Spydr.Verilog.Elab
open Spydr.Verilog
open Spydr.Verilog.Parse
open Spydr.Verilog.Text (fixName)

/-! ### the text level for several modules -/

/-- the written syntax of a definition after the top, with the connection expressions in the writer's expression type -/
inductive WAnyP
  | work (m : WModP)
  | leaf (lf : WLeaf)

def WAnyP.toAny : WAnyP → WAny
  | .work m => .work m.toI
  | .leaf lf => .leaf lf

def astAnyP (n : Text.WNet) (r : Text.WDef) : Option WAnyP :=
  if r.lib == "hdi_primitives" then (astLeaf r).map WAnyP.leaf else (astOf n r).map WAnyP.work

theorem astAny_of_P (n : Text.WNet) (r : Text.WDef) : astAny n r = (astAnyP n r).map WAnyP.toAny := by
  unfold astAny astAnyP
  split
  · cases astLeaf r <;> rfl
  · cases astOf n r <;> rfl

theorem mapM_astAny (n : Text.WNet) : ∀ (Rs : List Text.WDef) (Ps : List WAnyP), Rs.mapM (astAnyP n) = some Ps →
    Rs.mapM (astAny n) = some (Ps.map WAnyP.toAny) := by
  intro Rs
  induction Rs with
  | nil => intro Ps h; simp only [List.mapM_nil, pure, Option.some.injEq] at h; subst h; rfl
  | cons r Rs ih =>
    intro Ps h
    rw [List.mapM_cons] at h
    cases ha : astAnyP n r with
    | none => simp [ha] at h
    | some P =>
      cases hr : Rs.mapM (astAnyP n) with
      | none => simp [ha, hr] at h
      | some Ps' =>
        simp only [ha, hr, Option.bind_eq_bind, Option.bind_some, pure, Option.some.injEq] at h
        subst h
        rw [List.mapM_cons, astAny_of_P, ha, ih Ps' hr]
        rfl

def anyToks : WAny → List String
  | .work m => tokensOf m
  | .leaf lf => leafToks lf

def anyOK : WAny → Bool
  | .work m => tokOK m
  | .leaf lf => leafOK lf

/-- a work module anywhere at the top level of the file -/
theorem topGo_work (f : Nat) (m : WModI) (rest : Toks) (acc : List Module) (h : modOK m.attrs m.name (m.ports.map (·.name)) m.sitems = true) :
    topGo (f + 2) (tokensOf m ++ rest) false [] acc =
      topGo (if m.attrs = [] then f + 1 else f) rest false [] (acc ++ [m.toModule]) := by
  have hm := fun pend => moduleP_toks m.attrs pend m.name (m.ports.map (·.name)) m.sitems rest h
  have hmodule : ∀ pend, (⟨m.name, false, pend, [], (m.ports.map (·.name)).map (fun a => (⟨a, none, none, none⟩ : HPort)),
      m.sitems.map SItem.toItem⟩ : Module) = { m.toModule with attrs := pend } := by
    intro pend
    simp [WModI.toModule, WModI.sitems, SItem.toItem, Function.comp_def]
  have hmod : ∀ (g : Nat) (pend : Attrs), topGo (g + 1) ("module" :: nameT m.name :: "(" :: (sepNames (m.ports.map (·.name)) ++ ")" :: ";" ::
      (m.sitems.flatMap SItem.toks ++ "endmodule" :: rest))) false pend acc =
      topGo g rest false [] (acc ++ [{ m.toModule with attrs := pend }]) := by
    intro g pend
    conv => lhs; unfold topGo
    simp only [fw_module.1, fw_module.2, Bool.false_eq_true, if_false, beq_self_eq_true, if_true, hm pend, hmodule pend]
  unfold tokensOf modToks
  by_cases ha : m.attrs = []
  · simp only [ha, starToks, List.isEmpty_nil, if_true, List.nil_append, List.cons_append, List.append_assoc]
    rw [hmod _ []]
    congr 2
    simp [WModI.toModule, ha]
  · have hok : attrsOK m.attrs = true := by
      simp only [modOK, Bool.and_eq_true] at h; exact h.1.1.1
    have hnd : (m.attrs.map (·.1)).Nodup := by
      simp only [attrsOK, Bool.and_eq_true, decide_eq_true_eq] at hok; exact hok.2
    have hs := star_toks m.attrs ("module" :: nameT m.name :: "(" :: (sepNames (m.ports.map (·.name)) ++ ")" :: ";" ::
      (m.sitems.flatMap SItem.toks ++ "endmodule" :: rest))) ha hok
    have hem : m.attrs.isEmpty = false := by cases hma : m.attrs <;> simp [hma] at ha ⊢
    unfold starToks at hs ⊢
    simp only [hem, Bool.false_eq_true, if_false, List.cons_append, List.append_assoc, List.nil_append, ha] at hs ⊢
    conv => lhs; unfold topGo
    have g1 : ("(" == "module") = false := by decide
    have g2 : ("(" == "primitive") = false := by decide
    simp only [fw_paren.1, fw_paren.2, g1, g2, Bool.false_eq_true, if_false, beq_self_eq_true, if_true, hs,
      mergeAttrs_nil m.attrs hnd]
    rw [hmod _ m.attrs]
    congr 2
theorem topGo_anys : ∀ (Ms : List WAny) (f : Nat) (acc : List Module),
    3 * Ms.length + 1 ≤ f → (∀ M ∈ Ms, anyOK M = true) →
    topGo f (Ms.flatMap anyToks) false [] acc = .ok (acc ++ Ms.map WAny.toModule) := by
  intro Ms
  induction Ms with
  | nil =>
    intro f acc hf _
    obtain ⟨g, hg⟩ : ∃ g, f = g + 1 := ⟨f - 1, by simp at hf; omega⟩
    subst hg
    unfold topGo
    simp
  | cons M Ms ih =>
    intro f acc hf hok
    simp only [List.flatMap_cons, List.length_cons] at hf ⊢
    cases M with
    | work m =>
      obtain ⟨g, hg⟩ : ∃ g, f = g + 2 := ⟨f - 2, by omega⟩
      subst hg
      have hm : tokOK m = true := hok (.work m) List.mem_cons_self
      simp only [tokOK, Bool.and_eq_true] at hm
      simp only [anyToks]
      rw [topGo_work g m _ acc hm.1,
        ih _ _ (by split <;> omega) (fun x hx => hok x (List.mem_cons_of_mem _ hx))]
      simp [WAny.toModule]
    | leaf lf =>
      obtain ⟨g, hg⟩ : ∃ g, f = g + 3 := ⟨f - 3, by omega⟩
      subst hg
      have hl : leafOK lf = true := hok (.leaf lf) List.mem_cons_self
      simp only [anyToks]
      rw [topGo_leaf g lf _ acc hl, ih g _ (by omega) (fun x hx => hok x (List.mem_cons_of_mem _ hx))]
      simp [WAny.toModule]

/-- the tokens of a hierarchical file (without the comment lines) -/
def fileToks (m : WModI) (Ms : List WAny) : List String := tokensOf m ++ Ms.flatMap anyToks

theorem anyToks_keep (M : WAny) (h : anyOK M = true) : (anyToks M).all keepTok = true := by
  cases M with
  | work m =>
    simp only [anyOK, tokOK, Bool.and_eq_true] at h
    exact keep_of_clean _ h.2
  | leaf lf => exact leafToks_keep lf h

theorem anyToks_len (M : WAny) : 3 ≤ (anyToks M).length := by
  cases M with
  | work m => simp [anyToks, tokensOf, modToks]; omega
  | leaf lf => simp [anyToks, leafToks, leafCore]

/-- **parse_hier.**  Token level for a hierarchical file: the REAL `parseV` on the comment lines followed by the tokens of
    the top module and of the later modules (work modules and `celldefine` modules, in any order) returns exactly their
    syntax trees. -/
theorem parse_hier (cs : Toks) (m : WModI) (Ms : List WAny) (hc : ∀ c ∈ cs, Text.isCommentTok c = true)
    (h : tokOK m = true) (hl : ∀ M ∈ Ms, anyOK M = true) :
    parseV (cs ++ fileToks m Ms) = .ok (m.toModule :: Ms.map WAny.toModule) := by
  have hall : ∀ M ∈ WAny.work m :: Ms, anyOK M = true := by
    intro M hM
    rcases List.mem_cons.mp hM with e | e
    · rw [e]; exact h
    · exact hl M e
  have hft : fileToks m Ms = (WAny.work m :: Ms).flatMap anyToks := by simp [fileToks, anyToks]
  have hkeep : (fileToks m Ms).all keepTok = true := by
    rw [hft, List.all_flatMap, List.all_eq_true]
    intro M hM
    exact anyToks_keep M (hall M hM)
  unfold parseV
  have h1 : preprocess ((cs ++ fileToks m Ms).length + 1) (cs ++ fileToks m Ms) false = .ok (fileToks m Ms) := by
    have : (cs ++ fileToks m Ms).length + 1 = ((fileToks m Ms).length + 1) + cs.length := by simp; omega
    rw [this, preprocess_comments cs _ _ hc]
    exact preprocess_keep _ _ (Nat.le_refl _) hkeep
  simp only [h1, bind, Except.bind]
  have hlen : ∀ (l : List WAny), 3 * l.length ≤ (l.flatMap anyToks).length := by
    intro l
    induction l with
    | nil => simp
    | cons a l ih =>
      have := anyToks_len a
      simp only [List.flatMap_cons, List.length_append, List.length_cons]; omega
  rw [hft, topGo_anys (WAny.work m :: Ms) _ [] (by have := hlen (WAny.work m :: Ms); omega) hall]
  simp [WAny.toModule]
/-! ### the writer, the pieces, and the end-to-end theorem -/

def renderAny : WAnyP → String
  | .work m => renderMod m
  | .leaf lf => renderLeaf lf

def anyPieces : WAnyP → List Piece
  | .work m => modP m
  | .leaf lf => leafP lf

/-- the text-side clauses for a definition written after the top (decidable) -/
def anyTextB (n : Text.WNet) (r : Text.WDef) : Bool :=
  match astAnyP n r with
  | some (.work _) => fragTop n r && topTextB n r
  | some (.leaf lf) => leafTextB r && decide ((lf.ports.map (·.name)).Nodup)
  | none => false

theorem any_text (n : Text.WNet) (r : Text.WDef) (P : WAnyP) (ha : astAnyP n r = some P) (ht : anyTextB n r = true) :
    Text.moduleText n optsBB r = .ok (renderAny P) := by
  unfold anyTextB at ht
  rw [ha] at ht
  unfold astAnyP at ha
  split at ha
  · simp only [Option.map_eq_some_iff] at ha
    obtain ⟨lf, hlf, e⟩ := ha
    subst e
    simp only [Bool.and_eq_true, decide_eq_true_eq] at ht
    exact moduleText_leaf n r lf (leafTextB_sound r ht.1) hlf ht.2
  · rename_i hp
    simp only [Option.map_eq_some_iff] at ha
    obtain ⟨m, hm, e⟩ := ha
    subst e
    simp only [Bool.and_eq_true] at ht
    have htt := topTextB_sound n r ht.2
    rw [moduleText_bb_nonprim n r htt.lib2]
    exact moduleText_top n r m ht.1 htt hm

theorem anys_text (n : Text.WNet) : ∀ (Rs : List Text.WDef) (Ps : List WAnyP), Rs.mapM (astAnyP n) = some Ps →
    (∀ r ∈ Rs, anyTextB n r = true) → Rs.mapM (Text.moduleText n optsBB) = .ok (Ps.map renderAny) := by
  intro Rs
  induction Rs with
  | nil => intro Ps hm _; simp only [List.mapM_nil, pure, Option.some.injEq] at hm; subst hm; rfl
  | cons r Rs ih =>
    intro Ps hm ht
    rw [List.mapM_cons] at hm
    cases ha : astAnyP n r with
    | none => simp [ha] at hm
    | some P =>
      cases hr : Rs.mapM (astAnyP n) with
      | none => simp [ha, hr] at hm
      | some Ps' =>
        simp only [ha, hr, Option.bind_eq_bind, Option.bind_some, pure, Option.some.injEq] at hm
        subst hm
        rw [List.mapM_cons]
        simp only [bind, Except.bind, any_text n r P ha (ht r List.mem_cons_self),
          ih Ps' hr (fun x hx => ht x (List.mem_cons_of_mem _ hx)), pure, Except.pure, List.map_cons]

/-- **composeV_text_hier.**  The writer on a hierarchical netlist (`write_blackbox = True`): the file header, the top
    module, then every other definition in the order `_compose` visits them. -/
theorem composeV_text_hier (n : Text.WNet) (T : Text.WDef) (kT : Nat) (ks : List Nat) (m : WModP) (Ps : List WAnyP)
    (hT : n.defs.getD kT default = T) (horder : composeOrder n = kT :: ks)
    (hfrag : fragTop n T = true) (ht : TopText n T) (hm : astOf n T = some m)
    (hrs : (leafDefs n ks).mapM (astAnyP n) = some Ps) (htxt : ∀ r ∈ leafDefs n ks, anyTextB n r = true) :
    ∃ fin, Text.composeV n optsBB = .ok (fileHeader n ++ (renderMod m ++ String.join (Ps.map renderAny)), fin) := by
  have hX : Text.moduleText n optsBB (n.defs.getD kT default) = .ok (renderMod m) := by
    rw [hT, moduleText_bb_nonprim n T ht.lib2]; exact moduleText_top n T m hfrag ht hm
  have hL := anys_text n _ Ps hrs htxt
  unfold leafDefs at hL
  rw [composeV_eq, horder, List.mapM_cons, mapM_getD n (Text.moduleText n optsBB) ks]
  simp only [bind, Except.bind, hX, hL, pure, Except.pure, join_cons]
  exact ⟨_, rfl⟩

def filePH (n : Text.WNet) (m : WModP) (Ps : List WAnyP) : List Piece := fileP n m ++ (Ps.map anyPieces).flatten

theorem chars_filePH (n : Text.WNet) (m : WModP) (Ps : List WAnyP) :
    pchars (filePH n m Ps) = (fileHeader n ++ (renderMod m ++ String.join (Ps.map renderAny))).toList := by
  unfold filePH
  rw [pchars_append, chars_fileP, pchars_flatten, List.map_map]
  have : Ps.map (pchars ∘ anyPieces) = Ps.map (String.toList ∘ renderAny) := by
    apply List.map_congr_left
    intro P _
    cases P with
    | work m' => exact chars_modP m'
    | leaf lf => exact chars_leafP lf
  rw [this]
  simp [String.toList_append, toList_join, List.flatMap, Function.comp_def, List.append_assoc]

def anyDirOK : WAnyP → Prop
  | .work m => ∀ p ∈ m.ports, p.dir ≠ .undef
  | .leaf lf => ∀ p ∈ lf.ports, p.dir ≠ .undef ∧ p.attrs = []

theorem toks_filePH (n : Text.WNet) (m : WModP) (Ps : List WAnyP) (hd : ∀ p ∈ m.ports, p.dir ≠ .undef)
    (hl : ∀ P ∈ Ps, anyDirOK P) :
    (filePH n m Ps).flatMap Piece.toks =
      ["//Generated from netlist by SpyDrNet", "//netlist name: " ++ fixName n.name] ++ fileToks m.toI (Ps.map WAnyP.toAny) := by
  have h1 := toks_modP m hd
  have h2 : ptoks ((Ps.map anyPieces).flatten) = (Ps.map WAnyP.toAny).flatMap anyToks := by
    have hmap : Ps.map (ptoks ∘ anyPieces) = Ps.map (anyToks ∘ WAnyP.toAny) := by
      apply List.map_congr_left
      intro P hP
      simp only [Function.comp]
      cases P with
      | work m' => exact toks_modP m' (hl _ hP)
      | leaf lf => exact toks_leafP lf (hl _ hP)
    rw [ptoks_flatten, List.map_map, hmap, List.flatMap_def, List.map_map]
  have h3 : (filePH n m Ps).flatMap Piece.toks = ptoks (fileP n m) ++ ptoks ((Ps.map anyPieces).flatten) :=
    ptoks_append _ _
  have h4 : ptoks (fileP n m) =
      ["//Generated from netlist by SpyDrNet", "//netlist name: " ++ fixName n.name] ++ tokensOf m.toI := by
    unfold fileP
    rw [ptoks_append, h1]
    rfl
  rw [h3, h2, h4]
  unfold fileToks
  simp

/-- the fragment of the hierarchical end-to-end theorem (decidable, structural) -/
def fragStructH (n : Text.WNet) (T : Text.WDef) (kT : Nat) (ks : List Nat) : Bool :=
  match astOf n T, (leafDefs n ks).mapM (astAnyP n) with
  | some m, some Ps =>
    (composeOrder n == kT :: ks) && fragHier n T (leafDefs n ks) && topTextB n T &&
    (leafDefs n ks).all (anyTextB n) && tokOK m.toI && (Ps.map WAnyP.toAny).all anyOK &&
    (filePH n m Ps).all Piece.ok && adjOK (filePH n m Ps) &&
    Text.isCommentTok ("//netlist name: " ++ fixName n.name)
  | _, _ => false

theorem anyDirOK_of (P : WAnyP) (h : anyOK P.toAny = true) : anyDirOK P := by
  cases P with
  | work m => exact ports_dir_of_tokOK m h
  | leaf lf =>
    intro p hp
    simp only [WAnyP.toAny, anyOK, leafOK, Bool.and_eq_true, List.all_eq_true] at h
    have hp' := h.1.2 p hp
    simp only [portOK, Bool.and_eq_true, bne_iff_ne, ne_eq] at hp'
    exact ⟨hp'.1.1.1, List.isEmpty_iff.mp hp'.2⟩

/-- **c04_text_hier.**  Write-then-read of a HIERARCHICAL netlist from characters (`write_blackbox = True`): the text the
    writer produces — top module, then every other definition in the order `_compose` visits them — is accepted by the whole
    reader (`lexV`, `parseV`, `elabDesign`), the netlist's top is elected, and EVERY module shows the view of its definition:
    the top and every other work module (ports, nets, instances), every primitive its interface. -/
theorem c04_text_hier (n : Text.WNet) (T : Text.WDef) (kT : Nat) (ks : List Nat) (hT : n.defs.getD kT default = T)
    (h : fragStructH n T kT ks = true) :
    ∃ text fin s, Text.composeV n optsBB = .ok (text, fin) ∧ Parse.readV text = .ok s ∧ s.top = some T.name ∧
      (∃ D ∈ s.defs, D.name = T.name ∧ viewD D = viewT n T ∧ D.lib = some "work") ∧
      (∀ r ∈ leafDefs n ks, isPrim r = false → ∃ D ∈ s.defs, D.name = r.name ∧ viewD D = viewT n r ∧ D.lib = some "work") ∧
      (∀ r ∈ leafDefs n ks, isPrim r = true → ∃ L ∈ s.defs, L.name = r.name ∧ L.lib = some "hdi_primitives" ∧
        ifaceD L = ifaceT r) := by
  unfold fragStructH at h
  cases hm : astOf n T with
  | none => simp [hm] at h
  | some m =>
    cases hl : (leafDefs n ks).mapM (astAnyP n) with
    | none => simp [hm, hl] at h
    | some Ps =>
      simp only [hm, hl, Bool.and_eq_true, beq_iff_eq, List.all_eq_true] at h
      obtain ⟨⟨⟨⟨⟨⟨⟨⟨h1, h2⟩, h3⟩, h4⟩, h5⟩, h6⟩, h8⟩, h9⟩, h10⟩ := h
      obtain ⟨m', Ms, s, a1, a2, a3, a4, _, a6, a7, a8⟩ := c04_ast_hier n T _ h2
      rw [hm] at a1
      have e1 : m' = m := (Option.some.inj a1).symm
      subst e1
      rw [mapM_astAny n _ Ps hl] at a2
      have e2 : Ms = Ps.map WAnyP.toAny := (Option.some.inj a2).symm
      subst e2
      have hfrag : fragTop n T = true := by
        simp only [fragHier, Bool.and_eq_true] at h2; exact h2.1.1.1.1
      obtain ⟨fin, hcv⟩ := composeV_text_hier n T kT ks m' Ps hT h1 hfrag (topTextB_sound n T h3) hm hl h4
      have hdtop := ports_dir_of_tokOK m' h5
      have hdl : ∀ P ∈ Ps, anyDirOK P := fun P hP => anyDirOK_of P (h6 _ (List.mem_map.mpr ⟨P, hP, rfl⟩))
      have hlex := lexV_pieces _ (filePH n m' Ps) (chars_filePH n m' Ps).symm h9 h8
      rw [toks_filePH n m' Ps hdtop hdl] at hlex
      refine ⟨_, fin, s, hcv, ?_, a4, a6, a7, a8⟩
      rw [readV_eq, hlex]
      unfold readT
      have hc1 : Text.isCommentTok "//Generated from netlist by SpyDrNet" = true := by decide +kernel
      rw [parse_hier _ m'.toI (Ps.map WAnyP.toAny) (by
        intro c hc
        simp only [List.mem_cons, List.mem_nil_iff, or_false] at hc
        rcases hc with e | e
        · rw [e]; exact hc1
        · rw [e]; exact h10) h5 h6]
      exact a3
/-! ### non-vacuity -/

def exHM : WModP :=
  ⟨"top", [],
   [⟨"a", .inp, some (1, 0), []⟩, ⟨"y", .out, none, []⟩],
   [⟨"w", "wire", none, []⟩, ⟨"y", "wire", none, []⟩, ⟨"a", "wire", some (1, 0), []⟩],
   [⟨"u0", "sub", [], [], [("p", .atom (.part "a" 1 0)), ("q", .atom (.id "w"))]⟩,
    ⟨"u1", "LUT1", [], [], [("I0", .atom (.id "w")), ("O", .atom (.id "y"))]⟩]⟩

def exHSub : WModP :=
  ⟨"sub", [("keep", none)],
   [⟨"p", .inp, some (1, 0), []⟩, ⟨"q", .out, none, [("mark", none)]⟩],
   [⟨"q", "wire", none, []⟩, ⟨"p", "wire", some (1, 0), []⟩],
   [⟨"g0", "LUT1", [], [], [("I0", .atom (.bit "p" 0)), ("O", .atom (.id "q"))]⟩]⟩

def exHPs : List WAnyP := [.work exHSub, .leaf ⟨"LUT1", [⟨"I0", .inp, none, []⟩, ⟨"O", .out, none, []⟩]⟩]

theorem exNetH_ast : astOf exNetH exTopH = some exHM := by rfl
theorem exNetH_Ps : (leafDefs exNetH [1, 2]).mapM (astAnyP exNetH) = some exHPs := by rfl

theorem modOK_of (m : WModI) (h : modOK m.attrs m.name (m.ports.map (·.name)) m.sitems = true) (hc : cleanToks (tokensOf m) = true) :
    tokOK m = true := by unfold tokOK; rw [h, hc]; rfl

theorem exHM_tokOK : tokOK exHM.toI = true := by
  apply modOK_of _ _ (by decide +kernel)
  have N : ∀ nm, nameK nm = true → nameTokB (nameT nm) nm = true := nameK_sound
  have P : ∀ t, plainK t = true → nameTokB t t = true := plainK_sound
  have I : ∀ i, intK i = true → intTokB i = true := intK_sound
  simp only [modOK, exHM, WModP.toI, WModI.sitems, PInst.toN, toXE, toX, List.map_cons, List.map_nil, List.all_cons, List.all_nil,
    List.cons_append, List.nil_append, SItem.ok, portOK, rangeOK, attrsOK, attrOK, instOK, paramsOK, connOK, exprOK, atomOK,
    Bool.and_eq_true, Bool.and_true, List.isEmpty_cons, Bool.not_false, decide_eq_true_eq]
  repeat' constructor
  all_goals first
    | exact N _ (by decide +kernel)
    | exact P _ (by decide +kernel)
    | exact I _ (by decide +kernel)
    | decide
    | simp

theorem exHSub_tokOK : tokOK exHSub.toI = true := by
  apply modOK_of _ _ (by decide +kernel)
  have N : ∀ nm, nameK nm = true → nameTokB (nameT nm) nm = true := nameK_sound
  have P : ∀ t, plainK t = true → nameTokB t t = true := plainK_sound
  have I : ∀ i, intK i = true → intTokB i = true := intK_sound
  simp only [modOK, exHSub, WModP.toI, WModI.sitems, PInst.toN, toXE, toX, List.map_cons, List.map_nil, List.all_cons, List.all_nil,
    List.cons_append, List.nil_append, SItem.ok, portOK, rangeOK, attrsOK, attrOK, instOK, paramsOK, connOK, exprOK, atomOK,
    Bool.and_eq_true, Bool.and_true, List.isEmpty_cons, Bool.not_false, decide_eq_true_eq]
  repeat' constructor
  all_goals first
    | exact N _ (by decide +kernel)
    | exact P _ (by decide +kernel)
    | exact I _ (by decide +kernel)
    | decide
    | simp

theorem exHLeaf_ok : leafOK ⟨"LUT1", [⟨"I0", .inp, none, []⟩, ⟨"O", .out, none, []⟩]⟩ = true := by
  have N : ∀ nm, nameK nm = true → nameTokB (nameT nm) nm = true := nameK_sound
  have c1 : cleanToks (leafCore ⟨"LUT1", [⟨"I0", .inp, none, []⟩, ⟨"O", .out, none, []⟩]⟩) = true := by decide +kernel
  simp only [leafOK, List.all_cons, List.all_nil, portOK, rangeOK, Bool.and_eq_true, Bool.and_true, List.isEmpty_nil, c1]
  repeat' constructor
  all_goals first
    | exact N _ (by decide +kernel)
    | decide
    | simp

/-- non-vacuity of the hierarchical end-to-end theorem -/
theorem exNetH_struct : fragStructH exNetH exTopH 0 [1, 2] = true := by
  unfold fragStructH
  rw [exNetH_ast, exNetH_Ps]
  simp only
  have a1 : (composeOrder exNetH == [0, 1, 2]) = true := by decide
  have a2 : fragHier exNetH exTopH (leafDefs exNetH [1, 2]) = true := exNetH_frag
  have a3 : topTextB exNetH exTopH = true := by decide
  have a4 : (leafDefs exNetH [1, 2]).all (anyTextB exNetH) = true := by decide
  have a6 : (exHPs.map WAnyP.toAny).all anyOK = true := by
    simp only [exHPs, List.map_cons, List.map_nil, List.all_cons, List.all_nil, WAnyP.toAny, anyOK, exHSub_tokOK, exHLeaf_ok]
    rfl
  have a8 : (filePH exNetH exHM exHPs).all Piece.ok = true := by decide +kernel
  have a9 : adjOK (filePH exNetH exHM exHPs) = true := by decide +kernel
  have a10 : Text.isCommentTok ("//netlist name: " ++ fixName exNetH.name) = true := by decide +kernel
  rw [a1, a2, a3, a4, exHM_tokOK, a6, a8, a9, a10]
  rfl

/-- the end-to-end statement on the hierarchical example, unconditionally -/
theorem exNetH_roundtrip :
    ∃ text fin s, Text.composeV exNetH optsBB = .ok (text, fin) ∧ Parse.readV text = .ok s ∧ s.top = some exTopH.name ∧
      (∃ D ∈ s.defs, D.name = exTopH.name ∧ viewD D = viewT exNetH exTopH ∧ D.lib = some "work") ∧
      (∀ r ∈ leafDefs exNetH [1, 2], isPrim r = false → ∃ D ∈ s.defs, D.name = r.name ∧ viewD D = viewT exNetH r ∧ D.lib = some "work") ∧
      (∀ r ∈ leafDefs exNetH [1, 2], isPrim r = true → ∃ L ∈ s.defs, L.name = r.name ∧ L.lib = some "hdi_primitives" ∧
        ifaceD L = ifaceT r) :=
  c04_text_hier exNetH exTopH 0 [1, 2] rfl exNetH_struct
end Spydr.Verilog.Elab
