/-
  Verilog engine — proof side, part 3: one instantiation with a named port map in the whole-design
  elaboration equals a pure fold (connStep) over the port map.
-/
import Spydr.Verilog.RoundTripConn
namespace Spydr.Verilog.Elab
open Spydr.Verilog

/-- what one named port-map entry does to the pin rows of the instance being built (pure; `none` = the
    entry is outside the fragment: unknown port, port not based at 0, expression outside the declared cables,
    wider than the port, or the port already connected) -/
def connStep (d rd : Def) (rows : List (List (Option Nat))) (c : String × XExpr) : Option (List (List (Option Nat))) :=
  match portIdx rd c.1 with
  | none => none
  | some k =>
    if (rd.ports.getD k default).lower = 0 ∧ k < rows.length then
      match c.2 with
      | .empty => if 1 ≤ (rd.ports.getD k default).pins.length then some rows else none
      | e =>
        match exprWires d e with
        | none => none
        | some ws =>
          if 1 ≤ ws.length ∧ ws.length ≤ (rd.ports.getD k default).pins.length ∧ ws.length ≤ (rows.getD k []).length ∧
              ((rows.getD k []).take ws.length).all (fun p => p.isNone) = true then
            some (rows.set k (ws.reverse.map some ++ (rows.getD k []).drop ws.length))
          else none
    else none

theorem connStep_length {d rd : Def} {rows rows' : List (List (Option Nat))} {c : String × XExpr}
    (h : connStep d rd rows c = some rows') : rows'.length = rows.length := by
  unfold connStep at h
  split at h
  · cases h
  · split at h
    · split at h
      · split at h
        · cases h; rfl
        · cases h
      · split at h
        · cases h
        · split at h
          · cases h; simp
          · cases h
    · cases h

theorem take_all_none {β : Type} (row : List (Option β)) (n : Nat)
    (h : (row.take n).all (fun p => p.isNone) = true) (hn : n ≤ row.length) :
    ∀ j, j < n → row[j]? = some none := by
  intro j hj
  have hjl : j < row.length := by omega
  rw [List.all_eq_true] at h
  have hm : row[j] ∈ row.take n := by
    rw [List.mem_take_iff_getElem]
    exact ⟨j, by omega, rfl⟩
  have := h _ hm
  rw [List.getElem?_eq_getElem hjl]
  cases hr : row[j] with
  | none => rfl
  | some x => rw [hr] at this; cases this

theorem RowsFull_setRows (s : St) (dn ref : String) (ii : Nat) (i0 : Inst) (rows : List (List (Option Nat))) (n : Nat)
    (hs : RowsFull s ref n) (hr : n ≤ rows.length) : RowsFull (setRows s dn ii i0 rows) ref n := by
  intro d' hd' i hi href
  unfold setRows St.upd at hd'
  obtain ⟨x, hx, hxe⟩ := List.mem_map.mp hd'
  by_cases e : x.name = dn
  · simp only [e, beq_self_eq_true, if_true] at hxe
    rw [← hxe] at hi
    simp only at hi
    rcases List.mem_or_eq_of_mem_set hi with h | h
    · exact hs x hx i h href
    · rw [h]; exact hr
  · simp only [show (x.name == dn) = false by simp [e], Bool.false_eq_true, if_false] at hxe
    rw [← hxe] at hi
    exact hs x hx i hi href

theorem namedConn_of_connStep (s : St) (dn ref iname : String) (d rd : Def) (ii : Nat) (i0 : Inst)
    (hd : Has s dn d) (hrd : Has s ref rd) (hne : ref ≠ dn) (hcn : (d.cables.map (·.name)).Nodup)
    (hi : instIdx d iname = some ii) (h0 : i0.name = iname) (hs : RowsFull s ref rd.ports.length)
    (rows rows' : List (List (Option Nat))) (hlen : rows.length = rd.ports.length) (c : String × XExpr)
    (h : connStep d rd rows c = some rows') :
    namedConn (setRows s dn ii i0 rows) dn iname ref c.1 c.2 = .ok (setRows s dn ii i0 rows') := by
  unfold connStep at h
  cases hk : portIdx rd c.1 with
  | none => simp [hk] at h
  | some k =>
    simp only [hk] at h
    have hklt := portIdx_lt hk
    split at h
    · rename_i hcond
      obtain ⟨hlow, hkr⟩ := hcond
      have hrf : RowsFull (setRows s dn ii i0 rows) ref (k + 1) :=
        RowsFull_setRows s dn ref ii i0 rows (k + 1)
          (fun d' hd' i hi' hr => Nat.le_trans (by omega) (hs d' hd' i hi' hr)) (by omega)
      have hname : ∀ x : Def, ({ x with insts := x.insts.set ii { i0 with pins := rows } } : Def).name = x.name := fun _ => rfl
      have hrd1 : Has (setRows s dn ii i0 rows) ref rd := hrd.upd_other _ hname hne
      cases he : c.2 with
      | empty =>
        simp only [he] at h
        split at h
        · rename_i hw
          cases h
          simp only [namedConn]
          exact createOrUpdatePort_inside (setRows s dn ii i0 rows) ref c.1 rd k 1 hrd1 hk hlow (Nat.le_refl 1) hw hrf
        · cases h
      | atom a =>
        simp only [he] at h
        cases hws : exprWires d (.atom a) with
        | none => simp [hws] at h
        | some ws =>
          simp only [hws] at h
          split at h
          · rename_i hc
            obtain ⟨h1, hW, hrow, hfree⟩ := hc
            cases h
            exact namedConn_step s dn ref iname c.1 d rd ii k i0 rows (.atom a) ws hd hrd hne hcn hi h0 hk hlow hws
              (by intro e; cases e) h1 hW hrf hrow (take_all_none _ _ hfree hrow)
          · cases h
      | cat as =>
        simp only [he] at h
        cases hws : exprWires d (.cat as) with
        | none => simp [hws] at h
        | some ws =>
          simp only [hws] at h
          split at h
          · rename_i hc
            obtain ⟨h1, hW, hrow, hfree⟩ := hc
            cases h
            exact namedConn_step s dn ref iname c.1 d rd ii k i0 rows (.cat as) ws hd hrd hne hcn hi h0 hk hlow hws
              (by intro e; cases e) h1 hW hrf hrow (take_all_none _ _ hfree hrow)
          · cases h
    · cases h

/-- the named port map of one instance: the pure fold of `connStep` describes what the elaboration does -/
theorem namedFold (s : St) (dn ref iname : String) (d rd : Def) (ii : Nat) (i0 : Inst)
    (hd : Has s dn d) (hrd : Has s ref rd) (hne : ref ≠ dn) (hcn : (d.cables.map (·.name)).Nodup)
    (hi : instIdx d iname = some ii) (h0 : i0.name = iname) (hs : RowsFull s ref rd.ports.length) :
    ∀ (conns : List (String × XExpr)) (rows rows' : List (List (Option Nat))), rows.length = rd.ports.length →
      conns.foldlM (connStep d rd) rows = some rows' →
      (conns.map (fun c => ((some c.1 : Option String), c.2))).foldlM (fun s c => match c.1 with
          | some p => namedConn s dn iname ref p c.2
          | none => throw "named map without port name") (setRows s dn ii i0 rows) = .ok (setRows s dn ii i0 rows') := by
  intro conns
  induction conns with
  | nil =>
    intro rows rows' _ h
    simp only [List.foldlM_nil] at h
    cases h
    rfl
  | cons c cs ih =>
    intro rows rows' hlen h
    rw [List.foldlM_cons] at h
    cases h1 : connStep d rd rows c with
    | none => simp [h1] at h
    | some r1 =>
      simp only [h1, Option.bind_eq_bind, Option.bind_some] at h
      simp only [List.map_cons, List.foldlM_cons, bind, Except.bind,
        namedConn_of_connStep s dn ref iname d rd ii i0 hd hrd hne hcn hi h0 hs rows r1 hlen c h1]
      exact ih r1 rows' (by rw [connStep_length h1, hlen]) h

theorem connStep_cables (d d' rd : Def) (h : d'.cables = d.cables) (rows : List (List (Option Nat))) (c : String × XExpr) :
    connStep d' rd rows c = connStep d rd rows c := by
  unfold connStep
  cases c.2 <;> simp only [exprWires_cables d d' h]

theorem instIdx_append (d : Def) (name : String) (i : Inst) (hfresh : instIdx d name = none) (hi : i.name = name) :
    instIdx { d with insts := d.insts ++ [i] } name = some d.insts.length := by
  unfold instIdx at hfresh ⊢
  rw [List.findIdx?_eq_none_iff] at hfresh
  rw [List.findIdx?_eq_some_iff_getElem]
  refine ⟨by simp, by simp [hi], ?_⟩
  intro j hj
  have hjl : j < d.insts.length := hj
  simp only [List.getElem_append_left hjl]
  have := hfresh d.insts[j] (List.getElem_mem hjl)
  simpa using this

theorem setRows_self (s : St) (dn : String) (d : Def) (i : Inst) (hd : Has s dn d) (ii : Nat)
    (hget : d.insts[ii]? = some i) : setRows s dn ii i i.pins = s := by
  unfold setRows
  apply St.upd_id' s dn _ d hd
  have : d.insts.set ii { i with pins := i.pins } = d.insts := by
    apply List.ext_getElem?
    intro j
    by_cases e : j = ii
    · subst e
      have hlt : j < d.insts.length := by
        rcases List.getElem?_eq_some_iff.mp hget with ⟨h, _⟩; exact h
      rw [List.getElem?_set_self hlt, hget]
    · rw [List.getElem?_set_ne (by omega)]
  rw [this]

/-- parameters given in `#( )`: first value of a key wins (`set_instance_parameters` on a new instance) -/
def mergeP (params : Params) : Params :=
  params.foldl (fun acc kv => if acc.any (fun x => x.1 == kv.1) then acc else acc ++ [kv]) []


theorem foldlM_connStep_cables (d d' rd : Def) (h : d'.cables = d.cables) (conns : List (String × XExpr)) :
    ∀ rows, conns.foldlM (connStep d' rd) rows = conns.foldlM (connStep d rd) rows := by
  induction conns with
  | nil => intro _; rfl
  | cons c cs ih =>
    intro rows
    simp only [List.foldlM_cons, connStep_cables d d' rd h]
    cases connStep d rd rows c with
    | none => rfl
    | some r => exact ih r

theorem foldlM_connStep_length (d rd : Def) (conns : List (String × XExpr)) :
    ∀ rows rows', conns.foldlM (connStep d rd) rows = some rows' → rows'.length = rows.length := by
  induction conns with
  | nil => intro rows rows' h; simp at h; rw [h]
  | cons c cs ih =>
    intro rows rows' h
    rw [List.foldlM_cons] at h
    cases h1 : connStep d rd rows c with
    | none => simp [h1] at h
    | some r =>
      simp only [h1, Option.bind_eq_bind, Option.bind_some] at h
      rw [ih r rows' h, connStep_length h1]

def freshInst (name mod : String) (attrs : Attrs) (rd : Def) : Inst :=
  ⟨name, mod, [], some attrs, rd.ports.map (fun p => List.replicate p.pins.length (none : Option Nat))⟩

def appInst (i : Inst) : Def → Def := fun x => { x with insts := x.insts ++ [i] }

def parInst (name : String) (params : Params) : Def → Def := fun x => { x with insts := x.insts.map (fun j =>
    if j.name == name then { j with params := params.foldl (fun acc kv =>
      if acc.any (fun x => x.1 == kv.1) then acc else acc ++ [kv]) j.params } else j) }

/-- **instantiate_named.**  One instantiation with a named port map, in the whole-design elaboration, of a
    module that is already in the table, with fresh instance name, every entry inside the fragment
    (`connStep`): the table gains exactly that instance, its pin rows are the pure fold of `connStep` over
    the port map starting from all-free rows; no wire is created, nothing is deferred. -/
theorem instantiate_named (s : St) (dn mod name : String) (params : Params) (attrs : Attrs)
    (conns : List (String × XExpr)) (d rd : Def) (rows' : List (List (Option Nat)))
    (hd : Has s dn d) (hrd : Has s mod rd) (hne : mod ≠ dn) (hcn : (d.cables.map (·.name)).Nodup)
    (hfresh : instIdx d name = none) (hs : RowsFull s mod rd.ports.length)
    (hrows : conns.foldlM (connStep d rd) (rd.ports.map (fun p => List.replicate p.pins.length none)) = some rows') :
    ∃ s', instantiate s dn mod name params attrs true (conns.map (fun c => ((some c.1 : Option String), c.2))) = .ok s' ∧
      s'.defs = s.defs.map (fun x => if x.name == dn then
        { x with insts := x.insts ++ [⟨name, mod, mergeP params, some attrs, rows'⟩] } else x) ∧
      s'.next = s.next ∧ s'.pending = s.pending ∧ s'.acount = s.acount ∧
      s'.top = (if s.top == some mod then some (climb s (s.defs.length + 1) dn) else s.top) := by
  -- the state after the (possible) re-election of the top: same table
  generalize hsT : (if s.top == some mod then { s with top := some (climb s (s.defs.length + 1) dn) } else s) = sT
  have hdefs : sT.defs = s.defs := by rw [← hsT]; split <;> rfl
  have hnext : sT.next = s.next := by rw [← hsT]; split <;> rfl
  have hpend : sT.pending = s.pending := by rw [← hsT]; split <;> rfl
  have hac : sT.acount = s.acount := by rw [← hsT]; split <;> rfl
  have hdT : Has sT dn d := by unfold Has; rw [hdefs]; exact hd
  have hrdT : Has sT mod rd := by unfold Has; rw [hdefs]; exact hrd
  have hsTf : RowsFull sT mod rd.ports.length := by unfold RowsFull; rw [hdefs]; exact hs
  have hens : sT.ensure mod = sT := by unfold St.ensure; rw [hrdT.find]
  generalize hrows0 : rd.ports.map (fun p => List.replicate p.pins.length (none : Option Nat)) = rows0 at hrows
  have hr0len : rows0.length = rd.ports.length := by rw [← hrows0]; simp
  generalize hi0 : freshInst name mod attrs rd = i
  have hipins : i.pins = rows0 := by rw [← hi0, ← hrows0]; rfl
  have hiname : i.name = name := by rw [← hi0]; rfl
  generalize hfa : appInst i = fapp
  have hname : ∀ x, (fapp x).name = x.name := by intro x; rw [← hfa]; rfl
  have hd2 : Has (sT.upd dn fapp) dn (fapp d) := hdT.upd _ hname
  have hrd2 : Has (sT.upd dn fapp) mod rd := hrdT.upd_other _ hname hne
  have hi2 : instIdx (fapp d) name = some d.insts.length := by rw [← hfa]; exact instIdx_append d name i hfresh hiname
  have hs2 : RowsFull (sT.upd dn fapp) mod rd.ports.length := by
    intro d' hd' j hj href
    unfold St.upd at hd'
    obtain ⟨x, hx, hxe⟩ := List.mem_map.mp hd'
    by_cases e : x.name = dn
    · simp only [e, beq_self_eq_true, if_true] at hxe
      rw [← hxe, ← hfa] at hj
      simp only [appInst] at hj
      rcases List.mem_append.mp hj with h | h
      · exact hsTf x hx j h href
      · simp only [List.mem_singleton] at h
        rw [h, hipins, hr0len]; exact Nat.le_refl _
    · simp only [show (x.name == dn) = false by simp [e], Bool.false_eq_true, if_false] at hxe
      rw [← hxe] at hj
      exact hsTf x hx j hj href
  have hself : setRows (sT.upd dn fapp) dn d.insts.length i rows0 = sT.upd dn fapp := by
    rw [← hipins]
    exact setRows_self (sT.upd dn fapp) dn (fapp d) i hd2 d.insts.length (by rw [← hfa]; simp [appInst])
  have hrows2 : conns.foldlM (connStep (fapp d) rd) rows0 = some rows' := by
    rw [foldlM_connStep_cables d (fapp d) rd (by rw [← hfa]; rfl)]; exact hrows
  have hfold := namedFold (sT.upd dn fapp) dn mod name (fapp d) rd d.insts.length i hd2 hrd2 hne (by rw [← hfa]; exact hcn) hi2 hiname hs2
    conns rows0 rows' hr0len hrows2
  rw [hself] at hfold
  refine ⟨(setRows (sT.upd dn fapp) dn d.insts.length i rows').upd dn (parInst name params), ?_, ?_, ?_, ?_, ?_, ?_⟩
  · unfold instantiate
    simp only [hsT, hens, bind, Except.bind, getDef_has hrdT, getDef_has hdT, hfresh, Option.isSome_none,
      Bool.false_eq_true, if_false, if_true]
    have h2 := hfold
    rw [← hfa, ← hi0] at h2
    unfold appInst freshInst at h2
    generalize hX : List.foldlM (m := Except String) _ (sT.upd dn _) _ = X
    have hX2 : X = Except.ok (setRows (sT.upd dn fapp) dn d.insts.length i rows') := by
      rw [← hX, ← hfa, ← hi0]; exact h2
    rw [hX2]
    rfl
  · unfold setRows
    rw [St.upd_upd _ _ _ _ hname, St.upd_upd _ _ _ _ (fun x => by rw [hname])]
    unfold St.upd
    simp only
    rw [hdefs]
    apply List.map_congr_left
    intro x hx
    by_cases e : x.name = dn
    · have hxd : x = d := hd.2.2 x hx e
      subst hxd
      simp only [e, beq_self_eq_true, if_true, parInst]
      rw [← hfa]
      simp only [appInst]
      congr 1
      have hset : (x.insts ++ [i]).set x.insts.length { i with pins := rows' } = x.insts ++ [{ i with pins := rows' }] := by
        rw [List.set_append_right _ _ (Nat.le_refl _)]
        simp
      rw [hset, List.map_append]
      congr 1
      · conv => rhs; rw [← List.map_id x.insts]
        apply List.map_congr_left
        intro j hj
        unfold instIdx at hfresh
        rw [List.findIdx?_eq_none_iff] at hfresh
        have := hfresh j hj
        simp only [this, Bool.false_eq_true, if_false, id]
      · rw [← hi0]; simp [freshInst, mergeP]
    · simp [e]
  · simp only [setRows, St.upd]; exact hnext
  · simp only [setRows, St.upd]; exact hpend
  · simp only [setRows, St.upd]; exact hac
  · show sT.top = _
    rw [← hsT]; split <;> rfl
end Spydr.Verilog.Elab
