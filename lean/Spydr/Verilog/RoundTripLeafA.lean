/-
  Verilog engine — proof side, part 31: a module declared AFTER it was instantiated (the leaves the writer prints after the
  top with `write_blackbox=True`): padding of instance rows, the header entry of a port an instance created.
-/
import Spydr.Verilog.RoundTripView
set_option maxHeartbeats 800000
namespace Spydr.Verilog.Elab
open Spydr.Verilog

/-! ### padding instance rows: what a later declaration of an instantiated module does to its instances -/

def padRow (post : Nat) (row : List (Option Nat)) : List (Option Nat) := row ++ List.replicate post none

/-- row `k` of every instance of `dn` gets `post` free pins at the high end -/
def padS (s : St) (dn : String) (k post : Nat) : St := mapInstRows s dn k (padRow post)

theorem def_insts_eta (d : Def) (h : d.insts = []) (g : Inst → Inst) : ({ d with insts := d.insts.map g } : Def) = d := by
  cases d; simp_all

theorem mapInstRows_put (s : St) (dn : String) (k : Nat) (f : List (Option Nat) → List (Option Nat)) (d' : Def) (n : Nat)
    (hi : d'.insts = []) : mapInstRows (s.put dn d' n) dn k f = (mapInstRows s dn k f).put dn d' n := by
  unfold mapInstRows St.put withNext St.upd
  simp only [List.map_map]
  congr 1
  apply List.map_congr_left
  intro x _
  simp only [Function.comp]
  by_cases e : x.name = dn
  · simp only [e, beq_self_eq_true, if_true]
    exact def_insts_eta d' hi _
  · simp [e]

theorem Has.mapRows {s : St} {dn : String} {d : Def} (h : Has s dn d) (hi : d.insts = []) (ref : String) (k : Nat)
    (f : List (Option Nat) → List (Option Nat)) : Has (mapInstRows s ref k f) dn d := by
  obtain ⟨hm, hn, hu⟩ := h
  refine ⟨?_, hn, ?_⟩
  · unfold mapInstRows
    exact List.mem_map.mpr ⟨d, hm, def_insts_eta d hi _⟩
  · intro x' hx' hxn
    unfold mapInstRows at hx'
    obtain ⟨x, hx, hxe⟩ := List.mem_map.mp hx'
    have : x.name = dn := by rw [← hxe] at hxn; exact hxn
    have hxd := hu x hx this
    rw [← hxe, hxd]
    exact def_insts_eta d hi _

theorem RowsFull.mapRows {s : St} {ref : String} {K : Nat} (h : RowsFull s ref K) (r2 : String) (k : Nat)
    (f : List (Option Nat) → List (Option Nat)) : RowsFull (mapInstRows s r2 k f) ref K := by
  intro d' hd' i' hi' href
  unfold mapInstRows at hd'
  obtain ⟨d, hd, hde⟩ := List.mem_map.mp hd'
  rw [← hde] at hi'
  obtain ⟨i, hi, hie⟩ := List.mem_map.mp hi'
  by_cases e : i.ref = r2
  · simp only [e, beq_self_eq_true, if_true] at hie
    rw [← hie] at href ⊢
    have := h d hd i hi (e.trans href)
    simp only [List.length_set, List.length_append, List.length_replicate]
    omega
  · simp only [show (i.ref == r2) = false by simp [e], Bool.false_eq_true, if_false] at hie
    rw [← hie] at href ⊢
    exact h d hd i hi href

theorem RowsFull.put {s : St} {ref : String} {K : Nat} (h : RowsFull s ref K) (dn : String) (d' : Def) (n : Nat)
    (hi : d'.insts = []) : RowsFull (s.put dn d' n) ref K := by
  intro x' hx' i hi' href
  have hx'' : x' ∈ s.defs.map (fun x => if x.name == dn then d' else x) := hx'
  obtain ⟨x, hx, hxe⟩ := List.mem_map.mp hx''
  by_cases e : x.name = dn
  · simp only [e, beq_self_eq_true, if_true] at hxe
    rw [← hxe, hi] at hi'; cases hi'
  · simp only [show (x.name == dn) = false by simp [e], Bool.false_eq_true, if_false] at hxe
    rw [← hxe] at hi'
    exact h x hx i hi' href

theorem put_upd (s : St) (dn : String) (d : Def) (n : Nat) (g : Def → Def) (hn : d.name = dn) :
    (s.put dn d n).upd dn g = s.put dn (g d) n := by
  unfold St.put withNext St.upd
  simp only [List.map_map]
  congr 1
  apply List.map_congr_left
  intro x _
  simp only [Function.comp]
  by_cases e : x.name = dn
  · simp [e, hn]
  · simp [e]

theorem put_withNext (s : St) (dn : String) (d : Def) (n m : Nat) : withNext (s.put dn d n) m = s.put dn d m := rfl

theorem put_next (s : St) (dn : String) (d : Def) (n : Nat) : (s.put dn d n).next = n := rfl

/-! ### the header of a module that instances have already given ports -/

theorem populateNew_span (lo : Int) (len : Nat) (h : 1 ≤ len) :
    populateNew (some (lo + (len : Int) - 1)) (some lo) = (lo, len, true) := by
  simp only [populateNew]
  have h1 : min (lo + (len : Int) - 1) lo = lo := by omega
  have h2 : max (lo + (len : Int) - 1) lo = lo + (len : Int) - 1 := by omega
  rw [h1, h2]
  refine Prod.ext rfl (Prod.ext ?_ ?_)
  · show (lo + (len : Int) - 1 - lo + 1).toNat = len; omega
  · show decide (lo ≤ lo + (len : Int) - 1) = true; simp; omega

theorem list_set_getD {α : Type} [Inhabited α] (l : List α) (k : Nat) (hk : k < l.length) : l.set k (l.getD k default) = l := by
  apply List.ext_getElem?
  intro j
  by_cases ej : j = k
  · subst ej
    rw [List.getElem?_set_self hk]
    simp [List.getD, List.getElem?_eq_getElem hk]
  · rw [List.getElem?_set_ne (by omega)]

/-- a header entry without range or direction on a port that exists: nothing changes -/
theorem createOrUpdatePort_none (s : St) (dn a : String) (d : Def) (k : Nat)
    (hd : Has s dn d) (hk : portIdx d a = some k) (hr : RowsFull s dn (k + 1)) :
    createOrUpdatePort s dn a none none none false = .ok s := by
  unfold createOrUpdatePort
  rw [getDef_has hd]
  have hrz : ∀ lo w, resizePort lo w none none false = ⟨lo, 0, 0⟩ := fun _ _ => rfl
  simp only [bind, Except.bind, hk, hrz, pure, Except.pure]
  have hklt := portIdx_lt hk
  have hp : ∀ (p : Port),
      ({ p with lower := p.lower, pins := List.replicate 0 none ++ p.pins ++ List.replicate 0 none, dir := p.dir } : Port) = p := by
    intro p; cases p; simp
  rw [hp (d.ports.getD k default)]
  have hu : s.upd dn (fun d' => { d' with ports := d'.ports.set k (d.ports.getD k default) }) = s := by
    apply St.upd_id' s dn _ d hd
    rw [list_set_getD d.ports k hklt]
  rw [hu]
  exact congrArg Except.ok (mapInstRows_id s dn k _ (by intro row; simp) hr)

/-- header entry `a` of a module whose port `a` was created by an instance: the port gets its net -/
def hdrStepL (d : Def) (n : Nat) (a : String) : Option (Def × Nat) :=
  match portIdx d a with
  | some k =>
    if d.cables.find? (fun c => c.name == a) = none ∧
        (d.ports.getD k default).pins = List.replicate (d.ports.getD k default).pins.length none ∧
        1 ≤ (d.ports.getD k default).pins.length ∧ (d.ports.getD k default).downto = true then
      some ({ d with
        ports := d.ports.set k { (d.ports.getD k default) with pins := (ids n (d.ports.getD k default).pins.length).map some },
        cables := d.cables ++ [portCable a (d.ports.getD k default).lower true (ids n (d.ports.getD k default).pins.length)] },
        n + (d.ports.getD k default).pins.length)
    else none
  | none => none

theorem hdrStepL_run (dn : String) (s : St) (d : Def) (a : String) (d' : Def) (n' : Nat)
    (hd : Has s dn d) (hr : RowsFull s dn d.ports.length) (h : hdrStepL d s.next a = some (d', n')) :
    headerPort s dn ⟨a, none, none, none⟩ = .ok (s.put dn d' n') ∧ d'.name = d.name ∧ d'.insts = d.insts ∧
      d'.ports.length = d.ports.length := by
  unfold hdrStepL at h
  split at h
  · rename_i k hk
    split at h
    · rename_i hc
      obtain ⟨hcn, hpins, hlen, hdt⟩ := hc
      simp only [Option.some.injEq, Prod.mk.injEq] at h
      obtain ⟨h1, h2⟩ := h
      subst h1 h2
      refine ⟨?_, rfl, rfl, by simp⟩
      have hklt := portIdx_lt hk
      generalize hP : d.ports.getD k default = P at hpins hlen hdt ⊢
      generalize hL : P.pins.length = len at hpins hlen ⊢
      have h1 := createOrUpdatePort_none s dn a d k hd hk (fun x hx i hi e => by have := hr x hx i hi e; omega)
      -- the cable
      have hf2 : ∀ x, (addCable (portCable a P.lower true (ids s.next len)) x).name = x.name := fun _ => rfl
      have h2 : createOrUpdateCable s dn a (some (P.lower + (len : Int) - 1)) (some P.lower) none false =
          .ok ((withNext s (s.next + len)).upd dn (addCable (portCable a P.lower true (ids s.next len)))) := by
        unfold createOrUpdateCable
        rw [getDef_has hd]
        simp only [bind, Except.bind, hcn, populateNew_span P.lower len hlen, fresh_eq, pure, Except.pure]
        rfl
      have hd2 : Has ((withNext s (s.next + len)).upd dn (addCable (portCable a P.lower true (ids s.next len)))) dn
          (addCable (portCable a P.lower true (ids s.next len)) d) :=
        (Has.of_defs (s := s) (s' := withNext s (s.next + len)) rfl hd).upd _ hf2
      -- connecting
      have h3 : connectPortCable ((withNext s (s.next + len)).upd dn (addCable (portCable a P.lower true (ids s.next len)))) dn a =
          .ok (((withNext s (s.next + len)).upd dn (addCable (portCable a P.lower true (ids s.next len)))).upd dn
            (putPort k { P with pins := (ids s.next len).map some })) := by
        unfold connectPortCable
        rw [getDef_has hd2]
        have hk2 : portIdx (addCable (portCable a P.lower true (ids s.next len)) d) a = some k := hk
        have hfc : (addCable (portCable a P.lower true (ids s.next len)) d).cables.find? (fun c => c.name == a) =
            some (portCable a P.lower true (ids s.next len)) := find_append_new d.cables a _ hcn rfl
        have hget2 : (addCable (portCable a P.lower true (ids s.next len)) d).ports.getD k default = P := hP
        simp only [bind, Except.bind, hk2, hfc, hget2]
        have hw : (portCable a P.lower true (ids s.next len)).wires.length = len := by simp [portCable, ids]
        have hlen' : (P.pins.length != (portCable a P.lower true (ids s.next len)).wires.length) = false := by
          rw [hw, hL]; simp
        simp only [hlen', Bool.false_eq_true, if_false]
        have hpins' : P.pins = List.replicate (portCable a P.lower true (ids s.next len)).wires.length none := by
          rw [hw]; exact hpins
        rw [hpins', setRow_all]
        rfl
      unfold headerPort
      simp only [bind, Except.bind, rngL, rngR, Option.map_none, h1, getDef_has hd, hk, Option.getD_some, hP, hL, hdt, if_true, Option.isSome_none]
      rw [h2]
      simp only [h3]
      congr 1
      have hwn : ∀ (S : St) (n : Nat) (m : String) (g : Def → Def), (withNext S n).upd m g = withNext (S.upd m g) n :=
        fun _ _ _ _ => rfl
      rw [hwn, hwn, St.upd_upd _ _ _ _ hf2, upd_eq_put s dn d _ _ hd]
      congr 1
      simp [putPort, addCable, hdt]
    · cases h
  · cases h
end Spydr.Verilog.Elab
