/-
  Verilog engine — proof side, part 32: the body declaration `dir [msb:lsb] name ;` of a module declared after it was
  instantiated: port and net grow at the high end, every instance row of that port grows with them (`declStepL_run`).
-/
import Spydr.Verilog.RoundTripLeafA
set_option maxHeartbeats 1600000
namespace Spydr.Verilog.Elab
open Spydr.Verilog

/-! ### a body port declaration of a module whose port (and its net) exist with `len` bits -/

def declPost (rng : Option (Int × Int)) (len : Nat) : Nat :=
  match rng with
  | none => 0
  | some (a, b) => (a - b + 1 - (len : Int)).toNat

def declLo (rng : Option (Int × Int)) (lo : Int) : Int :=
  match rng with
  | none => lo
  | some (_, b) => b

/-- the declared range is written msb first and has room for the `len` bits that exist -/
def lenOK (rng : Option (Int × Int)) (len : Nat) : Prop :=
  match rng with
  | none => len = 1
  | some (a, b) => b ≤ a ∧ (len : Int) ≤ a - b + 1

def lenOKb (rng : Option (Int × Int)) (len : Nat) : Bool :=
  match rng with
  | none => decide (len = 1)
  | some (a, b) => decide (b ≤ a) && decide ((len : Int) ≤ a - b + 1)

theorem lenOK_of_b (rng : Option (Int × Int)) (len : Nat) (h : lenOKb rng len = true) : lenOK rng len := by
  cases rng with
  | none => simpa [lenOKb, lenOK] using h
  | some p => obtain ⟨a, b⟩ := p; simpa [lenOKb, lenOK] using h

theorem resizeCable_decl (rng : Option (Int × Int)) (lo : Int) (len : Nat) (h : lenOK rng len) :
    resizeCable lo len (rngL rng) (rngR rng) true = ⟨declLo rng lo, 0, declPost rng len⟩ := by
  cases rng with
  | none => rfl
  | some p =>
    obtain ⟨a, b⟩ := p
    simp only [lenOK] at h
    simp only [resizeCable, rngL, rngR, Option.map_some, inRange, if_true, declLo, declPost]
    have h1 : min a b = b := by omega
    have h2 : max a b = a := by omega
    rw [h1, h2]
    have h3 : ¬ b < b := by omega
    simp only [h3, if_false]
    congr 1
    · simp
    · split <;> omega

theorem resizePort_decl (rng : Option (Int × Int)) (lo : Int) (len : Nat) (h : lenOK rng len) :
    resizePort lo len (rngL rng) (rngR rng) true = ⟨declLo rng lo, 0, declPost rng len⟩ := by
  cases rng with
  | none => rfl
  | some p =>
    obtain ⟨a, b⟩ := p
    simp only [lenOK] at h
    simp only [resizePort, rngL, rngR, Option.map_some, inRange, if_true, declLo, declPost]
    have h1 : min a b = b := by omega
    have h2 : max a b = a := by omega
    rw [h1, h2]
    split
    · rename_i e
      congr 1
      omega
    · have h3 : ¬ b < b := by omega
      simp only [h3, if_false]
      congr 1
      · simp
      · split <;> omega

theorem getWires_decl (rng : Option (Int × Int)) (lo : Int) (len : Nat) (h : lenOK rng len) (xs : List Nat)
    (hx : xs.length = len + declPost rng len) :
    getWires ⟨declLo rng lo, xs⟩ (rngL rng) (rngR rng) = some xs.reverse := by
  cases rng with
  | none => rfl
  | some p =>
    obtain ⟨a, b⟩ := p
    simp only [lenOK] at h
    simp only [declPost] at hx
    simp only [getWires, rngL, rngR, Option.map_some, declLo]
    have h1 : min (a - b) (b - b) = 0 := by omega
    have h2 : max (a - b) (b - b) + 1 = (xs.length : Int) := by omega
    rw [h1, h2, pySlice_inrange _ _ _ (by omega) (by omega) (by omega)]
    simp

def grownL (c0 : Cable) (rng : Option (Int × Int)) (next : Nat) : Cable :=
  { c0 with lower := declLo rng c0.lower, wires := c0.wires ++ ids next (declPost rng c0.wires.length) }

theorem cable_growL (s : St) (dn name : String) (d : Def) (rng : Option (Int × Int)) (c0 : Cable)
    (hd : Has s dn d) (hc : HasCable d name c0) (hok : lenOK rng c0.wires.length) :
    createOrUpdateCable s dn name (rngL rng) (rngR rng) none true =
      .ok (s.put dn (setCable name (grownL c0 rng s.next) d) (s.next + declPost rng c0.wires.length)) := by
  unfold createOrUpdateCable
  rw [getDef_has hd]
  simp only [bind, Except.bind, hc.find, resizeCable_decl rng c0.lower c0.wires.length hok, fresh_eq, pure, Except.pure]
  rw [← upd_eq_put s dn d (setCable name (grownL c0 rng s.next)) _ hd]
  congr 1

theorem port_growL (s : St) (dn name : String) (d : Def) (k : Nat) (dir : Dir) (rng : Option (Int × Int)) (P : Port)
    (hd : Has s dn d) (hi : d.insts = []) (hk : portIdx d name = some k) (hP : d.ports.getD k default = P)
    (hok : lenOK rng P.pins.length) :
    createOrUpdatePort s dn name (rngL rng) (rngR rng) (some dir) true =
      .ok ((padS s dn k (declPost rng P.pins.length)).put dn
        (putPort k { P with lower := declLo rng P.lower, pins := P.pins ++ List.replicate (declPost rng P.pins.length) none, dir := dir } d)
        s.next) := by
  unfold createOrUpdatePort
  rw [getDef_has hd]
  simp only [bind, Except.bind, hk, hP, resizePort_decl rng P.lower P.pins.length hok, pure, Except.pure]
  congr 1
  have hs : ∀ (g : Def → Def), s.upd dn g = s.put dn (g d) s.next := by
    intro g
    rw [← upd_eq_put s dn d g _ hd]
    cases s; rfl
  rw [hs, mapInstRows_put _ _ _ _ _ _ (by exact hi)]
  unfold padS
  have hg : (fun (row : List (Option Nat)) => List.replicate 0 none ++ row ++ List.replicate (declPost rng P.pins.length) none) =
      padRow (declPost rng P.pins.length) := by
    funext row; simp [padRow]
  rw [hg]
  congr 1

/-- no other port has a pin on one of the wires `ws` or on a wire not yet handed out -/
def ownsLb (d : Def) (k : Nat) (ws : List Nat) (n : Nat) : Bool :=
  (List.range d.ports.length).all (fun j => j == k || (d.ports.getD j default).pins.all (fun p =>
    match p with
    | some w => !(ws.contains w) && decide (w < n)
    | none => true))

theorem ownsLb_spec (d : Def) (k : Nat) (ws : List Nat) (n : Nat) (h : ownsLb d k ws n = true) :
    ∀ j, j < d.ports.length → j ≠ k → ∀ w, some w ∈ (d.ports.getD j default).pins → w ∉ ws ∧ w < n := by
  intro j hj hne w hw
  unfold ownsLb at h
  rw [List.all_eq_true] at h
  have := h j (List.mem_range.mpr hj)
  simp only [Bool.or_eq_true, beq_iff_eq, hne, false_or, List.all_eq_true] at this
  have := this (some w) hw
  simpa using this

def grownPL (P : Port) (rng : Option (Int × Int)) (ws : List Nat) (dir : Dir) : Port :=
  { P with lower := declLo rng P.lower, pins := ws.map some, dir := dir }

/-- `dir [msb:lsb] name ;` in the body of a primitive whose port `name` exists with its net: both grow at the high
    end to the declared range, every instance row of that port grows with them -/
def declStepL (d : Def) (n : Nat) (p : PDecl) : Option (Def × Nat × Nat × Nat) :=
  match portIdx d p.name, d.cables.find? (fun c => c.name == p.name) with
  | some k, some c0 =>
    if (d.ports.getD k default).pins = c0.wires.map some ∧ (d.ports.getD k default).name = some p.name ∧
        1 ≤ c0.wires.length ∧ lenOKb p.rng c0.wires.length = true ∧ (d.cables.map (·.name)).Nodup ∧
        ownsLb d k c0.wires n = true then
      some ({ d with
        ports := d.ports.set k (grownPL (d.ports.getD k default) p.rng (c0.wires ++ ids n (declPost p.rng c0.wires.length)) p.dir),
        cables := d.cables.map (fun y => if y.name == p.name then grownL c0 p.rng n else y) },
        n + declPost p.rng c0.wires.length, k, declPost p.rng c0.wires.length)
    else none
  | _, _ => none

theorem declStepL_run (dn : String) (s : St) (d : Def) (p : PDecl) (d' : Def) (n' k post : Nat)
    (hd : Has s dn d) (hi : d.insts = []) (h : declStepL d s.next p = some (d', n', k, post)) :
    portDecl s dn p.dir none p.rng p.name [] = .ok ((padS s dn k post).put dn d' n') ∧ d'.name = d.name ∧ d'.insts = d.insts ∧
      d'.ports.length = d.ports.length ∧ k < d.ports.length := by
  unfold declStepL at h
  split at h
  · rename_i k0 c0 hk hc
    split at h
    · rename_i hcond
      obtain ⟨hpins, hpn, hlen, hok, hnc, hown⟩ := hcond
      simp only [Option.some.injEq, Prod.mk.injEq] at h
      obtain ⟨h1, h2, h3, h4⟩ := h
      subst h1 h2 h3 h4
      have hklt := portIdx_lt hk
      refine ⟨?_, rfl, rfl, by simp, hklt⟩
      have hok' := lenOK_of_b _ _ hok
      have hC0 := hasCable_of_find hnc hc
      generalize hP : d.ports.getD k0 default = P at hpins hpn ⊢
      have hPl : P.pins.length = c0.wires.length := by rw [hpins]; simp
      generalize hpost : declPost p.rng c0.wires.length = post at *
      -- 1. the net
      generalize hC : grownL c0 p.rng s.next = C
      have hCn : C.name = p.name := by rw [← hC]; exact hC0.2.1
      have hCl : C.lower = declLo p.rng c0.lower := by rw [← hC]; rfl
      have hCw : C.wires = c0.wires ++ ids s.next post := by rw [← hC]; simp [grownL, hpost]
      have hCwl : C.wires.length = c0.wires.length + post := by rw [hCw]; simp [ids]
      have h1 := cable_growL s dn p.name d p.rng c0 hd hC0 hok'
      rw [hC, hpost] at h1
      have hd1 : Has (s.put dn (setCable p.name C d) (s.next + post)) dn (setCable p.name C d) := hd.put _ _ rfl
      have hfc1 : (setCable p.name C d).cables.find? (fun x => x.name == p.name) = some C := find_setCable d p.name c0 C hC0 hCn
      -- 2. the port that owns the wires
      have hgw : getWires ⟨C.lower, C.wires⟩ (rngL p.rng) (rngR p.rng) = some C.wires.reverse := by
        rw [hCl]; exact getWires_decl p.rng c0.lower c0.wires.length hok' C.wires (by rw [hCwl, hpost])
      have hown' := ownsLb_spec d k0 c0.wires s.next hown
      have hpow : portsOnWires (setCable p.name C d) C.wires.reverse = [k0] := by
        unfold portsOnWires
        apply filter_range_single _ _ k0 hklt
        · show ((d.ports.getD k0 default).pins.any _) = true
          rw [hP, hpins, hCw]
          obtain ⟨w0, rest, e⟩ : ∃ w0 rest, c0.wires = w0 :: rest := by
            cases hw : c0.wires with
            | nil => rw [hw] at hlen; simp at hlen
            | cons a b => exact ⟨a, b, rfl⟩
          rw [e]; simp
        · intro j hj hne
          show ((d.ports.getD j default).pins.any _) = false
          rw [List.any_eq_false]
          intro q hq
          cases q with
          | none => simp
          | some w =>
            obtain ⟨g1, g2⟩ := hown' j hj hne w hq
            have hnot : w ∉ C.wires := by
              rw [hCw]
              intro hm
              rcases List.mem_append.mp hm with hm | hm
              · exact g1 hm
              · have := ids_ge _ _ _ hm; omega
            simp [hnot]
      have hnm : ((setCable p.name C d).ports.getD k0 default).name.getD "" = p.name := by
        show ((d.ports.getD k0 default).name).getD "" = p.name
        rw [hP, hpn]; rfl
      -- 3. the port grows
      have hk1 : portIdx (setCable p.name C d) p.name = some k0 := hk
      have h3 := port_growL (s.put dn (setCable p.name C d) (s.next + post)) dn p.name (setCable p.name C d) k0 p.dir p.rng P
        hd1 hi hk1 hP (by rw [hPl]; exact hok')
      rw [hPl, hpost] at h3
      generalize hP1 : ({ P with lower := declLo p.rng P.lower, pins := P.pins ++ List.replicate post none, dir := p.dir } : Port) = P1 at h3
      have hP1n : P1.name = some p.name := by rw [← hP1]; exact hpn
      have hP1p : P1.pins = c0.wires.map some ++ List.replicate post none := by rw [← hP1, hpins]
      unfold padS at h3
      rw [mapInstRows_put _ _ _ _ _ _ (by exact hi), St.put_put _ _ _ _ _ _ (by exact hd.2.1), put_next] at h3
      have hdp : Has (mapInstRows s dn k0 (padRow post)) dn d := hd.mapRows hi dn k0 _
      have hd3 : Has ((mapInstRows s dn k0 (padRow post)).put dn (putPort k0 P1 (setCable p.name C d)) (s.next + post)) dn
          (putPort k0 P1 (setCable p.name C d)) := hdp.put _ _ rfl
      have hfc3 : (putPort k0 P1 (setCable p.name C d)).cables.find? (fun x => x.name == p.name) = some C := hfc1
      have hk3 : portIdx (putPort k0 P1 (setCable p.name C d)) p.name = some k0 := portIdx_set_same _ p.name k0 P1 hk1 hP1n
      have hget3 : (putPort k0 P1 (setCable p.name C d)).ports.getD k0 default = P1 := by
        simp [putPort, setCable, List.getD, List.getElem?_set_self hklt]
      -- assemble
      unfold portDecl
      simp only [bind, Except.bind, h1, getDef_has hd1, hfc1, hgw, hpow, hnm, h3, pure, Except.pure, List.isEmpty_nil, if_true,
        getDef_has hd3, hfc3, hk3, hget3]
      unfold padS
      by_cases hex : C.wires.length > 1
      · simp only [hex, if_true]
        have hpl : (P1.pins.length != C.wires.length) = false := by
          rw [hP1p, hCwl]; simp
        simp only [hpl, Bool.false_eq_true, if_false]
        generalize hF : List.foldl _ P1.pins (List.range C.wires.length) = F
        have hFe : F = C.wires.map some := by
          rw [← hF]
          apply fill_all C.wires
          · intro row i v h; simp only [h]
          · intro row i h; simp only [h]
          · rw [hP1p, hCwl]; simp
          · intro i hi'
            rw [hP1p, hCw]
            by_cases hil : i < c0.wires.length
            · right
              rw [List.getD_eq_getElem?_getD, List.getD_eq_getElem?_getD,
                List.getElem?_append_left (by simpa using hil), List.getElem?_append_left hil, List.getElem?_map,
                List.getElem?_eq_getElem hil]
              rfl
            · left
              rw [List.getD_eq_getElem?_getD, List.getElem?_append_right (by simp; omega), List.getElem?_replicate]
              split <;> rfl
        rw [hFe, put_upd _ _ _ _ _ (by exact hd.2.1)]
        congr 2
        simp only [putPort, setCable, List.set_set]
        congr 2
        rw [← hP1]; simp [grownPL, hCw]
      · simp only [hex, if_false]
        congr 2
        have hp0 : post = 0 := by omega
        simp only [putPort, setCable]
        congr 2
        rw [← hP1, hpins, hp0]
        simp [grownPL, ids]
    · cases h
  · cases h
end Spydr.Verilog.Elab
