/-
  Verilog engine — proof side, part 33: a whole primitive module declared after its instances, through the real `elabModule`
  (`elabModule_leaf`): header fold, reorder, body declarations; the pure builder `buildLeaf`.
-/
import Spydr.Verilog.RoundTripLeafB
set_option maxHeartbeats 1600000
namespace Spydr.Verilog.Elab
open Spydr.Verilog

/-! ### the folds over the header names and over the body declarations of a late module -/

theorem hdr_foldL (dn : String) : ∀ (as : List String) (s : St) (d d' : Def) (n' : Nat),
    Has s dn d → d.insts = [] → RowsFull s dn d.ports.length → foldLocal hdrStepL d s.next as = some (d', n') →
    as.foldlM (fun s a => headerPort s dn ⟨a, none, none, none⟩) s = .ok (s.put dn d' n') ∧ d'.name = d.name ∧
      d'.insts = [] ∧ d'.ports.length = d.ports.length := by
  intro as
  induction as with
  | nil =>
    intro s d d' n' hd hi _ h
    simp only [foldLocal, Option.some.injEq, Prod.mk.injEq] at h
    obtain ⟨h1, h2⟩ := h
    subst h1 h2
    refine ⟨?_, rfl, hi, rfl⟩
    simp only [List.foldlM_nil, pure, Except.pure]
    rw [St.put_self s dn d hd]
  | cons a as ih =>
    intro s d d' n' hd hi hr h
    unfold foldLocal at h
    cases hs : hdrStepL d s.next a with
    | none => simp [hs] at h
    | some r =>
      obtain ⟨d1, n1⟩ := r
      simp only [hs] at h
      obtain ⟨g1, g2, g3, g4⟩ := hdrStepL_run dn s d a d1 n1 hd hr hs
      have hi1 : d1.insts = [] := by rw [g3, hi]
      have hd1 : Has (s.put dn d1 n1) dn d1 := hd.put d1 n1 g2
      have hr1 : RowsFull (s.put dn d1 n1) dn d1.ports.length := by rw [g4]; exact hr.put dn d1 n1 hi1
      obtain ⟨e1, e2, e3, e4⟩ := ih (s.put dn d1 n1) d1 d' n' hd1 hi1 hr1 (by rw [put_next]; exact h)
      refine ⟨?_, e2.trans g2, e3, e4.trans g4⟩
      simp only [List.foldlM_cons, bind, Except.bind, g1]
      rw [e1, St.put_put s dn d1 d' n1 n' (by rw [g2, hd.2.1])]

def foldDecl : Def → Nat → List PDecl → Option (Def × Nat × List (Nat × Nat))
  | d, n, [] => some (d, n, [])
  | d, n, p :: ps =>
    match declStepL d n p with
    | some r => (foldDecl r.1 r.2.1 ps).map (fun q => (q.1, q.2.1, (r.2.2.1, r.2.2.2) :: q.2.2))
    | none => none

/-- the row paddings of a whole declaration list, in order -/
def padOps (s : St) (dn : String) (ops : List (Nat × Nat)) : St := ops.foldl (fun s op => padS s dn op.1 op.2) s

theorem padOps_put (dn : String) (d : Def) (hi : d.insts = []) : ∀ (ops : List (Nat × Nat)) (s : St) (n : Nat),
    padOps (s.put dn d n) dn ops = (padOps s dn ops).put dn d n := by
  intro ops
  induction ops with
  | nil => intro s n; rfl
  | cons op ops ih =>
    intro s n
    simp only [padOps, List.foldl_cons]
    unfold padS
    rw [mapInstRows_put _ _ _ _ _ _ hi]
    exact ih _ _

theorem decl_foldL (dn : String) : ∀ (ps : List PDecl) (s : St) (d d' : Def) (n' : Nat) (ops : List (Nat × Nat)),
    Has s dn d → d.insts = [] → foldDecl d s.next ps = some (d', n', ops) →
    ps.foldlM (fun s p => elabItem s dn true p.item) s = .ok ((padOps s dn ops).put dn d' n') ∧ d'.name = d.name ∧
      d'.insts = [] ∧ d'.ports.length = d.ports.length ∧ ∀ op ∈ ops, op.1 < d.ports.length := by
  intro ps
  induction ps with
  | nil =>
    intro s d d' n' ops hd hi h
    simp only [foldDecl, Option.some.injEq, Prod.mk.injEq] at h
    obtain ⟨h1, h2, h3⟩ := h
    subst h1 h2 h3
    refine ⟨?_, rfl, hi, rfl, by intro op hop; cases hop⟩
    simp only [List.foldlM_nil, pure, Except.pure, padOps, List.foldl_nil]
    rw [St.put_self s dn d hd]
  | cons p ps ih =>
    intro s d d' n' ops hd hi h
    unfold foldDecl at h
    cases hs : declStepL d s.next p with
    | none => simp [hs] at h
    | some r =>
      obtain ⟨d1, n1, k, post⟩ := r
      simp only [hs, Option.map_eq_some_iff] at h
      obtain ⟨q, hq, he⟩ := h
      obtain ⟨d2, n2, ops2⟩ := q
      simp only [Prod.mk.injEq] at he
      obtain ⟨e1, e2, e3⟩ := he
      subst e1 e2 e3
      obtain ⟨g1, g2, g3, g4, g5⟩ := declStepL_run dn s d p d1 n1 k post hd hi hs
      have hi1 : d1.insts = [] := by rw [g3, hi]
      have hdp : Has (padS s dn k post) dn d := hd.mapRows hi dn k _
      have hd1 : Has ((padS s dn k post).put dn d1 n1) dn d1 := hdp.put d1 n1 g2
      obtain ⟨f1, f2, f3, f4, f5⟩ := ih ((padS s dn k post).put dn d1 n1) d1 d2 n2 ops2 hd1 hi1 (by rw [put_next]; exact hq)
      refine ⟨?_, f2.trans g2, f3, f4.trans g4, ?_⟩
      · have hstep : elabItem s dn true p.item = .ok ((padS s dn k post).put dn d1 n1) := by
          unfold PDecl.item elabItem
          simpa using g1
        simp only [List.foldlM_cons, bind, Except.bind, hstep]
        rw [f1, padOps_put dn d1 hi1, St.put_put _ dn d1 d2 n1 n2 (by rw [g2, hd.2.1])]
        rfl
      · intro op hop
        rcases List.mem_cons.mp hop with e | e
        · rw [e]; exact g5
        · have := f5 op e; omega

/-! ### a primitive module declared after its instances -/

structure WLeaf where
  name : String
  ports : List PDecl

def WLeaf.toModule (m : WLeaf) : Module :=
  ⟨m.name, true, [], [], m.ports.map (fun p => ⟨p.name, none, none, none⟩), m.ports.map PDecl.item⟩

/-- the definition the reader ends with (pure), the wire counter, the paddings of the instance rows -/
def buildLeaf (L : Def) (n : Nat) (ports : List PDecl) : Option (Def × Nat × List (Nat × Nat)) :=
  if L.lib = none ∧ L.insts = [] ∧ L.ports.map (·.name) = (ports.map (·.name)).map some ∧ (ports.map (·.name)).Nodup then
    match foldLocal hdrStepL { L with lib := some "hdi_primitives" } n (ports.map (·.name)) with
    | none => none
    | some r1 => foldDecl r1.1 r1.2 ports
  else none

theorem hdrStepL_names (d : Def) (n : Nat) (a : String) (d' : Def) (n' : Nat) (h : hdrStepL d n a = some (d', n')) :
    d'.ports.map (·.name) = d.ports.map (·.name) := by
  unfold hdrStepL at h
  split at h
  · rename_i k hk
    split at h
    · simp only [Option.some.injEq, Prod.mk.injEq] at h
      rw [← h.1]
      simp only [List.map_set]
      have hklt := portIdx_lt hk
      have := list_set_getD (d.ports.map (·.name)) k (by simpa using hklt)
      conv => rhs; rw [← this]
      congr 1
      simp [List.getD, List.getElem?_eq_getElem hklt]
    · cases h
  · cases h

theorem elabModule_leaf (s : St) (m : WLeaf) (L L' : Def) (n' : Nat) (ops : List (Nat × Nat))
    (hL : Has s m.name L) (hr : RowsFull s m.name L.ports.length) (hb : buildLeaf L s.next m.ports = some (L', n', ops)) :
    elabModule s m.toModule = .ok ((padOps s m.name ops).put m.name L' n') ∧ L'.name = m.name ∧ L'.insts = [] ∧
      L'.ports.length = L.ports.length ∧ ∀ op ∈ ops, op.1 < L.ports.length := by
  unfold buildLeaf at hb
  split at hb
  · rename_i hc
    obtain ⟨hlib, hi, hnames, hnd⟩ := hc
    generalize hL1 : ({ L with lib := some "hdi_primitives" } : Def) = L1 at hb
    have hL1n : L1.name = L.name := by rw [← hL1]
    have hL1i : L1.insts = [] := by rw [← hL1]; exact hi
    have hL1p : L1.ports = L.ports := by rw [← hL1]
    cases h1 : foldLocal hdrStepL L1 s.next (m.ports.map (·.name)) with
    | none => simp [h1] at hb
    | some r1 =>
      obtain ⟨d1, n1⟩ := r1
      simp only [h1] at hb
      -- entry
      have hens : s.ensure m.name = s := by unfold St.ensure; rw [hL.find]
      have hs1 : ∀ g : Def → Def, g L = L1 → s.upd m.name g = s.put m.name L1 s.next := by
        intro g hg
        have := upd_eq_put s m.name L g s.next hL
        rw [hg] at this; rw [← this]; cases s; rfl
      have hH1 : Has (s.put m.name L1 s.next) m.name L1 := hL.put L1 _ hL1n
      have hR1 : RowsFull (s.put m.name L1 s.next) m.name L1.ports.length := by rw [hL1p]; exact hr.put _ _ _ hL1i
      -- header
      obtain ⟨g1, g2, g3, g4⟩ := hdr_foldL m.name (m.ports.map (·.name)) (s.put m.name L1 s.next) L1 d1 n1 hH1 hL1i hR1
        (by rw [put_next]; exact h1)
      rw [St.put_put s m.name L1 d1 _ _ (by rw [hL1n, hL.2.1])] at g1
      have hH2 : Has (s.put m.name d1 n1) m.name d1 := hL.put d1 _ (g2.trans hL1n)
      -- reorder
      have hd1names : d1.ports.map (·.name) = (m.ports.map (·.name)).map some := by
        rw [foldLocal_pres (fun d => d.ports.map (·.name)) hdrStepL hdrStepL_names _ _ _ _ _ h1, hL1p]
        exact hnames
      have hR : reorderPorts (s.put m.name d1 n1) m.name (m.ports.map (·.name)) = .ok (s.put m.name d1 n1) :=
        reorderPorts_id _ m.name d1 _ hH2 (filterMap_portIdx d1.ports _ hd1names hnd)
      -- body
      obtain ⟨f1, f2, f3, f4, f5⟩ := decl_foldL m.name m.ports (s.put m.name d1 n1) d1 L' n' ops hH2 g3
        (by rw [put_next]; exact hb)
      rw [padOps_put m.name d1 g3, St.put_put _ m.name d1 L' _ _ (by rw [g2, hL1n, hL.2.1])] at f1
      refine ⟨?_, (f2.trans g2).trans (hL1n.trans hL.2.1), f3, (f4.trans g4).trans (by rw [hL1p]), ?_⟩
      · unfold elabModule WLeaf.toModule
        simp only [hens, bind, Except.bind, getDef_has hL, hlib, Option.isSome_none, Bool.false_eq_true, if_false, if_true,
          List.isEmpty_nil, List.foldlM_map, List.map_map, Function.comp_def, pure, Except.pure]
        rw [hs1 _ (by rw [← hL1])]
        have g1' : List.foldlM (fun s (p : PDecl) => headerPort s m.name ⟨p.name, none, none, none⟩) (s.put m.name L1 s.next) m.ports =
            .ok (s.put m.name d1 n1) := by
          have := g1; rwa [List.foldlM_map] at this
        simp only [g1', hR, f1]
      · intro op hop
        have := f5 op hop
        rw [g4, hL1p] at this
        exact this
  · cases hb
end Spydr.Verilog.Elab
