/-
  Verilog engine — proof side, part 34: a file that consists of the top module followed by the `celldefine` modules of the
  modules it instantiates, through the real `elabDesign` (`elabDesign_bb`): the table is the pure `buildBB`.
-/
import Spydr.Verilog.RoundTripLeafC
set_option maxHeartbeats 1600000
namespace Spydr.Verilog.Elab
open Spydr.Verilog

/-! ### in the table `top :: leaves` -/

def padI (dn : String) (k post : Nat) (i : Inst) : Inst :=
  if i.ref == dn then
    let rows := i.pins ++ List.replicate (k + 1 - i.pins.length) []
    { i with pins := rows.set k (padRow post (rows.getD k [])) }
  else i

def padD (D : Def) (dn : String) (k post : Nat) : Def := { D with insts := D.insts.map (padI dn k post) }

def padOpsI (dn : String) (ops : List (Nat × Nat)) (i : Inst) : Inst := ops.foldl (fun i op => padI dn op.1 op.2 i) i

def padOpsD (D : Def) (dn : String) (ops : List (Nat × Nat)) : Def := { D with insts := D.insts.map (padOpsI dn ops) }

theorem padOps_S2 (ls : List Def) (n : Nat) (t : Option String) (dn : String) (hl : ∀ l ∈ ls, l.insts = []) :
    ∀ (ops : List (Nat × Nat)) (D : Def), padOps (S2 D ls n t) dn ops = S2 (padOpsD D dn ops) ls n t := by
  intro ops
  induction ops with
  | nil =>
    intro D
    have hid : padOpsI dn [] = id := by funext i; rfl
    simp only [padOps, List.foldl_nil, padOpsD, hid, List.map_id]
  | cons op ops ih =>
    intro D
    have h1 : padS (S2 D ls n t) dn op.1 op.2 = S2 (padD D dn op.1 op.2) ls n t := by
      unfold padS
      rw [mapInstRows_S2 D ls n t dn op.1 _ hl]
      rfl
    simp only [padOps, List.foldl_cons]
    rw [h1]
    have := ih (padD D dn op.1 op.2)
    simp only [padOps] at this
    rw [this]
    congr 1
    simp only [padOpsD, padD, List.map_map]
    congr 1

def setLeaf (ls : List Def) (name : String) (L' : Def) : List Def := ls.map (fun l => if l.name == name then L' else l)

theorem put_S2_leaf (D : Def) (ls : List Def) (n : Nat) (t : Option String) (name : String) (L' : Def) (n' : Nat)
    (hne : D.name ≠ name) : (S2 D ls n t).put name L' n' = S2 D (setLeaf ls name L') n' t := by
  unfold St.put withNext St.upd S2 setLeaf
  simp [hne]

theorem padI_facts (dn : String) (k post : Nat) (i : Inst) :
    (padI dn k post i).name = i.name ∧ (padI dn k post i).ref = i.ref ∧ i.pins.length ≤ (padI dn k post i).pins.length := by
  unfold padI
  split
  · refine ⟨rfl, rfl, ?_⟩
    simp only [List.length_set, List.length_append, List.length_replicate]; omega
  · exact ⟨rfl, rfl, Nat.le_refl _⟩

theorem padOpsI_facts (dn : String) : ∀ (ops : List (Nat × Nat)) (i : Inst),
    (padOpsI dn ops i).name = i.name ∧ (padOpsI dn ops i).ref = i.ref ∧ i.pins.length ≤ (padOpsI dn ops i).pins.length := by
  intro ops
  induction ops with
  | nil => intro i; exact ⟨rfl, rfl, Nat.le_refl _⟩
  | cons op ops ih =>
    intro i
    obtain ⟨a1, a2, a3⟩ := padI_facts dn op.1 op.2 i
    obtain ⟨b1, b2, b3⟩ := ih (padI dn op.1 op.2 i)
    simp only [padOpsI, List.foldl_cons] at b1 b2 b3 ⊢
    exact ⟨b1.trans a1, b2.trans a2, Nat.le_trans a3 b3⟩

theorem setLeaf_names (ls : List Def) (name : String) (L' : Def) (hn : L'.name = name) :
    (setLeaf ls name L').map (·.name) = ls.map (·.name) := by
  unfold setLeaf
  rw [List.map_map]
  apply List.map_congr_left
  intro l _
  simp only [Function.comp]
  by_cases e : l.name = name
  · simp [e, hn]
  · simp [e]

/-- the invariant of the table survives the declaration of one of its leaves -/
theorem LInv_leaf (D : Def) (ls : List Def) (name : String) (L L' : Def) (ops : List (Nat × Nat)) (inv : LInv D ls)
    (hL : L ∈ ls) (hLn : L.name = name) (hn : L'.name = name) (hi : L'.insts = []) (hp : L'.ports.length = L.ports.length) :
    LInv (padOpsD D name ops) (setLeaf ls name L') := by
  have hmem : ∀ l' ∈ setLeaf ls name L', ∃ l ∈ ls, l'.name = l.name ∧ l'.insts = [] ∧ l'.ports.length = l.ports.length := by
    intro l' hl'
    unfold setLeaf at hl'
    obtain ⟨l, hl, e⟩ := List.mem_map.mp hl'
    by_cases en : l.name = name
    · simp only [en, beq_self_eq_true, if_true] at e
      have : l = L := nodup_map_inj (·.name) ls inv.nodup l hl L hL (en.trans hLn.symm)
      rw [← e]
      exact ⟨l, hl, hn.trans en.symm, hi, by rw [hp, this]⟩
    · simp only [show (l.name == name) = false by simp [en], Bool.false_eq_true, if_false] at e
      rw [← e]
      exact ⟨l, hl, rfl, inv.linsts l hl, rfl⟩
  have himg : ∀ l ∈ ls, ∃ l' ∈ setLeaf ls name L', l'.name = l.name := by
    intro l hl
    refine ⟨if l.name == name then L' else l, List.mem_map.mpr ⟨l, hl, rfl⟩, ?_⟩
    by_cases en : l.name = name
    · simp [en, hn]
    · simp [en]
  refine ⟨by rw [setLeaf_names ls name L' hn]; exact inv.nodup, ?_, ?_, ?_, ?_, inv.cables⟩
  · intro l' hl'
    obtain ⟨l, hl, e, _, _⟩ := hmem l' hl'
    rw [e]; exact inv.names l hl
  · intro l' hl'
    exact (hmem l' hl').choose_spec.2.2.1
  · intro j' hj'
    obtain ⟨j, hj, e⟩ := List.mem_map.mp hj'
    obtain ⟨rd, hrd, hrn⟩ := inv.closed j hj
    obtain ⟨rd', hrd', e'⟩ := himg rd hrd
    exact ⟨rd', hrd', by rw [e', hrn, ← e, (padOpsI_facts name ops j).2.1]⟩
  · intro j' hj' rd' hrd' hrn'
    obtain ⟨j, hj, e⟩ := List.mem_map.mp hj'
    obtain ⟨rd, hrd, e1, _, e3⟩ := hmem rd' hrd'
    obtain ⟨f1, f2, f3⟩ := padOpsI_facts name ops j
    have := inv.full j hj rd hrd (by rw [← e1, hrn', ← e, f2])
    rw [e3, ← e]; omega

/-! ### the leaves of a file, one after the other -/

def foldLeaves : Def → List Def → Nat → List WLeaf → Option (Def × List Def × Nat)
  | D, ls, n, [] => some (D, ls, n)
  | D, ls, n, m :: ms =>
    match ls.find? (fun l => l.name == m.name) with
    | some L =>
      match buildLeaf L n m.ports with
      | some r => foldLeaves (padOpsD D m.name r.2.2) (setLeaf ls m.name r.1) r.2.1 ms
      | none => none
    | none => none

theorem leaf_step (D : Def) (ls : List Def) (n : Nat) (t : Option String) (m : WLeaf) (L L' : Def) (n' : Nat)
    (ops : List (Nat × Nat)) (inv : LInv D ls) (hf : ls.find? (fun l => l.name == m.name) = some L)
    (hb : buildLeaf L n m.ports = some (L', n', ops)) :
    elabModule (S2 D ls n t) m.toModule = .ok (S2 (padOpsD D m.name ops) (setLeaf ls m.name L') n' t) ∧
      LInv (padOpsD D m.name ops) (setLeaf ls m.name L') ∧ L'.name = m.name ∧ L'.ports.length = L.ports.length ∧
      (∀ op ∈ ops, op.1 < L.ports.length) := by
  have hLm := List.mem_of_find?_eq_some hf
  have hLn : L.name = m.name := by simpa using List.find?_some hf
  have hne : D.name ≠ L.name := fun e => inv.names L hLm e.symm
  have hH : Has (S2 D ls n t) m.name L := by rw [← hLn]; exact Has_S2_leaf D ls n t L hLm hne inv.nodup
  have hR : RowsFull (S2 D ls n t) m.name L.ports.length := by
    intro x hx j hj href
    rcases List.mem_cons.mp hx with e | e
    · rw [e] at hj; exact inv.full j hj L hLm (hLn.trans href.symm)
    · rw [inv.linsts x e] at hj; cases hj
  obtain ⟨g1, g2, g3, g4, g5⟩ := elabModule_leaf (S2 D ls n t) m L L' n' ops hH hR hb
  refine ⟨?_, LInv_leaf D ls m.name L L' ops inv hLm hLn g2 g3 g4, g2, g4, g5⟩
  rw [g1, padOps_S2 ls n t m.name inv.linsts, put_S2_leaf _ _ _ _ _ _ _ (by
    show D.name ≠ m.name
    rw [← hLn]; exact hne)]

theorem leaves_fold (t : Option String) : ∀ (ms : List WLeaf) (D : Def) (ls : List Def) (n : Nat) (D' : Def) (ls' : List Def)
    (n' : Nat), LInv D ls → foldLeaves D ls n ms = some (D', ls', n') →
    (ms.map WLeaf.toModule).foldlM elabModule (S2 D ls n t) = .ok (S2 D' ls' n' t) ∧ LInv D' ls' := by
  intro ms
  induction ms with
  | nil =>
    intro D ls n D' ls' n' inv h
    simp only [foldLeaves, Option.some.injEq, Prod.mk.injEq] at h
    obtain ⟨h1, h2, h3⟩ := h
    subst h1 h2 h3
    exact ⟨rfl, inv⟩
  | cons m ms ih =>
    intro D ls n D' ls' n' inv h
    unfold foldLeaves at h
    cases hf : ls.find? (fun l => l.name == m.name) with
    | none => simp [hf] at h
    | some L =>
      simp only [hf] at h
      cases hb : buildLeaf L n m.ports with
      | none => simp [hb] at h
      | some r =>
        obtain ⟨L', n1, ops⟩ := r
        simp only [hb] at h
        obtain ⟨g1, g2, _, _, _⟩ := leaf_step D ls n t m L L' n1 ops inv hf hb
        obtain ⟨f1, f2⟩ := ih _ _ _ D' ls' n' g2 h
        refine ⟨?_, f2⟩
        simp only [List.map_cons, List.foldlM_cons, bind, Except.bind, g1]
        exact f1

/-! ### the top module first (as `elabDesign_wsingle`, before the end of the file) -/

theorem elabModule_wtop (m : WModI) (d3 : Def) (n3 : Nat) (d4 : Def) (ls4 : List Def)
    (h3 : buildW3 ⟨m.name, some "work", false, [], none, [], [], []⟩ 0 m.ports m.wires = some (d3, n3))
    (hcn : (d3.cables.map (·.name)).Nodup) (h4 : foldInst d3 [] m.insts = some (d4, ls4)) :
    elabModule ⟨[], 0, none, 0, []⟩ m.toModule =
        .ok (S2 (if m.attrs.isEmpty then d4 else { d4 with attrs := some m.attrs }) ls4 n3 (some m.name)) ∧
      LInv d4 ls4 ∧ d4.name = m.name := by
  generalize hd0 : (⟨m.name, some "work", false, [], none, [], [], []⟩ : Def) = d0 at h3
  have hd0n : d0.name = m.name := by rw [← hd0]
  have hs3 : afterEntry ⟨[], 0, none, 0, []⟩ m.name false = S2 d0 [] 0 (some m.name) := by
    rw [← hd0]; exact afterEntry_s0 m.name
  have hH3 : Has (S2 d0 [] 0 (some m.name)) m.name d0 := by
    rw [← hd0n]; exact Has_S2_top d0 [] 0 _ (by intro l hl; cases hl)
  have hN3 : NoRef (S2 d0 [] 0 (some m.name)) m.name := by
    intro x hx i hi
    simp only [S2, List.mem_singleton] at hx
    rw [hx, ← hd0] at hi
    cases hi
  obtain ⟨hP, hn3, hi3⟩ := wshape_phases (S2 d0 [] 0 (some m.name)) m.name m.ports m.wires d0 d3 n3 hH3 hN3
    (by rw [← hd0]) h3
  rw [← hd0n, put_S2 d0 [] 0 _ d3 n3 (by intro l hl; cases hl), hd0n] at hP
  have hd3n : d3.name = m.name := hn3.trans hd0n
  have inv3 : LInv d3 [] := ⟨List.nodup_nil, (by intro l hl; cases hl), (by intro l hl; cases hl),
    (by rw [hi3]; intro j hj; cases hj), (by rw [hi3]; intro j hj; cases hj), hcn⟩
  obtain ⟨hI, inv4, hn4⟩ := insts_fold2 n3 m.insts d3 [] d4 ls4 inv3 h4
  rw [hd3n] at hI
  have hd4n : d4.name = m.name := hn4.trans hd3n
  refine ⟨?_, inv4, hd4n⟩
  rw [elabModule_eq_tailG _ m.toModule rfl rfl]
  show elabTailG (afterEntry ⟨[], 0, none, 0, []⟩ m.name false) m.toModule = _
  rw [hs3]
  unfold elabTailG
  have hPh : wPhases (S2 d0 [] 0 (some m.name)) m.name m.ports m.wires = .ok (S2 d3 [] n3 (some m.name)) := hP
  unfold wPhases at hPh
  unfold WModI.toModule
  simp only [List.foldlM_append, bind, Except.bind] at hPh ⊢
  generalize hX1 : List.foldlM (m := Except String) _ (S2 d0 [] 0 (some m.name)) _ = X1 at hPh ⊢
  cases X1 with
  | error e => simp at hPh
  | ok v1 =>
    simp only at hPh ⊢
    generalize hX2 : reorderPorts v1 m.name _ = X2 at hPh ⊢
    cases X2 with
    | error e => simp at hPh
    | ok v2 =>
      simp only at hPh ⊢
      generalize hX3 : List.foldlM (m := Except String) _ v2 (List.map PDecl.item m.ports) = X3 at hPh ⊢
      cases X3 with
      | error e => simp at hPh
      | ok v3 =>
        simp only at hPh ⊢
        rw [hPh]
        simp only [hI, pure, Except.pure]
        split
        · rfl
        · rw [← hd4n, upd_S2_top d4 ls4 n3 _ _ (by rw [hd4n]; rw [← hd4n]; exact inv4.names)]

def withAttrs (a : Attrs) (d : Def) : Def := if a.isEmpty then d else { d with attrs := some a }

/-- the table the reader builds for a file that consists of the top module followed by primitive modules (pure) -/
def buildBB (m : WModI) (leaves : List WLeaf) : Option (List Def × Nat) :=
  match buildW3 ⟨m.name, some "work", false, [], none, [], [], []⟩ 0 m.ports m.wires with
  | none => none
  | some r3 =>
    if (r3.1.cables.map (·.name)).Nodup then
      match foldInst r3.1 [] m.insts with
      | none => none
      | some r4 =>
        match foldLeaves (withAttrs m.attrs r4.1) r4.2 r3.2 leaves with
        | none => none
        | some r5 => some ((r5.1 :: r5.2.1).map markBB, r5.2.2)
    else none

/-- **elabDesign_bb.**  A file that consists of a module in the writer's shape followed by the `celldefine` modules of
    (some of) the modules it instantiates, through the REAL `elabDesign`: the table is `buildBB`. -/
theorem elabDesign_bb (m : WModI) (leaves : List WLeaf) (defs : List Def) (n : Nat) (hb : buildBB m leaves = some (defs, n)) :
    elabDesign (m.toModule :: leaves.map WLeaf.toModule) = .ok ⟨defs, n, some m.name, 0, []⟩ := by
  unfold buildBB at hb
  cases h3 : buildW3 ⟨m.name, some "work", false, [], none, [], [], []⟩ 0 m.ports m.wires with
  | none => simp [h3] at hb
  | some r3 =>
    obtain ⟨d3, n3⟩ := r3
    simp only [h3] at hb
    split at hb
    · rename_i hcn
      cases h4 : foldInst d3 [] m.insts with
      | none => simp [h4] at hb
      | some r4 =>
        obtain ⟨d4, ls4⟩ := r4
        simp only [h4] at hb
        cases h5 : foldLeaves (withAttrs m.attrs d4) ls4 n3 leaves with
        | none => simp [h5] at hb
        | some r5 =>
          obtain ⟨D, ls, n5⟩ := r5
          simp only [h5, Option.some.injEq, Prod.mk.injEq] at hb
          obtain ⟨hdefs, hn⟩ := hb
          obtain ⟨hE, inv4, hd4n⟩ := elabModule_wtop m d3 n3 d4 ls4 h3 hcn h4
          have inv4' : LInv (withAttrs m.attrs d4) ls4 := by
            unfold withAttrs
            split
            · exact inv4
            · exact ⟨inv4.nodup, inv4.names, inv4.linsts, inv4.closed, inv4.full, inv4.cables⟩
          obtain ⟨hF, _⟩ := leaves_fold (some m.name) leaves _ ls4 n3 D ls n5 inv4' h5
          unfold withAttrs at hF
          unfold elabDesign
          simp only [List.foldlM_cons, bind, Except.bind, hE, hF]
          rw [← hdefs, ← hn]
          rfl
    · cases hb

/-- non-vacuity: `exWI` followed by `celldefine` modules of its two primitives; the address port of `RAM` is declared
    `[3:0]` after an instance connected four bits, `I1` of `LUT2` after an instance left it open -/
def exLeaves : List WLeaf :=
  [⟨"LUT2", [⟨"I0", .inp, none, []⟩, ⟨"I1", .inp, none, []⟩, ⟨"O", .out, none, []⟩]⟩,
   ⟨"RAM", [⟨"addr", .inp, some (3, 0), []⟩, ⟨"q", .out, none, []⟩]⟩]

theorem exBB_builds : (buildBB exWI exLeaves).isSome = true := by decide
end Spydr.Verilog.Elab
