/-
  Verilog engine — proof side, part 35: what the late declarations leave of the table: the view of the top module is
  unchanged (`foldLeaves_view`), every declared leaf ends with the declared interface (`buildLeaf_iface`, `foldLeaves_iface`).
-/
import Spydr.Verilog.RoundTripLeafD
set_option maxHeartbeats 1600000
namespace Spydr.Verilog.Elab
open Spydr.Verilog

/-! ### free pins added at the high end of an instance row do not change the view -/

theorem connectedBlock_pad {β : Type} : ∀ (xs : List (Option β)) (post : Nat),
    connectedBlock (xs ++ List.replicate post none) = connectedBlock xs := by
  intro xs
  induction xs with
  | nil => intro post; cases post <;> simp [connectedBlock, List.replicate_succ]
  | cons x xs ih =>
    intro post
    cases x with
    | none => simp [connectedBlock]
    | some b => simp [connectedBlock, ih]

theorem cb_pad (d : Def) (row : List (Option Nat)) (post : Nat) :
    connectedBlock (pinBits d (padRow post row)) = connectedBlock (pinBits d row) := by
  unfold pinBits padRow
  rw [List.map_append, List.map_replicate]
  exact connectedBlock_pad _ post

theorem padI_view (d : Def) (dn : String) (k post : Nat) (i : Inst) (hfull : i.ref = dn → k < i.pins.length) :
    instViewD d (padI dn k post i) = instViewD d i := by
  unfold padI
  split
  · rename_i href
    have hk := hfull (by simpa using href)
    have e0 : k + 1 - i.pins.length = 0 := by omega
    simp only [e0, List.replicate_zero, List.append_nil]
    unfold instViewD
    simp only [InstView.mk.injEq, true_and]
    rw [List.map_set, cb_pad]
    apply List.ext_getElem?
    intro j
    by_cases ej : j = k
    · subst ej
      rw [List.getElem?_set_self (by simpa using hk), List.getElem?_map, List.getElem?_eq_getElem hk]
      simp [List.getD, List.getElem?_eq_getElem hk]
    · rw [List.getElem?_set_ne (by omega)]
  · rfl

theorem padOpsI_view (d : Def) (dn : String) (K : Nat) : ∀ (ops : List (Nat × Nat)) (i : Inst),
    (i.ref = dn → K ≤ i.pins.length) → (∀ op ∈ ops, op.1 < K) → instViewD d (padOpsI dn ops i) = instViewD d i := by
  intro ops
  induction ops with
  | nil => intro i _ _; rfl
  | cons op ops ih =>
    intro i hfull hops
    obtain ⟨a1, a2, a3⟩ := padI_facts dn op.1 op.2 i
    have hk := hops op List.mem_cons_self
    have h1 := padI_view d dn op.1 op.2 i (fun e => by have := hfull e; omega)
    have h2 := ih (padI dn op.1 op.2 i) (fun e => by have := hfull (a2 ▸ e); omega)
      (fun x hx => hops x (List.mem_cons_of_mem _ hx))
    simp only [padOpsI, List.foldl_cons] at h2 ⊢
    rw [h2, h1]

theorem viewD_insts (D : Def) : (viewD D).insts = D.insts.map (instViewD D) := rfl

theorem viewD_padOps (D : Def) (dn : String) (K : Nat) (ops : List (Nat × Nat))
    (hfull : ∀ i ∈ D.insts, i.ref = dn → K ≤ i.pins.length) (hops : ∀ op ∈ ops, op.1 < K) :
    viewD (padOpsD D dn ops) = viewD D := by
  unfold viewD padOpsD
  have hb0 : bitOf ({ D with insts := D.insts.map (padOpsI dn ops) } : Def) = bitOf D := bitOf_cables _ D rfl
  simp only [DefView.mk.injEq, true_and]
  refine ⟨?_, ?_, ?_⟩
  · apply List.map_congr_left
    intro P _
    simp only [pinBits, hb0]
  · rfl
  · rw [List.map_map]
    apply List.map_congr_left
    intro i hi
    have := padOpsI_view D dn K ops i (hfull i hi) hops
    unfold instViewD at this
    simp only [Function.comp]
    have hb : bitOf ({ D with insts := D.insts.map (padOpsI dn ops) } : Def) = bitOf D := bitOf_cables _ D rfl
    unfold pinBits at this ⊢
    rw [hb]
    exact this

theorem foldLeaves_view : ∀ (ms : List WLeaf) (D : Def) (ls : List Def) (n : Nat) (D' : Def) (ls' : List Def) (n' : Nat),
    LInv D ls → foldLeaves D ls n ms = some (D', ls', n') → viewD D' = viewD D ∧ D'.lib = D.lib := by
  intro ms
  induction ms with
  | nil =>
    intro D ls n D' ls' n' _ h
    simp only [foldLeaves, Option.some.injEq, Prod.mk.injEq] at h
    rw [← h.1]; exact ⟨rfl, rfl⟩
  | cons m ms ih =>
    intro D ls n D' ls' n' inv h
    unfold foldLeaves at h
    cases hf : ls.find? (fun l => l.name == m.name) with
    | none => simp [hf] at h
    | some L =>
      simp only [hf] at h
      cases hb : buildLeaf L n m.ports with
      | none => simp [hb] at h
      | some r =>
        obtain ⟨L', n1, ops⟩ := r
        simp only [hb] at h
        obtain ⟨_, g2, _, _, g5⟩ := leaf_step D ls n none m L L' n1 ops inv hf hb
        obtain ⟨f1, f2⟩ := ih _ _ _ D' ls' n' g2 h
        have hLm := List.mem_of_find?_eq_some hf
        have hLn : L.name = m.name := by simpa using List.find?_some hf
        refine ⟨?_, f2⟩
        rw [f1]
        exact viewD_padOps D m.name L.ports.length ops (fun i hi e => inv.full i hi L hLm (hLn.trans e.symm)) g5

/-! ### the interface the late declaration gives the module -/

abbrev Iface := List (Option String × Dir × Int × Nat)

def ifaceD (L : Def) : Iface := L.ports.map (fun P => (P.name, P.dir, P.lower, P.pins.length))

def ifaceP (ps : List PDecl) : Iface := ps.map (fun p => (some p.name, p.dir, stubLo p.rng, 1 + stubExtra p.rng))

/-- what the declaration `p` makes of the port of its name -/
def Declared (p : PDecl) (P : Port) : Prop :=
  P.name = some p.name ∧ P.dir = p.dir ∧ P.lower = stubLo p.rng ∧ P.pins.length = 1 + stubExtra p.rng

theorem mem_set_other {α : Type} (l : List α) (k : Nat) (y x : α) (hx : x ∈ l) (hne : ∀ (h : k < l.length), l[k] ≠ x) :
    x ∈ l.set k y := by
  obtain ⟨j, hj, e⟩ := List.mem_iff_getElem.mp hx
  have hjk : j ≠ k := by
    intro ejk; subst ejk; exact hne hj e
  refine List.mem_iff_getElem.mpr ⟨j, by simpa using hj, ?_⟩
  rw [List.getElem_set_ne (fun h => hjk h.symm)]
  exact e

theorem declStepL_spec (d : Def) (n : Nat) (p : PDecl) (d' : Def) (n' k post : Nat)
    (h : declStepL d n p = some (d', n', k, post)) :
    ∃ (hk : k < d.ports.length) (Pn : Port), d.ports[k].name = some p.name ∧ lenOK p.rng d.ports[k].pins.length ∧
      d'.ports = d.ports.set k Pn ∧ Pn.name = some p.name ∧ Pn.dir = p.dir ∧ Pn.lower = declLo p.rng d.ports[k].lower ∧
      Pn.pins.length = d.ports[k].pins.length + declPost p.rng d.ports[k].pins.length ∧ d'.lib = d.lib := by
  unfold declStepL at h
  split at h
  · rename_i k0 c0 hk hc
    split at h
    · rename_i hcond
      obtain ⟨hpins, hpn, hlen, hok, hnc, hown⟩ := hcond
      simp only [Option.some.injEq, Prod.mk.injEq] at h
      obtain ⟨h1, h2, h3, h4⟩ := h
      subst h1 h2 h3 h4
      have hklt := portIdx_lt hk
      have hg : d.ports.getD k0 default = d.ports[k0] := by simp [List.getD, List.getElem?_eq_getElem hklt]
      rw [hg] at hpins hpn
      have hl : d.ports[k0].pins.length = c0.wires.length := by rw [hpins]; simp
      refine ⟨hklt, grownPL d.ports[k0] p.rng (c0.wires ++ ids n (declPost p.rng c0.wires.length)) p.dir, hpn, ?_, ?_, hpn, rfl, rfl, ?_, rfl⟩
      · rw [hl]; exact lenOK_of_b _ _ hok
      · simp only [hg]
      · simp [grownPL, hl, ids]
    · cases h
  · cases h

theorem declared_arith (rng : Option (Int × Int)) (len : Nat) (h : lenOK rng len) :
    declLo rng 0 = stubLo rng ∧ len + declPost rng len = 1 + stubExtra rng := by
  cases rng with
  | none => simp only [lenOK] at h; subst h; exact ⟨rfl, rfl⟩
  | some p =>
    obtain ⟨a, b⟩ := p
    simp only [lenOK] at h
    refine ⟨rfl, ?_⟩
    simp only [declPost, stubExtra]
    omega

theorem map_set_same {α β : Type} (l : List α) (k : Nat) (hk : k < l.length) (y : α) (f : α → β) (h : f y = f l[k]) :
    (l.set k y).map f = l.map f := by
  apply List.ext_getElem?
  intro j
  rw [List.map_set]
  by_cases ej : j = k
  · subst ej
    rw [List.getElem?_set_self (by simpa using hk), List.getElem?_map, List.getElem?_eq_getElem hk, h]
    rfl
  · rw [List.getElem?_set_ne (by omega)]

theorem foldDecl_iface : ∀ (ps : List PDecl) (d : Def) (n : Nat) (d' : Def) (n' : Nat) (ops : List (Nat × Nat)),
    foldDecl d n ps = some (d', n', ops) → (ps.map (·.name)).Nodup →
    (∀ P ∈ d.ports, ∀ p ∈ ps, P.name = some p.name → P.lower = 0) →
    (∀ p ∈ ps, ∃ P ∈ d'.ports, Declared p P) ∧ (∀ P ∈ d.ports, (∀ p ∈ ps, P.name ≠ some p.name) → P ∈ d'.ports) ∧
      d'.ports.map (·.name) = d.ports.map (·.name) ∧ d'.lib = d.lib := by
  intro ps
  induction ps with
  | nil =>
    intro d n d' n' ops h _ _
    simp only [foldDecl, Option.some.injEq, Prod.mk.injEq] at h
    rw [← h.1]
    exact ⟨(by intro p hp; cases hp), fun P hP _ => hP, rfl, rfl⟩
  | cons p ps ih =>
    intro d n d' n' ops h hnd hlow
    unfold foldDecl at h
    cases hs : declStepL d n p with
    | none => simp [hs] at h
    | some r =>
      obtain ⟨d1, n1, k, post⟩ := r
      simp only [hs, Option.map_eq_some_iff] at h
      obtain ⟨q, hq, _⟩ := h
      obtain ⟨d2, n2, ops2⟩ := q
      rename_i he
      simp only [Prod.mk.injEq] at he
      obtain ⟨e1, _, _⟩ := he
      subst e1
      obtain ⟨hk, Pn, a1, a2, a3, a4, a5, a6, a7, a8⟩ := declStepL_spec d n p d1 n1 k post hs
      rw [List.map_cons, List.nodup_cons] at hnd
      have hpnot : ∀ p' ∈ ps, p'.name ≠ p.name := by
        intro p' hp' e
        exact hnd.1 (List.mem_map.mpr ⟨p', hp', e⟩)
      have hPnmem : Pn ∈ d1.ports := by
        rw [a3]
        exact List.mem_iff_getElem.mpr ⟨k, by simpa using hk, by simp⟩
      obtain ⟨i1, i2, i3, i4⟩ := ih d1 n1 d2 n2 ops2 hq hnd.2 (by
        intro P hP p' hp' hn
        rw [a3] at hP
        rcases List.mem_or_eq_of_mem_set hP with hm | hm
        · exact hlow P hm p' (List.mem_cons_of_mem _ hp') hn
        · rw [hm, a4] at hn
          exact absurd (Option.some.inj hn).symm (hpnot p' hp'))
      refine ⟨?_, ?_, ?_, i4.trans a8⟩
      · intro p' hp'
        rcases List.mem_cons.mp hp' with e | e
        · subst e
          refine ⟨Pn, i2 Pn hPnmem (fun q hq' hn => by
            rw [a4] at hn; exact hpnot q hq' (Option.some.inj hn).symm), a4, a5, ?_, ?_⟩
          · have hl0 := hlow d.ports[k] (List.getElem_mem hk) p' List.mem_cons_self a1
            rw [a6, hl0]; exact (declared_arith _ _ a2).1
          · rw [a7]; exact (declared_arith _ _ a2).2
        · exact i1 p' e
      · intro P hP hnot
        apply i2 P
        · rw [a3]
          apply mem_set_other _ _ _ _ hP
          intro _ e
          rw [← e] at hnot
          exact hnot p List.mem_cons_self a1
        · intro q hq'; exact hnot q (List.mem_cons_of_mem _ hq')
      · rw [i3, a3]
        exact map_set_same d.ports k hk Pn (·.name) (by rw [a4, a1])

theorem iface_ext (Ps : List Port) (ps : List PDecl) (hn : Ps.map (·.name) = (ps.map (·.name)).map some)
    (hnd : (ps.map (·.name)).Nodup) (h : ∀ p ∈ ps, ∃ P ∈ Ps, Declared p P) :
    Ps.map (fun P => (P.name, P.dir, P.lower, P.pins.length)) = ifaceP ps := by
  have hlen : Ps.length = ps.length := by
    have := congrArg List.length hn; simpa using this
  have hget : ∀ i (h1 : i < Ps.length) (h2 : i < ps.length), Ps[i].name = some ps[i].name := by
    intro i h1 h2
    have e : (Ps.map (·.name))[i]'(by simpa using h1) = ((ps.map (·.name)).map some)[i]'(by simpa using h2) := by
      simp only [hn]
    simpa using e
  unfold ifaceP
  apply List.ext_getElem (by simp [hlen])
  intro j h1 h2
  simp only [List.length_map] at h1 h2
  simp only [List.getElem_map]
  obtain ⟨P, hP, d1, d2, d3, d4⟩ := h ps[j] (List.getElem_mem h2)
  obtain ⟨i, hi, e⟩ := List.mem_iff_getElem.mp hP
  have hin : (ps[i]'(by omega)).name = ps[j].name := by
    have := hget i hi (by omega)
    rw [e, d1] at this
    exact (Option.some.inj this).symm
  have hij : i = j := by
    have e2 : (ps.map (·.name))[i]'(by simp; omega) = (ps.map (·.name))[j]'(by simpa using h2) := by simpa using hin
    exact (List.getElem_inj hnd).mp e2
  subst hij
  rw [e, d1, d2, d3, d4]

theorem hdrStepL_proj (d : Def) (n : Nat) (a : String) (d' : Def) (n' : Nat) (h : hdrStepL d n a = some (d', n')) :
    (d'.ports.map (fun P => (P.name, P.lower)), d'.lib) = (d.ports.map (fun P => (P.name, P.lower)), d.lib) := by
  unfold hdrStepL at h
  split at h
  · rename_i k hk
    split at h
    · simp only [Option.some.injEq, Prod.mk.injEq] at h
      rw [← h.1]
      have hklt := portIdx_lt hk
      simp only [Prod.mk.injEq, and_true]
      apply map_set_same d.ports k hklt
      simp [List.getD, List.getElem?_eq_getElem hklt]
    · cases h
  · cases h

/-- **buildLeaf_iface.**  What the late declaration makes of a module whose ports were created by instances: the
    declared names, directions, base indices and widths, in the declared order, in the primitive library. -/
theorem buildLeaf_iface (L : Def) (n : Nat) (ps : List PDecl) (L' : Def) (n' : Nat) (ops : List (Nat × Nat))
    (hb : buildLeaf L n ps = some (L', n', ops)) (hlow : ∀ P ∈ L.ports, P.lower = 0) :
    ifaceD L' = ifaceP ps ∧ L'.lib = some "hdi_primitives" := by
  unfold buildLeaf at hb
  split at hb
  · rename_i hc
    obtain ⟨_, _, hnames, hnd⟩ := hc
    cases h1 : foldLocal hdrStepL { L with lib := some "hdi_primitives" } n (ps.map (·.name)) with
    | none => simp [h1] at hb
    | some r1 =>
      obtain ⟨d1, n1⟩ := r1
      simp only [h1] at hb
      have hproj := foldLocal_pres (fun d => (d.ports.map (fun P => (P.name, P.lower)), d.lib)) hdrStepL hdrStepL_proj _ _ _ _ _ h1
      simp only [Prod.mk.injEq] at hproj
      obtain ⟨hp1, hp2⟩ := hproj
      have hlow1 : ∀ P ∈ d1.ports, P.lower = 0 := by
        intro P hP
        have : (P.name, P.lower) ∈ d1.ports.map (fun P => (P.name, P.lower)) := List.mem_map.mpr ⟨P, hP, rfl⟩
        rw [hp1] at this
        obtain ⟨P0, hP0, e⟩ := List.mem_map.mp this
        have := hlow P0 hP0
        simp only [Prod.mk.injEq] at e
        rw [← e.2]; exact this
      have hn1 : d1.ports.map (·.name) = L.ports.map (·.name) := by
        have := congrArg (List.map Prod.fst) hp1
        simpa [List.map_map, Function.comp_def] using this
      obtain ⟨i1, _, i3, i4⟩ := foldDecl_iface ps d1 n1 L' n' ops hb hnd (fun P hP _ _ _ => hlow1 P hP)
      refine ⟨?_, by rw [i4, hp2]⟩
      exact iface_ext L'.ports ps (by rw [i3, hn1, hnames]) hnd i1
  · cases hb

/-! ### the stubs instances create are based at 0 -/

theorem firstStep_lower (d0 : Def) : ∀ (conns : List (String × XExpr)) (a b : List Port × List (List (Option Nat))),
    (∀ P ∈ a.1, P.lower = 0) → conns.foldlM (firstStep d0) a = some b → ∀ P ∈ b.1, P.lower = 0 := by
  intro conns
  induction conns with
  | nil => intro a b h hf; simp only [List.foldlM_nil, pure, Option.some.injEq] at hf; rw [← hf]; exact h
  | cons c cs ih =>
    intro a b h hf
    rw [List.foldlM_cons] at hf
    cases hs : firstStep d0 a c with
    | none => simp [hs] at hf
    | some r =>
      simp only [hs, Option.bind_eq_bind, Option.bind_some] at hf
      refine ih r b ?_ hf
      have hnew : ∀ (w : Nat) (P : Port), P ∈ a.1 ++ [newPort c.1 w] → P.lower = 0 := by
        intro w P hP
        rcases List.mem_append.mp hP with e | e
        · exact h P e
        · simp only [List.mem_singleton] at e; rw [e]; rfl
      unfold firstStep at hs
      split at hs
      · split at hs
        · simp only [Option.some.injEq] at hs; rw [← hs]; exact hnew 1
        · cases hw : exprWires d0 c.2 with
          | none => simp [hw] at hs
          | some ws =>
            simp only [hw] at hs
            split at hs
            · simp only [Option.some.injEq] at hs; rw [← hs]; exact hnew ws.length
            · cases hs
      · cases hs

theorem foldInst_lower : ∀ (is : List NInst) (d : Def) (ls : List Def) (d' : Def) (ls' : List Def),
    foldInst d ls is = some (d', ls') → (∀ l ∈ ls, ∀ P ∈ l.ports, P.lower = 0) → ∀ l ∈ ls', ∀ P ∈ l.ports, P.lower = 0 := by
  intro is
  induction is with
  | nil =>
    intro d ls d' ls' h hl
    simp only [foldInst, Option.some.injEq, Prod.mk.injEq] at h
    rw [← h.2]; exact hl
  | cons i is ih =>
    intro d ls d' ls' h hl
    unfold foldInst at h
    cases hs : instStep2 d ls i with
    | none => simp [hs] at h
    | some r =>
      obtain ⟨d1, ls1⟩ := r
      simp only [hs] at h
      refine ih d1 ls1 d' ls' h ?_
      unfold instStep2 at hs
      split at hs
      · cases hf : ls.find? (fun l => l.name == i.mod) with
        | some rd =>
          simp only [hf, Option.map_eq_some_iff] at hs
          obtain ⟨rows, _, he⟩ := hs
          simp only [Prod.mk.injEq] at he
          rw [← he.2]; exact hl
        | none =>
          simp only [hf, Option.map_eq_some_iff] at hs
          obtain ⟨r, hr, he⟩ := hs
          simp only [Prod.mk.injEq] at he
          rw [← he.2]
          intro l hl'
          rcases List.mem_append.mp hl' with e | e
          · exact hl l e
          · simp only [List.mem_singleton] at e
            rw [e]
            exact firstStep_lower d i.conns ([], []) r (by intro P hP; cases hP) hr
      · cases hs

/-- the leaves the file declares end with the declared interface -/
theorem foldLeaves_iface : ∀ (ms : List WLeaf) (D : Def) (ls : List Def) (n : Nat) (D' : Def) (ls' : List Def) (n' : Nat),
    LInv D ls → foldLeaves D ls n ms = some (D', ls', n') → (ms.map (·.name)).Nodup →
    (∀ l ∈ ls, ∀ m ∈ ms, l.name = m.name → ∀ P ∈ l.ports, P.lower = 0) →
    (∀ m ∈ ms, ∃ L' ∈ ls', L'.name = m.name ∧ L'.lib = some "hdi_primitives" ∧ ifaceD L' = ifaceP m.ports) ∧
      ls'.map (·.name) = ls.map (·.name) ∧ (∀ l ∈ ls, (∀ m ∈ ms, l.name ≠ m.name) → l ∈ ls') := by
  intro ms
  induction ms with
  | nil =>
    intro D ls n D' ls' n' _ h _ _
    simp only [foldLeaves, Option.some.injEq, Prod.mk.injEq] at h
    rw [← h.2.1]
    exact ⟨(by intro m hm; cases hm), rfl, fun l hl _ => hl⟩
  | cons m ms ih =>
    intro D ls n D' ls' n' inv h hnd hlow
    unfold foldLeaves at h
    cases hf : ls.find? (fun l => l.name == m.name) with
    | none => simp [hf] at h
    | some L =>
      simp only [hf] at h
      cases hb : buildLeaf L n m.ports with
      | none => simp [hb] at h
      | some r =>
        obtain ⟨L', n1, ops⟩ := r
        simp only [hb] at h
        obtain ⟨_, g2, g3, _, _⟩ := leaf_step D ls n none m L L' n1 ops inv hf hb
        have hLm := List.mem_of_find?_eq_some hf
        have hLn : L.name = m.name := by simpa using List.find?_some hf
        rw [List.map_cons, List.nodup_cons] at hnd
        have hmnot : ∀ m' ∈ ms, m'.name ≠ m.name := by
          intro m' hm' e
          exact hnd.1 (List.mem_map.mpr ⟨m', hm', e⟩)
        have hL'mem : L' ∈ setLeaf ls m.name L' := by
          unfold setLeaf
          exact List.mem_map.mpr ⟨L, hLm, by simp [hLn]⟩
        obtain ⟨i1, i2, i3⟩ := ih _ _ _ D' ls' n' g2 h hnd.2 (by
          intro l1 hl1 m' hm' hn P hP
          unfold setLeaf at hl1
          obtain ⟨l, hl, e⟩ := List.mem_map.mp hl1
          by_cases en : l.name = m.name
          · simp only [en, beq_self_eq_true, if_true] at e
            rw [← e, g3] at hn
            exact absurd hn.symm (hmnot m' hm')
          · simp only [show (l.name == m.name) = false by simp [en], Bool.false_eq_true, if_false] at e
            rw [← e] at hn hP
            exact hlow l hl m' (List.mem_cons_of_mem _ hm') hn P hP)
        obtain ⟨j1, j2⟩ := buildLeaf_iface L n m.ports L' n1 ops hb (hlow L hLm m List.mem_cons_self hLn)
        refine ⟨?_, by rw [i2, setLeaf_names ls m.name L' g3], ?_⟩
        · intro m' hm'
          rcases List.mem_cons.mp hm' with e | e
          · subst e
            exact ⟨L', i3 L' hL'mem (fun q hq e => hmnot q hq (by rw [← e, g3])), g3, j2, j1⟩
          · exact i1 m' e
        · intro l hl hnot
          apply i3 l
          · unfold setLeaf
            refine List.mem_map.mpr ⟨l, hl, ?_⟩
            have := hnot m List.mem_cons_self
            simp [this]
          · intro q hq; exact hnot q (List.mem_cons_of_mem _ hq)
end Spydr.Verilog.Elab
