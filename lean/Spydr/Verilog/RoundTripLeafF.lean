/-
  Verilog engine — proof side, part 36: C04 with the leaves written (`write_blackbox=True`), up to the syntax trees:
  `astLeaf`, `c04_view_bb`, `c04_ast_bb`, non-vacuity `exNetBB_frag`.
-/
import Spydr.Verilog.RoundTripLeafE
set_option maxHeartbeats 1600000
namespace Spydr.Verilog.Elab
open Spydr.Verilog

/-! ### from the writer's netlist to the `celldefine` modules it prints -/

/-- `_write_module_body_ports` for a port of a primitive: `dir [msb:lsb] name ;` with the port's own range — the port has no
    inner net (a primitive library), or is wired pin by pin to the whole net of its own name (what the Verilog reader
    builds for a `celldefine` module) -/
def astLeafPort (r : Text.WDef) (p : Text.WPort) : Option PDecl :=
  match p.name, dirOfS p.dir with
  | some nm, some dir =>
    if 1 ≤ p.width ∧ p.attrs.getD [] = [] then
      if p.pins.all (fun b => b.isNone) then some ⟨nm, dir, emitDeclRange p.lower p.width, []⟩
      else
        match r.cables.find? (fun c => c.name == nm) with
        | some c =>
          if p.lower = c.lower ∧ p.width = c.width ∧ p.pins = (cableBits nm c.lower c.width).items.map some ∧
              emitHeaderPort (Text.envOf r) nm p.pins = some none then
            some ⟨nm, dir, emitDeclRange p.lower p.width, []⟩
          else none
        | none => none
    else none
  | _, _ => none

def astLeaf (r : Text.WDef) : Option WLeaf := (r.ports.mapM (astLeafPort r)).map (fun ps => ⟨r.name, ps⟩)

/-- the interface of a definition of the netlist: name, direction, base index, width of every port, in order -/
def ifaceT (r : Text.WDef) : Iface := r.ports.map (fun p => (p.name, dirV p.dir, p.lower, p.width))

/-- what `astLeafPort` says of the port it accepts -/
theorem astLeafPort_spec (r : Text.WDef) (p : Text.WPort) (q : PDecl) (h : astLeafPort r p = some q) :
    ∃ nm dir, p.name = some nm ∧ dirOfS p.dir = some dir ∧ 1 ≤ p.width ∧ p.attrs.getD [] = [] ∧
      q = ⟨nm, dir, emitDeclRange p.lower p.width, []⟩ ∧
      (p.pins.all (fun b => b.isNone) = true ∨
        ∃ c, r.cables.find? (fun c => c.name == nm) = some c ∧ p.lower = c.lower ∧ p.width = c.width ∧
          p.pins = (cableBits nm c.lower c.width).items.map some ∧ emitHeaderPort (Text.envOf r) nm p.pins = some none) := by
  unfold astLeafPort at h
  split at h
  · rename_i nm dir hn hd
    split at h
    · rename_i hc
      split at h
      · rename_i hfree
        simp only [Option.some.injEq] at h
        exact ⟨nm, dir, hn, hd, hc.1, hc.2, h.symm, Or.inl hfree⟩
      · split at h
        · rename_i c hfc
          split at h
          · rename_i hw
            simp only [Option.some.injEq] at h
            exact ⟨nm, dir, hn, hd, hc.1, hc.2, h.symm, Or.inr ⟨c, hfc, hw.1, hw.2.1, hw.2.2.1, hw.2.2.2⟩⟩
          · cases h
        · cases h
    · cases h
  · cases h

theorem astLeafPort_iface (r : Text.WDef) (p : Text.WPort) (q : PDecl) (h : astLeafPort r p = some q) :
    (some q.name, q.dir, stubLo q.rng, 1 + stubExtra q.rng) = (p.name, dirV p.dir, p.lower, p.width) := by
  obtain ⟨nm, dir, hn, hd, hw, _, e, _⟩ := astLeafPort_spec r p q h
  rw [e]
  obtain ⟨s1, s2, _⟩ := stub_declRange p.lower p.width hw
  simp only [s1, s2, hn, dirV, hd, Option.getD_some]

theorem mapM_map_eq {α β γ : Type} (f : α → Option β) (g : β → γ) (h : α → γ) (hfg : ∀ a b, f a = some b → g b = h a) :
    ∀ (l : List α) (r : List β), l.mapM f = some r → r.map g = l.map h := by
  intro l
  induction l with
  | nil => intro r hm; simp at hm; subst hm; rfl
  | cons a l ih =>
    intro r hm
    rw [List.mapM_cons] at hm
    cases ha : f a with
    | none => simp [ha] at hm
    | some b =>
      cases hr : l.mapM f with
      | none => simp [ha, hr] at hm
      | some r' =>
        simp only [ha, hr, Option.bind_eq_bind, Option.bind_some, pure, Option.some.injEq] at hm
        subst hm
        simp only [List.map_cons, hfg a b ha, ih r' hr]

theorem astLeaf_iface (r : Text.WDef) (m : WLeaf) (h : astLeaf r = some m) : m.name = r.name ∧ ifaceP m.ports = ifaceT r := by
  unfold astLeaf at h
  simp only [Option.map_eq_some_iff] at h
  obtain ⟨ps, hps, e⟩ := h
  rw [← e]
  refine ⟨rfl, ?_⟩
  exact mapM_map_eq (astLeafPort r) _ _ (astLeafPort_iface r) r.ports ps hps

theorem instStep2_lib (d : Def) (ls : List Def) (i : NInst) (d' : Def) (ls' : List Def) (h : instStep2 d ls i = some (d', ls')) :
    d'.lib = d.lib := by
  unfold instStep2 at h
  split at h
  · cases hf : ls.find? (fun l => l.name == i.mod) with
    | some rd =>
      simp only [hf, Option.map_eq_some_iff] at h
      obtain ⟨_, _, he⟩ := h
      simp only [Prod.mk.injEq] at he
      rw [← he.1]
    | none =>
      simp only [hf, Option.map_eq_some_iff] at h
      obtain ⟨_, _, he⟩ := h
      simp only [Prod.mk.injEq] at he
      rw [← he.1]
  · cases h

theorem foldInst_lib : ∀ (is : List NInst) (d : Def) (ls : List Def) (d' : Def) (ls' : List Def),
    foldInst d ls is = some (d', ls') → d'.lib = d.lib := by
  intro is
  induction is with
  | nil => intro d ls d' ls' h; simp only [foldInst, Option.some.injEq, Prod.mk.injEq] at h; rw [← h.1]
  | cons i is ih =>
    intro d ls d' ls' h
    unfold foldInst at h
    cases hs : instStep2 d ls i with
    | none => simp [hs] at h
    | some r =>
      simp only [hs] at h
      exact (ih r.1 r.2 d' ls' h).trans (instStep2_lib d ls i r.1 r.2 (by rw [hs]))

theorem buildW3_lib (d0 : Def) (n : Nat) (ports : List PDecl) (wires : List FWire) (d3 : Def) (n3 : Nat)
    (hb : buildW3 d0 n ports wires = some (d3, n3)) : d3.lib = d0.lib := by
  have s1 : ∀ d n a d' n', stubStep d n a = some (d', n') → d'.lib = d.lib := by
    intro d n a d' n' h
    unfold stubStep at h
    split at h
    · simp only [Option.some.injEq, Prod.mk.injEq] at h; rw [← h.1]
    · cases h
  have s2 : ∀ d n a d' n', declStep d n a = some (d', n') → d'.lib = d.lib := by
    intro d n a d' n' h
    unfold declStep at h
    split at h
    · split at h
      · split at h
        · simp only [Option.some.injEq, Prod.mk.injEq] at h; rw [← h.1]
        · cases h
      · cases h
    · cases h
  have s3 : ∀ d n a d' n', wireStep d n a = some (d', n') → d'.lib = d.lib := by
    intro d n a d' n' h
    unfold wireStep at h
    split at h
    · simp only [Option.some.injEq, Prod.mk.injEq] at h; rw [← h.1]
    · split at h
      · simp only [Option.some.injEq, Prod.mk.injEq] at h; rw [← h.1]
      · cases h
  unfold buildW3 at hb
  cases h1 : foldLocal stubStep d0 n (ports.map (·.name)) with
  | none => simp [h1] at hb
  | some r1 =>
    simp only [h1] at hb
    split at hb
    · cases h2 : foldLocal declStep r1.1 r1.2 ports with
      | none => simp [h2] at hb
      | some r2 =>
        simp only [h2] at hb
        have a := foldLocal_pres (·.lib) stubStep s1 _ _ _ r1.1 r1.2 (by rw [h1])
        have b := foldLocal_pres (·.lib) declStep s2 _ _ _ r2.1 r2.2 (by rw [h2])
        have c := foldLocal_pres (·.lib) wireStep s3 _ _ _ d3 n3 hb
        exact c.trans (b.trans a)
    · cases hb

/-- **c04_view_bb.**  C04 with the leaves written: the table the reader builds for the file `top module; celldefine modules
    of the leaves` shows the view of the top definition (the late declarations only add free pins at the high end of
    instance rows), and every written leaf comes back in the primitive library with the interface of its definition in
    the netlist: the same port names, directions, base indices and widths in the same order. -/
theorem c04_view_bb (n : Text.WNet) (T : Text.WDef) (m : WModP) (rs : List Text.WDef) (leaves : List WLeaf)
    (defs : List Def) (nx : Nat)
    (hfrag : fragTop n T = true) (hm : astOf n T = some m) (hrs : rs.mapM astLeaf = some leaves)
    (hnd : (rs.map (·.name)).Nodup) (hb : buildBB m.toI leaves = some (defs, nx)) :
    ∃ D ls, defs = D :: ls ∧ viewD D = viewT n T ∧ D.lib = some "work" ∧
      ∀ r ∈ rs, ∃ L ∈ ls, L.name = r.name ∧ L.lib = some "hdi_primitives" ∧ ifaceD L = ifaceT r := by
  unfold buildBB at hb
  cases h3 : buildW3 ⟨m.toI.name, some "work", false, [], none, [], [], []⟩ 0 m.toI.ports m.toI.wires with
  | none => simp [h3] at hb
  | some r3 =>
    obtain ⟨d3, n3⟩ := r3
    simp only [h3] at hb
    split at hb
    · rename_i hcn
      cases h4 : foldInst d3 [] m.toI.insts with
      | none => simp [h4] at hb
      | some r4 =>
        obtain ⟨d4, ls4⟩ := r4
        simp only [h4] at hb
        cases h5 : foldLeaves (withAttrs m.toI.attrs d4) ls4 n3 leaves with
        | none => simp [h5] at hb
        | some r5 =>
          obtain ⟨D5, ls5, n5⟩ := r5
          simp only [h5, Option.some.injEq, Prod.mk.injEq] at hb
          obtain ⟨hdefs, _⟩ := hb
          -- the table of the top module alone
          have hWI : buildWI m.toI = some ((withAttrs m.toI.attrs d4 :: ls4).map markBB, n3) := by
            unfold buildWI
            rw [buildW_eq3, h3]
            simp only [hcn, if_true, h4]
            rfl
          obtain ⟨D0, ls0, e0, hv0, _⟩ := c04_view n T m _ _ hfrag hm hWI
          simp only [List.map_cons, List.cons.injEq] at e0
          rw [← e0.1, viewD_markBB] at hv0
          -- the invariant after the top module
          obtain ⟨_, inv4, _⟩ := elabModule_wtop m.toI d3 n3 d4 ls4 h3 hcn h4
          have inv4' : LInv (withAttrs m.toI.attrs d4) ls4 := by
            unfold withAttrs
            split
            · exact inv4
            · exact ⟨inv4.nodup, inv4.names, inv4.linsts, inv4.closed, inv4.full, inv4.cables⟩
          obtain ⟨hv5, hlib5⟩ := foldLeaves_view leaves _ ls4 n3 D5 ls5 n5 inv4' h5
          have hlow := foldInst_lower m.toI.insts d3 [] d4 ls4 h4 (by intro l hl; cases hl)
          have hnames : leaves.map (·.name) = rs.map (·.name) :=
            mapM_map_eq astLeaf (·.name) (·.name) (fun a b h => (astLeaf_iface a b h).1) rs leaves hrs
          obtain ⟨hI, _, _⟩ := foldLeaves_iface leaves _ ls4 n3 D5 ls5 n5 inv4' h5 (by rw [hnames]; exact hnd)
            (fun l hl _ _ _ P hP => hlow l hl P hP)
          have hlibtop : (withAttrs m.toI.attrs d4).lib = some "work" := by
            obtain ⟨q1, q2, q3⟩ := foldInst_frame _ d3 [] d4 ls4 h4
            have hd3lib : d3.lib = some "work" := by
              have := buildW3_lib ⟨m.toI.name, some "work", false, [], none, [], [], []⟩ 0 m.toI.ports m.toI.wires d3 n3 h3
              exact this
            have hd4lib : d4.lib = d3.lib := foldInst_lib _ d3 [] d4 ls4 h4
            unfold withAttrs
            split <;> simp [hd4lib, hd3lib]
          have hlibD5 : D5.lib = some "work" := by rw [hlib5, hlibtop]
          refine ⟨markBB D5, ls5.map markBB, by rw [← hdefs]; rfl, by rw [viewD_markBB, hv5]; exact hv0, ?_, ?_⟩
          · unfold markBB; simp [hlibD5]
          · intro r hr
            -- the leaf syntax of r
            have : ∃ lf ∈ leaves, astLeaf r = some lf := by
              have hlen := (mapM_index astLeaf rs leaves hrs)
              obtain ⟨k, hk, e⟩ := List.mem_iff_getElem.mp hr
              exact ⟨leaves[k]'(by omega), List.getElem_mem _, by rw [← e]; exact hlen.2 k hk (by omega)⟩
            obtain ⟨lf, hlf, ha⟩ := this
            obtain ⟨L', hL', g1, g2, g3⟩ := hI lf hlf
            obtain ⟨a1, a2⟩ := astLeaf_iface r lf ha
            refine ⟨L', List.mem_map.mpr ⟨L', hL', by unfold markBB; simp [g2]⟩, g1.trans a1, g2, g3.trans a2⟩
    · cases hb

/-- the fragment with the leaves written, up to the syntax trees (decidable): `T` in `fragTop`, the written leaves `rs`
    have distinct names and a `celldefine` syntax, and the pure reader `buildBB` accepts the file -/
def fragBBast (n : Text.WNet) (T : Text.WDef) (rs : List Text.WDef) : Bool :=
  fragTop n T && decide ((rs.map (·.name)).Nodup) &&
  (match astOf n T, rs.mapM astLeaf with
   | some m, some leaves => (buildBB m.toI leaves).isSome
   | _, _ => false)

/-- **c04_ast_bb.**  The reading of what is written with `write_blackbox=True`, up to tokens: the REAL `elabDesign`
    accepts the file `astOf n T` followed by the `celldefine` modules of `rs`, elects `T` as top, the first definition
    shows the view of `T` and every leaf of `rs` has the interface of its definition in the netlist. -/
theorem c04_ast_bb (n : Text.WNet) (T : Text.WDef) (rs : List Text.WDef) (h : fragBBast n T rs = true) :
    ∃ m leaves s D ls, astOf n T = some m ∧ rs.mapM astLeaf = some leaves ∧
      elabDesign (m.toI.toModule :: leaves.map WLeaf.toModule) = .ok s ∧ s.defs = D :: ls ∧ s.top = some T.name ∧
      s.pending = [] ∧ viewD D = viewT n T ∧ D.lib = some "work" ∧
      ∀ r ∈ rs, ∃ L ∈ ls, L.name = r.name ∧ L.lib = some "hdi_primitives" ∧ ifaceD L = ifaceT r := by
  unfold fragBBast at h
  simp only [Bool.and_eq_true, decide_eq_true_eq] at h
  obtain ⟨⟨hf, hnd⟩, hs⟩ := h
  cases hm : astOf n T with
  | none => simp [hm] at hs
  | some m =>
    cases hl : rs.mapM astLeaf with
    | none => simp [hm, hl] at hs
    | some leaves =>
      simp only [hm, hl] at hs
      obtain ⟨r, hr⟩ := Option.isSome_iff_exists.mp hs
      obtain ⟨defs, nx⟩ := r
      obtain ⟨D, ls, e, hv, hlib, hI⟩ := c04_view_bb n T m rs leaves defs nx hf hm hl hnd hr
      have hE := elabDesign_bb m.toI leaves defs nx hr
      have hname : m.toI.name = T.name := by
        unfold astOf at hm
        cases h1 : T.ports.mapM (astPort T) with
        | none => simp [h1] at hm
        | some ports =>
          cases h2 : T.insts.mapM (astInst n T) with
          | none => simp [h1, h2] at hm
          | some insts => simp only [h1, h2, Option.some.injEq] at hm; rw [← hm]; rfl
      exact ⟨m, leaves, _, D, ls, rfl, rfl, hE, e, by rw [← hname], rfl, hv, hlib, hI⟩

/-- non-vacuity: `exNet` with a six-bit address port on `RAM` of which the only instance connects four bits: the first
    instance creates a four-bit port, the `celldefine` module declares `[5:0]`, the row of the instance grows by two free
    pins; `I1` of `LUT2` is first met connected, then open -/
def exNetBB : Text.WNet :=
  let b (c : String) (i : Int) : Option Bit := some ⟨c, i⟩
  { name := "ex", top := some "top",
    defs := [
      { name := "top", lib := "work", params := none, attrs := none,
        ports := [⟨some "a", "IN", 0, 4, [b "a" 0, b "a" 1, b "a" 2, b "a" 3], none⟩,
                  ⟨some "b", "IN", 0, 1, [b "b" 0], none⟩,
                  ⟨some "y", "OUT", 0, 2, [b "y" 0, b "y" 1], some [("keep", none)]⟩],
        cables := [⟨"a", 0, 4, none, none⟩, ⟨"b", 0, 1, none, none⟩, ⟨"y", 0, 2, some "wire", none⟩, ⟨"n", 0, 3, some "wire", none⟩],
        insts := [⟨"u0", "LUT2", some [("INIT", "4'h8")], none, [[b "a" 0], [b "b" 0], [b "y" 0]]⟩,
                  ⟨"u1", "LUT2", none, none, [[b "n" 0], [none], [b "y" 1]]⟩,
                  ⟨"r0", "RAM", none, some [("dont_touch", some "\"true\"")],
                    [[b "b" 0, b "a" 3, b "n" 1, b "n" 2, none, none], [b "n" 0]]⟩] },
      { name := "LUT2", lib := "hdi_primitives", params := none, attrs := none,
        ports := [⟨some "I0", "IN", 0, 1, [none], none⟩, ⟨some "I1", "IN", 0, 1, [none], none⟩, ⟨some "O", "OUT", 0, 1, [none], none⟩],
        cables := [], insts := [] },
      { name := "RAM", lib := "hdi_primitives", params := none, attrs := none,
        ports := [⟨some "addr", "IN", 2, 6, [none, none, none, none, none, none], none⟩, ⟨some "q", "OUT", 0, 1, [none], none⟩],
        cables := [], insts := [] }] }

def exTopBB : Text.WDef := exNetBB.defs.headD default

theorem exNetBB_frag : fragBBast exNetBB exTopBB (exNetBB.defs.drop 1) = true := by decide
end Spydr.Verilog.Elab
