/-
  Verilog engine — proof side, part 37: token level with the leaves written: the real parser on `celldefine` modules
  (`primBodyGo_ports`, `moduleP_leaf`, `topGo_leaf`), the two directives through `preprocess`, and `parse_bb`.
-/
import Spydr.Verilog.RoundTripLeafF
import Spydr.Verilog.RoundTripStruct
set_option maxHeartbeats 1600000
namespace Spydr.Verilog.Elab
open Spydr.Verilog
open Spydr.Verilog.Parse

/-! ### the tokens of a `celldefine` module and the real parser on them -/

def leafCore (lf : WLeaf) : List String :=
  "module" :: nameT lf.name :: "(" :: (sepNames (lf.ports.map (·.name)) ++ ")" :: ";" ::
    (lf.ports.flatMap (fun p => portCore p.dir p.rng p.name) ++ ["endmodule"]))

def leafToks (lf : WLeaf) : List String := "`celldefine" :: (leafCore lf ++ ["`endcelldefine"])

def leafOK (lf : WLeaf) : Bool :=
  nameTokB (nameT lf.name) lf.name &&
  lf.ports.all (fun p => portOK p.dir p.rng p.name && p.attrs.isEmpty) && cleanToks (leafCore lf)

theorem primBodyGo_end (f : Nat) (rest : Toks) (acc : List Item) :
    primBodyGo (f + 1) ("endmodule" :: rest) acc = .ok (acc, rest) := by
  unfold primBodyGo
  simp [peek, next, bind, Except.bind, pure, Except.pure]

theorem primBodyGo_port (f : Nat) (p : PDecl) (tail : Toks) (acc : List Item) (h : portOK p.dir p.rng p.name = true) :
    primBodyGo (f + 1) (portCore p.dir p.rng p.name ++ tail) acc =
      primBodyGo f tail (acc ++ [.portDecl p.dir none p.rng p.name []]) := by
  have hp := portDeclP_toks [] p.dir p.rng p.name tail h
  have hd : p.dir ≠ .undef := by
    simp only [portOK, Bool.and_eq_true, bne_iff_ne, ne_eq] at h; exact h.1.1
  have hdo := dirOf_dirTok p.dir hd
  have he1 : (dirTok p.dir == "endmodule") = false := by cases hpd : p.dir <;> first | decide | exact absurd hpd hd
  have he2 : (dirTok p.dir == "endprimitive") = false := by cases hpd : p.dir <;> first | decide | exact absurd hpd hd
  have he3 : (dirTok p.dir == "function") = false := by cases hpd : p.dir <;> first | decide | exact absurd hpd hd
  have he4 : (dirTok p.dir == "task") = false := by cases hpd : p.dir <;> first | decide | exact absurd hpd hd
  conv => lhs; unfold primBodyGo
  unfold portCore at hp ⊢
  simp only [List.cons_append] at hp ⊢
  simp only [peek, bind, Except.bind, he1, he2, he3, he4, Bool.or_self, Bool.false_eq_true, if_false, hdo,
    Option.isSome_some, if_true, hp]

theorem primBodyGo_ports : ∀ (ports : List PDecl) (acc : List Item) (f : Nat) (rest : Toks),
    ports.length + 1 ≤ f → (∀ p ∈ ports, portOK p.dir p.rng p.name = true) →
    primBodyGo f (ports.flatMap (fun p => portCore p.dir p.rng p.name) ++ "endmodule" :: rest) acc =
      .ok (acc ++ ports.map (fun p => Item.portDecl p.dir none p.rng p.name []), rest) := by
  intro ports
  induction ports with
  | nil =>
    intro acc f rest hf _
    obtain ⟨g, hg⟩ : ∃ g, f = g + 1 := ⟨f - 1, by simp at hf; omega⟩
    subst hg
    simp [primBodyGo_end]
  | cons p ports ih =>
    intro acc f rest hf hok
    obtain ⟨g, hg⟩ : ∃ g, f = g + 1 := ⟨f - 1, by simp at hf; omega⟩
    subst hg
    simp only [List.flatMap_cons, List.append_assoc]
    rw [primBodyGo_port g p _ acc (hok p List.mem_cons_self)]
    rw [ih _ g rest (by simp only [List.length_cons] at hf; omega) (fun x hx => hok x (List.mem_cons_of_mem _ hx))]
    simp

theorem moduleP_leaf (lf : WLeaf) (pend : Attrs) (rest : Toks) (h : leafOK lf = true) :
    moduleP true pend ("module" :: nameT lf.name :: "(" :: (sepNames (lf.ports.map (·.name)) ++ ")" :: ";" ::
      (lf.ports.flatMap (fun p => portCore p.dir p.rng p.name) ++ "endmodule" :: rest))) =
      .ok (⟨lf.name, true, pend, [], lf.ports.map (fun p => (⟨p.name, none, none, none⟩ : HPort)),
        lf.ports.map (fun p => Item.portDecl p.dir none p.rng p.name [])⟩, rest) := by
  simp only [leafOK, Bool.and_eq_true, List.all_eq_true] at h
  obtain ⟨⟨h2, h3⟩, _⟩ := h
  have hn := nameTok_sound _ _ h2
  have hpn : ∀ a ∈ lf.ports.map (·.name), nameTokB (nameT a) a = true := by
    intro a ha
    obtain ⟨p, hp, e⟩ := List.mem_map.mp ha
    have := (h3 p hp).1
    simp only [portOK, Bool.and_eq_true] at this
    rw [← e]; exact this.2
  generalize hbody : lf.ports.flatMap (fun p => portCore p.dir p.rng p.name) ++ "endmodule" :: rest = body
  have hhp := headerPortsGo_toks (lf.ports.map (·.name)) [] ((sepNames (lf.ports.map (·.name))).length + (body.length + 1 + 1) + 1)
    (";" :: body) (by have := sepNames_len (lf.ports.map (·.name)); omega) hpn
  have hb := primBodyGo_ports lf.ports [] (body.length + 1) rest (by
    rw [← hbody]
    have : ∀ (l : List PDecl), l.length ≤ (l.flatMap (fun p => portCore p.dir p.rng p.name)).length := by
      intro l
      induction l with
      | nil => simp
      | cons a l ih =>
        have hp1 : 1 ≤ (portCore a.dir a.rng a.name).length := by simp [portCore]
        simp only [List.flatMap_cons, List.length_append, List.length_cons]; omega
    have := this lf.ports
    simp only [List.length_append, List.length_cons]; omega) (fun p hp => (h3 p hp).1)
  rw [hbody] at hb
  unfold moduleP header
  have e1 : ("(" == "#") = false := by decide
  simp only [expect, next, peek, bind, Except.bind, beq_self_eq_true, if_true, hn.valid, Bool.not_true, Bool.false_eq_true,
    if_false, e1, pure, Except.pure, List.length_append, List.length_cons]
  simp only [List.nil_append, List.length_append, List.length_cons] at hhp
  simp only [List.nil_append] at hb
  rw [hhp]
  simp only [List.nil_append, beq_self_eq_true, if_true]
  rw [hb]
  simp [hn.strip, List.map_map, Function.comp_def]

/-! the two directives -/

theorem splitOn_cell : ("`celldefine".splitOn " ") = ["`celldefine"] := by
  unfold String.splitOn
  simp only [show (" " == "") = false by decide, Bool.false_eq_true, if_false]
  repeat (rw [String.splitOnAux]; simp (config := {decide := true}))

theorem splitOn_endcell : ("`endcelldefine".splitOn " ") = ["`endcelldefine"] := by
  unfold String.splitOn
  simp only [show (" " == "") = false by decide, Bool.false_eq_true, if_false]
  repeat (rw [String.splitOnAux]; simp (config := {decide := true}))

theorem firstWord_cell : firstWord "`celldefine" = "`celldefine" := by decide +kernel

theorem firstWord_endcell : firstWord "`endcelldefine" = "`endcelldefine" := by decide +kernel

/-- tokens the preprocessing keeps: no comment, and no directive other than the two `celldefine` ones -/
def keepTok (t : String) : Bool :=
  !(Text.isCommentTok t) && (!(t.startsWith "`") || t == "`celldefine" || t == "`endcelldefine")

theorem preprocess_keep : ∀ (ts : Toks) (f : Nat), ts.length + 1 ≤ f → ts.all keepTok = true →
    preprocess f ts false = .ok ts := by
  intro ts
  induction ts with
  | nil =>
    intro f hf _
    obtain ⟨g, hg⟩ : ∃ g, f = g + 1 := ⟨f - 1, by simp at hf; omega⟩
    subst hg; rfl
  | cons t ts ih =>
    intro f hf hc
    obtain ⟨g, hg⟩ : ∃ g, f = g + 1 := ⟨f - 1, by simp at hf; omega⟩
    subst hg
    simp only [List.all_cons, Bool.and_eq_true] at hc
    obtain ⟨hk, h3⟩ := hc
    simp only [keepTok, Bool.and_eq_true, Bool.not_eq_eq_eq_not, Bool.not_true, Bool.or_eq_true, beq_iff_eq] at hk
    obtain ⟨h1, h2⟩ := hk
    have hA : (t.startsWith "`" && hasRest t && firstWord t == "`ifdef") = false := by
      rcases h2 with (h2 | h2) | h2
      · simp [h2]
      · subst h2; rw [firstWord_cell]; simp
      · subst h2; rw [firstWord_endcell]; simp
    have hB : (t.startsWith "`" && hasRest t && firstWord t == "`define") = false := by
      rcases h2 with (h2 | h2) | h2
      · simp [h2]
      · subst h2; rw [firstWord_cell]; simp
      · subst h2; rw [firstWord_endcell]; simp
    unfold preprocess
    simp only [h1, hA, hB, Bool.false_eq_true, if_false, bind, Except.bind]
    rw [ih g (by simp only [List.length_cons] at hf; omega) h3]
    rfl

theorem keep_of_clean (ts : Toks) (h : cleanToks ts = true) : ts.all keepTok = true := by
  simp only [cleanToks, List.all_eq_true, Bool.and_eq_true, Bool.not_eq_eq_eq_not, Bool.not_true] at h
  simp only [List.all_eq_true, keepTok, Bool.and_eq_true, Bool.not_eq_eq_eq_not, Bool.not_true, Bool.or_eq_true]
  intro t ht
  exact ⟨(h t ht).1, Or.inl (Or.inl (h t ht).2)⟩

theorem fw_module : (firstWord "module" == "`celldefine") = false ∧ (firstWord "module" == "`endcelldefine") = false := by
  rw [firstWord_module]; exact ⟨by decide, by decide⟩

theorem fw_paren : (firstWord "(" == "`celldefine") = false ∧ (firstWord "(" == "`endcelldefine") = false := by
  rw [firstWord_paren]; exact ⟨by decide, by decide⟩

/-- one `celldefine` module at the top level of the file: three turns of the loop -/
theorem topGo_leaf (f : Nat) (lf : WLeaf) (rest : Toks) (acc : List Module) (h : leafOK lf = true) :
    topGo (f + 3) (leafToks lf ++ rest) false [] acc = topGo f rest false [] (acc ++ [lf.toModule]) := by
  have hm := moduleP_leaf lf [] ("`endcelldefine" :: rest) h
  have hattrs : lf.ports.map (fun p => Item.portDecl p.dir none p.rng p.name []) = lf.ports.map PDecl.item := by
    apply List.map_congr_left
    intro p hp
    simp only [leafOK, Bool.and_eq_true, List.all_eq_true] at h
    have := (h.1.2 p hp).2
    unfold PDecl.item
    rw [List.isEmpty_iff.mp this]
  unfold leafToks leafCore
  simp only [List.cons_append, List.append_assoc, List.nil_append]
  -- `celldefine
  conv => lhs; unfold topGo
  simp only [firstWord_cell, beq_self_eq_true, if_true]
  -- module
  conv => lhs; unfold topGo
  simp only [fw_module.1, fw_module.2, Bool.false_eq_true, if_false, beq_self_eq_true, if_true]
  rw [hm]
  -- `endcelldefine
  conv => lhs; unfold topGo
  have e1 : ("`endcelldefine" == "`celldefine") = false := by decide
  simp only [firstWord_endcell, e1, Bool.false_eq_true, if_false, beq_self_eq_true, if_true]
  unfold WLeaf.toModule
  rw [hattrs]

theorem topGo_leaves : ∀ (leaves : List WLeaf) (f : Nat) (acc : List Module),
    3 * leaves.length + 1 ≤ f → (∀ lf ∈ leaves, leafOK lf = true) →
    topGo f (leaves.flatMap leafToks) false [] acc = .ok (acc ++ leaves.map WLeaf.toModule) := by
  intro leaves
  induction leaves with
  | nil =>
    intro f acc hf _
    obtain ⟨g, hg⟩ : ∃ g, f = g + 1 := ⟨f - 1, by simp at hf; omega⟩
    subst hg
    unfold topGo
    simp
  | cons lf leaves ih =>
    intro f acc hf hok
    obtain ⟨g, hg⟩ : ∃ g, f = g + 3 := ⟨f - 3, by simp at hf; omega⟩
    subst hg
    simp only [List.flatMap_cons]
    rw [topGo_leaf g lf _ acc (hok lf List.mem_cons_self),
      ih g _ (by simp only [List.length_cons] at hf; omega) (fun x hx => hok x (List.mem_cons_of_mem _ hx))]
    simp

/-- the top module at the head of the file -/
theorem topGo_top (f : Nat) (attrs : Attrs) (name : String) (ports : List String) (items : List SItem) (rest : Toks)
    (h : modOK attrs name ports items = true) :
    topGo (f + 2) (modToks attrs name ports items ++ rest) false [] [] =
      topGo (if attrs = [] then f + 1 else f) rest false []
        [⟨name, false, attrs, [], ports.map (fun a => (⟨a, none, none, none⟩ : HPort)), items.map SItem.toItem⟩] := by
  have hm := fun pend => moduleP_toks attrs pend name ports items rest h
  have hmod : ∀ (g : Nat) (pend : Attrs), topGo (g + 1) ("module" :: nameT name :: "(" :: (sepNames ports ++ ")" :: ";" ::
      (items.flatMap SItem.toks ++ "endmodule" :: rest))) false pend [] =
      topGo g rest false [] [⟨name, false, pend, [], ports.map (fun a => (⟨a, none, none, none⟩ : HPort)), items.map SItem.toItem⟩] := by
    intro g pend
    conv => lhs; unfold topGo
    simp only [fw_module.1, fw_module.2, Bool.false_eq_true, if_false, beq_self_eq_true, if_true, hm pend, List.nil_append]
  unfold modToks
  by_cases ha : attrs = []
  · subst ha
    simp only [starToks, List.isEmpty_nil, if_true, List.nil_append, List.cons_append, List.append_assoc]
    exact hmod _ []
  · have hok : attrsOK attrs = true := by
      simp only [modOK, Bool.and_eq_true] at h; exact h.1.1.1
    have hnd : (attrs.map (·.1)).Nodup := by
      simp only [attrsOK, Bool.and_eq_true, decide_eq_true_eq] at hok; exact hok.2
    have hs := star_toks attrs ("module" :: nameT name :: "(" :: (sepNames ports ++ ")" :: ";" ::
      (items.flatMap SItem.toks ++ "endmodule" :: rest))) ha hok
    have hem : attrs.isEmpty = false := by cases attrs <;> simp at ha ⊢
    unfold starToks at hs ⊢
    simp only [hem, Bool.false_eq_true, if_false, List.cons_append, List.append_assoc, List.nil_append, ha] at hs ⊢
    conv => lhs; unfold topGo
    have g1 : ("(" == "module") = false := by decide
    have g2 : ("(" == "primitive") = false := by decide
    simp only [fw_paren.1, fw_paren.2, g1, g2, Bool.false_eq_true, if_false, beq_self_eq_true, if_true, hs,
      mergeAttrs_nil attrs hnd]
    exact hmod _ attrs

/-- the tokens of the whole file (without the comment lines): the top module, then the `celldefine` modules -/
def bbToks (m : WModI) (leaves : List WLeaf) : List String := tokensOf m ++ leaves.flatMap leafToks

theorem leafToks_keep (lf : WLeaf) (h : leafOK lf = true) : (leafToks lf).all keepTok = true := by
  simp only [leafOK, Bool.and_eq_true] at h
  have := keep_of_clean _ h.2
  unfold leafToks
  simp only [List.all_cons, List.all_append, List.all_nil, Bool.and_true, this]
  decide +kernel

/-- **parse_bb.**  Token level with the leaves written: the REAL `parseV` on the comment lines followed by the tokens of
    the top module and of the `celldefine` modules returns exactly their syntax trees. -/
theorem parse_bb (cs : Toks) (m : WModI) (leaves : List WLeaf) (hc : ∀ c ∈ cs, Text.isCommentTok c = true)
    (h : tokOK m = true) (hl : ∀ lf ∈ leaves, leafOK lf = true) :
    parseV (cs ++ bbToks m leaves) = .ok (m.toModule :: leaves.map WLeaf.toModule) := by
  simp only [tokOK, Bool.and_eq_true] at h
  have hkeep : (bbToks m leaves).all keepTok = true := by
    unfold bbToks
    rw [List.all_append, keep_of_clean _ h.2, Bool.true_and, List.all_flatMap]
    rw [List.all_eq_true]
    intro lf hlf
    exact leafToks_keep lf (hl lf hlf)
  unfold parseV
  have h1 : preprocess ((cs ++ bbToks m leaves).length + 1) (cs ++ bbToks m leaves) false = .ok (bbToks m leaves) := by
    have : (cs ++ bbToks m leaves).length + 1 = ((bbToks m leaves).length + 1) + cs.length := by simp; omega
    rw [this, preprocess_comments cs _ _ hc]
    exact preprocess_keep _ _ (Nat.le_refl _) hkeep
  simp only [h1, bind, Except.bind]
  have hlen : 3 * leaves.length ≤ (leaves.flatMap leafToks).length := by
    have : ∀ (l : List WLeaf), 3 * l.length ≤ (l.flatMap leafToks).length := by
      intro l
      induction l with
      | nil => simp
      | cons a l ih =>
        have h3 : 3 ≤ (leafToks a).length := by simp [leafToks, leafCore]
        simp only [List.flatMap_cons, List.length_append, List.length_cons]; omega
    exact this leaves
  have htl : 2 ≤ (tokensOf m).length := by
    simp [tokensOf, modToks]; omega
  unfold bbToks
  obtain ⟨g, hg⟩ : ∃ g, (tokensOf m ++ leaves.flatMap leafToks).length + 1 = g + 2 :=
    ⟨(tokensOf m ++ leaves.flatMap leafToks).length - 1, by simp only [List.length_append]; omega⟩
  rw [hg]
  unfold tokensOf
  rw [topGo_top g m.attrs m.name _ _ _ h.1]
  have hfuel : 3 * leaves.length + 1 ≤ (if m.attrs = [] then g + 1 else g) := by
    have hg' : (tokensOf m).length + (leaves.flatMap leafToks).length + 1 = g + 2 := by
      rw [← hg]; simp [tokensOf]
    by_cases ha : m.attrs = []
    · simp only [ha, if_true]; omega
    · simp only [ha, if_false]
      have : 5 ≤ (tokensOf m).length := by
        have hem : m.attrs.isEmpty = false := by cases hma : m.attrs <;> simp [hma] at ha ⊢
        simp only [tokensOf, modToks, starToks, hem, Bool.false_eq_true, if_false, List.length_append, List.length_cons]
        omega
      omega
  rw [topGo_leaves leaves _ _ hfuel hl]
  simp [WModI.toModule, WModI.sitems, SItem.toItem, Function.comp_def]
end Spydr.Verilog.Elab
