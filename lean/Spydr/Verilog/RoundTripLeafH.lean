/-
  Verilog engine — proof side, part 38: the writer with `write_blackbox=True`: the text of a `celldefine` module
  (`moduleText_leaf`) and of the whole file (`composeV_text_bb`).
-/
import Spydr.Verilog.RoundTripLeafG
set_option maxHeartbeats 1600000
namespace Spydr.Verilog.Elab
open Spydr.Verilog
open Spydr.Verilog.Text (starConstraints fixName showInt dirString bracketsDefining)

/-! ### the writer with `write_blackbox = True` -/

def optsBB : Text.Opts := ⟨none, true, false⟩

theorem instancesText_bb (n : Text.WNet) (d : Text.WDef) :
    Text.instancesText n optsBB d = Text.instancesText n optsFrag d := rfl

theorem moduleText_bb_nonprim (n : Text.WNet) (d : Text.WDef) (h : d.lib ≠ "hdi_primitives") :
    Text.moduleText n optsBB d = Text.moduleText n optsFrag d := by
  have hp : (d.lib == "hdi_primitives") = false := by simp [h]
  unfold Text.moduleText
  simp only [optsBB, optsFrag, hp, Bool.false_and, Bool.false_eq_true, if_false]
  rfl

/-- the text of `_write_module` for a primitive -/
def renderLeaf (lf : WLeaf) : String :=
  "`celldefine\n" ++ "" ++
    ("module " ++ fixName lf.name ++ "\n" ++ "" ++ "(" ++
      ",".intercalate ((lf.ports.map (fun p => "    " ++ fixName p.name)).map (fun s => "\n" ++ s)) ++ "\n);\n" ++ "\n") ++
    (String.join (lf.ports.map portLine) ++ "\n") ++ "" ++ "endmodule" ++ "\n`endcelldefine" ++ "\n\n"

theorem isConcatGo_free : ∀ (pins : List (Option Bit)) (name : Option String) (b : Bool) (last : Option Int),
    pins.all (fun x => x.isNone) = true → isConcatGo pins name false b last = false := by
  intro pins
  induction pins with
  | nil => intro _ _ _ _; rfl
  | cons p ps ih =>
    intro name b last h
    simp only [List.all_cons, Bool.and_eq_true] at h
    cases p with
    | none => simp only [isConcatGo]; exact ih name true last h.2
    | some v => simp at h

theorem cablesOfPins_free : ∀ (pins : List (Option Bit)) (acc : List String), pins.all (fun x => x.isNone) = true →
    pins.foldl (fun acc p => match p with
      | some b => if acc.contains b.cable then acc else acc ++ [b.cable]
      | none => acc) acc = acc := by
  intro pins
  induction pins with
  | nil => intro acc _; rfl
  | cons p ps ih =>
    intro acc h
    simp only [List.all_cons, Bool.and_eq_true] at h
    cases p with
    | none => simp only [List.foldl_cons]; exact ih acc h.2
    | some v => simp at h

theorem headerPort_leaf (r : Text.WDef) (p : Text.WPort) (q : PDecl) (h : astLeafPort r p = some q) :
    Text.headerPortText r p = .ok ("    " ++ fixName q.name) := by
  obtain ⟨nm, dir, hn, _, _, _, e, hcase⟩ := astLeafPort_spec r p q h
  have he : emitHeaderPort (Text.envOf r) nm p.pins = some none := by
    rcases hcase with hfree | ⟨c, _, _, _, _, he⟩
    · unfold emitHeaderPort isConcatenated
      simp only [isConcatGo_free p.pins (some nm) false none hfree, Bool.false_eq_true, if_false]
    · exact he
  unfold Text.headerPortText
  simp only [hn, bind, Except.bind, pure, Except.pure, he]
  rw [e]

theorem bpStep_leaf (r : Text.WDef) (p : Text.WPort) (q : PDecl) (txt : String) (written : List String)
    (h : astLeafPort r p = some q) (hnw : q.name ∉ written) :
    bpStep r (txt, written) p = .ok (txt ++ portLine q, written ++ [q.name]) := by
  obtain ⟨nm, dir, hn, hd, hw, ha, e, hcase⟩ := astLeafPort_spec r p q h
  have hqn : q.name = nm := by rw [e]
  have hnotw : written.contains nm = false := by
    rw [hqn] at hnw
    cases hcon : written.contains nm with
    | false => rfl
    | true => exact absurd (List.contains_iff_mem.mp hcon) hnw
  have hstar : starConstraints p.attrs = "" := by
    cases hp : p.attrs with
    | none => rfl
    | some l => rw [hp] at ha; simp only [Option.getD_some] at ha; rw [ha]; rfl
  rcases hcase with hfree | ⟨c, hfc, hl, hwd, hpins, _⟩
  · have hcs : Text.cablesOfPins p.pins = [] := cablesOfPins_free p.pins [] hfree
    unfold bpStep
    simp only [bind, Except.bind, hcs, List.isEmpty_nil, if_true, hn, pure, Except.pure, List.foldlM_cons, List.foldlM_nil,
      hnotw, Bool.false_eq_true, if_false, bracketsDefining_eq p.lower p.width hw, hstar]
    rw [e]
    simp only [portLine, starText, dirString_of p.dir dir hd, String.append_assoc]
    rfl
  · have hcw : 1 ≤ c.width := by rw [← hwd]; exact hw
    have hcs : Text.cablesOfPins p.pins = [nm] := by rw [hpins]; exact cablesOfPins_whole nm c.lower c.width hcw
    have hcn : c.name = nm := by simpa using List.find?_some hfc
    unfold bpStep
    simp only [bind, Except.bind, hcs, List.isEmpty_cons, Bool.false_eq_true, if_false, pure, Except.pure,
      List.filterMap_cons, hfc, Option.map_some, List.filterMap_nil, List.foldlM_cons, List.foldlM_nil, hcn, hnotw,
      bracketsDefining_eq c.lower c.width hcw, hstar]
    rw [e, hl, hwd]
    simp only [portLine, starText, dirString_of p.dir dir hd, String.append_assoc]
    rfl

theorem bodyPorts_leaf (r : Text.WDef) : ∀ (ps : List Text.WPort) (qs : List PDecl) (txt : String) (written : List String),
    ps.mapM (astLeafPort r) = some qs → (∀ q ∈ qs, q.name ∉ written) → (qs.map (·.name)).Nodup →
    ps.foldlM (bpStep r) (txt, written) = .ok (txt ++ String.join (qs.map portLine), written ++ qs.map (·.name)) := by
  intro ps
  induction ps with
  | nil =>
    intro qs txt written hm _ _
    simp only [List.mapM_nil, pure, Option.some.injEq] at hm
    subst hm
    simp [pure, Except.pure, join_nil]
  | cons p ps ih =>
    intro qs txt written hm hnw hnd
    rw [List.mapM_cons] at hm
    cases hp : astLeafPort r p with
    | none => simp [hp] at hm
    | some q =>
      cases hrest : ps.mapM (astLeafPort r) with
      | none => simp [hp, hrest] at hm
      | some qs' =>
        simp only [hp, hrest, Option.bind_eq_bind, Option.bind_some, pure, Option.some.injEq] at hm
        subst hm
        rw [List.map_cons, List.nodup_cons] at hnd
        have hrec := ih qs' (txt ++ portLine q) (written ++ [q.name]) hrest
          (by
            intro q' hq' hmem
            rcases List.mem_append.mp hmem with h | h
            · exact hnw q' (List.mem_cons_of_mem _ hq') h
            · simp only [List.mem_singleton] at h
              exact hnd.1 (List.mem_map.mpr ⟨q', hq', h⟩))
          hnd.2
        rw [List.foldlM_cons]
        simp only [bind, Except.bind, bpStep_leaf r p q txt written hp (hnw q List.mem_cons_self)]
        rw [hrec]
        simp [join_cons, String.append_assoc]

/-- the text-side clauses of the fragment for a written leaf -/
structure LeafText (r : Text.WDef) : Prop where
  lib : r.lib = "hdi_primitives"
  attrs : r.attrs.getD [] = []
  params : r.params = none

theorem moduleText_leaf (n : Text.WNet) (r : Text.WDef) (lf : WLeaf) (ht : LeafText r) (ha : astLeaf r = some lf)
    (hnd : (lf.ports.map (·.name)).Nodup) : Text.moduleText n optsBB r = .ok (renderLeaf lf) := by
  unfold astLeaf at ha
  simp only [Option.map_eq_some_iff] at ha
  obtain ⟨qs, hqs, e⟩ := ha
  subst e
  have hhp : r.ports.mapM (Text.headerPortText r) = .ok (qs.map (fun p => "    " ++ fixName p.name)) :=
    mapM_opt_exc (astLeafPort r) (Text.headerPortText r) (fun p => "    " ++ fixName p.name)
      (fun a b h => headerPort_leaf r a b h) r.ports qs hqs
  have hbp : Text.bodyPortsText r = .ok (String.join (qs.map portLine) ++ "\n") := by
    rw [bodyPortsText_eq]
    simp only [bind, Except.bind, bodyPorts_leaf r r.ports qs "" [] hqs (by intro q _ h; cases h) hnd, pure, Except.pure]
    simp
  have hstar : starConstraints r.attrs = "" := by
    have := ht.attrs
    cases hp : r.attrs with
    | none => rfl
    | some l => rw [hp] at this; simp only [Option.getD_some] at this; rw [this]; rfl
  have hl1 : (r.lib == "SDN_VERILOG_ASSIGNMENT") = false := by rw [ht.lib]; decide
  have hl2 : (r.lib == "hdi_primitives") = true := by rw [ht.lib]; decide
  unfold Text.moduleText
  simp only [optsBB, bind, Except.bind, pure, Except.pure, hl1, hl2, Bool.false_eq_true, if_false, Bool.not_true, Bool.and_false,
    if_true, hhp, ht.params, hbp, hstar]
  simp only [renderLeaf, List.map_map]

theorem leaves_text (n : Text.WNet) : ∀ (rs : List Text.WDef) (leaves : List WLeaf), rs.mapM astLeaf = some leaves →
    (∀ r ∈ rs, LeafText r) → (∀ lf ∈ leaves, (lf.ports.map (·.name)).Nodup) →
    rs.mapM (Text.moduleText n optsBB) = .ok (leaves.map renderLeaf) := by
  intro rs
  induction rs with
  | nil => intro leaves hm _ _; simp only [List.mapM_nil, pure, Option.some.injEq] at hm; subst hm; rfl
  | cons r rs ih =>
    intro leaves hm ht hnd
    rw [List.mapM_cons] at hm
    cases ha : astLeaf r with
    | none => simp [ha] at hm
    | some lf =>
      cases hr : rs.mapM astLeaf with
      | none => simp [ha, hr] at hm
      | some lfs =>
        simp only [ha, hr, Option.bind_eq_bind, Option.bind_some, pure, Option.some.injEq] at hm
        subst hm
        rw [List.mapM_cons]
        simp only [bind, Except.bind, moduleText_leaf n r lf (ht r List.mem_cons_self) ha (hnd lf List.mem_cons_self),
          ih lfs hr (fun x hx => ht x (List.mem_cons_of_mem _ hx)) (fun x hx => hnd x (List.mem_cons_of_mem _ hx)),
          pure, Except.pure, List.map_cons]

theorem mapM_getD {β : Type} (n : Text.WNet) (f : Text.WDef → Except String β) : ∀ (ks : List Nat),
    ks.mapM (fun k => f (n.defs.getD k default)) = (ks.map (fun k => n.defs.getD k default)).mapM f := by
  intro ks
  induction ks with
  | nil => rfl
  | cons k ks ih => simp only [List.map_cons, List.mapM_cons, ih]

/-- **composeV_text_bb.**  The writer side with `write_blackbox = True`: the file header, the rendering of the top
    module, then the `celldefine` renderings of the primitives in the order `_compose` visits them. -/
theorem composeV_text_bb (n : Text.WNet) (T : Text.WDef) (kT : Nat) (ks : List Nat) (m : WModP) (leaves : List WLeaf)
    (hT : n.defs.getD kT default = T) (horder : composeOrder n = kT :: ks)
    (hfrag : fragTop n T = true) (ht : TopText n T) (hm : astOf n T = some m)
    (hrs : (ks.map (fun k => n.defs.getD k default)).mapM astLeaf = some leaves)
    (hlt : ∀ r ∈ ks.map (fun k => n.defs.getD k default), LeafText r)
    (hnd : ∀ lf ∈ leaves, (lf.ports.map (·.name)).Nodup) :
    ∃ fin, Text.composeV n optsBB = .ok (fileHeader n ++ (renderMod m ++ String.join (leaves.map renderLeaf)), fin) := by
  have hX : Text.moduleText n optsBB (n.defs.getD kT default) = .ok (renderMod m) := by
    rw [hT, moduleText_bb_nonprim n T ht.lib2]; exact moduleText_top n T m hfrag ht hm
  have hL := leaves_text n _ leaves hrs hlt hnd
  rw [composeV_eq, horder, List.mapM_cons, mapM_getD n (Text.moduleText n optsBB) ks]
  simp only [bind, Except.bind, hX, hL, pure, Except.pure, join_cons]
  exact ⟨_, rfl⟩
end Spydr.Verilog.Elab
