/-
  Verilog engine — proof side, part 39: `readV (composeV n) ≈ n` with `write_blackbox=True` from characters
  (`c04_text_bb`): pieces of the `celldefine` modules, the structural fragment predicate `fragStructBB`, non-vacuity.
-/
import Spydr.Verilog.RoundTripLeafH
set_option maxHeartbeats 1600000
namespace Spydr.Verilog.Elab
open Spydr.Verilog
open Spydr.Verilog.Text (fixName showInt)

/-! ### the pieces of a `celldefine` module and of the whole file -/

def cellP : List Piece := [.self "`celldefine\n" "`celldefine"]
def endcellP : List Piece := [.self "`endcelldefine\n" "`endcelldefine"]

def leafP (lf : WLeaf) : List Piece :=
  cellP ++
    (T "module" ++ W1 ++ N (fixName lf.name) ++ NL ++ T "(" ++
      List.intercalate (T ",") (lf.ports.map (fun p => NL ++ W4 ++ N (fixName p.name))) ++ NL ++ T ")" ++ T ";" ++ NL ++ NL) ++
    ((lf.ports.map portP).flatten ++ NL) ++
    T "endmodule" ++ NL ++ endcellP ++ NL

theorem chars_leafP (lf : WLeaf) : pchars (leafP lf) = (renderLeaf lf).toList := by
  simp only [leafP, renderLeaf, cellP, endcellP, pchars_append, pchars_cons, pchars_nil, Piece.chars, chars_T, chars_N, chars_W1, chars_NL,
    pchars_intercalate, pchars_flatten, String.toList_append, String.toList_intercalate, toList_join, List.map_map]
  have h1 : "module ".toList = "module".toList ++ " ".toList := by decide
  have h2 : "\n);\n".toList = "\n".toList ++ ")".toList ++ ";".toList ++ "\n".toList := by decide
  have h3 : "\n\n".toList = "\n".toList ++ "\n".toList := by decide
  have h4 : "".toList = [] := rfl
  have h5 : "\n`endcelldefine".toList = "\n".toList ++ "`endcelldefine".toList := by decide
  have h6 : "`endcelldefine\n".toList = "`endcelldefine".toList ++ "\n".toList := by decide
  rw [h1, h2, h3, h4, h5, h6]
  have hm1 : lf.ports.map (pchars ∘ fun p => NL ++ W4 ++ N (fixName p.name)) =
      lf.ports.map (String.toList ∘ (fun s => "\n" ++ s) ∘ fun p => "    " ++ fixName p.name) := by
    apply List.map_congr_left
    intro p _
    simp only [Function.comp, pchars_append, chars_NL, chars_W4, chars_T, chars_N, String.toList_append, List.append_assoc]
  have hm2 : lf.ports.map (pchars ∘ portP) = lf.ports.map (String.toList ∘ portLine) := by
    apply List.map_congr_left; intro p _; exact chars_portP p
  rw [hm1, hm2]
  simp [List.append_assoc, List.flatMap, Function.comp_def]

theorem toks_leafP (lf : WLeaf) (hd : ∀ p ∈ lf.ports, p.dir ≠ .undef ∧ p.attrs = []) : ptoks (leafP lf) = leafToks lf := by
  simp only [leafP, leafToks, leafCore, cellP, endcellP, ptoks_append, ptoks_cons, ptoks_nil, Piece.toks, toks_T, toks_N, toks_W1, toks_NL,
    ptoks_intercalate, ptoks_flatten, List.append_nil, List.map_map, sepNames_eq, List.nil_append]
  have hm1 : lf.ports.map (ptoks ∘ fun p => NL ++ W4 ++ N (fixName p.name)) =
      lf.ports.map ((fun x => [nameT x]) ∘ fun p => p.name) := by
    apply List.map_congr_left
    intro p _
    simp [ptoks_append, toks_NL, toks_W4, toks_T, toks_N, nameT]
  have hm2 : (lf.ports.map (ptoks ∘ portP)).flatten = lf.ports.flatMap (fun p => portCore p.dir p.rng p.name) := by
    rw [List.flatMap_def]
    congr 1
    apply List.map_congr_left
    intro p hp
    simp only [Function.comp]
    rw [toks_portP p (hd p hp).1]
    simp [SItem.toks, SItem.attrs, SItem.core, (hd p hp).2, starToks]
  rw [hm1, hm2]
  simp [List.append_assoc, nameT]

def filePbb (n : Text.WNet) (m : WModP) (leaves : List WLeaf) : List Piece := fileP n m ++ (leaves.map leafP).flatten

theorem chars_filePbb (n : Text.WNet) (m : WModP) (leaves : List WLeaf) :
    pchars (filePbb n m leaves) = (fileHeader n ++ (renderMod m ++ String.join (leaves.map renderLeaf))).toList := by
  unfold filePbb
  rw [pchars_append, chars_fileP, pchars_flatten, List.map_map]
  have : leaves.map (pchars ∘ leafP) = leaves.map (String.toList ∘ renderLeaf) := by
    apply List.map_congr_left; intro lf _; exact chars_leafP lf
  rw [this]
  simp [String.toList_append, toList_join, List.flatMap, Function.comp_def, List.append_assoc]

theorem toks_filePbb (n : Text.WNet) (m : WModP) (leaves : List WLeaf) (hd : ∀ p ∈ m.ports, p.dir ≠ .undef)
    (hl : ∀ lf ∈ leaves, ∀ p ∈ lf.ports, p.dir ≠ .undef ∧ p.attrs = []) :
    (filePbb n m leaves).flatMap Piece.toks =
      ["//Generated from netlist by SpyDrNet", "//netlist name: " ++ fixName n.name] ++ bbToks m.toI leaves := by
  have h1 := toks_modP m hd
  have h2 : ptoks ((leaves.map leafP).flatten) = leaves.flatMap leafToks := by
    have hmap : leaves.map (ptoks ∘ leafP) = leaves.map leafToks := by
      apply List.map_congr_left
      intro lf hlf
      simp only [Function.comp]
      exact toks_leafP lf (hl lf hlf)
    rw [ptoks_flatten, List.map_map, List.flatMap_def, hmap]
  have h3 : (filePbb n m leaves).flatMap Piece.toks = ptoks (fileP n m) ++ ptoks ((leaves.map leafP).flatten) :=
    ptoks_append _ _
  have h4 : ptoks (fileP n m) =
      ["//Generated from netlist by SpyDrNet", "//netlist name: " ++ fixName n.name] ++ tokensOf m.toI := by
    unfold fileP
    rw [ptoks_append, h1]
    rfl
  rw [h3, h2, h4]
  unfold bbToks
  simp

/-! ### end to end with the leaves written -/

/-- the definitions `_compose` writes after the top -/
def leafDefs (n : Text.WNet) (ks : List Nat) : List Text.WDef := ks.map (fun k => n.defs.getD k default)

def leafTextB (r : Text.WDef) : Bool :=
  r.lib == "hdi_primitives" && (r.attrs.getD []).isEmpty && r.params.isNone

theorem leafTextB_sound (r : Text.WDef) (h : leafTextB r = true) : LeafText r := by
  simp only [leafTextB, Bool.and_eq_true, beq_iff_eq] at h
  refine ⟨h.1.1, List.isEmpty_iff.mp h.1.2, ?_⟩
  cases hp : r.params with
  | none => rfl
  | some v => have := h.2; rw [hp] at this; simp at this

/-- the fragment of the end-to-end theorem with the leaves written (decidable; structural): `_compose` visits `kT` then
    `ks`; the syntax-tree clauses (`fragBBast`), the text clauses of top and leaves, the per-token clauses, and per piece
    of the rendering its own lexing check and adjacency -/
def fragStructBB (n : Text.WNet) (T : Text.WDef) (kT : Nat) (ks : List Nat) : Bool :=
  match astOf n T, (leafDefs n ks).mapM astLeaf with
  | some m, some leaves =>
    (composeOrder n == kT :: ks) && fragBBast n T (leafDefs n ks) && topTextB n T &&
    (leafDefs n ks).all leafTextB && tokOK m.toI && leaves.all leafOK &&
    leaves.all (fun lf => decide ((lf.ports.map (·.name)).Nodup)) &&
    (filePbb n m leaves).all Piece.ok && adjOK (filePbb n m leaves) &&
    Text.isCommentTok ("//netlist name: " ++ fixName n.name)
  | _, _ => false

/-- **c04_text_bb.**  Write-then-read with `write_blackbox = True` (the default of `sdn.compose`), from characters — the top
    module's view and the leaf interfaces are preserved (row widths: `c04_full_bb`): the text the writer
    produces (top module, then the `celldefine` modules of the primitives) is accepted by the whole reader (`lexV`,
    `parseV`, `elabDesign`), the netlist's top is elected, its definition shows the same view, and every written
    primitive comes back in `hdi_primitives` with the interface (port names, directions, base indices, widths, order) of
    its definition in the netlist. -/
theorem c04_text_bb (n : Text.WNet) (T : Text.WDef) (kT : Nat) (ks : List Nat) (hT : n.defs.getD kT default = T)
    (h : fragStructBB n T kT ks = true) :
    ∃ text fin s D ls, Text.composeV n optsBB = .ok (text, fin) ∧ Parse.readV text = .ok s ∧ s.defs = D :: ls ∧
      s.top = some T.name ∧ viewD D = viewT n T ∧ D.lib = some "work" ∧
      ∀ r ∈ leafDefs n ks, ∃ L ∈ ls, L.name = r.name ∧ L.lib = some "hdi_primitives" ∧ ifaceD L = ifaceT r := by
  unfold fragStructBB at h
  cases hm : astOf n T with
  | none => simp [hm] at h
  | some m =>
    cases hl : (leafDefs n ks).mapM astLeaf with
    | none => simp [hm, hl] at h
    | some leaves =>
      simp only [hm, hl, Bool.and_eq_true, beq_iff_eq, List.all_eq_true, decide_eq_true_eq] at h
      obtain ⟨⟨⟨⟨⟨⟨⟨⟨⟨h1, h2⟩, h3⟩, h4⟩, h5⟩, h6⟩, h7⟩, h8⟩, h9⟩, h10⟩ := h
      obtain ⟨m', leaves', s, D, ls, a1, a2, a3, a4, a5, _, a7, a8, a9⟩ := c04_ast_bb n T _ h2
      rw [hm] at a1
      have e1 : m' = m := (Option.some.inj a1).symm
      subst e1
      rw [hl] at a2
      have e2 : leaves' = leaves := (Option.some.inj a2).symm
      subst e2
      have hfrag : fragTop n T = true := by
        simp only [fragBBast, Bool.and_eq_true] at h2; exact h2.1.1
      obtain ⟨fin, hcv⟩ := composeV_text_bb n T kT ks m' leaves' hT h1 hfrag (topTextB_sound n T h3) hm hl
        (fun r hr => leafTextB_sound r (h4 r hr)) h7
      have hdtop := ports_dir_of_tokOK m' h5
      have hdl : ∀ lf ∈ leaves', ∀ p ∈ lf.ports, p.dir ≠ .undef ∧ p.attrs = [] := by
        intro lf hlf p hp
        have := h6 lf hlf
        simp only [leafOK, Bool.and_eq_true, List.all_eq_true] at this
        have hp' := this.1.2 p hp
        simp only [portOK, Bool.and_eq_true, bne_iff_ne, ne_eq] at hp'
        exact ⟨hp'.1.1.1, List.isEmpty_iff.mp hp'.2⟩
      have hlex := lexV_pieces _ (filePbb n m' leaves') (chars_filePbb n m' leaves').symm h9 h8
      rw [toks_filePbb n m' leaves' hdtop hdl] at hlex
      refine ⟨_, fin, s, D, ls, hcv, ?_, a4, a5, a7, a8, a9⟩
      rw [readV_eq, hlex]
      unfold readT
      have hc1 : Text.isCommentTok "//Generated from netlist by SpyDrNet" = true := by decide +kernel
      rw [parse_bb _ m'.toI leaves' (by
        intro c hc
        simp only [List.mem_cons, List.mem_nil_iff, or_false] at hc
        rcases hc with e | e
        · rw [e]; exact hc1
        · rw [e]; exact h10) h5 h6]
      exact a3

/-! ### non-vacuity -/

def exLeavesBB : List WLeaf :=
  [⟨"LUT2", [⟨"I0", .inp, none, []⟩, ⟨"I1", .inp, none, []⟩, ⟨"O", .out, none, []⟩]⟩,
   ⟨"RAM", [⟨"addr", .inp, some (7, 2), []⟩, ⟨"q", .out, none, []⟩]⟩]

theorem exNetBB_ast : astOf exNetBB exTopBB = some exM := by rfl

theorem exNetBB_leaves : (leafDefs exNetBB [1, 2]).mapM astLeaf = some exLeavesBB := by rfl

theorem exLeavesBB_ok : exLeavesBB.all leafOK = true := by
  have N : ∀ nm, nameK nm = true → nameTokB (nameT nm) nm = true := nameK_sound
  have I : ∀ i, intK i = true → intTokB i = true := intK_sound
  have c1 : cleanToks (leafCore ⟨"LUT2", [⟨"I0", .inp, none, []⟩, ⟨"I1", .inp, none, []⟩, ⟨"O", .out, none, []⟩]⟩) = true := by
    decide +kernel
  have c2 : cleanToks (leafCore ⟨"RAM", [⟨"addr", .inp, some (7, 2), []⟩, ⟨"q", .out, none, []⟩]⟩) = true := by
    decide +kernel
  simp only [exLeavesBB, leafOK, List.all_cons, List.all_nil, portOK, rangeOK, Bool.and_eq_true, Bool.and_true,
    List.isEmpty_nil, c1, c2]
  repeat' constructor
  all_goals first
    | exact N _ (by decide +kernel)
    | exact I _ (by decide +kernel)
    | decide
    | simp

theorem exNetBB_pieces_ok : (filePbb exNetBB exM exLeavesBB).all Piece.ok = true := by decide +kernel

/-- non-vacuity of the end-to-end theorem with the leaves written -/
theorem exNetBB_struct : fragStructBB exNetBB exTopBB 0 [1, 2] = true := by
  unfold fragStructBB
  rw [exNetBB_ast, exNetBB_leaves]
  simp only
  have a1 : (composeOrder exNetBB == [0, 1, 2]) = true := by decide
  have a2 : fragBBast exNetBB exTopBB (leafDefs exNetBB [1, 2]) = true := exNetBB_frag
  have a3 : topTextB exNetBB exTopBB = true := by decide
  have a4 : (leafDefs exNetBB [1, 2]).all leafTextB = true := by decide
  have a7 : exLeavesBB.all (fun lf => decide ((lf.ports.map (·.name)).Nodup)) = true := by decide
  have a9 : adjOK (filePbb exNetBB exM exLeavesBB) = true := by decide +kernel
  have a10 : Text.isCommentTok ("//netlist name: " ++ fixName exNetBB.name) = true := by decide +kernel
  rw [a1, a2, a3, a4, exM_tokOK, exLeavesBB_ok, a7, exNetBB_pieces_ok, a9, a10]
  rfl

/-- the end-to-end statement on the example netlist, unconditionally -/
theorem exNetBB_roundtrip :
    ∃ text fin s D ls, Text.composeV exNetBB optsBB = .ok (text, fin) ∧ Parse.readV text = .ok s ∧ s.defs = D :: ls ∧
      s.top = some exTopBB.name ∧ viewD D = viewT exNetBB exTopBB ∧ D.lib = some "work" ∧
      ∀ r ∈ leafDefs exNetBB [1, 2], ∃ L ∈ ls, L.name = r.name ∧ L.lib = some "hdi_primitives" ∧ ifaceD L = ifaceT r :=
  c04_text_bb exNetBB exTopBB 0 [1, 2] rfl exNetBB_struct
end Spydr.Verilog.Elab
