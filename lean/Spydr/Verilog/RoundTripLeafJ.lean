/-
  Verilog engine — proof side, part 40: with the leaves written the re-read top has EXACTLY the pin rows of the netlist
  (free pins and row widths included): `c04_full_ast`, `c04_full_bb`; and the explicit statement for the other option
  set (`nobb_row_shrinks`).
-/
import Spydr.Verilog.RoundTripLeafI
import Spydr.Verilog.WFStruct
set_option maxHeartbeats 1600000
namespace Spydr.Verilog.Elab
open Spydr.Verilog

/-! ### the FULL instance rows (free pins included) with the leaves written -/

/-- a pin vector that is a block of connected pins at the low end and only free pins above -/
def LowBits (xs : List (Option Bit)) : Prop := ∃ (blk : List Bit) (m : Nat), xs = blk.map some ++ List.replicate m none

theorem low_full (xs : List (Option Bit)) (h : LowBits xs) :
    xs = (connectedBlock xs).map some ++ List.replicate (xs.length - (connectedBlock xs).length) none := by
  obtain ⟨blk, m, e⟩ := h
  subst e
  rw [connectedBlock_low]
  simp

theorem eq_of_low (xs ys : List (Option Bit)) (hx : LowBits xs) (hy : LowBits ys)
    (hc : connectedBlock xs = connectedBlock ys) (hl : xs.length = ys.length) : xs = ys := by
  rw [low_full xs hx, low_full ys hy, hc, hl]

def LowB (d : Def) (row : List (Option Nat)) : Prop := LowBits (pinBits d row)

theorem LowB_cables (d d' : Def) (h : d'.cables = d.cables) (row : List (Option Nat)) : LowB d' row ↔ LowB d row := by
  unfold LowB pinBits
  rw [bitOf_cables d d' h]

theorem rowDen_low (d : Def) (row : List (Option Nat)) (pe : PExpr) (h : RowDen d row pe) : LowB d row := by
  obtain ⟨bs, _, e, _⟩ := h
  exact ⟨bs.reverse, row.length - bs.length, by rw [e]; rfl⟩

theorem allDen_low (d : Def) : ∀ (rows : List (List (Option Nat))) (pes : List PExpr), AllDen d rows pes →
    ∀ row ∈ rows, LowB d row := by
  intro rows
  induction rows with
  | nil => intro pes _ row hr; cases hr
  | cons r rs ih =>
    intro pes h row hr
    cases pes with
    | nil => exact absurd h (by simp [AllDen])
    | cons p ps =>
      simp only [AllDen] at h
      rcases List.mem_cons.mp hr with e | e
      · rw [e]; exact rowDen_low d r p h.1
      · exact ih ps h.2 row e

theorem rowShape_low (d : Def) (hn : (d.cables.map (·.name)).Nodup) (row : List (Option Nat)) (h : RowShape d row) :
    LowB d row := by
  obtain ⟨blk, m, e, _⟩ := shape_bits d hn row h
  exact ⟨blk, m, e⟩

theorem foldInst_low : ∀ (pis : List PInst) (d : Def) (ls : List Def) (d' : Def) (ls' : List Def), WInv d →
    (∀ i ∈ d.insts, ∀ row ∈ i.pins, LowB d row) → foldInst d ls (pis.map PInst.toN) = some (d', ls') →
    d'.cables = d.cables ∧ ∀ i ∈ d'.insts, ∀ row ∈ i.pins, LowB d' row := by
  intro pis
  induction pis with
  | nil =>
    intro d ls d' ls' _ h0 h
    simp only [List.map_nil, foldInst, Option.some.injEq, Prod.mk.injEq] at h
    rw [← h.1]; exact ⟨rfl, h0⟩
  | cons pi pis ih =>
    intro d ls d' ls' hw h0 h
    simp only [List.map_cons] at h
    unfold foldInst at h
    cases hs : instStep2 d ls pi.toN with
    | none => simp [hs] at h
    | some r =>
      obtain ⟨d1, ls1⟩ := r
      simp only [hs] at h
      obtain ⟨inst, e1, e2, _, _, _, _, hden⟩ := instStep2_den d ls pi d1 ls1 hw hs
      have hw1 : WInv d1 := by unfold WInv; rw [e2]; exact hw
      have hlow1 : ∀ i ∈ d1.insts, ∀ row ∈ i.pins, LowB d1 row := by
        intro i hi row hr
        rw [LowB_cables d d1 e2]
        rw [e1] at hi
        rcases List.mem_append.mp hi with e | e
        · exact h0 i e row hr
        · simp only [List.mem_singleton] at e
          rw [e] at hr
          cases hf : ls.find? (fun l => l.name == pi.mod) with
          | none =>
            rw [hf] at hden
            exact allDen_low d _ _ hden.1 row hr
          | some rd =>
            rw [hf] at hden
            exact rowShape_low d hw.1 row (hden.2.1 row hr)
      obtain ⟨c, l⟩ := ih d1 ls1 d' ls' hw1 hlow1 h
      exact ⟨c.trans e2, l⟩

theorem pinBits_pad (d : Def) (post : Nat) (row : List (Option Nat)) :
    pinBits d (padRow post row) = pinBits d row ++ List.replicate post none := by
  unfold pinBits padRow
  rw [List.map_append, List.map_replicate]
  rfl

theorem low_pad (d : Def) (post : Nat) (row : List (Option Nat)) (h : LowB d row) : LowB d (padRow post row) := by
  obtain ⟨blk, m, e⟩ := h
  refine ⟨blk, m + post, ?_⟩
  rw [pinBits_pad, e, List.append_assoc]
  simp [List.replicate_append_replicate]

theorem low_nil (d : Def) : LowB d [] := ⟨[], 0, rfl⟩

theorem padI_low (d : Def) (dn : String) (k post : Nat) (i : Inst) (h : ∀ row ∈ i.pins, LowB d row) :
    ∀ row ∈ (padI dn k post i).pins, LowB d row := by
  unfold padI
  split
  · intro row hr
    have hold : ∀ r ∈ i.pins ++ List.replicate (k + 1 - i.pins.length) [], LowB d r := by
      intro r hr'
      rcases List.mem_append.mp hr' with e | e
      · exact h r e
      · rw [(List.mem_replicate.mp e).2]; exact low_nil d
    rcases List.mem_or_eq_of_mem_set hr with e | e
    · exact hold row e
    · rw [e]
      apply low_pad
      cases hg : (i.pins ++ List.replicate (k + 1 - i.pins.length) [])[k]? with
      | none => simp [List.getD, hg]; exact low_nil d
      | some r =>
        simp only [List.getD, hg, Option.getD_some]
        exact hold r (List.mem_of_getElem? hg)
  · exact h

theorem padOpsI_low (d : Def) (dn : String) : ∀ (ops : List (Nat × Nat)) (i : Inst), (∀ row ∈ i.pins, LowB d row) →
    ∀ row ∈ (padOpsI dn ops i).pins, LowB d row := by
  intro ops
  induction ops with
  | nil => intro i h; exact h
  | cons op ops ih =>
    intro i h
    have := ih (padI dn op.1 op.2 i) (padI_low d dn op.1 op.2 i h)
    simpa [padOpsI] using this

theorem padOpsD_low (D : Def) (dn : String) (ops : List (Nat × Nat)) (h : ∀ i ∈ D.insts, ∀ row ∈ i.pins, LowB D row) :
    ∀ i ∈ (padOpsD D dn ops).insts, ∀ row ∈ i.pins, LowB (padOpsD D dn ops) row := by
  intro i' hi' row hr
  rw [LowB_cables D (padOpsD D dn ops) rfl]
  obtain ⟨i, hi, e⟩ := List.mem_map.mp hi'
  rw [← e] at hr
  exact padOpsI_low D dn ops i (h i hi) row hr

theorem foldLeaves_low : ∀ (ms : List WLeaf) (D : Def) (ls : List Def) (n : Nat) (D' : Def) (ls' : List Def) (n' : Nat),
    foldLeaves D ls n ms = some (D', ls', n') → (∀ i ∈ D.insts, ∀ row ∈ i.pins, LowB D row) →
    ∀ i ∈ D'.insts, ∀ row ∈ i.pins, LowB D' row := by
  intro ms
  induction ms with
  | nil =>
    intro D ls n D' ls' n' h h0
    simp only [foldLeaves, Option.some.injEq, Prod.mk.injEq] at h
    rw [← h.1]; exact h0
  | cons m ms ih =>
    intro D ls n D' ls' n' h h0
    unfold foldLeaves at h
    cases hf : ls.find? (fun l => l.name == m.name) with
    | none => simp [hf] at h
    | some L =>
      simp only [hf] at h
      cases hb : buildLeaf L n m.ports with
      | none => simp [hb] at h
      | some r =>
        simp only [hb] at h
        exact ih _ _ _ D' ls' n' h (padOpsD_low D m.name r.2.2 h0)

/-- every row of every instance of the top definition of `buildBB` is a low block -/
theorem buildBB_low (m : WModP) (leaves : List WLeaf) (defs : List Def) (nx : Nat)
    (hb : buildBB m.toI leaves = some (defs, nx)) :
    ∀ D, defs.head? = some D → ∀ i ∈ D.insts, ∀ row ∈ i.pins, LowB D row := by
  unfold buildBB at hb
  cases h3 : buildW3 ⟨m.toI.name, some "work", false, [], none, [], [], []⟩ 0 m.toI.ports m.toI.wires with
  | none => simp [h3] at hb
  | some r3 =>
    obtain ⟨d3, n3⟩ := r3
    simp only [h3] at hb
    split at hb
    · cases h4 : foldInst d3 [] m.toI.insts with
      | none => simp [h4] at hb
      | some r4 =>
        obtain ⟨d4, ls4⟩ := r4
        simp only [h4] at hb
        cases h5 : foldLeaves (withAttrs m.toI.attrs d4) ls4 n3 leaves with
        | none => simp [h5] at hb
        | some r5 =>
          obtain ⟨D5, ls5, n5⟩ := r5
          simp only [h5, Option.some.injEq, Prod.mk.injEq] at hb
          obtain ⟨hdefs, _⟩ := hb
          have hWF : WF d3 n3 := buildW3_WF ⟨m.toI.name, some "work", false, [], none, [], [], []⟩ 0 m.toI.ports _ d3 n3
            ⟨⟨List.nodup_nil, List.nodup_nil⟩, (by intro c hc; cases hc)⟩ h3
          obtain ⟨hi3, _⟩ := buildW3_frame _ 0 m.toI.ports _ d3 n3 h3
          obtain ⟨hc4, hlow4⟩ := foldInst_low m.insts d3 [] d4 ls4 hWF.1
            (by rw [hi3]; intro i hi; cases hi) h4
          have hlowA : ∀ i ∈ (withAttrs m.toI.attrs d4).insts, ∀ row ∈ i.pins, LowB (withAttrs m.toI.attrs d4) row := by
            unfold withAttrs
            split
            · exact hlow4
            · intro i hi row hr
              exact (LowB_cables d4 _ rfl row).mpr (hlow4 i hi row hr)
          have hlow5 := foldLeaves_low leaves _ ls4 n3 D5 ls5 n5 h5 hlowA
          intro D hD
          rw [← hdefs] at hD
          simp only [List.map_cons, List.head?_cons, Option.some.injEq] at hD
          rw [← hD]
          intro i hi row hr
          have hm : (markBB D5).insts = D5.insts ∧ (markBB D5).cables = D5.cables := by unfold markBB; split <;> exact ⟨rfl, rfl⟩
          rw [hm.1] at hi
          exact (LowB_cables D5 _ hm.2 row).mpr (hlow5 i hi row hr)
    · cases hb

/-! ### the theorem with full rows -/

/-- the netlist is consistent about widths (decidable): every pin row of every instance of `T` is as wide as the port of
    the referenced definition, which is one of the written leaves -/
def rowsFitB (n : Text.WNet) (T : Text.WDef) (rs : List Text.WDef) : Bool :=
  T.insts.all (fun i =>
    match rs.find? (fun r => r.name == i.ref), Text.refOf n i.ref with
    | some r', some r => decide (r'.ports.map (·.width) = r.ports.map (·.width)) &&
        (List.range r.ports.length).all (fun k => (i.pins.getD k []).length == (r.ports.getD k default).width)
    | _, _ => false)

def fullRowsT (n : Text.WNet) (i : Text.WInst) : List (List (Option Bit)) :=
  (List.range (((Text.refOf n i.ref).map (fun (r : Text.WDef) => r.ports.length)).getD 0)).map (fun k => i.pins.getD k [])

def fullRowsD (D : Def) (i : Inst) : List (List (Option Bit)) := i.pins.map (pinBits D)

theorem viewT_insts (n : Text.WNet) (T : Text.WDef) : (viewT n T).insts = T.insts.map (instViewT n) := rfl

/-- **c04_full_ast.**  With the leaves written the re-read top has, instance by instance and port by port, EXACTLY the
    pin rows of the netlist — connected bits and free pins, i.e. also the row widths. -/
theorem c04_full_ast (n : Text.WNet) (T : Text.WDef) (rs : List Text.WDef) (m : WModP) (leaves : List WLeaf)
    (h : fragBBast n T rs = true) (hfit : rowsFitB n T rs = true) (hm : astOf n T = some m)
    (hl : rs.mapM astLeaf = some leaves) (s : St)
    (hE : elabDesign (m.toI.toModule :: leaves.map WLeaf.toModule) = .ok s) (D : Def) (ls : List Def)
    (hs : s.defs = D :: ls) : D.insts.map (fullRowsD D) = T.insts.map (fullRowsT n) := by
  unfold fragBBast at h
  simp only [Bool.and_eq_true, decide_eq_true_eq, hm, hl] at h
  obtain ⟨⟨hf, hnd⟩, hsome⟩ := h
  obtain ⟨r0, hr0⟩ := Option.isSome_iff_exists.mp hsome
  obtain ⟨defs, nx⟩ := r0
  have hE' := elabDesign_bb m.toI leaves defs nx hr0
  rw [hE'] at hE
  have hsd : s.defs = defs := by rw [← Except.ok.inj hE]
  obtain ⟨D0, ls0, e0, hv, _, hI⟩ := c04_view_bb n T m rs leaves defs nx hf hm hl hnd hr0
  rw [hsd, e0] at hs
  simp only [List.cons.injEq] at hs
  obtain ⟨eD, els⟩ := hs
  subst eD els
  have hlow := buildBB_low m leaves defs nx hr0 D0 (by rw [e0]; rfl)
  have hwf : TableWF s := (structWF_iff s).mp (elab_structWF _ s (by rw [hE']; exact hE ▸ rfl))
  have hDmem : D0 ∈ s.defs := by rw [hsd, e0]; exact List.mem_cons_self
  -- the fragment, instance side
  simp only [fragTop, Bool.and_eq_true, decide_eq_true_eq, List.all_eq_true] at hf
  obtain ⟨_, F3⟩ := hf
  simp only [rowsFitB, List.all_eq_true] at hfit
  have hins : D0.insts.map (instViewD D0) = T.insts.map (instViewT n) := by
    have := congrArg DefView.insts hv
    rw [viewD_insts, viewT_insts] at this
    exact this
  have hlen : D0.insts.length = T.insts.length := by
    have := congrArg List.length hins; simpa using this
  apply List.ext_getElem (by simp [hlen])
  intro j h1 h2
  simp only [List.length_map] at h1 h2
  simp only [List.getElem_map]
  have hj : instViewD D0 D0.insts[j] = instViewT n T.insts[j] := by
    have := List.getElem_of_eq hins (by simpa using h1)
    simpa using this
  generalize hDj : D0.insts[j] = Dj at hj
  generalize htj : T.insts[j] = tj at hj
  have hDjm : Dj ∈ D0.insts := by rw [← hDj]; exact List.getElem_mem h1
  have htjm : tj ∈ T.insts := by rw [← htj]; exact List.getElem_mem h2
  unfold instViewD instViewT at hj
  simp only [InstView.mk.injEq] at hj
  obtain ⟨_, href, _, _, hrows⟩ := hj
  -- the referenced definition
  have hfit_j := hfit tj htjm
  cases hf' : rs.find? (fun r => r.name == tj.ref) with
  | none => simp [hf'] at hfit_j
  | some r' =>
    cases hr : Text.refOf n tj.ref with
    | none => simp [hf', hr] at hfit_j
    | some r =>
      simp only [hf', hr, Bool.and_eq_true, decide_eq_true_eq, List.all_eq_true, List.mem_range, beq_iff_eq] at hfit_j
      obtain ⟨hwid, hrowlen⟩ := hfit_j
      have hr'm := List.mem_of_find?_eq_some hf'
      have hr'n : r'.name = tj.ref := by simpa using List.find?_some hf'
      obtain ⟨L, hL, hLn, _, hLi⟩ := hI r' hr'm
      have hLmem : L ∈ s.defs := by rw [hsd, e0]; exact List.mem_cons_of_mem _ hL
      -- the pin mirror
      have hmir := hwf.glob.mirror (shape D0) (List.mem_map.mpr ⟨D0, hDmem, rfl⟩)
        (Dj.ref, Dj.pins.map List.length) (List.mem_map.mpr ⟨Dj, hDjm, rfl⟩)
        (shape L) (List.mem_map.mpr ⟨L, hLmem, rfl⟩) (by
          show L.name = Dj.ref
          rw [hLn, hr'n, href])
      have hLw : L.ports.map (fun p => p.pins.length) = r.ports.map (·.width) := by
        have h4 := congrArg (List.map (fun (x : Option String × Dir × Int × Nat) => x.2.2.2)) hLi
        simp only [ifaceD, ifaceT, List.map_map, Function.comp_def] at h4
        rw [h4, hwid]
      have hwidths : Dj.pins.map List.length = r.ports.map (·.width) := by
        have : Dj.pins.map List.length = L.ports.map (fun p => p.pins.length) := hmir
        rw [this, hLw]
      have hplen : Dj.pins.length = r.ports.length := by
        have := congrArg List.length hwidths; simpa using this
      simp only [hr, Option.map_some, Option.getD_some] at hrows
      -- the fragment clause of this instance
      have F3j := F3 tj htjm
      simp only [hr, Bool.and_eq_true, decide_eq_true_eq, List.all_eq_true, List.mem_range, Bool.not_eq_eq_eq_not,
        Bool.not_true] at F3j
      obtain ⟨_, g4⟩ := F3j
      unfold fullRowsD fullRowsT
      simp only [hr, Option.map_some, Option.getD_some]
      apply List.ext_getElem (by simp [hplen])
      intro k k1 k2
      simp only [List.length_map, List.length_range] at k1 k2
      simp only [List.getElem_map, List.getElem_range]
      apply eq_of_low
      · exact hlow Dj hDjm _ (List.getElem_mem k1)
      · obtain ⟨blk, mm, e, _⟩ := readerShape_sound _ _ (g4 k k2).2
        exact ⟨blk, mm, e⟩
      · have := List.getElem_of_eq hrows (by simpa using k1)
        simpa using this
      · have e1 : (pinBits D0 Dj.pins[k]).length = Dj.pins[k].length := by simp [pinBits]
        have e2 : Dj.pins[k].length = (r.ports[k]).width := by
          have := List.getElem_of_eq hwidths (by simpa using k1)
          simpa using this
        have e3 := hrowlen k k2
        have e4 : r.ports.getD k default = r.ports[k] := by simp [List.getD, List.getElem?_eq_getElem k2]
        rw [e1, e2, e3, e4]

/-- **c04_full_bb.**  `c04_text_bb` with the full rows: from characters, with `write_blackbox = True`, on a netlist that
    is consistent about widths, the re-read top has exactly the pin rows of the netlist (row widths included), next to
    the view of the top and the interfaces of the leaves. -/
theorem c04_full_bb (n : Text.WNet) (T : Text.WDef) (kT : Nat) (ks : List Nat) (hT : n.defs.getD kT default = T)
    (h : fragStructBB n T kT ks = true) (hfit : rowsFitB n T (leafDefs n ks) = true) :
    ∃ text fin s D ls, Text.composeV n optsBB = .ok (text, fin) ∧ Parse.readV text = .ok s ∧ s.defs = D :: ls ∧
      s.top = some T.name ∧ viewD D = viewT n T ∧ D.lib = some "work" ∧
      (∀ r ∈ leafDefs n ks, ∃ L ∈ ls, L.name = r.name ∧ L.lib = some "hdi_primitives" ∧ ifaceD L = ifaceT r) ∧
      D.insts.map (fullRowsD D) = T.insts.map (fullRowsT n) := by
  have h0 := h
  unfold fragStructBB at h
  cases hm : astOf n T with
  | none => simp [hm] at h
  | some m =>
    cases hl : (leafDefs n ks).mapM astLeaf with
    | none => simp [hm, hl] at h
    | some leaves =>
      simp only [hm, hl, Bool.and_eq_true, beq_iff_eq, List.all_eq_true, decide_eq_true_eq] at h
      obtain ⟨⟨⟨⟨⟨⟨⟨⟨⟨h1, h2⟩, h3⟩, h4⟩, h5⟩, h6⟩, h7⟩, h8⟩, h9⟩, h10⟩ := h
      obtain ⟨m', leaves', s, D, ls, a1, a2, a3, a4, a5, _, a7, a8, a9⟩ := c04_ast_bb n T _ h2
      rw [hm] at a1
      have e1 : m' = m := (Option.some.inj a1).symm
      subst e1
      rw [hl] at a2
      have e2 : leaves' = leaves := (Option.some.inj a2).symm
      subst e2
      have hfull := c04_full_ast n T (leafDefs n ks) m' leaves' h2 hfit hm hl s a3 D ls a4
      have hfrag : fragTop n T = true := by
        simp only [fragBBast, Bool.and_eq_true] at h2; exact h2.1.1
      obtain ⟨fin, hcv⟩ := composeV_text_bb n T kT ks m' leaves' hT h1 hfrag (topTextB_sound n T h3) hm hl
        (fun r hr => leafTextB_sound r (h4 r hr)) h7
      have hdtop := ports_dir_of_tokOK m' h5
      have hdl : ∀ lf ∈ leaves', ∀ p ∈ lf.ports, p.dir ≠ .undef ∧ p.attrs = [] := by
        intro lf hlf p hp
        have := h6 lf hlf
        simp only [leafOK, Bool.and_eq_true, List.all_eq_true] at this
        have hp' := this.1.2 p hp
        simp only [portOK, Bool.and_eq_true, bne_iff_ne, ne_eq] at hp'
        exact ⟨hp'.1.1.1, List.isEmpty_iff.mp hp'.2⟩
      have hlex := lexV_pieces _ (filePbb n m' leaves') (chars_filePbb n m' leaves').symm h9 h8
      rw [toks_filePbb n m' leaves' hdtop hdl] at hlex
      refine ⟨_, fin, s, D, ls, hcv, ?_, a4, a5, a7, a8, a9, hfull⟩
      rw [readV_eq, hlex]
      unfold readT
      have hc1 : Text.isCommentTok "//Generated from netlist by SpyDrNet" = true := by decide +kernel
      rw [parse_bb _ m'.toI leaves' (by
        intro c hc
        simp only [List.mem_cons, List.mem_nil_iff, or_false] at hc
        rcases hc with e | e
        · rw [e]; exact hc1
        · rw [e]; exact h10) h5 h6]
      exact a3

theorem exNetBB_fit : rowsFitB exNetBB exTopBB (leafDefs exNetBB [1, 2]) = true := by decide

/-- non-vacuity: on the example the instance of `RAM` comes back with its six-pin address row (four bits connected, two
    free pins), although the instance created a four-bit port -/
theorem exNetBB_full :
    ∃ text fin s D ls, Text.composeV exNetBB optsBB = .ok (text, fin) ∧ Parse.readV text = .ok s ∧ s.defs = D :: ls ∧
      s.top = some exTopBB.name ∧ viewD D = viewT exNetBB exTopBB ∧ D.lib = some "work" ∧
      (∀ r ∈ leafDefs exNetBB [1, 2], ∃ L ∈ ls, L.name = r.name ∧ L.lib = some "hdi_primitives" ∧ ifaceD L = ifaceT r) ∧
      D.insts.map (fullRowsD D) = exTopBB.insts.map (fullRowsT exNetBB) :=
  c04_full_bb exNetBB exTopBB 0 [1, 2] rfl exNetBB_struct exNetBB_fit

/-- **nobb_row_shrinks** (the other option set, stated explicitly).  With `write_blackbox = False` the leaves are not
    declared and their port widths are re-inferred from the first instance: for `exNetBB` the written module is `exM`, the
    reader's table for that file gives the address row of `r0` FOUR pins, the netlist has SIX.  `c04_text_struct` still
    concludes `viewD D = viewT n T`, because the view compares rows up to the first free pin only. -/
theorem nobb_row_shrinks :
    astOf exNetBB exTopBB = some exM ∧
    (∃ defs nx, buildWI exM.toI = some (defs, nx) ∧ elabDesign [exM.toI.toModule] = .ok ⟨defs, nx, some "top", 0, []⟩ ∧
      ((defs.headD default).insts.getD 2 default).pins.map List.length = [4, 1]) ∧
    ((exTopBB.insts.getD 2 default).pins.map List.length = [6, 1]) := by
  refine ⟨exNetBB_ast, ?_, by decide⟩
  obtain ⟨r, h⟩ := Option.isSome_iff_exists.mp (by decide : (buildWI exM.toI).isSome = true)
  obtain ⟨defs, nx⟩ := r
  refine ⟨defs, nx, h, elabDesign_wsingle exM.toI defs nx h, ?_⟩
  have : ((buildWI exM.toI).map (fun r => ((r.1.headD default).insts.getD 2 default).pins.map List.length)) = some [4, 1] := by
    decide
  rw [h] at this
  simpa using this
/-- non-vacuity with primitives as the Verilog READER builds them: every port of `LUT2` and `RAM` has its inner net -/
def exNetRB : Text.WNet :=
  let b (c : String) (i : Int) : Option Bit := some ⟨c, i⟩
  { exNetBB with
    defs := [exTopBB,
      { name := "LUT2", lib := "hdi_primitives", params := none, attrs := none,
        ports := [⟨some "I0", "IN", 0, 1, [b "I0" 0], none⟩, ⟨some "I1", "IN", 0, 1, [b "I1" 0], none⟩,
                  ⟨some "O", "OUT", 0, 1, [b "O" 0], none⟩],
        cables := [⟨"I0", 0, 1, none, none⟩, ⟨"I1", 0, 1, none, none⟩, ⟨"O", 0, 1, none, none⟩], insts := [] },
      { name := "RAM", lib := "hdi_primitives", params := none, attrs := none,
        ports := [⟨some "addr", "IN", 2, 6, [b "addr" 2, b "addr" 3, b "addr" 4, b "addr" 5, b "addr" 6, b "addr" 7], none⟩,
                  ⟨some "q", "OUT", 0, 1, [b "q" 0], none⟩],
        cables := [⟨"addr", 2, 6, none, none⟩, ⟨"q", 0, 1, none, none⟩], insts := [] }] }

theorem exNetRB_struct : fragStructBB exNetRB exTopBB 0 [1, 2] = true := by
  unfold fragStructBB
  have e1 : astOf exNetRB exTopBB = some exM := by rfl
  have e2 : (leafDefs exNetRB [1, 2]).mapM astLeaf = some exLeavesBB := by rfl
  rw [e1, e2]
  simp only
  have a1 : (composeOrder exNetRB == [0, 1, 2]) = true := by decide
  have a2 : fragBBast exNetRB exTopBB (leafDefs exNetRB [1, 2]) = true := by decide
  have a3 : topTextB exNetRB exTopBB = true := by decide
  have a4 : (leafDefs exNetRB [1, 2]).all leafTextB = true := by decide
  have a7 : exLeavesBB.all (fun lf => decide ((lf.ports.map (·.name)).Nodup)) = true := by decide
  have a8 : (filePbb exNetRB exM exLeavesBB).all Piece.ok = true := exNetBB_pieces_ok
  have a9 : adjOK (filePbb exNetRB exM exLeavesBB) = true := by decide +kernel
  have a10 : Text.isCommentTok ("//netlist name: " ++ Text.fixName exNetRB.name) = true := by decide +kernel
  rw [a1, a2, a3, a4, exM_tokOK, exLeavesBB_ok, a7, a8, a9, a10]
  rfl

theorem exNetRB_full :
    ∃ text fin s D ls, Text.composeV exNetRB optsBB = .ok (text, fin) ∧ Parse.readV text = .ok s ∧ s.defs = D :: ls ∧
      s.top = some exTopBB.name ∧ viewD D = viewT exNetRB exTopBB ∧ D.lib = some "work" ∧
      (∀ r ∈ leafDefs exNetRB [1, 2], ∃ L ∈ ls, L.name = r.name ∧ L.lib = some "hdi_primitives" ∧ ifaceD L = ifaceT r) ∧
      D.insts.map (fullRowsD D) = exTopBB.insts.map (fullRowsT exNetRB) :=
  c04_full_bb exNetRB exTopBB 0 [1, 2] rfl exNetRB_struct (by decide)
end Spydr.Verilog.Elab
