/-
  Verilog engine — proof side, part 25: the TokenFactory automaton on lists of characters (`run`, `lexV_run`), the boundary
  lemmas (a pending one-character token, a word ended by a breaking character, white space from the clean state) and the
  irrelevance of the last character from the clean state.
-/
import Spydr.Verilog.RoundTripRenderB
set_option maxHeartbeats 800000
namespace Spydr.Verilog.Elab
open Spydr.Verilog
open Spydr.Verilog.Text (TF lexV)

/-! ### the TokenFactory automaton on a list of characters -/

/-- state after the characters, and the tokens that ended meanwhile, in order -/
def run (t : TF) : List Char → TF × List String
  | [] => (t, [])
  | c :: cs =>
    let r := t.add c
    let r2 := run r.1 cs
    (r2.1, (match r.2 with | some tok => [tok] | none => []) ++ r2.2)

theorem run_append (t : TF) (a b : List Char) :
    run t (a ++ b) = ((run (run t a).1 b).1, (run t a).2 ++ (run (run t a).1 b).2) := by
  induction a generalizing t with
  | nil => simp [run]
  | cons c cs ih => simp only [List.cons_append, run, ih]; simp [List.append_assoc]

theorem foldl_run (F : TF × List String → Char → TF × List String)
    (hF : ∀ st c, F st c = ((st.1.add c).1, ((st.1.add c).2.toList) ++ st.2)) (cs : List Char) :
    ∀ (t : TF) (acc : List String), cs.foldl F (t, acc) = ((run t cs).1, (run t cs).2.reverse ++ acc) := by
  induction cs with
  | nil => intro t acc; simp [run]
  | cons c cs ih =>
    intro t acc
    simp only [List.foldl_cons, run, hF]
    rw [ih]
    cases (t.add c).2 <;> simp

theorem lexV_run (text : String) :
    lexV text = (run {} text.toList).2 ++ (if (run {} text.toList).1.buffer == "" then [] else [(run {} text.toList).1.buffer]) := by
  unfold lexV
  simp only []
  rw [foldl_run _ (by
    intro st c
    cases h : (st.1.add c).2 <;> simp [h]) text.toList {} []]
  split <;> simp

/-- no comment / string / escaped-identifier / directive is open -/
def Flat (t : TF) : Prop := t.slc = false ∧ t.mlc = false ∧ t.str = false ∧ t.esc = false ∧ t.dir = false

theorem Flat.anyFlag {t : TF} (h : Flat t) : t.anyFlag = false := by
  obtain ⟨h1, h2, h3, h4, h5⟩ := h
  simp [TF.anyFlag, h1, h2, h3, h4, h5]

/-- a pending single-character token ends at the next character, whatever it is; the rest is as from the empty buffer -/
theorem add_pend (t : TF) (c : Char) (hf : Flat t) (hp : Text.singleCharTokens.contains t.buffer = true) :
    t.add c = (({ t with buffer := "" } : TF).add c |>.1, some t.buffer) := by
  obtain ⟨h1, h2, h3, h4, h5⟩ := hf
  have he : Text.singleCharTokens.contains "" = false := by decide
  unfold TF.add
  simp only [hp, if_true, he, h1, h2, h3, h4, h5, Bool.false_and, Bool.false_eq_true, if_false, String.length_empty,
    bne_self_eq_false, Bool.and_false, ite_self]

/-- a word in the buffer ends at a breaking character; the rest is as from the empty buffer -/
theorem add_word_end (t : TF) (c : Char) (hf : Flat t) (hs : Text.singleCharTokens.contains t.buffer = false)
    (hl : t.buffer.length ≠ 0) (hb : Text.breakers.contains c = true) (hstar : ¬ (c = '*' ∧ t.last = "/")) :
    t.add c = (({ t with buffer := "" } : TF).add c |>.1, some t.buffer) := by
  have haf := hf.anyFlag
  obtain ⟨h1, h2, h3, h4, h5⟩ := hf
  have he : Text.singleCharTokens.contains "" = false := by decide
  have hstar' : (c == '*' && t.last == "/") = false := by
    cases h : (c == '*' && t.last == "/") with
    | false => rfl
    | true =>
      simp only [Bool.and_eq_true, beq_iff_eq] at h
      exact absurd h hstar
  have hl' : (t.buffer.length != 0) = true := by simp [hl]
  have haf' : ({ t with buffer := "" } : TF).anyFlag = false := by simp [TF.anyFlag, h1, h2, h3, h4, h5]
  unfold TF.add
  simp only [hs, he, h1, h2, h3, h4, h5, Bool.false_and, Bool.false_eq_true, if_false, hstar', hb, haf, Bool.not_false,
    Bool.true_and, hl', if_true, String.length_empty, bne_self_eq_false, Bool.and_false, ite_self, haf']

/-- empty buffer, nothing open, and the last character was not a `/` -/
def Clean (t : TF) : Prop := t.buffer = "" ∧ Flat t ∧ t.last ≠ "/"

theorem add_clean_none (t : TF) (c : Char) (hb : t.buffer = "") (hf : Flat t) : (t.add c).2 = none := by
  obtain ⟨h1, h2, h3, h4, h5⟩ := hf
  have he : Text.singleCharTokens.contains "" = false := by decide
  unfold TF.add
  simp only [hb, he, h1, h2, h3, h4, h5, Bool.false_and, Bool.false_eq_true, if_false, String.length_empty,
    bne_self_eq_false, Bool.and_false, ite_self]

theorem add_clean_ws (t : TF) (c : Char) (hc : Clean t) (hw : Text.whitespace.contains c = true) :
    t.add c = ({ t with last := String.singleton c }, none) := by
  obtain ⟨hb, ⟨h1, h2, h3, h4, h5⟩, _⟩ := hc
  have he : Text.singleCharTokens.contains "" = false := by decide
  have hl : ((String.singleton c).length == 1) = true := by simp
  unfold TF.add
  simp only [hb, he, h1, h2, h3, h4, h5, Bool.false_and, Bool.false_eq_true, if_false, String.length_empty,
    bne_self_eq_false, Bool.and_false, ite_self, hl, hw, Bool.and_self, Bool.not_true, Bool.or_self]
  simp [TF.setFlags, TF.anyFlag, h1, h2, h3, h4, h5]

/-- from the empty buffer with nothing open, the `last` field matters only through `/` -/
theorem add_empty_irrel (t : TF) (c : Char) (l1 l2 : String) (hb : t.buffer = "") (hf : Flat t)
    (h1 : l1 ≠ "/") (h2 : l2 ≠ "/") : ({ t with last := l1 } : TF).add c = ({ t with last := l2 } : TF).add c := by
  obtain ⟨f1, f2, f3, f4, f5⟩ := hf
  have e1 : (l1 == "/") = false := by simp [h1]
  have e2 : (l2 == "/") = false := by simp [h2]
  have he : Text.singleCharTokens.contains "" = false := by decide
  unfold TF.add
  simp only [hb, he, f1, f2, f3, f4, f5, Bool.false_and, Bool.false_eq_true, if_false, String.length_empty,
    bne_self_eq_false, Bool.and_false, ite_self, e1, e2]
  by_cases hw : ((String.singleton c).length == 1 && Text.whitespace.contains c) = true
  · simp only [hw, Bool.not_true, Bool.false_eq_true, if_false, Bool.or_self]
  · simp only [hw, Bool.not_false, if_true]

theorem run_empty_irrel (t : TF) (cs : List Char) (l1 l2 : String) (hb : t.buffer = "") (hf : Flat t)
    (h1 : l1 ≠ "/") (h2 : l2 ≠ "/") (hne : cs ≠ []) :
    run ({ t with last := l1 } : TF) cs = run ({ t with last := l2 } : TF) cs := by
  cases cs with
  | nil => exact absurd rfl hne
  | cons c cs => simp only [run, add_empty_irrel t c l1 l2 hb hf h1 h2]

/-- every clean state behaves like the initial one -/
theorem run_clean (t : TF) (cs : List Char) (hc : Clean t) (hne : cs ≠ []) : run t cs = run ({} : TF) cs := by
  obtain ⟨hb, hf, hl⟩ := hc
  obtain ⟨f1, f2, f3, f4, f5⟩ := hf
  have ht : t = ({ ({} : TF) with last := t.last } : TF) := by
    cases t; simp_all
  have h0 : ({} : TF) = ({ ({} : TF) with last := "" } : TF) := rfl
  rw [ht, h0]
  exact run_empty_irrel ({} : TF) cs t.last "" rfl ⟨rfl, rfl, rfl, rfl, rfl⟩ hl (by decide) hne
end Spydr.Verilog.Elab
