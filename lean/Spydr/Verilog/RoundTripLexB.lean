/-
  Verilog engine — proof side, part 26: the general lexer lemma: a text made of pieces lexes into the tokens of the
  pieces (`lex_pieces`, `lexV_pieces`).
-/
import Spydr.Verilog.RoundTripLexA
set_option maxHeartbeats 800000
namespace Spydr.Verilog.Elab
open Spydr.Verilog
open Spydr.Verilog.Text (TF lexV)

/-! ### a text as a list of pieces -/

inductive Piece
  | ws (c : Char)                      -- one character of white space
  | tok (s : String)                   -- a word or a one-character token: ends at the next character
  | self (text out : String)           -- ends by itself: a string literal, a comment line with its newline

def Piece.text : Piece → String
  | .ws c => String.singleton c
  | .tok s => s
  | .self t _ => t

def Piece.toks : Piece → List String
  | .ws _ => []
  | .tok s => [s]
  | .self _ o => [o]

def flatB (t : TF) : Bool := !t.slc && !t.mlc && !t.str && !t.esc && !t.dir

theorem flatB_iff (t : TF) : flatB t = true ↔ Flat t := by
  unfold flatB Flat
  simp only [Bool.and_eq_true, Bool.not_eq_eq_eq_not, Bool.not_true]
  constructor
  · rintro ⟨⟨⟨⟨a, b⟩, c⟩, d⟩, e⟩; exact ⟨a, b, c, d, e⟩
  · rintro ⟨a, b, c, d, e⟩; exact ⟨⟨⟨⟨a, b⟩, c⟩, d⟩, e⟩

/-- from the initial state the characters of `s` are all gathered in the buffer and nothing ends (kernel-checkable) -/
def tokRunB (s : String) : Bool :=
  !s.toList.isEmpty && (run {} s.toList).2.isEmpty && (run {} s.toList).1.buffer == s && flatB (run {} s.toList).1 &&
  (run {} s.toList).1.last != "/" && s.length != 0

/-- from the initial state `text` yields exactly the token `out` and leaves the state clean -/
def selfRunB (text out : String) : Bool :=
  !text.toList.isEmpty && (run {} text.toList).2 == [out] && (run {} text.toList).1.buffer == "" &&
  flatB (run {} text.toList).1 && (run {} text.toList).1.last != "/"

def Piece.ok : Piece → Bool
  | .ws c => Text.whitespace.contains c
  | .tok s => tokRunB s
  | .self t o => selfRunB t o

/-- may piece `p` follow a word that is still in the buffer?  white space, or a one-character token that breaks -/
def Piece.breaks : Piece → Bool
  | .ws _ => true
  | .tok s => Text.singleCharTokens.contains s && (match s.toList with | [c] => Text.breakers.contains c | _ => false)
  | .self _ _ => false

/-- a word must be followed by something that ends it -/
def adjOK : List Piece → Bool
  | [] => true
  | [_] => true
  | .tok s :: q :: rest => (Text.singleCharTokens.contains s || q.breaks) && adjOK (q :: rest)
  | _ :: q :: rest => adjOK (q :: rest)

def flush (t : TF) : List String := if t.buffer == "" then [] else [t.buffer]

/-- what the induction keeps: nothing open; the buffer is empty, or holds a token whose characters were all accepted -/
structure LexInv (t : TF) : Prop where
  flat : Flat t
  last : t.last ≠ "/"
  len : t.buffer = "" ∨ t.buffer.length ≠ 0

def Piece.chars : Piece → List Char
  | .ws c => [c]
  | .tok s => s.toList
  | .self t _ => t.toList

theorem ws_breaks (c : Char) (h : Text.whitespace.contains c = true) : Text.breakers.contains c = true := by
  simp only [Text.whitespace, List.contains_cons, List.contains_nil, Bool.or_false, Bool.or_eq_true, beq_iff_eq] at h
  rcases h with h | h | h | h | h <;> (subst h; decide)

theorem ws_not_star (c : Char) (h : Text.whitespace.contains c = true) : c ≠ '*' := by
  intro e; subst e; revert h; decide

/-- feeding a non-empty piece to a state whose buffer ends at the first character (or is empty): the rest is as from
    the initial state -/
theorem run_from (t : TF) (c : Char) (cs : List Char) (inv : LexInv t)
    (hend : t.buffer = "" ∨ Text.singleCharTokens.contains t.buffer = true ∨
      (Text.singleCharTokens.contains t.buffer = false ∧ Text.breakers.contains c = true)) :
    run t (c :: cs) = ((run {} (c :: cs)).1, flush t ++ (run {} (c :: cs)).2) := by
  have hclean' : Clean ({ t with buffer := "" } : TF) := ⟨rfl, inv.flat, inv.last⟩
  by_cases hb : t.buffer = ""
  · have hcl : Clean t := ⟨hb, inv.flat, inv.last⟩
    rw [run_clean t (c :: cs) hcl (by simp)]
    simp [flush, hb]
  · have hne : (t.buffer == "") = false := by simp [hb]
    have hl : t.buffer.length ≠ 0 := by
      rcases inv.len with h | h
      · exact absurd h hb
      · exact h
    have h2 := run_clean ({ t with buffer := "" } : TF) (c :: cs) hclean' (by simp)
    have h3 := add_clean_none ({ t with buffer := "" } : TF) c rfl inv.flat
    have h1 : t.add c = (({ t with buffer := "" } : TF).add c |>.1, some t.buffer) := by
      rcases hend with h | hs | ⟨hs, hbr⟩
      · exact absurd h hb
      · exact add_pend t c inv.flat hs
      · exact add_word_end t c inv.flat hs hl hbr (fun h => inv.last h.2)
    rw [← h2]
    simp only [run, h1, h3, flush, hne, Bool.false_eq_true, if_false, List.nil_append, List.singleton_append]

theorem singleton_ne_slash (c : Char) (h : Text.whitespace.contains c = true) : String.singleton c ≠ "/" := by
  simp only [Text.whitespace, List.contains_cons, List.contains_nil, Bool.or_false, Bool.or_eq_true, beq_iff_eq] at h
  rcases h with h | h | h | h | h <;> (subst h; decide)

/-- what one piece does from the initial state -/
theorem piece_run (p : Piece) (h : p.ok = true) :
    p.chars ≠ [] ∧ (run {} p.chars).2 = (match p with | .self _ o => [o] | _ => []) ∧
    (run {} p.chars).1.buffer = (match p with | .tok s => s | _ => "") ∧ LexInv (run {} p.chars).1 := by
  cases p with
  | ws c =>
    simp only [Piece.ok] at h
    have := add_clean_ws ({} : TF) c ⟨rfl, ⟨rfl, rfl, rfl, rfl, rfl⟩, by decide⟩ h
    simp only [Piece.chars, run, this]
    refine ⟨by simp, ?_, ?_, ⟨⟨rfl, rfl, rfl, rfl, rfl⟩, singleton_ne_slash c h, Or.inl rfl⟩⟩
    · first | rfl | trivial | simp
    · first | rfl | trivial | simp
  | tok s =>
    simp only [Piece.ok, tokRunB, Bool.and_eq_true, Bool.not_eq_eq_eq_not, Bool.not_true, List.isEmpty_eq_false_iff,
      List.isEmpty_iff, beq_iff_eq, bne_iff_ne, ne_eq] at h
    obtain ⟨⟨⟨⟨⟨h1, h2⟩, h3⟩, h4⟩, h5⟩, h6⟩ := h
    simp only [Piece.chars]
    exact ⟨h1, h2, h3, ⟨(flatB_iff _).mp h4, h5, Or.inr (by rw [h3]; exact h6)⟩⟩
  | self t o =>
    simp only [Piece.ok, selfRunB, Bool.and_eq_true, Bool.not_eq_eq_eq_not, Bool.not_true, List.isEmpty_eq_false_iff,
      beq_iff_eq, bne_iff_ne, ne_eq] at h
    obtain ⟨⟨⟨⟨h1, h2⟩, h3⟩, h4⟩, h5⟩ := h
    simp only [Piece.chars]
    exact ⟨h1, h2, h3, ⟨(flatB_iff _).mp h4, h5, Or.inl h3⟩⟩

theorem breaks_first (p : Piece) (hok : p.ok = true) (hb : p.breaks = true) :
    ∃ c cs, p.chars = c :: cs ∧ Text.breakers.contains c = true := by
  cases p with
  | ws c => exact ⟨c, [], rfl, ws_breaks c hok⟩
  | tok s =>
    simp only [Piece.breaks, Bool.and_eq_true] at hb
    cases hl : s.toList with
    | nil => simp [hl] at hb
    | cons c cs =>
      cases cs with
      | nil => simp only [hl] at hb; exact ⟨c, [], hl, hb.2⟩
      | cons d ds => simp [hl] at hb
  | self t o => simp [Piece.breaks] at hb

def headBreaks : List Piece → Prop
  | [] => True
  | p :: _ => p.breaks = true

/-- **lex_pieces.**  The TokenFactory automaton on a text that is a list of pieces: the tokens that end, followed by what
    is left in the buffer, are what was in the buffer followed by the tokens of the pieces. -/
theorem lex_pieces : ∀ (ps : List Piece) (t : TF), LexInv t →
    (t.buffer = "" ∨ Text.singleCharTokens.contains t.buffer = true ∨ headBreaks ps) →
    adjOK ps = true → (∀ p ∈ ps, p.ok = true) →
    (run t (ps.flatMap Piece.chars)).2 ++ flush (run t (ps.flatMap Piece.chars)).1 = flush t ++ ps.flatMap Piece.toks ∧
    LexInv (run t (ps.flatMap Piece.chars)).1 := by
  intro ps
  induction ps with
  | nil => intro t inv _ _ _; simp [run, inv]
  | cons p ps ih =>
    intro t inv hstart hadj hok
    have hp := hok p List.mem_cons_self
    obtain ⟨hne, ho, hbuf, hinv1⟩ := piece_run p hp
    obtain ⟨c, cs, hcs⟩ : ∃ c cs, p.chars = c :: cs := by
      cases hx : p.chars with
      | nil => exact absurd hx hne
      | cons c cs => exact ⟨c, cs, rfl⟩
    -- the first character ends whatever is in the buffer
    have hend : t.buffer = "" ∨ Text.singleCharTokens.contains t.buffer = true ∨
        (Text.singleCharTokens.contains t.buffer = false ∧ Text.breakers.contains c = true) := by
      rcases hstart with h | h | h
      · exact Or.inl h
      · exact Or.inr (Or.inl h)
      · cases hs : Text.singleCharTokens.contains t.buffer with
        | true => exact Or.inr (Or.inl rfl)
        | false =>
          obtain ⟨c', cs', e, hb⟩ := breaks_first p hp h
          rw [hcs] at e
          simp only [List.cons.injEq] at e
          rw [← e.1] at hb
          exact Or.inr (Or.inr ⟨rfl, hb⟩)
    have h1 := run_from t c cs inv hend
    rw [← hcs] at h1
    simp only [List.flatMap_cons]
    rw [run_append, h1]
    simp only
    -- the rest from the state the piece leaves
    have hstart2 : (run {} p.chars).1.buffer = "" ∨ Text.singleCharTokens.contains (run {} p.chars).1.buffer = true ∨
        headBreaks ps := by
      cases p with
      | ws c' => exact Or.inl hbuf
      | self t' o => exact Or.inl hbuf
      | tok s =>
        simp only at hbuf
        cases ps with
        | nil => exact Or.inr (Or.inr trivial)
        | cons q rest =>
          simp only [adjOK, Bool.and_eq_true, Bool.or_eq_true] at hadj
          rcases hadj.1 with h | h
          · exact Or.inr (Or.inl (by rw [hbuf]; exact h))
          · exact Or.inr (Or.inr h)
    have hadj2 : adjOK ps = true := by
      cases ps with
      | nil => rfl
      | cons q rest =>
        cases p <;> simp only [adjOK, Bool.and_eq_true] at hadj
        · exact hadj
        · exact hadj.2
        · exact hadj
    obtain ⟨e1, inv2⟩ := ih (run {} p.chars).1 hinv1 hstart2 hadj2 (fun q hq => hok q (List.mem_cons_of_mem _ hq))
    refine ⟨?_, inv2⟩
    rw [List.append_assoc, List.append_assoc, e1]
    -- the piece's own tokens
    have hfl : (run {} p.chars).2 ++ flush (run {} p.chars).1 = p.toks := by
      cases p with
      | ws c' => simp only at ho hbuf; simp [ho, flush, hbuf, Piece.toks]
      | self t' o => simp only at ho hbuf; simp [ho, flush, hbuf, Piece.toks]
      | tok s =>
        simp only at ho hbuf
        have hs : (s == "") = false := by
          rcases hinv1.len with h | h
          · rw [hbuf] at h
            simp only [Piece.ok, tokRunB, Bool.and_eq_true, bne_iff_ne, ne_eq] at hp
            exact absurd (by rw [h]; rfl) hp.2
          · rw [hbuf] at h
            cases hx : (s == "") with
            | false => rfl
            | true => have : s = "" := by simpa using hx
                      rw [this] at h; simp at h
        simp [ho, flush, hbuf, hs, Piece.toks]
    rw [← List.append_assoc ((run {} p.chars).2), hfl]

/-- **lexV_pieces.**  The lexer on a text made of pieces (white space, words, one-character tokens, self-terminated
    tokens), each of which passes its own check and no word runs into the next piece: the tokens are those of the pieces. -/
theorem lexV_pieces (text : String) (ps : List Piece) (ht : text.toList = ps.flatMap Piece.chars)
    (hadj : adjOK ps = true) (hok : ∀ p ∈ ps, p.ok = true) : lexV text = ps.flatMap Piece.toks := by
  rw [lexV_run, ht]
  have inv0 : LexInv ({} : TF) := ⟨⟨rfl, rfl, rfl, rfl, rfl⟩, by decide, Or.inl rfl⟩
  obtain ⟨h1, _⟩ := lex_pieces ps {} inv0 (Or.inl rfl) hadj hok
  have hf0 : flush ({} : TF) = [] := rfl
  rw [hf0, List.nil_append] at h1
  exact h1
end Spydr.Verilog.Elab
