/-
  Verilog engine — proof side, part 7: a whole module of the fragment through the real elabModule.
-/
import Spydr.Verilog.RoundTripDecls
namespace Spydr.Verilog.Elab
open Spydr.Verilog

theorem filterMap_congr' {α β : Type} (f g : α → Option β) : ∀ (l : List α), (∀ x ∈ l, f x = g x) →
    l.filterMap f = l.filterMap g := by
  intro l
  induction l with
  | nil => intro _; rfl
  | cons a l ih =>
    intro h
    simp only [List.filterMap_cons, h a List.mem_cons_self, ih (fun x hx => h x (List.mem_cons_of_mem _ hx))]

theorem map_idxOf_nodup (names : List String) (hn : names.Nodup) :
    names.map (fun n => names.idxOf n) = List.range names.length := by
  apply List.ext_getElem
  · simp
  · intro i h1 h2
    simp only [List.getElem_map, List.getElem_range]
    exact hn.idxOf_getElem i (by simpa using h1)

/-- a port list whose names are exactly `names` (distinct): every name finds its own position -/
theorem filterMap_portIdx (l : List Port) (names : List String)
    (hl : l.map (·.name) = names.map some) (hn : names.Nodup) :
    names.filterMap (fun n => l.findIdx? (fun p => p.name == some n)) = List.range l.length := by
  have hlen : l.length = names.length := by
    have := congrArg List.length hl; simpa using this
  have hget : ∀ i (h : i < l.length), l[i].name = some (names[i]'(by omega)) := by
    intro i h
    have h1 : (l.map (·.name))[i]'(by simpa using h) = (names.map some)[i]'(by simp; omega) := by simp only [hl]
    simpa using h1
  have hf : ∀ n ∈ names, l.findIdx? (fun p => p.name == some n) = (some ∘ fun n => names.idxOf n) n := by
    intro n hmem
    have hi : names.idxOf n < names.length := List.idxOf_lt_length_iff.mpr hmem
    have hni : names[names.idxOf n] = n := List.getElem_idxOf hi
    simp only [Function.comp]
    rw [List.findIdx?_eq_some_iff_getElem]
    refine ⟨by omega, ?_, ?_⟩
    · rw [hget _ (by omega)]; simp [hni]
    · intro j hj
      rw [hget j (by omega)]
      simp only [beq_iff_eq, Option.some.injEq]
      intro e
      have : names.idxOf names[j] = j := hn.idxOf_getElem j (by omega)
      rw [e] at this
      omega
  rw [filterMap_congr' _ _ names hf, List.filterMap_eq_map, map_idxOf_nodup names hn, hlen]

theorem reorderPorts_id (s : St) (dn : String) (d : Def) (names : List String) (hd : Has s dn d)
    (h : names.filterMap (portIdx d) = List.range d.ports.length) : reorderPorts s dn names = .ok s := by
  unfold reorderPorts
  rw [getDef_has hd]
  simp only [bind, Except.bind]
  split
  · rfl
  · rw [h]
    have : ((List.range d.ports.length).filter (fun i => !((List.range d.ports.length).contains i))) = [] := by
      rw [List.filter_eq_nil_iff]
      intro a ha
      simp [List.mem_range.mp ha]
    rw [this]
    simp
    rfl

/-- a module of the fragment: ANSI header, wire declarations, then instantiations with named port maps;
    a `celldefine` module has neither wires nor instances -/
structure FMod where
  name : String
  prim : Bool
  ports : List FPort
  wires : List FWire
  insts : List NInst

def FMod.toModule (m : FMod) : Module :=
  ⟨m.name, m.prim, [], [], m.ports.map FPort.hport, m.wires.map FWire.item ++ m.insts.map NInst.item⟩

def libOf (prim : Bool) : String := if prim then "hdi_primitives" else "work"

/-- the definition the reader builds for `m` (pure), wires numbered from `next` -/
def buildDef (lookup : String → Option Def) (next : Nat) (m : FMod) : Option (Def × Nat) :=
  let bp := buildPorts m.ports next
  let bw := buildWires m.wires bp.2.2
  let d0 : Def := ⟨m.name, some (libOf m.prim), false, [], none, bp.1, bp.2.1 ++ bw.1, []⟩
  (m.insts.mapM (buildInst lookup d0)).map (fun built => ({ d0 with insts := built }, bw.2))

theorem buildPorts_names : ∀ (ps : List FPort) (n : Nat),
    (buildPorts ps n).1.map (·.name) = ps.map (fun p => some p.name) ∧
    (buildPorts ps n).2.1.map (·.name) = ps.map (·.name)
  | [], _ => ⟨rfl, rfl⟩
  | p :: ps, n => by
    have := buildPorts_names ps (n + (shapeOf p.rng).2.1)
    simp only [buildPorts, List.map_cons, this.1, this.2]
    exact ⟨rfl, rfl⟩

theorem buildWires_names : ∀ (ws : List FWire) (n : Nat), (buildWires ws n).1.map (·.name) = ws.map (·.name)
  | [], _ => rfl
  | w :: ws, n => by
    simp only [buildWires, List.map_cons, buildWires_names ws (n + (shapeOf w.rng).2.1)]
    rfl

theorem Has_append_new (s : St) (e : Def) (h : s.find e.name = none) :
    Has ({ s with defs := s.defs ++ [e] } : St) e.name e := by
  unfold St.find at h
  refine ⟨by simp, rfl, ?_⟩
  intro d' hd' hn
  simp only [List.mem_append, List.mem_singleton] at hd'
  rcases hd' with h1 | h1
  · have := List.find?_eq_none.mp h d' h1
    simp [hn] at this
  · exact h1

theorem Has_append_old (s : St) (e : Def) (n : String) (d : Def) (hd : Has s n d) (hne : e.name ≠ n) :
    Has ({ s with defs := s.defs ++ [e] } : St) n d := by
  obtain ⟨hm, hn, hu⟩ := hd
  refine ⟨by simp [hm], hn, ?_⟩
  intro d' hd' hn'
  simp only [List.mem_append, List.mem_singleton] at hd'
  rcases hd' with h1 | h1
  · exact hu d' h1 hn'
  · rw [h1] at hn'; exact absurd hn' hne

theorem upd_append_new (s : St) (e : Def) (f : Def → Def) (h : s.find e.name = none) :
    (({ s with defs := s.defs ++ [e] } : St).upd e.name f).defs = s.defs ++ [f e] := by
  unfold St.upd
  simp only [List.map_append, List.map_cons, List.map_nil, beq_self_eq_true, if_true]
  congr 1
  conv => rhs; rw [← List.map_id s.defs]
  apply List.map_congr_left
  intro d hd
  unfold St.find at h
  have := List.find?_eq_none.mp h d hd
  simp only [this, Bool.false_eq_true, if_false, id]

theorem defs_upd_last (S : St) (base : List Def) (e : Def) (f : Def → Def) (h : S.defs = base ++ [e])
    (hb : ∀ d ∈ base, d.name ≠ e.name) : (S.upd e.name f).defs = base ++ [f e] := by
  unfold St.upd
  simp only [h, List.map_append, List.map_cons, List.map_nil, beq_self_eq_true, if_true]
  congr 1
  conv => rhs; rw [← List.map_id base]
  apply List.map_congr_left
  intro d hd
  simp [hb d hd]

theorem Has_last (S : St) (base : List Def) (e : Def) (h : S.defs = base ++ [e])
    (hb : ∀ d ∈ base, d.name ≠ e.name) : Has S e.name e := by
  refine ⟨by rw [h]; simp, rfl, ?_⟩
  intro d' hd' hn
  rw [h] at hd'
  simp only [List.mem_append, List.mem_singleton] at hd'
  rcases hd' with h1 | h1
  · exact absurd hn (hb d' h1)
  · exact h1

theorem Has_base (S : St) (base : List Def) (e : Def) (h : S.defs = base ++ [e]) (n : String) (d : Def)
    (hd : d ∈ base ∧ d.name = n ∧ ∀ d' ∈ base, d'.name = n → d' = d) (hne : e.name ≠ n) : Has S n d := by
  obtain ⟨hm, hn, hu⟩ := hd
  refine ⟨by rw [h]; simp [hm], hn, ?_⟩
  intro d' hd' hn'
  rw [h] at hd'
  simp only [List.mem_append, List.mem_singleton] at hd'
  rcases hd' with h1 | h1
  · exact hu d' h1 hn'
  · rw [h1] at hn'; exact absurd hn' hne

theorem RowsFull_base (S : St) (base : List Def) (e : Def) (h : S.defs = base ++ [e]) (ref : String) (n : Nat)
    (hr : ∀ d ∈ base, ∀ i ∈ d.insts, i.ref = ref → n ≤ i.pins.length) (he : e.insts = []) : RowsFull S ref n := by
  intro d hd i hi href
  rw [h] at hd
  simp only [List.mem_append, List.mem_singleton] at hd
  rcases hd with h1 | h1
  · exact hr d h1 i hi href
  · rw [h1, he] at hi; cases hi

theorem NoRef_base (S : St) (base : List Def) (e : Def) (h : S.defs = base ++ [e]) (n : String)
    (hr : ∀ d ∈ base, ∀ i ∈ d.insts, i.ref ≠ n) (he : e.insts = []) : NoRef S n := by
  intro d hd i hi
  rw [h] at hd
  simp only [List.mem_append, List.mem_singleton] at hd
  rcases hd with h1 | h1
  · exact hr d h1 i hi
  · rw [h1, he] at hi; cases hi

theorem find_none_names (s : St) (n : String) (h : s.find n = none) : ∀ d ∈ s.defs, d.name ≠ n := by
  intro d hd e
  unfold St.find at h
  have := List.find?_eq_none.mp h d hd
  simp [e] at this

theorem Has_transfer (S S' : St) (base : List Def) (e e' : Def) (n : String) (d : Def)
    (h : S.defs = base ++ [e]) (h' : S'.defs = base ++ [e']) (hne : e.name ≠ n) (hne' : e'.name ≠ n)
    (hd : Has S n d) : Has S' n d := by
  obtain ⟨hm, hn, hu⟩ := hd
  rw [h] at hm hu
  have hmb : d ∈ base := by
    simp only [List.mem_append, List.mem_singleton] at hm
    rcases hm with h1 | h1
    · exact h1
    · rw [h1] at hn; exact absurd hn hne
  exact Has_base S' base e' h' n d ⟨hmb, hn, fun d' hd' => hu d' (List.mem_append_left _ hd')⟩ hne'

theorem RowsFull_transfer (S S' : St) (base : List Def) (e e' : Def) (ref : String) (k : Nat)
    (h : S.defs = base ++ [e]) (h' : S'.defs = base ++ [e']) (he' : e'.insts = [])
    (hr : RowsFull S ref k) : RowsFull S' ref k := by
  apply RowsFull_base S' base e' h' ref k _ he'
  intro d hd i hi href
  exact hr d (by rw [h]; exact List.mem_append_left _ hd) i hi href

/-- header, reorder, body of `elabModule`, from the state in which the (still empty) definition is the last entry -/
def elabTail (s3 : St) (name : String) (prim : Bool) (ports : List FPort) (wires : List FWire) (insts : List NInst) : M St := do
  let s ← (ports.map FPort.hport).foldlM (fun s h => match h.alias with
    | some e => headerAlias s name h e
    | none => headerPort s name h) s3
  let s ← reorderPorts s name ((ports.map FPort.hport).map (·.name))
  (wires.map FWire.item ++ insts.map NInst.item).foldlM (fun s it => elabItem s name prim it) s

set_option maxHeartbeats 400000 in
theorem elabTail_spec (s3 : St) (base : List Def) (name : String) (prim : Bool) (lib : Option String)
    (ports : List FPort) (wires : List FWire) (insts : List NInst) (built : List Inst)
    (hd3 : s3.defs = base ++ [⟨name, lib, false, [], none, [], [], []⟩])
    (hbase : ∀ d ∈ base, d.name ≠ name)
    (hnr : ∀ d ∈ base, ∀ i ∈ d.insts, i.ref ≠ name)
    (hleaf : ∀ i ∈ insts, i.mod ≠ name ∧ ∃ rd, Has s3 i.mod rd ∧ RowsFull s3 i.mod rd.ports.length)
    (hwn : (ports.map (·.name) ++ wires.map (·.name)).Nodup)
    (hin : (insts.map (·.name)).Nodup)
    (hprim : prim = true → wires = [] ∧ insts = [])
    (hbi : insts.mapM (buildInst s3.find ⟨name, lib, false, [], none, (buildPorts ports s3.next).1,
      (buildPorts ports s3.next).2.1 ++ (buildWires wires (buildPorts ports s3.next).2.2).1, []⟩) = some built) :
    ∃ s6, elabTail s3 name prim ports wires insts = .ok s6 ∧
      s6.defs = base ++ [⟨name, lib, false, [], none, (buildPorts ports s3.next).1,
        (buildPorts ports s3.next).2.1 ++ (buildWires wires (buildPorts ports s3.next).2.2).1, built⟩] ∧
      s6.next = (buildWires wires (buildPorts ports s3.next).2.2).2 ∧ s6.pending = s3.pending := by
  have hpn : (ports.map (·.name)).Nodup := (List.nodup_append.mp hwn).1
  have hwn2 : (wires.map (·.name)).Nodup := (List.nodup_append.mp hwn).2.1
  have hdisj : ∀ w ∈ wires, ∀ p ∈ ports, p.name ≠ w.name := by
    intro w hw p hp e
    exact (List.nodup_append.mp hwn).2.2 p.name (List.mem_map.mpr ⟨p, hp, rfl⟩) w.name (List.mem_map.mpr ⟨w, hw, rfl⟩) e
  generalize hE2 : (⟨name, lib, false, [], none, [], [], []⟩ : Def) = E2 at hd3
  have hE2n : E2.name = name := by rw [← hE2]
  have hbase' : ∀ d ∈ base, d.name ≠ E2.name := by rw [hE2n]; exact hbase
  have hE3 : Has s3 name E2 := hE2n ▸ Has_last s3 base E2 hd3 hbase'
  have hnr3 : NoRef s3 name := NoRef_base s3 base E2 hd3 name hnr (by rw [← hE2])
  -- the header
  have hhdr := header_fold name ports s3 E2 hE3 hnr3 (fun p _ => by rw [← hE2]; exact ⟨rfl, rfl⟩) hpn
  generalize hbp : buildPorts ports s3.next = bp at hhdr hbi ⊢
  generalize hg4 : (fun (x : Def) => ({ x with ports := x.ports ++ bp.1, cables := x.cables ++ bp.2.1 } : Def)) = g4 at hhdr
  have hg4n : ∀ x, (g4 x).name = x.name := by intro x; rw [← hg4]
  have hd4 : (withNext (s3.upd name g4) bp.2.2).defs = base ++ [g4 E2] := by
    have := defs_upd_last s3 base E2 g4 hd3 hbase'
    rw [hE2n] at this; exact this
  generalize hs4 : withNext (s3.upd name g4) bp.2.2 = s4 at hhdr hd4
  have hn4 : s4.next = bp.2.2 := by rw [← hs4]; rfl
  have hp4 : s4.pending = s3.pending := by rw [← hs4]; rfl
  have hbase4 : ∀ d ∈ base, d.name ≠ (g4 E2).name := by rw [hg4n, hE2n]; exact hbase
  have hE4 : Has s4 name (g4 E2) := by
    have := Has_last s4 base (g4 E2) hd4 hbase4
    rw [hg4n, hE2n] at this; exact this
  have hE4ports : (g4 E2).ports = bp.1 := by rw [← hg4, ← hE2]; simp
  have hE4cables : (g4 E2).cables = bp.2.1 := by rw [← hg4, ← hE2]; simp
  have hE4insts : (g4 E2).insts = [] := by rw [← hg4, ← hE2]
  -- reorderPorts changes nothing
  have hnames := buildPorts_names ports s3.next
  rw [hbp] at hnames
  have hro : reorderPorts s4 name ((ports.map FPort.hport).map (·.name)) = .ok s4 := by
    apply reorderPorts_id s4 name (g4 E2) _ hE4
    have e1 : (ports.map FPort.hport).map (·.name) = ports.map (·.name) := by rw [List.map_map]; rfl
    rw [e1]
    have := filterMap_portIdx bp.1 (ports.map (·.name)) (by rw [hnames.1, List.map_map]; rfl) hpn
    unfold portIdx
    rw [hE4ports]; exact this
  unfold elabTail
  simp only [bind, Except.bind]
  generalize hX : List.foldlM (m := Except String) _ s3 (List.map FPort.hport ports) = X
  have hX2 : X = .ok s4 := by rw [← hX]; exact hhdr
  rw [hX2]
  simp only [hro]
  cases prim with
  | true =>
    obtain ⟨hw0, hi0⟩ := hprim rfl
    subst hw0; subst hi0
    simp only [List.mapM_nil, pure, Option.some.injEq] at hbi
    subst hbi
    refine ⟨s4, rfl, ?_, ?_, hp4⟩
    · rw [hd4, ← hg4, ← hE2]; simp [buildWires]
    · rw [hn4]; rfl
  | false =>
    -- wire declarations
    have hfrw : ∀ w ∈ wires, (g4 E2).cables.find? (fun c => c.name == w.name) = none := by
      intro w hw
      rw [hE4cables, List.find?_eq_none]
      intro c hc
      have : c.name ∈ ports.map (·.name) := by rw [← hnames.2]; exact List.mem_map.mpr ⟨c, hc, rfl⟩
      obtain ⟨p, hp, hpe⟩ := List.mem_map.mp this
      have := hdisj w hw p hp
      simp only [beq_iff_eq]
      intro e; exact this (hpe.trans e)
    have hwf := wires_fold name wires s4 (g4 E2) hE4 hfrw hwn2
    rw [hn4] at hwf
    generalize hbw : buildWires wires bp.2.2 = bw at hwf hbi ⊢
    generalize hg5 : (fun (x : Def) => ({ x with cables := x.cables ++ bw.1 } : Def)) = g5 at hwf
    have hg5n : ∀ x, (g5 x).name = x.name := by intro x; rw [← hg5]
    have hd5 : (withNext (s4.upd name g5) bw.2).defs = base ++ [g5 (g4 E2)] := by
      have := defs_upd_last s4 base (g4 E2) g5 hd4 hbase4
      rw [hg4n, hE2n] at this; exact this
    generalize hs5 : withNext (s4.upd name g5) bw.2 = s5 at hwf hd5
    have hn5 : s5.next = bw.2 := by rw [← hs5]; rfl
    have hp5 : s5.pending = s3.pending := by rw [← hs5]; exact hp4
    have hname5 : (g5 (g4 E2)).name = name := by rw [hg5n, hg4n, hE2n]
    have hbase5 : ∀ d ∈ base, d.name ≠ (g5 (g4 E2)).name := by rw [hname5]; exact hbase
    have hE5 : Has s5 name (g5 (g4 E2)) := hname5 ▸ Has_last s5 base _ hd5 hbase5
    have hE5cables : (g5 (g4 E2)).cables = bp.2.1 ++ bw.1 := by rw [← hg5]; simp [hE4cables]
    have hE5insts : (g5 (g4 E2)).insts = [] := by rw [← hg5]; exact hE4insts
    have hE5ports : (g5 (g4 E2)).ports = bp.1 := by rw [← hg5]; exact hE4ports
    have hcn5 : ((g5 (g4 E2)).cables.map (·.name)).Nodup := by
      rw [hE5cables, List.map_append, hnames.2]
      have := buildWires_names wires bp.2.2
      rw [hbw] at this
      rw [this]; exact hwn
    have hleaf5 : ∀ i ∈ insts, i.mod ≠ name ∧ ∃ rd, Has s5 i.mod rd ∧ RowsFull s5 i.mod rd.ports.length := by
      intro i hi
      obtain ⟨hne, rd, hrd, hrf⟩ := hleaf i hi
      exact ⟨hne, rd, Has_transfer s3 s5 base E2 _ i.mod rd hd3 hd5 (by rw [hE2n]; exact fun e => hne e.symm)
        (by rw [hname5]; exact fun e => hne e.symm) hrd,
        RowsFull_transfer s3 s5 base E2 _ i.mod _ hd3 hd5 hE5insts hrf⟩
    have hfresh5 : ∀ i ∈ insts, instIdx (g5 (g4 E2)) i.name = none := by
      intro i _; unfold instIdx; rw [hE5insts]; rfl
    have hb5 : insts.mapM (buildInst s5.find (g5 (g4 E2))) = some built := by
      rw [← hbi]
      apply mapM_option_congr
      intro i hi
      obtain ⟨hne, rd, hrd, _⟩ := hleaf i hi
      apply buildInst_congr
      · rw [(hleaf5 i hi).2.choose_spec.1.find]
        have h5 := (hleaf5 i hi).2.choose_spec.1
        have e : (hleaf5 i hi).2.choose = rd := by
          have hm := h5.1; rw [hd5] at hm
          have hmb : (hleaf5 i hi).2.choose ∈ base := by
            simp only [List.mem_append, List.mem_singleton] at hm
            rcases hm with h1 | h1
            · exact h1
            · have := h5.2.1; rw [h1, hname5] at this; exact absurd this.symm hne
          exact hrd.2.2 _ (by rw [hd3]; exact List.mem_append_left _ hmb) h5.2.1
        rw [e, hrd.find]
      · exact hE5cables
    obtain ⟨s6, h6, hd6, hn6, hp6, _⟩ := instances_fold name insts s5 (g5 (g4 E2)) built hE5 hcn5 hleaf5 hin hfresh5 hb5
    refine ⟨s6, ?_, ?_, by rw [hn6, hn5], by rw [hp6, hp5]⟩
    · rw [List.foldlM_append, hwf]
      exact h6
    · rw [hd6, hd5]
      simp only [List.map_append, List.map_cons, List.map_nil, hname5, beq_self_eq_true, if_true]
      congr 1
      · conv => rhs; rw [← List.map_id base]
        apply List.map_congr_left
        intro d hd
        simp [hbase d hd]
      · rw [← hg5, ← hg4, ← hE2]; simp

/-- the state after the name has entered the table, the library is set and the top / assignment counter are adjusted -/
def afterEntry (s : St) (name : String) (prim : Bool) : St :=
  let s2 := ({ s with defs := s.defs ++ [⟨name, none, false, [], none, [], [], []⟩] } : St).upd name
    (fun d => { d with lib := some (if prim then "hdi_primitives" else "work") })
  if prim then s2 else { (if s2.top.isNone then { s2 with top := some name } else s2) with acount := 0 }

theorem elabModule_eq_tail (s : St) (m : FMod) (hfresh : s.find m.name = none) :
    elabModule s m.toModule = elabTail (afterEntry s m.name m.prim) m.name m.prim m.ports m.wires m.insts := by
  have hbase := find_none_names s m.name hfresh
  have hens : s.ensure m.name = { s with defs := s.defs ++ [⟨m.name, none, false, [], none, [], [], []⟩] } := by
    unfold St.ensure; rw [hfresh]
  have hE1 : Has ({ s with defs := s.defs ++ [⟨m.name, none, false, [], none, [], [], []⟩] } : St) m.name
      ⟨m.name, none, false, [], none, [], [], []⟩ := Has_last _ s.defs _ rfl hbase
  unfold elabModule FMod.toModule
  simp only [hens, bind, Except.bind, getDef_has hE1, Option.isSome_none, Bool.false_eq_true, if_false,
    List.isEmpty_nil, if_true]
  unfold elabTail afterEntry
  simp only [bind, Except.bind]
  cases hX : List.foldlM (m := Except String) _ _ (List.map FPort.hport m.ports) with
  | error e => rfl
  | ok v =>
    simp only
    cases reorderPorts v m.name (List.map (fun x => x.name) (List.map FPort.hport m.ports)) with
    | error e => rfl
    | ok v2 =>
      simp only
      cases List.foldlM (m := Except String) (fun s it => elabItem s m.name m.prim it) v2
          (List.map FWire.item m.wires ++ List.map NInst.item m.insts) <;> rfl

theorem afterEntry_defs (s : St) (name : String) (prim : Bool) (hb : ∀ d ∈ s.defs, d.name ≠ name) :
    (afterEntry s name prim).defs = s.defs ++ [⟨name, some (libOf prim), false, [], none, [], [], []⟩] ∧
    (afterEntry s name prim).next = s.next ∧ (afterEntry s name prim).pending = s.pending := by
  have h2 : (({ s with defs := s.defs ++ [⟨name, none, false, [], none, [], [], []⟩] } : St).upd name
      (fun d => { d with lib := some (if prim then "hdi_primitives" else "work") })).defs
      = s.defs ++ [⟨name, some (libOf prim), false, [], none, [], [], []⟩] :=
    defs_upd_last _ s.defs ⟨name, none, false, [], none, [], [], []⟩ _ rfl hb
  unfold afterEntry
  simp only
  cases prim with
  | true => exact ⟨h2, rfl, rfl⟩
  | false =>
    simp only [Bool.false_eq_true, if_false]
    refine ⟨?_, ?_, ?_⟩
    · split <;> exact h2
    · split <;> rfl
    · split <;> rfl

/-- **elabModule_frag.**  One module of the fragment, elaborated (the real `elabModule`) into a table that does
    not know its name yet and in which nobody instances it, all instantiated modules being present: the table
    gains exactly the definition `buildDef` computes; nothing is deferred. -/
theorem elabModule_frag (s : St) (m : FMod) (D : Def) (n' : Nat)
    (hfresh : s.find m.name = none) (hnr : NoRef s m.name)
    (hleaf : ∀ i ∈ m.insts, i.mod ≠ m.name ∧ ∃ rd, Has s i.mod rd ∧ RowsFull s i.mod rd.ports.length)
    (hwn : (m.ports.map (·.name) ++ m.wires.map (·.name)).Nodup)
    (hin : (m.insts.map (·.name)).Nodup)
    (hprim : m.prim = true → m.wires = [] ∧ m.insts = [])
    (hb : buildDef s.find s.next m = some (D, n')) :
    ∃ s', elabModule s m.toModule = .ok s' ∧ s'.defs = s.defs ++ [D] ∧ s'.next = n' ∧ s'.pending = s.pending := by
  have hbase := find_none_names s m.name hfresh
  obtain ⟨hd3, hn3, hp3⟩ := afterEntry_defs s m.name m.prim hbase
  unfold buildDef at hb
  simp only at hb
  cases hbi : m.insts.mapM (buildInst s.find ⟨m.name, some (libOf m.prim), false, [], none, (buildPorts m.ports s.next).1,
      (buildPorts m.ports s.next).2.1 ++ (buildWires m.wires (buildPorts m.ports s.next).2.2).1, []⟩) with
  | none => simp [hbi] at hb
  | some built =>
    simp only [hbi, Option.map_some, Option.some.injEq, Prod.mk.injEq] at hb
    obtain ⟨hD, hn'⟩ := hb
    have hleaf3 : ∀ i ∈ m.insts, i.mod ≠ m.name ∧ ∃ rd, Has (afterEntry s m.name m.prim) i.mod rd ∧
        RowsFull (afterEntry s m.name m.prim) i.mod rd.ports.length := by
      intro i hi
      obtain ⟨hne, rd, hrd, hrf⟩ := hleaf i hi
      refine ⟨hne, rd, Has_base _ s.defs _ hd3 i.mod rd hrd (fun e => hne e.symm), ?_⟩
      exact RowsFull_base _ s.defs _ hd3 i.mod _ hrf rfl
    have hbi3 : m.insts.mapM (buildInst (afterEntry s m.name m.prim).find ⟨m.name, some (libOf m.prim), false, [], none,
        (buildPorts m.ports (afterEntry s m.name m.prim).next).1,
        (buildPorts m.ports (afterEntry s m.name m.prim).next).2.1 ++
          (buildWires m.wires (buildPorts m.ports (afterEntry s m.name m.prim).next).2.2).1, []⟩) = some built := by
      rw [hn3, ← hbi]
      apply mapM_option_congr
      intro i hi
      apply buildInst_congr _ _ _ _ _ _ rfl
      obtain ⟨hne, rd, hrd, _⟩ := hleaf i hi
      rw [hrd.find, (hleaf3 i hi).2.choose_spec.1.find]
      congr 1
      have h3 := (hleaf3 i hi).2.choose_spec.1
      have hm := h3.1; rw [hd3] at hm
      simp only [List.mem_append, List.mem_singleton] at hm
      rcases hm with h1 | h1
      · exact hrd.2.2 _ h1 h3.2.1
      · have := h3.2.1; rw [h1] at this; exact absurd this.symm hne
    obtain ⟨s6, h6, hd6, hn6, hp6⟩ := elabTail_spec (afterEntry s m.name m.prim) s.defs m.name m.prim (some (libOf m.prim))
      m.ports m.wires m.insts built hd3 hbase hnr hleaf3 hwn hin hprim hbi3
    refine ⟨s6, ?_, ?_, ?_, ?_⟩
    · rw [elabModule_eq_tail s m hfresh]; exact h6
    · rw [hd6, hn3, ← hD]
    · rw [hn6, hn3]; exact hn'
    · rw [hp6, hp3]
end Spydr.Verilog.Elab
