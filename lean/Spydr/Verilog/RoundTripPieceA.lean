/-
  Verilog engine — proof side, part 27: the rendering as a list of pieces, expressions and attribute groups: characters and
  tokens of the pieces.
-/
import Spydr.Verilog.RoundTripLexB
set_option maxHeartbeats 800000
namespace Spydr.Verilog.Elab
open Spydr.Verilog
open Spydr.Verilog.Text (fixName showInt)

/-! ### the rendering as a list of pieces -/

def pchars (ps : List Piece) : List Char := ps.flatMap Piece.chars
def ptoks (ps : List Piece) : List String := ps.flatMap Piece.toks

theorem pchars_append (a b : List Piece) : pchars (a ++ b) = pchars a ++ pchars b := by simp [pchars]
theorem ptoks_append (a b : List Piece) : ptoks (a ++ b) = ptoks a ++ ptoks b := by simp [ptoks]
theorem pchars_cons (p : Piece) (a : List Piece) : pchars (p :: a) = p.chars ++ pchars a := by simp [pchars]
theorem ptoks_cons (p : Piece) (a : List Piece) : ptoks (p :: a) = p.toks ++ ptoks a := by simp [ptoks]
theorem pchars_nil : pchars [] = [] := rfl
theorem ptoks_nil : ptoks [] = [] := rfl

theorem flatMap_intercalate {α β : Type} (f : α → List β) (sep : List α) : ∀ (xs : List (List α)),
    (List.intercalate sep xs).flatMap f = List.intercalate (sep.flatMap f) (xs.map (fun x => x.flatMap f))
  | [] => by simp [List.intercalate]
  | [x] => by simp [List.intercalate]
  | x :: y :: t => by
    have ih := flatMap_intercalate f sep (y :: t)
    simp only [List.intercalate, List.intersperse, List.flatten_cons, List.flatMap_append, List.map_cons] at ih ⊢
    rw [ih]

theorem pchars_intercalate (sep : List Piece) (xs : List (List Piece)) :
    pchars (List.intercalate sep xs) = List.intercalate (pchars sep) (xs.map pchars) :=
  flatMap_intercalate Piece.chars sep xs

theorem ptoks_intercalate (sep : List Piece) (xs : List (List Piece)) :
    ptoks (List.intercalate sep xs) = List.intercalate (ptoks sep) (xs.map ptoks) :=
  flatMap_intercalate Piece.toks sep xs

/-- white space -/
def W1 : List Piece := [.ws ' ']
def W4 : List Piece := [.ws ' ', .ws ' ', .ws ' ', .ws ' ']
def W8 : List Piece := W4 ++ W4
def NL : List Piece := [.ws '\n']

theorem chars_W1 : pchars W1 = " ".toList := by decide
theorem chars_W4 : pchars W4 = "    ".toList := by decide
theorem chars_W8 : pchars W8 = "        ".toList := by decide
theorem chars_NL : pchars NL = "\n".toList := by decide
theorem toks_W1 : ptoks W1 = [] := rfl
theorem toks_W4 : ptoks W4 = [] := rfl
theorem toks_W8 : ptoks W8 = [] := rfl
theorem toks_NL : ptoks NL = [] := rfl

def T (s : String) : List Piece := [.tok s]
theorem chars_T (s : String) : pchars (T s) = s.toList := by simp [pchars, T, Piece.chars]
theorem toks_T (s : String) : ptoks (T s) = [s] := by simp [ptoks, T, Piece.toks]

/-- a name as written: an escaped identifier (`\\name `) ends by itself at its blank, any other name is a word -/
def N (s : String) : List Piece := if s.startsWith "\\" then [.self s s] else T s
theorem chars_N (s : String) : pchars (N s) = s.toList := by
  unfold N; split <;> simp [pchars, T, Piece.chars]
theorem toks_N (s : String) : ptoks (N s) = [s] := by
  unfold N; split <;> simp [ptoks, T, Piece.toks]

/-! expressions -/

def atomP : Atom → List Piece
  | .id n => N (fixName n)
  | .bit n i => N (fixName n) ++ T "[" ++ T (showInt i) ++ T "]"
  | .part n l r => N (fixName n) ++ T "[" ++ T (showInt l) ++ T ":" ++ T (showInt r) ++ T "]"

theorem chars_atomP (a : Atom) : pchars (atomP a) = (Text.atomText a).toList := by
  cases a <;> simp [atomP, Text.atomText, pchars_append, chars_T, chars_N, String.toList_append]

theorem toks_atomP (a : Atom) : ptoks (atomP a) = atomToks (toX a) := by
  cases a <;> simp [atomP, atomToks, toX, ptoks_append, toks_T, toks_N, nameT]

def exprP : PExpr → List Piece
  | .empty => []
  | .atom a => atomP a
  | .concat as => T "{" ++ List.intercalate (T "," ++ W1) (as.map atomP) ++ T "}"

theorem chars_exprP (e : PExpr) : pchars (exprP e) = (peText e).toList := by
  cases e with
  | empty => rfl
  | atom a => exact chars_atomP a
  | concat as =>
    simp only [exprP, peText, Text.concatText, pchars_append, chars_T, chars_N, String.toList_append, pchars_intercalate,
      String.toList_intercalate, chars_W1, List.map_map]
    congr 2
    congr 1
    apply List.map_congr_left
    intro a _
    exact chars_atomP a

theorem sepToks_eq : ∀ (as : List XAtom), sepToks as = List.intercalate [","] (as.map atomToks)
  | [] => by simp [sepToks, List.intercalate]
  | [a] => by simp [sepToks, List.intercalate]
  | a :: b :: t => by
    have ih := sepToks_eq (b :: t)
    simp only [sepToks, List.intercalate, List.intersperse, List.map_cons, List.flatten_cons] at ih ⊢
    rw [ih]; simp

theorem toks_exprP (e : PExpr) : ptoks (exprP e) = exprToks (toXE e) := by
  cases e with
  | empty => rfl
  | atom a => exact toks_atomP a
  | concat as =>
    simp only [exprP, toXE, exprToks, ptoks_append, toks_T, toks_N, ptoks_intercalate, toks_W1, List.append_nil, List.map_map,
      sepToks_eq, List.singleton_append, List.cons_append, List.nil_append]
    have : as.map (ptoks ∘ atomP) = as.map (atomToks ∘ toX) := by
      apply List.map_congr_left
      intro a _
      exact toks_atomP a
    rw [this]

/-! attributes -/

def valP (v : String) : List Piece := if v.toList.head? == some '"' then [.self v v] else T v

theorem chars_valP (v : String) : pchars (valP v) = v.toList := by
  unfold valP; split <;> simp [pchars, T, Piece.chars]

theorem toks_valP (v : String) : ptoks (valP v) = [v] := by
  unfold valP; split <;> simp [ptoks, T, Piece.toks]

def attrP (kv : String × Option String) : List Piece :=
  match kv.2 with
  | none => T kv.1
  | some v => T kv.1 ++ W1 ++ T "=" ++ W1 ++ valP v

def starP (a : Attrs) : List Piece :=
  if a.isEmpty then [] else T "(" ++ T "*" ++ W1 ++ List.intercalate (T "," ++ W1) (a.map attrP) ++ W1 ++ T "*" ++ T ")" ++ NL

def itemText (kv : String × Option String) : String :=
  match kv.2 with
  | some v => kv.1 ++ " = " ++ v
  | none => kv.1

theorem chars_attrP (kv : String × Option String) : pchars (attrP kv) = (itemText kv).toList := by
  obtain ⟨k, v⟩ := kv
  cases v with
  | none => simp [attrP, itemText, chars_T, chars_N]
  | some v =>
    simp only [attrP, itemText, pchars_append, chars_T, chars_N, chars_W1, chars_valP, String.toList_append]
    have : " = ".toList = " ".toList ++ "=".toList ++ " ".toList := by decide
    rw [this]; simp

theorem starText_eq (a : Attrs) (h : a ≠ []) : starText a = "(* " ++ ", ".intercalate (a.map itemText) ++ " *)\n" := by
  cases a with
  | nil => exact absurd rfl h
  | cons kv rest => rfl

theorem chars_starP (a : Attrs) : pchars (starP a) = (starText a).toList := by
  cases a with
  | nil => rfl
  | cons kv rest =>
    rw [starText_eq _ (by simp)]
    unfold starP
    simp only [List.isEmpty_cons, Bool.false_eq_true, if_false, pchars_append, chars_T, chars_N, chars_W1, chars_NL,
      pchars_intercalate, String.toList_append, String.toList_intercalate, List.map_map]
    have h1 : "(* ".toList = "(".toList ++ "*".toList ++ " ".toList := by decide
    have h2 : " *)\n".toList = " ".toList ++ "*".toList ++ ")".toList ++ "\n".toList := by decide
    have h3 : ", ".toList = ",".toList ++ " ".toList := by decide
    rw [h1, h2, h3]
    have hm : (kv :: rest).map (pchars ∘ attrP) = (kv :: rest).map (String.toList ∘ itemText) := by
      apply List.map_congr_left
      intro x _
      exact chars_attrP x
    rw [hm]
    simp [List.append_assoc]

theorem sepAttr_eq : ∀ (a : Attrs), sepAttr a = List.intercalate [","] (a.map attrToks)
  | [] => by simp [sepAttr, List.intercalate]
  | [a] => by simp [sepAttr, List.intercalate]
  | a :: b :: t => by
    have ih := sepAttr_eq (b :: t)
    simp only [sepAttr, List.intercalate, List.intersperse, List.map_cons, List.flatten_cons] at ih ⊢
    rw [ih]; simp

theorem toks_attrP (kv : String × Option String) : ptoks (attrP kv) = attrToks kv := by
  obtain ⟨k, v⟩ := kv
  cases v <;> simp [attrP, attrToks, ptoks_append, toks_T, toks_N, toks_W1, toks_valP]

theorem toks_starP (a : Attrs) : ptoks (starP a) = starToks a := by
  unfold starP starToks
  cases a with
  | nil => rfl
  | cons kv rest =>
    simp only [List.isEmpty_cons, Bool.false_eq_true, if_false, ptoks_append, toks_T, toks_N, toks_W1, toks_NL, ptoks_intercalate,
      List.append_nil, List.map_map, sepAttr_eq, List.nil_append]
    have hm : (kv :: rest).map (ptoks ∘ attrP) = (kv :: rest).map attrToks := by
      apply List.map_congr_left
      intro x _
      exact toks_attrP x
    rw [hm]
    simp
end Spydr.Verilog.Elab
