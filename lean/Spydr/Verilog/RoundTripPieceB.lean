/-
  Verilog engine — proof side, part 28: pieces of declarations, connections and parameter maps.
-/
import Spydr.Verilog.RoundTripPieceA
set_option maxHeartbeats 800000
namespace Spydr.Verilog.Elab
open Spydr.Verilog
open Spydr.Verilog.Text (fixName showInt)

/-! declarations -/

def brP : Option (Int × Int) → List Piece
  | none => []
  | some (a, b) => T "[" ++ T (showInt a) ++ T ":" ++ T (showInt b) ++ T "]"

theorem chars_brP (r : Option (Int × Int)) : pchars (brP r) = (brText r).toList := by
  cases r with
  | none => rfl
  | some p => obtain ⟨a, b⟩ := p; simp [brP, brText, pchars_append, chars_T, chars_N, String.toList_append]

theorem toks_brP (r : Option (Int × Int)) : ptoks (brP r) = rangeToks r := by
  cases r with
  | none => rfl
  | some p => obtain ⟨a, b⟩ := p; simp [brP, rangeToks, ptoks_append, toks_T, toks_N]

def portP (p : PDecl) : List Piece :=
  starP p.attrs ++ W4 ++ T (dirStr p.dir) ++ W1 ++ brP p.rng ++ N (fixName p.name) ++ T ";" ++ NL

theorem chars_portP (p : PDecl) : pchars (portP p) = (portLine p).toList := by
  simp only [portP, portLine, pchars_append, chars_starP, chars_W4, chars_W1, chars_T, chars_N, chars_brP, chars_NL,
    String.toList_append]
  have : ";\n".toList = ";".toList ++ "\n".toList := by decide
  rw [this]; simp [List.append_assoc]

theorem dirStr_tok (d : Dir) (h : d ≠ .undef) : dirStr d = dirTok d := by
  cases d <;> first | rfl | exact absurd rfl h

theorem toks_portP (p : PDecl) (h : p.dir ≠ .undef) : ptoks (portP p) = (SItem.port p).toks := by
  simp only [portP, SItem.toks, SItem.attrs, SItem.core, portCore, ptoks_append, toks_starP, toks_W4, toks_W1, toks_T, toks_N,
    toks_brP, toks_NL, dirStr_tok p.dir h, nameT]
  simp

def wireP (w : FWire) : List Piece :=
  starP w.attrs ++ W4 ++ T w.ty ++ W1 ++ brP w.rng ++ N (fixName w.name) ++ T ";" ++ NL

theorem chars_wireP (w : FWire) : pchars (wireP w) = (wireLine w).toList := by
  simp only [wireP, wireLine, pchars_append, chars_starP, chars_W4, chars_W1, chars_T, chars_N, chars_brP, chars_NL,
    String.toList_append]
  have : ";\n".toList = ";".toList ++ "\n".toList := by decide
  rw [this]; simp [List.append_assoc]

theorem toks_wireP (w : FWire) : ptoks (wireP w) = (SItem.wire w).toks := by
  simp only [wireP, SItem.toks, SItem.attrs, SItem.core, ptoks_append, toks_starP, toks_W4, toks_W1, toks_T, toks_N,
    toks_brP, toks_NL, nameT]
  simp

/-! instances -/

def connP (c : String × PExpr) : List Piece := W8 ++ T "." ++ N (fixName c.1) ++ T "(" ++ exprP c.2 ++ T ")"

theorem chars_connP (c : String × PExpr) : pchars (connP c) = (connLine c).toList := by
  simp only [connP, connLine, pchars_append, chars_W8, chars_T, chars_N, chars_exprP, String.toList_append]
  have : "        .".toList = "        ".toList ++ ".".toList := by decide
  rw [this]

theorem toks_connP (c : String × PExpr) : ptoks (connP c) = connToks (c.1, toXE c.2) := by
  simp only [connP, connToks, ptoks_append, toks_W8, toks_T, toks_N, toks_exprP, nameT]
  simp

def paramP1 (kv : String × String) : List Piece := W8 ++ T "." ++ T kv.1 ++ T "(" ++ valP kv.2 ++ T ")"

def paramP (ps : Params) : List Piece :=
  if ps.isEmpty then [] else
    T "#" ++ T "(" ++ NL ++ List.intercalate (T "," ++ NL) (ps.map paramP1) ++ NL ++ W4 ++ T ")" ++ NL ++ W4

theorem chars_paramP (ps : Params) : pchars (paramP ps) = (paramText ps).toList := by
  unfold paramP paramText Text.instParamsText
  cases ps with
  | nil => rfl
  | cons kv rest =>
    simp only [List.isEmpty_cons, Bool.false_eq_true, if_false, pchars_append, chars_T, chars_N, chars_NL, chars_W4,
      pchars_intercalate, String.toList_append, String.toList_intercalate, List.map_map]
    have h1 : "#(\n".toList = "#".toList ++ "(".toList ++ "\n".toList := by decide
    have h2 : "\n    )\n".toList = "\n".toList ++ "    ".toList ++ ")".toList ++ "\n".toList := by decide
    have h3 : ",\n".toList = ",".toList ++ "\n".toList := by decide
    rw [h1, h2, h3]
    have hm : (kv :: rest).map (pchars ∘ paramP1) = (kv :: rest).map (String.toList ∘ fun (kv : String × String) =>
        "        ." ++ kv.1 ++ "(" ++ kv.2 ++ ")") := by
      apply List.map_congr_left
      intro x _
      simp only [Function.comp, paramP1, pchars_append, chars_W8, chars_T, chars_N, chars_valP, String.toList_append]
      have : "        .".toList = "        ".toList ++ ".".toList := by decide
      rw [this]
    rw [hm]
    simp [List.append_assoc]

theorem sepParams_eq : ∀ (a : Params), sepParams a = List.intercalate [","] (a.map paramToks1)
  | [] => by simp [sepParams, List.intercalate]
  | [a] => by simp [sepParams, List.intercalate]
  | a :: b :: t => by
    have ih := sepParams_eq (b :: t)
    simp only [sepParams, List.intercalate, List.intersperse, List.map_cons, List.flatten_cons] at ih ⊢
    rw [ih]; simp

theorem toks_paramP (ps : Params) : ptoks (paramP ps) = paramToks ps := by
  unfold paramP paramToks
  cases ps with
  | nil => rfl
  | cons kv rest =>
    simp only [List.isEmpty_cons, Bool.false_eq_true, if_false, ptoks_append, toks_T, toks_N, toks_NL, toks_W4, ptoks_intercalate,
      List.append_nil, List.map_map, sepParams_eq]
    have hm : (kv :: rest).map (ptoks ∘ paramP1) = (kv :: rest).map paramToks1 := by
      apply List.map_congr_left
      intro x _
      simp [paramP1, paramToks1, ptoks_append, toks_W8, toks_T, toks_N, toks_valP]
    rw [hm]
    simp
end Spydr.Verilog.Elab
