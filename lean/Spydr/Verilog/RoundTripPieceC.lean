/-
  Verilog engine — proof side, part 29: pieces of instances, of the module and of the file; `lexR_of_pieces`: the
  character-level clause follows from per-piece conditions (no run of the automaton over the whole text).
-/
import Spydr.Verilog.RoundTripPieceB
set_option maxHeartbeats 1600000
namespace Spydr.Verilog.Elab
open Spydr.Verilog
open Spydr.Verilog.Text (fixName showInt)

theorem toList_join : ∀ (l : List String), (String.join l).toList = l.flatMap String.toList
  | [] => by simp [join_nil]
  | a :: l => by rw [join_cons, String.toList_append, toList_join l]; simp

theorem pchars_flatten (xs : List (List Piece)) : pchars xs.flatten = (xs.map pchars).flatten := by
  induction xs with
  | nil => rfl
  | cons x xs ih => simp [pchars_append, ih]

theorem ptoks_flatten (xs : List (List Piece)) : ptoks xs.flatten = (xs.map ptoks).flatten := by
  induction xs with
  | nil => rfl
  | cons x xs ih => simp [ptoks_append, ih]

def instP (i : PInst) : List Piece :=
  starP i.attrs ++ W4 ++ N (fixName i.mod) ++ W1 ++ paramP i.params ++ N (fixName i.name) ++ NL ++
    (W4 ++ T "(" ++ NL ++ List.intercalate (T "," ++ NL) (i.conns.map connP) ++ NL ++ W4 ++ T ")" ++ T ";") ++ NL

theorem chars_instP (i : PInst) : pchars (instP i) = (instLine i).toList := by
  simp only [instP, instLine, pchars_append, chars_starP, chars_W4, chars_W1, chars_T, chars_N, chars_paramP, chars_NL,
    pchars_intercalate, String.toList_append, String.toList_intercalate, List.map_map]
  have h1 : "    (\n".toList = "    ".toList ++ "(".toList ++ "\n".toList := by decide
  have h2 : "\n    );".toList = "\n".toList ++ "    ".toList ++ ")".toList ++ ";".toList := by decide
  have h3 : ",\n".toList = ",".toList ++ "\n".toList := by decide
  rw [h1, h2, h3]
  have hm : i.conns.map (pchars ∘ connP) = i.conns.map (String.toList ∘ connLine) := by
    apply List.map_congr_left
    intro x _
    exact chars_connP x
  rw [hm]
  simp [List.append_assoc]

theorem sepConns_eq : ∀ (a : List (String × XExpr)), sepConns a = List.intercalate [","] (a.map connToks)
  | [] => by simp [sepConns, List.intercalate]
  | [a] => by simp [sepConns, List.intercalate]
  | a :: b :: t => by
    have ih := sepConns_eq (b :: t)
    simp only [sepConns, List.intercalate, List.intersperse, List.map_cons, List.flatten_cons] at ih ⊢
    rw [ih]; simp

theorem toks_instP (i : PInst) : ptoks (instP i) = (SItem.inst i.toN).toks := by
  simp only [instP, SItem.toks, SItem.attrs, SItem.core, PInst.toN, instCore, ptoks_append, toks_starP, toks_W4, toks_W1,
    toks_T, toks_N, toks_paramP, toks_NL, ptoks_intercalate, List.append_nil, List.map_map, sepConns_eq, nameT]
  have hm : i.conns.map (ptoks ∘ connP) = i.conns.map (connToks ∘ fun c => (c.1, toXE c.2)) := by
    apply List.map_congr_left
    intro x _
    exact toks_connP x
  rw [hm]
  simp

/-! the module and the file -/

def modP (m : WModP) : List Piece :=
  starP m.attrs ++
    (T "module" ++ W1 ++ N (fixName m.name) ++ NL ++ T "(" ++
      List.intercalate (T ",") (m.ports.map (fun p => NL ++ W4 ++ N (fixName p.name))) ++ NL ++ T ")" ++ T ";" ++ NL ++ NL) ++
    ((m.ports.map portP).flatten ++ NL) ++
    (((m.wires.map wireP).flatten ++ NL) ++ (m.insts.map instP).flatten) ++
    T "endmodule" ++ NL ++ NL

theorem chars_modP (m : WModP) : pchars (modP m) = (renderMod m).toList := by
  simp only [modP, renderMod, pchars_append, chars_starP, chars_T, chars_N, chars_W1, chars_NL, pchars_intercalate, pchars_flatten,
    String.toList_append, String.toList_intercalate, toList_join, List.map_map]
  have h1 : "module ".toList = "module".toList ++ " ".toList := by decide
  have h2 : "\n);\n".toList = "\n".toList ++ ")".toList ++ ";".toList ++ "\n".toList := by decide
  have h3 : "\n\n".toList = "\n".toList ++ "\n".toList := by decide
  have h4 : "".toList = [] := rfl
  rw [h1, h2, h3, h4]
  have hm1 : m.ports.map (pchars ∘ fun p => NL ++ W4 ++ N (fixName p.name)) =
      m.ports.map (String.toList ∘ (fun s => "\n" ++ s) ∘ fun p => "    " ++ fixName p.name) := by
    apply List.map_congr_left
    intro p _
    simp only [Function.comp, pchars_append, chars_NL, chars_W4, chars_T, chars_N, String.toList_append, List.append_assoc]
  have hm2 : m.ports.map (pchars ∘ portP) = m.ports.map (String.toList ∘ portLine) := by
    apply List.map_congr_left; intro p _; exact chars_portP p
  have hm3 : m.wires.map (pchars ∘ wireP) = m.wires.map (String.toList ∘ wireLine) := by
    apply List.map_congr_left; intro p _; exact chars_wireP p
  have hm4 : m.insts.map (pchars ∘ instP) = m.insts.map (String.toList ∘ instLine) := by
    apply List.map_congr_left; intro p _; exact chars_instP p
  rw [hm1, hm2, hm3, hm4]
  simp [List.append_assoc, List.flatMap, Function.comp_def]

theorem sepNames_eq : ∀ (a : List String), sepNames a = List.intercalate [","] (a.map (fun x => [nameT x]))
  | [] => by simp [sepNames, List.intercalate]
  | [a] => by simp [sepNames, List.intercalate]
  | a :: b :: t => by
    have ih := sepNames_eq (b :: t)
    simp only [sepNames, List.intercalate, List.intersperse, List.map_cons, List.flatten_cons] at ih ⊢
    rw [ih]; simp

theorem toks_modP (m : WModP) (hd : ∀ p ∈ m.ports, p.dir ≠ .undef) : ptoks (modP m) = tokensOf m.toI := by
  simp only [modP, tokensOf, modToks, WModP.toI, WModI.sitems, ptoks_append, toks_starP, toks_T, toks_N, toks_W1, toks_NL,
    ptoks_intercalate, ptoks_flatten, List.append_nil, List.map_map, sepNames_eq, List.flatMap_append, List.nil_append]
  have hm1 : m.ports.map (ptoks ∘ fun p => NL ++ W4 ++ N (fixName p.name)) =
      m.ports.map ((fun x => [nameT x]) ∘ fun p => p.name) := by
    apply List.map_congr_left
    intro p _
    simp [ptoks_append, toks_NL, toks_W4, toks_T, toks_N, nameT]
  have hm2 : (m.ports.map (ptoks ∘ portP)).flatten = (m.ports.map SItem.port).flatMap SItem.toks := by
    rw [List.flatMap_def, List.map_map]
    congr 1
    apply List.map_congr_left
    intro p hp
    exact toks_portP p (hd p hp)
  have hm3 : (m.wires.map (ptoks ∘ wireP)).flatten = (m.wires.map SItem.wire).flatMap SItem.toks := by
    rw [List.flatMap_def, List.map_map]
    congr 1
    apply List.map_congr_left
    intro p _
    exact toks_wireP p
  have hm4 : (m.insts.map (ptoks ∘ instP)).flatten = ((m.insts.map PInst.toN).map SItem.inst).flatMap SItem.toks := by
    rw [List.flatMap_def, List.map_map, List.map_map]
    congr 1
    apply List.map_congr_left
    intro p _
    exact toks_instP p
  rw [hm1, hm2, hm3, hm4]
  simp [List.append_assoc, nameT]

/-- the pieces of the whole file: the two comment lines of the header, then the module -/
def fileP (n : Text.WNet) (m : WModP) : List Piece :=
  [.self "//Generated from netlist by SpyDrNet\n" "//Generated from netlist by SpyDrNet",
   .self ("//netlist name: " ++ fixName n.name ++ "\n") ("//netlist name: " ++ fixName n.name)] ++ modP m

theorem header_lit : "//Generated from netlist by SpyDrNet\n//netlist name: " =
    "//Generated from netlist by SpyDrNet\n" ++ "//netlist name: " := by decide +kernel

theorem fileHeader_split (n : Text.WNet) : fileHeader n =
    "//Generated from netlist by SpyDrNet\n" ++ ("//netlist name: " ++ fixName n.name ++ "\n") := by
  unfold fileHeader
  rw [header_lit]
  simp only [String.append_assoc]

theorem chars_fileP (n : Text.WNet) (m : WModP) : pchars (fileP n m) = (fileHeader n ++ renderMod m).toList := by
  rw [fileHeader_split]
  unfold fileP
  rw [pchars_append, chars_modP]
  simp only [pchars_cons, pchars_nil, Piece.chars, String.toList_append, List.append_nil, List.append_assoc]

/-- **lexR_of_pieces.**  The character-level clause from per-piece conditions: if every piece of the rendering passes its
    own check, no word runs into the next piece, and the tokens are clean, the lexer splits the rendering into the two
    header comments followed by exactly `tokensOf`. -/
theorem lexR_of_pieces (n : Text.WNet) (m : WModP) (hd : ∀ p ∈ m.ports, p.dir ≠ .undef)
    (hok : (fileP n m).all Piece.ok = true) (hadj : adjOK (fileP n m) = true)
    (hc2 : Text.isCommentTok ("//netlist name: " ++ fixName n.name) = true)
    (hclean : cleanToks (tokensOf m.toI) = true) : lexR n m = true := by
  have hlex := lexV_pieces (fileHeader n ++ renderMod m) (fileP n m) (chars_fileP n m).symm hadj
    (fun p hp => List.all_eq_true.mp hok p hp)
  unfold lexR
  rw [hlex]
  have ht : (fileP n m).flatMap Piece.toks =
      ["//Generated from netlist by SpyDrNet", "//netlist name: " ++ fixName n.name] ++ tokensOf m.toI := by
    have := toks_modP m hd
    unfold ptoks at this
    simp only [fileP, List.cons_append, List.nil_append, List.flatMap_cons, Piece.toks, this]
  rw [ht]
  have hc1 : Text.isCommentTok "//Generated from netlist by SpyDrNet" = true := by decide +kernel
  simp only [List.cons_append, List.nil_append, List.dropWhile_cons, hc1, hc2, if_true]
  -- the tokens of the module start with a token that is no comment
  have : (tokensOf m.toI).dropWhile Text.isCommentTok = tokensOf m.toI := by
    cases hts : tokensOf m.toI with
    | nil => rfl
    | cons t ts =>
      rw [hts] at hclean
      simp only [cleanToks, List.all_cons, Bool.and_eq_true, Bool.not_eq_eq_eq_not, Bool.not_true] at hclean
      simp [List.dropWhile_cons, hclean.1.1]
  rw [this]
  simp
end Spydr.Verilog.Elab
