/-
  Verilog engine — proof side, part 23: the text the writer produces, piece by piece (body port declarations, net
  declarations, header ports, assigns), in terms of the written module `astOf`.
-/
import Spydr.Verilog.RoundTripText
set_option maxHeartbeats 800000
namespace Spydr.Verilog.Elab
open Spydr.Verilog
open Spydr.Verilog.Text (starConstraints fixName showInt dirString bracketsDefining)

/-! ### the text the writer produces, as a function of the written module -/

def starText (a : Attrs) : String := starConstraints (some a)

theorem starConstraints_getD (a : Option Attrs) : starConstraints a = starText (a.getD []) := by
  cases a with
  | none => rfl
  | some l => rfl

def brText : Option (Int × Int) → String
  | none => ""
  | some (a, b) => "[" ++ showInt a ++ ":" ++ showInt b ++ "]"

theorem bracketsDefining_eq (lower : Int) (width : Nat) (hw : 1 ≤ width) :
    bracketsDefining lower width = some (brText (emitDeclRange lower width)) := by
  unfold bracketsDefining
  cases h : emitDeclRange lower width with
  | none => rfl
  | some p =>
    obtain ⟨m, l⟩ := p
    have : ¬ width = 0 := by omega
    simp [this, brText]

def dirStr : Dir → String
  | .inp => "input"
  | .out => "output"
  | .inout => "inout"
  | .undef => "/* undefined port direction */ inout"

theorem dirString_of (s : String) (d : Dir) (h : dirOfS s = some d) : dirString s = dirStr d := by
  unfold dirOfS at h
  split at h <;> first | (cases h; rfl) | cases h

/-- one line of `_write_module_body_ports` -/
def portLine (p : PDecl) : String :=
  starText p.attrs ++ "    " ++ dirStr p.dir ++ " " ++ brText p.rng ++ fixName p.name ++ ";\n"

/-- one line of `_write_module_body_cables` -/
def wireLine (w : FWire) : String :=
  starText w.attrs ++ "    " ++ w.ty ++ " " ++ brText w.rng ++ fixName w.name ++ ";\n"

theorem cablesOfPins_same (nm : String) : ∀ (bs : List (Option Bit)) (acc : List String), acc = [nm] →
    (∀ b ∈ bs, ∃ i, b = some (⟨nm, i⟩ : Bit)) →
    bs.foldl (fun acc p => match p with
      | some b => if acc.contains b.cable then acc else acc ++ [b.cable]
      | none => acc) acc = [nm] := by
  intro bs
  induction bs with
  | nil => intro acc h _; simpa using h
  | cons b bs ih =>
    intro acc h hb
    obtain ⟨i, e⟩ := hb b List.mem_cons_self
    simp only [List.foldl_cons, e]
    apply ih _ _ (fun x hx => hb x (List.mem_cons_of_mem _ hx))
    rw [h]; simp

theorem cablesOfPins_whole (nm : String) (lo : Int) (w : Nat) (hw : 1 ≤ w) :
    Text.cablesOfPins ((cableBits nm lo w).items.map some) = [nm] := by
  unfold Text.cablesOfPins cableBits
  obtain ⟨w', hw'⟩ : ∃ w', w = w' + 1 := ⟨w - 1, by omega⟩
  subst hw'
  rw [List.range_succ_eq_map]
  simp only [List.map_cons, List.foldl_cons]
  apply cablesOfPins_same nm
  · simp
  · intro b hb
    simp only [List.map_map, List.mem_map] at hb
    obtain ⟨k, _, e⟩ := hb
    exact ⟨_, e.symm⟩

theorem foldl_append_str (l : List String) : ∀ (a : String), l.foldl (fun r s => r ++ s) a = a ++ l.foldl (fun r s => r ++ s) "" := by
  induction l with
  | nil => intro a; simp
  | cons x l ih => intro a; simp only [List.foldl_cons]; rw [ih (a ++ x), ih ("" ++ x)]; simp [String.append_assoc]

theorem join_cons (a : String) (l : List String) : String.join (a :: l) = a ++ String.join l := by
  unfold String.join
  simp only [List.foldl_cons]
  rw [foldl_append_str l ("" ++ a)]; simp

theorem join_nil : String.join [] = "" := rfl

theorem join_append (l1 l2 : List String) : String.join (l1 ++ l2) = String.join l1 ++ String.join l2 := by
  induction l1 with
  | nil => simp [join_nil]
  | cons a l ih => rw [List.cons_append, join_cons, join_cons, ih, String.append_assoc]

/-- what the fragment says of one port of the netlist -/
def PortFrag (T : Text.WDef) (p : Text.WPort) : Prop :=
  ∀ nm, p.name = some nm → ∀ c, T.cables.find? (fun c => c.name == nm) = some c →
    p.lower = c.lower ∧ p.width = c.width ∧ p.pins = (cableBits nm c.lower c.width).items.map some ∧ 1 ≤ c.width

/-- the loop body of `_write_module_body_ports` -/
def bpStep (T : Text.WDef) (acc : String × List String) (p : Text.WPort) : Except String (String × List String) := do
  let (txt, written) := acc
  let cs := Text.cablesOfPins p.pins
  let decls : List (String × Int × Nat) ←
    if cs.isEmpty then
      match p.name with
      | some n => pure [(n, p.lower, p.width)]
      | none => throw "name of o is not set"
    else pure (cs.filterMap (fun c => (T.cables.find? (fun x => x.name == c)).map (fun x => (x.name, x.lower, x.width))))
  decls.foldlM (fun (acc : String × List String) dc => do
    let (txt, written) := acc
    if written.contains dc.1 then pure (txt, written) else
    match bracketsDefining dc.2.1 dc.2.2 with
    | none => throw "assert: bundle has 0 width"
    | some br =>
      pure (txt ++ starConstraints p.attrs ++ "    " ++ dirString p.dir ++ " " ++ br ++ fixName dc.1 ++ ";\n", written ++ [dc.1])) (txt, written)

theorem bodyPortsText_eq (T : Text.WDef) :
    Text.bodyPortsText T = (do
      let r ← T.ports.foldlM (bpStep T) ("", [])
      pure (r.1 ++ "\n")) := rfl

theorem bpStep_port (T : Text.WDef) (p : Text.WPort) (mp : PDecl) (txt : String) (written : List String)
    (hp : astPort T p = some mp) (hfr : PortFrag T p) (hnw : ∀ nm, p.name = some nm → nm ∉ written) :
    bpStep T (txt, written) p = .ok (txt ++ portLine mp, written ++ [mp.name]) := by
  obtain ⟨nm, c, dir, hn, hc, hd, hmp⟩ := astPort_spec T p mp hp
  obtain ⟨f1, f2, f3, f4⟩ := hfr nm hn c hc
  have hcn : c.name = nm := by simpa using List.find?_some hc
  have hcs : Text.cablesOfPins p.pins = [nm] := by rw [f3]; exact cablesOfPins_whole nm c.lower c.width f4
  have hnotw : written.contains nm = false := by
    have := hnw nm hn
    cases hcon : written.contains nm with
    | false => rfl
    | true => exact absurd (List.contains_iff_mem.mp hcon) this
  unfold bpStep
  simp only [bind, Except.bind, hcs, List.isEmpty_cons, Bool.false_eq_true, if_false, pure,
    Except.pure, List.filterMap_cons, hc, Option.map_some, List.filterMap_nil, List.foldlM_cons, List.foldlM_nil, hcn, hnotw,
    bracketsDefining_eq c.lower c.width f4]
  rw [hmp]
  simp only [portLine, starConstraints_getD, dirString_of p.dir dir hd, String.append_assoc]

theorem bodyPorts_fold (T : Text.WDef) : ∀ (ps : List Text.WPort) (mps : List PDecl) (txt : String) (written : List String),
    ps.mapM (astPort T) = some mps → (∀ p ∈ ps, PortFrag T p) →
    (∀ p ∈ ps, ∀ nm, p.name = some nm → nm ∉ written) → (ps.map (·.name)).Nodup →
    ps.foldlM (bpStep T) (txt, written) = .ok (txt ++ String.join (mps.map portLine), written ++ mps.map (·.name)) := by
  intro ps
  induction ps with
  | nil =>
    intro mps txt written hm _ _ _
    simp only [List.mapM_nil, pure, Option.some.injEq] at hm
    subst hm
    simp [pure, Except.pure, join_nil]
  | cons p ps ih =>
    intro mps txt written hm hfr hnw hnd
    rw [List.mapM_cons] at hm
    cases hp : astPort T p with
    | none => simp [hp] at hm
    | some mp =>
      cases hrest : ps.mapM (astPort T) with
      | none => simp [hp, hrest] at hm
      | some mps' =>
        simp only [hp, hrest, Option.bind_eq_bind, Option.bind_some, pure, Option.some.injEq] at hm
        subst hm
        obtain ⟨nm, c, dir, hn, hc, hd, hmp⟩ := astPort_spec T p mp hp
        have hmpn : mp.name = nm := by rw [hmp]
        have hrec := ih mps' (txt ++ portLine mp) (written ++ [mp.name]) hrest
          (fun q hq => hfr q (List.mem_cons_of_mem _ hq))
          (by
            intro q hq nm' hn' hmem
            rcases List.mem_append.mp hmem with h | h
            · exact hnw q (List.mem_cons_of_mem _ hq) nm' hn' h
            · simp only [List.mem_singleton] at h
              rw [List.map_cons, List.nodup_cons] at hnd
              exact hnd.1 (List.mem_map.mpr ⟨q, hq, by rw [hn', h, hmpn, hn]⟩))
          (by rw [List.map_cons, List.nodup_cons] at hnd; exact hnd.2)
        rw [List.foldlM_cons]
        simp only [bind, Except.bind, bpStep_port T p mp txt written hp (hfr p List.mem_cons_self)
          (hnw p List.mem_cons_self)]
        rw [hrec]
        simp [join_cons, String.append_assoc]

/-! cables, header, assigns -/

def cabStep (txt : String) (c : Text.WCable) : Except String String :=
  match bracketsDefining c.lower c.width with
  | none => throw "assert: bundle has 0 width"
  | some br => pure (txt ++ starConstraints c.attrs ++ "    " ++ c.ctype.getD "wire" ++ " " ++ br ++ fixName c.name ++ ";\n")

theorem bodyCablesText_eq (T : Text.WDef) :
    Text.bodyCablesText T = (do let t ← T.cables.reverse.foldlM cabStep ""; pure (t ++ "\n")) := rfl

theorem cables_fold : ∀ (cs : List Text.WCable) (txt : String), (∀ c ∈ cs, 1 ≤ c.width) →
    cs.foldlM cabStep txt = .ok (txt ++ String.join ((cs.map astWire).map wireLine)) := by
  intro cs
  induction cs with
  | nil => intro txt _; simp [pure, Except.pure, join_nil]
  | cons c cs ih =>
    intro txt h
    have hstep : cabStep txt c = .ok (txt ++ wireLine (astWire c)) := by
      unfold cabStep
      simp only [bracketsDefining_eq c.lower c.width (h c List.mem_cons_self), pure, Except.pure]
      simp [wireLine, astWire, starConstraints_getD, String.append_assoc]
    simp only [List.foldlM_cons, bind, Except.bind, hstep]
    rw [ih _ (fun x hx => h x (List.mem_cons_of_mem _ hx))]
    simp [join_cons, String.append_assoc]

theorem bodyCables_text (T : Text.WDef) (h : ∀ c ∈ T.cables, 1 ≤ c.width) :
    Text.bodyCablesText T = .ok (String.join ((T.cables.reverse.map astWire).map wireLine) ++ "\n") := by
  rw [bodyCablesText_eq]
  simp only [bind, Except.bind]
  rw [cables_fold T.cables.reverse "" (fun c hc => h c (List.mem_reverse.mp hc))]
  simp [pure, Except.pure]

theorem headerPorts_text (T : Text.WDef) : ∀ (ps : List Text.WPort) (mps : List PDecl), ps.mapM (astPort T) = some mps →
    ps.mapM (Text.headerPortText T) = .ok (mps.map (fun p => "    " ++ fixName p.name)) := by
  intro ps
  induction ps with
  | nil => intro mps hm; simp only [List.mapM_nil, pure, Option.some.injEq] at hm; subst hm; rfl
  | cons p ps ih =>
    intro mps hm
    rw [List.mapM_cons] at hm
    cases hp : astPort T p with
    | none => simp [hp] at hm
    | some mp =>
      cases hrest : ps.mapM (astPort T) with
      | none => simp [hp, hrest] at hm
      | some mps' =>
        simp only [hp, hrest, Option.bind_eq_bind, Option.bind_some, pure, Option.some.injEq] at hm
        subst hm
        have hhp : Text.headerPortText T p = .ok ("    " ++ fixName mp.name) := by
          unfold astPort at hp
          split at hp
          · cases hp
          · rename_i nm hn
            split at hp
            · rename_i c dir hc hd
              split at hp
              · rename_i he
                simp only [Option.some.injEq] at hp
                unfold Text.headerPortText
                simp only [hn, bind, Except.bind, pure, Except.pure, he]
                rw [← hp]
              · cases hp
            · cases hp
        rw [List.mapM_cons]
        simp only [bind, Except.bind, hhp, ih mps' hrest, pure, Except.pure, List.map_cons]

def asgStep (n : Text.WNet) (T : Text.WDef) (txt : String) (i : Text.WInst) : Except String String :=
  match Text.refOf n i.ref with
  | some r =>
    if r.lib != "SDN_VERILOG_ASSIGNMENT" then pure txt else
    let idx (nm : String) := r.ports.findIdx? (fun p => p.name == some nm)
    match idx "i", idx "o" with
    | some ki, some ko =>
      match emitAssign (Text.envOf T) (i.pins.getD ko []) (i.pins.getD ki []) with
      | some (l, rr) => pure (txt ++ "assign " ++ Text.atomText l ++ " = " ++ Text.atomText rr ++ ";\n")
      | none => throw "assert: assignment"
    | _, _ => throw "assert: instance does not appear to be an assignment"
  | none => throw "attribute: reference"

theorem assignsText_eq (n : Text.WNet) (T : Text.WDef) : Text.assignsText n T = T.insts.foldlM (asgStep n T) "" := rfl

theorem assigns_fold (n : Text.WNet) (T : Text.WDef) : ∀ (is : List Text.WInst) (txt : String),
    (∀ i ∈ is, ∃ r, Text.refOf n i.ref = some r ∧ r.lib ≠ "SDN_VERILOG_ASSIGNMENT") →
    is.foldlM (asgStep n T) txt = .ok txt := by
  intro is
  induction is with
  | nil => intro txt _; rfl
  | cons i is ih =>
    intro txt h
    obtain ⟨r, hr, hl⟩ := h i List.mem_cons_self
    have hstep : asgStep n T txt i = .ok txt := by
      unfold asgStep
      have : (r.lib != "SDN_VERILOG_ASSIGNMENT") = true := by simp [hl]
      simp only [hr, this, if_true, pure, Except.pure]
    simp only [List.foldlM_cons, bind, Except.bind, hstep]
    exact ih txt (fun x hx => h x (List.mem_cons_of_mem _ hx))
end Spydr.Verilog.Elab
