/-
  Verilog engine — proof side, part 24: the writer side in general: `composeV n` = file header ++ rendering of `astOf n T`
  (`composeV_text`), through instances, module and file assembly.
-/
import Spydr.Verilog.RoundTripRenderA
set_option maxHeartbeats 800000
namespace Spydr.Verilog.Elab
open Spydr.Verilog
open Spydr.Verilog.Text (starConstraints fixName showInt dirString bracketsDefining)

/-! ### instances -/

def peText : PExpr → String
  | .empty => ""
  | .atom a => Text.atomText a
  | .concat as => Text.concatText as

def connLine (c : String × PExpr) : String := "        ." ++ fixName c.1 ++ "(" ++ peText c.2 ++ ")"

def paramText (ps : Params) : String := if ps.isEmpty then "" else Text.instParamsText ps ++ "    "

def instLine (i : PInst) : String :=
  starText i.attrs ++ "    " ++ fixName i.mod ++ " " ++ paramText i.params ++ fixName i.name ++ "\n" ++
    ("    (\n" ++ ",\n".intercalate (i.conns.map connLine) ++ "\n    );") ++ "\n"

theorem instPortText_eq (T : Text.WDef) (p : Text.WPort) (pins : List (Option Bit)) (pn : String) (pe : PExpr)
    (hn : p.name = some pn) (he : emitPortExpr (Text.envOf T) pins = some pe) :
    Text.instPortText T p pins = .ok (connLine (pn, pe)) := by
  unfold Text.instPortText
  simp only [hn, he]
  cases pe <;> simp [connLine, peText, pure, Except.pure, String.append_assoc]

theorem mapM_opt_exc {α β γ : Type} (fo : α → Option β) (fe : α → Except String γ) (g : β → γ)
    (h : ∀ a b, fo a = some b → fe a = .ok (g b)) : ∀ (l : List α) (r : List β), l.mapM fo = some r →
    l.mapM fe = .ok (r.map g) := by
  intro l
  induction l with
  | nil => intro r hm; simp only [List.mapM_nil, pure, Option.some.injEq] at hm; subst hm; rfl
  | cons a l ih =>
    intro r hm
    rw [List.mapM_cons] at hm
    cases ha : fo a with
    | none => simp [ha] at hm
    | some b =>
      cases hr : l.mapM fo with
      | none => simp [ha, hr] at hm
      | some r' =>
        simp only [ha, hr, Option.bind_eq_bind, Option.bind_some, pure, Option.some.injEq] at hm
        subst hm
        rw [List.mapM_cons]
        simp only [bind, Except.bind, h a b ha, ih r' hr, pure, Except.pure, List.map_cons]

theorem mapM_conns (T : Text.WDef) (r : Text.WDef) (i : Text.WInst) (l : List Nat) (conns : List (String × PExpr))
    (h : l.mapM (fun k =>
      match (r.ports.getD k default).name, emitPortExpr (Text.envOf T) (i.pins.getD k []) with
      | some pn, some pe => some (pn, pe)
      | _, _ => none) = some conns) :
    l.mapM (fun k => Text.instPortText T (r.ports.getD k default) (i.pins.getD k [])) = .ok (conns.map connLine) := by
  apply mapM_opt_exc _ _ connLine _ l conns h
  intro k c hc
  split at hc
  · rename_i pn pe hn he
    simp only [Option.some.injEq] at hc
    rw [← hc]
    exact instPortText_eq T _ _ pn pe hn he
  · cases hc

def insStep (n : Text.WNet) (o : Text.Opts) (d : Text.WDef) (txt : String) (i : Text.WInst) : Except String String := do
  match Text.refOf n i.ref with
  | none => throw "attribute: reference"
  | some r =>
    if r.lib == "SDN_VERILOG_ASSIGNMENT" then pure txt else
    let head := starConstraints i.attrs ++ "    " ++ fixName r.name ++ " " ++
      (if !o.defparam then (match i.params with
        | some ps => Text.instParamsText ps ++ "    "
        | none => "") else "") ++ fixName i.name ++ "\n"
    let ports ← (List.range r.ports.length).mapM (fun k => Text.instPortText d (r.ports.getD k default) (i.pins.getD k []))
    let body := "    (\n" ++ ",\n".intercalate ports ++ "\n    );"
    let dp := if o.defparam then (match i.params with
        | some ps => String.join (ps.map (fun kv => "    defparam " ++ fixName i.name ++ "." ++ kv.1 ++ "=" ++ kv.2 ++ ";\n"))
        | none => "") else ""
    pure (txt ++ head ++ body ++ "\n" ++ dp)

theorem instancesText_eq (n : Text.WNet) (o : Text.Opts) (d : Text.WDef) :
    Text.instancesText n o d = d.insts.foldlM (insStep n o d) "" := rfl

/-- the fragment, instance side, for the text: the referenced definition is not an assignment and a given parameter
    list is not empty -/
def InstText (n : Text.WNet) (i : Text.WInst) : Prop :=
  (∀ r, Text.refOf n i.ref = some r → r.lib ≠ "SDN_VERILOG_ASSIGNMENT") ∧ i.params ≠ some []

theorem refOf_name (n : Text.WNet) (nm : String) (r : Text.WDef) (h : Text.refOf n nm = some r) : r.name = nm := by
  unfold Text.refOf at h
  simpa using List.find?_some h

theorem insStep_inst (n : Text.WNet) (T : Text.WDef) (txt : String) (i : Text.WInst) (pi : PInst)
    (hpi : astInst n T i = some pi) (hf : InstText n i) :
    insStep n optsFrag T txt i = .ok (txt ++ instLine pi) := by
  unfold astInst at hpi
  cases hr : Text.refOf n i.ref with
  | none => simp [hr] at hpi
  | some r =>
    simp only [hr, Option.map_eq_some_iff] at hpi
    obtain ⟨conns, hm, hp⟩ := hpi
    have hports := mapM_conns T r i _ conns hm
    have hl : (r.lib == "SDN_VERILOG_ASSIGNMENT") = false := by
      have := hf.1 r hr; simp [this]
    have hrn := refOf_name n i.ref r hr
    unfold insStep
    simp only [hr, bind, Except.bind, hl, Bool.false_eq_true, if_false, optsFrag, Bool.not_false, if_true, hports, pure,
      Except.pure]
    rw [← hp]
    congr 1
    cases hps : i.params with
    | none =>
      simp [instLine, paramText, starConstraints_getD, hrn, String.append_assoc]
    | some ps =>
      have hne : ps ≠ [] := by intro e; apply hf.2; rw [hps, e]
      have hem : ps.isEmpty = false := by cases ps <;> simp at hne ⊢
      simp [instLine, paramText, starConstraints_getD, hrn, hem, String.append_assoc]

theorem instancesText_fold (n : Text.WNet) (T : Text.WDef) : ∀ (is : List Text.WInst) (pis : List PInst) (txt : String),
    is.mapM (astInst n T) = some pis → (∀ i ∈ is, InstText n i) →
    is.foldlM (insStep n optsFrag T) txt = .ok (txt ++ String.join (pis.map instLine)) := by
  intro is
  induction is with
  | nil =>
    intro pis txt hm _
    simp only [List.mapM_nil, pure, Option.some.injEq] at hm
    subst hm
    simp [pure, Except.pure, join_nil]
  | cons i is ih =>
    intro pis txt hm hf
    rw [List.mapM_cons] at hm
    cases hpi : astInst n T i with
    | none => simp [hpi] at hm
    | some pi =>
      cases hrest : is.mapM (astInst n T) with
      | none => simp [hpi, hrest] at hm
      | some pis' =>
        simp only [hpi, hrest, Option.bind_eq_bind, Option.bind_some, pure, Option.some.injEq] at hm
        subst hm
        simp only [List.foldlM_cons, bind, Except.bind, insStep_inst n T txt i pi hpi (hf i List.mem_cons_self)]
        rw [ih pis' _ hrest (fun x hx => hf x (List.mem_cons_of_mem _ hx))]
        simp [join_cons, String.append_assoc]

/-! ### the module and the file -/

/-- the text of `_write_module` for a module of the fragment -/
def renderMod (m : WModP) : String :=
  "" ++ starText m.attrs ++
    ("module " ++ fixName m.name ++ "\n" ++ "" ++ "(" ++
      ",".intercalate ((m.ports.map (fun p => "    " ++ fixName p.name)).map (fun s => "\n" ++ s)) ++ "\n);\n" ++ "\n") ++
    (String.join (m.ports.map portLine) ++ "\n") ++
    ((String.join (m.wires.map wireLine) ++ "\n") ++ "" ++ String.join (m.insts.map instLine)) ++
    "endmodule" ++ "" ++ "\n\n"

/-- the text-side clauses of the fragment for the top definition -/
structure TopText (n : Text.WNet) (T : Text.WDef) : Prop where
  lib1 : T.lib ≠ "SDN_VERILOG_ASSIGNMENT"
  lib2 : T.lib ≠ "hdi_primitives"
  params : T.params = none
  insts : ∀ i ∈ T.insts, InstText n i

theorem moduleText_top (n : Text.WNet) (T : Text.WDef) (m : WModP) (hfrag : fragTop n T = true) (ht : TopText n T)
    (hm : astOf n T = some m) : Text.moduleText n optsFrag T = .ok (renderMod m) := by
  simp only [fragTop, Bool.and_eq_true, decide_eq_true_eq, List.all_eq_true] at hfrag
  obtain ⟨⟨⟨⟨F1, F1w⟩, F2n⟩, F2⟩, F3⟩ := hfrag
  unfold astOf at hm
  cases hports : T.ports.mapM (astPort T) with
  | none => simp [hports] at hm
  | some ports =>
    cases hinsts : T.insts.mapM (astInst n T) with
    | none => simp [hports, hinsts] at hm
    | some insts =>
      simp only [hports, hinsts, Option.some.injEq] at hm
      subst hm
      have H2 : ∀ c ∈ T.cables, 1 ≤ c.width := fun c hc => by simpa using F1w c hc
      have hPF : ∀ p ∈ T.ports, PortFrag T p := by
        intro p hp nm hn c hc
        have := F2 p hp
        simp only [hn, hc, Bool.and_eq_true, decide_eq_true_eq] at this
        exact ⟨this.1.1, this.1.2, this.2, H2 c (List.mem_of_find?_eq_some hc)⟩
      have hbp : Text.bodyPortsText T = .ok (String.join (ports.map portLine) ++ "\n") := by
        rw [bodyPortsText_eq]
        simp only [bind, Except.bind, bodyPorts_fold T T.ports ports "" [] hports hPF (by intro p _ nm _ h; cases h) F2n,
          pure, Except.pure]
        simp
      have hbc := bodyCables_text T H2
      have has : Text.assignsText n T = .ok "" := by
        rw [assignsText_eq]
        apply assigns_fold n T T.insts ""
        intro i hi
        have := F3 i hi
        cases hr : Text.refOf n i.ref with
        | none => simp [hr] at this
        | some r => exact ⟨r, rfl, (ht.insts i hi).1 r hr⟩
      have hin : Text.instancesText n optsFrag T = .ok (String.join (insts.map instLine)) := by
        rw [instancesText_eq, instancesText_fold n T T.insts insts "" hinsts ht.insts]
        simp
      have hhp := headerPorts_text T T.ports ports hports
      have hl1 : (T.lib == "SDN_VERILOG_ASSIGNMENT") = false := by simp [ht.lib1]
      have hl2 : (T.lib == "hdi_primitives") = false := by simp [ht.lib2]
      unfold Text.moduleText
      simp only [optsFrag, bind, Except.bind, pure, Except.pure, hl1, hl2, Bool.false_eq_true, if_false, Bool.false_and,
        hhp, ht.params, hbp, hbc, has, hin]
      simp only [renderMod, starConstraints_getD, List.map_map]
      have hin' : Text.instancesText n { defList := none, writeBlackbox := false, defparam := false } T =
          .ok (String.join (insts.map instLine)) := hin
      rw [hin']

theorem moduleText_prim (n : Text.WNet) (d : Text.WDef) (h : d.lib = "hdi_primitives") :
    Text.moduleText n optsFrag d = .ok "" := by
  unfold Text.moduleText
  simp [optsFrag, h, bind, Except.bind, pure, Except.pure]

theorem join_mods (f : Nat → Except String String) (kT : Nat) (X : String) (hX : f kT = .ok X) :
    ∀ (order : List Nat), (∀ k ∈ order, k = kT ∨ f k = .ok "") → order.count kT ≤ 1 →
    ∃ mods, order.mapM f = .ok mods ∧ String.join mods = (if order.count kT = 1 then X else "") := by
  intro order
  induction order with
  | nil => intro _ _; exact ⟨[], rfl, by simp [join_nil]⟩
  | cons k order ih =>
    intro hk hc
    by_cases e : k = kT
    · subst e
      have hc0 : order.count k = 0 := by simp at hc; omega
      obtain ⟨mods, h1, h2⟩ := ih (fun x hx => hk x (List.mem_cons_of_mem _ hx)) (by omega)
      refine ⟨X :: mods, ?_, ?_⟩
      · rw [List.mapM_cons]; simp [bind, Except.bind, hX, h1, pure, Except.pure]
      · rw [join_cons, h2]; simp [hc0]
    · have hfk : f k = .ok "" := by
        rcases hk k List.mem_cons_self with h | h
        · exact absurd h e
        · exact h
      have hcc : (k :: order).count kT = order.count kT := by simp [List.count_cons, e]
      obtain ⟨mods, h1, h2⟩ := ih (fun x hx => hk x (List.mem_cons_of_mem _ hx)) (by rw [hcc] at hc; exact hc)
      refine ⟨"" :: mods, ?_, ?_⟩
      · rw [List.mapM_cons]; simp [bind, Except.bind, hfk, h1, pure, Except.pure]
      · rw [join_cons, h2, hcc]; simp

/-- the order in which `_compose` visits the definitions -/
def composeOrder (n : Text.WNet) : List Nat :=
  let idxOf (name : String) : Option Nat := n.defs.findIdx? (fun d => d.name == name)
  let children : Nat → List Nat := fun k => ((n.defs.getD k default).insts.filterMap (fun i => idxOf i.ref))
  let fuel := 2 + n.defs.length + (n.defs.map (fun d => d.insts.length)).sum
  (visitOrder children fuel (n.top.bind idxOf) (List.range n.defs.length)).1

def composeFin (n : Text.WNet) : Bool :=
  let idxOf (name : String) : Option Nat := n.defs.findIdx? (fun d => d.name == name)
  let children : Nat → List Nat := fun k => ((n.defs.getD k default).insts.filterMap (fun i => idxOf i.ref))
  let fuel := 2 + n.defs.length + (n.defs.map (fun d => d.insts.length)).sum
  (visitOrder children fuel (n.top.bind idxOf) (List.range n.defs.length)).2

theorem composeV_eq (n : Text.WNet) (o : Text.Opts) :
    Text.composeV n o = (do
      let mods ← (composeOrder n).mapM (fun k => Text.moduleText n o (n.defs.getD k default))
      pure ("//Generated from netlist by SpyDrNet\n//netlist name: " ++ fixName n.name ++ "\n" ++ String.join mods, composeFin n)) := rfl

/-- file-level clauses of the fragment (decidable): `T` is visited exactly once, everything else is a primitive -/
def fileOK (n : Text.WNet) (kT : Nat) : Bool :=
  (composeOrder n).count kT == 1 &&
  (composeOrder n).all (fun k => k == kT || (n.defs.getD k default).lib == "hdi_primitives")

def fileHeader (n : Text.WNet) : String :=
  "//Generated from netlist by SpyDrNet\n//netlist name: " ++ fixName n.name ++ "\n"

/-- **composeV_text.**  The writer side, in general: for a netlist of the fragment the text `composeV` produces is the
    file header followed by the rendering of `astOf n T`. -/
theorem composeV_text (n : Text.WNet) (T : Text.WDef) (kT : Nat) (m : WModP)
    (hT : n.defs.getD kT default = T) (hfile : fileOK n kT = true)
    (hfrag : fragTop n T = true) (ht : TopText n T) (hm : astOf n T = some m) :
    ∃ fin, Text.composeV n optsFrag = .ok (fileHeader n ++ renderMod m, fin) := by
  simp only [fileOK, Bool.and_eq_true, beq_iff_eq, List.all_eq_true, Bool.or_eq_true] at hfile
  obtain ⟨hcount, hall⟩ := hfile
  have hX : Text.moduleText n optsFrag (n.defs.getD kT default) = .ok (renderMod m) := by
    rw [hT]; exact moduleText_top n T m hfrag ht hm
  obtain ⟨mods, h1, h2⟩ := join_mods (fun k => Text.moduleText n optsFrag (n.defs.getD k default)) kT (renderMod m) hX
    (composeOrder n) (by
      intro k hk
      rcases hall k hk with h | h
      · exact Or.inl h
      · exact Or.inr (moduleText_prim n _ h)) (by omega)
  rw [hcount] at h2
  simp only [if_true] at h2
  rw [composeV_eq, h1]
  simp only [bind, Except.bind, pure, Except.pure, h2]
  exact ⟨_, rfl⟩

/-- the character-level clause, now about the rendering only -/
def lexR (n : Text.WNet) (m : WModP) : Bool :=
  (Text.lexV (fileHeader n ++ renderMod m)).dropWhile Text.isCommentTok == tokensOf m.toI

/-- `fragFull` from its structural parts: the writer's text is no longer evaluated, only the lexer on the rendering -/
theorem fragFull_of (n : Text.WNet) (T : Text.WDef) (kT : Nat) (m : WModP)
    (hT : n.defs.getD kT default = T) (hfile : fileOK n kT = true) (hc : fragC04 n T = true) (ht : TopText n T)
    (hm : astOf n T = some m) (htok : tokOK m.toI = true) (hl : lexR n m = true) : fragFull n T = true := by
  have hfrag : fragTop n T = true := by
    simp only [fragC04, Bool.and_eq_true] at hc; exact hc.1
  obtain ⟨fin, hcv⟩ := composeV_text n T kT m hT hfile hfrag ht hm
  unfold fragFull lexOK
  simp only [hc, hm, htok, hcv, Bool.true_and]
  exact hl
end Spydr.Verilog.Elab
