/-
  Verilog engine — proof side, part 9: ReaderShape discharged for the reader's own output (fragment designs).
-/
import Spydr.Verilog.RoundTripDesign
import Spydr.Verilog.Props.C04Emit
namespace Spydr.Verilog.Elab
open Spydr.Verilog

theorem pySlice_mem {α : Type} (xs : List α) (lo hi : Int) : ∀ w ∈ pySlice xs lo hi, w ∈ xs := by
  intro w hw
  unfold pySlice at hw
  exact List.mem_of_mem_drop (List.mem_of_mem_take hw)

theorem pyIndex_mem {α : Type} (xs : List α) (i : Int) (w : α) (h : pyIndex xs i = some w) : w ∈ xs := by
  unfold pyIndex at h
  split at h
  · exact List.mem_of_getElem? h
  · split at h
    · exact List.mem_of_getElem? h
    · cases h

theorem getWires_mem {α : Type} (c : Bundle α) (l r : Option Int) (ws : List α) (h : getWires c l r = some ws) :
    ∀ w ∈ ws, w ∈ c.items := by
  intro w hw
  unfold getWires at h
  cases l with
  | none =>
    cases r with
    | none => simp only [Option.some.injEq] at h; subst h; exact List.mem_reverse.mp hw
    | some r =>
      simp only [Option.map_eq_some_iff] at h
      obtain ⟨x, hx, e⟩ := h
      subst e; simp only [List.mem_singleton] at hw; subst hw
      exact pyIndex_mem _ _ _ hx
  | some l =>
    cases r with
    | none =>
      simp only [Option.map_eq_some_iff] at h
      obtain ⟨x, hx, e⟩ := h
      subst e; simp only [List.mem_singleton] at hw; subst hw
      exact pyIndex_mem _ _ _ hx
    | some r =>
      simp only [Option.some.injEq] at h; subst h
      exact pySlice_mem _ _ _ _ (List.mem_reverse.mp hw)

/-- the wire is a wire of one of the definition's cables -/
def InCables (d : Def) (w : Nat) : Prop := ∃ c ∈ d.cables, w ∈ c.wires

theorem atomWires_mem (d : Def) (a : XAtom) (ws : List Nat) (h : atomWires d a = some ws) :
    ∀ w ∈ ws, InCables d w := by
  intro w hw
  unfold atomWires at h
  cases hf : d.cables.find? (fun c => c.name == (atomParts a).1) with
  | none => simp [hf] at h
  | some c =>
    simp only [hf] at h
    split at h
    · exact ⟨c, List.mem_of_find?_eq_some hf, getWires_mem _ _ _ _ h w hw⟩
    · cases h

theorem atomsWires_mem (d : Def) : ∀ (as : List XAtom) (ws : List Nat), atomsWires d as = some ws →
    ∀ w ∈ ws, InCables d w := by
  intro as
  induction as with
  | nil => intro ws h w hw; simp [atomsWires] at h; subst h; cases hw
  | cons a as ih =>
    intro ws h w hw
    unfold atomsWires at h
    cases h1 : atomWires d a with
    | none => simp [h1] at h
    | some x =>
      cases h2 : atomsWires d as with
      | none => simp [h1, h2] at h
      | some y =>
        simp only [h1, h2, Option.some.injEq] at h
        subst h
        rcases List.mem_append.mp hw with e | e
        · exact atomWires_mem d a x h1 w e
        · exact ih y h2 w e

theorem exprWires_mem (d : Def) (e : XExpr) (ws : List Nat) (h : exprWires d e = some ws) :
    ∀ w ∈ ws, InCables d w := by
  cases e with
  | empty => simp [exprWires] at h; subst h; intro w hw; cases hw
  | atom a => exact atomWires_mem d a ws h
  | cat as => exact atomsWires_mem d as ws h

/-- the shape of one row of instance pins in the reader's table: a connected block at the low end whose
    wires all belong to cables of the enclosing definition, free pins above -/
def RowShape (d : Def) (row : List (Option Nat)) : Prop :=
  ∃ (blk : List Nat) (m : Nat), row = blk.map some ++ List.replicate m none ∧ ∀ w ∈ blk, InCables d w

theorem connStep_shape (d rd : Def) (rows rows' : List (List (Option Nat))) (c : String × XExpr)
    (hs : ∀ row ∈ rows, RowShape d row) (h : connStep d rd rows c = some rows') :
    ∀ row ∈ rows', RowShape d row := by
  unfold connStep at h
  split at h
  · cases h
  · rename_i k _
    split at h
    · rename_i hk
      split at h
      · split at h
        · cases h; exact hs
        · cases h
      · split at h
        · cases h
        · rename_i ws hws
          split at h
          · rename_i hc
            obtain ⟨h1, _, h3, h4⟩ := hc
            simp only [Option.some.injEq] at h
            subst h
            intro row hrow
            rcases List.mem_or_eq_of_mem_set hrow with e | e
            · exact hs row e
            · have hkl : k < rows.length := hk.2
              have hold : rows.getD k [] ∈ rows := by
                rw [List.getD_eq_getElem?_getD, List.getElem?_eq_getElem hkl]; exact List.getElem_mem hkl
              obtain ⟨blk, m, hb, _⟩ := hs _ hold
              have hblk : blk = [] := by
                cases blk with
                | nil => rfl
                | cons b bs =>
                  exfalso
                  rw [hb] at h4
                  obtain ⟨n, hn⟩ : ∃ n, ws.length = n + 1 := ⟨ws.length - 1, by omega⟩
                  rw [hn] at h4
                  simp at h4
              subst hblk
              simp only [List.map_nil, List.nil_append] at hb
              refine ⟨ws.reverse, m - ws.length, ?_, ?_⟩
              · rw [e, hb, List.drop_replicate]
              · intro w hw
                exact exprWires_mem d _ ws hws w (List.mem_reverse.mp hw)
          · cases h
    · cases h

theorem foldlM_connStep_shape (d rd : Def) (conns : List (String × XExpr)) :
    ∀ rows rows', (∀ row ∈ rows, RowShape d row) → conns.foldlM (connStep d rd) rows = some rows' →
      ∀ row ∈ rows', RowShape d row := by
  induction conns with
  | nil => intro rows rows' hs h; simp at h; subst h; exact hs
  | cons c cs ih =>
    intro rows rows' hs h
    rw [List.foldlM_cons] at h
    cases h1 : connStep d rd rows c with
    | none => simp [h1] at h
    | some r1 =>
      simp only [h1, Option.bind_eq_bind, Option.bind_some] at h
      exact ih r1 rows' (connStep_shape d rd rows r1 c hs h1) h

theorem buildInst_shape (l : String → Option Def) (d : Def) (i : NInst) (inst : Inst) (h : buildInst l d i = some inst) :
    ∀ row ∈ inst.pins, RowShape d row := by
  unfold buildInst at h
  cases hl : l i.mod with
  | none => simp [hl] at h
  | some rd =>
    simp only [hl] at h
    cases hr : i.conns.foldlM (connStep d rd) (rd.ports.map (fun p => List.replicate p.pins.length none)) with
    | none => simp [hr] at h
    | some rows =>
      simp only [hr, Option.map_some, Option.some.injEq] at h
      subst h
      apply foldlM_connStep_shape d rd i.conns _ rows _ hr
      intro row hrow
      obtain ⟨p, _, e⟩ := List.mem_map.mp hrow
      exact ⟨[], p.pins.length, by rw [← e]; rfl, fun w hw => by cases hw⟩

/-- the cable environment of a definition of the table: name ↦ (lower index, width) -/
def envOf (d : Def) : CableEnv :=
  fun n => (d.cables.find? (fun c => c.name == n)).map (fun c => (c.lower, c.wires.length))

/-- a row of the table as the bit-level model sees it: wire ids replaced by (cable, index) -/
def pinBits (d : Def) (row : List (Option Nat)) : List (Option Bit) := row.map (fun p => p.bind (bitOf d))

theorem bitOf_valid (d : Def) (hn : (d.cables.map (·.name)).Nodup) (w : Nat) (hw : InCables d w) :
    ∃ b, bitOf d w = some b ∧ ValidBit (envOf d) b := by
  obtain ⟨c0, hc0, hw0⟩ := hw
  unfold bitOf
  have hsome : (d.cables.findSome? (fun c =>
      match c.wires.findIdx? (· == w) with
      | some k => some (⟨c.name, c.lower + (k : Int)⟩ : Bit)
      | none => none)).isSome = true := by
    rw [List.findSome?_isSome_iff]
    refine ⟨c0, hc0, ?_⟩
    have : (c0.wires.findIdx? (· == w)).isSome = true := by
      rw [List.findIdx?_isSome]; simp; exact hw0
    cases hf : c0.wires.findIdx? (· == w) with
    | none => simp [hf] at this
    | some k => rfl
  obtain ⟨b, hb⟩ := Option.isSome_iff_exists.mp hsome
  refine ⟨b, hb, ?_⟩
  obtain ⟨c, hc, hfc⟩ := List.exists_of_findSome?_eq_some hb
  cases hf : c.wires.findIdx? (· == w) with
  | none => simp [hf] at hfc
  | some k =>
    simp only [hf, Option.some.injEq] at hfc
    subst hfc
    have hk : k < c.wires.length := by
      have := List.findIdx?_eq_some_iff_findIdx_eq.mp hf
      exact this.1
    refine ⟨c.lower, c.wires.length, ?_, ?_, ?_⟩
    · unfold envOf
      cases hfind : d.cables.find? (fun x => x.name == c.name) with
      | none =>
        have := List.find?_eq_none.mp hfind c hc
        simp at this
      | some c' =>
        have hm := List.mem_of_find?_eq_some hfind
        have hnm : c'.name = c.name := by simpa using List.find?_some hfind
        have : c' = c := nodup_map_inj (·.name) d.cables hn c' hm c hc hnm
        subst this; rfl
    · show c.lower ≤ c.lower + (k : Int); omega
    · show c.lower + (k : Int) < c.lower + (c.wires.length : Int); omega

theorem map_bitOf (d : Def) (hn : (d.cables.map (·.name)).Nodup) : ∀ (blk : List Nat), (∀ w ∈ blk, InCables d w) →
    ∃ bs : List Bit, blk.map (fun w => (some w : Option Nat).bind (bitOf d)) = bs.map some ∧
      ∀ b ∈ bs, ValidBit (envOf d) b := by
  intro blk
  induction blk with
  | nil => intro _; exact ⟨[], rfl, fun b hb => by cases hb⟩
  | cons w ws ih =>
    intro h
    obtain ⟨bs, e, hv⟩ := ih (fun x hx => h x (List.mem_cons_of_mem _ hx))
    obtain ⟨b, hb, hvb⟩ := bitOf_valid d hn w (h w List.mem_cons_self)
    refine ⟨b :: bs, ?_, ?_⟩
    · simp only [List.map_cons, e]; simp [hb]
    · intro x hx
      rcases List.mem_cons.mp hx with e | e
      · rw [e]; exact hvb
      · exact hv x e

/-- rows of the table's shape, seen as bits, have the `ReaderShape` that `emit_eval` asks for -/
theorem shape_bits (d : Def) (hn : (d.cables.map (·.name)).Nodup) (row : List (Option Nat)) (h : RowShape d row) :
    ReaderShape (envOf d) (pinBits d row) := by
  obtain ⟨blk, m, e, hv⟩ := h
  obtain ⟨bs, e2, hv2⟩ := map_bitOf d hn blk hv
  refine ⟨bs, m, ?_, hv2⟩
  unfold pinBits
  rw [e, List.map_append, List.map_map, ← e2]
  simp [Function.comp_def]

/-- what target (3) needs of one definition of the table -/
def GoodDef (D : Def) : Prop :=
  (D.cables.map (·.name)).Nodup ∧ ∀ i ∈ D.insts, ∀ row ∈ i.pins, RowShape D row

theorem buildDef_good (l : String → Option Def) (n : Nat) (m : FMod) (D : Def) (n' : Nat)
    (hwn : (m.ports.map (·.name) ++ m.wires.map (·.name)).Nodup)
    (hb : buildDef l n m = some (D, n')) : GoodDef D := by
  unfold buildDef at hb
  simp only [Option.map_eq_some_iff] at hb
  obtain ⟨built, hbm, hD⟩ := hb
  have hD1 := (Prod.mk.inj hD).1
  subst hD1
  constructor
  · simp only [List.map_append, (buildPorts_names m.ports n).2, buildWires_names]
    exact hwn
  · intro i hi row hrow
    obtain ⟨ni, _, hbi⟩ := mapM_mem _ _ _ hbm i hi
    obtain ⟨blk, k, e, hv⟩ := buildInst_shape _ _ _ _ hbi row hrow
    exact ⟨blk, k, e, hv⟩

theorem buildDesign_good : ∀ (ms : List FMod) (known : List String) (acc : List Def) (n : Nat) (defs : List Def),
    modsOK known ms = true → buildDesign ms acc n = some defs → (∀ D ∈ acc, GoodDef D) → ∀ D ∈ defs, GoodDef D := by
  intro ms
  induction ms with
  | nil =>
    intro known acc n defs _ hb h
    simp only [buildDesign, Option.some.injEq] at hb
    subst hb; exact h
  | cons m ms ih =>
    intro known acc n defs hok hb h
    simp only [modsOK, Bool.and_eq_true, Bool.not_eq_eq_eq_not, Bool.not_true, decide_eq_true_eq,
      Bool.or_eq_true, List.all_eq_true, List.isEmpty_iff] at hok
    obtain ⟨⟨⟨⟨⟨_, hwn⟩, _⟩, _⟩, _⟩, hrest⟩ := hok
    unfold buildDesign at hb
    cases hbd : buildDef (fun nm => acc.find? (fun d => d.name == nm)) n m with
    | none => simp [hbd] at hb
    | some r =>
      obtain ⟨D, n'⟩ := r
      simp only [hbd] at hb
      apply ih _ _ _ defs hrest hb
      intro D' hD'
      rcases List.mem_append.mp hD' with e | e
      · exact h D' e
      · simp only [List.mem_singleton] at e
        rw [e]; exact buildDef_good _ _ _ _ _ hwn hbd

/-- **target (3): `ReaderShape` for the reader's own output, on the fragment.**  Every row of instance pins in the
    table the real `elabDesign` builds for a fragment design has, seen as bits of the enclosing definition,
    the `ReaderShape` that `emit_eval` assumes: a block of valid bits at the low end, free pins above. -/
theorem reader_shape_frag (ms : List FMod) (hf : fragDesign ms = true) :
    ∃ s, elabDesign (ms.map FMod.toModule) = .ok s ∧
      ∀ D ∈ s.defs, ∀ i ∈ D.insts, ∀ row ∈ i.pins, ReaderShape (envOf D) (pinBits D row) := by
  unfold fragDesign at hf
  simp only [Bool.and_eq_true] at hf
  obtain ⟨hok, hsome⟩ := hf
  obtain ⟨defs, hb⟩ := Option.isSome_iff_exists.mp hsome
  obtain ⟨s, h1, h2, _⟩ := elabDesign_frag ms defs hok hb
  refine ⟨s, h1, ?_⟩
  intro D hD i hi row hrow
  rw [h2] at hD
  have hg := buildDesign_good ms [] [] 0 defs hok hb (fun D hD => by cases hD) D hD
  exact shape_bits D hg.1 row (hg.2 i hi row hrow)

/-- so the writer's port expression for every such row exists and reads back to the same row -/
theorem reader_rows_roundtrip (ms : List FMod) (hf : fragDesign ms = true) :
    ∃ s, elabDesign (ms.map FMod.toModule) = .ok s ∧
      ∀ D ∈ s.defs, ∀ i ∈ D.insts, ∀ row ∈ i.pins, row ≠ [] →
        ∃ e, emitPortExpr (envOf D) (pinBits D row) = some e ∧
          portRoundTrip (pinBits D row) (evalExpr (envOf D) e) = true := by
  obtain ⟨s, h1, h2⟩ := reader_shape_frag ms hf
  refine ⟨s, h1, ?_⟩
  intro D hD i hi row hrow hne
  exact emit_eval_spec (envOf D) (pinBits D row) (by unfold pinBits; simpa using hne) (h2 D hD i hi row hrow)
end Spydr.Verilog.Elab
