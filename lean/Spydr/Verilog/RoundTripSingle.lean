/-
  Verilog engine — proof side, part 13: a file that consists of ONE module in the writer's shape, with instances of
  modules the file does not declare, through the real `elabDesign` (`elabDesign_wsingle`).
-/
import Spydr.Verilog.RoundTripFirst
set_option maxHeartbeats 400000
namespace Spydr.Verilog.Elab
open Spydr.Verilog

/-- invariant of the table while the instances of the only module of the file are read -/
structure LInv (d : Def) (ls : List Def) : Prop where
  nodup : (ls.map (·.name)).Nodup
  names : ∀ l ∈ ls, l.name ≠ d.name
  linsts : ∀ l ∈ ls, l.insts = []
  closed : ∀ j ∈ d.insts, ∃ rd ∈ ls, rd.name = j.ref
  full : ∀ j ∈ d.insts, ∀ rd ∈ ls, rd.name = j.ref → rd.ports.length ≤ j.pins.length
  cables : (d.cables.map (·.name)).Nodup

/-- one instance with a named port map: of a module seen before (its ports exist and are wide enough), or the
    first instance of a new module (which creates the ports) -/
def instStep2 (d : Def) (ls : List Def) (i : NInst) : Option (Def × List Def) :=
  if instIdx d i.name = none ∧ i.mod ≠ d.name then
    match ls.find? (fun l => l.name == i.mod) with
    | some rd =>
      (i.conns.foldlM (connStep d rd) (rd.ports.map (fun p => List.replicate p.pins.length none))).map
        (fun rows => ({ d with insts := d.insts ++ [⟨i.name, i.mod, mergeP i.params, some i.attrs, rows⟩] }, ls))
    | none =>
      (i.conns.foldlM (firstStep d) ([], [])).map
        (fun r => ({ d with insts := d.insts ++ [⟨i.name, i.mod, mergeP i.params, some i.attrs, r.2⟩] },
                   ls ++ [⟨i.mod, none, false, [], none, r.1, [], []⟩]))
  else none

theorem firstStep_len (d : Def) : ∀ (conns : List (String × XExpr)) (a b : List Port × List (List (Option Nat))),
    a.1.length = a.2.length → conns.foldlM (firstStep d) a = some b → b.1.length = b.2.length := by
  intro conns
  induction conns with
  | nil => intro a b h hf; simp only [List.foldlM_nil, pure, Option.some.injEq] at hf; rw [← hf]; exact h
  | cons c cs ih =>
    intro a b h hf
    rw [List.foldlM_cons] at hf
    cases hs : firstStep d a c with
    | none => simp [hs] at hf
    | some r =>
      simp only [hs, Option.bind_eq_bind, Option.bind_some] at hf
      refine ih r b ?_ hf
      unfold firstStep at hs
      split at hs
      · split at hs
        · simp only [Option.some.injEq] at hs; rw [← hs]; simp [h]
        · cases hw : exprWires d c.2 with
          | none => simp [hw] at hs
          | some ws =>
            simp only [hw] at hs
            split at hs
            · simp only [Option.some.injEq] at hs; rw [← hs]; simp [h]
            · cases hs
      · cases hs

theorem S2_defs_map (d : Def) (ls : List Def) (f : Def → Def) (h : ∀ l ∈ ls, l.name ≠ d.name) :
    (d :: ls).map (fun x => if x.name == d.name then f x else x) = f d :: ls := by
  simp only [List.map_cons, beq_self_eq_true, if_true]
  congr 1
  conv => rhs; rw [← List.map_id ls]
  apply List.map_congr_left
  intro x hx
  simp [h x hx]

theorem instStep2_run (d : Def) (ls : List Def) (n : Nat) (i : NInst) (d' : Def) (ls' : List Def)
    (inv : LInv d ls) (h : instStep2 d ls i = some (d', ls')) :
    elabItem (S2 d ls n (some d.name)) d.name false i.item = .ok (S2 d' ls' n (some d.name)) ∧ LInv d' ls' ∧
      d'.name = d.name := by
  unfold instStep2 at h
  split at h
  · rename_i hc
    obtain ⟨hfresh, hne⟩ := hc
    have htop : (some d.name : Option String) ≠ some i.mod := by
      intro e; exact hne (Option.some.inj e).symm
    cases hf : ls.find? (fun l => l.name == i.mod) with
    | some rd =>
      simp only [hf, Option.map_eq_some_iff] at h
      obtain ⟨rows, hrows, hr⟩ := h
      simp only [Prod.mk.injEq] at hr
      obtain ⟨e1, e2⟩ := hr
      subst e1 e2
      have hrdm : rd ∈ ls := List.mem_of_find?_eq_some hf
      have hrdn : rd.name = i.mod := by simpa using List.find?_some hf
      have hHd : Has (S2 d ls n (some d.name)) d.name d := Has_S2_top d ls n _ inv.names
      have hHr : Has (S2 d ls n (some d.name)) i.mod rd := by
        rw [← hrdn]; exact Has_S2_leaf d ls n _ rd hrdm (by rw [hrdn]; exact fun e => hne e.symm) inv.nodup
      have hRF : RowsFull (S2 d ls n (some d.name)) i.mod rd.ports.length := by
        intro x hx j hj href
        rcases List.mem_cons.mp hx with e | e
        · rw [e] at hj; exact inv.full j hj rd hrdm (hrdn.trans href.symm)
        · rw [inv.linsts x e] at hj; cases hj
      obtain ⟨s', h1, h2, h3, h4, h5, h6⟩ := instantiate_named (S2 d ls n (some d.name)) d.name i.mod i.name i.params i.attrs
        i.conns d rd rows hHd hHr hne inv.cables hfresh hRF hrows
      refine ⟨?_, ?_, rfl⟩
      · unfold NInst.item elabItem
        simp only [Bool.false_eq_true, if_false]
        rw [h1]
        congr 1
        apply St.ext'
        · rw [h2]; exact S2_defs_map d ls _ inv.names
        · exact h3
        · rw [h6]
          show (if (some d.name == some i.mod) = true then _ else some d.name) = some d.name
          have : ((some d.name : Option String) == some i.mod) = false := by
            simp only [beq_eq_false_iff_ne, ne_eq, Option.some.injEq]; exact fun e => hne e.symm
          simp [this]
        · exact h5
        · exact h4
      · refine ⟨inv.nodup, inv.names, inv.linsts, ?_, ?_, inv.cables⟩
        · intro j hj
          rcases List.mem_append.mp hj with e | e
          · exact inv.closed j e
          · simp only [List.mem_singleton] at e; rw [e]; exact ⟨rd, hrdm, hrdn⟩
        · intro j hj rd' hrd' hn'
          rcases List.mem_append.mp hj with e | e
          · exact inv.full j e rd' hrd' hn'
          · simp only [List.mem_singleton] at e
            rw [e] at hn' ⊢
            have : rd' = rd := nodup_map_inj (·.name) ls inv.nodup rd' hrd' rd hrdm (hn'.trans hrdn.symm)
            rw [this, foldlM_connStep_length d rd i.conns _ rows hrows]; simp
    | none =>
      simp only [hf, Option.map_eq_some_iff] at h
      obtain ⟨r, hr, he⟩ := h
      obtain ⟨ports', rows'⟩ := r
      simp only [Prod.mk.injEq] at he
      obtain ⟨e1, e2⟩ := he
      subst e1 e2
      have hnotin : ∀ l ∈ ls, l.name ≠ i.mod := by
        intro l hl
        have := List.find?_eq_none.mp hf l hl
        simpa using this
      have hothers : ∀ j ∈ d.insts, j.ref ≠ i.mod := by
        intro j hj e
        obtain ⟨rd, hrd, hn⟩ := inv.closed j hj
        exact hnotin rd hrd (hn.trans e)
      refine ⟨?_, ?_, rfl⟩
      · unfold NInst.item elabItem
        simp only [Bool.false_eq_true, if_false]
        exact instantiate_first d ls n (some d.name) i.mod i.name i.params i.attrs i.conns ports' rows' htop
          (fun e => hne e.symm) (fun l hl => ⟨hnotin l hl, inv.names l hl, inv.linsts l hl⟩) inv.nodup hfresh hothers
          inv.cables hr
      · have hlen := firstStep_len d i.conns ([], []) (ports', rows') rfl hr
        refine ⟨?_, ?_, ?_, ?_, ?_, inv.cables⟩
        · rw [List.map_append, List.nodup_append]
          refine ⟨inv.nodup, by simp, ?_⟩
          intro a ha b hb
          simp only [List.map_cons, List.map_nil, List.mem_singleton] at hb
          obtain ⟨l, hl, e⟩ := List.mem_map.mp ha
          rw [hb, ← e]; exact hnotin l hl
        · intro l hl
          rcases List.mem_append.mp hl with e | e
          · exact inv.names l e
          · simp only [List.mem_singleton] at e; rw [e]; exact hne
        · intro l hl
          rcases List.mem_append.mp hl with e | e
          · exact inv.linsts l e
          · simp only [List.mem_singleton] at e; rw [e]
        · intro j hj
          rcases List.mem_append.mp hj with e | e
          · obtain ⟨rd, hrd, hn⟩ := inv.closed j e
            exact ⟨rd, List.mem_append_left _ hrd, hn⟩
          · simp only [List.mem_singleton] at e; rw [e]
            exact ⟨_, List.mem_append_right _ List.mem_cons_self, rfl⟩
        · intro j hj rd hrd hn
          rcases List.mem_append.mp hj with e | e
          · rcases List.mem_append.mp hrd with e2 | e2
            · exact inv.full j e rd e2 hn
            · simp only [List.mem_singleton] at e2
              rw [e2] at hn
              exact absurd hn.symm (hothers j e)
          · simp only [List.mem_singleton] at e
            rw [e] at hn ⊢
            rcases List.mem_append.mp hrd with e2 | e2
            · exact absurd hn (hnotin rd e2)
            · simp only [List.mem_singleton] at e2
              rw [e2]; simp only at hlen ⊢; omega
  · cases h

def foldInst : Def → List Def → List NInst → Option (Def × List Def)
  | d, ls, [] => some (d, ls)
  | d, ls, i :: is =>
    match instStep2 d ls i with
    | some r => foldInst r.1 r.2 is
    | none => none

theorem insts_fold2 (n : Nat) : ∀ (is : List NInst) (d : Def) (ls : List Def) (d' : Def) (ls' : List Def),
    LInv d ls → foldInst d ls is = some (d', ls') →
    (is.map NInst.item).foldlM (fun s it => elabItem s d.name false it) (S2 d ls n (some d.name)) =
      .ok (S2 d' ls' n (some d.name)) ∧ LInv d' ls' ∧ d'.name = d.name := by
  intro is
  induction is with
  | nil =>
    intro d ls d' ls' inv h
    simp only [foldInst, Option.some.injEq, Prod.mk.injEq] at h
    obtain ⟨h1, h2⟩ := h
    subst h1 h2
    exact ⟨rfl, inv, rfl⟩
  | cons i is ih =>
    intro d ls d' ls' inv h
    unfold foldInst at h
    cases hs : instStep2 d ls i with
    | none => simp [hs] at h
    | some r =>
      obtain ⟨d1, ls1⟩ := r
      simp only [hs] at h
      obtain ⟨h1, inv1, hn1⟩ := instStep2_run d ls n i d1 ls1 inv hs
      obtain ⟨h2, inv2, hn2⟩ := ih d1 ls1 d' ls' inv1 h
      refine ⟨?_, inv2, hn2.trans hn1⟩
      simp only [List.map_cons, List.foldlM_cons, bind, Except.bind, h1]
      rw [← hn1]
      exact h2

/-- a whole module as the writer prints it -/
structure WModI where
  name : String
  attrs : Attrs
  ports : List PDecl
  wires : List FWire
  insts : List NInst

def WModI.toModule (m : WModI) : Module :=
  ⟨m.name, false, m.attrs, [], m.ports.map (fun p => ⟨p.name, none, none, none⟩),
   m.ports.map PDecl.item ++ m.wires.map FWire.item ++ m.insts.map NInst.item⟩

/-- the inferred black boxes get their library at the end of the file -/
def markBB (d : Def) : Def :=
  if d.lib.isNone then { d with lib := some "hdi_primitives", primitive := true } else d

/-- the table the reader builds for a file that consists of this one module (pure): the module, then the
    modules it instantiates, in the order of their first instance -/
def buildWI (m : WModI) : Option (List Def × Nat) :=
  match buildW 0 ⟨m.name, [], m.ports, m.wires⟩ with
  | none => none
  | some r3 =>
    if (r3.1.cables.map (·.name)).Nodup then
      match foldInst r3.1 [] m.insts with
      | none => none
      | some r4 =>
        some ((((if m.attrs.isEmpty then r4.1 else { r4.1 with attrs := some m.attrs }) :: r4.2).map markBB), r3.2)
    else none

/-- header stubs, body port declarations, wire declarations (pure), from a given definition -/
def buildW3 (d0 : Def) (n : Nat) (ports : List PDecl) (wires : List FWire) : Option (Def × Nat) :=
  match foldLocal stubStep d0 n (ports.map (·.name)) with
  | none => none
  | some r1 =>
    if (ports.map (·.name)).filterMap (portIdx r1.1) = List.range r1.1.ports.length then
      match foldLocal declStep r1.1 r1.2 ports with
      | none => none
      | some r2 => foldLocal wireStep r2.1 r2.2 wires
    else none

theorem buildW_eq3 (n : Nat) (name : String) (ports : List PDecl) (wires : List FWire) :
    buildW n ⟨name, [], ports, wires⟩ = buildW3 ⟨name, some "work", false, [], none, [], [], []⟩ n ports wires := by
  unfold buildW buildW3
  simp only
  cases foldLocal stubStep _ n (ports.map (·.name)) with
  | none => rfl
  | some r1 =>
    simp only
    split
    · cases foldLocal declStep r1.1 r1.2 ports with
      | none => rfl
      | some r2 =>
        simp only
        cases foldLocal wireStep r2.1 r2.2 wires with
        | none => rfl
        | some r3 => simp
    · rfl

/-- header, reorder, body port declarations, wire declarations: the part of `elabModule` before the instances -/
def wPhases (s3 : St) (name : String) (ports : List PDecl) (wires : List FWire) : M St := do
  let s ← (ports.map (fun (p : PDecl) => (⟨p.name, none, none, none⟩ : HPort))).foldlM (fun s h => match h.alias with
    | some e => headerAlias s name h e
    | none => headerPort s name h) s3
  let s ← reorderPorts s name ((ports.map (fun (p : PDecl) => (⟨p.name, none, none, none⟩ : HPort))).map (·.name))
  let s ← (ports.map PDecl.item).foldlM (fun s it => elabItem s name false it) s
  (wires.map FWire.item).foldlM (fun s it => elabItem s name false it) s

/-- the three declaration phases of a module in the writer's shape, through the real functions -/
theorem wshape_phases (s3 : St) (name : String) (ports : List PDecl) (wires : List FWire) (d0 d3 : Def) (n3 : Nat)
    (hH3 : Has s3 name d0) (hN3 : NoRef s3 name) (hi0 : d0.insts = [])
    (hb : buildW3 d0 s3.next ports wires = some (d3, n3)) :
    wPhases s3 name ports wires = .ok (s3.put name d3 n3) ∧
    d3.name = d0.name ∧ d3.insts = [] := by
  unfold buildW3 at hb
  cases h1 : foldLocal stubStep d0 s3.next (ports.map (·.name)) with
  | none => simp [h1] at hb
  | some r1 =>
    obtain ⟨d1, n1⟩ := r1
    simp only [h1] at hb
    split at hb
    · rename_i hre
      cases h2 : foldLocal declStep d1 n1 ports with
      | none => simp [h2] at hb
      | some r2 =>
        obtain ⟨d2, n2⟩ := r2
        simp only [h2] at hb
        have hpN : ∀ {α : Type} (step : Def → Nat → α → Option (Def × Nat))
            (hs : ∀ d n a d' n', step d n a = some (d', n') → d'.name = d.name ∧ d'.insts = d.insts)
            (as : List α) (d : Def) (n : Nat) (d' : Def) (k : Nat), foldLocal step d n as = some (d', k) →
            d'.name = d.name ∧ d'.insts = d.insts := fun step hs as d n d' k hf =>
          ⟨foldLocal_pres (·.name) step (fun d n a d' n' h => (hs d n a d' n' h).1) as d n d' k hf,
           foldLocal_pres (·.insts) step (fun d n a d' n' h => (hs d n a d' n' h).2) as d n d' k hf⟩
        obtain ⟨hn1, hi1⟩ := hpN stubStep stubStep_name _ _ _ _ _ h1
        obtain ⟨hn2, hi2⟩ := hpN declStep declStep_name _ _ _ _ _ h2
        obtain ⟨hn3, hi3⟩ := hpN wireStep wireStep_name _ _ _ _ _ hb
        have hd0n : d0.name = name := hH3.2.1
        have hF1 : (ports.map (·.name)).foldlM (fun s nm => headerPort s name ⟨nm, none, none, none⟩) s3 =
            .ok (s3.put name d1 n1) :=
          fold_local name _ stubStep (fun S d a d' k hd hn h => stubStep_run name S d a d' k hd hn h)
            _ s3 d0 d1 n1 hH3 hN3 h1
        have hH4 : Has (s3.put name d1 n1) name d1 := hH3.put d1 n1 hn1
        have hN4 : NoRef (s3.put name d1 n1) name := hN3.put d1 n1 (by rw [hi1, hi0]; intro i hi; cases hi)
        have hR : reorderPorts (s3.put name d1 n1) name (ports.map (·.name)) = .ok (s3.put name d1 n1) :=
          reorderPorts_id _ name d1 _ hH4 hre
        have hF2 : ports.foldlM (fun s p => elabItem s name false p.item) (s3.put name d1 n1) =
            .ok ((s3.put name d1 n1).put name d2 n2) :=
          fold_local name _ declStep (fun S d a d' k hd hn h => declStep_run name S d a d' k hd hn h)
            _ _ d1 d2 n2 hH4 hN4 h2
        rw [St.put_put s3 name d1 d2 n1 n2 (hn1.trans hd0n)] at hF2
        have hH5 : Has (s3.put name d2 n2) name d2 := hH3.put d2 n2 (hn2.trans hn1)
        have hN5 : NoRef (s3.put name d2 n2) name := hN3.put d2 n2 (by rw [hi2, hi1, hi0]; intro i hi; cases hi)
        have hF3 : wires.foldlM (fun s w => elabItem s name false w.item) (s3.put name d2 n2) =
            .ok ((s3.put name d2 n2).put name d3 n3) :=
          fold_local name _ wireStep (fun S d a d' k hd hn h => wireStep_run name S d a d' k hd hn h)
            _ _ d2 d3 n3 hH5 hN5 hb
        rw [St.put_put s3 name d2 d3 n2 n3 ((hn2.trans hn1).trans hd0n)] at hF3
        refine ⟨?_, (hn3.trans hn2).trans hn1, by rw [hi3, hi2, hi1, hi0]⟩
        unfold wPhases
        simp only [List.foldlM_map, List.map_map, Function.comp_def, bind, Except.bind]
        have hF1' : List.foldlM (fun x (y : PDecl) => headerPort x name ⟨y.name, none, none, none⟩) s3 ports =
            .ok (s3.put name d1 n1) := by
          have := hF1
          rwa [List.foldlM_map] at this
        simp only [hF1', hR, hF2, hF3]
    · cases hb

theorem put_S2 (d : Def) (ls : List Def) (n : Nat) (t : Option String) (d' : Def) (n' : Nat)
    (h : ∀ l ∈ ls, l.name ≠ d.name) : (S2 d ls n t).put d.name d' n' = S2 d' ls n' t := by
  unfold St.put
  rw [upd_S2_top d ls n t _ h]
  rfl

theorem afterEntry_s0 (name : String) :
    afterEntry ⟨[], 0, none, 0, []⟩ name false = S2 ⟨name, some "work", false, [], none, [], [], []⟩ [] 0 (some name) := by
  unfold afterEntry St.upd S2
  simp

/-- **elabDesign_wsingle.**  A file that consists of one module in the writer's shape — bare names in the header, one
    body declaration per port, `wire` declarations of all nets, instances with named port maps of modules the file
    does not declare — through the REAL `elabDesign`: the table is `buildWI`. -/
theorem elabDesign_wsingle (m : WModI) (defs : List Def) (n : Nat) (hb : buildWI m = some (defs, n)) :
    elabDesign [m.toModule] = .ok ⟨defs, n, some m.name, 0, []⟩ := by
  unfold buildWI at hb
  rw [buildW_eq3] at hb
  generalize hd0 : (⟨m.name, some "work", false, [], none, [], [], []⟩ : Def) = d0 at hb
  have hd0n : d0.name = m.name := by rw [← hd0]
  cases h3 : buildW3 d0 0 m.ports m.wires with
  | none => simp [h3] at hb
  | some r3 =>
    obtain ⟨d3, n3⟩ := r3
    simp only [h3] at hb
    split at hb
    · rename_i hcn
      cases h4 : foldInst d3 [] m.insts with
      | none => simp [h4] at hb
      | some r4 =>
        obtain ⟨d4, ls4⟩ := r4
        simp only [h4, Option.some.injEq, Prod.mk.injEq] at hb
        obtain ⟨hdefs, hn⟩ := hb
        have hs3 : afterEntry ⟨[], 0, none, 0, []⟩ m.name false = S2 d0 [] 0 (some m.name) := by
          rw [← hd0]; exact afterEntry_s0 m.name
        have hH3 : Has (S2 d0 [] 0 (some m.name)) m.name d0 := by
          rw [← hd0n]; exact Has_S2_top d0 [] 0 _ (by intro l hl; cases hl)
        have hN3 : NoRef (S2 d0 [] 0 (some m.name)) m.name := by
          intro x hx i hi
          simp only [S2, List.mem_singleton] at hx
          rw [hx, ← hd0] at hi
          cases hi
        obtain ⟨hP, hn3, hi3⟩ := wshape_phases (S2 d0 [] 0 (some m.name)) m.name m.ports m.wires d0 d3 n3 hH3 hN3
          (by rw [← hd0]) h3
        rw [← hd0n, put_S2 d0 [] 0 _ d3 n3 (by intro l hl; cases hl), hd0n] at hP
        have hd3n : d3.name = m.name := hn3.trans hd0n
        have inv3 : LInv d3 [] := ⟨List.nodup_nil, (by intro l hl; cases hl), (by intro l hl; cases hl),
          (by rw [hi3]; intro j hj; cases hj), (by rw [hi3]; intro j hj; cases hj), hcn⟩
        obtain ⟨hI, inv4, hn4⟩ := insts_fold2 n3 m.insts d3 [] d4 ls4 inv3 h4
        rw [hd3n] at hI
        have hd4n : d4.name = m.name := hn4.trans hd3n
        have hE : elabModule ⟨[], 0, none, 0, []⟩ m.toModule =
            .ok (S2 (if m.attrs.isEmpty then d4 else { d4 with attrs := some m.attrs }) ls4 n3 (some m.name)) := by
          rw [elabModule_eq_tailG _ m.toModule rfl rfl]
          show elabTailG (afterEntry ⟨[], 0, none, 0, []⟩ m.name false) m.toModule = _
          rw [hs3]
          unfold elabTailG
          have hPh : wPhases (S2 d0 [] 0 (some m.name)) m.name m.ports m.wires = .ok (S2 d3 [] n3 (some m.name)) := hP
          unfold wPhases at hPh
          unfold WModI.toModule
          simp only [List.foldlM_append, bind, Except.bind] at hPh ⊢
          generalize hX1 : List.foldlM (m := Except String) _ (S2 d0 [] 0 (some m.name)) _ = X1 at hPh ⊢
          cases X1 with
          | error e => simp at hPh
          | ok v1 =>
            simp only at hPh ⊢
            generalize hX2 : reorderPorts v1 m.name _ = X2 at hPh ⊢
            cases X2 with
            | error e => simp at hPh
            | ok v2 =>
              simp only at hPh ⊢
              generalize hX3 : List.foldlM (m := Except String) _ v2 (List.map PDecl.item m.ports) = X3 at hPh ⊢
              cases X3 with
              | error e => simp at hPh
              | ok v3 =>
                simp only at hPh ⊢
                rw [hPh]
                simp only [hI, pure, Except.pure]
                split
                · rfl
                · rw [← hd4n, upd_S2_top d4 ls4 n3 _ _ (by rw [hd4n]; rw [← hd4n]; exact inv4.names)]
        unfold elabDesign
        simp only [List.foldlM_cons, List.foldlM_nil, bind, Except.bind, hE, pure, Except.pure]
        rw [← hdefs, ← hn]
        rfl
    · cases hb

/-- non-vacuity: the text the writer produces for a top module with three instances of two undeclared primitives
    (`write_blackbox = False`): `module top (a, b, y); input [3:0] a; input b; output [1:0] y;
    wire [2:0] n; wire [1:0] y; wire b; wire [3:0] a;
    LUT2 #(.INIT(4'h8)) u0 (.I0(a[0]), .I1(b), .O(y[0]));
    LUT2 u1 (.I0(n[0]), .I1(), .O(y[1]));
    RAM r0 (.addr({n[2:1], a[3], b}), .q(n[0])); endmodule` -/
def exWI : WModI :=
  ⟨"top", [],
   [⟨"a", .inp, some (3, 0), []⟩, ⟨"b", .inp, none, []⟩, ⟨"y", .out, some (1, 0), []⟩],
   [⟨"n", "wire", some (2, 0), []⟩, ⟨"y", "wire", some (1, 0), []⟩, ⟨"b", "wire", none, []⟩, ⟨"a", "wire", some (3, 0), []⟩],
   [⟨"u0", "LUT2", [("INIT", "4'h8")], [], [("I0", .atom (.bit "a" 0)), ("I1", .atom (.id "b")), ("O", .atom (.bit "y" 0))]⟩,
    ⟨"u1", "LUT2", [], [], [("I0", .atom (.bit "n" 0)), ("I1", .empty), ("O", .atom (.bit "y" 1))]⟩,
    ⟨"r0", "RAM", [], [], [("addr", .cat [.part "n" 2 1, .bit "a" 3, .id "b"]), ("q", .atom (.bit "n" 0))]⟩]⟩

theorem exWI_builds : (buildWI exWI).isSome = true := by decide
end Spydr.Verilog.Elab
