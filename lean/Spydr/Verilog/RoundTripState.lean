/-
  Verilog engine — proof side, part 1: the elaboration state under references that stay inside what is
  declared (no growth): lookups, updates that change nothing, evaluation of expressions.
  New file of the proof-growing task; nothing here is used by the driver.
-/
import Spydr.Verilog.ModelElab
import Spydr.Verilog.Props.C06
theorem nodup_map_inj {α β} (f : α → β) : ∀ (l : List α), (l.map f).Nodup → ∀ x ∈ l, ∀ y ∈ l, f x = f y → x = y := by
  intro l
  induction l with
  | nil => intro _ x hx; cases hx
  | cons a l ih =>
    intro hn x hx y hy e
    rw [List.map_cons, List.nodup_cons] at hn
    rcases List.mem_cons.mp hx with h1 | hx <;> rcases List.mem_cons.mp hy with h2 | hy
    · rw [h1, h2]
    · exact absurd (List.mem_map.mpr ⟨y, hy, by rw [← e, h1]⟩) hn.1
    · exact absurd (List.mem_map.mpr ⟨x, hx, by rw [e, h2]⟩) hn.1
    · exact ih hn.2 x hx y hy e

namespace Spydr.Verilog.Elab
open Spydr.Verilog

/-- the definition table has exactly one entry of that name -/
def Has (s : St) (n : String) (d : Def) : Prop :=
  d ∈ s.defs ∧ d.name = n ∧ ∀ d' ∈ s.defs, d'.name = n → d' = d

theorem Has.find {s : St} {n : String} {d : Def} (h : Has s n d) : s.find n = some d := by
  obtain ⟨hm, hn, hu⟩ := h
  unfold St.find
  cases hf : s.defs.find? (fun d => d.name == n) with
  | none =>
    have := List.find?_eq_none.mp hf d hm
    simp [hn] at this
  | some d' =>
    have h1 := List.mem_of_find?_eq_some hf
    have h2 := List.find?_some hf
    rw [hu d' h1 (by simpa using h2)]

theorem getDef_has {s : St} {n : String} {d : Def} (h : Has s n d) : getDef s n = .ok d := by
  unfold getDef; rw [h.find]; rfl

theorem St.upd_id' (s : St) (n : String) (f : Def → Def) (d : Def) (h : Has s n d) (hf : f d = d) :
    s.upd n f = s := by
  unfold St.upd
  have : s.defs.map (fun d => if d.name == n then f d else d) = s.defs := by
    conv => rhs; rw [← List.map_id s.defs]
    apply List.map_congr_left
    intro d' hd
    by_cases e : d'.name = n
    · rw [h.2.2 d' hd e]; simp [h.2.1, hf]
    · simp [e]
  rw [this]

/-- cable `name` of `d` is `c`, and no other cable of `d` has that name -/
def HasCable (d : Def) (name : String) (c : Cable) : Prop :=
  c ∈ d.cables ∧ c.name = name ∧ ∀ x ∈ d.cables, x.name = name → x = c

theorem HasCable.find {d : Def} {n : String} {c : Cable} (h : HasCable d n c) :
    d.cables.find? (fun c => c.name == n) = some c := by
  obtain ⟨hm, hn, hu⟩ := h
  cases hf : d.cables.find? (fun c => c.name == n) with
  | none =>
    have := List.find?_eq_none.mp hf c hm
    simp [hn] at this
  | some c' =>
    have h1 := List.mem_of_find?_eq_some hf
    have h2 := List.find?_some hf
    rw [hu c' h1 (by simpa using h2)]

theorem fresh_zero (s : St) : fresh s 0 = (s, []) := by
  simp [fresh]

theorem resizeCable_inside (lower : Int) (width : Nat) (l r : Option Int)
    (h : inCable lower width l r = true) : resizeCable lower width l r false = ⟨lower, 0, 0⟩ := by
  unfold resizeCable
  unfold inCable at h
  cases hr : inRange l r with
  | none => rfl
  | some p =>
    obtain ⟨lo, hi⟩ := p
    simp only [hr, Bool.and_eq_true, decide_eq_true_eq] at h
    simp only [Bool.false_eq_true, if_false]
    have h1 : ¬ lo < lower := by omega
    have h2 : ¬ hi > lower + (width : Int) - 1 := by omega
    simp [h1, h2]

/-- referring to bits inside a declared cable does not change the state -/
theorem createOrUpdateCable_inside (s : St) (dn name : String) (l r : Option Int) (d : Def) (c : Cable)
    (hd : Has s dn d) (hc : HasCable d name c) (hin : inCable c.lower c.wires.length l r = true) :
    createOrUpdateCable s dn name l r none false = .ok s := by
  unfold createOrUpdateCable
  rw [getDef_has hd]
  simp only [bind, Except.bind, hc.find, resizeCable_inside _ _ _ _ hin, fresh_zero, pure, Except.pure]
  congr 1
  apply St.upd_id' s dn _ d hd
  have : d.cables.map (fun x => if x.name == name then
      ({ c with lower := c.lower, wires := [] ++ c.wires ++ [], ctype := c.ctype } : Cable) else x) = d.cables := by
    conv => rhs; rw [← List.map_id d.cables]
    apply List.map_congr_left
    intro x hx
    by_cases e : x.name = name
    · rw [hc.2.2 x hx e]; simp [hc.2.1]; have := hc.2.1; cases c; simp_all
    · simp [e]
  simp only [this]

theorem evalAtomE_inside (s : St) (dn : String) (a : XAtom) (d : Def) (c : Cable)
    (hd : Has s dn d) (hc : HasCable d (atomParts a).1 c)
    (hin : inCable c.lower c.wires.length (atomParts a).2.1 (atomParts a).2.2 = true) :
    evalAtomE s dn a = (getWires ⟨c.lower, c.wires⟩ (atomParts a).2.1 (atomParts a).2.2).elim (.error "index") (fun ws => .ok (s, ws)) := by
  unfold evalAtomE
  generalize hp : atomParts a = p at hc hin ⊢
  obtain ⟨n, l, r⟩ := p
  simp only at hc hin ⊢
  simp only [bind, Except.bind, createOrUpdateCable_inside s dn n l r d c hd hc hin, getDef_has hd, hc.find]
  cases getWires ⟨c.lower, c.wires⟩ l r <;> rfl

theorem hasCable_of_find {d : Def} {n : String} {c : Cable} (hn : (d.cables.map (·.name)).Nodup)
    (hf : d.cables.find? (fun c => c.name == n) = some c) : HasCable d n c := by
  have h1 := List.mem_of_find?_eq_some hf
  have h2 : c.name = n := by simpa using List.find?_some hf
  refine ⟨h1, h2, ?_⟩
  intro x hx hxn
  exact nodup_map_inj (·.name) d.cables hn x hx c h1 (by rw [hxn, h2])

/-- the wires an atom denotes in a definition whose cables already contain it (no growth) -/
def atomWires (d : Def) (a : XAtom) : Option (List Nat) :=
  match d.cables.find? (fun c => c.name == (atomParts a).1) with
  | some c =>
    if inCable c.lower c.wires.length (atomParts a).2.1 (atomParts a).2.2 then
      getWires ⟨c.lower, c.wires⟩ (atomParts a).2.1 (atomParts a).2.2
    else none
  | none => none

def atomsWires (d : Def) : List XAtom → Option (List Nat)
  | [] => some []
  | a :: as =>
    match atomWires d a, atomsWires d as with
    | some x, some y => some (x ++ y)
    | _, _ => none

def exprWires (d : Def) : XExpr → Option (List Nat)
  | .empty => some []
  | .atom a => atomWires d a
  | .cat as => atomsWires d as

theorem evalAtomE_fixed (s : St) (dn : String) (a : XAtom) (d : Def) (ws : List Nat)
    (hd : Has s dn d) (hn : (d.cables.map (·.name)).Nodup) (h : atomWires d a = some ws) :
    evalAtomE s dn a = .ok (s, ws) := by
  unfold atomWires at h
  cases hf : d.cables.find? (fun c => c.name == (atomParts a).1) with
  | none => simp [hf] at h
  | some c =>
    simp only [hf] at h
    split at h
    · rename_i hin
      rw [evalAtomE_inside s dn a d c hd (hasCable_of_find hn hf) hin, h]
      rfl
    · cases h

theorem evalAtomsE_fixed (s : St) (dn : String) (as : List XAtom) (d : Def)
    (hd : Has s dn d) (hn : (d.cables.map (·.name)).Nodup) :
    ∀ ws, atomsWires d as = some ws → evalAtomsE s dn as = .ok (s, ws) := by
  induction as with
  | nil => intro ws h; simp [atomsWires] at h; subst h; rfl
  | cons a as ih =>
    intro ws h
    simp only [atomsWires] at h
    cases h1 : atomWires d a with
    | none => simp [h1] at h
    | some x =>
      cases h2 : atomsWires d as with
      | none => simp [h1, h2] at h
      | some y =>
        simp only [h1, h2, Option.some.injEq] at h
        subst h
        simp only [evalAtomsE, bind, Except.bind, evalAtomE_fixed s dn a d x hd hn h1, ih y h2, pure, Except.pure]

theorem evalExprE_fixed (s : St) (dn : String) (e : XExpr) (d : Def) (ws : List Nat)
    (hd : Has s dn d) (hn : (d.cables.map (·.name)).Nodup) (h : exprWires d e = some ws) :
    evalExprE s dn e = .ok (s, ws) := by
  cases e with
  | empty => simp [exprWires] at h; subst h; rfl
  | atom a => exact evalAtomE_fixed s dn a d ws hd hn h
  | cat as => exact evalAtomsE_fixed s dn as d hd hn ws h
end Spydr.Verilog.Elab
