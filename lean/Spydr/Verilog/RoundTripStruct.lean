/-
  Verilog engine — proof side, part 30: `readV (composeV n) ≈ n` from the structural fragment predicate `fragStruct`
  (`c04_text_struct`): no run of the writer or of the lexer over the whole text is part of the predicate any more.
-/
import Spydr.Verilog.RoundTripPieceC
set_option maxHeartbeats 1600000
namespace Spydr.Verilog.Elab
open Spydr.Verilog
open Spydr.Verilog.Text (fixName)

/-! ### `readV (composeV n) ≈ n` from structural conditions only -/

def topTextB (n : Text.WNet) (T : Text.WDef) : Bool :=
  T.lib != "SDN_VERILOG_ASSIGNMENT" && T.lib != "hdi_primitives" && T.params.isNone &&
  T.insts.all (fun i => (match Text.refOf n i.ref with
    | some r => r.lib != "SDN_VERILOG_ASSIGNMENT"
    | none => true) && !(match i.params with | some ps => ps.isEmpty | none => false))

theorem topTextB_sound (n : Text.WNet) (T : Text.WDef) (h : topTextB n T = true) : TopText n T := by
  simp only [topTextB, Bool.and_eq_true, bne_iff_ne, ne_eq, List.all_eq_true, Bool.not_eq_eq_eq_not, Bool.not_true] at h
  obtain ⟨⟨⟨h1, h2⟩, h3⟩, h4⟩ := h
  refine ⟨h1, h2, ?_, ?_⟩
  · cases hp : T.params with
    | none => rfl
    | some v => rw [hp] at h3; simp at h3
  · intro i hi
    obtain ⟨a, b⟩ := h4 i hi
    refine ⟨?_, ?_⟩
    · intro r hr; rw [hr] at a; simpa using a
    · intro e; rw [e] at b; simp at b

/-- the fragment of the end-to-end theorem in structural form (decidable; no run of writer or lexer over the WHOLE
    text — a closed-form reader run over the module (`buildWI`, inside `fragC04`) and a lexer run per piece (`Piece.ok`)
    remain inside the predicate): the netlist clauses (`fragC04`, `topTextB`, `fileOK`), the per-token clauses of the written module (`tokOK`),
    and per PIECE of the rendering: its own lexing check (`Piece.ok`), and that no word runs into the next piece (`adjOK`) -/
def fragStruct (n : Text.WNet) (T : Text.WDef) (kT : Nat) : Bool :=
  match astOf n T with
  | none => false
  | some m =>
    fileOK n kT && fragC04 n T && topTextB n T && tokOK m.toI && (fileP n m).all Piece.ok && adjOK (fileP n m) &&
    Text.isCommentTok ("//netlist name: " ++ fixName n.name)

theorem ports_dir_of_tokOK (m : WModP) (h : tokOK m.toI = true) : ∀ p ∈ m.ports, p.dir ≠ .undef := by
  intro p hp
  simp only [tokOK, modOK, Bool.and_eq_true, List.all_eq_true] at h
  have := h.1.2 (SItem.port p) (by
    simp only [WModP.toI, WModI.sitems, List.mem_append, List.mem_map]
    exact Or.inl (Or.inl ⟨p, hp, rfl⟩))
  simp only [SItem.ok, portOK, Bool.and_eq_true, bne_iff_ne, ne_eq] at this
  exact this.1.1.1

/-- **c04_text_struct.**  The top module's view is preserved by write-then-read (`write_blackbox=False`) for every netlist that
    satisfies the structural fragment predicate.  What the conclusion does not say: see `c04_view` and docs/verilog.md §2a. -/
theorem c04_text_struct (n : Text.WNet) (T : Text.WDef) (kT : Nat) (hT : n.defs.getD kT default = T)
    (h : fragStruct n T kT = true) :
    ∃ text fin s D ls, Text.composeV n optsFrag = .ok (text, fin) ∧ Parse.readV text = .ok s ∧ s.defs = D :: ls ∧
      s.top = some T.name ∧ viewD D = viewT n T ∧ LeafInv n ls := by
  unfold fragStruct at h
  cases hm : astOf n T with
  | none => simp [hm] at h
  | some m =>
    simp only [hm, Bool.and_eq_true] at h
    obtain ⟨⟨⟨⟨⟨⟨h1, h2⟩, h3⟩, h4⟩, h5⟩, h6⟩, h7⟩ := h
    have hclean : cleanToks (tokensOf m.toI) = true := by
      simp only [tokOK, Bool.and_eq_true] at h4; exact h4.2
    have hl := lexR_of_pieces n m (ports_dir_of_tokOK m h4) h5 h6 h7 hclean
    exact c04_text n T (fragFull_of n T kT m hT h1 h2 (topTextB_sound n T h3) hm h4 hl)

theorem exNet_pieces_ok : (fileP exNet exM).all Piece.ok = true := by decide +kernel

/-- non-vacuity of the structural form -/
theorem exNet_struct : fragStruct exNet exTop 0 = true := by
  unfold fragStruct
  rw [exNet_ast]
  simp only
  have a1 : fileOK exNet 0 = true := by decide
  have a3 : topTextB exNet exTop = true := by decide
  have a6 : adjOK (fileP exNet exM) = true := by decide +kernel
  have a7 : Text.isCommentTok ("//netlist name: " ++ fixName exNet.name) = true := by decide +kernel
  rw [a1, exNet_frag, a3, exM_tokOK, exNet_pieces_ok, a6, a7]
  rfl
end Spydr.Verilog.Elab
