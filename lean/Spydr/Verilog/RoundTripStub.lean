/-
  Verilog engine — proof side, part 10: the writer's module shape, declarations.
  A header that lists bare names (`module m (a, b);`) creates one-bit stubs; the body declaration
  `input [msb:lsb] a;` grows stub port and stub cable to the declared range and wires them.
-/
import Spydr.Verilog.RoundTripShape
set_option maxHeartbeats 400000
namespace Spydr.Verilog.Elab
open Spydr.Verilog

/-- `headerPort_new` for any header port without alias: ANSI (direction given) or a bare name -/
theorem headerPort_new' (s : St) (dn : String) (d : Def) (name : String) (odir : Option Dir) (rng : Option (Int × Int))
    (hd : Has s dn d) (hp : portIdx d name = none) (hc : d.cables.find? (fun c => c.name == name) = none)
    (hnr : NoRef s dn) :
    headerPort s dn ⟨name, odir, rng, none⟩ = .ok
      (withNext (s.upd dn (fun x => { x with
          ports := x.ports ++ [wiredPort name (odir.getD .undef) (shapeOf rng).1 (shapeOf rng).2.2 (ids s.next (shapeOf rng).2.1)],
          cables := x.cables ++ [portCable name (shapeOf rng).1 (shapeOf rng).2.2 (ids s.next (shapeOf rng).2.1)] }))
        (s.next + (shapeOf rng).2.1)) := by
  generalize hsh : shapeOf rng = sh
  obtain ⟨lo, w, dt⟩ := sh
  simp only
  -- step 1: the port
  have h1 : createOrUpdatePort s dn name (rngL rng) (rngR rng) odir odir.isSome =
      .ok (s.upd dn (addPort (freePort name (odir.getD .undef) lo dt w))) := by
    unfold createOrUpdatePort
    rw [getDef_has hd]
    simp only [bind, Except.bind, hp, pure, Except.pure]
    have : populateNew (rngL rng) (rngR rng) = (lo, w, dt) := hsh
    simp only [this]
    exact congrArg Except.ok (mapInstRows_noref _ dn _ _ (NoRef_upd s dn dn _ (fun _ => rfl) hnr))
  have hf1 : ∀ x, (addPort (freePort name (odir.getD .undef) lo dt w) x).name = x.name := fun _ => rfl
  have hd1 : Has (s.upd dn (addPort (freePort name (odir.getD .undef) lo dt w))) dn (addPort (freePort name (odir.getD .undef) lo dt w) d) :=
    hd.upd _ hf1
  have hk1 : portIdx (addPort (freePort name (odir.getD .undef) lo dt w) d) name = some d.ports.length :=
    portIdx_append_new d name _ hp rfl
  have hget1 : (addPort (freePort name (odir.getD .undef) lo dt w) d).ports.getD d.ports.length default = freePort name (odir.getD .undef) lo dt w := by
    simp [addPort, List.getD]
  -- step 2: the cable
  have hf2 : ∀ x, (addCable (portCable name lo dt (ids s.next w)) x).name = x.name := fun _ => rfl
  have h2 : ∀ l r, populateNew l r = (lo, w, dt) →
      createOrUpdateCable (s.upd dn (addPort (freePort name (odir.getD .undef) lo dt w))) dn name l r none odir.isSome =
        .ok ((withNext (s.upd dn (addPort (freePort name (odir.getD .undef) lo dt w))) (s.next + w)).upd dn
              (addCable (portCable name lo dt (ids s.next w)))) := by
    intro l r hpop
    unfold createOrUpdateCable
    rw [getDef_has hd1]
    have hfind : (addPort (freePort name (odir.getD .undef) lo dt w) d).cables.find? (fun c => c.name == name) = none := hc
    simp only [bind, Except.bind, hfind, hpop, fresh_eq, pure, Except.pure]
    rfl
  have hd2 : Has ((withNext (s.upd dn (addPort (freePort name (odir.getD .undef) lo dt w))) (s.next + w)).upd dn
      (addCable (portCable name lo dt (ids s.next w)))) dn
      (addCable (portCable name lo dt (ids s.next w)) (addPort (freePort name (odir.getD .undef) lo dt w) d)) := by
    have : Has (withNext (s.upd dn (addPort (freePort name (odir.getD .undef) lo dt w))) (s.next + w)) dn
        (addPort (freePort name (odir.getD .undef) lo dt w) d) := Has.of_defs rfl hd1
    exact this.upd _ hf2
  -- step 3: connecting
  have h3 : connectPortCable ((withNext (s.upd dn (addPort (freePort name (odir.getD .undef) lo dt w))) (s.next + w)).upd dn
      (addCable (portCable name lo dt (ids s.next w)))) dn name =
      .ok (((withNext (s.upd dn (addPort (freePort name (odir.getD .undef) lo dt w))) (s.next + w)).upd dn
        (addCable (portCable name lo dt (ids s.next w)))).upd dn
          (putPort d.ports.length (wiredPort name (odir.getD .undef) lo dt (ids s.next w)))) := by
    unfold connectPortCable
    rw [getDef_has hd2]
    have hk2 : portIdx (addCable (portCable name lo dt (ids s.next w)) (addPort (freePort name (odir.getD .undef) lo dt w) d)) name
        = some d.ports.length := hk1
    have hfc : (addCable (portCable name lo dt (ids s.next w)) (addPort (freePort name (odir.getD .undef) lo dt w) d)).cables.find?
        (fun c => c.name == name) = some (portCable name lo dt (ids s.next w)) :=
      find_append_new d.cables name _ hc rfl
    have hget2 : (addCable (portCable name lo dt (ids s.next w)) (addPort (freePort name (odir.getD .undef) lo dt w) d)).ports.getD
        d.ports.length default = freePort name (odir.getD .undef) lo dt w := hget1
    simp only [bind, Except.bind, hk2, hfc, hget2]
    have hw : (portCable name lo dt (ids s.next w)).wires.length = w := by simp [portCable, ids]
    have hlen : ((freePort name (odir.getD .undef) lo dt w).pins.length != (portCable name lo dt (ids s.next w)).wires.length) = false := by
      rw [hw]; simp [freePort]
    simp only [hlen, Bool.false_eq_true, if_false]
    have hpins : (freePort name (odir.getD .undef) lo dt w).pins = List.replicate (portCable name lo dt (ids s.next w)).wires.length none := by
      rw [hw]; rfl
    rw [hpins, setRow_all]
    rfl
  have hwn : ∀ (S : St) (n : Nat) (m : String) (g : Def → Def), (withNext S n).upd m g = withNext (S.upd m g) n :=
    fun _ _ _ _ => rfl
  have hfin : ((withNext (s.upd dn (addPort (freePort name (odir.getD .undef) lo dt w))) (s.next + w)).upd dn
      (addCable (portCable name lo dt (ids s.next w)))).upd dn
        (putPort d.ports.length (wiredPort name (odir.getD .undef) lo dt (ids s.next w))) =
      withNext (s.upd dn (fun x => { x with
        ports := x.ports ++ [wiredPort name (odir.getD .undef) lo dt (ids s.next w)],
        cables := x.cables ++ [portCable name lo dt (ids s.next w)] })) (s.next + w) := by
    rw [hwn, hwn, St.upd_upd _ _ _ _ hf1]
    rw [St.upd_upd s dn (fun d => addCable (portCable name lo dt (ids s.next w)) (addPort (freePort name (odir.getD .undef) lo dt w) d)) _ (fun x => rfl)]
    congr 1
    apply St.upd_congr s dn _ _ d hd
    simp [addPort, addCable, putPort]
  unfold headerPort
  simp only [bind, Except.bind, h1, getDef_has hd1, hk1, Option.getD_some, hget1]
  have hlr := populateNew_again rng
  rw [hsh] at hlr
  simp only at hlr
  have hfp : (freePort name (odir.getD .undef) lo dt w).lower = lo ∧ (freePort name (odir.getD .undef) lo dt w).pins.length = w ∧
      (freePort name (odir.getD .undef) lo dt w).downto = dt := ⟨rfl, by simp [freePort], rfl⟩
  cases rng with
  | none =>
    simp only [hfp.1, hfp.2.1, hfp.2.2]
    cases dt with
    | true =>
      simp only [if_true] at hlr ⊢
      rw [h2 _ _ hlr]
      simp only [h3]
      rw [hfin]
    | false =>
      simp only [Bool.false_eq_true, if_false] at hlr ⊢
      rw [h2 _ _ hlr]
      simp only [h3]
      rw [hfin]
  | some p =>
    obtain ⟨a, b⟩ := p
    simp only at hlr ⊢
    rw [h2 _ _ hlr]
    simp only [h3]
    rw [hfin]

/-! ### a body port declaration meeting the one-bit stub the header created -/

def stubLo : Option (Int × Int) → Int
  | none => 0
  | some (_, b) => b

def stubExtra : Option (Int × Int) → Nat
  | none => 0
  | some (a, b) => (a - b).toNat

/-- ranges as the writer prints them: `[msb:lsb]` with `msb ≥ lsb` -/
def rngOK : Option (Int × Int) → Prop
  | none => True
  | some (a, b) => b ≤ a

theorem resizeCable_stub (rng : Option (Int × Int)) (h : rngOK rng) :
    resizeCable 0 1 (rngL rng) (rngR rng) true = ⟨stubLo rng, 0, stubExtra rng⟩ := by
  cases rng with
  | none => rfl
  | some p =>
    obtain ⟨a, b⟩ := p
    simp only [rngOK] at h
    simp only [resizeCable, rngL, rngR, Option.map_some, inRange, if_true, stubLo, stubExtra]
    have h1 : min a b = b := by omega
    have h2 : max a b = a := by omega
    rw [h1, h2]
    have h3 : ¬ b < b := by omega
    simp only [h3, if_false]
    congr 1
    · simp
    · split <;> omega

theorem resizePort_stub (rng : Option (Int × Int)) (h : rngOK rng) :
    resizePort 0 1 (rngL rng) (rngR rng) true = ⟨stubLo rng, 0, stubExtra rng⟩ := by
  cases rng with
  | none => rfl
  | some p =>
    obtain ⟨a, b⟩ := p
    simp only [rngOK] at h
    simp only [resizePort, rngL, rngR, Option.map_some, inRange, if_true, stubLo, stubExtra]
    have h1 : min a b = b := by omega
    have h2 : max a b = a := by omega
    rw [h1, h2]
    split
    · rename_i e
      congr 1
      omega
    · have h3 : ¬ b < b := by omega
      simp only [h3, if_false]
      congr 1
      · simp
      · split <;> omega

theorem getWires_stub (rng : Option (Int × Int)) (h : rngOK rng) (xs : List Nat) (hx : xs.length = stubExtra rng + 1) :
    getWires ⟨stubLo rng, xs⟩ (rngL rng) (rngR rng) = some xs.reverse := by
  cases rng with
  | none => rfl
  | some p =>
    obtain ⟨a, b⟩ := p
    simp only [rngOK] at h
    simp only [stubExtra] at hx
    simp only [getWires, rngL, rngR, Option.map_some, stubLo]
    have h1 : min (a - b) (b - b) = 0 := by omega
    have h2 : max (a - b) (b - b) + 1 = (xs.length : Int) := by omega
    rw [h1, h2, pySlice_inrange _ _ _ (by omega) (by omega) (by omega)]
    simp

theorem filter_range_single (p : Nat → Bool) : ∀ (n k : Nat), k < n → p k = true →
    (∀ j, j < n → j ≠ k → p j = false) → (List.range n).filter p = [k] := by
  intro n
  induction n with
  | zero => intro k hk; omega
  | succ n ih =>
    intro k hk hpk hnp
    rw [List.range_succ, List.filter_append]
    by_cases e : k = n
    · subst e
      have : (List.range k).filter p = [] := by
        apply List.filter_eq_nil_iff.mpr
        intro j hj
        have := List.mem_range.mp hj
        simp [hnp j (by omega) (by omega)]
      rw [this]
      simp [hpk]
    · rw [ih k (by omega) hpk (fun j hj hne => hnp j (by omega) hne)]
      simp [hnp n (by omega) (fun h => e h.symm)]

/-- filling the still unconnected pins of a port with the wires of its cable, index by index -/
theorem fill_fold (ws : List Nat) (f : List (Option Nat) → Nat → List (Option Nat))
    (hf1 : ∀ row i v, row.getD i none = some v → f row i = row)
    (hf2 : ∀ row i, row.getD i none = none → f row i = row.set i (some (ws.getD i 0))) :
    ∀ (n : Nat) (row : List (Option Nat)), row.length = ws.length → n ≤ ws.length →
    (∀ i, i < ws.length → row.getD i none = none ∨ row.getD i none = some (ws.getD i 0)) →
    (∀ i, i < ws.length - n → row.getD i none = some (ws.getD i 0)) →
    ((List.range n).map (· + (ws.length - n))).foldl f row = ws.map some := by
  intro n
  induction n with
  | zero =>
    intro row hl _ _ hdone
    simp only [List.range_zero, List.map_nil, List.foldl_nil]
    apply List.ext_getElem?
    intro i
    by_cases hi : i < ws.length
    · have := hdone i (by omega)
      rw [List.getD_eq_getElem?_getD, List.getElem?_eq_getElem (by omega)] at this
      simp only [Option.getD_some] at this
      rw [List.getElem?_eq_getElem (by omega), this, List.getElem?_map, List.getElem?_eq_getElem hi]
      simp [List.getD, List.getElem?_eq_getElem hi]
    · rw [List.getElem?_eq_none (by omega), List.getElem?_eq_none (by simp; omega)]
  | succ n ih =>
    intro row hl hn hall hdone
    have hrange : (List.range (n + 1)).map (· + (ws.length - (n + 1))) =
        (ws.length - (n + 1)) :: (List.range n).map (· + (ws.length - n)) := by
      rw [List.range_succ_eq_map]
      simp only [List.map_cons, List.map_map, Nat.zero_add]
      congr 1
      apply List.map_congr_left
      intro x _
      simp only [Function.comp]
      omega
    rw [hrange, List.foldl_cons]
    generalize hj : ws.length - (n + 1) = j
    have hjl : j < ws.length := by omega
    cases hrow : row.getD j none with
    | some v =>
      rw [hf1 row j v hrow]
      apply ih row hl (by omega) hall
      intro i hi
      by_cases e : i = j
      · subst e
        rcases hall i hjl with h | h
        · rw [h] at hrow; cases hrow
        · exact h
      · exact hdone i (by omega)
    | none =>
      rw [hf2 row j hrow]
      apply ih
      · simp [hl]
      · omega
      · intro i hi
        by_cases e : i = j
        · subst e
          right
          rw [List.getD_eq_getElem?_getD, List.getElem?_set_self (by omega)]
          rfl
        · rw [List.getD_eq_getElem?_getD, List.getElem?_set_ne (fun h => e h.symm), ← List.getD_eq_getElem?_getD]
          exact hall i hi
      · intro i hi
        by_cases e : i = j
        · subst e
          rw [List.getD_eq_getElem?_getD, List.getElem?_set_self (by omega)]
          rfl
        · rw [List.getD_eq_getElem?_getD, List.getElem?_set_ne (fun h => e h.symm), ← List.getD_eq_getElem?_getD]
          exact hdone i (by omega)

def setCable (name : String) (c : Cable) : Def → Def := fun d =>
  { d with cables := d.cables.map (fun x => if x.name == name then c else x) }

def grownCable (c0 : Cable) (rng : Option (Int × Int)) (next : Nat) : Cable :=
  { c0 with lower := stubLo rng, wires := c0.wires ++ ids next (stubExtra rng) }

def grownPort (p0 : Port) (dir : Dir) (rng : Option (Int × Int)) (ws : List Nat) (attrs : Attrs) : Port :=
  { p0 with lower := stubLo rng, pins := ws.map some, dir := dir,
            attrs := if attrs.isEmpty then p0.attrs else some attrs }

theorem cable_grow (s : St) (dn name : String) (d : Def) (rng : Option (Int × Int)) (c0 : Cable) (w0 : Nat)
    (hd : Has s dn d) (hr : rngOK rng) (hc : HasCable d name c0) (hc0l : c0.lower = 0) (hc0w : c0.wires = [w0]) :
    createOrUpdateCable s dn name (rngL rng) (rngR rng) none true =
      .ok (withNext (s.upd dn (setCable name (grownCable c0 rng s.next))) (s.next + stubExtra rng)) := by
  unfold createOrUpdateCable
  rw [getDef_has hd]
  have hlen : c0.wires.length = 1 := by rw [hc0w]; rfl
  simp only [bind, Except.bind, hc.find, hc0l, hlen, resizeCable_stub rng hr, fresh_eq, pure, Except.pure]
  congr 1

theorem port_grow (s : St) (dn name : String) (d : Def) (k : Nat) (dir : Dir) (rng : Option (Int × Int)) (p0 : Port) (w0 : Nat)
    (hd : Has s dn d) (hnr : NoRef s dn) (hr : rngOK rng) (hk : portIdx d name = some k)
    (hp0 : d.ports.getD k default = p0) (hp0l : p0.lower = 0) (hp0p : p0.pins = [some w0]) :
    createOrUpdatePort s dn name (rngL rng) (rngR rng) (some dir) true =
      .ok (s.upd dn (putPort k { p0 with lower := stubLo rng, pins := some w0 :: List.replicate (stubExtra rng) none, dir := dir })) := by
  unfold createOrUpdatePort
  rw [getDef_has hd]
  have hlen : p0.pins.length = 1 := by rw [hp0p]; rfl
  simp only [bind, Except.bind, hk, hp0, hp0l, hlen, resizePort_stub rng hr, pure, Except.pure]
  have hm : ∀ (g : Def → Def) (f : List (Option Nat) → List (Option Nat)), (∀ x, (g x).insts = x.insts) →
      mapInstRows (s.upd dn g) dn k f = s.upd dn g :=
    fun g f hg => mapInstRows_noref _ dn _ _ (NoRef_upd s dn dn g hg hnr)
  rw [hm]
  · congr 1
    apply congrArg (St.upd s dn)
    funext x
    simp only [putPort, hp0p, List.replicate_zero, List.nil_append, List.singleton_append]
  · intro x; rfl

theorem find_setCable (d : Def) (name : String) (c0 c : Cable) (hc : HasCable d name c0) (hn : c.name = name) :
    (setCable name c d).cables.find? (fun x => x.name == name) = some c := by
  have hf := hc.find
  simp only [setCable]
  rw [List.find?_map]
  have : ((fun x => x.name == name) ∘ fun x => if (x.name == name) = true then c else x) = (fun x : Cable => x.name == name) := by
    funext x
    simp only [Function.comp]
    split
    · rename_i h; simp [hn, h]
    · rfl
  rw [this, hf]
  simp [hc.2.1]

theorem ids_ge (n w x : Nat) (h : x ∈ ids n w) : n ≤ x := by
  unfold ids at h
  obtain ⟨a, _, e⟩ := List.mem_map.mp h
  omega

theorem map_attr_single (ps : List Port) (k : Nat) (name : String) (P : Port) (a : Attrs)
    (hn : (ps.map (·.name)).Nodup) (hk : k < ps.length) (hP : ps.getD k default = P) (hPn : P.name = some name) :
    ps.map (fun p => if p.name == some name then { p with attrs := some a } else p) = ps.set k { P with attrs := some a } := by
  apply List.ext_getElem?
  intro j
  rw [List.getElem?_map]
  by_cases hj : j < ps.length
  · rw [List.getElem?_eq_getElem hj]
    have hPk : ps[k] = P := by
      rw [← hP]; simp [List.getD, List.getElem?_eq_getElem hk]
    by_cases e : j = k
    · subst e
      rw [List.getElem?_set_self hj]
      simp [hPk, hPn]
    · rw [List.getElem?_set_ne (fun h => e h.symm), List.getElem?_eq_getElem hj]
      have hne : ps[j].name ≠ some name := by
        intro h
        apply e
        have h1 : (ps.map (·.name))[j]'(by simpa using hj) = (ps.map (·.name))[k]'(by simpa using hk) := by
          simp [h, hPk, hPn]
        exact (List.getElem_inj hn).mp h1
      simp [hne]
  · rw [List.getElem?_eq_none (by omega), List.getElem?_eq_none (by simp; omega)]
    rfl

theorem portIdx_set_same (d : Def) (name : String) (k : Nat) (P : Port) (hk : portIdx d name = some k)
    (hP : P.name = some name) : portIdx (putPort k P d) name = some k := by
  unfold portIdx at hk ⊢
  simp only [putPort]
  rw [List.findIdx?_eq_some_iff_getElem] at hk ⊢
  obtain ⟨hlt, hp, hbefore⟩ := hk
  refine ⟨by simpa using hlt, ?_, ?_⟩
  · simp [hP]
  · intro j hj
    rw [List.getElem_set_ne (by omega)]
    exact hbefore j hj

theorem fill_all (ws : List Nat) (f : List (Option Nat) → Nat → List (Option Nat))
    (hf1 : ∀ row i v, row.getD i none = some v → f row i = row)
    (hf2 : ∀ row i, row.getD i none = none → f row i = row.set i (some (ws.getD i 0)))
    (row : List (Option Nat)) (hl : row.length = ws.length)
    (hall : ∀ i, i < ws.length → row.getD i none = none ∨ row.getD i none = some (ws.getD i 0)) :
    (List.range ws.length).foldl f row = ws.map some := by
  have := fill_fold ws f hf1 hf2 ws.length row hl (Nat.le_refl _) hall (by intro i hi; omega)
  simpa using this

/-- **portDecl_stub.**  `input [msb:lsb] name ;` in the body of a module whose header listed `name`: the one-bit
    stub port and cable grow to the declared range, the port gets its direction (and attributes), every new pin
    is wired to the new wire of the same index. -/
theorem portDecl_stub (s : St) (dn : String) (d : Def) (k : Nat) (name : String) (dir : Dir) (rng : Option (Int × Int))
    (attrs : Attrs) (p0 : Port) (c0 : Cable) (w0 : Nat)
    (hd : Has s dn d) (hnr : NoRef s dn) (hr : rngOK rng)
    (hk : portIdx d name = some k) (hpn : (d.ports.map (·.name)).Nodup)
    (hp0 : d.ports.getD k default = p0) (hp0n : p0.name = some name) (hp0l : p0.lower = 0) (hp0p : p0.pins = [some w0])
    (hc : HasCable d name c0) (hc0l : c0.lower = 0) (hc0w : c0.wires = [w0])
    (hown : ∀ j, j < d.ports.length → j ≠ k → ∀ w, some w ∈ (d.ports.getD j default).pins → w ≠ w0 ∧ w < s.next) :
    portDecl s dn dir none rng name attrs = .ok (withNext (s.upd dn (fun x => { x with
      ports := x.ports.set k (grownPort p0 dir rng (w0 :: ids s.next (stubExtra rng)) attrs),
      cables := x.cables.map (fun y => if y.name == name then grownCable c0 rng s.next else y) }))
      (s.next + stubExtra rng)) := by
  have hklt := portIdx_lt hk
  -- 1. the cable
  generalize hC : grownCable c0 rng s.next = C
  have hCn : C.name = name := by rw [← hC]; exact hc.2.1
  have hCl : C.lower = stubLo rng := by rw [← hC]; rfl
  have hCw : C.wires = w0 :: ids s.next (stubExtra rng) := by rw [← hC]; simp [grownCable, hc0w]
  have hCwl : C.wires.length = stubExtra rng + 1 := by rw [hCw]; simp [ids]
  have h1 := cable_grow s dn name d rng c0 w0 hd hr hc hc0l hc0w
  rw [hC] at h1
  have hf1 : ∀ x, (setCable name C x).name = x.name := fun _ => rfl
  have hd1 : Has (withNext (s.upd dn (setCable name C)) (s.next + stubExtra rng)) dn (setCable name C d) :=
    Has.of_defs rfl (hd.upd _ hf1)
  have hnr1 : NoRef (withNext (s.upd dn (setCable name C)) (s.next + stubExtra rng)) dn :=
    NoRef.of_defs rfl (NoRef_upd s dn dn _ (fun _ => rfl) hnr)
  have hfc1 : (setCable name C d).cables.find? (fun x => x.name == name) = some C := find_setCable d name c0 C hc hCn
  -- 2. the port that owns the wires
  have hgw : getWires ⟨C.lower, C.wires⟩ (rngL rng) (rngR rng) = some C.wires.reverse := by
    rw [hCl]; exact getWires_stub rng hr C.wires hCwl
  have hpow : portsOnWires (setCable name C d) C.wires.reverse = [k] := by
    unfold portsOnWires
    apply filter_range_single _ _ k hklt
    · show ((d.ports.getD k default).pins.any _) = true
      rw [hp0, hp0p]
      simp [hCw]
    · intro j hj hne
      show ((d.ports.getD j default).pins.any _) = false
      rw [List.any_eq_false]
      intro p hp
      cases p with
      | none => simp
      | some w =>
        obtain ⟨h1, h2⟩ := hown j hj hne w hp
        simp only [List.contains_reverse, hCw, List.contains_cons, Bool.or_eq_true, beq_iff_eq, List.contains_iff_mem, not_or]
        refine ⟨h1, ?_⟩
        intro hm
        have := ids_ge _ _ _ hm
        omega
  have hnm : ((setCable name C d).ports.getD k default).name.getD "" = name := by
    show ((d.ports.getD k default).name).getD "" = name
    rw [hp0, hp0n]; rfl
  -- 3. the port grows
  have h3 := port_grow (withNext (s.upd dn (setCable name C)) (s.next + stubExtra rng)) dn name (setCable name C d) k dir rng
    p0 w0 hd1 hnr1 hr hk hp0 hp0l hp0p
  generalize hP1 : ({ p0 with lower := stubLo rng, pins := some w0 :: List.replicate (stubExtra rng) none, dir := dir } : Port) = P1 at h3
  have hP1n : P1.name = some name := by rw [← hP1]; exact hp0n
  have hf3 : ∀ x, (putPort k P1 x).name = x.name := fun _ => rfl
  have hd3 := hd1.upd (putPort k P1) hf3
  -- 4. attributes
  generalize hP2 : ({ P1 with attrs := if attrs.isEmpty then P1.attrs else some attrs } : Port) = P2
  have hP2n : P2.name = some name := by rw [← hP2]; exact hP1n
  have h4 : (if attrs.isEmpty = true then (withNext (s.upd dn (setCable name C)) (s.next + stubExtra rng)).upd dn (putPort k P1)
      else ((withNext (s.upd dn (setCable name C)) (s.next + stubExtra rng)).upd dn (putPort k P1)).upd dn (fun d => { d with ports := d.ports.map (fun p =>
        if p.name == some name then { p with attrs := some attrs } else p) })) =
      (withNext (s.upd dn (setCable name C)) (s.next + stubExtra rng)).upd dn (putPort k P2) := by
    split
    · rename_i he
      rw [← hP2]; simp only [he, if_true]
    · rename_i he
      rw [St.upd_upd _ _ _ _ hf3]
      apply St.upd_congr _ dn _ _ _ hd1
      simp only [putPort, setCable]
      congr 1
      have hlen : k < (d.ports.set k P1).length := by simpa using hklt
      have hnd : ((d.ports.set k P1).map (·.name)).Nodup := by
        have : (d.ports.set k P1).map (·.name) = d.ports.map (·.name) := by
          rw [List.map_set]
          apply List.ext_getElem?
          intro j
          by_cases e : j = k
          · subst e
            rw [List.getElem?_set_self (by simpa using hklt), List.getElem?_map, List.getElem?_eq_getElem hklt, hP1n]
            have : d.ports[j] = p0 := by rw [← hp0]; simp [List.getD, List.getElem?_eq_getElem hklt]
            simp [this, hp0n]
          · rw [List.getElem?_set_ne (fun h => e h.symm)]
        rw [this]; exact hpn
      rw [map_attr_single (d.ports.set k P1) k name P1 attrs hnd hlen (by simp [List.getD, List.getElem?_set_self hklt]) hP1n]
      rw [List.set_set, ← hP2]
      simp [he]
  have hd4 : Has ((withNext (s.upd dn (setCable name C)) (s.next + stubExtra rng)).upd dn (putPort k P2)) dn
      (putPort k P2 (setCable name C d)) := hd1.upd (putPort k P2) (fun _ => rfl)
  have hfc4 : (putPort k P2 (setCable name C d)).cables.find? (fun x => x.name == name) = some C := hfc1
  have hk4 : portIdx (putPort k P2 (setCable name C d)) name = some k := portIdx_set_same _ name k P2 hk hP2n
  have hget4 : (putPort k P2 (setCable name C d)).ports.getD k default = P2 := by
    simp [putPort, setCable, List.getD, List.getElem?_set_self hklt]
  have hP2p : P2.pins = some w0 :: List.replicate (stubExtra rng) none := by rw [← hP2, ← hP1]
  -- assemble
  unfold portDecl
  simp only [bind, Except.bind, h1, getDef_has hd1, hfc1, hgw, hpow, hnm, h3, pure, Except.pure]
  rw [h4]
  simp only [getDef_has hd4, hfc4, hk4, hget4]
  have hwn : ∀ (S : St) (n : Nat) (m : String) (g : Def → Def), (withNext S n).upd m g = withNext (S.upd m g) n :=
    fun _ _ _ _ => rfl
  by_cases hex : stubExtra rng = 0
  · have hlen1 : ¬ (C.wires.length > 1) := by rw [hCwl, hex]; omega
    simp only [hlen1, if_false]
    congr 1
    rw [hwn, St.upd_upd _ _ _ _ hf1]
    congr 1
    apply St.upd_congr s dn _ _ d hd
    simp only [putPort, setCable]
    congr 1
    rw [← hP2, ← hP1]
    simp [grownPort, hex, ids]
  · have hlen1 : C.wires.length > 1 := by rw [hCwl]; omega
    simp only [hlen1, if_true]
    have hpl : (P2.pins.length != C.wires.length) = false := by
      rw [hP2p, hCwl]; simp
    simp only [hpl, Bool.false_eq_true, if_false]
    generalize hF : List.foldl _ P2.pins (List.range C.wires.length) = F
    have hFe : F = C.wires.map some := by
      rw [← hF]
      apply fill_all C.wires
      · intro row i v h; simp only [h]
      · intro row i h; simp only [h]
      · rw [hP2p, hCwl]; simp
      · intro i hi
        rw [hP2p, hCw]
        cases i with
        | zero => right; rfl
        | succ i =>
          left
          simp only [List.getD_cons_succ]
          rw [List.getD_eq_getElem?_getD, List.getElem?_replicate]
          split <;> rfl
    rw [hFe]
    congr 1
    rw [hwn, hwn, St.upd_upd _ _ _ _ hf1, St.upd_upd s dn (fun d => putPort k P2 (setCable name C d)) _ (fun _ => rfl)]
    congr 1
    apply St.upd_congr s dn _ _ d hd
    simp only [putPort, setCable, List.set_set]
    congr 1
    rw [← hP2, ← hP1, hCw]
    simp [grownPort]
end Spydr.Verilog.Elab
