/-
  Verilog engine — proof side, part 22: `readV (composeV n) ≈ n` on the fragment `fragFull` (`c04_text`), the character
  level being a decidable condition on the netlist (`lexOK`: the writer's text lexes into the tokens of the written module).
-/
import Spydr.Verilog.RoundTripTokD
set_option maxHeartbeats 800000
namespace Spydr.Verilog.Elab
open Spydr.Verilog
open Spydr.Verilog.Parse

/-! ### end to end: `readV (composeV n)` -/

theorem preprocess_comments : ∀ (cs ts : Toks) (f : Nat), (∀ c ∈ cs, Text.isCommentTok c = true) →
    preprocess (f + cs.length) (cs ++ ts) false = preprocess f ts false := by
  intro cs
  induction cs with
  | nil => intro ts f _; rfl
  | cons c cs ih =>
    intro ts f h
    have : f + (c :: cs).length = (f + cs.length) + 1 := by simp; omega
    rw [this, List.cons_append]
    conv => lhs; unfold preprocess
    simp only [h c List.mem_cons_self, if_true]
    exact ih ts f (fun x hx => h x (List.mem_cons_of_mem _ hx))

theorem mem_takeWhile {α : Type} (p : α → Bool) : ∀ (l : List α) (x : α), x ∈ l.takeWhile p → p x = true := by
  intro l
  induction l with
  | nil => intro x h; simp at h
  | cons a l ih =>
    intro x h
    simp only [List.takeWhile_cons] at h
    split at h
    · rename_i hp
      rcases List.mem_cons.mp h with e | e
      · rw [e]; exact hp
      · exact ih x e
    · cases h

theorem parseV_comments (cs ts : Toks) (hc : ∀ c ∈ cs, Text.isCommentTok c = true) (hts : cleanToks ts = true) :
    parseV (cs ++ ts) = parseV ts := by
  unfold parseV
  have h1 : preprocess ((cs ++ ts).length + 1) (cs ++ ts) false = .ok ts := by
    have : (cs ++ ts).length + 1 = (ts.length + 1) + cs.length := by simp; omega
    rw [this, preprocess_comments cs ts _ hc]
    exact preprocess_clean ts _ (Nat.le_refl _) hts
  rw [h1, preprocess_clean ts _ (Nat.le_refl _) hts]

/-- the options of the fragment: everything is written from the top, primitives are not written, parameters in `#( )` -/
def optsFrag : Text.Opts := ⟨none, false, false⟩

/-- the character level, as a decidable condition on the netlist: the text the writer produces lexes into the comment
    lines of the file header followed by exactly the tokens of the module `astOf n T` -/
def lexOK (n : Text.WNet) (T : Text.WDef) : Bool :=
  match Text.composeV n optsFrag, astOf n T with
  | .ok (text, _), some m => (Text.lexV text).dropWhile Text.isCommentTok == tokensOf m.toI
  | _, _ => false

/-- the fragment of the end-to-end theorem (decidable) -/
def fragFull (n : Text.WNet) (T : Text.WDef) : Bool :=
  fragC04 n T && (match astOf n T with | some m => tokOK m.toI | none => false) && lexOK n T

/-- **c04_text.**  The top module's view is preserved by write-then-read (options `optsFrag` = `write_blackbox=False`, NOT the
    default of `sdn.compose`; see docs/verilog.md §2a) on the fragment: the text the writer produces for a netlist of `fragFull`,
    read by the whole reader from characters (`lexV`, `parseV`, `elabDesign`), is accepted, its top is the netlist's top
    definition, and that definition shows the same view. -/
theorem c04_text (n : Text.WNet) (T : Text.WDef) (h : fragFull n T = true) :
    ∃ text fin s D ls, Text.composeV n optsFrag = .ok (text, fin) ∧ readV text = .ok s ∧ s.defs = D :: ls ∧
      s.top = some T.name ∧ viewD D = viewT n T ∧ LeafInv n ls := by
  unfold fragFull at h
  simp only [Bool.and_eq_true] at h
  obtain ⟨⟨hf, ht⟩, hl⟩ := h
  cases hm : astOf n T with
  | none => simp [hm] at ht
  | some m =>
    simp only [hm] at ht
    obtain ⟨m', s, D, ls, h1, h2, h3, h4, h5, h6⟩ := c04_tokens n T hf (by
      intro m2 hm2; rw [hm] at hm2; rw [← Option.some.inj hm2]; exact ht)
    rw [hm] at h1
    have : m' = m := (Option.some.inj h1).symm
    subst this
    unfold lexOK at hl
    cases hc : Text.composeV n optsFrag with
    | error e => simp [hc] at hl
    | ok r =>
      obtain ⟨text, fin⟩ := r
      simp only [hc, hm, beq_iff_eq] at hl
      refine ⟨text, fin, s, D, ls, rfl, ?_, h3, h4, h5, h6⟩
      rw [readV_eq]
      have hsplit : Text.lexV text = (Text.lexV text).takeWhile Text.isCommentTok ++ tokensOf m'.toI := by
        rw [← hl]; exact (List.takeWhile_append_dropWhile).symm
      have hclean : cleanToks (tokensOf m'.toI) = true := by
        simp only [tokOK, Bool.and_eq_true] at ht; exact ht.2
      unfold readT at h2 ⊢
      rw [hsplit, parseV_comments _ _ (fun c hc => mem_takeWhile _ _ c hc) hclean]
      exact h2

set_option maxRecDepth 1000000 in
theorem exNet_lexOK : lexOK exNet exTop = true := by decide +kernel

/-- non-vacuity of the end-to-end theorem -/
theorem exNet_full : fragFull exNet exTop = true := by
  unfold fragFull
  rw [exNet_frag, exNet_lexOK, exNet_ast]
  simp only [exM_tokOK, Bool.and_self]

/-- the end-to-end statement on the example netlist, unconditionally -/
theorem exNet_roundtrip :
    ∃ text fin s D ls, Text.composeV exNet optsFrag = .ok (text, fin) ∧ readV text = .ok s ∧ s.defs = D :: ls ∧
      s.top = some exTop.name ∧ viewD D = viewT exNet exTop ∧ LeafInv exNet ls :=
  c04_text exNet exTop exNet_full
end Spydr.Verilog.Elab
