/-
  Verilog engine — proof side, part 18: token level, expressions and attributes.  `parse (print x ++ rest) = (x, rest)`
  for atoms, concatenations, expressions and `(* *)` groups of the fragment, over the REAL parser functions.
-/
import Spydr.Verilog.RoundTripView
import Spydr.Verilog.ModelParse
set_option maxHeartbeats 400000
namespace Spydr.Verilog.Elab
open Spydr.Verilog
open Spydr.Verilog.Parse

/-! ### tokens -/

/-- words the parser tests a token against -/
def reserved : List String :=
  ["(", ")", "[", "]", "{", "}", ",", ";", ".", ":", "#", "*", "=", "module", "endmodule", "input", "output", "inout",
   "wire", "reg", "tri0", "tri1", "assign", "defparam", "primitive", "endprimitive", "parameter"]

/-- `t` is the token of the name `nm` (decidable; every clause is something the parser looks at) -/
def nameTokB (t nm : String) : Bool :=
  validIdent t && strip t == nm && !(reserved.contains t) && !(Text.isCommentTok t) && !(t.startsWith "`") &&
  (match t.toList with
   | c :: _ => !c.isDigit
   | [] => false)

structure NameTok (t nm : String) : Prop where
  valid : validIdent t = true
  strip : Parse.strip t = nm
  res : ∀ r ∈ reserved, (t == r) = false
  nocomment : Text.isCommentTok t = false
  notick : t.startsWith "`" = false
  first : ∃ c cs, t.toList = c :: cs ∧ c.isDigit = false

theorem nameTok_sound (t nm : String) (h : nameTokB t nm = true) : NameTok t nm := by
  unfold nameTokB at h
  simp only [Bool.and_eq_true, Bool.not_eq_eq_eq_not, Bool.not_true, beq_iff_eq] at h
  obtain ⟨⟨⟨⟨⟨h1, h2⟩, h3⟩, h4⟩, h5⟩, h6⟩ := h
  refine ⟨h1, h2, ?_, h4, h5, ?_⟩
  · intro r hr
    cases hb : (t == r) with
    | false => rfl
    | true =>
      have : t = r := by simpa using hb
      subst this
      have : reserved.contains t = true := List.contains_iff_mem.mpr hr
      rw [this] at h3; cases h3
  · cases hl : t.toList with
    | nil => simp [hl] at h6
    | cons c cs => exact ⟨c, cs, rfl, by simpa [hl] using h6⟩

/-- the integer prints as a token the parser reads back -/
def intTokB (i : Int) : Bool :=
  numericTok (Text.showInt i) && (match toInt (Text.showInt i) with | .ok j => j == i | .error _ => false) &&
  !(reserved.contains (Text.showInt i))

theorem intTok_sound (i : Int) (h : intTokB i = true) :
    numericTok (Text.showInt i) = true ∧ toInt (Text.showInt i) = .ok i ∧ ∀ r ∈ reserved, (Text.showInt i == r) = false := by
  unfold intTokB at h
  simp only [Bool.and_eq_true, Bool.not_eq_eq_eq_not, Bool.not_true] at h
  obtain ⟨⟨h1, h2⟩, h3⟩ := h
  refine ⟨h1, ?_, ?_⟩
  · cases ht : toInt (Text.showInt i) with
    | error e => simp [ht] at h2
    | ok j => simp only [ht, beq_iff_eq] at h2; rw [h2]
  · intro r hr
    cases hb : (Text.showInt i == r) with
    | false => rfl
    | true =>
      have : Text.showInt i = r := by simpa using hb
      have hc : reserved.contains (Text.showInt i) = true := List.contains_iff_mem.mpr (this ▸ hr)
      rw [hc] at h3; cases h3

/-- the token a name is written as -/
def nameT (nm : String) : String := Text.fixName nm

def rangeToks : Option (Int × Int) → List String
  | none => []
  | some (a, b) => ["[", Text.showInt a, ":", Text.showInt b, "]"]

def atomToks : XAtom → List String
  | .id n => [nameT n]
  | .bit n i => [nameT n, "[", Text.showInt i, "]"]
  | .part n l r => [nameT n, "[", Text.showInt l, ":", Text.showInt r, "]"]
  | .const c => ["1'b" ++ c]

def atomOK : XAtom → Bool
  | .id n => nameTokB (nameT n) n
  | .bit n i => nameTokB (nameT n) n && intTokB i
  | .part n l r => nameTokB (nameT n) n && intTokB l && intTokB r
  | .const _ => false

theorem brackets_bit (i : Int) (rest : Toks) (hi : intTokB i = true) :
    brackets ("[" :: Text.showInt i :: "]" :: rest) = .ok ((i, none), rest) := by
  obtain ⟨h1, h2, _⟩ := intTok_sound i hi
  simp [brackets, expect, next, bind, Except.bind, h1, h2, pure, Except.pure]

theorem brackets_part (l r : Int) (rest : Toks) (hl : intTokB l = true) (hr : intTokB r = true) :
    brackets ("[" :: Text.showInt l :: ":" :: Text.showInt r :: "]" :: rest) = .ok ((l, some r), rest) := by
  obtain ⟨h1, h2, _⟩ := intTok_sound l hl
  obtain ⟨h3, h4, _⟩ := intTok_sound r hr
  simp [brackets, expect, next, bind, Except.bind, h1, h2, h3, h4, pure, Except.pure]

theorem atom_id (t nm : String) (ts : Toks) (h : NameTok t nm) (hts : ∀ r, ts ≠ "[" :: r) :
    atom (t :: ts) = .ok (.id nm, ts) := by
  obtain ⟨c, cs, hl, hc⟩ := h.first
  have hc1 : c ≠ '1' := by intro e; rw [e] at hc; simp at hc
  unfold atom
  simp only [next, bind, Except.bind, hl]
  simp only [hc, Bool.false_eq_true, if_false, h.valid, Bool.not_true, h.strip]
  rfl

theorem atom_bit (t nm : String) (i : Int) (rest : Toks) (h : NameTok t nm) (hi : intTokB i = true) :
    atom (t :: "[" :: Text.showInt i :: "]" :: rest) = .ok (.bit nm i, rest) := by
  obtain ⟨c, cs, hl, hc⟩ := h.first
  have hc1 : c ≠ '1' := by intro e; rw [e] at hc; simp at hc
  unfold atom
  simp only [next, bind, Except.bind, hl]
  simp only [hc, Bool.false_eq_true, if_false, h.valid, Bool.not_true, h.strip, brackets_bit i rest hi]
  rfl

theorem atom_part (t nm : String) (l r : Int) (rest : Toks) (h : NameTok t nm) (hl' : intTokB l = true) (hr : intTokB r = true) :
    atom (t :: "[" :: Text.showInt l :: ":" :: Text.showInt r :: "]" :: rest) = .ok (.part nm l r, rest) := by
  obtain ⟨c, cs, hl, hc⟩ := h.first
  have hc1 : c ≠ '1' := by intro e; rw [e] at hc; simp at hc
  unfold atom
  simp only [next, bind, Except.bind, hl]
  simp only [hc, Bool.false_eq_true, if_false, h.valid, Bool.not_true, h.strip, brackets_part l r rest hl' hr]
  rfl

/-- an atom of the fragment, followed by anything that does not open a bracket -/
theorem atom_toks (a : XAtom) (rest : Toks) (h : atomOK a = true) (hrest : ∀ r, rest ≠ "[" :: r) :
    atom (atomToks a ++ rest) = .ok (a, rest) := by
  cases a with
  | id n => exact atom_id _ n rest (nameTok_sound _ _ h) hrest
  | bit n i =>
    simp only [atomOK, Bool.and_eq_true] at h
    exact atom_bit _ n i rest (nameTok_sound _ _ h.1) h.2
  | part n l r =>
    simp only [atomOK, Bool.and_eq_true] at h
    exact atom_part _ n l r rest (nameTok_sound _ _ h.1.1) h.1.2 h.2
  | const c => simp [atomOK] at h

/-- atoms separated by commas -/
def sepToks : List XAtom → List String
  | [] => []
  | [a] => atomToks a
  | a :: as => atomToks a ++ "," :: sepToks as

def exprToks : XExpr → List String
  | .empty => []
  | .atom a => atomToks a
  | .cat as => "{" :: sepToks as ++ ["}"]

def exprOK : XExpr → Bool
  | .empty => true
  | .atom a => atomOK a
  | .cat as => !as.isEmpty && as.all atomOK

theorem atomToks_len (a : XAtom) : 1 ≤ (atomToks a).length := by
  cases a <;> simp [atomToks]

theorem sepToks_len : ∀ (as : List XAtom), as.length ≤ (sepToks as).length
  | [] => by simp [sepToks]
  | [a] => by simpa [sepToks] using atomToks_len a
  | a :: b :: t => by
    have h1 := atomToks_len a
    have h2 := sepToks_len (b :: t)
    simp only [sepToks, List.length_append, List.length_cons] at h2 ⊢
    omega

theorem atomToks_head (a : XAtom) (h : atomOK a = true) : ∃ t nm tl, atomToks a = t :: tl ∧ NameTok t nm := by
  cases a with
  | id n => exact ⟨_, n, [], rfl, nameTok_sound _ _ h⟩
  | bit n i => simp only [atomOK, Bool.and_eq_true] at h; exact ⟨_, n, _, rfl, nameTok_sound _ _ h.1⟩
  | part n l r => simp only [atomOK, Bool.and_eq_true] at h; exact ⟨_, n, _, rfl, nameTok_sound _ _ h.1.1⟩
  | const c => simp [atomOK] at h

theorem concatGo_toks : ∀ (as : List XAtom) (acc : List XAtom) (f : Nat) (rest : Toks), as ≠ [] → as.length ≤ f →
    (∀ a ∈ as, atomOK a = true) → concatGo f (sepToks as ++ "}" :: rest) acc = .ok (acc ++ as, rest) := by
  intro as
  induction as with
  | nil => intro acc f rest h; exact absurd rfl h
  | cons a as ih =>
    intro acc f rest _ hf hok
    cases f with
    | zero => simp at hf
    | succ f =>
      obtain ⟨t, nm, tl, htl, hnt⟩ := atomToks_head a (hok a List.mem_cons_self)
      have hne : (t == "}") = false := hnt.res "}" (by decide)
      cases as with
      | nil =>
        have hat := atom_toks a ("}" :: rest) (hok a List.mem_cons_self) (by intro r h; simp at h)
        simp only [sepToks]
        unfold concatGo
        rw [htl] at hat ⊢
        simp only [List.cons_append] at hat
        simp only [List.cons_append, peek, bind, Except.bind, hne, Bool.false_eq_true, if_false, hat, next]
        simp [pure, Except.pure]
      | cons b bs =>
        have hat := atom_toks a ("," :: (sepToks (b :: bs) ++ "}" :: rest)) (hok a List.mem_cons_self) (by intro r h; simp at h)
        have hrec := ih (acc ++ [a]) f rest (by simp) (by simpa using hf) (fun x hx => hok x (List.mem_cons_of_mem _ hx))
        simp only [sepToks, List.append_assoc, List.cons_append]
        unfold concatGo
        rw [htl] at hat ⊢
        simp only [List.cons_append] at hat
        simp only [List.cons_append, peek, bind, Except.bind, hne, Bool.false_eq_true, if_false, hat, next]
        simp only [beq_self_eq_true, if_true]
        rw [hrec]
        simp

theorem expr_toks (e : XExpr) (rest : Toks) (h : exprOK e = true) (hne : e ≠ .empty) (hrest : ∀ r, rest ≠ "[" :: r) :
    expr (exprToks e ++ rest) = .ok (e, rest) := by
  cases e with
  | empty => exact absurd rfl hne
  | atom a =>
    obtain ⟨t, nm, tl, htl, hnt⟩ := atomToks_head a h
    have hb : (t == "{") = false := hnt.res "{" (by decide)
    have hat := atom_toks a rest h hrest
    unfold expr
    simp only [exprToks]
    rw [htl] at hat ⊢
    simp only [List.cons_append] at hat
    simp only [List.cons_append, peek, bind, Except.bind, hb, Bool.false_eq_true, if_false, hat]
    rfl
  | cat as =>
    simp only [exprOK, Bool.and_eq_true, Bool.not_eq_eq_eq_not, Bool.not_true, List.isEmpty_eq_false_iff, List.all_eq_true] at h
    unfold expr concat
    simp only [exprToks, List.cons_append, List.append_assoc, peek, bind, Except.bind, beq_self_eq_true, if_true, expect, next]
    have := concatGo_toks as [] ((sepToks as).length + (rest.length + 1) + 1) rest h.1 (by
      have := sepToks_len as; omega) h.2
    simp only [pure, Except.pure, List.nil_append, List.length_append, List.length_cons] at this ⊢
    rw [this]

/-! ### attributes `(* k = v, k *)` -/

def attrToks (kv : String × Option String) : List String :=
  match kv.2 with
  | none => [kv.1]
  | some v => [kv.1, "=", v]

def sepAttr : Attrs → List String
  | [] => []
  | [kv] => attrToks kv
  | kv :: rest => attrToks kv ++ "," :: sepAttr rest

def starToks (a : Attrs) : List String :=
  if a.isEmpty then [] else "(" :: "*" :: sepAttr a ++ ["*", ")"]

def attrOK (kv : String × Option String) : Bool :=
  nameTokB kv.1 kv.1 && (match kv.2 with | none => true | some v => v != "*" && v != ",")

def attrsOK (a : Attrs) : Bool := a.all attrOK && decide ((a.map (·.1)).Nodup)

theorem val_one (v stop : String) (ts : Toks) (g : Nat) (hv1 : (v == "*") = false) (hv2 : (v == ",") = false)
    (hs : stop = "*" ∨ stop = ",") :
    starGo.val (g + 1 + 1) (v :: stop :: ts) "" = .ok ((v, stop), ts) := by
  unfold starGo.val
  simp only [next, bind, Except.bind, hv1, hv2, Bool.or_self, Bool.false_eq_true, if_false]
  unfold starGo.val
  rcases hs with e | e <;> subst e <;> simp [next, bind, Except.bind, pure, Except.pure]

theorem filter_key_none (acc : Attrs) (k : String) (h : k ∉ acc.map (·.1)) :
    acc.filter (fun kv => kv.1 != k) = acc := by
  apply List.filter_eq_self.mpr
  intro kv hkv
  have : kv.1 ≠ k := fun e => h (e ▸ List.mem_map_of_mem hkv)
  simp [this]

theorem starGo_toks : ∀ (a : Attrs) (acc : Attrs) (f : Nat) (rest : Toks), a ≠ [] → a.length ≤ f →
    (∀ kv ∈ a, attrOK kv = true) → ((acc ++ a).map (·.1)).Nodup →
    starGo f (sepAttr a ++ "*" :: rest) acc = .ok (acc ++ a, "*" :: rest) := by
  intro a
  induction a with
  | nil => intro acc f rest h; exact absurd rfl h
  | cons kv a ih =>
    intro acc f rest _ hf hok hn
    cases f with
    | zero => simp at hf
    | succ f =>
      have hkv := hok kv List.mem_cons_self
      simp only [attrOK, Bool.and_eq_true] at hkv
      have hnt := nameTok_sound _ _ hkv.1
      have hkacc : kv.1 ∉ acc.map (·.1) := by
        rw [List.map_append, List.map_cons, List.nodup_append] at hn
        intro hm
        exact hn.2.2 kv.1 hm kv.1 List.mem_cons_self rfl
      have hfil := filter_key_none acc kv.1 hkacc
      have hstar : (kv.1 == "*") = false := hnt.res "*" (by decide)
      obtain ⟨k, v⟩ := kv
      cases v with
      | none =>
        cases a with
        | nil =>
          simp only [sepAttr, attrToks, List.cons_append, List.nil_append]
          unfold starGo
          simp [next, bind, Except.bind, hstar, hnt.valid, hnt.strip, hfil, pure, Except.pure]
        | cons kv2 a2 =>
          have hrec := ih (acc ++ [(k, none)]) f rest (by simp) (by simpa using hf)
            (fun x hx => hok x (List.mem_cons_of_mem _ hx)) (by simpa using hn)
          simp only [sepAttr, attrToks, List.cons_append, List.nil_append, List.append_assoc]
          unfold starGo
          simp only [next, bind, Except.bind, hstar, Bool.false_eq_true, if_false, hnt.valid, Bool.not_true, hnt.strip]
          simp only [hfil]
          have e1 : ("," != "=") = true := by decide
          have e2 : ("," == "=") = false := by decide
          have e3 : ("," == "*") = false := by decide
          simp only [bne_self_eq_false, Bool.and_false, Bool.false_eq_true, if_false, e2, e3]
          rw [hrec]
          simp
      | some v =>
        simp only at hkv
        have hv := hkv.2
        simp only [Bool.and_eq_true, bne_iff_ne, ne_eq] at hv
        have hv1 : (v == "*") = false := by simp [hv.1]
        have hv2 : (v == ",") = false := by simp [hv.2]
        cases a with
        | nil =>
          simp only [sepAttr, attrToks, List.cons_append, List.nil_append]
          unfold starGo
          simp only [next, bind, Except.bind, hstar, Bool.false_eq_true, if_false, hnt.valid, Bool.not_true, hnt.strip]
          have hval := val_one v "*" rest (rest.length + 1) hv1 hv2 (Or.inl rfl)
          simp only [bne_self_eq_false, Bool.false_and, Bool.false_eq_true, if_false, beq_self_eq_true, if_true,
            List.length_cons, hval, hfil]
          simp [pure, Except.pure]
        | cons kv2 a2 =>
          have hrec := ih (acc ++ [(k, some v)]) f rest (by simp) (by simpa using hf)
            (fun x hx => hok x (List.mem_cons_of_mem _ hx)) (by simpa using hn)
          simp only [sepAttr, attrToks, List.cons_append, List.nil_append, List.append_assoc]
          unfold starGo
          simp only [next, bind, Except.bind, hstar, Bool.false_eq_true, if_false, hnt.valid, Bool.not_true, hnt.strip]
          have hval := val_one v "," (sepAttr (kv2 :: a2) ++ "*" :: rest) ((sepAttr (kv2 :: a2) ++ "*" :: rest).length + 1) hv1 hv2 (Or.inr rfl)
          have e3 : ("," == "*") = false := by decide
          simp only [bne_self_eq_false, Bool.false_and, Bool.false_eq_true, if_false, beq_self_eq_true, if_true,
            List.length_cons, hval, hfil, e3]
          rw [hrec]
          simp

theorem sepAttr_len : ∀ (a : Attrs), a.length ≤ (sepAttr a).length
  | [] => by simp [sepAttr]
  | [kv] => by obtain ⟨k, v⟩ := kv; cases v <;> simp [sepAttr, attrToks]
  | kv :: kv2 :: t => by
    have h2 := sepAttr_len (kv2 :: t)
    obtain ⟨k, v⟩ := kv
    cases v <;> simp only [sepAttr, attrToks, List.length_append, List.length_cons, List.length_nil] at h2 ⊢ <;> omega

theorem mergeAttrs_nil (a : Attrs) (h : (a.map (·.1)).Nodup) : mergeAttrs [] a = a := by
  unfold mergeAttrs
  have : ∀ (b acc : Attrs), ((acc ++ b).map (·.1)).Nodup →
      b.foldl (fun acc kv => (acc.filter (fun x => x.1 != kv.1)) ++ [kv]) acc = acc ++ b := by
    intro b
    induction b with
    | nil => intro acc _; simp
    | cons kv b ih =>
      intro acc hn
      simp only [List.foldl_cons]
      have hk : kv.1 ∉ acc.map (·.1) := by
        rw [List.map_append, List.map_cons, List.nodup_append] at hn
        intro hm
        exact hn.2.2 kv.1 hm kv.1 List.mem_cons_self rfl
      rw [filter_key_none acc kv.1 hk, ih (acc ++ [kv]) (by simpa using hn)]
      simp
  simpa using this a [] (by simpa using h)

theorem star_toks (a : Attrs) (rest : Toks) (hne : a ≠ []) (hok : attrsOK a = true) :
    star (starToks a ++ rest) = .ok (a, rest) := by
  simp only [attrsOK, Bool.and_eq_true, List.all_eq_true, decide_eq_true_eq] at hok
  have hem : a.isEmpty = false := by cases a <;> simp at hne ⊢
  unfold star starToks
  simp only [hem, Bool.false_eq_true, if_false, List.cons_append, List.append_assoc, expect, next, bind, Except.bind,
    beq_self_eq_true, if_true, pure, Except.pure]
  have := starGo_toks a [] ((sepAttr a ++ ([ "*", ")"] ++ rest)).length + 1) (")" :: rest) hne (by
    have := sepAttr_len a
    simp only [List.length_append]; omega) hok.1 (by simpa using hok.2)
  simp only [List.cons_append, List.nil_append] at this ⊢
  rw [this]
  simp
end Spydr.Verilog.Elab
