/-
  Verilog engine — proof side, part 19: token level, statements: parameter maps, named port maps, instances, port and wire
  declarations, over the REAL parser functions.
-/
import Spydr.Verilog.RoundTripTokA
set_option maxHeartbeats 400000
namespace Spydr.Verilog.Elab
open Spydr.Verilog
open Spydr.Verilog.Parse

/-! ### parameter maps `#( .K(V), … )` -/

def paramToks1 (kv : String × String) : List String := [".", kv.1, "(", kv.2, ")"]

def sepParams : Params → List String
  | [] => []
  | [kv] => paramToks1 kv
  | kv :: rest => paramToks1 kv ++ "," :: sepParams rest

def paramToks (ps : Params) : List String :=
  if ps.isEmpty then [] else "#" :: "(" :: sepParams ps ++ [")"]

def paramsOK (ps : Params) : Bool := ps.all (fun kv => nameTokB kv.1 kv.1) && decide ((ps.map (·.1)).Nodup)

theorem sepParams_len : ∀ (a : Params), a.length ≤ (sepParams a).length
  | [] => by simp [sepParams]
  | [kv] => by simp [sepParams, paramToks1]
  | kv :: kv2 :: t => by
    have h2 := sepParams_len (kv2 :: t)
    simp only [sepParams, paramToks1, List.length_append, List.length_cons, List.length_nil] at h2 ⊢; omega

theorem paramMapGo_toks : ∀ (ps acc : Params) (f : Nat) (rest : Toks), ps ≠ [] → ps.length ≤ f →
    (∀ kv ∈ ps, nameTokB kv.1 kv.1 = true) → ((acc ++ ps).map (·.1)).Nodup →
    paramMapGo f (sepParams ps ++ ")" :: rest) acc = .ok (acc ++ ps, rest) := by
  intro ps
  induction ps with
  | nil => intro acc f rest h; exact absurd rfl h
  | cons kv ps ih =>
    intro acc f rest _ hf hok hn
    cases f with
    | zero => simp at hf
    | succ f =>
      have hnt := nameTok_sound _ _ (hok kv List.mem_cons_self)
      have hany : acc.any (fun x => x.1 == kv.1) = false := by
        rw [List.any_eq_false]
        intro x hx
        simp only [beq_iff_eq]
        intro e
        rw [List.map_append, List.map_cons, List.nodup_append] at hn
        exact hn.2.2 x.1 (List.mem_map_of_mem hx) kv.1 List.mem_cons_self e
      obtain ⟨k, v⟩ := kv
      cases ps with
      | nil =>
        simp only [sepParams, paramToks1, List.cons_append, List.nil_append]
        unfold paramMapGo
        simp [expect, next, bind, Except.bind, hnt.valid, hnt.strip, hany, pure, Except.pure]
      | cons kv2 ps2 =>
        have hrec := ih (acc ++ [(k, v)]) f rest (by simp) (by simpa using hf)
          (fun x hx => hok x (List.mem_cons_of_mem _ hx)) (by simpa using hn)
        simp only [sepParams, paramToks1, List.cons_append, List.nil_append, List.append_assoc]
        unfold paramMapGo
        simp only [expect, next, bind, Except.bind, beq_self_eq_true, if_true, hnt.valid, Bool.not_true, Bool.false_eq_true,
          if_false, hnt.strip, hany, pure, Except.pure]
        have e1 : ("," == ")") = false := by decide
        simp only [e1, Bool.false_eq_true, if_false]
        rw [hrec]
        simp

theorem paramMap_toks (ps : Params) (rest : Toks) (hne : ps ≠ []) (hok : paramsOK ps = true) :
    paramMap (paramToks ps ++ rest) = .ok (ps, rest) := by
  simp only [paramsOK, Bool.and_eq_true, List.all_eq_true, decide_eq_true_eq] at hok
  have hem : ps.isEmpty = false := by cases ps <;> simp at hne ⊢
  obtain ⟨kv, ps', e⟩ : ∃ kv ps', ps = kv :: ps' := by cases ps with | nil => exact absurd rfl hne | cons a b => exact ⟨a, b, rfl⟩
  have hhead : ∃ tl, sepParams ps = "." :: tl := by
    rw [e]; cases ps' <;> simp [sepParams, paramToks1]
  obtain ⟨tl, htl⟩ := hhead
  have hgo := paramMapGo_toks ps [] ((sepParams ps ++ ([")"] ++ rest)).length + 1) rest hne (by
    have := sepParams_len ps
    simp only [List.length_append]; omega) hok.1 (by simpa using hok.2)
  unfold paramMap paramToks
  simp only [hem, Bool.false_eq_true, if_false, List.cons_append, List.append_assoc, expect, next, bind, Except.bind,
    beq_self_eq_true, if_true, pure, Except.pure]
  simp only [List.cons_append, List.nil_append] at hgo ⊢
  rw [htl] at hgo ⊢
  simp only [List.cons_append, peek, bind, Except.bind]
  have e1 : ("." == ")") = false := by decide
  simp only [e1, Bool.false_eq_true, if_false, List.length_cons, List.cons_append] at hgo ⊢
  exact hgo

/-! ### named port maps and instances -/

def connToks (c : String × XExpr) : List String := "." :: nameT c.1 :: "(" :: exprToks c.2 ++ [")"]

def sepConns : List (String × XExpr) → List String
  | [] => []
  | [c] => connToks c
  | c :: rest => connToks c ++ "," :: sepConns rest

def connOK (c : String × XExpr) : Bool := nameTokB (nameT c.1) c.1 && exprOK c.2

theorem sepConns_len : ∀ (a : List (String × XExpr)), a.length ≤ (sepConns a).length
  | [] => by simp [sepConns]
  | [c] => by simp [sepConns, connToks]
  | c :: c2 :: t => by
    have h2 := sepConns_len (c2 :: t)
    simp only [sepConns, connToks, List.length_append, List.length_cons, List.length_nil] at h2 ⊢; omega

theorem exprToks_head (e : XExpr) (h : exprOK e = true) (hne : e ≠ .empty) :
    ∃ t tl, exprToks e = t :: tl ∧ (t == ")") = false := by
  cases e with
  | empty => exact absurd rfl hne
  | atom a =>
    obtain ⟨t, nm, tl, htl, hnt⟩ := atomToks_head a h
    exact ⟨t, tl, htl, hnt.res ")" (by decide)⟩
  | cat as => exact ⟨"{", _, rfl, by decide⟩

/-- one connection followed by `)` : the map ends -/
theorem namedMapGo_last (c : String × XExpr) (acc : List (Option String × XExpr)) (f : Nat) (rest : Toks)
    (hc : connOK c = true) :
    namedMapGo (f + 1) (connToks c ++ ")" :: rest) acc = .ok (acc ++ [(some c.1, c.2)], rest) := by
  simp only [connOK, Bool.and_eq_true] at hc
  have hnt := nameTok_sound _ _ hc.1
  obtain ⟨p, e⟩ := c
  by_cases hemp : e = .empty
  · subst hemp
    unfold namedMapGo
    simp [connToks, exprToks, expect, next, peek, bind, Except.bind, hnt.valid, hnt.strip, pure, Except.pure]
  · obtain ⟨t, tl, htl, hb⟩ := exprToks_head e hc.2 hemp
    have hex := expr_toks e (")" :: ")" :: rest) hc.2 hemp (by intro r h; simp at h)
    unfold namedMapGo
    simp only [connToks, List.cons_append, List.append_assoc, List.nil_append, expect, next, bind, Except.bind,
      beq_self_eq_true, if_true, hnt.valid, Bool.not_true, Bool.false_eq_true, if_false, hnt.strip, pure, Except.pure]
    rw [htl] at hex ⊢
    simp only [List.cons_append] at hex ⊢
    simp only [peek, hb, Bool.false_eq_true, if_false, hex]
    simp

/-- one connection followed by `,` : the map goes on -/
theorem namedMapGo_more (c : String × XExpr) (acc : List (Option String × XExpr)) (f : Nat) (tail : Toks)
    (hc : connOK c = true) :
    namedMapGo (f + 1) (connToks c ++ "," :: tail) acc = namedMapGo f tail (acc ++ [(some c.1, c.2)]) := by
  simp only [connOK, Bool.and_eq_true] at hc
  have hnt := nameTok_sound _ _ hc.1
  have e1 : ("," == ")") = false := by decide
  obtain ⟨p, e⟩ := c
  by_cases hemp : e = .empty
  · subst hemp
    conv => lhs; unfold namedMapGo
    simp [connToks, exprToks, expect, next, peek, bind, Except.bind, hnt.valid, hnt.strip, pure, Except.pure, e1]
  · obtain ⟨t, tl, htl, hb⟩ := exprToks_head e hc.2 hemp
    have hex := expr_toks e (")" :: "," :: tail) hc.2 hemp (by intro r h; simp at h)
    conv => lhs; unfold namedMapGo
    simp only [connToks, List.cons_append, List.append_assoc, List.nil_append, expect, next, bind, Except.bind,
      beq_self_eq_true, if_true, hnt.valid, Bool.not_true, Bool.false_eq_true, if_false, hnt.strip, pure, Except.pure]
    rw [htl] at hex ⊢
    simp only [List.cons_append] at hex ⊢
    simp only [peek, hb, Bool.false_eq_true, if_false, hex]
    simp [e1]

theorem namedMapGo_toks : ∀ (cs : List (String × XExpr)) (acc : List (Option String × XExpr)) (f : Nat) (rest : Toks),
    cs ≠ [] → cs.length ≤ f → (∀ c ∈ cs, connOK c = true) →
    namedMapGo f (sepConns cs ++ ")" :: rest) acc = .ok (acc ++ cs.map (fun c => (some c.1, c.2)), rest) := by
  intro cs
  induction cs with
  | nil => intro acc f rest h; exact absurd rfl h
  | cons c cs ih =>
    intro acc f rest _ hf hok
    cases f with
    | zero => simp at hf
    | succ f =>
      cases cs with
      | nil =>
        simp only [sepConns]
        rw [namedMapGo_last c acc f rest (hok c List.mem_cons_self)]
        simp
      | cons c2 cs2 =>
        simp only [sepConns, List.append_assoc, List.cons_append]
        rw [namedMapGo_more c acc f _ (hok c List.mem_cons_self)]
        rw [ih (acc ++ [(some c.1, c.2)]) f rest (by simp) (by simpa using hf) (fun x hx => hok x (List.mem_cons_of_mem _ hx))]
        simp

def instCore (mod nm : String) (ps : Params) (cs : List (String × XExpr)) : List String :=
  nameT mod :: (paramToks ps ++ nameT nm :: "(" :: (sepConns cs ++ [")", ";"]))

def instOK (mod nm : String) (ps : Params) (cs : List (String × XExpr)) : Bool :=
  nameTokB (nameT mod) mod && nameTokB (nameT nm) nm && paramsOK ps && !cs.isEmpty && cs.all connOK

theorem sepConns_head (cs : List (String × XExpr)) (h : cs ≠ []) : ∃ tl, sepConns cs = "." :: tl := by
  cases cs with
  | nil => exact absurd rfl h
  | cons c cs => cases cs <;> simp [sepConns, connToks]

theorem instP_toks (attrs : Attrs) (mod nm : String) (ps : Params) (cs : List (String × XExpr)) (rest : Toks)
    (h : instOK mod nm ps cs = true) :
    instP attrs (instCore mod nm ps cs ++ rest) =
      .ok (.inst mod nm ps attrs true (cs.map (fun c => (some c.1, c.2))), rest) := by
  simp only [instOK, Bool.and_eq_true, Bool.not_eq_eq_eq_not, Bool.not_true, List.isEmpty_eq_false_iff, List.all_eq_true] at h
  obtain ⟨⟨⟨⟨h1, h2⟩, h3⟩, h4⟩, h5⟩ := h
  have hm := nameTok_sound _ _ h1
  have hn := nameTok_sound _ _ h2
  obtain ⟨tl, htl⟩ := sepConns_head cs h4
  have hgo := namedMapGo_toks cs [] ((sepConns cs ++ ")" :: ";" :: rest).length + 1) (";" :: rest) h4 (by
    have := sepConns_len cs
    simp only [List.length_append]; omega) h5
  have hnh : (nameT nm == "#") = false := hn.res "#" (by decide)
  have e1 : ("." == ".") = true := by decide
  unfold instP instCore
  by_cases hps : ps = []
  · subst hps
    simp only [paramToks, List.isEmpty_nil, if_true, List.nil_append, List.cons_append, List.append_assoc, next, peek, bind,
      Except.bind, hm.valid, Bool.not_true, Bool.false_eq_true, if_false, hnh, hn.valid, expect, beq_self_eq_true, pure,
      Except.pure, hm.strip, hn.strip]
    rw [htl] at hgo ⊢
    simp only [List.cons_append, List.nil_append, List.length_cons] at hgo ⊢
    simp only [peek, bind, Except.bind, e1, if_true, hgo]
    simp
  · have hpm := paramMap_toks ps (nameT nm :: "(" :: (sepConns cs ++ ([")", ";"] ++ rest))) hps h3
    have hem : ps.isEmpty = false := by cases ps <;> simp at hps ⊢
    have hph : ∃ ptl, paramToks ps = "#" :: ptl := by unfold paramToks; rw [hem]; exact ⟨_, rfl⟩
    obtain ⟨ptl, hptl⟩ := hph
    simp only [List.cons_append, List.append_assoc, next, bind, Except.bind, hm.valid, Bool.not_true, Bool.false_eq_true,
      if_false]
    rw [hptl] at hpm ⊢
    simp only [List.cons_append] at hpm ⊢
    simp only [peek, bind, Except.bind, beq_self_eq_true, if_true, hpm, next, hn.valid, Bool.not_true, Bool.false_eq_true,
      if_false, expect, pure, Except.pure, hm.strip, hn.strip]
    rw [htl] at hgo ⊢
    simp only [List.cons_append, List.nil_append, List.length_cons] at hgo ⊢
    simp only [peek, bind, Except.bind, e1, if_true, hgo]
    simp

/-! ### declarations -/

def dirTok : Dir → String
  | .inp => "input"
  | .out => "output"
  | .inout => "inout"
  | .undef => "inout"

def rangeOK : Option (Int × Int) → Bool
  | none => true
  | some (a, b) => intTokB a && intTokB b

def portCore (dir : Dir) (rng : Option (Int × Int)) (nm : String) : List String :=
  dirTok dir :: (rangeToks rng ++ [nameT nm, ";"])

def portOK (dir : Dir) (rng : Option (Int × Int)) (nm : String) : Bool :=
  (dir != .undef) && rangeOK rng && nameTokB (nameT nm) nm

theorem dirOf_dirTok (d : Dir) (h : d ≠ .undef) : dirOf (dirTok d) = some d := by
  cases d <;> first | rfl | exact absurd rfl h

theorem portDeclP_toks (attrs : Attrs) (dir : Dir) (rng : Option (Int × Int)) (nm : String) (rest : Toks)
    (h : portOK dir rng nm = true) :
    portDeclP attrs (portCore dir rng nm ++ rest) = .ok ([.portDecl dir none rng nm attrs], rest) := by
  simp only [portOK, Bool.and_eq_true, bne_iff_ne, ne_eq] at h
  obtain ⟨⟨h1, h2⟩, h3⟩ := h
  have hn := nameTok_sound _ _ h3
  have r1 : (nameT nm == "reg") = false := hn.res "reg" (by decide)
  have r2 : (nameT nm == "wire") = false := hn.res "wire" (by decide)
  have r3 : (nameT nm == "[") = false := hn.res "[" (by decide)
  unfold portDeclP portCore
  simp only [List.cons_append, next, bind, Except.bind, dirOf_dirTok dir h1]
  cases rng with
  | none =>
    simp only [rangeToks, List.nil_append, List.cons_append, peek, bind, Except.bind, r1, r2, r3, Bool.or_self,
      Bool.false_eq_true, if_false, pure, Except.pure, next, hn.valid, Bool.not_true, hn.strip]
    unfold namesGo
    simp [next, bind, Except.bind, pure, Except.pure]
  | some p =>
    obtain ⟨a, b⟩ := p
    simp only [rangeOK, Bool.and_eq_true] at h2
    have hb := brackets_part a b (nameT nm :: ";" :: rest) h2.1 h2.2
    have e1 : ("[" == "reg") = false := by decide
    have e2 : ("[" == "wire") = false := by decide
    simp only [rangeToks, List.cons_append, List.nil_append, peek, bind, Except.bind, e1, e2, Bool.or_self,
      Bool.false_eq_true, if_false, pure, Except.pure, beq_self_eq_true, if_true, hb, next, hn.valid, Bool.not_true, hn.strip]
    unfold namesGo
    simp [next, bind, Except.bind, pure, Except.pure]

def wireTypes : List String := ["wire", "reg", "tri0", "tri1"]

theorem cableDeclGo_toks (f : Nat) (ty : String) (attrs : Attrs) (rng : Option (Int × Int)) (nm : String) (rest : Toks)
    (h2 : rangeOK rng = true) (h3 : nameTokB (nameT nm) nm = true) :
    cableDeclGo (f + 1) (rangeToks rng ++ nameT nm :: ";" :: rest) ty attrs none [] =
      .ok ([.wireDecl ty rng nm attrs], rest) := by
  have hn := nameTok_sound _ _ h3
  have r3 : (nameT nm == "[") = false := hn.res "[" (by decide)
  unfold cableDeclGo
  cases rng with
  | none =>
    simp [rangeToks, peek, bind, Except.bind, r3, pure, Except.pure, next, hn.valid, hn.strip]
  | some p =>
    obtain ⟨a, b⟩ := p
    simp only [rangeOK, Bool.and_eq_true] at h2
    have hb := brackets_part a b (nameT nm :: ";" :: rest) h2.1 h2.2
    simp [rangeToks, peek, bind, Except.bind, hb, pure, Except.pure, next, hn.valid, hn.strip]
end Spydr.Verilog.Elab
