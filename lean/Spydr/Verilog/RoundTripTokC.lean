/-
  Verilog engine — proof side, part 20: token level, the module body, the header, a whole module and a whole file:
  `parseV (tokens of a module of the fragment) = [that module]` over the REAL parser (`parseV_toks`).
-/
import Spydr.Verilog.RoundTripTokB
set_option maxHeartbeats 800000
namespace Spydr.Verilog.Elab
open Spydr.Verilog
open Spydr.Verilog.Parse

/-! ### the body of a module -/

inductive SItem
  | port (p : PDecl)
  | wire (w : FWire)
  | inst (i : NInst)
  | asg (l r : XAtom)

def SItem.toItem : SItem → Item
  | .port p => p.item
  | .wire w => w.item
  | .inst i => i.item
  | .asg l r => .assign l r

def SItem.attrs : SItem → Attrs
  | .port p => p.attrs
  | .wire w => w.attrs
  | .inst i => i.attrs
  | .asg _ _ => []

def SItem.core : SItem → List String
  | .port p => portCore p.dir p.rng p.name
  | .wire w => w.ty :: (rangeToks w.rng ++ [nameT w.name, ";"])
  | .inst i => instCore i.mod i.name i.params i.conns
  | .asg l r => "assign" :: (atomToks l ++ "=" :: (atomToks r ++ [";"]))

def SItem.toks (it : SItem) : List String := starToks it.attrs ++ it.core

def SItem.ok : SItem → Bool
  | .port p => portOK p.dir p.rng p.name && attrsOK p.attrs
  | .wire w => wireTypes.contains w.ty && rangeOK w.rng && nameTokB (nameT w.name) w.name && attrsOK w.attrs
  | .inst i => instOK i.mod i.name i.params i.conns && attrsOK i.attrs
  | .asg l r => atomOK l && atomOK r

theorem bodyGo_end (f : Nat) (rest : Toks) (pend : Attrs) (acc : List Item) :
    bodyGo (f + 1) ("endmodule" :: rest) pend acc = .ok (acc, rest) := by
  unfold bodyGo
  simp [peek, next, bind, Except.bind, pure, Except.pure]

theorem bodyGo_star (f : Nat) (a : Attrs) (tail : Toks) (acc : List Item) (hne : a ≠ []) (hok : attrsOK a = true) :
    bodyGo (f + 1) (starToks a ++ tail) [] acc = bodyGo f tail a acc := by
  have hs := star_toks a tail hne hok
  have hem : a.isEmpty = false := by cases a <;> simp at hne ⊢
  have hnd : (a.map (·.1)).Nodup := by
    simp only [attrsOK, Bool.and_eq_true, decide_eq_true_eq] at hok; exact hok.2
  conv => lhs; unfold bodyGo
  unfold starToks at hs ⊢
  simp only [hem, Bool.false_eq_true, if_false, List.cons_append] at hs ⊢
  have e1 : ("(" == "endmodule") = false := by decide
  have e2 : dirOf "(" = none := by decide
  have e3 : ("(" == "wire") = false := by decide
  have e4 : ("(" == "reg") = false := by decide
  have e5 : ("(" == "tri0") = false := by decide
  have e6 : ("(" == "tri1") = false := by decide
  have e7 : ("(" == "assign") = false := by decide
  have e8 : ("(" == "defparam") = false := by decide
  have e9 : validIdent "(" = false := by decide +kernel
  simp only [peek, bind, Except.bind, e1, e2, e3, e4, e5, e6, e7, e8, e9, Option.isSome_none, Bool.or_self,
    Bool.false_eq_true, if_false, beq_self_eq_true, if_true, hs, mergeAttrs_nil a hnd]

theorem bodyGo_port (f : Nat) (p : PDecl) (pend : Attrs) (tail : Toks) (acc : List Item)
    (h : portOK p.dir p.rng p.name = true) :
    bodyGo (f + 1) (portCore p.dir p.rng p.name ++ tail) pend acc =
      bodyGo f tail [] (acc ++ [.portDecl p.dir none p.rng p.name pend]) := by
  have hp := portDeclP_toks pend p.dir p.rng p.name tail h
  have hd : p.dir ≠ .undef := by
    simp only [portOK, Bool.and_eq_true, bne_iff_ne, ne_eq] at h; exact h.1.1
  have hdo := dirOf_dirTok p.dir hd
  have he : (dirTok p.dir == "endmodule") = false := by cases hpd : p.dir <;> first | decide | exact absurd hpd hd
  conv => lhs; unfold bodyGo
  unfold portCore at hp ⊢
  simp only [List.cons_append] at hp ⊢
  simp only [peek, bind, Except.bind, he, Bool.false_eq_true, if_false, hdo, Option.isSome_some, if_true, hp]

theorem bodyGo_wire (f : Nat) (w : FWire) (pend : Attrs) (tail : Toks) (acc : List Item)
    (ht : wireTypes.contains w.ty = true) (h2 : rangeOK w.rng = true) (h3 : nameTokB (nameT w.name) w.name = true) :
    bodyGo (f + 1) (w.ty :: (rangeToks w.rng ++ [nameT w.name, ";"]) ++ tail) pend acc =
      bodyGo f tail [] (acc ++ [.wireDecl w.ty w.rng w.name pend]) := by
  have hc := cableDeclGo_toks ((rangeToks w.rng).length + (tail.length + 1 + 1)) w.ty pend w.rng w.name tail h2 h3
  have hty : w.ty = "wire" ∨ w.ty = "reg" ∨ w.ty = "tri0" ∨ w.ty = "tri1" := by
    simpa [wireTypes] using ht
  conv => lhs; unfold bodyGo
  simp only [List.cons_append, List.append_assoc, List.nil_append]
  rcases hty with e | e | e | e <;> rw [e] at hc ⊢ <;>
    simp [peek, next, bind, Except.bind, dirOf, hc]

theorem bodyGo_inst (f : Nat) (i : NInst) (pend : Attrs) (tail : Toks) (acc : List Item)
    (h : instOK i.mod i.name i.params i.conns = true) :
    bodyGo (f + 1) (instCore i.mod i.name i.params i.conns ++ tail) pend acc =
      bodyGo f tail [] (acc ++ [.inst i.mod i.name i.params pend true (i.conns.map (fun c => (some c.1, c.2)))]) := by
  have hi := instP_toks pend i.mod i.name i.params i.conns tail h
  have hm : NameTok (nameT i.mod) i.mod := by
    simp only [instOK, Bool.and_eq_true] at h
    exact nameTok_sound _ _ h.1.1.1.1
  have r := fun x hx => hm.res x hx
  have hdo : dirOf (nameT i.mod) = none := by
    unfold dirOf
    simp [r "input" (by decide), r "output" (by decide), r "inout" (by decide)]
  conv => lhs; unfold bodyGo
  unfold instCore at hi ⊢
  simp only [List.cons_append] at hi ⊢
  simp only [peek, bind, Except.bind, r "endmodule" (by decide), hdo, Option.isSome_none, r "wire" (by decide),
    r "reg" (by decide), r "tri0" (by decide), r "tri1" (by decide), r "assign" (by decide), r "defparam" (by decide),
    Bool.or_self, Bool.false_eq_true, if_false, hm.valid, if_true, hi]

/-- `assign l = r ;` -/
theorem bodyGo_asg (f : Nat) (l r : XAtom) (tail : Toks) (acc : List Item) (hl : atomOK l = true) (hr : atomOK r = true) :
    bodyGo (f + 1) ("assign" :: (atomToks l ++ "=" :: (atomToks r ++ [";"])) ++ tail) [] acc =
      bodyGo f tail [] (acc ++ [.assign l r]) := by
  have h1 := atom_toks l ("=" :: (atomToks r ++ ";" :: tail)) hl (by intro r' e; simp at e)
  have h2 := atom_toks r (";" :: tail) hr (by intro r' e; simp at e)
  conv => lhs; unfold bodyGo
  have e1 : ("assign" == "endmodule") = false := by decide
  have e2 : dirOf "assign" = none := by decide
  have e3 : ("assign" == "wire") = false := by decide
  have e4 : ("assign" == "reg") = false := by decide
  have e5 : ("assign" == "tri0") = false := by decide
  have e6 : ("assign" == "tri1") = false := by decide
  simp only [List.cons_append, List.append_assoc, List.nil_append, peek, next, bind, Except.bind, e1, e2, e3, e4, e5, e6,
    Option.isSome_none, Bool.or_self, Bool.false_eq_true, if_false, beq_self_eq_true, if_true, h1, expect, h2, pure,
    Except.pure]

/-- one item of the body, attributes included: one or two turns of the loop -/
theorem bodyGo_item (f : Nat) (it : SItem) (tail : Toks) (acc : List Item) (h : it.ok = true) :
    bodyGo (f + 2) (it.toks ++ tail) [] acc = bodyGo (if it.attrs = [] then f + 1 else f) tail [] (acc ++ [it.toItem]) := by
  unfold SItem.toks
  by_cases ha : it.attrs = []
  · simp only [ha, if_true, starToks, List.isEmpty_nil, List.nil_append]
    cases it with
    | port p =>
      simp only [SItem.ok, Bool.and_eq_true] at h
      simp only [SItem.attrs] at ha
      rw [SItem.core, bodyGo_port (f + 1) p [] tail acc h.1]
      simp [SItem.toItem, PDecl.item, ha]
    | wire w =>
      simp only [SItem.ok, Bool.and_eq_true] at h
      simp only [SItem.attrs] at ha
      rw [SItem.core, bodyGo_wire (f + 1) w [] tail acc h.1.1.1 h.1.1.2 h.1.2]
      simp [SItem.toItem, FWire.item, ha]
    | inst i =>
      simp only [SItem.ok, Bool.and_eq_true] at h
      simp only [SItem.attrs] at ha
      rw [SItem.core, bodyGo_inst (f + 1) i [] tail acc h.1]
      simp [SItem.toItem, NInst.item, ha]
    | asg l r =>
      simp only [SItem.ok, Bool.and_eq_true] at h
      rw [SItem.core, bodyGo_asg (f + 1) l r tail acc h.1 h.2]
      simp [SItem.toItem]
  · simp only [ha, if_false, List.append_assoc]
    cases it with
    | port p =>
      simp only [SItem.ok, Bool.and_eq_true] at h
      simp only [SItem.attrs] at ha ⊢
      rw [bodyGo_star (f + 1) p.attrs _ acc ha h.2, SItem.core, bodyGo_port f p p.attrs tail acc h.1]
      simp [SItem.toItem, PDecl.item]
    | wire w =>
      simp only [SItem.ok, Bool.and_eq_true] at h
      simp only [SItem.attrs] at ha ⊢
      rw [bodyGo_star (f + 1) w.attrs _ acc ha h.2, SItem.core, bodyGo_wire f w w.attrs tail acc h.1.1.1 h.1.1.2 h.1.2]
      simp [SItem.toItem, FWire.item]
    | inst i =>
      simp only [SItem.ok, Bool.and_eq_true] at h
      simp only [SItem.attrs] at ha ⊢
      rw [bodyGo_star (f + 1) i.attrs _ acc ha h.2, SItem.core, bodyGo_inst f i i.attrs tail acc h.1]
      simp [SItem.toItem, NInst.item]
    | asg l r => exact absurd rfl ha

theorem bodyGo_items : ∀ (items : List SItem) (acc : List Item) (f : Nat) (rest : Toks),
    2 * items.length + 1 ≤ f → (∀ it ∈ items, it.ok = true) →
    bodyGo f (items.flatMap SItem.toks ++ "endmodule" :: rest) [] acc = .ok (acc ++ items.map SItem.toItem, rest) := by
  intro items
  induction items with
  | nil =>
    intro acc f rest hf _
    obtain ⟨g, hg⟩ : ∃ g, f = g + 1 := ⟨f - 1, by simp at hf; omega⟩
    subst hg
    simp [bodyGo_end]
  | cons it items ih =>
    intro acc f rest hf hok
    obtain ⟨g, hg⟩ : ∃ g, f = g + 2 := ⟨f - 2, by simp at hf; omega⟩
    subst hg
    simp only [List.flatMap_cons, List.append_assoc]
    rw [bodyGo_item g it _ acc (hok it List.mem_cons_self)]
    rw [ih (acc ++ [it.toItem]) _ rest (by simp only [List.length_cons] at hf; split <;> omega)
      (fun x hx => hok x (List.mem_cons_of_mem _ hx))]
    simp

/-! ### header, module, file -/

def sepNames : List String → List String
  | [] => []
  | [a] => [nameT a]
  | a :: rest => nameT a :: "," :: sepNames rest

theorem sepNames_len : ∀ (a : List String), a.length ≤ (sepNames a).length
  | [] => by simp [sepNames]
  | [a] => by simp [sepNames]
  | a :: b :: t => by
    have h2 := sepNames_len (b :: t)
    simp only [sepNames, List.length_cons] at h2 ⊢; omega

theorem headerPortsGo_toks : ∀ (names : List String) (acc : List HPort) (f : Nat) (rest : Toks),
    names.length + 1 ≤ f → (∀ a ∈ names, nameTokB (nameT a) a = true) →
    headerPortsGo f (sepNames names ++ ")" :: rest) acc =
      .ok (acc ++ names.map (fun a => (⟨a, none, none, none⟩ : HPort)), ")" :: rest) := by
  intro names
  induction names with
  | nil =>
    intro acc f rest hf _
    obtain ⟨g, hg⟩ : ∃ g, f = g + 1 := ⟨f - 1, by simp at hf; omega⟩
    subst hg
    unfold headerPortsGo
    simp [sepNames, peek, bind, Except.bind, pure, Except.pure]
  | cons a names ih =>
    intro acc f rest hf hok
    obtain ⟨g, hg⟩ : ∃ g, f = g + 1 := ⟨f - 1, by simp at hf; omega⟩
    subst hg
    have hn := nameTok_sound _ _ (hok a List.mem_cons_self)
    have r := fun x hx => hn.res x hx
    have hdo : dirOf (nameT a) = none := by
      unfold dirOf
      simp [r "input" (by decide), r "output" (by decide), r "inout" (by decide)]
    cases names with
    | nil =>
      unfold headerPortsGo
      simp only [sepNames, List.cons_append, List.nil_append, peek, bind, Except.bind, r ")" (by decide), r "." (by decide),
        Bool.false_eq_true, if_false, hdo, pure, Except.pure, r "[" (by decide), next, hn.valid, Bool.not_true, hn.strip,
        beq_self_eq_true, if_true]
      first | rfl | simp
    | cons b names2 =>
      have hrec := ih (acc ++ [⟨a, none, none, none⟩]) g rest (by simp only [List.length_cons] at hf ⊢; omega)
        (fun x hx => hok x (List.mem_cons_of_mem _ hx))
      conv => lhs; unfold headerPortsGo
      have e1 : ("," == ")") = false := by decide
      have e2 : ("," != ",") = false := by decide
      simp only [sepNames, List.cons_append, peek, bind, Except.bind, r ")" (by decide), r "." (by decide),
        Bool.false_eq_true, if_false, hdo, pure, Except.pure, r "[" (by decide), next, hn.valid, Bool.not_true, hn.strip,
        e1, e2]
      rw [hrec]
      simp

/-- the tokens of a module of the fragment (attributes, header with bare names, body, `endmodule`) -/
def modToks (attrs : Attrs) (name : String) (ports : List String) (items : List SItem) : List String :=
  starToks attrs ++ "module" :: nameT name :: "(" :: (sepNames ports ++ ")" :: ";" :: (items.flatMap SItem.toks ++ ["endmodule"]))

def modOK (attrs : Attrs) (name : String) (ports : List String) (items : List SItem) : Bool :=
  attrsOK attrs && nameTokB (nameT name) name && ports.all (fun a => nameTokB (nameT a) a) && items.all SItem.ok

theorem moduleP_toks (attrs pend : Attrs) (name : String) (ports : List String) (items : List SItem) (rest : Toks)
    (h : modOK attrs name ports items = true) :
    moduleP false pend ("module" :: nameT name :: "(" :: (sepNames ports ++ ")" :: ";" :: (items.flatMap SItem.toks ++ "endmodule" :: rest))) =
      .ok (⟨name, false, pend, [], ports.map (fun a => (⟨a, none, none, none⟩ : HPort)), items.map SItem.toItem⟩, rest) := by
  simp only [modOK, Bool.and_eq_true, List.all_eq_true] at h
  obtain ⟨⟨⟨_, h2⟩, h3⟩, h4⟩ := h
  have hn := nameTok_sound _ _ h2
  have hhp := headerPortsGo_toks ports [] ((sepNames ports).length + ((items.flatMap SItem.toks ++ "endmodule" :: rest).length + 1 + 1) + 1)
    (";" :: (items.flatMap SItem.toks ++ "endmodule" :: rest)) (by have := sepNames_len ports; omega) h3
  have hbody := bodyGo_items items [] ((items.flatMap SItem.toks ++ "endmodule" :: rest).length + 1) rest (by
    have : ∀ (l : List SItem), (∀ it ∈ l, it.ok = true) → 2 * l.length ≤ (l.flatMap SItem.toks).length := by
      intro l
      induction l with
      | nil => intro _; simp
      | cons it l ih =>
        intro hok
        have h1 := ih (fun x hx => hok x (List.mem_cons_of_mem _ hx))
        have h2 : 2 ≤ it.toks.length := by
          unfold SItem.toks
          have : 2 ≤ it.core.length := by
            cases it with
            | port p => simp [SItem.core, portCore]
            | wire w => simp [SItem.core]
            | inst i => simp [SItem.core, instCore]; omega
            | asg l r => simp [SItem.core]; omega
          simp only [List.length_append]; omega
        simp only [List.flatMap_cons, List.length_append, List.length_cons]; omega
    have := this items h4
    simp only [List.length_append, List.length_cons]; omega) h4
  unfold moduleP header
  have e1 : ("(" == "#") = false := by decide
  simp only [expect, next, peek, bind, Except.bind, beq_self_eq_true, if_true, hn.valid, Bool.not_true, Bool.false_eq_true,
    if_false, e1, pure, Except.pure, List.length_append, List.length_cons]
  simp only [List.nil_append, List.length_append, List.length_cons] at hhp
  simp only [List.nil_append] at hbody
  rw [hhp]
  simp only [List.nil_append, beq_self_eq_true, if_true]
  rw [hbody]
  simp [hn.strip]

/-! the two literals the top-level loop takes the first word of -/

theorem strip_plain (t : String) (h1 : t.toSlice.startsWith Char.isWhitespace = false)
    (h2 : t.toSlice.endsWith Char.isWhitespace = false) : strip t = t := by
  unfold strip String.trimAscii String.Slice.trimAscii String.Slice.trimAsciiStart String.Slice.trimAsciiEnd
  rw [String.Slice.dropWhile_eq_self h1, String.Slice.dropEndWhile_eq_self h2]
  simp

theorem splitOn_paren : ("(".splitOn " ") = ["("] := by
  unfold String.splitOn
  simp only [show (" " == "") = false by decide, Bool.false_eq_true, if_false]
  repeat (rw [String.splitOnAux]; simp (config := {decide := true}))

theorem splitOn_module : ("module".splitOn " ") = ["module"] := by
  unfold String.splitOn
  simp only [show (" " == "") = false by decide, Bool.false_eq_true, if_false]
  repeat (rw [String.splitOnAux]; simp (config := {decide := true}))

theorem firstWord_paren : firstWord "(" = "(" := by decide +kernel

theorem firstWord_module : firstWord "module" = "module" := by decide +kernel

/-- no comment, no directive among the tokens -/
def cleanToks (ts : Toks) : Bool := ts.all (fun t => !(Text.isCommentTok t) && !(t.startsWith "`"))

theorem preprocess_clean : ∀ (ts : Toks) (f : Nat), ts.length + 1 ≤ f → cleanToks ts = true →
    preprocess f ts false = .ok ts := by
  intro ts
  induction ts with
  | nil =>
    intro f hf _
    obtain ⟨g, hg⟩ : ∃ g, f = g + 1 := ⟨f - 1, by simp at hf; omega⟩
    subst hg; rfl
  | cons t ts ih =>
    intro f hf hc
    obtain ⟨g, hg⟩ : ∃ g, f = g + 1 := ⟨f - 1, by simp at hf; omega⟩
    subst hg
    simp only [cleanToks, List.all_cons, Bool.and_eq_true, Bool.not_eq_eq_eq_not, Bool.not_true] at hc
    obtain ⟨⟨h1, h2⟩, h3⟩ := hc
    unfold preprocess
    simp only [h1, h2, Bool.false_eq_true, if_false, Bool.false_and, bind, Except.bind]
    rw [ih g (by simp only [List.length_cons] at hf; omega) h3]
    rfl

theorem parseV_toks (attrs : Attrs) (name : String) (ports : List String) (items : List SItem)
    (h : modOK attrs name ports items = true) (hc : cleanToks (modToks attrs name ports items) = true) :
    parseV (modToks attrs name ports items) =
      .ok [⟨name, false, attrs, [], ports.map (fun a => (⟨a, none, none, none⟩ : HPort)), items.map SItem.toItem⟩] := by
  have hm := fun pend => moduleP_toks attrs pend name ports items [] h
  unfold parseV
  simp only [bind, Except.bind, preprocess_clean _ _ (Nat.le_refl _) hc]
  have e1 : (firstWord "module" == "`celldefine") = false := by rw [firstWord_module]; decide
  have e2 : (firstWord "module" == "`endcelldefine") = false := by rw [firstWord_module]; decide
  have e3 : (firstWord "(" == "`celldefine") = false := by rw [firstWord_paren]; decide
  have e4 : (firstWord "(" == "`endcelldefine") = false := by rw [firstWord_paren]; decide
  have hmod : ∀ (f : Nat) (pend : Attrs), topGo (f + 2) ("module" :: nameT name :: "(" :: (sepNames ports ++ ")" :: ";" ::
      (items.flatMap SItem.toks ++ ["endmodule"]))) false pend [] =
      .ok [⟨name, false, pend, [], ports.map (fun a => (⟨a, none, none, none⟩ : HPort)), items.map SItem.toItem⟩] := by
    intro f pend
    unfold topGo
    simp only [e1, e2, Bool.false_eq_true, if_false, beq_self_eq_true, if_true, hm pend]
    unfold topGo
    simp
  unfold modToks
  by_cases ha : attrs = []
  · subst ha
    simp only [starToks, List.isEmpty_nil, if_true, List.nil_append, List.length_cons]
    exact hmod _ []
  · have hok : attrsOK attrs = true := by
      simp only [modOK, Bool.and_eq_true] at h; exact h.1.1.1
    have hnd : (attrs.map (·.1)).Nodup := by
      simp only [attrsOK, Bool.and_eq_true, decide_eq_true_eq] at hok; exact hok.2
    have hs := star_toks attrs ("module" :: nameT name :: "(" :: (sepNames ports ++ ")" :: ";" ::
      (items.flatMap SItem.toks ++ ["endmodule"]))) ha hok
    have hem : attrs.isEmpty = false := by cases attrs <;> simp at ha ⊢
    unfold starToks at hs ⊢
    simp only [hem, Bool.false_eq_true, if_false, List.cons_append, List.length_cons, List.length_append] at hs ⊢
    unfold topGo
    have g1 : ("(" == "module") = false := by decide
    have g2 : ("(" == "primitive") = false := by decide
    simp only [e3, e4, g1, g2, Bool.false_eq_true, if_false, beq_self_eq_true, if_true, hs, mergeAttrs_nil attrs hnd]
    exact hmod _ attrs
end Spydr.Verilog.Elab
