/-
  Verilog engine — proof side, part 21: the written module as tokens (`tokensOf`), `parse_tokens`, `c04_tokens` (C04 at
  module level up to the lexer), kernel-checkable sufficient conditions, and the example.
-/
import Spydr.Verilog.RoundTripTokC
import Std.Data.String.ToInt
set_option maxHeartbeats 800000
namespace Spydr.Verilog.Elab
open Spydr.Verilog
open Spydr.Verilog.Parse

/-! ### the written module as tokens -/

def WModI.sitems (m : WModI) : List SItem := m.ports.map .port ++ m.wires.map .wire ++ m.insts.map .inst

/-- the token list of the text the writer prints for the module (without the two comment lines of the file header) -/
def tokensOf (m : WModI) : List String := modToks m.attrs m.name (m.ports.map (·.name)) m.sitems

def tokOK (m : WModI) : Bool :=
  modOK m.attrs m.name (m.ports.map (·.name)) m.sitems && cleanToks (tokensOf m)

/-- **parse_tokens.**  Token level: the REAL `parseV` on the tokens of a written module of the fragment returns exactly
    that module's syntax tree. -/
theorem parse_tokens (m : WModI) (h : tokOK m = true) : parseV (tokensOf m) = .ok [m.toModule] := by
  simp only [tokOK, Bool.and_eq_true] at h
  rw [tokensOf, parseV_toks m.attrs m.name _ _ h.1 h.2]
  simp [WModI.toModule, WModI.sitems, SItem.toItem, Function.comp_def]

/-- the reader from tokens -/
def readT (toks : List String) : Except String St := do
  let ms ← parseV toks
  elabDesign ms

theorem readV_eq (text : String) : readV text = readT (Text.lexV text) := rfl

/-- **c04_tokens.**  C04 at module level up to the LEXER: for a netlist of the fragment whose written module passes the
    token conditions, reading the tokens of what is written (parser AND elaboration, the real functions) gives a design
    whose top definition shows the view of the netlist's. -/
theorem c04_tokens (n : Text.WNet) (T : Text.WDef) (h : fragC04 n T = true)
    (ht : ∀ m, astOf n T = some m → tokOK m.toI = true) :
    ∃ m s D ls, astOf n T = some m ∧ readT (tokensOf m.toI) = .ok s ∧ s.defs = D :: ls ∧ s.top = some T.name ∧
      viewD D = viewT n T ∧ LeafInv n ls := by
  obtain ⟨m, s, D, ls, h1, h2, h3, h4, _, h6, h7⟩ := c04_ast n T h
  refine ⟨m, s, D, ls, h1, ?_, h3, h4, h6, h7⟩
  unfold readT
  rw [parse_tokens m.toI (ht m h1)]
  exact h2

/-! ### kernel-checkable sufficient conditions for the token predicates -/

/-- a plain identifier: the conditions the kernel can evaluate (no `trimAscii`) -/
def plainK (t : String) : Bool :=
  validIdent t && !(reserved.contains t) && !(Text.isCommentTok t) && !(t.startsWith "`") &&
  (match t.toList with
   | c :: _ => !c.isDigit
   | [] => false) &&
  !(t.toSlice.startsWith Char.isWhitespace) && !(t.toSlice.endsWith Char.isWhitespace)

theorem plainK_sound (t : String) (h : plainK t = true) : nameTokB t t = true := by
  unfold plainK at h
  simp only [Bool.and_eq_true, Bool.not_eq_eq_eq_not, Bool.not_true] at h
  obtain ⟨⟨⟨⟨⟨⟨h1, h2⟩, h3⟩, h4⟩, h5⟩, h6⟩, h7⟩ := h
  unfold nameTokB
  simp only [h1, strip_plain t h6 h7, beq_self_eq_true, h2, h3, h4, Bool.not_false, Bool.and_self, Bool.true_and]
  exact h5

def nameK (nm : String) : Bool := nameT nm == nm && plainK nm

theorem nameK_sound (nm : String) (h : nameK nm = true) : nameTokB (nameT nm) nm = true := by
  simp only [nameK, Bool.and_eq_true, beq_iff_eq] at h
  rw [h.1]; exact plainK_sound nm h.2

def intK (i : Int) : Bool := numericTok (Text.showInt i) && !(reserved.contains (Text.showInt i))

theorem toInt_showInt (i : Int) : toInt (Text.showInt i) = .ok i := by
  unfold toInt Text.showInt
  have : (toString i).toInt? = some i := Int.toInt?_repr i
  rw [this]

theorem intK_sound (i : Int) (h : intK i = true) : intTokB i = true := by
  simp only [intK, Bool.and_eq_true] at h
  unfold intTokB
  simp only [h.1, toInt_showInt, beq_self_eq_true, h.2, Bool.and_self]

/-- the written module of the example -/
def exM : WModP :=
  ⟨"top", [],
   [⟨"a", .inp, some (3, 0), []⟩, ⟨"b", .inp, none, []⟩, ⟨"y", .out, some (1, 0), [("keep", none)]⟩],
   [⟨"n", "wire", some (2, 0), []⟩, ⟨"y", "wire", some (1, 0), []⟩, ⟨"b", "wire", none, []⟩, ⟨"a", "wire", some (3, 0), []⟩],
   [⟨"u0", "LUT2", [("INIT", "4'h8")], [], [("I0", .atom (.bit "a" 0)), ("I1", .atom (.id "b")), ("O", .atom (.bit "y" 0))]⟩,
    ⟨"u1", "LUT2", [], [], [("I0", .atom (.bit "n" 0)), ("I1", .empty), ("O", .atom (.bit "y" 1))]⟩,
    ⟨"r0", "RAM", [], [("dont_touch", some "\"true\"")],
      [("addr", .concat [.part "n" 2 1, .bit "a" 3, .id "b"]), ("q", .atom (.bit "n" 0))]⟩]⟩

theorem exNet_ast : astOf exNet exTop = some exM := by rfl

theorem exM_clean : cleanToks (tokensOf exM.toI) = true := by decide +kernel

theorem exM_modOK : modOK exM.toI.attrs exM.toI.name (exM.toI.ports.map (·.name)) exM.toI.sitems = true := by
  have N : ∀ nm, nameK nm = true → nameTokB (nameT nm) nm = true := nameK_sound
  have P : ∀ t, plainK t = true → nameTokB t t = true := plainK_sound
  have I : ∀ i, intK i = true → intTokB i = true := intK_sound
  simp only [modOK, exM, WModP.toI, WModI.sitems, PInst.toN, toXE, toX, List.map_cons, List.map_nil, List.all_cons, List.all_nil,
    List.cons_append, List.nil_append, SItem.ok, portOK, rangeOK, attrsOK, attrOK, instOK, paramsOK, connOK, exprOK, atomOK,
    Bool.and_eq_true, Bool.and_true, List.isEmpty_cons, Bool.not_false, decide_eq_true_eq]
  repeat' constructor
  all_goals first
    | exact N _ (by decide +kernel)
    | exact P _ (by decide +kernel)
    | exact I _ (by decide +kernel)
    | decide
    | simp

theorem exM_tokOK : tokOK exM.toI = true := by
  unfold tokOK
  rw [exM_modOK, exM_clean]
  rfl

/-- non-vacuity of `c04_tokens`: the example netlist satisfies its hypotheses -/
theorem exNet_tokens : ∀ m, astOf exNet exTop = some m → tokOK m.toI = true := by
  intro m hm
  rw [exNet_ast] at hm
  rw [← Option.some.inj hm]
  exact exM_tokOK
end Spydr.Verilog.Elab
