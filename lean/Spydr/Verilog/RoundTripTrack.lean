/-
  Verilog engine — proof side, part 15: what the declaration phases of a written module leave behind, in closed form:
  every net by name (`buildW3_cab`), the ports in order (`buildW3_ports`), every port wired to the net of its name (`buildW3_PC`).
-/
import Spydr.Verilog.RoundTripBits
set_option maxHeartbeats 400000
namespace Spydr.Verilog.Elab
open Spydr.Verilog

/-! ### what the three declaration phases leave for every net name -/

/-- lower index, width, type, attributes of the net called `nm` -/
abbrev CabV := Int × Nat × Option String × Option Attrs

def cabOf (d : Def) (nm : String) : Option CabV :=
  (d.cables.find? (fun c => c.name == nm)).map (fun c => (c.lower, c.wires.length, c.ctype, c.attrs))

theorem foldLocal_track {α β : Type} (tr : Def → β) (upd : β → α → β) (step : Def → Nat → α → Option (Def × Nat))
    (h : ∀ d n a d' n', step d n a = some (d', n') → tr d' = upd (tr d) a) :
    ∀ (as : List α) (d : Def) (n : Nat) (d' : Def) (n' : Nat), foldLocal step d n as = some (d', n') →
      tr d' = as.foldl upd (tr d) := by
  intro as
  induction as with
  | nil => intro d n d' n' hf; simp only [foldLocal, Option.some.injEq, Prod.mk.injEq] at hf; rw [← hf.1]; rfl
  | cons a as ih =>
    intro d n d' n' hf
    unfold foldLocal at hf
    cases hs : step d n a with
    | none => simp [hs] at hf
    | some r =>
      simp only [hs] at hf
      rw [ih r.1 r.2 d' n' hf, h d n a r.1 r.2 (by rw [hs])]
      rfl

def updS (f : String → Option CabV) (a : String) : String → Option CabV :=
  fun nm => if nm = a then some (0, 1, none, none) else f nm

def updD (f : String → Option CabV) (p : PDecl) : String → Option CabV :=
  fun nm => if nm = p.name then (f nm).map (fun v => (stubLo p.rng, 1 + stubExtra p.rng, v.2.2.1, v.2.2.2)) else f nm

def updW (f : String → Option CabV) (w : FWire) : String → Option CabV :=
  fun nm => if nm = w.name then
      (match f nm with
       | none => some ((shapeOf w.rng).1, (shapeOf w.rng).2.1, some w.ty, some w.attrs)
       | some v => some (v.1, v.2.1, some w.ty, some w.attrs))
    else f nm

theorem find_append_single (cs : List Cable) (c : Cable) (nm : String) (h : cs.find? (fun x => x.name == c.name) = none) :
    (cs ++ [c]).find? (fun x => x.name == nm) = if nm = c.name then some c else cs.find? (fun x => x.name == nm) := by
  rw [List.find?_append]
  by_cases e : nm = c.name
  · subst e; rw [h]; simp
  · simp only [e, if_false]
    cases cs.find? (fun x => x.name == nm) with
    | some v => rfl
    | none => simp; exact fun h' => e h'.symm

theorem stubStep_cab (d : Def) (n : Nat) (a : String) (d' : Def) (n' : Nat) (h : stubStep d n a = some (d', n')) :
    cabOf d' = updS (cabOf d) a := by
  unfold stubStep at h
  split at h
  · rename_i hc
    simp only [Option.some.injEq, Prod.mk.injEq] at h
    rw [← h.1]
    funext nm
    unfold cabOf updS
    simp only
    rw [find_append_single d.cables (portCable a 0 true [n]) nm hc.2]
    by_cases e : nm = a
    · simp [e, portCable]
    · simp [e, portCable]
  · cases h

theorem find_map_replace (cs : List Cable) (nm0 nm : String) (C : Cable) (hC : C.name = nm0) :
    (cs.map (fun y => if y.name == nm0 then C else y)).find? (fun x => x.name == nm) =
      if nm = nm0 then (cs.find? (fun x => x.name == nm)).map (fun _ => C) else cs.find? (fun x => x.name == nm) := by
  induction cs with
  | nil => simp
  | cons y ys ih =>
    simp only [List.map_cons, List.find?_cons]
    by_cases ey : y.name = nm0
    · simp only [ey, beq_self_eq_true, if_true, hC]
      by_cases e : nm = nm0
      · simp [e]
      · have : (nm0 == nm) = false := by simp; exact fun h => e h.symm
        simp only [this, e, if_false]
        rw [ih]; simp [e]
    · have hy : (y.name == nm0) = false := by simp [ey]
      simp only [hy, Bool.false_eq_true, if_false]
      by_cases e : nm = nm0
      · subst e
        have : (y.name == nm) = false := by simp [ey]
        simp only [this, if_true]
        rw [ih]; simp
      · simp only [e, if_false]
        cases hyn : (y.name == nm) with
        | true => rfl
        | false => simp only; rw [ih]; simp [e]

theorem declStep_cab (d : Def) (n : Nat) (p : PDecl) (d' : Def) (n' : Nat) (h : declStep d n p = some (d', n')) :
    cabOf d' = updD (cabOf d) p := by
  unfold declStep at h
  split at h
  · rename_i k c0 hk hc
    split at h
    · rename_i w0 w0' hp0 hc0
      split at h
      · simp only [Option.some.injEq, Prod.mk.injEq] at h
        rw [← h.1]
        funext nm
        unfold cabOf updD
        simp only
        have hc0n : c0.name = p.name := by simpa using List.find?_some hc
        rw [find_map_replace d.cables p.name nm (grownCable c0 p.rng n) hc0n]
        by_cases e : nm = p.name
        · subst e
          simp only [if_true, hc, Option.map_some]
          simp [grownCable, hc0, ids]
          omega
        · simp [e]
      · cases h
    · cases h
  · cases h

theorem wireStep_cab (d : Def) (n : Nat) (w : FWire) (d' : Def) (n' : Nat) (h : wireStep d n w = some (d', n')) :
    cabOf d' = updW (cabOf d) w := by
  unfold wireStep at h
  split at h
  · rename_i hc
    simp only [Option.some.injEq, Prod.mk.injEq] at h
    rw [← h.1]
    funext nm
    unfold cabOf updW
    simp only
    rw [find_append_single d.cables (wireCable w n) nm hc]
    by_cases e : nm = w.name
    · subst e
      simp [hc, wireCable, ids]
    · simp [e, wireCable]
  · rename_i c hc
    split at h
    · simp only [Option.some.injEq, Prod.mk.injEq] at h
      rw [← h.1]
      funext nm
      unfold cabOf updW
      simp only
      have hcn : c.name = w.name := by simpa using List.find?_some hc
      rw [find_map_replace d.cables w.name nm { c with ctype := some w.ty, attrs := some w.attrs } hcn]
      by_cases e : nm = w.name
      · subst e
        simp [hc]
      · simp [e]
    · cases h

/-- folding pointwise updates: only the items with that key matter -/
theorem foldl_pointwise {α V : Type} (key : α → String) (g : α → Option V → Option V)
    (upd : (String → Option V) → α → String → Option V)
    (hupd : ∀ f a nm, upd f a nm = if nm = key a then g a (f nm) else f nm) (nm : String) :
    ∀ (as : List α) (f : String → Option V),
      (as.foldl upd f) nm = (as.filter (fun a => key a == nm)).foldl (fun v a => g a v) (f nm) := by
  intro as
  induction as with
  | nil => intro f; rfl
  | cons a as ih =>
    intro f
    simp only [List.foldl_cons, List.filter_cons]
    rw [ih, hupd]
    by_cases e : nm = key a
    · subst e; simp
    · have : (key a == nm) = false := by simp; exact fun h => e h.symm
      simp [e, this]

theorem filter_key_nodup {α : Type} (key : α → String) (nm : String) : ∀ (as : List α), (as.map key).Nodup →
    (as.filter (fun a => key a == nm) = [] ∧ nm ∉ as.map key) ∨
    (∃ a ∈ as, key a = nm ∧ as.filter (fun a => key a == nm) = [a]) := by
  intro as
  induction as with
  | nil => intro _; left; simp
  | cons a as ih =>
    intro hn
    rw [List.map_cons, List.nodup_cons] at hn
    by_cases e : key a = nm
    · right
      refine ⟨a, List.mem_cons_self, e, ?_⟩
      simp only [List.filter_cons, e, beq_self_eq_true, if_true]
      congr 1
      apply List.filter_eq_nil_iff.mpr
      intro x hx hk
      apply hn.1
      rw [e]
      have : key x = nm := by simpa using hk
      exact List.mem_map.mpr ⟨x, hx, this⟩
    · rcases ih hn.2 with h | h
      · left
        simp only [List.filter_cons, show (key a == nm) = false by simp [e], Bool.false_eq_true, if_false]
        refine ⟨h.1, ?_⟩
        simp only [List.map_cons, List.mem_cons, not_or]
        exact ⟨fun h' => e h'.symm, h.2⟩
      · right
        obtain ⟨x, hx, hk, hf⟩ := h
        refine ⟨x, List.mem_cons_of_mem _ hx, hk, ?_⟩
        simp only [List.filter_cons, show (key a == nm) = false by simp [e], Bool.false_eq_true, if_false]
        exact hf

theorem buildW3_cab (d0 : Def) (n : Nat) (ports : List PDecl) (wires : List FWire) (d3 : Def) (n3 : Nat)
    (hb : buildW3 d0 n ports wires = some (d3, n3)) :
    cabOf d3 = wires.foldl updW (ports.foldl updD ((ports.map (·.name)).foldl updS (cabOf d0))) := by
  unfold buildW3 at hb
  cases h1 : foldLocal stubStep d0 n (ports.map (·.name)) with
  | none => simp [h1] at hb
  | some r1 =>
    simp only [h1] at hb
    split at hb
    · cases h2 : foldLocal declStep r1.1 r1.2 ports with
      | none => simp [h2] at hb
      | some r2 =>
        simp only [h2] at hb
        rw [foldLocal_track cabOf updW wireStep wireStep_cab _ _ _ _ _ hb,
          foldLocal_track cabOf updD declStep declStep_cab _ _ _ r2.1 r2.2 (by rw [h2]),
          foldLocal_track cabOf updS stubStep stubStep_cab _ _ _ r1.1 r1.2 (by rw [h1])]
    · cases hb

/-! ### the ports after the declaration phases -/

/-- name, direction, lower index, width, attributes of a port -/
abbrev PV := Option String × Dir × Int × Nat × Option Attrs

def pv (P : Port) : PV := (P.name, P.dir, P.lower, P.pins.length, P.attrs)

def stubV (a : String) : PV := (some a, .undef, 0, 1, none)
def declV (p : PDecl) : PV :=
  (some p.name, p.dir, stubLo p.rng, 1 + stubExtra p.rng, if p.attrs.isEmpty then none else some p.attrs)

theorem stub_fold_ports : ∀ (names : List String) (d : Def) (n : Nat) (d' : Def) (n' : Nat),
    foldLocal stubStep d n names = some (d', n') → d'.ports.map pv = d.ports.map pv ++ names.map stubV := by
  intro names
  induction names with
  | nil => intro d n d' n' h; simp only [foldLocal, Option.some.injEq, Prod.mk.injEq] at h; rw [← h.1]; simp
  | cons a as ih =>
    intro d n d' n' h
    unfold foldLocal at h
    cases hs : stubStep d n a with
    | none => simp [hs] at h
    | some r =>
      simp only [hs] at h
      rw [ih r.1 r.2 d' n' h]
      unfold stubStep at hs
      split at hs
      · simp only [Option.some.injEq] at hs
        rw [← hs]
        simp [pv, stubV, wiredPort]
      · cases hs

theorem decl_fold_ports : ∀ (todo done : List PDecl) (d : Def) (n : Nat) (d' : Def) (n' : Nat),
    d.ports.map pv = done.map declV ++ todo.map (fun p => stubV p.name) →
    ((done ++ todo).map (·.name)).Nodup →
    foldLocal declStep d n todo = some (d', n') → d'.ports.map pv = (done ++ todo).map declV := by
  intro todo
  induction todo with
  | nil =>
    intro done d n d' n' hv _ h
    simp only [foldLocal, Option.some.injEq, Prod.mk.injEq] at h
    rw [← h.1, hv]; simp
  | cons p ps ih =>
    intro done d n d' n' hv hn h
    unfold foldLocal at h
    cases hs : declStep d n p with
    | none => simp [hs] at h
    | some r =>
      simp only [hs] at h
      have := ih (done ++ [p]) r.1 r.2 d' n' ?_ (by simpa using hn) h
      · simpa using this
      · -- the view after the step
        unfold declStep at hs
        split at hs
        · rename_i k c0 hk hc
          split at hs
          · rename_i w0 w0' hp0 hc0
            split at hs
            · rename_i hcond
              simp only [Option.some.injEq] at hs
              rw [← hs]
              simp only
              -- k is the position of p
              have hlen : d.ports.length = done.length + (ps.length + 1) := by
                have := congrArg List.length hv
                simpa using this
              have hklt := portIdx_lt hk
              have hkname : (d.ports.getD k default).name = some p.name := hcond.2.2.1
              have hnames : d.ports.map (·.name) = (done ++ p :: ps).map (fun q => some q.name) := by
                have := congrArg (List.map (fun (v : PV) => v.1)) hv
                simp only [List.map_map, List.map_append, List.map_cons] at this
                rw [List.map_append, List.map_cons]
                exact this
              have hk : k = done.length := by
                have h1 : (d.ports.map (·.name))[k]? = some (some p.name) := by
                  rw [List.getElem?_map, List.getElem?_eq_getElem hklt]
                  have hk2 : d.ports[k] = d.ports.getD k default := by simp [List.getD, List.getElem?_eq_getElem hklt]
                  rw [hk2]; simp only [Option.map_some, hkname]
                have h2 : (d.ports.map (·.name))[done.length]? = some (some p.name) := by
                  rw [hnames]; simp
                exact (List.getElem?_inj (by simpa using hklt) hcond.2.2.2.2.2.1).mp (h1.trans h2.symm)
              subst hk
              rw [List.map_set, hv]
              rw [List.set_append_right _ _ (by simp)]
              simp only [List.length_map, Nat.sub_self, List.map_cons, List.set_cons_zero, List.map_append, List.map_nil,
                List.append_assoc, List.singleton_append]
              congr 2
              -- the stub port had no attributes
              have hattr : (d.ports.getD done.length default).attrs = none := by
                have := congrArg (fun l => (l[done.length]?).map (fun (v : PV) => v.2.2.2.2)) hv
                simp only [List.getElem?_map] at this
                rw [List.getElem?_eq_getElem hklt] at this
                have hk2 : d.ports[done.length] = d.ports.getD done.length default := by
                  simp [List.getD, List.getElem?_eq_getElem hklt]
                rw [hk2] at this
                simp [pv, stubV] at this
                exact this
              simp [pv, declV, grownPort, ids]
              refine ⟨hkname, by omega, ?_⟩
              have hattr' : (d.ports[done.length]?.getD default).attrs = none := hattr
              rw [hattr']
            · cases hs
          · cases hs
        · cases hs

theorem wireStep_ports (d : Def) (n : Nat) (w : FWire) (d' : Def) (n' : Nat) (h : wireStep d n w = some (d', n')) :
    d'.ports = d.ports := by
  unfold wireStep at h
  split at h
  · simp only [Option.some.injEq, Prod.mk.injEq] at h; rw [← h.1]
  · split at h
    · simp only [Option.some.injEq, Prod.mk.injEq] at h; rw [← h.1]
    · cases h

theorem buildW3_ports (d0 : Def) (n : Nat) (ports : List PDecl) (wires : List FWire) (d3 : Def) (n3 : Nat)
    (h0 : d0.ports = []) (hn : (ports.map (·.name)).Nodup)
    (hb : buildW3 d0 n ports wires = some (d3, n3)) : d3.ports.map pv = ports.map declV := by
  unfold buildW3 at hb
  cases h1 : foldLocal stubStep d0 n (ports.map (·.name)) with
  | none => simp [h1] at hb
  | some r1 =>
    simp only [h1] at hb
    split at hb
    · cases h2 : foldLocal declStep r1.1 r1.2 ports with
      | none => simp [h2] at hb
      | some r2 =>
        simp only [h2] at hb
        have e1 := stub_fold_ports _ d0 n r1.1 r1.2 (by rw [h1])
        rw [h0] at e1
        simp only [List.map_nil, List.nil_append, List.map_map] at e1
        have e2 := decl_fold_ports ports [] r1.1 r1.2 r2.1 r2.2 (by simpa [Function.comp_def] using e1) (by simpa using hn)
          (by rw [h2])
        have e3 := foldLocal_pres (·.ports) wireStep wireStep_ports _ _ _ _ _ hb
        rw [e3]
        simpa using e2
    · cases hb

/-! ### every port is wired, pin by pin, to the net of its own name -/

def PC (d : Def) : Prop :=
  ∀ P ∈ d.ports, ∃ nm C, P.name = some nm ∧ d.cables.find? (fun c => c.name == nm) = some C ∧
    P.pins = C.wires.map some ∧ P.lower = C.lower

theorem stubStep_PC (d : Def) (n : Nat) (a : String) (d' : Def) (n' : Nat) (h : PC d)
    (hs : stubStep d n a = some (d', n')) : PC d' := by
  unfold stubStep at hs
  split at hs
  · rename_i hc
    simp only [Option.some.injEq, Prod.mk.injEq] at hs
    rw [← hs.1]
    intro P hP
    simp only at hP ⊢
    rcases List.mem_append.mp hP with e | e
    · obtain ⟨nm, C, h1, h2, h3, h4⟩ := h P e
      refine ⟨nm, C, h1, ?_, h3, h4⟩
      rw [find_append_single d.cables _ nm hc.2]
      have : nm ≠ a := by
        intro e'; rw [e'] at h2; rw [hc.2] at h2; cases h2
      simp [portCable, this, h2]
    · simp only [List.mem_singleton] at e
      refine ⟨a, portCable a 0 true [n], by rw [e]; rfl, ?_, by rw [e]; rfl, by rw [e]; rfl⟩
      rw [find_append_single d.cables _ a hc.2]
      simp [portCable]
  · cases hs

theorem declStep_PC (d : Def) (n : Nat) (p : PDecl) (d' : Def) (n' : Nat) (h : PC d)
    (hs : declStep d n p = some (d', n')) : PC d' := by
  unfold declStep at hs
  split at hs
  · rename_i k c0 hk hc
    split at hs
    · rename_i w0 w0' hp0 hc0
      split at hs
      · rename_i hcond
        obtain ⟨hw, _, hpn, _, _, hnp, _, _⟩ := hcond
        simp only [Option.some.injEq, Prod.mk.injEq] at hs
        rw [← hs.1]
        have hc0n : c0.name = p.name := by simpa using List.find?_some hc
        have hklt := portIdx_lt hk
        intro P hP
        simp only at hP ⊢
        obtain ⟨i, hi, hPi⟩ := List.getElem_of_mem hP
        simp only [List.length_set] at hi
        have hkk : d.ports[k] = d.ports.getD k default := by simp [List.getD, List.getElem?_eq_getElem hklt]
        by_cases eik : i = k
        · subst eik
          rw [List.getElem_set_self] at hPi
          refine ⟨p.name, grownCable c0 p.rng n, by rw [← hPi]; exact hpn, ?_, ?_, by rw [← hPi]; rfl⟩
          · rw [find_map_replace d.cables p.name p.name _ (show (grownCable c0 p.rng n).name = p.name from hc0n)]
            simp [hc]
          · rw [← hPi]; simp [grownPort, grownCable, hc0, hw]
        · rw [List.getElem_set_ne (fun h' => eik h'.symm)] at hPi
          obtain ⟨nm, C, h1, h2, h3, h4⟩ := h P (by rw [← hPi]; exact List.getElem_mem hi)
          have en : nm ≠ p.name := by
            intro en
            apply eik
            have h6 : (d.ports.map (·.name))[i]'(by simpa using hi) = (d.ports.map (·.name))[k]'(by simpa using hklt) := by
              simp only [List.getElem_map, hPi, h1, en, hkk, hpn]
            exact (List.getElem_inj hnp).mp h6
          refine ⟨nm, C, h1, ?_, h3, h4⟩
          rw [find_map_replace d.cables p.name nm _ (show (grownCable c0 p.rng n).name = p.name from hc0n)]
          simp [en, h2]
      · cases hs
    · cases hs
  · cases hs

theorem wireStep_PC (d : Def) (n : Nat) (w : FWire) (d' : Def) (n' : Nat) (h : PC d)
    (hs : wireStep d n w = some (d', n')) : PC d' := by
  unfold wireStep at hs
  split at hs
  · rename_i hc
    simp only [Option.some.injEq, Prod.mk.injEq] at hs
    rw [← hs.1]
    intro P hP
    obtain ⟨nm, C, h1, h2, h3, h4⟩ := h P hP
    refine ⟨nm, C, h1, ?_, h3, h4⟩
    simp only
    rw [find_append_single d.cables _ nm hc]
    have : nm ≠ w.name := by
      intro e'; rw [e'] at h2; rw [hc] at h2; cases h2
    simp [wireCable, this, h2]
  · rename_i c hc
    split at hs
    · simp only [Option.some.injEq, Prod.mk.injEq] at hs
      rw [← hs.1]
      have hcn : c.name = w.name := by simpa using List.find?_some hc
      intro P hP
      obtain ⟨nm, C, h1, h2, h3, h4⟩ := h P hP
      simp only
      by_cases en : nm = w.name
      · subst en
        rw [hc] at h2
        have : c = C := Option.some.inj h2
        subst this
        refine ⟨w.name, { c with ctype := some w.ty, attrs := some w.attrs }, h1, ?_, h3, h4⟩
        rw [find_map_replace d.cables w.name w.name _ (show ({ c with ctype := some w.ty, attrs := some w.attrs } : Cable).name = w.name from hcn)]
        simp [hc]
      · refine ⟨nm, C, h1, ?_, h3, h4⟩
        rw [find_map_replace d.cables w.name nm _ (show ({ c with ctype := some w.ty, attrs := some w.attrs } : Cable).name = w.name from hcn)]
        simp [en, h2]
    · cases hs

theorem buildW3_PC (d0 : Def) (n : Nat) (ports : List PDecl) (wires : List FWire) (d3 : Def) (n3 : Nat)
    (h0 : PC d0) (hb : buildW3 d0 n ports wires = some (d3, n3)) : PC d3 := by
  unfold buildW3 at hb
  cases h1 : foldLocal stubStep d0 n (ports.map (·.name)) with
  | none => simp [h1] at hb
  | some r1 =>
    simp only [h1] at hb
    split at hb
    · cases h2 : foldLocal declStep r1.1 r1.2 ports with
      | none => simp [h2] at hb
      | some r2 =>
        simp only [h2] at hb
        have w1 := foldLocal_inv (fun d _ => PC d) stubStep (fun d n a d' n' => stubStep_PC d n a d' n') _ _ _ r1.1 r1.2 h0 (by rw [h1])
        have w2 := foldLocal_inv (fun d _ => PC d) declStep (fun d n a d' n' => declStep_PC d n a d' n') _ _ _ r2.1 r2.2 w1 (by rw [h2])
        exact foldLocal_inv (fun d _ => PC d) wireStep (fun d n a d' n' => wireStep_PC d n a d' n') _ _ _ d3 n3 w2 hb
    · cases hb
end Spydr.Verilog.Elab
