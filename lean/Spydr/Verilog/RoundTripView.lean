/-
  Verilog engine — proof side, part 17: C04 at module level up to tokens (`c04_view`, `c04_ast`): the module the writer
  prints for a netlist of the fragment, read by the real `elabDesign`, shows the same view as the netlist.
-/
import Spydr.Verilog.RoundTripAst
set_option maxHeartbeats 400000
namespace Spydr.Verilog.Elab
open Spydr.Verilog

/-! ### ports -/

theorem astPort_spec (T : Text.WDef) (p : Text.WPort) (mp : PDecl) (h : astPort T p = some mp) :
    ∃ nm c dir, p.name = some nm ∧ T.cables.find? (fun c => c.name == nm) = some c ∧ dirOfS p.dir = some dir ∧
      mp = ⟨nm, dir, emitDeclRange c.lower c.width, p.attrs.getD []⟩ := by
  unfold astPort at h
  split at h
  · cases h
  · rename_i nm hn
    split at h
    · rename_i c dir hc hd
      split at h
      · simp only [Option.some.injEq] at h
        exact ⟨nm, c, dir, hn, hc, hd, h.symm⟩
      · cases h
    · cases h

theorem ports_view (T : Text.WDef) (ports : List PDecl) (d3 : Def)
    (hm : T.ports.mapM (astPort T) = some ports)
    (hfrag : ∀ p ∈ T.ports, ∀ nm, p.name = some nm → ∀ c, T.cables.find? (fun c => c.name == nm) = some c →
      p.lower = c.lower ∧ p.width = c.width ∧ p.pins = (cableBits nm c.lower c.width).items.map some)
    (H2 : ∀ c ∈ T.cables, 1 ≤ c.width)
    (hpv : d3.ports.map pv = ports.map declV) (hpc : PC d3) (hw : WInv d3)
    (hcab : ∀ nm, (cabOf d3 nm).map normV =
      (T.cables.find? (fun c => c.name == nm)).map (fun c => (c.lower, c.width, c.ctype.getD "wire", c.attrs.getD []))) :
    d3.ports.map (fun P => (⟨P.name, P.dir, P.lower, P.attrs.getD [], pinBits d3 P.pins⟩ : PortView)) =
      T.ports.map (fun p => (⟨p.name, dirV p.dir, p.lower, p.attrs.getD [], p.pins⟩ : PortView)) := by
  obtain ⟨hlen, hidx⟩ := mapM_index _ _ _ hm
  have hlen2 : d3.ports.length = ports.length := by
    have := congrArg List.length hpv; simpa using this
  apply List.ext_getElem (by simp [hlen2, hlen])
  intro k h1 h2
  simp only [List.length_map] at h1 h2
  simp only [List.getElem_map]
  have hkp : k < ports.length := by omega
  have hpvk : pv d3.ports[k] = declV ports[k] := by
    have := congrArg (fun l => l[k]?) hpv
    simp only [List.getElem?_map, List.getElem?_eq_getElem h1, List.getElem?_eq_getElem hkp, Option.map_some,
      Option.some.injEq] at this
    exact this
  obtain ⟨nm, c, dir, hn, hc, hd, hmp⟩ := astPort_spec T _ _ (hidx k h2 hkp)
  obtain ⟨f1, f2, f3⟩ := hfrag _ (List.getElem_mem h2) nm hn c hc
  have hcm := List.mem_of_find?_eq_some hc
  obtain ⟨s1, s2, _⟩ := stub_declRange c.lower c.width (H2 c hcm)
  generalize hP : d3.ports[k] = P at hpvk
  generalize hp : T.ports[k] = p at hn hd hmp f1 f2 f3
  rw [hmp] at hpvk
  simp only [pv, declV, Prod.mk.injEq] at hpvk
  obtain ⟨e1, e2, e3, e4, e5⟩ := hpvk
  -- the pins
  obtain ⟨nm', C, g1, g2, g3, g4⟩ := hpc P (by rw [← hP]; exact List.getElem_mem h1)
  have hnm : nm' = nm := by rw [e1] at g1; exact (Option.some.inj g1).symm
  subst hnm
  have hCm := List.mem_of_find?_eq_some g2
  have hCn : C.name = nm' := by simpa using List.find?_some g2
  have hcabk := hcab nm'
  unfold cabOf at hcabk
  rw [g2, hc] at hcabk
  simp only [Option.map_some, normV, Option.some.injEq, Prod.mk.injEq] at hcabk
  have hpins : pinBits d3 P.pins = p.pins := by
    rw [g3, pinBits_some, cable_bits d3 hw C hCm, f3, hCn, hcabk.1, hcabk.2.1]
  have hattrs : P.attrs.getD [] = p.attrs.getD [] := by
    rw [e5]
    split
    · rename_i he
      simp only [Option.getD_none]
      exact (List.isEmpty_iff.mp he).symm
    · rfl
  have hdir : dirV p.dir = dir := by unfold dirV; rw [hd]; rfl
  rw [hpins, hattrs, hdir, e1, e2, e3, s1, hn, f1]

/-! ### instances -/

theorem allDen_index (d : Def) : ∀ (rows : List (List (Option Nat))) (pes : List PExpr), AllDen d rows pes →
    rows.length = pes.length ∧ ∀ k (h1 : k < rows.length) (h2 : k < pes.length), RowDen d rows[k] pes[k] := by
  intro rows
  induction rows with
  | nil =>
    intro pes h
    cases pes with
    | nil => exact ⟨rfl, fun k h1 => by simp at h1⟩
    | cons p ps => exact absurd h (by simp [AllDen])
  | cons r rs ih =>
    intro pes h
    cases pes with
    | nil => exact absurd h (by simp [AllDen])
    | cons p ps =>
      obtain ⟨h1, h2⟩ := h
      obtain ⟨i1, i2⟩ := ih ps h2
      refine ⟨by simp [i1], ?_⟩
      intro k hk1 hk2
      cases k with
      | zero => exact h1
      | succ k => exact i2 k (by simpa using hk1) (by simpa using hk2)

/-- a row that denotes the writer's expression for a pin vector of reader shape shows the connected block of that vector -/
theorem rowDen_block (d : Def) (env : CableEnv) (henv : envOf d = env) (row : List (Option Nat)) (pins : List (Option Bit))
    (pe : PExpr) (hne : pins ≠ []) (hs : ReaderShape env pins) (hpe : emitPortExpr env pins = some pe)
    (hd : RowDen d row pe) : connectedBlock (pinBits d row) = connectedBlock pins := by
  obtain ⟨blk, m, e, hv⟩ := hs
  subst e
  obtain ⟨e', h1, h2, _⟩ := emit_eval env blk m hne hv
  rw [hpe] at h1
  have : pe = e' := Option.some.inj h1
  subst this
  obtain ⟨bs, he, hp, _⟩ := hd
  rw [henv, h2] at he
  have : bs = blk.reverse := (Option.some.inj he).symm
  subst this
  rw [hp, connectedBlock_low]
  simp only [lowAligned, List.reverse_reverse]
  rw [connectedBlock_low]

theorem portIdx_of_nodup (rd : Def) (k : Nat) (pn : String) (hn : (rd.ports.map (·.name)).Nodup) (hk : k < rd.ports.length)
    (hname : rd.ports[k].name = some pn) : portIdx rd pn = some k := by
  unfold portIdx
  rw [List.findIdx?_eq_some_iff_getElem]
  refine ⟨hk, by simp [hname], ?_⟩
  intro j hj
  have : rd.ports[j].name ≠ some pn := by
    intro e
    have h6 : (rd.ports.map (·.name))[j]'(by simp; omega) = (rd.ports.map (·.name))[k]'(by simpa using hk) := by
      simp only [List.getElem_map, e, hname]
    have := (List.getElem_inj hn).mp h6
    omega
  simp [this]

/-- occupied rows have been written by one of the non-empty connections made so far -/
def OccInv (rd : Def) (rows : List (List (Option Nat))) (done : List (String × PExpr)) : Prop :=
  ∀ k, Occupied (rows.getD k []) → ∃ c ∈ done, c.2 ≠ .empty ∧ portIdx rd c.1 = some k

theorem connStep_occ (d rd : Def) (rows rows' : List (List (Option Nat))) (done : List (String × PExpr))
    (c : String × PExpr) (inv : OccInv rd rows done) (hs : connStep d rd rows (c.1, toXE c.2) = some rows') :
    OccInv rd rows' (done ++ [c]) := by
  unfold connStep at hs
  split at hs
  · cases hs
  · rename_i k hk
    split at hs
    · rename_i hcond
      split at hs
      · split at hs
        · simp only [Option.some.injEq] at hs
          subst hs
          intro j hj
          obtain ⟨c', hc', h1, h2⟩ := inv j hj
          exact ⟨c', List.mem_append_left _ hc', h1, h2⟩
        · cases hs
      · rename_i hne
        split at hs
        · cases hs
        · rename_i ws hws
          split at hs
          · simp only [Option.some.injEq] at hs
            subst hs
            intro j hj
            by_cases e : j = k
            · subst e
              refine ⟨c, List.mem_append_right _ List.mem_cons_self, ?_, hk⟩
              intro he
              apply hne
              rw [he]; rfl
            · rw [List.getD_eq_getElem?_getD, List.getElem?_set_ne (fun h => e h.symm), ← List.getD_eq_getElem?_getD] at hj
              obtain ⟨c', hc', h1, h2⟩ := inv j hj
              exact ⟨c', List.mem_append_left _ hc', h1, h2⟩
          · cases hs
    · cases hs

theorem connFold_occ (d rd : Def) : ∀ (pes done : List (String × PExpr)) (rows rows' : List (List (Option Nat))),
    OccInv rd rows done → (pes.map (fun c => (c.1, toXE c.2))).foldlM (connStep d rd) rows = some rows' →
    OccInv rd rows' (done ++ pes) := by
  intro pes
  induction pes with
  | nil =>
    intro done rows rows' inv hf
    simp only [List.map_nil, List.foldlM_nil, pure, Option.some.injEq] at hf
    subst hf
    simpa using inv
  | cons c cs ih =>
    intro done rows rows' inv hf
    simp only [List.map_cons, List.foldlM_cons] at hf
    cases hs : connStep d rd rows (c.1, toXE c.2) with
    | none => simp [hs] at hf
    | some r1 =>
      simp only [hs, Option.bind_eq_bind, Option.bind_some] at hf
      have := ih (done ++ [c]) r1 rows' (connStep_occ d rd rows r1 done c inv hs) hf
      simpa using this

theorem astInst_spec (n : Text.WNet) (T : Text.WDef) (i : Text.WInst) (pi : PInst) (h : astInst n T i = some pi) :
    ∃ r conns, Text.refOf n i.ref = some r ∧ pi = ⟨i.name, i.ref, i.params.getD [], i.attrs.getD [], conns⟩ ∧
      conns.length = r.ports.length ∧
      ∀ k (hk : k < r.ports.length) (hk' : k < conns.length), r.ports[k].name = some conns[k].1 ∧
        emitPortExpr (Text.envOf T) (i.pins.getD k []) = some conns[k].2 := by
  unfold astInst at h
  cases hr : Text.refOf n i.ref with
  | none => simp [hr] at h
  | some r =>
    simp only [hr, Option.map_eq_some_iff] at h
    obtain ⟨conns, hm, hp⟩ := h
    obtain ⟨h1, h2⟩ := mapM_index _ _ _ hm
    refine ⟨r, conns, rfl, hp.symm, by simpa using h1, ?_⟩
    intro k hk hk'
    have := h2 k (by simpa using hk) hk'
    simp only [List.getElem_range] at this
    have hg : r.ports.getD k default = r.ports[k] := by simp [List.getD, List.getElem?_eq_getElem hk]
    rw [hg] at this
    split at this
    · rename_i pn pe h3 h4
      simp only [Option.some.injEq] at this
      rw [← this]
      exact ⟨h3, h4⟩
    · cases this

/-- the modules the file does not declare: each enters the table with the port names of its definition in the netlist -/
def LeafInv (n : Text.WNet) (ls : List Def) : Prop :=
  ∀ L ∈ ls, ∃ r, Text.refOf n L.name = some r ∧ L.ports.map (·.name) = r.ports.map (·.name)

def instViewD (d : Def) (i : Inst) : InstView :=
  ⟨i.name, i.ref, i.params, i.attrs.getD [], i.pins.map (fun row => connectedBlock (pinBits d row))⟩

def instViewT (n : Text.WNet) (i : Text.WInst) : InstView :=
  ⟨i.name, i.ref, i.params.getD [], i.attrs.getD [],
   (List.range (((Text.refOf n i.ref).map (fun (r : Text.WDef) => r.ports.length)).getD 0)).map
     (fun k => connectedBlock (i.pins.getD k []))⟩

theorem inst_view_step (n : Text.WNet) (T : Text.WDef) (d : Def) (ls : List Def) (i : Text.WInst) (pi : PInst)
    (d' : Def) (ls' : List Def) (hw : WInv d) (henv : envOf d = Text.envOf T)
    (hpi : astInst n T i = some pi)
    (hfr : ∀ r, Text.refOf n i.ref = some r → (r.ports.map (·.name)).Nodup ∧ ((i.params.getD []).map (·.1)).Nodup ∧
      ∀ k, k < r.ports.length → i.pins.getD k [] ≠ [] ∧ ReaderShape (Text.envOf T) (i.pins.getD k []))
    (hl : LeafInv n ls) (hs : instStep2 d ls pi.toN = some (d', ls')) :
    ∃ inst, d'.insts = d.insts ++ [inst] ∧ d'.cables = d.cables ∧ instViewD d inst = instViewT n i ∧ LeafInv n ls' := by
  obtain ⟨r, conns, hr, hpie, hclen, hck⟩ := astInst_spec n T i pi hpi
  obtain ⟨hrn, hpar, hrows⟩ := hfr r hr
  subst hpie
  have hrowk : ∀ (row : List (Option Nat)) k (hk : k < r.ports.length) (hk' : k < conns.length),
      RowDen d row conns[k].2 → connectedBlock (pinBits d row) = connectedBlock (i.pins.getD k []) := by
    intro row k hk hk' hd
    exact rowDen_block d _ henv row _ _ (hrows k hk).1 (hrows k hk).2 (hck k hk hk').2 hd
  have hview : ∀ (rows : List (List (Option Nat))), rows.length = r.ports.length →
      (∀ k (hk : k < r.ports.length) (h2 : k < rows.length),
        connectedBlock (pinBits d rows[k]) = connectedBlock (i.pins.getD k [])) →
      instViewD d ⟨i.name, i.ref, mergeP (i.params.getD []), some (i.attrs.getD []), rows⟩ = instViewT n i := by
    intro rows hlen hk
    unfold instViewD instViewT
    simp only [hr, Option.map_some, Option.getD_some, mergeP_nodup _ hpar]
    congr 1
    apply List.ext_getElem (by simp [hlen])
    intro k h1 h2
    simp only [List.length_map, List.length_range] at h1 h2
    simp only [List.getElem_map, List.getElem_range]
    exact hk k h2 h1
  unfold instStep2 at hs
  split at hs
  · cases hf : ls.find? (fun l => l.name == (PInst.toN ⟨i.name, i.ref, i.params.getD [], i.attrs.getD [], conns⟩).mod) with
    | some rd =>
      simp only [hf, Option.map_eq_some_iff] at hs
      obtain ⟨rows, hfold, he⟩ := hs
      simp only [Prod.mk.injEq] at he
      obtain ⟨e1, e2⟩ := he
      subst e1 e2
      have hrdm := List.mem_of_find?_eq_some hf
      have hrdn : rd.name = i.ref := by
        have := List.find?_some hf
        simpa [PInst.toN] using this
      obtain ⟨r', hr', hnames⟩ := hl rd hrdm
      rw [hrdn, hr] at hr'
      have : r' = r := (Option.some.inj hr').symm
      subst this
      have hplen : rd.ports.length = r'.ports.length := by
        have := congrArg List.length hnames; simpa using this
      have hrdnodup : (rd.ports.map (·.name)).Nodup := by rw [hnames]; exact hrn
      have hfold' : (conns.map (fun c => (c.1, toXE c.2))).foldlM (connStep d rd)
          (rd.ports.map (fun p => List.replicate p.pins.length none)) = some rows := hfold
      have hrlen : rows.length = r'.ports.length := by
        rw [foldlM_connStep_length d rd _ _ rows hfold']; simp [hplen]
      have inv0 : ConnInv d rd (rd.ports.map (fun p => List.replicate p.pins.length none)) [] := by
        refine ⟨?_, by intro c hc; cases hc⟩
        intro row hrow
        obtain ⟨p, _, e⟩ := List.mem_map.mp hrow
        exact ⟨[], p.pins.length, by rw [← e]; rfl, fun w hw => by cases hw⟩
      have occ0 : OccInv rd (rd.ports.map (fun p => List.replicate p.pins.length none)) [] := by
        intro k hocc
        exfalso
        obtain ⟨w, rest, he⟩ := hocc
        rw [List.getD_eq_getElem?_getD, List.getElem?_map] at he
        cases hp : rd.ports[k]? with
        | none => simp [hp] at he
        | some p =>
          simp only [hp, Option.map_some, Option.getD_some] at he
          cases hl' : p.pins.length with
          | zero => simp [hl'] at he
          | succ m => simp [hl', List.replicate_succ] at he
      have cinv := connFold_den d rd hw conns [] _ rows inv0 hfold'
      have oinv := connFold_occ d rd conns [] _ rows occ0 hfold'
      simp only [List.nil_append] at cinv oinv
      refine ⟨_, rfl, rfl, ?_, hl⟩
      apply hview rows hrlen
      intro k hk h2
      have hk' : k < conns.length := by omega
      have hpidx : portIdx rd conns[k].1 = some k := by
        apply portIdx_of_nodup rd k _ hrdnodup (by omega)
        have := congrArg (fun l => l[k]?) hnames
        simp only [List.getElem?_map, List.getElem?_eq_getElem (show k < rd.ports.length by omega),
          List.getElem?_eq_getElem hk, Option.map_some, Option.some.injEq] at this
        rw [this]; exact (hck k hk hk').1
      have hgetD : rows.getD k [] = rows[k] := by simp [List.getD, List.getElem?_eq_getElem h2]
      by_cases hemp : conns[k].2 = .empty
      · -- unconnected in the netlist: nobody wrote that row
        have hnocc : ¬ Occupied (rows.getD k []) := by
          intro hocc
          obtain ⟨c, hc, hne, hidx⟩ := oinv k hocc
          obtain ⟨j, hj, hcj⟩ := List.getElem_of_mem hc
          have hjk : portIdx rd conns[j].1 = some j := by
            apply portIdx_of_nodup rd j _ hrdnodup (by omega)
            have := congrArg (fun l => l[j]?) hnames
            simp only [List.getElem?_map, List.getElem?_eq_getElem (show j < rd.ports.length by omega),
              List.getElem?_eq_getElem (show j < r'.ports.length by omega), Option.map_some, Option.some.injEq] at this
            rw [this]; exact (hck j (by omega) hj).1
          rw [← hcj, hjk] at hidx
          have : j = k := Option.some.inj hidx
          subst this
          rw [← hcj] at hne
          exact hne hemp
        obtain ⟨blk, m, hb, _⟩ := cinv.1 rows[k] (List.getElem_mem h2)
        have hblk : blk = [] := by
          cases blk with
          | nil => rfl
          | cons b bs => exfalso; apply hnocc; rw [hgetD, hb]; exact ⟨b, _, rfl⟩
        subst hblk
        have h1 : connectedBlock (pinBits d rows[k]) = [] := by
          rw [hb]; simp only [List.map_nil, List.nil_append, pinBits_none]
          exact connectedBlock_low [] m
        rw [h1]
        -- and the netlist row has no connected pin either
        obtain ⟨blk', m', e', hv'⟩ := (hrows k hk).2
        obtain ⟨e2, g1, g2, _⟩ := emit_eval _ blk' m' (by rw [← e']; exact (hrows k hk).1) hv'
        rw [← e', (hck k hk hk').2] at g1
        have : conns[k].2 = e2 := Option.some.inj g1
        rw [← this, hemp] at g2
        simp only [evalExpr, Option.some.injEq] at g2
        have hb' : blk' = [] := by
          have := congrArg List.length g2; simp at this
          exact List.length_eq_zero_iff.mp this.symm
        rw [e', hb']
        exact (connectedBlock_low [] m').symm
      · have := (cinv.2 conns[k] (List.getElem_mem hk') hemp k hpidx).1
        rw [hgetD] at this
        exact hrowk rows[k] k hk hk' this
    | none =>
      simp only [hf, Option.map_eq_some_iff] at hs
      obtain ⟨rr, hfold, he⟩ := hs
      simp only [Prod.mk.injEq] at he
      obtain ⟨e1, e2⟩ := he
      subst e1 e2
      have hfold' : (conns.map (fun c => (c.1, toXE c.2))).foldlM (firstStep d) ([], []) = some rr := hfold
      obtain ⟨rows, h1, h2, h3⟩ := firstStep_den d hw conns ([], []) rr hfold'
      simp only [List.nil_append, List.map_nil] at h1 h3
      obtain ⟨a1, a2⟩ := allDen_index d rows _ h2
      simp only [List.length_map] at a1
      refine ⟨_, rfl, rfl, ?_, ?_⟩
      · apply hview rr.2 (by rw [h1, a1, hclen])
        intro k hk hk2
        have hk' : k < conns.length := by omega
        have hk3 : k < rows.length := by omega
        have := a2 k hk3 (by simpa using hk')
        simp only [List.getElem_map] at this
        have e : rr.2[k] = rows[k] := by simp [h1]
        rw [e]
        exact hrowk rows[k] k hk hk' this
      · intro L hL
        rcases List.mem_append.mp hL with e | e
        · exact hl L e
        · simp only [List.mem_singleton] at e
          subst e
          refine ⟨r, hr, ?_⟩
          simp only
          rw [h3]
          apply List.ext_getElem (by simp [hclen])
          intro k g1 g2
          simp only [List.length_map] at g1 g2
          simp only [List.getElem_map]
          exact ((hck k g2 g1).1).symm
  · cases hs

theorem bitOf_cables (d d' : Def) (h : d'.cables = d.cables) : bitOf d' = bitOf d := by
  funext w; unfold bitOf; rw [h]

theorem instViewD_cables (d d' : Def) (h : d'.cables = d.cables) : instViewD d' = instViewD d := by
  funext i; unfold instViewD pinBits; rw [bitOf_cables d d' h]

theorem envOf_cables (d d' : Def) (h : d'.cables = d.cables) : envOf d' = envOf d := by
  funext nm; unfold envOf; rw [h]

theorem insts_view (n : Text.WNet) (T : Text.WDef) : ∀ (is : List Text.WInst) (pis : List PInst) (d : Def) (ls : List Def)
    (d' : Def) (ls' : List Def), is.mapM (astInst n T) = some pis → foldInst d ls (pis.map PInst.toN) = some (d', ls') →
    WInv d → envOf d = Text.envOf T →
    (∀ i ∈ is, ∀ r, Text.refOf n i.ref = some r → (r.ports.map (·.name)).Nodup ∧ ((i.params.getD []).map (·.1)).Nodup ∧
      ∀ k, k < r.ports.length → i.pins.getD k [] ≠ [] ∧ ReaderShape (Text.envOf T) (i.pins.getD k [])) →
    LeafInv n ls →
    d'.insts.map (instViewD d) = d.insts.map (instViewD d) ++ is.map (instViewT n) ∧ d'.cables = d.cables ∧ LeafInv n ls' := by
  intro is
  induction is with
  | nil =>
    intro pis d ls d' ls' hm hf _ _ _ hl
    simp only [List.mapM_nil, pure, Option.some.injEq] at hm
    subst hm
    simp only [List.map_nil, foldInst, Option.some.injEq, Prod.mk.injEq] at hf
    obtain ⟨e1, e2⟩ := hf
    subst e1 e2
    exact ⟨by simp, rfl, hl⟩
  | cons i is ih =>
    intro pis d ls d' ls' hm hf hw henv hfr hl
    rw [List.mapM_cons] at hm
    cases hpi : astInst n T i with
    | none => simp [hpi] at hm
    | some pi =>
      cases hrest : is.mapM (astInst n T) with
      | none => simp [hpi, hrest] at hm
      | some pis' =>
        simp only [hpi, hrest, Option.bind_eq_bind, Option.bind_some, pure, Option.some.injEq] at hm
        subst hm
        simp only [List.map_cons] at hf
        unfold foldInst at hf
        cases hs : instStep2 d ls pi.toN with
        | none => simp [hs] at hf
        | some r1 =>
          obtain ⟨d1, ls1⟩ := r1
          simp only [hs] at hf
          obtain ⟨inst, g1, g2, g3, g4⟩ := inst_view_step n T d ls i pi d1 ls1 hw henv hpi (hfr i List.mem_cons_self) hl hs
          have hw1 : WInv d1 := by unfold WInv; rw [g2]; exact hw
          have henv1 : envOf d1 = Text.envOf T := by rw [envOf_cables d d1 g2]; exact henv
          obtain ⟨k1, k2, k3⟩ := ih pis' d1 ls1 d' ls' hrest hf hw1 henv1
            (fun j hj => hfr j (List.mem_cons_of_mem _ hj)) g4
          rw [instViewD_cables d d1 g2] at k1
          refine ⟨?_, k2.trans g2, k3⟩
          rw [k1, g1]
          simp [g3]

/-! ### the module -/

theorem instStep2_frame (d : Def) (ls : List Def) (i : NInst) (d' : Def) (ls' : List Def) (h : instStep2 d ls i = some (d', ls')) :
    d'.ports = d.ports ∧ d'.cables = d.cables ∧ d'.attrs = d.attrs := by
  unfold instStep2 at h
  split at h
  · cases hf : ls.find? (fun l => l.name == i.mod) with
    | some rd =>
      simp only [hf, Option.map_eq_some_iff] at h
      obtain ⟨_, _, he⟩ := h
      simp only [Prod.mk.injEq] at he
      rw [← he.1]; exact ⟨rfl, rfl, rfl⟩
    | none =>
      simp only [hf, Option.map_eq_some_iff] at h
      obtain ⟨_, _, he⟩ := h
      simp only [Prod.mk.injEq] at he
      rw [← he.1]; exact ⟨rfl, rfl, rfl⟩
  · cases h

theorem foldInst_frame : ∀ (is : List NInst) (d : Def) (ls : List Def) (d' : Def) (ls' : List Def),
    foldInst d ls is = some (d', ls') → d'.ports = d.ports ∧ d'.cables = d.cables ∧ d'.attrs = d.attrs := by
  intro is
  induction is with
  | nil => intro d ls d' ls' h; simp only [foldInst, Option.some.injEq, Prod.mk.injEq] at h; rw [← h.1]; exact ⟨rfl, rfl, rfl⟩
  | cons i is ih =>
    intro d ls d' ls' h
    unfold foldInst at h
    cases hs : instStep2 d ls i with
    | none => simp [hs] at h
    | some r =>
      simp only [hs] at h
      obtain ⟨a1, a2, a3⟩ := instStep2_frame d ls i r.1 r.2 (by rw [hs])
      obtain ⟨b1, b2, b3⟩ := ih r.1 r.2 d' ls' h
      exact ⟨b1.trans a1, b2.trans a2, b3.trans a3⟩

theorem buildW3_frame (d0 : Def) (n : Nat) (ports : List PDecl) (wires : List FWire) (d3 : Def) (n3 : Nat)
    (hb : buildW3 d0 n ports wires = some (d3, n3)) : d3.insts = d0.insts ∧ d3.attrs = d0.attrs := by
  have hA : ∀ {α : Type} (step : Def → Nat → α → Option (Def × Nat)) (as : List α) (d : Def) (k : Nat) (d' : Def) (k' : Nat),
      (∀ d n a d' n', step d n a = some (d', n') → d'.insts = d.insts ∧ d'.attrs = d.attrs) →
      foldLocal step d k as = some (d', k') → d'.insts = d.insts ∧ d'.attrs = d.attrs := fun step as d k d' k' hs hf =>
    ⟨foldLocal_pres (·.insts) step (fun d n a d' n' h => (hs d n a d' n' h).1) as d k d' k' hf,
     foldLocal_pres (·.attrs) step (fun d n a d' n' h => (hs d n a d' n' h).2) as d k d' k' hf⟩
  have s1 : ∀ d n a d' n', stubStep d n a = some (d', n') → d'.insts = d.insts ∧ d'.attrs = d.attrs := by
    intro d n a d' n' h
    unfold stubStep at h
    split at h
    · simp only [Option.some.injEq, Prod.mk.injEq] at h; rw [← h.1]; exact ⟨rfl, rfl⟩
    · cases h
  have s2 : ∀ d n a d' n', declStep d n a = some (d', n') → d'.insts = d.insts ∧ d'.attrs = d.attrs := by
    intro d n a d' n' h
    unfold declStep at h
    split at h
    · split at h
      · split at h
        · simp only [Option.some.injEq, Prod.mk.injEq] at h; rw [← h.1]; exact ⟨rfl, rfl⟩
        · cases h
      · cases h
    · cases h
  have s3 : ∀ d n a d' n', wireStep d n a = some (d', n') → d'.insts = d.insts ∧ d'.attrs = d.attrs := by
    intro d n a d' n' h
    unfold wireStep at h
    split at h
    · simp only [Option.some.injEq, Prod.mk.injEq] at h; rw [← h.1]; exact ⟨rfl, rfl⟩
    · split at h
      · simp only [Option.some.injEq, Prod.mk.injEq] at h; rw [← h.1]; exact ⟨rfl, rfl⟩
      · cases h
  unfold buildW3 at hb
  cases h1 : foldLocal stubStep d0 n (ports.map (·.name)) with
  | none => simp [h1] at hb
  | some r1 =>
    simp only [h1] at hb
    split at hb
    · cases h2 : foldLocal declStep r1.1 r1.2 ports with
      | none => simp [h2] at hb
      | some r2 =>
        simp only [h2] at hb
        obtain ⟨a1, a2⟩ := hA stubStep _ _ _ r1.1 r1.2 s1 (by rw [h1])
        obtain ⟨b1, b2⟩ := hA declStep _ _ _ r2.1 r2.2 s2 (by rw [h2])
        obtain ⟨c1, c2⟩ := hA wireStep _ _ _ d3 n3 s3 hb
        exact ⟨c1.trans (b1.trans a1), c2.trans (b2.trans a2)⟩
    · cases hb

theorem viewD_markBB (d : Def) : viewD (markBB d) = viewD d := by
  unfold markBB
  split <;> rfl

/-- **c04_view.**  C04 at module level, syntax to netlist — THE VIEW OF THE TOP MODULE IS PRESERVED (not `readV (composeV n) = n`:
    the netlist name, libraries, `n.top`, leaf directions / widths / bases are not in the statement; the view compares nets as a
    function of the name (not their order), `ctype.getD "wire"`, `attrs.getD []`, and instance rows only up to the first free pin
    (`connectedBlock`), so the WIDTH of a row is invisible; see docs/verilog.md §2a): let `T` be the top definition of the writer's netlist `n`, in
    the fragment `fragTop`; let `m = astOf n T` be the module the writer prints for it and `defs` the table the reader
    builds for a file that consists of that module (`elabDesign_wsingle`).  Then the first definition of the table shows
    the same view as `T`: the same ports in the same order (name, direction, base index, attributes, every pin on the same
    bit), the same nets by name (base index, width, type, attributes), the same instances in the same order (name,
    referenced module, parameters, attributes, and on every port of the referenced module the same connected bits). -/
theorem c04_view (n : Text.WNet) (T : Text.WDef) (m : WModP) (defs : List Def) (nx : Nat)
    (hfrag : fragTop n T = true) (hm : astOf n T = some m) (hb : buildWI m.toI = some (defs, nx)) :
    ∃ D ls, defs = D :: ls ∧ viewD D = viewT n T ∧ LeafInv n ls := by
  -- the fragment
  simp only [fragTop, Bool.and_eq_true, decide_eq_true_eq, List.all_eq_true] at hfrag
  obtain ⟨⟨⟨⟨F1, F1w⟩, F2n⟩, F2⟩, F3⟩ := hfrag
  -- the syntax
  unfold astOf at hm
  cases hports : T.ports.mapM (astPort T) with
  | none => simp [hports] at hm
  | some ports =>
    cases hinsts : T.insts.mapM (astInst n T) with
    | none => simp [hports, hinsts] at hm
    | some insts =>
      simp only [hports, hinsts, Option.some.injEq] at hm
      subst hm
      -- the table
      unfold buildWI WModP.toI at hb
      generalize hws : T.cables.reverse.map astWire = wires at hb
      simp only at hb
      rw [buildW_eq3] at hb
      generalize hd0 : (⟨T.name, some "work", false, [], none, [], [], []⟩ : Def) = d0 at hb
      cases h3 : buildW3 d0 0 ports wires with
      | none => simp [h3] at hb
      | some r3 =>
        obtain ⟨d3, n3⟩ := r3
        simp only [h3] at hb
        split at hb
        · cases h4 : foldInst d3 [] (insts.map PInst.toN) with
          | none => simp [h4] at hb
          | some r4 =>
            obtain ⟨d4, ls4⟩ := r4
            simp only [h4, Option.some.injEq, Prod.mk.injEq] at hb
            obtain ⟨hdefs, _⟩ := hb
            -- facts about the ports of the syntax
            obtain ⟨hplen, hpidx⟩ := mapM_index _ _ _ hports
            have hpspec : ∀ mp ∈ ports, ∃ p ∈ T.ports, astPort T p = some mp := mapM_mem _ _ _ hports
            have H2 : ∀ c ∈ T.cables, 1 ≤ c.width := fun c hc => by simpa using F1w c hc
            have H4 : ∀ p ∈ ports, ∃ c ∈ T.cables, c.name = p.name ∧ p.rng = emitDeclRange c.lower c.width := by
              intro mp hmp
              obtain ⟨p, _, hp⟩ := hpspec mp hmp
              obtain ⟨nm, c, dir, _, hc, _, e⟩ := astPort_spec T p mp hp
              refine ⟨c, List.mem_of_find?_eq_some hc, ?_, by rw [e]⟩
              rw [e]; simpa using List.find?_some hc
            have hpnames : ports.map (fun p => some p.name) = T.ports.map (·.name) := by
              apply List.ext_getElem (by simp [hplen])
              intro k g1 g2
              simp only [List.length_map] at g1 g2
              simp only [List.getElem_map]
              obtain ⟨nm, c, dir, hn, _, _, e⟩ := astPort_spec T _ _ (hpidx k g2 g1)
              rw [e, hn]
            have H3 : (ports.map (·.name)).Nodup := by
              have : (ports.map (·.name)).map some = T.ports.map (·.name) := by rw [List.map_map]; exact hpnames
              have hn : ((ports.map (·.name)).map some).Nodup := by rw [this]; exact F2n
              exact (List.pairwise_map.mp hn).imp (fun h e => h (congrArg some e))
            -- the declaration phases
            have hd0c : d0.cables = [] := by rw [← hd0]
            have hd0p : d0.ports = [] := by rw [← hd0]
            have hcab0 : cabOf d0 = fun _ => none := by funext nm; unfold cabOf; rw [hd0c]; rfl
            have hcab : ∀ nm, (cabOf d3 nm).map normV =
                (T.cables.find? (fun c => c.name == nm)).map (fun c => (c.lower, c.width, c.ctype.getD "wire", c.attrs.getD [])) := by
              intro nm
              rw [buildW3_cab d0 0 ports _ d3 n3 h3, hcab0, ← hws]
              exact cables_view T.cables ports F1 H2 H3 H4 nm
            have hWF : WF d3 n3 := buildW3_WF d0 0 ports _ d3 n3
              ⟨⟨by rw [hd0c]; exact List.nodup_nil, by rw [hd0c]; exact List.nodup_nil⟩, by rw [hd0c]; intro c hc; cases hc⟩ h3
            have hPC : PC d3 := buildW3_PC d0 0 ports _ d3 n3 (by intro P hP; rw [hd0p] at hP; cases hP) h3
            have hpv := buildW3_ports d0 0 ports _ d3 n3 hd0p H3 h3
            obtain ⟨hi3, ha3⟩ := buildW3_frame d0 0 ports _ d3 n3 h3
            have hfragP : ∀ p ∈ T.ports, ∀ nm, p.name = some nm → ∀ c, T.cables.find? (fun c => c.name == nm) = some c →
                p.lower = c.lower ∧ p.width = c.width ∧ p.pins = (cableBits nm c.lower c.width).items.map some := by
              intro p hp nm hn c hc
              have := F2 p hp
              simp only [hn, hc, Bool.and_eq_true, decide_eq_true_eq] at this
              exact ⟨this.1.1, this.1.2, this.2⟩
            have hportsV := ports_view T ports d3 hports hfragP H2 hpv hPC hWF.1 hcab
            have henv : envOf d3 = Text.envOf T := by
              funext nm
              have := hcab nm
              unfold cabOf at this
              unfold envOf Text.envOf
              cases h1 : d3.cables.find? (fun c => c.name == nm) with
              | none =>
                rw [h1] at this
                cases h2 : T.cables.find? (fun c => c.name == nm) with
                | none => rfl
                | some c => rw [h2] at this; cases this
              | some C =>
                rw [h1] at this
                cases h2 : T.cables.find? (fun c => c.name == nm) with
                | none => rw [h2] at this; cases this
                | some c =>
                  rw [h2] at this
                  simp only [Option.map_some, normV, Option.some.injEq, Prod.mk.injEq] at this
                  simp [this.1, this.2.1]
            -- the instances
            have hfragI : ∀ i ∈ T.insts, ∀ r, Text.refOf n i.ref = some r → (r.ports.map (·.name)).Nodup ∧
                ((i.params.getD []).map (·.1)).Nodup ∧
                ∀ k, k < r.ports.length → i.pins.getD k [] ≠ [] ∧ ReaderShape (Text.envOf T) (i.pins.getD k []) := by
              intro i hi r hr
              have := F3 i hi
              simp only [hr, Bool.and_eq_true, decide_eq_true_eq, List.all_eq_true, List.mem_range, Bool.not_eq_eq_eq_not,
                Bool.not_true] at this
              obtain ⟨⟨⟨g1, _⟩, g3⟩, g4⟩ := this
              refine ⟨g1, g3, ?_⟩
              intro k hk
              obtain ⟨a, b⟩ := g4 k hk
              exact ⟨by intro e; rw [e] at a; simp at a, readerShape_sound _ _ b⟩
            obtain ⟨k1, k2, k3⟩ := insts_view n T T.insts insts d3 [] d4 ls4 hinsts h4 hWF.1 henv hfragI
              (by intro L hL; cases hL)
            obtain ⟨q1, q2, q3⟩ := foldInst_frame _ d3 [] d4 ls4 h4
            -- assemble
            have hleaf : LeafInv n (ls4.map markBB) := by
              intro L hL
              obtain ⟨L0, hL0, e⟩ := List.mem_map.mp hL
              obtain ⟨r, hr, hn⟩ := k3 L0 hL0
              have e1 : L.name = L0.name := by rw [← e]; unfold markBB; split <;> rfl
              have e2 : L.ports = L0.ports := by rw [← e]; unfold markBB; split <;> rfl
              exact ⟨r, by rw [e1]; exact hr, by rw [e2]; exact hn⟩
            refine ⟨_, _, by rw [← hdefs]; rfl, ?_, hleaf⟩
            rw [viewD_markBB]
            have hbit : ∀ (dd : Def), dd.cables = d3.cables → pinBits dd = pinBits d3 := by
              intro dd h; funext row; unfold pinBits; rw [bitOf_cables d3 dd h]
            have hIV : ∀ (dd : Def), dd.cables = d3.cables → dd.insts = d4.insts →
                dd.insts.map (fun i => (⟨i.name, i.ref, i.params, i.attrs.getD [],
                  i.pins.map (fun row => connectedBlock (pinBits dd row))⟩ : InstView)) = T.insts.map (instViewT n) := by
              intro dd h1 h2
              rw [h2, hbit dd h1]
              have := k1
              rw [hi3] at this
              have hd0i : d0.insts = [] := by rw [← hd0]
              rw [hd0i] at this
              simp only [List.map_nil, List.nil_append] at this
              exact this
            have hCV : ∀ (dd : Def), dd.cables = d3.cables → cabOf dd = cabOf d3 := by
              intro dd h; funext nm; unfold cabOf; rw [h]
            have hd0a : d0.attrs = none := by rw [← hd0]
            split
            · rename_i he
              unfold viewD viewT
              simp only [DefView.mk.injEq]
              refine ⟨?_, ?_, ?_, ?_⟩
              · rw [q3, ha3, hd0a]
                simp only [Option.getD_none]
                exact (List.isEmpty_iff.mp he).symm
              · rw [q1, hbit d4 q2]; exact hportsV
              · funext nm; rw [hCV d4 q2]; exact hcab nm
              · exact hIV d4 q2 rfl
            · unfold viewD viewT
              simp only [DefView.mk.injEq]
              refine ⟨rfl, ?_, ?_, ?_⟩
              · show d4.ports.map _ = _
                have := hbit { d4 with attrs := some (T.attrs.getD []) } q2
                rw [this, q1]; exact hportsV
              · funext nm
                rw [hCV { d4 with attrs := some (T.attrs.getD []) } q2]; exact hcab nm
              · exact hIV { d4 with attrs := some (T.attrs.getD []) } q2 rfl
        · cases hb

/-- the fragment of C04 this file covers, as one decidable predicate on the writer's netlist; the second conjunct is a
    COMPUTED clause: the closed-form (pure) reader `buildWI` accepts the written module — reader acceptance is assumed by
    the predicate, not derived from syntactic conditions -/
def fragC04 (n : Text.WNet) (T : Text.WDef) : Bool :=
  fragTop n T && ((astOf n T).bind (fun m => buildWI m.toI)).isSome

/-- **c04_ast.**  The reading of what is written, up to tokens: for a netlist of the fragment the module `astOf n T` exists,
    the REAL `elabDesign` accepts the file that consists of it, elects it as top, and its definition shows the view of `T`. -/
theorem c04_ast (n : Text.WNet) (T : Text.WDef) (h : fragC04 n T = true) :
    ∃ m s D ls, astOf n T = some m ∧ elabDesign [m.toI.toModule] = .ok s ∧ s.defs = D :: ls ∧ s.top = some T.name ∧
      s.pending = [] ∧ viewD D = viewT n T ∧ LeafInv n ls := by
  unfold fragC04 at h
  simp only [Bool.and_eq_true] at h
  obtain ⟨hf, hs⟩ := h
  cases hm : astOf n T with
  | none => simp [hm] at hs
  | some m =>
    simp only [hm, Option.bind_some] at hs
    obtain ⟨r, hr⟩ := Option.isSome_iff_exists.mp hs
    obtain ⟨defs, nx⟩ := r
    obtain ⟨D, ls, e, hv, hl⟩ := c04_view n T m defs nx hf hm hr
    have hE := elabDesign_wsingle m.toI defs nx hr
    have hname : m.toI.name = T.name := by
      unfold astOf at hm
      cases h1 : T.ports.mapM (astPort T) with
      | none => simp [h1] at hm
      | some ports =>
        cases h2 : T.insts.mapM (astInst n T) with
        | none => simp [h1, h2] at hm
        | some insts => simp only [h1, h2, Option.some.injEq] at hm; rw [← hm]; rfl
    exact ⟨m, _, D, ls, rfl, hE, e, by rw [← hname], rfl, hv, hl⟩

/-- non-vacuity: a top module with three ports, four nets and three instances of two primitives (parameters, a
    concatenation over three nets, a part select, bit selects, an unconnected pin) -/
def exNet : Text.WNet :=
  let b (c : String) (i : Int) : Option Bit := some ⟨c, i⟩
  { name := "ex", top := some "top",
    defs := [
      { name := "top", lib := "work", params := none, attrs := none,
        ports := [⟨some "a", "IN", 0, 4, [b "a" 0, b "a" 1, b "a" 2, b "a" 3], none⟩,
                  ⟨some "b", "IN", 0, 1, [b "b" 0], none⟩,
                  ⟨some "y", "OUT", 0, 2, [b "y" 0, b "y" 1], some [("keep", none)]⟩],
        cables := [⟨"a", 0, 4, none, none⟩, ⟨"b", 0, 1, none, none⟩, ⟨"y", 0, 2, some "wire", none⟩, ⟨"n", 0, 3, some "wire", none⟩],
        insts := [⟨"u0", "LUT2", some [("INIT", "4'h8")], none, [[b "a" 0], [b "b" 0], [b "y" 0]]⟩,
                  ⟨"u1", "LUT2", none, none, [[b "n" 0], [none], [b "y" 1]]⟩,
                  ⟨"r0", "RAM", none, some [("dont_touch", some "\"true\"")], [[b "b" 0, b "a" 3, b "n" 1, b "n" 2], [b "n" 0]]⟩] },
      { name := "LUT2", lib := "hdi_primitives", params := none, attrs := none,
        ports := [⟨some "I0", "IN", 0, 1, [none], none⟩, ⟨some "I1", "IN", 0, 1, [none], none⟩, ⟨some "O", "OUT", 0, 1, [none], none⟩],
        cables := [], insts := [] },
      { name := "RAM", lib := "hdi_primitives", params := none, attrs := none,
        ports := [⟨some "addr", "IN", 0, 4, [none, none, none, none], none⟩, ⟨some "q", "OUT", 0, 1, [none], none⟩],
        cables := [], insts := [] }] }

def exTop : Text.WDef := exNet.defs.headD default

theorem exNet_frag : fragC04 exNet exTop = true := by decide
end Spydr.Verilog.Elab
