/-
  Verilog engine — proof side, part 11: steps that rewrite one definition only, as a pure fold (`fold_local`);
  the module shape the writer prints (bare header names, body port declarations, wire declarations of all nets)
  through the real `elabModule` (`elabModule_wshape`).
-/
import Spydr.Verilog.RoundTripStub
set_option maxHeartbeats 400000
namespace Spydr.Verilog.Elab
open Spydr.Verilog

/-! ### steps that rewrite one definition and the wire counter only -/

/-- the table with definition `dn` replaced by `d` and the wire counter set to `n` -/
def St.put (s : St) (dn : String) (d : Def) (n : Nat) : St := withNext (s.upd dn (fun _ => d)) n

theorem St.put_self (s : St) (dn : String) (d : Def) (h : Has s dn d) : s.put dn d s.next = s := by
  unfold St.put
  rw [St.upd_id' s dn _ d h rfl]
  cases s; rfl

theorem St.put_put (s : St) (dn : String) (d1 d2 : Def) (n1 n2 : Nat) (h : d1.name = dn) :
    (s.put dn d1 n1).put dn d2 n2 = s.put dn d2 n2 := by
  unfold St.put withNext St.upd
  simp only [List.map_map]
  congr 1
  apply List.map_congr_left
  intro x _
  simp only [Function.comp]
  by_cases e : x.name = dn
  · simp [e, h]
  · simp [e]

theorem Has.put {s : St} {dn : String} {d : Def} (h : Has s dn d) (d' : Def) (n : Nat) (hn : d'.name = d.name) :
    Has (s.put dn d' n) dn d' := by
  obtain ⟨hm, hdn, hu⟩ := h
  refine ⟨?_, by rw [hn, hdn], ?_⟩
  · show d' ∈ s.defs.map (fun x => if x.name == dn then d' else x)
    exact List.mem_map.mpr ⟨d, hm, by simp [hdn]⟩
  · intro x' hx' hxn
    have hx'' : x' ∈ s.defs.map (fun x => if x.name == dn then d' else x) := hx'
    obtain ⟨x, hx, hxe⟩ := List.mem_map.mp hx''
    by_cases e : x.name = dn
    · simp only [e, beq_self_eq_true, if_true] at hxe
      exact hxe.symm
    · simp only [show (x.name == dn) = false by simp [e], Bool.false_eq_true, if_false] at hxe
      rw [← hxe] at hxn
      exact absurd hxn e

theorem NoRef.put {s : St} {dn : String} (h : NoRef s dn) (d' : Def) (n : Nat) (hi : ∀ i ∈ d'.insts, i.ref ≠ dn) :
    NoRef (s.put dn d' n) dn := by
  intro x' hx' i hi'
  have hx'' : x' ∈ s.defs.map (fun x => if x.name == dn then d' else x) := hx'
  obtain ⟨x, hx, hxe⟩ := List.mem_map.mp hx''
  by_cases e : x.name = dn
  · simp only [e, beq_self_eq_true, if_true] at hxe
    rw [← hxe] at hi'
    exact hi i hi'
  · simp only [show (x.name == dn) = false by simp [e], Bool.false_eq_true, if_false] at hxe
    rw [← hxe] at hi'
    exact h x hx i hi'

/-- function-style results in `put` form -/
theorem upd_eq_put (s : St) (dn : String) (d : Def) (f : Def → Def) (n : Nat) (h : Has s dn d) :
    withNext (s.upd dn f) n = s.put dn (f d) n := by
  unfold St.put
  rw [St.upd_congr s dn f (fun _ => f d) d h rfl]

def foldLocal {α : Type} (step : Def → Nat → α → Option (Def × Nat)) : Def → Nat → List α → Option (Def × Nat)
  | d, n, [] => some (d, n)
  | d, n, a :: as =>
    match step d n a with
    | some r => foldLocal step r.1 r.2 as
    | none => none

/-- **fold_local.**  A list of items each of which rewrites only definition `dn` (which nobody instances) and the
    wire counter, as a pure fold. -/
theorem fold_local {α : Type} (dn : String) (run : St → α → M St) (step : Def → Nat → α → Option (Def × Nat))
    (hstep : ∀ (s : St) (d : Def) (a : α) (d' : Def) (n' : Nat), Has s dn d → NoRef s dn →
      step d s.next a = some (d', n') →
      run s a = .ok (s.put dn d' n') ∧ d'.name = d.name ∧ (∀ i ∈ d'.insts, i.ref ≠ dn)) :
    ∀ (as : List α) (s : St) (d d' : Def) (n' : Nat), Has s dn d → NoRef s dn →
      foldLocal step d s.next as = some (d', n') → as.foldlM run s = .ok (s.put dn d' n') := by
  intro as
  induction as with
  | nil =>
    intro s d d' n' hd _ h
    simp only [foldLocal, Option.some.injEq, Prod.mk.injEq] at h
    obtain ⟨h1, h2⟩ := h
    subst h1 h2
    simp only [List.foldlM_nil, pure, Except.pure]
    rw [St.put_self s dn d hd]
  | cons a as ih =>
    intro s d d' n' hd hnr h
    unfold foldLocal at h
    cases hs : step d s.next a with
    | none => simp [hs] at h
    | some r =>
      obtain ⟨d1, n1⟩ := r
      simp only [hs] at h
      obtain ⟨h1, h2, h3⟩ := hstep s d a d1 n1 hd hnr hs
      simp only [List.foldlM_cons, bind, Except.bind, h1]
      have hd1 : Has (s.put dn d1 n1) dn d1 := hd.put d1 n1 h2
      have hnr1 : NoRef (s.put dn d1 n1) dn := hnr.put d1 n1 h3
      have hn1 : (s.put dn d1 n1).next = n1 := rfl
      rw [ih (s.put dn d1 n1) d1 d' n' hd1 hnr1 (by rw [hn1]; exact h)]
      rw [St.put_put s dn d1 d' n1 n' (by rw [h2, hd.2.1])]

/-! ### the writer's module shape: bare names in the header, declarations in the body -/

/-- header entry `name`: a one-bit stub port wired to a one-bit stub cable -/
def stubStep (d : Def) (n : Nat) (name : String) : Option (Def × Nat) :=
  if portIdx d name = none ∧ d.cables.find? (fun c => c.name == name) = none then
    some ({ d with ports := d.ports ++ [wiredPort name .undef 0 true [n]],
                   cables := d.cables ++ [portCable name 0 true [n]] }, n + 1)
  else none

theorem stubStep_run (dn : String) (s : St) (d : Def) (name : String) (d' : Def) (n' : Nat)
    (hd : Has s dn d) (hnr : NoRef s dn) (h : stubStep d s.next name = some (d', n')) :
    headerPort s dn ⟨name, none, none, none⟩ = .ok (s.put dn d' n') ∧ d'.name = d.name ∧ (∀ i ∈ d'.insts, i.ref ≠ dn) := by
  unfold stubStep at h
  split at h
  · rename_i hc
    simp only [Option.some.injEq, Prod.mk.injEq] at h
    obtain ⟨h1, h2⟩ := h
    subst h1 h2
    refine ⟨?_, rfl, ?_⟩
    · rw [headerPort_new' s dn d name none none hd hc.1 hc.2 hnr, upd_eq_put s dn d _ _ hd]
      simp [shape_rng_none, ids]
    · intro i hi
      exact hnr d hd.1 i hi
  · cases h

def rngOKb : Option (Int × Int) → Bool
  | none => true
  | some (a, b) => decide (b ≤ a)

theorem rngOK_of_b (rng : Option (Int × Int)) (h : rngOKb rng = true) : rngOK rng := by
  cases rng with
  | none => trivial
  | some p => obtain ⟨a, b⟩ := p; simpa [rngOKb, rngOK] using h

/-- a body port declaration `dir [msb:lsb] name ;` with the attributes written in front of it -/
structure PDecl where
  name : String
  dir : Dir
  rng : Option (Int × Int)
  attrs : Attrs

def PDecl.item (p : PDecl) : Item := .portDecl p.dir none p.rng p.name p.attrs

/-- no other port has a pin on wire `w0` or on a wire not yet handed out -/
def ownsB (d : Def) (k w0 n : Nat) : Bool :=
  (List.range d.ports.length).all (fun j => j == k || (d.ports.getD j default).pins.all (fun p =>
    match p with
    | some w => w != w0 && decide (w < n)
    | none => true))

theorem ownsB_spec (d : Def) (k w0 n : Nat) (h : ownsB d k w0 n = true) :
    ∀ j, j < d.ports.length → j ≠ k → ∀ w, some w ∈ (d.ports.getD j default).pins → w ≠ w0 ∧ w < n := by
  intro j hj hne w hw
  unfold ownsB at h
  rw [List.all_eq_true] at h
  have := h j (List.mem_range.mpr hj)
  simp only [Bool.or_eq_true, beq_iff_eq, hne, false_or, List.all_eq_true] at this
  have := this (some w) hw
  simpa using this

def declStep (d : Def) (n : Nat) (p : PDecl) : Option (Def × Nat) :=
  match portIdx d p.name, d.cables.find? (fun c => c.name == p.name) with
  | some k, some c0 =>
    match (d.ports.getD k default).pins, c0.wires with
    | [some w0], [w0'] =>
      if w0 = w0' ∧ rngOKb p.rng = true ∧ (d.ports.getD k default).name = some p.name ∧ (d.ports.getD k default).lower = 0 ∧
          c0.lower = 0 ∧ (d.ports.map (·.name)).Nodup ∧ (d.cables.map (·.name)).Nodup ∧ ownsB d k w0 n = true then
        some ({ d with
          ports := d.ports.set k (grownPort (d.ports.getD k default) p.dir p.rng (w0 :: ids n (stubExtra p.rng)) p.attrs),
          cables := d.cables.map (fun y => if y.name == p.name then grownCable c0 p.rng n else y) }, n + stubExtra p.rng)
      else none
    | _, _ => none
  | _, _ => none

theorem declStep_run (dn : String) (s : St) (d : Def) (p : PDecl) (d' : Def) (n' : Nat)
    (hd : Has s dn d) (hnr : NoRef s dn) (h : declStep d s.next p = some (d', n')) :
    elabItem s dn false p.item = .ok (s.put dn d' n') ∧ d'.name = d.name ∧ (∀ i ∈ d'.insts, i.ref ≠ dn) := by
  unfold declStep at h
  split at h
  · rename_i k c0 hk hc
    split at h
    · rename_i w0 w0' hp0 hc0
      split at h
      · rename_i hcond
        obtain ⟨e, hr, hpn, hpl, hcl, hnp, hnc, hown⟩ := hcond
        subst e
        simp only [Option.some.injEq, Prod.mk.injEq] at h
        obtain ⟨h1, h2⟩ := h
        subst h1 h2
        refine ⟨?_, rfl, ?_⟩
        · unfold PDecl.item elabItem
          simp only [Bool.false_eq_true, if_false]
          rw [portDecl_stub s dn d k p.name p.dir p.rng p.attrs (d.ports.getD k default) c0 w0 hd hnr (rngOK_of_b _ hr)
            hk hnp rfl hpn hpl hp0 (hasCable_of_find hnc hc) hcl hc0 (ownsB_spec d k w0 s.next hown),
            upd_eq_put s dn d _ _ hd]
        · intro i hi
          exact hnr d hd.1 i hi
      · cases h
    · cases h
  · cases h

/-- `wire [msb:lsb] name ;` — a new net, or the net of a port declared before (only type and attributes change) -/
def wireStep (d : Def) (n : Nat) (w : FWire) : Option (Def × Nat) :=
  match d.cables.find? (fun c => c.name == w.name) with
  | none => some ({ d with cables := d.cables ++ [wireCable w n] }, n + (shapeOf w.rng).2.1)
  | some c =>
    if inCable c.lower c.wires.length (rngL w.rng) (rngR w.rng) = true ∧ (d.cables.map (·.name)).Nodup then
      some ({ d with cables := d.cables.map (fun y => if y.name == w.name then { c with ctype := some w.ty, attrs := some w.attrs } else y) }, n)
    else none

theorem wireStep_run (dn : String) (s : St) (d : Def) (w : FWire) (d' : Def) (n' : Nat)
    (hd : Has s dn d) (hnr : NoRef s dn) (h : wireStep d s.next w = some (d', n')) :
    elabItem s dn false w.item = .ok (s.put dn d' n') ∧ d'.name = d.name ∧ (∀ i ∈ d'.insts, i.ref ≠ dn) := by
  unfold wireStep at h
  split at h
  · rename_i hc
    simp only [Option.some.injEq, Prod.mk.injEq] at h
    obtain ⟨h1, h2⟩ := h
    subst h1 h2
    refine ⟨?_, rfl, fun i hi => hnr d hd.1 i hi⟩
    rw [wireDecl_new s dn d w hd hc, upd_eq_put s dn d _ _ hd]
  · rename_i c hc
    split at h
    · rename_i hcond
      obtain ⟨hin, hnc⟩ := hcond
      simp only [Option.some.injEq, Prod.mk.injEq] at h
      obtain ⟨h1, h2⟩ := h
      subst h1 h2
      refine ⟨?_, rfl, fun i hi => hnr d hd.1 i hi⟩
      have hC := hasCable_of_find hnc hc
      unfold FWire.item elabItem
      simp only [Bool.false_eq_true, if_false, bind, Except.bind]
      unfold createOrUpdateCable
      rw [getDef_has hd]
      simp only [bind, Except.bind, hc, resizeCable_inside _ _ _ _ hin, fresh_zero, pure, Except.pure]
      congr 1
      unfold setCableAttrs
      rw [St.upd_upd s dn]
      · have hw : ∀ (g : Def → Def), s.upd dn g = withNext (s.upd dn g) s.next := by intro g; cases s; rfl
        rw [hw, upd_eq_put s dn d _ _ hd]
        congr 1
        simp only [List.map_map]
        congr 1
        apply List.map_congr_left
        intro y hy
        simp only [Function.comp]
        by_cases e : y.name = w.name
        · simp [e, hC.2.1]
        · simp [e]
      · intro x; rfl
    · cases h

/-! ### a whole module in the writer's shape -/

/-- header, reorder, body and attributes of `elabModule`, for any module without parameters -/
def elabTailG (s3 : St) (m : Module) : M St := do
  let s ← m.header.foldlM (fun s h => match h.alias with
    | some e => headerAlias s m.name h e
    | none => headerPort s m.name h) s3
  let s ← reorderPorts s m.name (m.header.map (·.name))
  let s ← m.items.foldlM (fun s it => elabItem s m.name m.prim it) s
  pure (if m.attrs.isEmpty then s else s.upd m.name (fun d => { d with attrs := some m.attrs }))

theorem elabModule_eq_tailG (s : St) (m : Module) (hfresh : s.find m.name = none) (hp : m.params = []) :
    elabModule s m = elabTailG (afterEntry s m.name m.prim) m := by
  have hbase := find_none_names s m.name hfresh
  have hens : s.ensure m.name = { s with defs := s.defs ++ [⟨m.name, none, false, [], none, [], [], []⟩] } := by
    unfold St.ensure; rw [hfresh]
  have hE1 : Has ({ s with defs := s.defs ++ [⟨m.name, none, false, [], none, [], [], []⟩] } : St) m.name
      ⟨m.name, none, false, [], none, [], [], []⟩ := Has_last _ s.defs _ rfl hbase
  unfold elabModule
  simp only [hens, bind, Except.bind, getDef_has hE1, Option.isSome_none, Bool.false_eq_true, if_false, hp,
    List.isEmpty_nil, if_true]
  unfold elabTailG afterEntry
  simp only [bind, Except.bind]
  rfl

/-- a module as the writer prints it (without instances): bare names in the header, then one body
    declaration per port, then the `wire` declarations of all nets -/
structure WMod where
  name : String
  attrs : Attrs
  ports : List PDecl
  wires : List FWire

def WMod.toModule (m : WMod) : Module :=
  ⟨m.name, false, m.attrs, [], m.ports.map (fun p => ⟨p.name, none, none, none⟩),
   m.ports.map PDecl.item ++ m.wires.map FWire.item⟩

/-- the definition the reader builds for it (pure) -/
def buildW (n : Nat) (m : WMod) : Option (Def × Nat) :=
  match foldLocal stubStep ⟨m.name, some "work", false, [], none, [], [], []⟩ n (m.ports.map (·.name)) with
  | none => none
  | some r1 =>
    if (m.ports.map (·.name)).filterMap (portIdx r1.1) = List.range r1.1.ports.length then
      match foldLocal declStep r1.1 r1.2 m.ports with
      | none => none
      | some r2 =>
        match foldLocal wireStep r2.1 r2.2 m.wires with
        | none => none
        | some r3 => some (if m.attrs.isEmpty then r3.1 else { r3.1 with attrs := some m.attrs }, r3.2)
    else none

theorem foldLocal_pres {α β : Type} (proj : Def → β) (step : Def → Nat → α → Option (Def × Nat))
    (h : ∀ d n a d' n', step d n a = some (d', n') → proj d' = proj d) :
    ∀ (as : List α) (d : Def) (n : Nat) (d' : Def) (n' : Nat), foldLocal step d n as = some (d', n') → proj d' = proj d := by
  intro as
  induction as with
  | nil => intro d n d' n' hf; simp only [foldLocal, Option.some.injEq, Prod.mk.injEq] at hf; rw [hf.1]
  | cons a as ih =>
    intro d n d' n' hf
    unfold foldLocal at hf
    cases hs : step d n a with
    | none => simp [hs] at hf
    | some r =>
      simp only [hs] at hf
      rw [ih r.1 r.2 d' n' hf, h d n a r.1 r.2 (by rw [hs])]

theorem put_defs_last (S : St) (base : List Def) (e D : Def) (n : Nat) (h : S.defs = base ++ [e])
    (hb : ∀ d ∈ base, d.name ≠ e.name) : (S.put e.name D n).defs = base ++ [D] :=
  defs_upd_last S base e (fun _ => D) h hb

theorem stubStep_name (d : Def) (n : Nat) (a : String) (d' : Def) (n' : Nat) (h : stubStep d n a = some (d', n')) :
    d'.name = d.name ∧ d'.insts = d.insts := by
  unfold stubStep at h
  split at h
  · simp only [Option.some.injEq, Prod.mk.injEq] at h; rw [← h.1]; exact ⟨rfl, rfl⟩
  · cases h

theorem declStep_name (d : Def) (n : Nat) (a : PDecl) (d' : Def) (n' : Nat) (h : declStep d n a = some (d', n')) :
    d'.name = d.name ∧ d'.insts = d.insts := by
  unfold declStep at h
  split at h
  · split at h
    · split at h
      · simp only [Option.some.injEq, Prod.mk.injEq] at h; rw [← h.1]; exact ⟨rfl, rfl⟩
      · cases h
    · cases h
  · cases h

theorem wireStep_name (d : Def) (n : Nat) (a : FWire) (d' : Def) (n' : Nat) (h : wireStep d n a = some (d', n')) :
    d'.name = d.name ∧ d'.insts = d.insts := by
  unfold wireStep at h
  split at h
  · simp only [Option.some.injEq, Prod.mk.injEq] at h; rw [← h.1]; exact ⟨rfl, rfl⟩
  · split at h
    · simp only [Option.some.injEq, Prod.mk.injEq] at h; rw [← h.1]; exact ⟨rfl, rfl⟩
    · cases h

theorem elabModule_wshape (s : St) (m : WMod) (D : Def) (n' : Nat)
    (hfresh : s.find m.name = none) (hnr : NoRef s m.name) (hb : buildW s.next m = some (D, n')) :
    ∃ s', elabModule s m.toModule = .ok s' ∧ s'.defs = s.defs ++ [D] ∧ s'.next = n' ∧ s'.pending = s.pending := by
  have hbase := find_none_names s m.name hfresh
  obtain ⟨hdefs3, hnext3, hpend3⟩ := afterEntry_defs s m.name false hbase
  have hE : elabModule s m.toModule = elabTailG (afterEntry s m.name false) m.toModule :=
    elabModule_eq_tailG s m.toModule hfresh rfl
  generalize hs3 : afterEntry s m.name false = s3 at hdefs3 hnext3 hpend3 hE
  have hlib : libOf false = "work" := rfl
  rw [hlib] at hdefs3
  generalize hd0 : (⟨m.name, some "work", false, [], none, [], [], []⟩ : Def) = d0 at hdefs3
  have hd0n : d0.name = m.name := by rw [← hd0]
  have hbase0 : ∀ d ∈ s.defs, d.name ≠ d0.name := by rw [hd0n]; exact hbase
  have hH3 : Has s3 m.name d0 := by rw [← hd0n]; exact Has_last s3 s.defs d0 hdefs3 hbase0
  have hN3 : NoRef s3 m.name := NoRef_base s3 s.defs d0 hdefs3 m.name hnr (by rw [← hd0])
  unfold buildW at hb
  rw [hd0] at hb
  cases h1 : foldLocal stubStep d0 s.next (m.ports.map (·.name)) with
  | none => simp [h1] at hb
  | some r1 =>
    obtain ⟨d1, n1⟩ := r1
    simp only [h1] at hb
    split at hb
    · rename_i hre
      cases h2 : foldLocal declStep d1 n1 m.ports with
      | none => simp [h2] at hb
      | some r2 =>
        obtain ⟨d2, n2⟩ := r2
        simp only [h2] at hb
        cases h3 : foldLocal wireStep d2 n2 m.wires with
        | none => simp [h3] at hb
        | some r3 =>
          obtain ⟨d3, n3⟩ := r3
          simp only [h3, Option.some.injEq, Prod.mk.injEq] at hb
          obtain ⟨hD, hn'⟩ := hb
          have hpN : ∀ {α : Type} (step : Def → Nat → α → Option (Def × Nat))
              (hs : ∀ d n a d' n', step d n a = some (d', n') → d'.name = d.name ∧ d'.insts = d.insts)
              (as : List α) (d : Def) (n : Nat) (d' : Def) (k : Nat), foldLocal step d n as = some (d', k) →
              d'.name = d.name ∧ d'.insts = d.insts := fun step hs as d n d' k hf =>
            ⟨foldLocal_pres (·.name) step (fun d n a d' n' h => (hs d n a d' n' h).1) as d n d' k hf,
             foldLocal_pres (·.insts) step (fun d n a d' n' h => (hs d n a d' n' h).2) as d n d' k hf⟩
          obtain ⟨hn1, hi1⟩ := hpN stubStep stubStep_name _ _ _ _ _ h1
          obtain ⟨hn2, hi2⟩ := hpN declStep declStep_name _ _ _ _ _ h2
          obtain ⟨hn3, hi3⟩ := hpN wireStep wireStep_name _ _ _ _ _ h3
          have hi0 : d0.insts = [] := by rw [← hd0]
          -- header
          have hF1 : (m.ports.map (·.name)).foldlM (fun s name => headerPort s m.name ⟨name, none, none, none⟩) s3 =
              .ok (s3.put m.name d1 n1) :=
            fold_local m.name _ stubStep (fun S d a d' k hd hn h => stubStep_run m.name S d a d' k hd hn h)
              _ s3 d0 d1 n1 hH3 hN3 (by rw [hnext3]; exact h1)
          have hH4 : Has (s3.put m.name d1 n1) m.name d1 := hH3.put d1 n1 hn1
          have hN4 : NoRef (s3.put m.name d1 n1) m.name := hN3.put d1 n1 (by rw [hi1, hi0]; intro i hi; cases hi)
          have hR : reorderPorts (s3.put m.name d1 n1) m.name (m.ports.map (·.name)) = .ok (s3.put m.name d1 n1) :=
            reorderPorts_id _ m.name d1 _ hH4 hre
          have hF2 : m.ports.foldlM (fun s p => elabItem s m.name false p.item) (s3.put m.name d1 n1) =
              .ok ((s3.put m.name d1 n1).put m.name d2 n2) :=
            fold_local m.name _ declStep (fun S d a d' k hd hn h => declStep_run m.name S d a d' k hd hn h)
              _ _ d1 d2 n2 hH4 hN4 h2
          rw [St.put_put s3 m.name d1 d2 n1 n2 (hn1.trans hd0n)] at hF2
          have hH5 : Has (s3.put m.name d2 n2) m.name d2 := hH3.put d2 n2 (hn2.trans hn1)
          have hN5 : NoRef (s3.put m.name d2 n2) m.name := hN3.put d2 n2 (by rw [hi2, hi1, hi0]; intro i hi; cases hi)
          have hF3 : m.wires.foldlM (fun s w => elabItem s m.name false w.item) (s3.put m.name d2 n2) =
              .ok ((s3.put m.name d2 n2).put m.name d3 n3) :=
            fold_local m.name _ wireStep (fun S d a d' k hd hn h => wireStep_run m.name S d a d' k hd hn h)
              _ _ d2 d3 n3 hH5 hN5 h3
          rw [St.put_put s3 m.name d2 d3 n2 n3 ((hn2.trans hn1).trans hd0n)] at hF3
          have hH6 : Has (s3.put m.name d3 n3) m.name d3 := hH3.put d3 n3 ((hn3.trans hn2).trans hn1)
          -- assemble
          have hT : elabTailG s3 m.toModule = .ok (if m.attrs.isEmpty then s3.put m.name d3 n3
              else (s3.put m.name d3 n3).upd m.name (fun d => { d with attrs := some m.attrs })) := by
            unfold elabTailG WMod.toModule
            simp only [List.foldlM_map, List.map_map, Function.comp_def, List.foldlM_append, bind, Except.bind]
            have hF1' : List.foldlM (fun x (y : PDecl) => headerPort x m.name ⟨y.name, none, none, none⟩) s3 m.ports =
                .ok (s3.put m.name d1 n1) := by
              have := hF1
              rwa [List.foldlM_map] at this
            simp only [hF1', hR, hF2, hF3]
            rfl
          rw [hE, hT]
          have hdput : (s3.put m.name d3 n3).defs = s.defs ++ [d3] := by
            rw [← hd0n]; exact put_defs_last s3 s.defs d0 d3 n3 hdefs3 hbase0
          split
          · rename_i he
            refine ⟨_, rfl, ?_, ?_, ?_⟩
            · rw [hdput, ← hD, if_pos he]
            · exact hn'
            · exact hpend3
          · rename_i he
            refine ⟨_, rfl, ?_, ?_, ?_⟩
            · have := defs_upd_last (s3.put m.name d3 n3) s.defs d3 (fun d => { d with attrs := some m.attrs }) hdput
                (by rw [(hn3.trans hn2).trans hn1, hd0n]; exact hbase)
              rw [(hn3.trans hn2).trans (hn1.trans hd0n)] at this
              rw [this, ← hD, if_neg he, (hn3.trans hn2).trans (hn1.trans hd0n)]
            · exact hn'
            · exact hpend3
    · cases hb

/-- non-vacuity: `module top (a, b, y); input [3:0] a; input b; (* keep *) output [1:0] y;
    wire [2:0] n; wire [1:0] y; wire b; wire [3:0] a; endmodule` -/
def exW : WMod :=
  ⟨"top", [("top_attr", some "1")],
   [⟨"a", .inp, some (3, 0), []⟩, ⟨"b", .inp, none, []⟩, ⟨"y", .out, some (1, 0), [("keep", none)]⟩],
   [⟨"n", "wire", some (2, 0), []⟩, ⟨"y", "wire", some (1, 0), []⟩, ⟨"b", "wire", none, []⟩, ⟨"a", "wire", some (3, 0), []⟩]⟩

theorem exW_builds : (buildW 0 exW).isSome = true := by decide
end Spydr.Verilog.Elab
