/-
  Verilog engine — specification side: what the properties demand, written without reference to the
  bodies of the model functions (only the data types `Bit`, `Atom`, `PExpr`, `CableEnv` are shared).
  NO Mathlib import (the driver evaluates the Bool versions).
-/
import Spydr.Verilog.Model

namespace Spydr.Verilog

/-- the bits `c[hi], c[hi-1], …, c[lo]` (MSB first): the denotation of `c[hi:lo]` -/
def runBits (c : String) (hi lo : Int) : List Bit :=
  (List.range (hi - lo + 1).toNat).map (fun (k : Nat) => (⟨c, hi - (k : Int)⟩ : Bit))

/-- the bit exists in a declared cable -/
def ValidBit (env : CableEnv) (b : Bit) : Prop :=
  ∃ lower width, env b.cable = some (lower, width) ∧ lower ≤ b.idx ∧ b.idx < lower + (width : Int)

def validBit (env : CableEnv) (b : Bit) : Bool :=
  match env b.cable with
  | none => false
  | some (lower, width) => decide (lower ≤ b.idx) && decide (b.idx < lower + (width : Int))

/-- Denotation of a connection expression of `n` bits on a port of `W ≥ n` pins (C06): bit `k` of
    the expression, counted from its least significant end, is on pin `k`; pins `n..W-1` are free.
    `ws` is the expression MSB first. -/
def lowAligned {β : Type} (W : Nat) (ws : List β) : List (Option β) :=
  ws.reverse.map some ++ List.replicate (W - ws.length) none

/-- The shape of a pin vector the reader can produce for one instance port: a block of connected
    pins at the low end, only unconnected pins above it. -/
def ReaderShape (env : CableEnv) (pins : List (Option Bit)) : Prop :=
  ∃ (blk : List Bit) (m : Nat), pins = blk.map some ++ List.replicate m none ∧ ∀ b ∈ blk, ValidBit env b

/-- executable form of `ReaderShape` -/
def readerShape (env : CableEnv) : List (Option Bit) → Bool
  | [] => true
  | none :: ps => ps.all (fun p => p.isNone)
  | some b :: ps => validBit env b && readerShape env ps

/-- the connected block of a pin vector (port order) -/
def connectedBlock {β : Type} : List (Option β) → List β
  | some b :: ps => b :: connectedBlock ps
  | _ => []

/-- C04 at one instance port: reading back the expression `e` the writer chose for `pins`
    (on a port of the same width) must give `pins` again. `ev` is the reader's value of `e`, MSB first. -/
def portRoundTrip (pins : List (Option Bit)) (ev : Option (List Bit)) : Bool :=
  match ev with
  | none => false
  | some ws => decide (ws.length ≤ pins.length) && (lowAligned pins.length ws == pins)

/-- the written order is a duplicate-free list -/
def nodupB : List Nat → Bool
  | [] => true
  | x :: xs => !(xs.contains x) && nodupB xs

end Spydr.Verilog
