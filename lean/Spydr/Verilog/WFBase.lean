/-
  Verilog engine — StructWF, part 1: the predicate (`DefWF`, `GlobalWF`, `TableWF`) and the net operations.
-/
import Spydr.Verilog.RoundTripState
set_option maxHeartbeats 800000
namespace Spydr.Verilog.Elab
open Spydr.Verilog

/-! # StructWF: whatever the reader accepts is well-formed and self-contained -/

/-- all wire ids of a definition -/
def wiresOf (d : Def) : List Nat := d.cables.flatMap (·.wires)

/-- every connected pin of the row is on a wire of a cable of `d` -/
def RowOK (d : Def) (row : List (Option Nat)) : Prop := ∀ w, some w ∈ row → w ∈ wiresOf d

/-- inside one definition: named ports, cables and instances have distinct names; every connected pin (of a port, of an
    instance) is on a wire of a cable of this very definition -/
structure DefWF (d : Def) : Prop where
  ports : (d.ports.filterMap (·.name)).Nodup
  cables : (d.cables.map (·.name)).Nodup
  insts : (d.insts.map (·.name)).Nodup
  ppins : ∀ p ∈ d.ports, RowOK d p.pins
  ipins : ∀ i ∈ d.insts, ∀ row ∈ i.pins, RowOK d row

/-- what the rest of the table sees of a definition: its name, the widths of its ports, and for every instance the module
    it refers to and the widths of its pin rows -/
abbrev Shape := String × List Nat × List (String × List Nat)

def shape (d : Def) : Shape :=
  (d.name, d.ports.map (fun p => p.pins.length), d.insts.map (fun i => (i.ref, i.pins.map List.length)))

/-- across definitions: distinct names; every instance's module is in the table (`closed`); every instance carries one pin
    row per port of its module, each exactly as wide as that port is now (`mirror`) -/
structure GlobalWF (L : List Shape) : Prop where
  names : (L.map (·.1)).Nodup
  closed : ∀ sh ∈ L, ∀ ir ∈ sh.2.2, ∃ sh' ∈ L, sh'.1 = ir.1
  mirror : ∀ sh ∈ L, ∀ ir ∈ sh.2.2, ∀ sh' ∈ L, sh'.1 = ir.1 → ir.2 = sh'.2.1

structure TableWF (s : St) : Prop where
  defs : ∀ d ∈ s.defs, DefWF d
  glob : GlobalWF (s.defs.map shape)
  top : ∀ t, s.top = some t → ∃ d ∈ s.defs, d.name = t

theorem TableWF.names {s : St} (h : TableWF s) : (s.defs.map (·.name)).Nodup := by
  have := h.glob.names
  rw [List.map_map] at this
  exact this

theorem find_has {s : St} (h : TableWF s) {n : String} {d : Def} (hf : s.find n = some d) : Has s n d := by
  unfold St.find at hf
  have hm := List.mem_of_find?_eq_some hf
  have hn : d.name = n := by simpa using List.find?_some hf
  exact ⟨hm, hn, fun d' hd' e => nodup_map_inj (·.name) s.defs h.names d' hd' d hm (e.trans hn.symm)⟩

theorem getDef_find {s : St} {n : String} {d : Def} (h : getDef s n = .ok d) : s.find n = some d := by
  unfold getDef at h
  cases hf : s.find n with
  | none => simp [hf] at h
  | some d' => simp only [hf, pure, Except.pure, Except.ok.injEq] at h; rw [h]

/-- updating one definition without changing its shape: only its own well-formedness has to be re-established -/
theorem upd_shape {s : St} (hs : TableWF s) (dn : String) (f : Def → Def)
    (hsh : ∀ d ∈ s.defs, d.name = dn → shape (f d) = shape d) (hwf : ∀ d ∈ s.defs, d.name = dn → DefWF (f d)) :
    TableWF (s.upd dn f) := by
  have hmap : (s.upd dn f).defs.map shape = s.defs.map shape := by
    unfold St.upd
    simp only [List.map_map]
    apply List.map_congr_left
    intro d hd
    simp only [Function.comp]
    by_cases e : d.name = dn
    · simp [e, hsh d hd e]
    · simp [e]
  refine ⟨?_, by rw [hmap]; exact hs.glob, ?_⟩
  · intro d' hd'
    unfold St.upd at hd'
    obtain ⟨d, hd, e⟩ := List.mem_map.mp hd'
    by_cases en : d.name = dn
    · simp only [en, beq_self_eq_true, if_true] at e
      rw [← e]; exact hwf d hd en
    · simp only [show (d.name == dn) = false by simp [en], Bool.false_eq_true, if_false] at e
      rw [← e]; exact hs.defs d hd
  · intro t ht
    obtain ⟨d, hd, e⟩ := hs.top t ht
    have hnm : (s.upd dn f).defs.map (·.name) = s.defs.map (·.name) := by
      have := congrArg (List.map (fun (sh : Shape) => sh.1)) hmap
      simpa [List.map_map, shape, Function.comp_def] using this
    have : t ∈ (s.upd dn f).defs.map (·.name) := by rw [hnm]; exact List.mem_map.mpr ⟨d, hd, e⟩
    obtain ⟨d', hd', e'⟩ := List.mem_map.mp this
    exact ⟨d', hd', e'⟩

theorem DefWF.of_cables {d d' : Def} (h : DefWF d) (hp : d'.ports = d.ports) (hi : d'.insts = d.insts)
    (hn : (d'.cables.map (·.name)).Nodup) (hw : ∀ w ∈ wiresOf d, w ∈ wiresOf d') : DefWF d' :=
  ⟨by rw [hp]; exact h.ports, hn, by rw [hi]; exact h.insts,
   by rw [hp]; exact fun p hp' w hw' => hw w (h.ppins p hp' w hw'),
   by rw [hi]; exact fun i hi' row hr w hw' => hw w (h.ipins i hi' row hr w hw')⟩

theorem TableWF.of_next {s : St} (h : TableWF s) (n : Nat) : TableWF { s with next := n } :=
  ⟨h.defs, h.glob, h.top⟩

theorem mem_wiresOf {d : Def} {w : Nat} : w ∈ wiresOf d ↔ ∃ c ∈ d.cables, w ∈ c.wires := by
  unfold wiresOf; exact List.mem_flatMap

theorem map_replace_names (cs : List Cable) (name : String) (C : Cable) (hC : C.name = name) :
    (cs.map (fun y => if y.name == name then C else y)).map (·.name) = cs.map (·.name) := by
  rw [List.map_map]
  apply List.map_congr_left
  intro y _
  simp only [Function.comp]
  split
  · rename_i e
    have : y.name = name := by simpa using e
    rw [hC, this]
  · rfl

theorem nodup_map_replace (cs : List Cable) (name : String) (C : Cable) (hC : C.name = name)
    (h : (cs.map (·.name)).Nodup) : ((cs.map (fun y => if y.name == name then C else y)).map (·.name)).Nodup := by
  rw [map_replace_names cs name C hC]; exact h

theorem createOrUpdateCable_wf (s s' : St) (dn name : String) (l r : Option Int) (vt : Option String) (df : Bool)
    (hs : TableWF s) (h : createOrUpdateCable s dn name l r vt df = .ok s') : TableWF s' := by
  unfold createOrUpdateCable at h
  cases hg : getDef s dn with
  | error e => simp [hg, bind, Except.bind] at h
  | ok d =>
    have hd := find_has hs (getDef_find hg)
    simp only [hg, bind, Except.bind] at h
    cases hf : d.cables.find? (fun c => c.name == name) with
    | none =>
      simp only [hf, fresh, pure, Except.pure, Except.ok.injEq] at h
      rw [← h]
      refine upd_shape (hs.of_next _) dn _ ?_ ?_
      · intro x _ _; rfl
      intro x hx hn
      have hxd : x = d := hd.2.2 x hx hn
      subst hxd
      refine (hs.defs x hx).of_cables ?_ ?_ ?_ ?_
      · rfl
      · rfl
      · simp only [List.map_append, List.map_cons, List.map_nil]
        rw [List.nodup_append]
        refine ⟨(hs.defs x hx).cables, by simp, ?_⟩
        intro a ha b hb
        simp only [List.mem_singleton] at hb
        obtain ⟨c, hc, e⟩ := List.mem_map.mp ha
        have := List.find?_eq_none.mp hf c hc
        rw [hb, ← e]; simpa using this
      · intro w hw
        rw [mem_wiresOf] at hw ⊢
        obtain ⟨c, hc, hwc⟩ := hw
        exact ⟨c, List.mem_append_left _ hc, hwc⟩
    | some c =>
      simp only [hf, fresh, pure, Except.pure, Except.ok.injEq] at h
      rw [← h]
      refine upd_shape (hs.of_next _) dn _ ?_ ?_
      · intro x _ _; rfl
      intro x hx hn
      have hxd : x = d := hd.2.2 x hx hn
      subst hxd
      refine (hs.defs x hx).of_cables ?_ ?_ ?_ ?_
      · rfl
      · rfl
      · have hcn : c.name = name := by simpa using List.find?_some hf
        exact nodup_map_replace x.cables name _ hcn (hs.defs x hx).cables
      · intro w hw
        rw [mem_wiresOf] at hw ⊢
        obtain ⟨c0, hc0, hwc⟩ := hw
        by_cases e : c0.name = name
        · refine ⟨_, List.mem_map.mpr ⟨c0, hc0, rfl⟩, ?_⟩
          simp only [e, beq_self_eq_true, if_true]
          have hcm := List.mem_of_find?_eq_some hf
          have hcn : c.name = name := by simpa using List.find?_some hf
          have : c0 = c := nodup_map_inj (·.name) x.cables (hs.defs x hx).cables c0 hc0 c hcm (e.trans hcn.symm)
          rw [← this]
          simp [hwc]
        · refine ⟨_, List.mem_map.mpr ⟨c0, hc0, rfl⟩, ?_⟩
          simp [e, hwc]

theorem setCableAttrs_wf (s : St) (dn name : String) (a : Attrs) (hs : TableWF s) : TableWF (setCableAttrs s dn name a) := by
  unfold setCableAttrs
  refine upd_shape hs dn _ ?_ ?_
  · intro x _ _; rfl
  intro x hx _
  refine (hs.defs x hx).of_cables ?_ ?_ ?_ ?_
  · rfl
  · rfl
  · simp only [List.map_map]
    have : x.cables.map ((fun (c : Cable) => c.name) ∘ fun y => if y.name == name then { y with attrs := some a } else y) =
        x.cables.map (·.name) := by
      apply List.map_congr_left
      intro y _
      simp only [Function.comp]
      split <;> rfl
    rw [this]; exact (hs.defs x hx).cables
  · intro w hw
    rw [mem_wiresOf] at hw ⊢
    obtain ⟨c0, hc0, hwc⟩ := hw
    refine ⟨_, List.mem_map.mpr ⟨c0, hc0, rfl⟩, ?_⟩
    split <;> exact hwc
end Spydr.Verilog.Elab
