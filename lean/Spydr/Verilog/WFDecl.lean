/-
  Verilog engine — StructWF, part 5: body port declarations and the connection of one instance row.
-/
import Spydr.Verilog.WFHeader
set_option maxHeartbeats 800000
namespace Spydr.Verilog.Elab
open Spydr.Verilog

/-! ### body port declarations -/

theorem fillFold_spec (val : Nat → Nat) (f : List (Option Nat) → Nat → List (Option Nat))
    (hf1 : ∀ row i v, row.getD i none = some v → f row i = row)
    (hf2 : ∀ row i, row.getD i none = none → f row i = row.set i (some (val i))) :
    ∀ (is : List Nat) (row : List (Option Nat)),
      (is.foldl f row).length = row.length ∧ ∀ x, some x ∈ is.foldl f row → some x ∈ row ∨ ∃ i ∈ is, x = val i := by
  intro is
  induction is with
  | nil => intro row; exact ⟨rfl, fun x hx => Or.inl hx⟩
  | cons i is ih =>
    intro row
    simp only [List.foldl_cons]
    obtain ⟨l2, m2⟩ := ih (f row i)
    cases hg : row.getD i none with
    | some v =>
      rw [hf1 row i v hg] at l2 m2 ⊢
      refine ⟨l2, fun x hx => ?_⟩
      rcases m2 x hx with e | ⟨j, hj, e⟩
      · exact Or.inl e
      · exact Or.inr ⟨j, List.mem_cons_of_mem _ hj, e⟩
    | none =>
      rw [hf2 row i hg] at l2 m2 ⊢
      refine ⟨by rw [l2]; simp, fun x hx => ?_⟩
      rcases m2 x hx with e | ⟨j, hj, e⟩
      · rcases List.mem_or_eq_of_mem_set e with e1 | e1
        · exact Or.inl e1
        · exact Or.inr ⟨i, List.mem_cons_self, Option.some.inj e1⟩
      · exact Or.inr ⟨j, List.mem_cons_of_mem _ hj, e⟩

theorem foldlM_wf {α : Type} (f : St → α → M St) (hf : ∀ s a s', TableWF s → f s a = .ok s' → TableWF s') :
    ∀ (as : List α) (s s' : St), TableWF s → as.foldlM f s = .ok s' → TableWF s' := by
  intro as
  induction as with
  | nil => intro s s' hs h; simp only [List.foldlM_nil, pure, Except.pure, Except.ok.injEq] at h; rw [← h]; exact hs
  | cons a as ih =>
    intro s s' hs h
    simp only [List.foldlM_cons, bind, Except.bind] at h
    cases h1 : f s a with
    | error e => simp [h1] at h
    | ok s1 => simp only [h1] at h; exact ih s1 s' (hf s a s1 hs h1) h

theorem upd_port_attrs (s : St) (dn pname : String) (a : Attrs) (hs : TableWF s) :
    TableWF (s.upd dn (fun d => { d with ports := d.ports.map (fun p =>
      if p.name == some pname then { p with attrs := some a } else p) })) := by
  refine upd_shape hs dn _ ?_ ?_
  · intro x _ _
    simp only [shape, List.map_map]
    congr 2
    apply List.map_congr_left
    intro p _
    simp only [Function.comp]
    split <;> rfl
  · intro x hx _
    have hw := hs.defs x hx
    refine ⟨?_, hw.cables, hw.insts, ?_, hw.ipins⟩
    · show ((x.ports.map (fun p => if p.name == some pname then ({ p with attrs := some a } : Port) else p)).filterMap (·.name)).Nodup
      rw [List.filterMap_map]
      have : ((fun (p : Port) => p.name) ∘ fun p => if p.name == some pname then ({ p with attrs := some a } : Port) else p) =
          fun p => p.name := by
        funext p; simp only [Function.comp]; split <;> rfl
      rw [this]; exact hw.ports
    · intro p' hp'
      obtain ⟨p, hp, e⟩ := List.mem_map.mp hp'
      have : p'.pins = p.pins := by rw [← e]; split <;> rfl
      rw [this]; exact hw.ppins p hp

theorem portDecl_wf (s s' : St) (dn : String) (dir : Dir) (vt : Option String) (rng : Option (Int × Int)) (name : String)
    (attrs : Attrs) (hs : TableWF s) (h : portDecl s dn dir vt rng name attrs = .ok s') : TableWF s' := by
  unfold portDecl at h
  simp only [bind, Except.bind] at h
  cases h1 : createOrUpdateCable s dn name (rngL rng) (rngR rng) vt true with
  | error e => simp [h1] at h
  | ok s1 =>
    simp only [h1] at h
    have w1 := createOrUpdateCable_wf s s1 dn name _ _ _ _ hs h1
    cases h2 : getDef s1 dn with
    | error e => simp [h2] at h
    | ok d =>
      simp only [h2] at h
      cases hc : d.cables.find? (fun c => c.name == name) with
      | none => simp [hc] at h
      | some c =>
        simp only [hc] at h
        cases hw : getWires ⟨c.lower, c.wires⟩ (rngL rng) (rngR rng) with
        | none => simp [hw] at h
        | some ws =>
          simp only [hw] at h
          split at h
          · cases h
          · rename_i k hk
            -- one port on these wires
            generalize hpn : ((d.ports.getD k default).name).getD "" = pname at h
            cases h3 : createOrUpdatePort s1 dn pname (rngL rng) (rngR rng) (some dir) true with
            | error e => simp [h3] at h
            | ok s2 =>
              simp only [h3] at h
              have w2 := createOrUpdatePort_wf s1 s2 dn pname _ _ _ _ w1 h3
              generalize hs3 : (if attrs.isEmpty = true then s2 else s2.upd dn (fun d => { d with ports := d.ports.map (fun p =>
                if p.name == some pname then { p with attrs := some attrs } else p) })) = s3 at h
              have w3 : TableWF s3 := by
                rw [← hs3]; split
                · exact w2
                · exact upd_port_attrs s2 dn pname attrs w2
              cases h4 : getDef s3 dn with
              | error e => simp [h4] at h
              | ok d3 =>
                simp only [h4] at h
                have hd3 := find_has w3 (getDef_find h4)
                split at h
                · rename_i c3 k3 hc3 hk3
                  split at h
                  · split at h
                    · cases h
                    · simp only [pure, Except.pure, Except.ok.injEq] at h
                      rw [← h]
                      generalize hF : List.foldl _ (d3.ports.getD k3 default).pins (List.range c3.wires.length) = F
                      have hspec : F.length = (d3.ports.getD k3 default).pins.length ∧ ∀ x, some x ∈ F →
                          some x ∈ (d3.ports.getD k3 default).pins ∨ ∃ i ∈ List.range c3.wires.length, x = c3.wires.getD i 0 := by
                        rw [← hF]
                        apply fillFold_spec (fun i => c3.wires.getD i 0)
                        · intro row i v hv; simp only [hv]
                        · intro row i hv; simp only [hv]
                      obtain ⟨l1, m1⟩ := hspec
                      refine upd_port_pins s3 dn d3 k3 F w3 hd3 (portIdx_lt hk3) l1 ?_
                      intro w hwm
                      rcases m1 w hwm with e | ⟨i, hi, e⟩
                      · exact (w3.defs d3 hd3.1).ppins _ (by simp [List.getD, List.getElem?_eq_getElem (portIdx_lt hk3)]) w e
                      · rw [mem_wiresOf]
                        refine ⟨c3, List.mem_of_find?_eq_some hc3, ?_⟩
                        have := List.mem_range.mp hi
                        rw [e]; simp [List.getD, List.getElem?_eq_getElem this]
                  · simp only [pure, Except.pure, Except.ok.injEq] at h
                    rw [← h]; exact w3
                · cases h
          · rename_i ks _ _
            -- several ports on this cable
            generalize hX : List.foldlM (m := Except String) _ s1 _ = X at h
            cases X with
            | error e => simp at h
            | ok s2 =>
              simp only at h
              split at h
              · cases h
              · simp only [pure, Except.pure, Except.ok.injEq] at h
                rw [← h]
                exact foldlM_wf _ (fun S k S' hS hk => createOrUpdatePort_wf S S' dn _ _ _ _ _ hS hk) _ s1 s2 w1 hX

/-! ### instances -/

theorem setPin_spec (pv pv' : List (Option Nat)) (k w : Nat) (h : setPin pv k w = some pv') :
    pv'.length = pv.length ∧ ∀ x, some x ∈ pv' → some x ∈ pv ∨ x = w := by
  unfold setPin at h
  split at h
  · simp only [Option.some.injEq] at h
    rw [← h]
    refine ⟨by simp, fun x hx => ?_⟩
    rcases List.mem_or_eq_of_mem_set hx with e | e
    · exact Or.inl e
    · exact Or.inr (Option.some.inj e)
  · cases h

theorem setPin_fold_spec : ∀ (ps : List (Nat × Nat)) (pv pv' : List (Option Nat)),
    ps.foldlM (fun pv (p : Nat × Nat) => setPin pv p.2 p.1) pv = some pv' →
    pv'.length = pv.length ∧ ∀ x, some x ∈ pv' → some x ∈ pv ∨ ∃ p ∈ ps, x = p.1 := by
  intro ps
  induction ps with
  | nil => intro pv pv' h; simp only [List.foldlM_nil, pure, Option.some.injEq] at h; rw [← h]; exact ⟨rfl, fun x hx => Or.inl hx⟩
  | cons p ps ih =>
    intro pv pv' h
    rw [List.foldlM_cons] at h
    cases h1 : setPin pv p.2 p.1 with
    | none => simp [h1] at h
    | some r1 =>
      simp only [h1, Option.bind_eq_bind, Option.bind_some] at h
      obtain ⟨l1, m1⟩ := setPin_spec pv r1 _ _ h1
      obtain ⟨l2, m2⟩ := ih r1 pv' h
      refine ⟨l2.trans l1, fun x hx => ?_⟩
      rcases m2 x hx with e | ⟨q, hq, e⟩
      · rcases m1 x e with e' | e'
        · exact Or.inl e'
        · exact Or.inr ⟨p, List.mem_cons_self, e'⟩
      · exact Or.inr ⟨q, List.mem_cons_of_mem _ hq, e⟩

theorem connectLowAligned_spec (row row' : List (Option Nat)) (ws : List Nat) (h : connectLowAligned row ws = some row') :
    row'.length = row.length ∧ ∀ x, some x ∈ row' → some x ∈ row ∨ x ∈ ws := by
  unfold connectLowAligned at h
  split at h
  · obtain ⟨l1, m1⟩ := setPin_fold_spec _ _ _ h
    refine ⟨l1, fun x hx => ?_⟩
    rcases m1 x hx with e | ⟨p, hp, e⟩
    · exact Or.inl e
    · exact Or.inr (by rw [e]; exact (List.of_mem_zip hp).1)
  · cases h

theorem getD_of_lt {α : Type} (l : List α) (k : Nat) (d : α) (h : k < l.length) : l.getD k d = l[k] := by
  simp [List.getD, List.getElem?_eq_getElem h]

theorem getD_mem {α : Type} (l : List α) (k : Nat) (d : α) (h : k < l.length) : l.getD k d ∈ l := by
  rw [getD_of_lt l k d h]; exact List.getElem_mem h

theorem getD_of_ge {α : Type} (l : List α) (k : Nat) (d : α) (h : l.length ≤ k) : l.getD k d = d := by
  simp [List.getD, List.getElem?_eq_none h]

/-- replacing the rows of one instance by rows of the same widths, all on wires of the definition -/
theorem upd_inst_pins (s : St) (dn : String) (d : Def) (ii : Nat) (pins' : List (List (Option Nat))) (hs : TableWF s)
    (hd : Has s dn d) (hk : ii < d.insts.length)
    (hlen : pins'.map List.length = (d.insts.getD ii default).pins.map List.length)
    (hrow : ∀ row ∈ pins', RowOK d row) :
    TableWF (s.upd dn (fun x => { x with insts := x.insts.set ii { d.insts.getD ii default with pins := pins' } })) := by
  have hget : d.insts.getD ii default = d.insts[ii] := by simp [List.getD, List.getElem?_eq_getElem hk]
  refine upd_shape hs dn _ ?_ ?_
  · intro x hx hn
    have : x = d := hd.2.2 x hx hn
    subst this
    simp only [shape]
    congr 2
    rw [List.map_set]
    apply List.ext_getElem?
    intro j
    by_cases e : j = ii
    · subst e
      rw [List.getElem?_set_self (by simpa using hk), List.getElem?_map, List.getElem?_eq_getElem hk, hlen, hget]
      rfl
    · rw [List.getElem?_set_ne (fun h => e h.symm)]
  · intro x hx hn
    have : x = d := hd.2.2 x hx hn
    subst this
    have hw := hs.defs x hx
    refine ⟨hw.ports, hw.cables, ?_, hw.ppins, ?_⟩
    · show ((x.insts.set ii ({ x.insts.getD ii default with pins := pins' } : Inst)).map (·.name)).Nodup
      have : (x.insts.set ii ({ x.insts.getD ii default with pins := pins' } : Inst)).map (·.name) = x.insts.map (·.name) := by
        rw [List.map_set]
        apply List.ext_getElem?
        intro j
        by_cases e : j = ii
        · subst e
          rw [List.getElem?_set_self (by simpa using hk), List.getElem?_map, List.getElem?_eq_getElem hk, hget]
          rfl
        · rw [List.getElem?_set_ne (fun h => e h.symm)]
      rw [this]; exact hw.insts
    · intro i hi row hr
      rcases List.mem_or_eq_of_mem_set hi with e | e
      · exact hw.ipins i e row hr
      · rw [e] at hr; exact hrow row hr

theorem connectInstRow_wf (s s' : St) (dn iname : String) (k : Nat) (ws : List Nat) (hs : TableWF s)
    (hws : ∀ w ∈ ws, w ∈ wiresIn s dn) (h : connectInstRow s dn iname k ws = .ok s') : TableWF s' ∧ Grow s s' := by
  unfold connectInstRow at h
  cases hg : getDef s dn with
  | error e => simp [hg, bind, Except.bind] at h
  | ok d =>
    have hd := find_has hs (getDef_find hg)
    simp only [hg, bind, Except.bind] at h
    cases hi : instIdx d iname with
    | none => simp [hi] at h
    | some ii =>
      simp only [hi] at h
      generalize hc : connectLowAligned ((d.insts.getD ii default).pins.getD k []) ws = C at h
      cases C with
      | none => simp at h
      | some row' =>
        simp only [pure, Except.pure, Except.ok.injEq] at h
        rw [← h]
        obtain ⟨l1, m1⟩ := connectLowAligned_spec _ _ _ hc
        have hiilt := instIdx_lt hi
        constructor
        · refine upd_inst_pins s dn d ii _ hs hd hiilt ?_ ?_
          · rw [List.map_set]
            apply List.ext_getElem?
            intro j
            by_cases e : j = k
            · subst e
              by_cases hj : j < (d.insts.getD ii default).pins.length
              · rw [List.getElem?_set_self (by simpa using hj), List.getElem?_map, List.getElem?_eq_getElem hj, l1,
                  getD_of_lt _ _ _ hj]
                rfl
              · have hj' : (d.insts.getD ii default).pins.length ≤ j := by omega
                rw [List.getElem?_eq_none (by simpa using hj'), List.getElem?_eq_none (by simpa using hj')]
            · rw [List.getElem?_set_ne (fun h => e h.symm)]
          · intro row hr w hw
            have hwd := (hs.defs d hd.1).ipins (d.insts.getD ii default) (getD_mem _ _ _ hiilt)
            rcases List.mem_or_eq_of_mem_set hr with e | e
            · exact hwd row e w hw
            · rw [e] at hw
              rcases m1 w hw with e1 | e1
              · by_cases hj : k < (d.insts.getD ii default).pins.length
                · exact hwd _ (getD_mem _ _ _ hj) w e1
                · rw [getD_of_ge _ _ _ (by omega)] at e1; cases e1
              · rw [← wiresIn_has hd]; exact hws w e1
        · exact grow_upd s dn _ (fun _ => rfl) (fun _ _ _ w hw => hw)
end Spydr.Verilog.Elab
