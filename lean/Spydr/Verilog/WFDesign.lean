/-
  Verilog engine — StructWF, part 7: positional maps, assigns, items, modules, the design and the whole reader:
  `elabDesign ms = .ok s → TableWF s` and `readV text = .ok s → TableWF s` for ANY input.
-/
import Spydr.Verilog.WFInst
import Spydr.Verilog.ModelParse
set_option maxHeartbeats 800000
namespace Spydr.Verilog.Elab
open Spydr.Verilog

/-! ### positional maps -/

theorem regrow_grow (s : St) (dn : String) (fp : List Port → List Port)
    (fr : List (List (Option Nat)) → List (List (Option Nat))) : Grow s (regrow s dn fp fr) := by
  intro n w hw
  unfold regrow
  rw [wiresIn_map s (regrowDef dn fp fr) (fun _ => rfl) (fun _ => rfl)]; exact hw

/-- a new port without a name at the end of `ref`, one new row on each of its instances -/
theorem add_unnamed_port_wf (s : St) (ref : String) (rd : Def) (w : Nat) (lo : Int) (dt : Bool) (hs : TableWF s)
    (hrd : Has s ref rd) :
    TableWF (mapInstRows (s.upd ref (fun d => { d with ports := d.ports ++ [⟨none, .undef, lo, dt, List.replicate w none, none⟩] }))
      ref rd.ports.length (fun _ => List.replicate w none)) := by
  rw [mapInstRows_upd s ref (fun ps => ps ++ [(⟨none, .undef, lo, dt, List.replicate w none, none⟩ : Port)])]
  apply regrow_wf s ref rd _ _ hs hrd
  · intro pins hp
    have hlen : pins.length = rd.ports.length := by
      have := congrArg List.length hp; simpa using this
    rw [rowOp_lens_new _ _ pins hlen]
    simp [hp]
  · intro pins row' hr x hx
    have hpl : pins.length ≤ rd.ports.length ∨ rd.ports.length < pins.length := by omega
    rcases hpl with hle | hlt
    · unfold rowOp at hr
      rcases List.mem_or_eq_of_mem_set hr with e | e
      · rcases List.mem_append.mp e with e1 | e1
        · exact ⟨row', e1, hx⟩
        · have := List.eq_of_mem_replicate e1; rw [this] at hx; cases hx
      · rw [e] at hx
        have := List.eq_of_mem_replicate hx; cases this
    · rw [rowOp_set _ _ pins hlt] at hr
      rcases List.mem_or_eq_of_mem_set hr with e | e
      · exact ⟨row', e, hx⟩
      · rw [e] at hx
        have := List.eq_of_mem_replicate hx; cases this
  · rw [filterMap_name_append]
    simp only [List.append_nil]
    exact (hs.defs rd hrd.1).ports
  · intro p hp x hx
    rcases List.mem_append.mp hp with e | e
    · exact ⟨p, e, hx⟩
    · simp only [List.mem_singleton] at e
      rw [e] at hx
      have := List.eq_of_mem_replicate hx; cases this

/-- one position of a positional map -/
def posStep (dn iname ref : String) (nports : Nat) (acc : St × Nat) (e : XExpr) : M (St × Nat) := do
  let (s, idx) := acc
  let (s, ws) ← evalExprE s dn e
  if idx ≥ nports then
    let p := populateNew (some ((ws.length : Int) - 1)) (some 0)
    let port : Port := ⟨none, .undef, p.1, p.2.2, List.replicate p.2.1 none, none⟩
    let rd ← getDef s ref
    if !rd.primitive then throw "assert: positional port map with more expressions than the declared module has ports" else
    let k := rd.ports.length
    let s := s.upd ref (fun d => { d with ports := d.ports ++ [port] })
    let s := mapInstRows s ref k (fun _ => List.replicate p.2.1 none)
    let s ← connectInstRow s dn iname k ws
    pure (s, idx + 1)
  else
  let s ← connectInstRow s dn iname idx ws
  pure (s, idx + 1)

theorem positional_eq (s : St) (dn iname : String) (es : List XExpr) :
    positional s dn iname es = (do
      let d ← getDef s dn
      match instIdx d iname with
      | none => throw "instance missing"
      | some ii =>
        let rd ← getDef s (d.insts.getD ii default).ref
        let r ← es.foldlM (posStep dn iname (d.insts.getD ii default).ref rd.ports.length) (s, 0)
        pure r.1) := rfl

theorem posStep_wf (dn iname ref : String) (nports : Nat) (acc r : St × Nat) (e : XExpr) (hacc : TableWF acc.1)
    (h : posStep dn iname ref nports acc e = .ok r) : TableWF r.1 := by
  obtain ⟨S, idx⟩ := acc
  unfold posStep at h
  simp only [bind, Except.bind] at h
  cases he : evalExprE S dn e with
  | error x => simp [he] at h
  | ok r1 =>
    obtain ⟨S1, ws⟩ := r1
    simp only [he] at h
    obtain ⟨w1, _, m1⟩ := evalExprE_wf S S1 dn e ws hacc he
    split at h
    · cases hg : getDef S1 ref with
      | error x => simp [hg] at h
      | ok rd' =>
        simp only [hg] at h
        split at h
        · simp [throw, throwThe, MonadExceptOf.throw] at h
        have hrd' := find_has w1 (getDef_find hg)
        have w2 := add_unnamed_port_wf S1 ref rd' (populateNew (some ((ws.length : Int) - 1)) (some 0)).2.1
          (populateNew (some ((ws.length : Int) - 1)) (some 0)).1
          (populateNew (some ((ws.length : Int) - 1)) (some 0)).2.2 w1 hrd'
        have g2 : Grow S1 (mapInstRows (S1.upd ref (fun d => { d with ports := d.ports ++
            [⟨none, .undef, (populateNew (some ((ws.length : Int) - 1)) (some 0)).1,
              (populateNew (some ((ws.length : Int) - 1)) (some 0)).2.2,
              List.replicate (populateNew (some ((ws.length : Int) - 1)) (some 0)).2.1 none, none⟩] }))
            ref rd'.ports.length
            (fun _ => List.replicate (populateNew (some ((ws.length : Int) - 1)) (some 0)).2.1 none)) := by
          rw [mapInstRows_upd S1 ref (fun ps => ps ++ [_])]
          exact regrow_grow _ _ _ _
        generalize hc : connectInstRow _ dn iname rd'.ports.length ws = C at h
        cases C with
        | error x => simp at h
        | ok S3 =>
          simp only [pure, Except.pure, Except.ok.injEq] at h
          rw [← h]
          exact (connectInstRow_wf _ S3 dn iname _ ws w2 (fun w hw => g2 dn w (m1 w hw)) hc).1
    · generalize hc : connectInstRow S1 dn iname idx ws = C at h
      cases C with
      | error x => simp at h
      | ok S3 =>
        simp only [pure, Except.pure, Except.ok.injEq] at h
        rw [← h]
        exact (connectInstRow_wf S1 S3 dn iname _ ws w1 m1 hc).1

theorem positional_wf (s s' : St) (dn iname : String) (es : List XExpr) (hs : TableWF s)
    (h : positional s dn iname es = .ok s') : TableWF s' := by
  rw [positional_eq] at h
  simp only [bind, Except.bind] at h
  cases h1 : getDef s dn with
  | error e => simp [h1] at h
  | ok d =>
    simp only [h1] at h
    cases hii : instIdx d iname with
    | none => simp [hii] at h
    | some ii =>
      simp only [hii] at h
      generalize href : (d.insts.getD ii default).ref = ref at h
      generalize hX : getDef s ref = G at h
      cases G with
      | error e => simp at h
      | ok rd =>
        simp only at h
        generalize hY : List.foldlM (m := Except String) _ (s, 0) es = Y at h
        cases Y with
        | error e => simp at h
        | ok r =>
          simp only [pure, Except.pure, Except.ok.injEq] at h
          rw [← h]
          have hloop : ∀ (es : List XExpr) (acc r : St × Nat), TableWF acc.1 →
              es.foldlM (posStep dn iname ref rd.ports.length) acc = .ok r → TableWF r.1 := by
            intro es
            induction es with
            | nil =>
              intro acc r hacc hf
              simp only [List.foldlM_nil, pure, Except.pure, Except.ok.injEq] at hf
              rw [← hf]; exact hacc
            | cons e es ih =>
              intro acc r hacc hf
              simp only [List.foldlM_cons, bind, Except.bind] at hf
              cases hs1 : posStep dn iname ref rd.ports.length acc e with
              | error x => simp [hs1] at hf
              | ok a1 =>
                simp only [hs1] at hf
                exact ih a1 r (posStep_wf _ _ _ _ acc a1 e hacc hs1) hf
          exact hloop es (s, 0) r hs hY

/-! ### assigns, items, modules, the design -/

theorem DefWF.of_meta {d d' : Def} (h : DefWF d) (hp : d'.ports = d.ports) (hc : d'.cables = d.cables)
    (hi : d'.insts = d.insts) : DefWF d' := by
  have hw : wiresOf d' = wiresOf d := by unfold wiresOf; rw [hc]
  exact ⟨by rw [hp]; exact h.ports, by rw [hc]; exact h.cables, by rw [hi]; exact h.insts,
    by rw [hp]; intro p hp' w hw'; rw [hw]; exact h.ppins p hp' w hw',
    by rw [hi]; intro i hi' row hr w hw'; rw [hw]; exact h.ipins i hi' row hr w hw'⟩

/-- rewriting library, parameters, attributes of definitions: the structure is untouched -/
theorem map_meta_wf (s : St) (g : Def → Def) (hn : ∀ d, (g d).name = d.name) (hp : ∀ d, (g d).ports = d.ports)
    (hc : ∀ d, (g d).cables = d.cables) (hi : ∀ d, (g d).insts = d.insts) (hs : TableWF s) :
    TableWF { s with defs := s.defs.map g } := by
  have hsh : ∀ d, shape (g d) = shape d := by intro d; simp only [shape, hn, hp, hi]
  have hmap : (s.defs.map g).map shape = s.defs.map shape := by
    rw [List.map_map]; apply List.map_congr_left; intro d _; exact hsh d
  refine ⟨?_, by show GlobalWF ((s.defs.map g).map shape); rw [hmap]; exact hs.glob, ?_⟩
  · intro d' hd'
    obtain ⟨d, hd, e⟩ := List.mem_map.mp hd'
    rw [← e]; exact (hs.defs d hd).of_meta (hp d) (hc d) (hi d)
  · intro t ht
    obtain ⟨d, hd, e⟩ := hs.top t ht
    exact ⟨g d, List.mem_map_of_mem hd, by rw [hn]; exact e⟩

theorem upd_meta_wf (s : St) (dn : String) (f : Def → Def) (hn : ∀ d, (f d).name = d.name) (hp : ∀ d, (f d).ports = d.ports)
    (hc : ∀ d, (f d).cables = d.cables) (hi : ∀ d, (f d).insts = d.insts) (hs : TableWF s) : TableWF (s.upd dn f) := by
  unfold St.upd
  apply map_meta_wf s (fun d => if d.name == dn then f d else d) _ _ _ _ hs
  · intro d; split <;> simp [hn]
  · intro d; split <;> simp [hp]
  · intro d; split <;> simp [hc]
  · intro d; split <;> simp [hi]

theorem ensureAssignDef_wf (s s' : St) (w : Nat) (hs : TableWF s) (h : ensureAssignDef s w = .ok s') : TableWF s' := by
  unfold ensureAssignDef at h
  cases hf : s.find (assignDefName w) with
  | some d =>
    simp only [hf] at h
    split at h
    · simp only [pure, Except.pure, Except.ok.injEq] at h; rw [← h]; exact hs
    · cases h
  | none =>
    simp only [hf, pure, Except.pure, Except.ok.injEq] at h
    rw [← h]
    -- as `ensure`, then the two ports are put on the (unreferenced) new definition
    have h1 := ensure_wf s (assignDefName w) hs
    unfold St.ensure at h1
    rw [hf] at h1
    simp only at h1
    have hnot : ∀ d ∈ s.defs, d.name ≠ assignDefName w := by
      intro d hd e
      unfold St.find at hf
      have := List.find?_eq_none.mp hf d hd
      simp [e] at this
    generalize hnew : (⟨assignDefName w, some "SDN_VERILOG_ASSIGNMENT", false, [], none,
      [⟨some "i", .inp, 0, true, List.replicate w none, none⟩, ⟨some "o", .out, 0, true, List.replicate w none, none⟩], [], []⟩ : Def) = D
    have hDn : D.name = assignDefName w := by rw [← hnew]
    have hDi : D.insts = [] := by rw [← hnew]
    refine ⟨?_, ⟨?_, ?_, ?_⟩, ?_⟩
    · intro d hd
      rcases List.mem_append.mp hd with e | e
      · exact hs.defs d e
      · simp only [List.mem_singleton] at e
        rw [e, ← hnew]
        refine ⟨(by simp), (by simp), (by simp), ?_, (fun i hi => by cases hi)⟩
        intro p hp x hx
        simp only [List.mem_cons, List.mem_singleton, List.not_mem_nil, or_false] at hp
        rcases hp with e1 | e1 <;> (rw [e1] at hx; have := List.eq_of_mem_replicate hx; cases this)
    · have := h1.glob.names
      simp only [List.map_append, List.map_cons, List.map_nil, shape] at this ⊢
      rw [hDn]; exact this
    · intro sh hsh ir hir
      simp only [List.map_append, List.mem_append] at hsh
      rcases hsh with e | e
      · obtain ⟨sh', h2, h3⟩ := hs.glob.closed sh e ir hir
        exact ⟨sh', by simp only [List.map_append, List.mem_append]; exact Or.inl h2, h3⟩
      · simp only [List.map_cons, List.map_nil, List.mem_singleton] at e
        rw [e] at hir; simp [shape, hDi] at hir
    · intro sh hsh ir hir sh' hsh' hn
      simp only [List.map_append, List.mem_append] at hsh hsh'
      rcases hsh with e | e
      · rcases hsh' with e' | e'
        · exact hs.glob.mirror sh e ir hir sh' e' hn
        · exfalso
          simp only [List.map_cons, List.map_nil, List.mem_singleton] at e'
          obtain ⟨sh2, h2, h3⟩ := hs.glob.closed sh e ir hir
          obtain ⟨d, hd, e2⟩ := List.mem_map.mp h2
          rw [e'] at hn
          simp only [shape, hDn] at hn
          rw [← e2] at h3
          simp only [shape] at h3
          exact hnot d hd (h3.trans hn.symm)
      · simp only [List.map_cons, List.map_nil, List.mem_singleton] at e
        rw [e] at hir; simp [shape, hDi] at hir
    · intro t ht
      obtain ⟨d, hd, e⟩ := hs.top t ht
      exact ⟨d, List.mem_append_left _ hd, e⟩

theorem ensureAssignDef_grow (s s' : St) (w : Nat) (h : ensureAssignDef s w = .ok s') : Grow s s' := by
  unfold ensureAssignDef at h
  cases hf : s.find (assignDefName w) with
  | some d =>
    simp only [hf] at h
    split at h
    · simp only [pure, Except.pure, Except.ok.injEq] at h; rw [← h]; exact Grow.refl s
    · cases h
  | none =>
    simp only [hf, pure, Except.pure, Except.ok.injEq] at h
    rw [← h]
    intro n x hx
    unfold wiresIn St.find at hx ⊢
    simp only [List.find?_append]
    cases hn : s.defs.find? (fun d => d.name == n) with
    | none => rw [hn] at hx; cases hx
    | some d => rw [hn] at hx; simpa using hx

theorem connectAssign_spec (lw rw : List Nat) :
    ((connectAssign lw rw).1.length = min lw.length rw.length ∧ (connectAssign lw rw).2.length = min lw.length rw.length) ∧
    (∀ x, some x ∈ (connectAssign lw rw).1 → x ∈ lw) ∧ (∀ x, some x ∈ (connectAssign lw rw).2 → x ∈ rw) := by
  unfold connectAssign
  refine ⟨⟨by simp, by simp⟩, ?_, ?_⟩
  · intro x hx
    simp only [List.mem_map, Option.some.injEq] at hx
    obtain ⟨y, hy, e⟩ := hx
    rw [← e]; exact List.mem_reverse.mp (List.mem_of_mem_take hy)
  · intro x hx
    simp only [List.mem_map, Option.some.injEq] at hx
    obtain ⟨y, hy, e⟩ := hx
    rw [← e]; exact List.mem_reverse.mp (List.mem_of_mem_take hy)

theorem assignStmt_wf (s s' : St) (dn : String) (l r : XAtom) (hs : TableWF s) (h : assignStmt s dn l r = .ok s') :
    TableWF s' := by
  unfold assignStmt at h
  simp only [bind, Except.bind] at h
  cases h1 : evalAtomE s dn l with
  | error e => simp [h1] at h
  | ok r1 =>
    obtain ⟨s1, lw⟩ := r1
    simp only [h1] at h
    obtain ⟨w1, _, m1⟩ := evalAtomE_wf s s1 dn l lw hs h1
    cases h2 : evalAtomE s1 dn r with
    | error e => simp [h2] at h
    | ok r2 =>
      obtain ⟨s2, rw'⟩ := r2
      simp only [h2] at h
      obtain ⟨w2, g2, m2⟩ := evalAtomE_wf s1 s2 dn r rw' w1 h2
      cases h3 : ensureAssignDef s2 (min lw.length rw'.length) with
      | error e => simp [h3] at h
      | ok s3 =>
        simp only [h3] at h
        have w3 := ensureAssignDef_wf s2 s3 _ w2 h3
        have g3 := ensureAssignDef_grow s2 s3 _ h3
        cases h4 : getDef s3 (assignDefName (min lw.length rw'.length)) with
        | error e => simp [h4] at h
        | ok rd =>
          simp only [h4] at h
          split at h
          · cases h
          · rename_i hchk
            cases h5 : getDef s3 dn with
            | error e => simp [h5] at h
            | ok d =>
              simp only [h5] at h
              split at h
              · cases h
              · rename_i hfresh
                simp only [pure, Except.pure, Except.ok.injEq] at h
                rw [← h]
                obtain ⟨⟨c1, c2⟩, c3, c4⟩ := connectAssign_spec lw rw'
                have hd := find_has w3 (getDef_find h5)
                have hrd := find_has w3 (getDef_find h4)
                have hfresh' : instIdx d (assignDefName (min lw.length rw'.length) ++ "_" ++ toString s3.acount) = none := by
                  cases hx : instIdx d (assignDefName (min lw.length rw'.length) ++ "_" ++ toString s3.acount) with
                  | none => rfl
                  | some v => rw [hx] at hfresh; simp at hfresh
                have hlen : [(connectAssign lw rw').2, (connectAssign lw rw').1].map List.length =
                    rd.ports.map (fun p => p.pins.length) := by
                  have : (rd.ports.map (fun p => p.pins.length) != [(connectAssign lw rw').2.length, (connectAssign lw rw').1.length]) = false := by
                    simpa using hchk
                  simp only [bne_eq_false_iff_eq] at this
                  rw [this]; rfl
                have := add_inst_wf ({ s3 with acount := s3.acount + 1 } : St) dn d rd
                  ⟨assignDefName (min lw.length rw'.length) ++ "_" ++ toString s3.acount, assignDefName (min lw.length rw'.length), [], none,
                    [(connectAssign lw rw').2, (connectAssign lw rw').1]⟩
                  ⟨w3.defs, w3.glob, w3.top⟩ hd hrd hlen hfresh' (by
                    intro row hr x hx
                    rw [← wiresIn_has hd]
                    simp only [List.mem_cons, List.not_mem_nil, or_false] at hr
                    rcases hr with e | e
                    · rw [e] at hx; exact g3 dn x (m2 x (c4 x hx))
                    · rw [e] at hx; exact g3 dn x (g2 dn x (m1 x (c3 x hx))))
                exact this

theorem elabItem_wf (s s' : St) (dn : String) (prim : Bool) (it : Item) (hs : TableWF s)
    (h : elabItem s dn prim it = .ok s') : TableWF s' := by
  cases it with
  | portDecl dir vt rng name attrs => exact portDecl_wf s s' dn dir vt rng name _ hs h
  | wireDecl ty rng name attrs =>
    simp only [elabItem] at h
    split at h
    · simp only [pure, Except.pure, Except.ok.injEq] at h; rw [← h]; exact hs
    · simp only [bind, Except.bind] at h
      cases h1 : createOrUpdateCable s dn name (rngL rng) (rngR rng) (some ty) false with
      | error e => simp [h1] at h
      | ok s1 =>
        simp only [h1, pure, Except.pure, Except.ok.injEq] at h
        rw [← h]
        exact setCableAttrs_wf s1 dn name attrs (createOrUpdateCable_wf s s1 dn name _ _ _ _ hs h1)
  | inst mod name params attrs named conns =>
    simp only [elabItem] at h
    split at h
    · simp only [pure, Except.pure, Except.ok.injEq] at h; rw [← h]; exact hs
    · exact instantiate_wf s s' dn mod name params attrs named conns hs h
  | assign l r =>
    simp only [elabItem] at h
    split at h
    · simp only [pure, Except.pure, Except.ok.injEq] at h; rw [← h]; exact hs
    · exact assignStmt_wf s s' dn l r hs h
  | defparam i k v =>
    simp only [elabItem] at h
    split at h
    · simp only [pure, Except.pure, Except.ok.injEq] at h; rw [← h]; exact hs
    · simp only [bind, Except.bind] at h
      cases h1 : getDef s dn with
      | error e => simp [h1] at h
      | ok d =>
        simp only [h1] at h
        split at h
        · cases h
        · simp only [pure, Except.pure, Except.ok.injEq] at h
          rw [← h]
          exact upd_inst_params s dn i (fun ps => if ps.any (fun kv => kv.1 == k) then ps else ps ++ [(k, v)]) hs

theorem elabModule_wf (s s' : St) (m : Module) (hs : TableWF s) (h : elabModule s m = .ok s') : TableWF s' := by
  unfold elabModule at h
  simp only [bind, Except.bind] at h
  have w0 := ensure_wf s m.name hs
  cases h1 : getDef (s.ensure m.name) m.name with
  | error e => simp [h1] at h
  | ok d =>
    simp only [h1] at h
    have hd := find_has w0 (getDef_find h1)
    split at h
    · cases h
    · -- library, top, parameters: the structure is untouched
      have w1 : TableWF ((s.ensure m.name).upd m.name (fun d => { d with lib := some (if m.prim then "hdi_primitives" else "work") })) :=
        upd_meta_wf _ _ _ (fun _ => rfl) (fun _ => rfl) (fun _ => rfl) (fun _ => rfl) w0
      generalize hs1 : (s.ensure m.name).upd m.name (fun d => { d with lib := some (if m.prim then "hdi_primitives" else "work") }) = s1 at h w1
      have hin1 : ∃ x ∈ s1.defs, x.name = m.name := by
        rw [← hs1]
        have := hd.upd (fun d => ({ d with lib := some (if m.prim then "hdi_primitives" else "work") } : Def)) (fun _ => rfl)
        exact ⟨_, this.1, hd.2.1⟩
      generalize hs2 : (if m.prim = true then s1 else
        ({ (if s1.top.isNone = true then ({ s1 with top := some m.name } : St) else s1) with acount := 0 } : St)) = s2 at h
      have w2 : TableWF s2 := by
        rw [← hs2]
        split
        · exact w1
        · split
          · exact ⟨w1.defs, w1.glob, fun t e => by simp only [Option.some.injEq] at e; rw [← e]; exact hin1⟩
          · exact ⟨w1.defs, w1.glob, w1.top⟩
      generalize hs3 : (if m.params.isEmpty = true then s2 else s2.upd m.name (fun d => { d with params := mergeParams d.params m.params })) = s3 at h
      have w3 : TableWF s3 := by
        rw [← hs3]
        split
        · exact w2
        · exact upd_meta_wf _ _ _ (fun _ => rfl) (fun _ => rfl) (fun _ => rfl) (fun _ => rfl) w2
      generalize hX : List.foldlM (m := Except String) _ s3 m.header = X at h
      cases X with
      | error e => simp at h
      | ok s4 =>
        simp only at h
        have w4 : TableWF s4 := by
          refine foldlM_wf _ ?_ m.header s3 s4 w3 hX
          intro S hp S' hS hh
          split at hh
          · exact headerAlias_wf S S' m.name hp _ hS hh
          · exact headerPort_wf S S' m.name hp hS hh
        cases h5 : reorderPorts s4 m.name (m.header.map (·.name)) with
        | error e => simp [h5] at h
        | ok s5 =>
          simp only [h5] at h
          have w5 := reorderPorts_wf s4 s5 m.name _ w4 h5
          generalize hY : List.foldlM (m := Except String) _ s5 m.items = Y at h
          cases Y with
          | error e => simp at h
          | ok s6 =>
            simp only [pure, Except.pure, Except.ok.injEq] at h
            have w6 : TableWF s6 :=
              foldlM_wf _ (fun S it S' hS hh => elabItem_wf S S' m.name m.prim it hS hh) m.items s5 s6 w5 hY
            rw [← h]
            split
            · exact w6
            · exact upd_meta_wf _ _ _ (fun _ => rfl) (fun _ => rfl) (fun _ => rfl) (fun _ => rfl) w6

theorem tableWF_init : TableWF ⟨[], 0, none, 0, []⟩ :=
  ⟨(fun d hd => by cases hd), ⟨List.nodup_nil, (fun sh hsh => by cases hsh), (fun sh hsh => by cases hsh)⟩,
   (fun t ht => by cases ht)⟩

/-- **elabDesign_wf.**  Whatever the elaboration accepts is well-formed — for ANY list of modules. -/
theorem elabDesign_wf (ms : List Module) (s : St) (h : elabDesign ms = .ok s) : TableWF s := by
  unfold elabDesign at h
  simp only [bind, Except.bind] at h
  cases h1 : List.foldlM elabModule (⟨[], 0, none, 0, []⟩ : St) ms with
  | error e => simp [h1] at h
  | ok s1 =>
    simp only [h1] at h
    have w1 : TableWF s1 := foldlM_wf _ (fun S m S' hS hh => elabModule_wf S S' m hS hh) ms _ s1 tableWF_init h1
    have w2 := map_meta_wf s1 (fun (d : Def) => if d.lib.isNone then { d with lib := some "hdi_primitives", primitive := true } else d)
      (by intro d; split <;> rfl) (by intro d; split <;> rfl) (by intro d; split <;> rfl) (by intro d; split <;> rfl) w1
    exact foldlM_wf _ (fun S p S' hS hh => positional_wf S S' p.1 p.2.1 p.2.2 hS hh) _ _ s w2 h

/-- the same for the whole reader, from characters -/
theorem readV_wf (text : String) (s : St) (h : Parse.readV text = .ok s) : TableWF s := by
  unfold Parse.readV at h
  simp only [bind, Except.bind] at h
  cases h1 : Parse.parseV (Text.lexV text) with
  | error e => simp [h1] at h
  | ok ms => simp only [h1] at h; exact elabDesign_wf ms s h
end Spydr.Verilog.Elab
