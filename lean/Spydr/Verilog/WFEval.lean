/-
  Verilog engine — StructWF, part 3: expressions (the wires found belong to the definition; nets only grow) and the
  wiring of port pins.
-/
import Spydr.Verilog.WFPort
import Spydr.Verilog.RoundTripShape
set_option maxHeartbeats 800000
namespace Spydr.Verilog.Elab
open Spydr.Verilog

/-! ### expressions: the wires found belong to the definition -/

def wiresIn (s : St) (dn : String) : List Nat :=
  match s.find dn with
  | some d => wiresOf d
  | none => []

/-- nets only grow -/
def Grow (s s' : St) : Prop := ∀ dn w, w ∈ wiresIn s dn → w ∈ wiresIn s' dn

theorem Grow.refl (s : St) : Grow s s := fun _ _ h => h
theorem Grow.trans {a b c : St} (h1 : Grow a b) (h2 : Grow b c) : Grow a c := fun dn w h => h2 dn w (h1 dn w h)

theorem find_upd (s : St) (dn n : String) (f : Def → Def) (hf : ∀ d, (f d).name = d.name) :
    (s.upd dn f).find n = (s.find n).map (fun d => if d.name == dn then f d else d) := by
  unfold St.find St.upd
  rw [List.find?_map]
  have : ((fun (d : Def) => d.name == n) ∘ fun d => if d.name == dn then f d else d) = fun d => d.name == n := by
    funext d
    simp only [Function.comp]
    split
    · rw [hf]
    · rfl
  rw [this]

theorem grow_upd (s : St) (dn : String) (f : Def → Def) (hf : ∀ d, (f d).name = d.name)
    (hw : ∀ d ∈ s.defs, d.name = dn → ∀ w ∈ wiresOf d, w ∈ wiresOf (f d)) : Grow s (s.upd dn f) := by
  intro n w hwn
  unfold wiresIn at hwn ⊢
  rw [find_upd s dn n f hf]
  cases hfn : s.find n with
  | none => rw [hfn] at hwn; cases hwn
  | some d =>
    rw [hfn] at hwn
    simp only [Option.map_some]
    have hdm : d ∈ s.defs := by unfold St.find at hfn; exact List.mem_of_find?_eq_some hfn
    by_cases e : d.name = dn
    · simp only [e, beq_self_eq_true, if_true]; exact hw d hdm e w hwn
    · simp only [show (d.name == dn) = false by simp [e], Bool.false_eq_true, if_false]; exact hwn

theorem createOrUpdateCable_grow (s s' : St) (dn name : String) (l r : Option Int) (vt : Option String) (df : Bool)
    (hs : TableWF s) (h : createOrUpdateCable s dn name l r vt df = .ok s') : Grow s s' := by
  unfold createOrUpdateCable at h
  cases hg : getDef s dn with
  | error e => simp [hg, bind, Except.bind] at h
  | ok d =>
    have hd := find_has hs (getDef_find hg)
    simp only [hg, bind, Except.bind] at h
    cases hf : d.cables.find? (fun c => c.name == name) with
    | none =>
      simp only [hf, fresh, pure, Except.pure, Except.ok.injEq] at h
      rw [← h]
      have : Grow s ({ s with next := s.next + (populateNew l r).2.1 } : St) := fun _ _ h => h
      refine this.trans (grow_upd _ dn _ (fun _ => rfl) ?_)
      intro x _ _ w hw
      rw [mem_wiresOf] at hw ⊢
      obtain ⟨c, hc, hwc⟩ := hw
      exact ⟨c, List.mem_append_left _ hc, hwc⟩
    | some c =>
      simp only [hf, fresh, pure, Except.pure, Except.ok.injEq] at h
      rw [← h]
      refine Grow.trans (fun _ _ h => h) (grow_upd _ dn _ (fun _ => rfl) ?_)
      intro x hx hxn w hw
      have hxd : x = d := hd.2.2 x hx hxn
      subst hxd
      rw [mem_wiresOf] at hw ⊢
      obtain ⟨c0, hc0, hwc⟩ := hw
      refine ⟨_, List.mem_map.mpr ⟨c0, hc0, rfl⟩, ?_⟩
      split
      · rename_i e
        have hcm := List.mem_of_find?_eq_some hf
        have hcn : c.name = name := by simpa using List.find?_some hf
        have e' : c0.name = name := by simpa using e
        have : c0 = c := nodup_map_inj (·.name) x.cables (hs.defs x hx).cables c0 hc0 c hcm (e'.trans hcn.symm)
        rw [← this]
        simp [hwc]
      · exact hwc

theorem evalAtomE_wf (s s' : St) (dn : String) (a : XAtom) (ws : List Nat) (hs : TableWF s)
    (h : evalAtomE s dn a = .ok (s', ws)) : TableWF s' ∧ Grow s s' ∧ ∀ w ∈ ws, w ∈ wiresIn s' dn := by
  unfold evalAtomE at h
  generalize hp : atomParts a = p at h
  obtain ⟨n, l, r⟩ := p
  simp only [bind, Except.bind] at h
  cases hc : createOrUpdateCable s dn n l r none false with
  | error e => simp [hc] at h
  | ok s1 =>
    simp only [hc] at h
    have hs1 := createOrUpdateCable_wf s s1 dn n l r none false hs hc
    have hg1 := createOrUpdateCable_grow s s1 dn n l r none false hs hc
    cases hg : getDef s1 dn with
    | error e => simp [hg] at h
    | ok d =>
      simp only [hg] at h
      cases hf : d.cables.find? (fun c => c.name == n) with
      | none => simp [hf] at h
      | some c =>
        simp only [hf] at h
        cases hw : getWires ⟨c.lower, c.wires⟩ l r with
        | none => simp [hw] at h
        | some ws' =>
          simp only [hw, pure, Except.pure, Except.ok.injEq, Prod.mk.injEq] at h
          obtain ⟨e1, e2⟩ := h
          subst e1 e2
          refine ⟨hs1, hg1, ?_⟩
          intro w hwm
          unfold wiresIn
          rw [getDef_find hg]
          rw [mem_wiresOf]
          exact ⟨c, List.mem_of_find?_eq_some hf, getWires_mem _ _ _ _ hw w hwm⟩

theorem evalAtomsE_wf (dn : String) : ∀ (as : List XAtom) (s s' : St) (ws : List Nat), TableWF s →
    evalAtomsE s dn as = .ok (s', ws) → TableWF s' ∧ Grow s s' ∧ ∀ w ∈ ws, w ∈ wiresIn s' dn := by
  intro as
  induction as with
  | nil =>
    intro s s' ws hs h
    simp only [evalAtomsE, pure, Except.pure, Except.ok.injEq, Prod.mk.injEq] at h
    obtain ⟨e1, e2⟩ := h
    subst e1 e2
    exact ⟨hs, Grow.refl _, fun w hw => by cases hw⟩
  | cons a as ih =>
    intro s s' ws hs h
    simp only [evalAtomsE, bind, Except.bind] at h
    cases h1 : evalAtomE s dn a with
    | error e => simp [h1] at h
    | ok r1 =>
      obtain ⟨s1, x⟩ := r1
      simp only [h1] at h
      obtain ⟨w1, g1, m1⟩ := evalAtomE_wf s s1 dn a x hs h1
      cases h2 : evalAtomsE s1 dn as with
      | error e => simp [h2] at h
      | ok r2 =>
        obtain ⟨s2, y⟩ := r2
        simp only [h2, pure, Except.pure, Except.ok.injEq, Prod.mk.injEq] at h
        obtain ⟨e1, e2⟩ := h
        subst e1 e2
        obtain ⟨w2, g2, m2⟩ := ih s1 s2 y w1 h2
        refine ⟨w2, g1.trans g2, ?_⟩
        intro w hw
        rcases List.mem_append.mp hw with e | e
        · exact g2 dn w (m1 w e)
        · exact m2 w e

theorem evalExprE_wf (s s' : St) (dn : String) (e : XExpr) (ws : List Nat) (hs : TableWF s)
    (h : evalExprE s dn e = .ok (s', ws)) : TableWF s' ∧ Grow s s' ∧ ∀ w ∈ ws, w ∈ wiresIn s' dn := by
  cases e with
  | empty =>
    simp only [evalExprE, pure, Except.pure, Except.ok.injEq, Prod.mk.injEq] at h
    obtain ⟨e1, e2⟩ := h
    subst e1 e2
    exact ⟨hs, Grow.refl _, fun w hw => by cases hw⟩
  | atom a => exact evalAtomE_wf s s' dn a ws hs h
  | cat as => exact evalAtomsE_wf dn as s s' ws hs h

/-! ### wiring pins -/

theorem setRow_spec (row row' : List (Option Nat)) (k w : Nat) (h : setRow row k w = .ok row') :
    row'.length = row.length ∧ ∀ x, some x ∈ row' → some x ∈ row ∨ x = w := by
  unfold setRow setPin at h
  split at h
  · rename_i r hr
    split at hr
    · simp only [Option.some.injEq] at hr
      simp only [pure, Except.pure, Except.ok.injEq] at h
      rw [← h, ← hr]
      refine ⟨by simp, ?_⟩
      intro x hx
      rcases List.mem_or_eq_of_mem_set hx with e | e
      · exact Or.inl e
      · exact Or.inr (Option.some.inj e)
    · cases hr
  · cases h

theorem setRow_fold_spec (idx val : Nat → Nat) : ∀ (is : List Nat) (row row' : List (Option Nat)),
    is.foldlM (fun row i => setRow row (idx i) (val i)) row = .ok row' →
    row'.length = row.length ∧ ∀ x, some x ∈ row' → some x ∈ row ∨ ∃ i ∈ is, x = val i := by
  intro is
  induction is with
  | nil =>
    intro row row' h
    simp only [List.foldlM_nil, pure, Except.pure, Except.ok.injEq] at h
    rw [← h]; exact ⟨rfl, fun x hx => Or.inl hx⟩
  | cons i is ih =>
    intro row row' h
    simp only [List.foldlM_cons, bind, Except.bind] at h
    cases h1 : setRow row (idx i) (val i) with
    | error e => simp [h1] at h
    | ok r1 =>
      simp only [h1] at h
      obtain ⟨l1, m1⟩ := setRow_spec row r1 _ _ h1
      obtain ⟨l2, m2⟩ := ih r1 row' h
      refine ⟨l2.trans l1, ?_⟩
      intro x hx
      rcases m2 x hx with e | ⟨j, hj, e⟩
      · rcases m1 x e with e' | e'
        · exact Or.inl e'
        · exact Or.inr ⟨i, List.mem_cons_self, e'⟩
      · exact Or.inr ⟨j, List.mem_cons_of_mem _ hj, e⟩

/-- replacing the pins of one port by as many pins, all on wires of the definition -/
theorem upd_port_pins (s : St) (dn : String) (d : Def) (k : Nat) (pins' : List (Option Nat)) (hs : TableWF s)
    (hd : Has s dn d) (hk : k < d.ports.length) (hlen : pins'.length = (d.ports.getD k default).pins.length)
    (hrow : RowOK d pins') :
    TableWF (s.upd dn (fun x => { x with ports := x.ports.set k { d.ports.getD k default with pins := pins' } })) := by
  refine upd_shape hs dn _ ?_ ?_
  · intro x hx hn
    have : x = d := hd.2.2 x hx hn
    subst this
    simp only [shape]
    congr 2
    rw [List.map_set]
    apply List.ext_getElem?
    intro j
    by_cases e : j = k
    · subst e
      rw [List.getElem?_set_self (by simpa using hk), List.getElem?_map, List.getElem?_eq_getElem hk, hlen]
      simp [List.getD, List.getElem?_eq_getElem hk]
    · rw [List.getElem?_set_ne (fun h => e h.symm)]
  · intro x hx hn
    have : x = d := hd.2.2 x hx hn
    subst this
    have hw := hs.defs x hx
    refine ⟨?_, hw.cables, hw.insts, ?_, hw.ipins⟩
    · show ((x.ports.set k ({ x.ports.getD k default with pins := pins' } : Port)).filterMap (·.name)).Nodup
      rw [filterMap_name_set x.ports k ({ x.ports.getD k default with pins := pins' } : Port) hk rfl]; exact hw.ports
    · intro p hp
      rcases List.mem_or_eq_of_mem_set hp with e | e
      · exact hw.ppins p e
      · rw [e]; exact hrow

theorem connectPortCable_wf (s s' : St) (dn name : String) (hs : TableWF s) (h : connectPortCable s dn name = .ok s') :
    TableWF s' := by
  unfold connectPortCable at h
  cases hg : getDef s dn with
  | error e => simp [hg, bind, Except.bind] at h
  | ok d =>
    have hd := find_has hs (getDef_find hg)
    simp only [hg, bind, Except.bind] at h
    split at h
    · rename_i k c hk hc
      split at h
      · cases h
      · rename_i hlen
        generalize hf : List.foldlM (m := Except String) _ _ (List.range c.wires.length) = X at h
        cases X with
        | error e => simp at h
        | ok pins =>
          simp only [pure, Except.pure, Except.ok.injEq] at h
          rw [← h]
          obtain ⟨l1, m1⟩ := setRow_fold_spec (fun i => i) (fun i => c.wires.getD i 0) _ _ _ hf
          have := upd_port_pins s dn d k pins hs hd (portIdx_lt hk) l1 (by
            intro w hw
            rcases m1 w hw with e | ⟨i, hi, e⟩
            · exact (hs.defs d hd.1).ppins _ (by simp [List.getD, List.getElem?_eq_getElem (portIdx_lt hk)]) w e
            · rw [mem_wiresOf]
              refine ⟨c, List.mem_of_find?_eq_some hc, ?_⟩
              have := List.mem_range.mp hi
              rw [e]; simp [List.getD, List.getElem?_eq_getElem this])
          exact this
    · cases h
end Spydr.Verilog.Elab
