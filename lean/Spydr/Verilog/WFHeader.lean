/-
  Verilog engine — StructWF, part 4: header ports, alias ports and the declared order of the ports.
-/
import Spydr.Verilog.WFEval
set_option maxHeartbeats 800000
namespace Spydr.Verilog.Elab
open Spydr.Verilog

/-! ### header ports -/

theorem headerPort_wf (s s' : St) (dn : String) (h : HPort) (hs : TableWF s) (hh : headerPort s dn h = .ok s') :
    TableWF s' := by
  unfold headerPort at hh
  simp only [bind, Except.bind] at hh
  cases h1 : createOrUpdatePort s dn h.name (rngL h.rng) (rngR h.rng) h.dir h.dir.isSome with
  | error e => simp [h1] at hh
  | ok s1 =>
    simp only [h1] at hh
    have w1 := createOrUpdatePort_wf s s1 dn h.name _ _ _ _ hs h1
    cases h2 : getDef s1 dn with
    | error e => simp [h2] at hh
    | ok d =>
      simp only [h2] at hh
      generalize hX : createOrUpdateCable s1 dn h.name _ _ none h.dir.isSome = X at hh
      cases X with
      | error e => simp at hh
      | ok s2 =>
        simp only at hh
        exact connectPortCable_wf s2 s' dn h.name (createOrUpdateCable_wf s1 s2 dn h.name _ _ _ _ w1 hX) hh

theorem wiresIn_map (s : St) (F : Def → Def) (hn : ∀ d, (F d).name = d.name) (hc : ∀ d, (F d).cables = d.cables)
    (n : String) : wiresIn ({ s with defs := s.defs.map F } : St) n = wiresIn s n := by
  unfold wiresIn St.find
  simp only [List.find?_map]
  have : ((fun (d : Def) => d.name == n) ∘ F) = fun d => d.name == n := by
    funext d; simp only [Function.comp, hn]
  rw [this]
  cases s.defs.find? (fun d => d.name == n) with
  | none => rfl
  | some d => simp only [Option.map_some, wiresOf, hc]

theorem createOrUpdatePort_grow (s s' : St) (dn name : String) (l r : Option Int) (dir : Option Dir) (df : Bool)
    (h : createOrUpdatePort s dn name l r dir df = .ok s') : Grow s s' := by
  unfold createOrUpdatePort at h
  cases hg : getDef s dn with
  | error e => simp [hg, bind, Except.bind] at h
  | ok d =>
    simp only [hg, bind, Except.bind] at h
    intro n w hw
    cases hk : portIdx d name with
    | none =>
      simp only [hk, pure, Except.pure, Except.ok.injEq] at h
      rw [← h, mapInstRows_upd s dn (fun ps => ps ++ [_])]
      unfold regrow
      rw [wiresIn_map s (regrowDef dn _ _) (fun _ => rfl) (fun _ => rfl)]; exact hw
    | some k =>
      simp only [hk, pure, Except.pure, Except.ok.injEq] at h
      rw [← h, mapInstRows_upd s dn (fun ps => ps.set k _)]
      unfold regrow
      rw [wiresIn_map s (regrowDef dn _ _) (fun _ => rfl) (fun _ => rfl)]; exact hw

theorem wiresIn_has {s : St} {dn : String} {d : Def} (hd : Has s dn d) : wiresIn s dn = wiresOf d := by
  unfold wiresIn; rw [hd.find]

theorem headerAlias_wf (s s' : St) (dn : String) (h : HPort) (e : XExpr) (hs : TableWF s)
    (hh : headerAlias s dn h e = .ok s') : TableWF s' := by
  unfold headerAlias at hh
  simp only [bind, Except.bind] at hh
  cases h1 : evalExprE s dn e with
  | error x => simp [h1] at hh
  | ok r1 =>
    obtain ⟨s1, ws⟩ := r1
    simp only [h1] at hh
    obtain ⟨w1, _, m1⟩ := evalExprE_wf s s1 dn e ws hs h1
    cases h2 : createOrUpdatePort s1 dn h.name (some ((ws.length : Int) - 1)) (some 0) none false with
    | error x => simp [h2] at hh
    | ok s2 =>
      simp only [h2] at hh
      have w2 := createOrUpdatePort_wf s1 s2 dn h.name _ _ _ _ w1 h2
      have g2 := createOrUpdatePort_grow s1 s2 dn h.name _ _ _ _ h2
      cases h3 : getDef s2 dn with
      | error x => simp [h3] at hh
      | ok d =>
        simp only [h3] at hh
        have hd := find_has w2 (getDef_find h3)
        split at hh
        · cases hh
        · rename_i k hk
          split at hh
          · cases hh
          · generalize hf : List.foldlM (m := Except String) _ _ (List.range ws.length) = X at hh
            cases X with
            | error x => simp at hh
            | ok pins =>
              simp only [pure, Except.pure, Except.ok.injEq] at hh
              rw [← hh]
              obtain ⟨l1, mm⟩ := setRow_fold_spec (fun i => ws.length - 1 - i) (fun i => ws.getD i 0) _ _ _ hf
              refine upd_port_pins s2 dn d k pins w2 hd (portIdx_lt hk) l1 ?_
              intro w hw
              rcases mm w hw with e1 | ⟨i, hi, e1⟩
              · exact (w2.defs d hd.1).ppins _ (by simp [List.getD, List.getElem?_eq_getElem (portIdx_lt hk)]) w e1
              · rw [← wiresIn_has hd]
                apply g2 dn w
                apply m1
                have := List.mem_range.mp hi
                rw [e1]; simp [List.getD, List.getElem?_eq_getElem this]

/-! ### the declared order of the ports -/

theorem nodup_filterMap_inj {α β : Type} (h : α → Option β) : ∀ (l : List α), l.Nodup →
    (∀ a ∈ l, ∀ b ∈ l, ∀ x, h a = some x → h b = some x → a = b) → (l.filterMap h).Nodup := by
  intro l
  induction l with
  | nil => intro _ _; simp
  | cons a l ih =>
    intro hn hinj
    rw [List.nodup_cons] at hn
    simp only [List.filterMap_cons]
    cases ha : h a with
    | none => exact ih hn.2 (fun x hx y hy => hinj x (List.mem_cons_of_mem _ hx) y (List.mem_cons_of_mem _ hy))
    | some v =>
      simp only
      rw [List.nodup_cons]
      refine ⟨?_, ih hn.2 (fun x hx y hy => hinj x (List.mem_cons_of_mem _ hx) y (List.mem_cons_of_mem _ hy))⟩
      intro hm
      obtain ⟨b, hb, e⟩ := List.mem_filterMap.mp hm
      have := hinj a List.mem_cons_self b (List.mem_cons_of_mem _ hb) v ha e
      exact hn.1 (this ▸ hb)

theorem named_inj (ps : List Port) (h : (ps.filterMap (·.name)).Nodup) (i j : Nat) (hi : i < ps.length) (hj : j < ps.length)
    (x : String) (h1 : ps[i].name = some x) (h2 : ps[j].name = some x) : i = j := by
  induction ps generalizing i j with
  | nil => simp at hi
  | cons p ps ih =>
    simp only [List.filterMap_cons] at h
    cases i with
    | zero =>
      cases j with
      | zero => rfl
      | succ j =>
        exfalso
        simp only [List.getElem_cons_zero] at h1
        simp only [List.getElem_cons_succ] at h2
        rw [h1] at h
        simp only at h
        rw [List.nodup_cons] at h
        exact h.1 (List.mem_filterMap.mpr ⟨ps[j]'(by simpa using hj), List.getElem_mem _, h2⟩)
    | succ i =>
      cases j with
      | zero =>
        exfalso
        simp only [List.getElem_cons_zero] at h2
        simp only [List.getElem_cons_succ] at h1
        rw [h2] at h
        simp only at h
        rw [List.nodup_cons] at h
        exact h.1 (List.mem_filterMap.mpr ⟨ps[i]'(by simpa using hi), List.getElem_mem _, h1⟩)
      | succ j =>
        simp only [List.getElem_cons_succ] at h1 h2
        have hps : (ps.filterMap (·.name)).Nodup := by
          cases hp : p.name with
          | none => simpa [hp] using h
          | some v => rw [hp] at h; simp only at h; exact (List.nodup_cons.mp h).2
        have := ih hps i j (by simpa using hi) (by simpa using hj) h1 h2
        omega

theorem eraseDups_len_le : ∀ (l : List String), l.eraseDups.length ≤ l.length
  | [] => by simp
  | a :: as => by
    rw [List.eraseDups_cons]
    have h1 : (as.filter fun b => !b == a).length ≤ as.length := List.length_filter_le _ as
    have := eraseDups_len_le (as.filter fun b => !b == a)
    simp only [List.length_cons]; omega
termination_by l => l.length
decreasing_by
  simp only [List.length_cons]
  have : (as.filter fun b => !b == a).length ≤ as.length := List.length_filter_le _ as
  omega

theorem nodup_of_eraseDups_len : ∀ (l : List String), l.eraseDups.length = l.length → l.Nodup
  | [] => by simp
  | a :: as => by
    intro h
    rw [List.eraseDups_cons] at h
    have h1 : (as.filter fun b => !b == a).length ≤ as.length := List.length_filter_le _ as
    have h2 := eraseDups_len_le (as.filter fun b => !b == a)
    simp only [List.length_cons] at h
    have hfl : (as.filter fun b => !b == a).length = as.length := by omega
    have hfe : as.filter (fun b => !b == a) = as := List.filter_eq_self.mpr (by
      have := List.length_filter_eq_length_iff.mp hfl
      exact this)
    rw [hfe] at h
    have ih := nodup_of_eraseDups_len as (by omega)
    rw [List.nodup_cons]
    refine ⟨?_, ih⟩
    intro hm
    have := List.filter_eq_self.mp hfe a hm
    simp at this
termination_by l => l.length

theorem default_port_pins : (default : Port).pins = [] := rfl

theorem reorderPorts_wf (s s' : St) (dn : String) (names : List String) (hs : TableWF s)
    (h : reorderPorts s dn names = .ok s') : TableWF s' := by
  unfold reorderPorts at h
  cases hg : getDef s dn with
  | error e => simp [hg, bind, Except.bind] at h
  | ok d =>
    have hd := find_has hs (getDef_find hg)
    simp only [hg, bind, Except.bind] at h
    split at h
    · simp only [pure, Except.pure, Except.ok.injEq] at h; rw [← h]; exact hs
    · rename_i hcond
      split at h
      · simp only [pure, Except.pure, Except.ok.injEq] at h; rw [← h]; exact hs
      · simp only [pure, Except.pure, Except.ok.injEq] at h
        generalize hperm : (names.filterMap (portIdx d) ++
          (List.range d.ports.length).filter (fun i => !((names.filterMap (portIdx d)).contains i))) = perm at h
        have hstate : s' = regrow s dn (fun ps => perm.map (fun i => ps.getD i default))
            (fun pins => perm.map (fun j => (pins ++ List.replicate (d.ports.length - pins.length) []).getD j [])) := by
          rw [← h]
          unfold regrow St.upd
          simp only [List.map_map]
          congr 1
          apply List.map_congr_left
          intro x hx
          simp only [Function.comp, regrowDef]
          by_cases e : x.name = dn
          · have : x = d := hd.2.2 x hx e
            subst this
            simp [e]
          · simp [e]
        rw [hstate]
        -- facts about the permutation
        have hnd : (names.eraseDups.length != names.length) = false := by
          simp only [Bool.or_eq_true, decide_eq_true_eq, not_or, Bool.not_eq_true] at hcond; exact hcond.2
        have hidx_lt : ∀ j ∈ perm, j < d.ports.length := by
          intro j hj
          rw [← hperm] at hj
          rcases List.mem_append.mp hj with e | e
          · obtain ⟨nm, _, hk⟩ := List.mem_filterMap.mp e
            exact portIdx_lt hk
          · exact List.mem_range.mp (List.mem_filter.mp e).1
        apply regrow_wf s dn d _ _ hs hd
        · intro pins hp
          simp only [List.map_map]
          apply List.map_congr_left
          intro j _
          simp only [Function.comp]
          have hlen : pins.length = d.ports.length := by
            have := congrArg List.length hp; simpa using this
          have : d.ports.length - pins.length = 0 := by omega
          rw [this]
          simp only [List.replicate_zero, List.append_nil]
          by_cases hj : j < d.ports.length
          · have := congrArg (fun l => l[j]?) hp
            simp only [List.getElem?_map, List.getElem?_eq_getElem (show j < pins.length by omega),
              List.getElem?_eq_getElem hj, Option.map_some, Option.some.injEq] at this
            simp [List.getD, List.getElem?_eq_getElem (show j < pins.length by omega), List.getElem?_eq_getElem hj, this]
          · simp [List.getD, List.getElem?_eq_none (show pins.length ≤ j by omega),
              List.getElem?_eq_none (show d.ports.length ≤ j by omega), default_port_pins]
        · intro pins row' hr w hw
          obtain ⟨j, _, e⟩ := List.mem_map.mp hr
          rw [← e] at hw
          rw [List.getD_eq_getElem?_getD] at hw
          cases hx : (pins ++ List.replicate (d.ports.length - pins.length) [])[j]? with
          | none => rw [hx] at hw; cases hw
          | some row =>
            rw [hx] at hw
            simp only [Option.getD_some] at hw
            have hm := List.mem_of_getElem? hx
            rcases List.mem_append.mp hm with e1 | e1
            · exact ⟨row, e1, hw⟩
            · rw [List.eq_of_mem_replicate e1] at hw; cases hw
        · rw [List.filterMap_map]
          apply nodup_filterMap_inj
          · -- the permutation has no repetition
            rw [← hperm, List.nodup_append]
            refine ⟨?_, List.Nodup.sublist List.filter_sublist List.nodup_range, ?_⟩
            · -- distinct names, distinct positions
              have hnn : names.Nodup := nodup_of_eraseDups_len names (by simpa using hnd)
              apply nodup_filterMap_inj _ names hnn
              intro a _ b _ k ha hb
              unfold portIdx at ha hb
              rw [List.findIdx?_eq_some_iff_getElem] at ha hb
              obtain ⟨h1, p1, _⟩ := ha
              obtain ⟨_, p2, _⟩ := hb
              have e1 : d.ports[k].name = some a := by simpa using p1
              have e2 : d.ports[k].name = some b := by simpa using p2
              rw [e1] at e2; exact Option.some.inj e2
            · intro a ha b hb e
              have := (List.mem_filter.mp hb).2
              rw [← e] at this
              have hc : (List.filterMap (portIdx d) names).contains a = true := List.contains_iff_mem.mpr ha
              rw [hc] at this
              cases this
          · intro a ha b hb x h1 h2
            have hal := hidx_lt a ha
            have hbl := hidx_lt b hb
            simp only [Function.comp, List.getD, List.getElem?_eq_getElem hal, List.getElem?_eq_getElem hbl,
              Option.getD_some] at h1 h2
            exact named_inj d.ports (hs.defs d hd.1).ports a b hal hbl x h1 h2
        · intro p hp w hw
          obtain ⟨j, hj, e⟩ := List.mem_map.mp hp
          have hjl := hidx_lt j hj
          rw [← e] at hw
          exact ⟨d.ports[j], List.getElem_mem hjl, by simpa [List.getD, List.getElem?_eq_getElem hjl] using hw⟩
end Spydr.Verilog.Elab
