/-
  Verilog engine — StructWF, part 6: new definitions, new instances, named connections, `instantiate`.
-/
import Spydr.Verilog.WFDecl
set_option maxHeartbeats 800000
namespace Spydr.Verilog.Elab
open Spydr.Verilog

/-! ### new definitions and new instances -/

theorem ensure_wf (s : St) (n : String) (hs : TableWF s) : TableWF (s.ensure n) := by
  unfold St.ensure
  cases hf : s.find n with
  | some d => exact hs
  | none =>
    simp only
    have hnot : ∀ d ∈ s.defs, d.name ≠ n := by
      intro d hd e
      unfold St.find at hf
      have := List.find?_eq_none.mp hf d hd
      simp [e] at this
    refine ⟨?_, ⟨?_, ?_, ?_⟩, ?_⟩
    · intro d hd
      rcases List.mem_append.mp hd with e | e
      · exact hs.defs d e
      · simp only [List.mem_singleton] at e
        rw [e]
        exact ⟨(by simp), (by simp), (by simp), (fun p hp => by cases hp), (fun i hi => by cases hi)⟩
    · simp only [List.map_append, List.map_cons, List.map_nil]
      rw [List.nodup_append]
      refine ⟨hs.glob.names, by simp, ?_⟩
      intro a ha b hb
      simp only [List.mem_singleton] at hb
      obtain ⟨sh, hsh, e⟩ := List.mem_map.mp ha
      obtain ⟨d, hd, e2⟩ := List.mem_map.mp hsh
      rw [hb, ← e, ← e2]
      exact hnot d hd
    · intro sh hsh ir hir
      simp only [List.map_append, List.mem_append] at hsh
      rcases hsh with e | e
      · obtain ⟨sh', h1, h2⟩ := hs.glob.closed sh e ir hir
        exact ⟨sh', by simp only [List.map_append, List.mem_append]; exact Or.inl h1, h2⟩
      · simp only [List.map_cons, List.map_nil, List.mem_singleton] at e
        rw [e] at hir; simp [shape] at hir
    · intro sh hsh ir hir sh' hsh' hn
      simp only [List.map_append, List.mem_append] at hsh hsh'
      rcases hsh with e | e
      · rcases hsh' with e' | e'
        · exact hs.glob.mirror sh e ir hir sh' e' hn
        · -- nobody refers to the new name
          exfalso
          simp only [List.map_cons, List.map_nil, List.mem_singleton] at e'
          obtain ⟨sh2, h1, h2⟩ := hs.glob.closed sh e ir hir
          obtain ⟨d, hd, e2⟩ := List.mem_map.mp h1
          rw [e'] at hn
          simp only [shape] at hn
          rw [← e2] at h2
          simp only [shape] at h2
          exact hnot d hd (h2.trans hn.symm)
      · simp only [List.map_cons, List.map_nil, List.mem_singleton] at e
        rw [e] at hir; simp [shape] at hir
    · intro t ht
      obtain ⟨d, hd, e⟩ := hs.top t ht
      exact ⟨d, List.mem_append_left _ hd, e⟩

/-- a new instance of a module of the table, with one row per port of that module, as wide as the port -/
theorem add_inst_wf (s : St) (dn : String) (d rd : Def) (i : Inst) (hs : TableWF s) (hd : Has s dn d)
    (hrd : Has s i.ref rd) (hlen : i.pins.map List.length = rd.ports.map (fun p => p.pins.length))
    (hname : instIdx d i.name = none) (hrows : ∀ row ∈ i.pins, RowOK d row) :
    TableWF (s.upd dn (fun x => { x with insts := x.insts ++ [i] })) := by
  have hdefs : (s.upd dn (fun x => { x with insts := x.insts ++ [i] })).defs =
      s.defs.map (fun x => if x.name == dn then { x with insts := x.insts ++ [i] } else x) := rfl
  have hmem : ∀ x' ∈ (s.upd dn (fun x => { x with insts := x.insts ++ [i] })).defs, ∃ x ∈ s.defs,
      x' = (if x.name == dn then { x with insts := x.insts ++ [i] } else x) := by
    intro x' hx'
    rw [hdefs] at hx'
    obtain ⟨x, hx, e⟩ := List.mem_map.mp hx'
    exact ⟨x, hx, e.symm⟩
  have hshape_ports : ∀ x : Def, (shape (if x.name == dn then { x with insts := x.insts ++ [i] } else x)).2.1 = (shape x).2.1 := by
    intro x; split <;> rfl
  have hshape_name : ∀ x : Def, (shape (if x.name == dn then { x with insts := x.insts ++ [i] } else x)).1 = (shape x).1 := by
    intro x; split <;> rfl
  refine ⟨?_, ⟨?_, ?_, ?_⟩, ?_⟩
  · intro x' hx'
    obtain ⟨x, hx, e⟩ := hmem x' hx'
    by_cases en : x.name = dn
    · have : x = d := hd.2.2 x hx en
      subst this
      simp only [en, beq_self_eq_true, if_true] at e
      rw [e]
      have hw := hs.defs x hx
      refine ⟨hw.ports, hw.cables, ?_, hw.ppins, ?_⟩
      · simp only [List.map_append, List.map_cons, List.map_nil]
        rw [List.nodup_append]
        refine ⟨hw.insts, by simp, ?_⟩
        intro a ha b hb
        simp only [List.mem_singleton] at hb
        obtain ⟨j, hj, ej⟩ := List.mem_map.mp ha
        unfold instIdx at hname
        rw [List.findIdx?_eq_none_iff] at hname
        have := hname j hj
        rw [hb, ← ej]; simpa using this
      · intro j hj row hr
        rcases List.mem_append.mp hj with e1 | e1
        · exact hw.ipins j e1 row hr
        · simp only [List.mem_singleton] at e1
          rw [e1] at hr; exact hrows row hr
    · simp only [show (x.name == dn) = false by simp [en], Bool.false_eq_true, if_false] at e
      rw [e]; exact hs.defs x hx
  · rw [hdefs]
    simp only [List.map_map]
    have : s.defs.map ((fun (sh : Shape) => sh.1) ∘ shape ∘ fun x => if x.name == dn then { x with insts := x.insts ++ [i] } else x) =
        (s.defs.map shape).map (·.1) := by
      rw [List.map_map]
      apply List.map_congr_left
      intro x _
      simp only [Function.comp]
      exact hshape_name x
    rw [this]; exact hs.glob.names
  · -- closed
    intro sh hsh ir hir
    obtain ⟨x', hx', e⟩ := List.mem_map.mp hsh
    obtain ⟨x, hx, e2⟩ := hmem x' hx'
    have target : ∀ y ∈ s.defs, ∃ sh' ∈ (s.upd dn (fun x => { x with insts := x.insts ++ [i] })).defs.map shape, sh'.1 = y.name := by
      intro y hy
      refine ⟨shape (if y.name == dn then { y with insts := y.insts ++ [i] } else y), ?_, hshape_name y⟩
      rw [hdefs]; exact List.mem_map_of_mem (List.mem_map_of_mem hy)
    rw [← e, e2] at hir
    by_cases en : x.name = dn
    · simp only [en, beq_self_eq_true, if_true, shape, List.map_append, List.map_cons, List.map_nil] at hir
      rcases List.mem_append.mp hir with e1 | e1
      · obtain ⟨sh0, h1, h2⟩ := hs.glob.closed (shape x) (List.mem_map_of_mem hx) ir e1
        obtain ⟨y, hy, ey⟩ := List.mem_map.mp h1
        obtain ⟨sh', h3, h4⟩ := target y hy
        exact ⟨sh', h3, by rw [h4, ← h2, ← ey]; rfl⟩
      · simp only [List.mem_singleton] at e1
        obtain ⟨sh', h3, h4⟩ := target rd hrd.1
        exact ⟨sh', h3, by rw [h4, e1]; exact hrd.2.1⟩
    · simp only [show (x.name == dn) = false by simp [en], Bool.false_eq_true, if_false] at hir
      obtain ⟨sh0, h1, h2⟩ := hs.glob.closed (shape x) (List.mem_map_of_mem hx) ir hir
      obtain ⟨y, hy, ey⟩ := List.mem_map.mp h1
      obtain ⟨sh', h3, h4⟩ := target y hy
      exact ⟨sh', h3, by rw [h4, ← h2, ← ey]; rfl⟩
  · -- mirror
    intro sh hsh ir hir sh' hsh' hn
    obtain ⟨x', hx', e⟩ := List.mem_map.mp hsh
    obtain ⟨x, hx, e2⟩ := hmem x' hx'
    obtain ⟨y', hy', e3⟩ := List.mem_map.mp hsh'
    obtain ⟨y, hy, e4⟩ := hmem y' hy'
    rw [← e3, e4, hshape_ports y]
    rw [← e3, e4, hshape_name y] at hn
    rw [← e, e2] at hir
    by_cases en : x.name = dn
    · simp only [en, beq_self_eq_true, if_true, shape, List.map_append, List.map_cons, List.map_nil] at hir
      rcases List.mem_append.mp hir with e1 | e1
      · exact hs.glob.mirror (shape x) (List.mem_map_of_mem hx) ir e1 (shape y) (List.mem_map_of_mem hy) hn
      · simp only [List.mem_singleton] at e1
        rw [e1] at hn ⊢
        simp only [shape] at hn ⊢
        have : y = rd := hrd.2.2 y hy hn
        rw [this]; exact hlen
    · simp only [show (x.name == dn) = false by simp [en], Bool.false_eq_true, if_false] at hir
      exact hs.glob.mirror (shape x) (List.mem_map_of_mem hx) ir hir (shape y) (List.mem_map_of_mem hy) hn
  · intro t ht
    obtain ⟨x, hx, e⟩ := hs.top t ht
    refine ⟨if x.name == dn then { x with insts := x.insts ++ [i] } else x, ?_, ?_⟩
    · rw [hdefs]; exact List.mem_map_of_mem hx
    · split <;> exact e

theorem namedConn_wf (s s' : St) (dn iname ref pname : String) (e : XExpr) (hs : TableWF s)
    (h : namedConn s dn iname ref pname e = .ok s') : TableWF s' := by
  cases e with
  | empty => exact createOrUpdatePort_wf s s' ref pname _ _ _ _ hs h
  | atom a =>
    simp only [namedConn, bind, Except.bind] at h
    cases h1 : evalExprE s dn (.atom a) with
    | error x => simp [h1] at h
    | ok r1 =>
      obtain ⟨s1, ws⟩ := r1
      simp only [h1] at h
      obtain ⟨w1, _, m1⟩ := evalExprE_wf s s1 dn _ ws hs h1
      cases h2 : createOrUpdatePort s1 ref pname (some ((ws.length : Int) - 1)) (some 0) none false with
      | error x => simp [h2] at h
      | ok s2 =>
        simp only [h2] at h
        have w2 := createOrUpdatePort_wf s1 s2 ref pname _ _ _ _ w1 h2
        have g2 := createOrUpdatePort_grow s1 s2 ref pname _ _ _ _ h2
        cases h3 : getDef s2 ref with
        | error x => simp [h3] at h
        | ok rd =>
          simp only [h3] at h
          split at h
          · cases h
          · exact (connectInstRow_wf s2 s' dn iname _ ws w2 (fun w hw => g2 dn w (m1 w hw)) h).1
  | cat as =>
    simp only [namedConn, bind, Except.bind] at h
    cases h1 : evalExprE s dn (.cat as) with
    | error x => simp [h1] at h
    | ok r1 =>
      obtain ⟨s1, ws⟩ := r1
      simp only [h1] at h
      obtain ⟨w1, _, m1⟩ := evalExprE_wf s s1 dn _ ws hs h1
      cases h2 : createOrUpdatePort s1 ref pname (some ((ws.length : Int) - 1)) (some 0) none false with
      | error x => simp [h2] at h
      | ok s2 =>
        simp only [h2] at h
        have w2 := createOrUpdatePort_wf s1 s2 ref pname _ _ _ _ w1 h2
        have g2 := createOrUpdatePort_grow s1 s2 ref pname _ _ _ _ h2
        cases h3 : getDef s2 ref with
        | error x => simp [h3] at h
        | ok rd =>
          simp only [h3] at h
          split at h
          · cases h
          · exact (connectInstRow_wf s2 s' dn iname _ ws w2 (fun w hw => g2 dn w (m1 w hw)) h).1

theorem upd_inst_params (s : St) (dn name : String) (g : Params → Params) (hs : TableWF s) :
    TableWF (s.upd dn (fun d => { d with insts := d.insts.map (fun i =>
      if i.name == name then { i with params := g i.params } else i) })) := by
  refine upd_shape hs dn _ ?_ ?_
  · intro x _ _
    simp only [shape, List.map_map]
    congr 2
    apply List.map_congr_left
    intro i _
    simp only [Function.comp]
    split <;> rfl
  · intro x hx _
    have hw := hs.defs x hx
    refine ⟨hw.ports, hw.cables, ?_, hw.ppins, ?_⟩
    · show ((x.insts.map (fun i => if i.name == name then ({ i with params := g i.params } : Inst) else i)).map (·.name)).Nodup
      rw [List.map_map]
      have : ((fun (i : Inst) => i.name) ∘ fun i => if i.name == name then ({ i with params := g i.params } : Inst) else i) =
          fun i => i.name := by
        funext i; simp only [Function.comp]; split <;> rfl
      rw [this]; exact hw.insts
    · intro i' hi' row hr
      obtain ⟨i, hi, e⟩ := List.mem_map.mp hi'
      have : i'.pins = i.pins := by rw [← e]; split <;> rfl
      rw [this] at hr; exact hw.ipins i hi row hr

theorem climb_in (s : St) : ∀ (f : Nat) (n : String), climb s f n = n ∨ ∃ d ∈ s.defs, d.name = climb s f n := by
  intro f
  induction f with
  | zero => intro n; exact Or.inl rfl
  | succ f ih =>
    intro n
    unfold climb
    cases hp : parentsOf s n with
    | nil => exact Or.inl rfl
    | cons p ps =>
      simp only
      have hpm : p ∈ parentsOf s n := by rw [hp]; exact List.mem_cons_self
      unfold parentsOf at hpm
      obtain ⟨d, hd, e⟩ := List.mem_map.mp hpm
      rcases ih p with h | h
      · right; exact ⟨d, (List.mem_filter.mp hd).1, by rw [h]; exact e⟩
      · right; exact h

theorem TableWF.set_top {s : St} (h : TableWF s) (t : String) (ht : ∃ d ∈ s.defs, d.name = t) :
    TableWF { s with top := some t } :=
  ⟨h.defs, h.glob, fun t' e => by simp only [Option.some.injEq] at e; rw [← e]; exact ht⟩

theorem TableWF.set_pending {s : St} (h : TableWF s) (p : List (String × String × List XExpr)) :
    TableWF { s with pending := p } := ⟨h.defs, h.glob, h.top⟩

theorem ensure_top (s : St) (mod : String) (t : Option String) :
    ({ s with top := t } : St).ensure mod = { s.ensure mod with top := t } := by
  unfold St.ensure St.find
  simp only
  cases s.defs.find? (fun d => d.name == mod) <;> rfl

theorem instantiate_wf (s s' : St) (dn mod name : String) (params : Params) (attrs : Attrs) (named : Bool)
    (conns : List (Option String × XExpr)) (hs : TableWF s)
    (h : instantiate s dn mod name params attrs named conns = .ok s') : TableWF s' := by
  unfold instantiate at h
  simp only [bind, Except.bind] at h
  -- the state after the top has been re-elected and the module looked up
  generalize hs1 : (if (s.top == some mod) = true then ({ s with top := some (climb s (s.defs.length + 1) dn) } : St) else s).ensure mod = s1 at h
  cases h1 : getDef s1 mod with
  | error e => simp [h1] at h
  | ok rd =>
    simp only [h1] at h
    cases h2 : getDef s1 dn with
    | error e => simp [h2] at h
    | ok d =>
      simp only [h2] at h
      have w1 : TableWF s1 := by
        rw [← hs1]
        split
        · rw [ensure_top]
          apply (ensure_wf s mod hs).set_top
          -- the new top is `dn` (which is in the table, as its lookup succeeds) or a definition of the old table
          have hdn : ∃ x ∈ (s.ensure mod).defs, x.name = dn := by
            have hf := getDef_find h2
            rw [← hs1] at hf
            rename_i hc
            simp only [hc, if_true, ensure_top] at hf
            unfold St.find at hf
            exact ⟨d, List.mem_of_find?_eq_some hf, by simpa using List.find?_some hf⟩
          rcases climb_in s (s.defs.length + 1) dn with e | ⟨x, hx, e⟩
          · rw [e]; exact hdn
          · refine ⟨x, ?_, e⟩
            unfold St.ensure
            cases s.find mod with
            | some _ => exact hx
            | none => exact List.mem_append_left _ hx
        · exact ensure_wf s mod hs
      have hd := find_has w1 (getDef_find h2)
      have hrd := find_has w1 (getDef_find h1)
      split at h
      · cases h
      · rename_i hfresh
        have hfresh' : instIdx d name = none := by
          cases hx : instIdx d name with
          | none => rfl
          | some v => rw [hx] at hfresh; simp at hfresh
        generalize hi : (⟨name, mod, [], some attrs, rd.ports.map (fun p => List.replicate p.pins.length (none : Option Nat))⟩ : Inst) = i at h
        have w2 : TableWF (s1.upd dn (fun d => { d with insts := d.insts ++ [i] })) := by
          apply add_inst_wf s1 dn d rd i w1 hd
          · rw [← hi]; exact hrd
          · rw [← hi]; simp [List.map_map, Function.comp_def]
          · rw [← hi]; exact hfresh'
          · rw [← hi]
            intro row hr w hw
            obtain ⟨p, _, e⟩ := List.mem_map.mp hr
            rw [← e] at hw
            have := List.eq_of_mem_replicate hw; cases this
        cases named with
        | true =>
          simp only [if_true] at h
          generalize hX : List.foldlM (m := Except String) _ (s1.upd dn (fun d => { d with insts := d.insts ++ [i] })) conns = X at h
          cases X with
          | error e => simp at h
          | ok s3 =>
            simp only [pure, Except.pure, Except.ok.injEq] at h
            rw [← h]
            refine upd_inst_params s3 dn name (fun ps => params.foldl (fun acc kv =>
              if acc.any (fun x => x.1 == kv.1) then acc else acc ++ [kv]) ps) ?_
            refine foldlM_wf _ ?_ conns _ s3 w2 hX
            intro S c S' hS hc
            split at hc
            · exact namedConn_wf S S' dn name mod _ c.2 hS hc
            · cases hc
        | false =>
          simp only [Bool.false_eq_true, if_false, pure, Except.pure, Except.ok.injEq] at h
          rw [← h]
          exact upd_inst_params _ dn name (fun ps => params.foldl (fun acc kv =>
            if acc.any (fun x => x.1 == kv.1) then acc else acc ++ [kv]) ps) (w2.set_pending _)
end Spydr.Verilog.Elab
