/-
  Verilog engine — StructWF, part 2: ports and the pin rows of the instances change together (`regrow_wf`);
  `create_or_update_port` keeps the table well-formed.
-/
import Spydr.Verilog.WFBase
import Spydr.Verilog.RoundTripConn
set_option maxHeartbeats 800000
namespace Spydr.Verilog.Elab
open Spydr.Verilog

/-! ### changing the ports of a definition together with the pin rows of all its instances -/

def regrowDef (dn : String) (fp : List Port → List Port) (fr : List (List (Option Nat)) → List (List (Option Nat)))
    (x : Def) : Def :=
  { x with ports := if x.name == dn then fp x.ports else x.ports,
           insts := x.insts.map (fun i => if i.ref == dn then { i with pins := fr i.pins } else i) }

def regrow (s : St) (dn : String) (fp : List Port → List Port) (fr : List (List (Option Nat)) → List (List (Option Nat))) : St :=
  { s with defs := s.defs.map (regrowDef dn fp fr) }

theorem regrow_wf (s : St) (dn : String) (d : Def) (fp : List Port → List Port)
    (fr : List (List (Option Nat)) → List (List (Option Nat))) (hs : TableWF s) (hd : Has s dn d)
    (hlen : ∀ pins : List (List (Option Nat)), pins.map List.length = d.ports.map (fun p => p.pins.length) →
      (fr pins).map List.length = (fp d.ports).map (fun p => p.pins.length))
    (hrow : ∀ pins row', row' ∈ fr pins → ∀ w, some w ∈ row' → ∃ row ∈ pins, some w ∈ row)
    (hnames : ((fp d.ports).filterMap (·.name)).Nodup)
    (hpp : ∀ p ∈ fp d.ports, ∀ w, some w ∈ p.pins → ∃ p0 ∈ d.ports, some w ∈ p0.pins) :
    TableWF (regrow s dn fp fr) := by
  have hname : ∀ x, (regrowDef dn fp fr x).name = x.name := fun _ => rfl
  have hcab : ∀ x, (regrowDef dn fp fr x).cables = x.cables := fun _ => rfl
  have hwires : ∀ x, wiresOf (regrowDef dn fp fr x) = wiresOf x := fun _ => rfl
  refine ⟨?_, ⟨?_, ?_, ?_⟩, ?_⟩
  · -- every definition
    intro x' hx'
    obtain ⟨x, hx, e⟩ := List.mem_map.mp hx'
    subst e
    have hw := hs.defs x hx
    refine ⟨?_, hw.cables, ?_, ?_, ?_⟩
    · show ((if x.name == dn then fp x.ports else x.ports).filterMap (·.name)).Nodup
      by_cases en : x.name = dn
      · have : x = d := hd.2.2 x hx en
        subst this
        simp only [en, beq_self_eq_true, if_true]; exact hnames
      · simp only [show (x.name == dn) = false by simp [en], Bool.false_eq_true, if_false]; exact hw.ports
    · show ((x.insts.map (fun i => if i.ref == dn then ({ i with pins := fr i.pins } : Inst) else i)).map (fun (i : Inst) => i.name)).Nodup
      rw [List.map_map]
      have : x.insts.map ((fun (i : Inst) => i.name) ∘ fun i => if i.ref == dn then { i with pins := fr i.pins } else i) =
          x.insts.map (·.name) := by
        apply List.map_congr_left
        intro i _
        simp only [Function.comp]
        split <;> rfl
      rw [this]; exact hw.insts
    · intro p hp w hwp
      rw [hwires]
      have hp' : p ∈ (if x.name == dn then fp x.ports else x.ports) := hp
      by_cases en : x.name = dn
      · have : x = d := hd.2.2 x hx en
        subst this
        simp only [en, beq_self_eq_true, if_true] at hp'
        obtain ⟨p0, hp0, hw0⟩ := hpp p hp' w hwp
        exact hw.ppins p0 hp0 w hw0
      · simp only [show (x.name == dn) = false by simp [en], Bool.false_eq_true, if_false] at hp'
        exact hw.ppins p hp' w hwp
    · intro i' hi' row' hr' w hwr
      rw [hwires]
      have hi'' : i' ∈ x.insts.map (fun i => if i.ref == dn then { i with pins := fr i.pins } else i) := hi'
      obtain ⟨i, hi, e⟩ := List.mem_map.mp hi''
      by_cases er : i.ref = dn
      · simp only [er, beq_self_eq_true, if_true] at e
        rw [← e] at hr'
        obtain ⟨row, hrow', hw0⟩ := hrow i.pins row' hr' w hwr
        exact hw.ipins i hi row hrow' w hw0
      · simp only [show (i.ref == dn) = false by simp [er], Bool.false_eq_true, if_false] at e
        rw [← e] at hr'
        exact hw.ipins i hi row' hr' w hwr
  · -- names
    show (((s.defs.map (regrowDef dn fp fr)).map shape).map (·.1)).Nodup
    have : ((s.defs.map (regrowDef dn fp fr)).map shape).map (·.1) = (s.defs.map shape).map (·.1) := by
      simp only [List.map_map]
      apply List.map_congr_left
      intro x _; rfl
    rw [this]; exact hs.glob.names
  · -- closed
    intro sh hsh ir hir
    have hsh' : sh ∈ (s.defs.map (regrowDef dn fp fr)).map shape := hsh
    obtain ⟨x', hx', e⟩ := List.mem_map.mp hsh'
    obtain ⟨x, hx, e2⟩ := List.mem_map.mp hx'
    subst e2; subst e
    simp only [shape, regrowDef, List.map_map] at hir
    obtain ⟨i, hi, ei⟩ := List.mem_map.mp hir
    have href : ir.1 = i.ref := by
      rw [← ei]; simp only [Function.comp]; split <;> rfl
    obtain ⟨sh0, hsh0, e0⟩ := hs.glob.closed (shape x) (List.mem_map_of_mem hx) (i.ref, i.pins.map List.length)
      (List.mem_map_of_mem hi)
    obtain ⟨y, hy, ey⟩ := List.mem_map.mp hsh0
    refine ⟨shape (regrowDef dn fp fr y), List.mem_map_of_mem (List.mem_map_of_mem hy), ?_⟩
    rw [href]
    show y.name = i.ref
    rw [← ey] at e0; exact e0
  · -- mirror
    intro sh hsh ir hir sh' hsh' hn
    have hsh1 : sh ∈ (s.defs.map (regrowDef dn fp fr)).map shape := hsh
    obtain ⟨x', hx', e⟩ := List.mem_map.mp hsh1
    obtain ⟨x, hx, e2⟩ := List.mem_map.mp hx'
    subst e2; subst e
    have hsh2 : sh' ∈ (s.defs.map (regrowDef dn fp fr)).map shape := hsh'
    obtain ⟨y', hy', e⟩ := List.mem_map.mp hsh2
    obtain ⟨y, hy, e2⟩ := List.mem_map.mp hy'
    subst e2; subst e
    simp only [shape, regrowDef, List.map_map] at hir
    obtain ⟨i, hi, ei⟩ := List.mem_map.mp hir
    have hold := hs.glob.mirror (shape x) (List.mem_map_of_mem hx) (i.ref, i.pins.map List.length)
      (List.mem_map_of_mem hi) (shape y) (List.mem_map_of_mem hy)
    simp only [shape] at hold hn ⊢
    by_cases er : i.ref = dn
    · simp only [Function.comp, er, beq_self_eq_true, if_true] at ei
      rw [← ei] at hn ⊢
      simp only at hn
      have hyd : y = d := hd.2.2 y hy hn
      subst hyd
      have hyn : (y.name == dn) = true := by
        have : y.name = dn := hn
        simp [this]
      simp only [regrowDef, hyn, if_true]
      exact hlen i.pins (hold (by rw [er]; exact hn))
    · simp only [Function.comp, show (i.ref == dn) = false by simp [er], Bool.false_eq_true, if_false] at ei
      rw [← ei] at hn ⊢
      simp only at hn
      have hyn : y.name ≠ dn := fun e => er (hn ▸ e)
      simp only [regrowDef, show (y.name == dn) = false by simp [hyn], Bool.false_eq_true, if_false]
      exact hold hn
  · intro t ht
    obtain ⟨x, hx, e⟩ := hs.top t ht
    exact ⟨regrowDef dn fp fr x, List.mem_map_of_mem hx, e⟩

/-- the row operation `mapInstRows` performs -/
def rowOp (k : Nat) (g : List (Option Nat) → List (Option Nat)) (pins : List (List (Option Nat))) : List (List (Option Nat)) :=
  (pins ++ List.replicate (k + 1 - pins.length) []).set k (g ((pins ++ List.replicate (k + 1 - pins.length) []).getD k []))

theorem mapInstRows_upd (s : St) (dn : String) (fp : List Port → List Port) (k : Nat)
    (g : List (Option Nat) → List (Option Nat)) :
    mapInstRows (s.upd dn (fun d => { d with ports := fp d.ports })) dn k g = regrow s dn fp (rowOp k g) := by
  unfold mapInstRows St.upd regrow
  simp only [List.map_map]
  congr 1
  apply List.map_congr_left
  intro x _
  simp only [Function.comp, regrowDef, rowOp]
  by_cases e : x.name = dn
  · simp [e]
  · simp [e]

theorem rowOp_lens_new (k w : Nat) (pins : List (List (Option Nat))) (h : pins.length = k) :
    rowOp k (fun _ => List.replicate w none) pins = pins ++ [List.replicate w none] := by
  unfold rowOp
  have : k + 1 - pins.length = 1 := by omega
  rw [this]
  simp only [List.replicate_one]
  rw [List.set_append_right _ _ (by omega)]
  simp [h]

theorem rowOp_set (k : Nat) (g : List (Option Nat) → List (Option Nat)) (pins : List (List (Option Nat)))
    (h : k < pins.length) : rowOp k g pins = pins.set k (g (pins.getD k [])) := by
  unfold rowOp
  have : k + 1 - pins.length = 0 := by omega
  rw [this]
  simp

theorem filterMap_name_append (ps : List Port) (p : Port) :
    (ps ++ [p]).filterMap (·.name) = ps.filterMap (·.name) ++ (match p.name with | some n => [n] | none => []) := by
  rw [List.filterMap_append]
  cases hp : p.name <;> simp [hp]

theorem portIdx_none_not_mem (d : Def) (name : String) (h : portIdx d name = none) :
    name ∉ d.ports.filterMap (·.name) := by
  intro hm
  obtain ⟨p, hp, e⟩ := List.mem_filterMap.mp hm
  unfold portIdx at h
  rw [List.findIdx?_eq_none_iff] at h
  have := h p hp
  simp [e] at this

theorem filterMap_name_set (ps : List Port) (k : Nat) (p' : Port) (hk : k < ps.length) (hn : p'.name = (ps.getD k default).name) :
    (ps.set k p').filterMap (·.name) = ps.filterMap (·.name) := by
  have : (ps.set k p').map (·.name) = ps.map (·.name) := by
    rw [List.map_set]
    apply List.ext_getElem?
    intro j
    by_cases e : j = k
    · subst e
      rw [List.getElem?_set_self (by simpa using hk), List.getElem?_map, List.getElem?_eq_getElem hk, hn]
      simp [List.getD, List.getElem?_eq_getElem hk]
    · rw [List.getElem?_set_ne (fun h => e h.symm)]
  have h2 : ∀ (l : List Port), l.filterMap (·.name) = (l.map (·.name)).filterMap id := by
    intro l; rw [List.filterMap_map]; rfl
  rw [h2, h2, this]

theorem createOrUpdatePort_wf (s s' : St) (dn name : String) (l r : Option Int) (dir : Option Dir) (df : Bool)
    (hs : TableWF s) (h : createOrUpdatePort s dn name l r dir df = .ok s') : TableWF s' := by
  unfold createOrUpdatePort at h
  cases hg : getDef s dn with
  | error e => simp [hg, bind, Except.bind] at h
  | ok d =>
    have hd := find_has hs (getDef_find hg)
    simp only [hg, bind, Except.bind] at h
    cases hk : portIdx d name with
    | none =>
      simp only [hk, pure, Except.pure, Except.ok.injEq] at h
      rw [← h]
      have := mapInstRows_upd s dn (fun ps => ps ++ [(⟨some name, dir.getD .undef, (populateNew l r).1, (populateNew l r).2.2,
        List.replicate (populateNew l r).2.1 none, none⟩ : Port)]) d.ports.length (fun _ => List.replicate (populateNew l r).2.1 none)
      rw [this]
      apply regrow_wf s dn d _ _ hs hd
      · intro pins hp
        have hlen : pins.length = d.ports.length := by
          have := congrArg List.length hp; simpa using this
        rw [rowOp_lens_new _ _ pins hlen]
        simp [hp]
      · intro pins row' hr w hw
        have hpl : pins.length ≤ d.ports.length ∨ d.ports.length < pins.length := by omega
        rcases hpl with hle | hlt
        · -- the row is an old one, or the new all-free one, or a filler
          unfold rowOp at hr
          rcases List.mem_or_eq_of_mem_set hr with e | e
          · rcases List.mem_append.mp e with e1 | e1
            · exact ⟨row', e1, hw⟩
            · have := List.eq_of_mem_replicate e1; rw [this] at hw; cases hw
          · rw [e] at hw
            have := List.eq_of_mem_replicate hw; cases this
        · rw [rowOp_set _ _ pins hlt] at hr
          rcases List.mem_or_eq_of_mem_set hr with e | e
          · exact ⟨row', e, hw⟩
          · rw [e] at hw
            have := List.eq_of_mem_replicate hw; cases this
      · rw [filterMap_name_append]
        simp only
        rw [List.nodup_append]
        refine ⟨(hs.defs d hd.1).ports, by simp, ?_⟩
        intro a ha b hb
        simp only [List.mem_singleton] at hb
        rw [hb]; intro e; rw [e] at ha
        exact portIdx_none_not_mem d name hk ha
      · intro p hp w hw
        rcases List.mem_append.mp hp with e | e
        · exact ⟨p, e, hw⟩
        · simp only [List.mem_singleton] at e
          rw [e] at hw
          have := List.eq_of_mem_replicate hw; cases this
    | some k =>
      simp only [hk, pure, Except.pure, Except.ok.injEq] at h
      rw [← h]
      have hklt := portIdx_lt hk
      generalize hrz : resizePort (d.ports.getD k default).lower (d.ports.getD k default).pins.length l r df = rz
      generalize hP : (Port.mk (d.ports.getD k default).name _ rz.lower (d.ports.getD k default).downto
        (List.replicate rz.pre none ++ (d.ports.getD k default).pins ++ List.replicate rz.post none)
        (d.ports.getD k default).attrs) = P'
      have := mapInstRows_upd s dn (fun ps => ps.set k P') k
        (fun row => List.replicate rz.pre none ++ row ++ List.replicate rz.post none)
      have hform : mapInstRows (s.upd dn fun d => { d with ports := d.ports.set k P' }) dn k
          (fun row => List.replicate rz.pre none ++ row ++ List.replicate rz.post none) =
          regrow s dn (fun ps => ps.set k P') (rowOp k fun row => List.replicate rz.pre none ++ row ++ List.replicate rz.post none) := this
      rw [hform]
      have hPlen : P'.pins.length = rz.pre + (d.ports.getD k default).pins.length + rz.post := by
        rw [← hP]; simp only [List.length_append, List.length_replicate]
      have hPn : P'.name = (d.ports.getD k default).name := by rw [← hP]
      apply regrow_wf s dn d _ _ hs hd
      · intro pins hp
        have hlen : pins.length = d.ports.length := by
          have := congrArg List.length hp; simpa using this
        rw [rowOp_set _ _ pins (by omega)]
        rw [List.map_set, List.map_set, hp]
        congr 1
        have hk1 : (pins.getD k []).length = (d.ports.getD k default).pins.length := by
          have := congrArg (fun l => l[k]?) hp
          simp only [List.getElem?_map, List.getElem?_eq_getElem (show k < pins.length by omega),
            List.getElem?_eq_getElem hklt, Option.map_some, Option.some.injEq] at this
          simp [List.getD, List.getElem?_eq_getElem (show k < pins.length by omega), List.getElem?_eq_getElem hklt, this]
        simp only [List.length_append, List.length_replicate, hPlen, hk1]
      · intro pins row' hr w hw
        by_cases hlt : k < pins.length
        · rw [rowOp_set _ _ pins hlt] at hr
          rcases List.mem_or_eq_of_mem_set hr with e | e
          · exact ⟨row', e, hw⟩
          · rw [e] at hw
            rcases List.mem_append.mp hw with h1 | h1
            · rcases List.mem_append.mp h1 with h2 | h2
              · have := List.eq_of_mem_replicate h2; cases this
              · exact ⟨pins.getD k [], by simp [List.getD, List.getElem?_eq_getElem hlt], h2⟩
            · have := List.eq_of_mem_replicate h1; cases this
        · unfold rowOp at hr
          rcases List.mem_or_eq_of_mem_set hr with e | e
          · rcases List.mem_append.mp e with e1 | e1
            · exact ⟨row', e1, hw⟩
            · have := List.eq_of_mem_replicate e1; rw [this] at hw; cases hw
          · rw [e] at hw
            rcases List.mem_append.mp hw with h1 | h1
            · rcases List.mem_append.mp h1 with h2 | h2
              · have := List.eq_of_mem_replicate h2; cases this
              · -- the filler row is empty
                exfalso
                have hg : (pins ++ List.replicate (k + 1 - pins.length) []).getD k [] = [] := by
                  rw [List.getD_eq_getElem?_getD, List.getElem?_append_right (by omega)]
                  cases hx : (List.replicate (k + 1 - pins.length) ([] : List (Option Nat)))[k - pins.length]? with
                  | none => rfl
                  | some v =>
                    have := List.mem_of_getElem? hx
                    rw [List.eq_of_mem_replicate this]; rfl
                rw [hg] at h2; cases h2
            · have := List.eq_of_mem_replicate h1; cases this
      · rw [filterMap_name_set d.ports k P' hklt hPn]; exact (hs.defs d hd.1).ports
      · intro p hp w hw
        rcases List.mem_or_eq_of_mem_set hp with e | e
        · exact ⟨p, e, hw⟩
        · rw [e, ← hP] at hw
          simp only at hw
          rcases List.mem_append.mp hw with h1 | h1
          · rcases List.mem_append.mp h1 with h2 | h2
            · have := List.eq_of_mem_replicate h2; cases this
            · exact ⟨d.ports.getD k default, by simp [List.getD, List.getElem?_eq_getElem hklt], h2⟩
          · have := List.eq_of_mem_replicate h1; cases this
end Spydr.Verilog.Elab
