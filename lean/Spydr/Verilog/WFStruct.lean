/-
  Verilog engine — StructWF, part 8: the decidable predicate `structWF`, `structWF_iff`, the theorems for any text / any
  syntax tree, non-vacuity, and the witness that `pending` is not emptied.
-/
import Spydr.Verilog.WFDesign
import Spydr.Verilog.RoundTripText
set_option maxHeartbeats 800000
namespace Spydr.Verilog.Elab
open Spydr.Verilog

/-! ### StructWF as a decidable predicate -/

def rowOKb (d : Def) (row : List (Option Nat)) : Bool :=
  row.all (fun p => match p with | some w => (wiresOf d).contains w | none => true)

def defWFb (d : Def) : Bool :=
  decide ((d.ports.filterMap (·.name)).Nodup) && decide ((d.cables.map (·.name)).Nodup) &&
  decide ((d.insts.map (·.name)).Nodup) && d.ports.all (fun p => rowOKb d p.pins) &&
  d.insts.all (fun i => i.pins.all (rowOKb d))

def globalWFb (L : List Shape) : Bool :=
  decide ((L.map (·.1)).Nodup) &&
  L.all (fun sh => sh.2.2.all (fun ir => L.any (fun sh' => sh'.1 == ir.1))) &&
  L.all (fun sh => sh.2.2.all (fun ir => L.all (fun sh' => sh'.1 != ir.1 || ir.2 == sh'.2.1)))

/-- **StructWF** (decidable): every definition is well-formed inside (distinct names of named ports / nets / instances,
    every connected pin on a wire of a net of the same definition); across definitions: distinct names, every instance's
    module is in the table, every instance has one pin row per port of its module, each exactly as wide as the port is now;
    the top, if any, is in the table -/
def structWF (s : St) : Bool :=
  s.defs.all defWFb && globalWFb (s.defs.map shape) &&
  (match s.top with | none => true | some t => s.defs.any (fun d => d.name == t))

theorem rowOKb_iff (d : Def) (row : List (Option Nat)) : rowOKb d row = true ↔ RowOK d row := by
  unfold rowOKb RowOK
  rw [List.all_eq_true]
  constructor
  · intro h w hw
    have := h (some w) hw
    simpa using this
  · intro h p hp
    cases p with
    | none => rfl
    | some w => simpa using h w hp

theorem defWFb_iff (d : Def) : defWFb d = true ↔ DefWF d := by
  unfold defWFb
  simp only [Bool.and_eq_true, decide_eq_true_eq, List.all_eq_true, rowOKb_iff]
  constructor
  · rintro ⟨⟨⟨⟨h1, h2⟩, h3⟩, h4⟩, h5⟩
    exact ⟨h1, h2, h3, h4, h5⟩
  · intro h
    exact ⟨⟨⟨⟨h.ports, h.cables⟩, h.insts⟩, h.ppins⟩, h.ipins⟩

theorem globalWFb_iff (L : List Shape) : globalWFb L = true ↔ GlobalWF L := by
  unfold globalWFb
  simp only [Bool.and_eq_true, decide_eq_true_eq, List.all_eq_true, List.any_eq_true, beq_iff_eq, Bool.or_eq_true,
    bne_iff_ne, ne_eq]
  constructor
  · rintro ⟨⟨h1, h2⟩, h3⟩
    refine ⟨h1, h2, ?_⟩
    intro sh hsh ir hir sh' hsh' hn
    rcases h3 sh hsh ir hir sh' hsh' with e | e
    · exact absurd hn e
    · exact e
  · intro h
    refine ⟨⟨h.names, h.closed⟩, ?_⟩
    intro sh hsh ir hir sh' hsh'
    by_cases e : sh'.1 = ir.1
    · exact Or.inr (h.mirror sh hsh ir hir sh' hsh' e)
    · exact Or.inl e

theorem structWF_iff (s : St) : structWF s = true ↔ TableWF s := by
  unfold structWF
  simp only [Bool.and_eq_true, List.all_eq_true, defWFb_iff, globalWFb_iff]
  constructor
  · rintro ⟨⟨h1, h2⟩, h3⟩
    refine ⟨h1, h2, ?_⟩
    intro t ht
    rw [ht] at h3
    simpa using h3
  · intro h
    refine ⟨⟨h.defs, h.glob⟩, ?_⟩
    cases ht : s.top with
    | none => rfl
    | some t => simpa using h.top t ht

/-- **reader_structWF.**  For ANY text: what the reader accepts satisfies StructWF. -/
theorem reader_structWF (text : String) (s : St) (h : Parse.readV text = .ok s) : structWF s = true :=
  (structWF_iff s).mpr (readV_wf text s h)

/-- the same for any syntax tree -/
theorem elab_structWF (ms : List Module) (s : St) (h : elabDesign ms = .ok s) : structWF s = true :=
  (structWF_iff s).mpr (elabDesign_wf ms s h)

/-- non-vacuity: the text written for the example netlist is accepted, so the premise is satisfiable -/
theorem exNet_structWF : ∃ text s, Parse.readV text = .ok s ∧ structWF s = true := by
  obtain ⟨text, _, s, _, _, _, h, _⟩ := exNet_roundtrip
  exact ⟨text, s, h, reader_structWF text s h⟩

/-- `pending = []` is NOT a property of accepted designs: the list of deferred positional maps is processed at the end
    of the file but never emptied (neither in the model nor in `VerilogParser.implicitly_mapped_ports`) -/
def exPending : List Module :=
  [⟨"m", false, [], [], [], [.inst "X" "u" [] [] false [(none, .empty)]]⟩]

theorem pending_not_emptied : ∃ s, elabDesign exPending = .ok s ∧ s.pending ≠ [] := by
  cases h : elabDesign exPending with
  | error e =>
    exfalso
    have : (match elabDesign exPending with | .ok _ => true | .error _ => false) = true := by decide
    rw [h] at this; cases this
  | ok s =>
    refine ⟨s, rfl, ?_⟩
    have : (match elabDesign exPending with | .ok s => s.pending.length | .error _ => 0) = 1 := by decide
    rw [h] at this
    simp only at this
    intro e; rw [e] at this; cases this
end Spydr.Verilog.Elab
