/-
  Verilog engine — WiresWF, part 1: the three clauses `StructWF` does not contain (wire ids distinct inside a definition,
  below the counter, every net has at least one wire); the steps that keep them (`Keep`) and `createOrUpdateCable_ww`.
-/
import Spydr.Verilog.WFStruct
set_option maxHeartbeats 1600000
namespace Spydr.Verilog.Elab
open Spydr.Verilog

/-! # WiresWF: wire ids are distinct inside every definition, below the counter, and every net has at least one wire -/

/-- the three clauses the table-level `StructWF` does not contain -/
def WW (s : St) : Prop :=
  ∀ d ∈ s.defs, (wiresOf d).Nodup ∧ (∀ w ∈ wiresOf d, w < s.next) ∧ ∀ c ∈ d.cables, 1 ≤ c.wires.length

/-- the step neither hands out wire ids nor touches the wires of a net -/
def Keep (s s' : St) : Prop :=
  s.next ≤ s'.next ∧ ∀ d' ∈ s'.defs, d'.cables = [] ∨ ∃ d ∈ s.defs, d'.cables.map (·.wires) = d.cables.map (·.wires)

theorem wiresOf_eq (d : Def) : wiresOf d = (d.cables.map (·.wires)).flatten := by
  unfold wiresOf; rw [List.flatMap_def]

theorem WW.keep {s s' : St} (h : WW s) (k : Keep s s') : WW s' := by
  intro d' hd'
  rcases k.2 d' hd' with e | ⟨d, hd, e⟩
  · refine ⟨(by rw [wiresOf_eq, e]; exact List.nodup_nil), (by rw [wiresOf_eq, e]; intro w hw; cases hw), (by rw [e]; intro c hc; cases hc)⟩
  · obtain ⟨h1, h2, h3⟩ := h d hd
    refine ⟨by rw [wiresOf_eq, e, ← wiresOf_eq]; exact h1, ?_, ?_⟩
    · intro w hw
      rw [wiresOf_eq, e, ← wiresOf_eq] at hw
      have := h2 w hw; have := k.1; omega
    · intro c hc
      have hm : c.wires ∈ d'.cables.map (·.wires) := List.mem_map.mpr ⟨c, hc, rfl⟩
      rw [e] at hm
      obtain ⟨c0, hc0, e0⟩ := List.mem_map.mp hm
      rw [← e0]; exact h3 c0 hc0

theorem Keep.refl (s : St) : Keep s s := ⟨Nat.le_refl _, fun d hd => Or.inr ⟨d, hd, rfl⟩⟩

theorem Keep.trans {a b c : St} (h1 : Keep a b) (h2 : Keep b c) : Keep a c := by
  refine ⟨Nat.le_trans h1.1 h2.1, ?_⟩
  intro d'' hd''
  rcases h2.2 d'' hd'' with e | ⟨d', hd', e⟩
  · exact Or.inl e
  · rcases h1.2 d' hd' with e' | ⟨d, hd, e'⟩
    · left
      rw [e'] at e
      simpa using e
    · exact Or.inr ⟨d, hd, e.trans e'⟩

theorem keep_defsmap (s : St) (g : Def → Def) (hg : ∀ d, (g d).cables.map (·.wires) = d.cables.map (·.wires)) :
    Keep s { s with defs := s.defs.map g } := by
  refine ⟨Nat.le_refl _, ?_⟩
  intro d' hd'
  obtain ⟨d, hd, e⟩ := List.mem_map.mp hd'
  exact Or.inr ⟨d, hd, by rw [← e]; exact hg d⟩

theorem keep_upd (s : St) (dn : String) (f : Def → Def) (hf : ∀ d, (f d).cables.map (·.wires) = d.cables.map (·.wires)) :
    Keep s (s.upd dn f) := by
  unfold St.upd
  apply keep_defsmap
  intro d
  split
  · exact hf d
  · rfl

theorem keep_mapInstRows (s : St) (dn : String) (k : Nat) (f : List (Option Nat) → List (Option Nat)) :
    Keep s (mapInstRows s dn k f) := by
  unfold mapInstRows
  exact keep_defsmap s _ (fun _ => rfl)

theorem keep_mapupd (s : St) (dn dn2 : String) (k : Nat) (g : Def → Def) (f : List (Option Nat) → List (Option Nat))
    (hg : ∀ d, (g d).cables.map (·.wires) = d.cables.map (·.wires)) : Keep s (mapInstRows (s.upd dn g) dn2 k f) :=
  (keep_upd s dn g hg).trans (keep_mapInstRows _ _ _ _)

theorem keep_updmap (s : St) (dn : String) (g G : Def → Def)
    (hg : ∀ d, (g d).cables.map (·.wires) = d.cables.map (·.wires))
    (hG : ∀ d, (G d).cables.map (·.wires) = d.cables.map (·.wires)) :
    Keep s { (s.upd dn g) with defs := (s.upd dn g).defs.map G } :=
  (keep_upd s dn g hg).trans (keep_defsmap _ G hG)

theorem keep_append (s : St) (e : Def) (he : e.cables = []) : Keep s { s with defs := s.defs ++ [e] } := by
  refine ⟨Nat.le_refl _, ?_⟩
  intro d' hd'
  rcases List.mem_append.mp hd' with h | h
  · exact Or.inr ⟨d', h, rfl⟩
  · simp only [List.mem_singleton] at h
    exact Or.inl (by rw [h]; exact he)

theorem keep_of_eq (s s' : St) (h1 : s'.defs = s.defs) (h2 : s'.next = s.next) : Keep s s' :=
  ⟨by rw [h2]; exact Nat.le_refl _, fun d hd => Or.inr ⟨d, by rw [← h1]; exact hd, rfl⟩⟩

theorem keep_ensure (s : St) (n : String) : Keep s (s.ensure n) := by
  unfold St.ensure
  split
  · exact Keep.refl s
  · exact keep_append s _ rfl

theorem createOrUpdatePort_keep (s s' : St) (dn name : String) (l r : Option Int) (dir : Option Dir) (df : Bool)
    (h : createOrUpdatePort s dn name l r dir df = .ok s') : Keep s s' := by
  unfold createOrUpdatePort at h
  simp only [bind, Except.bind] at h
  cases hg : getDef s dn with
  | error e => simp [hg] at h
  | ok d =>
    simp only [hg] at h
    split at h
    · simp only [pure, Except.pure, Except.ok.injEq] at h
      rw [← h]
      apply keep_mapupd
      intro d; rfl
    · simp only [pure, Except.pure, Except.ok.injEq] at h
      rw [← h]
      apply keep_mapupd
      intro d; rfl

theorem connectPortCable_keep (s s' : St) (dn name : String) (h : connectPortCable s dn name = .ok s') : Keep s s' := by
  unfold connectPortCable at h
  simp only [bind, Except.bind] at h
  cases hg : getDef s dn with
  | error e => simp [hg] at h
  | ok d =>
    simp only [hg] at h
    split at h
    · split at h
      · cases h
      · generalize hF : List.foldlM (m := Except String) _ _ _ = F at h
        cases F with
        | error e => simp at h
        | ok pins =>
          simp only [pure, Except.pure, Except.ok.injEq] at h
          rw [← h]
          apply keep_upd
          intro d; rfl
    · cases h

theorem connectInstRow_keep (s s' : St) (dn iname : String) (k : Nat) (ws : List Nat)
    (h : connectInstRow s dn iname k ws = .ok s') : Keep s s' := by
  unfold connectInstRow at h
  simp only [bind, Except.bind] at h
  cases hg : getDef s dn with
  | error e => simp [hg] at h
  | ok d =>
    simp only [hg] at h
    split at h
    · cases h
    · split at h
      · cases h
      · simp only [pure, Except.pure, Except.ok.injEq] at h
        rw [← h]
        apply keep_upd
        intro d; rfl

theorem reorderPorts_keep (s s' : St) (dn : String) (names : List String) (h : reorderPorts s dn names = .ok s') :
    Keep s s' := by
  unfold reorderPorts at h
  simp only [bind, Except.bind] at h
  cases hg : getDef s dn with
  | error e => simp [hg] at h
  | ok d =>
    simp only [hg] at h
    split at h
    · simp only [pure, Except.pure, Except.ok.injEq] at h; rw [← h]; exact Keep.refl s
    · split at h
      · simp only [pure, Except.pure, Except.ok.injEq] at h; rw [← h]; exact Keep.refl s
      · simp only [pure, Except.pure, Except.ok.injEq] at h
        rw [← h]
        apply keep_updmap <;> (intro d; rfl)

theorem ensureAssignDef_keep (s s' : St) (w : Nat) (h : ensureAssignDef s w = .ok s') : Keep s s' := by
  unfold ensureAssignDef at h
  split at h
  · split at h
    · simp only [pure, Except.pure, Except.ok.injEq] at h; rw [← h]; exact Keep.refl s
    · cases h
  · simp only [pure, Except.pure, Except.ok.injEq] at h
    rw [← h]
    exact keep_append s _ rfl

/-! ### the one function that hands out wire ids -/

theorem perm_flatMap {α β : Type} (f g : α → List β) : ∀ (l : List α), (∀ a ∈ l, (f a).Perm (g a)) →
    (l.flatMap f).Perm (l.flatMap g) := by
  intro l
  induction l with
  | nil => intro _; exact List.Perm.refl _
  | cons a l ih =>
    intro h
    simp only [List.flatMap_cons]
    exact List.Perm.append (h a List.mem_cons_self) (ih (fun x hx => h x (List.mem_cons_of_mem _ hx)))

theorem perm_mid (pre W post : List Nat) : (pre ++ W ++ post).Perm (W ++ (pre ++ post)) := by
  have h1 : (pre ++ W).Perm (W ++ pre) := List.perm_append_comm
  have := List.Perm.append_right post h1
  simpa [List.append_assoc] using this

/-- replacing one net by one with fresh wires in front of and behind its own -/
theorem grow_both (nm : String) (pre post : List Nat) (n n' : Nat) (cs : List Cable) (c0 C : Cable)
    (hn : (cs.map (·.name)).Nodup) (hf : (cs.flatMap (·.wires)).Nodup) (hb : ∀ c ∈ cs, ∀ w ∈ c.wires, w < n)
    (hc0 : c0 ∈ cs) (hc0n : c0.name = nm) (hCn : C.name = nm) (hCw : C.wires = pre ++ c0.wires ++ post)
    (hex : (pre ++ post).Nodup) (hrange : ∀ w ∈ pre ++ post, n ≤ w ∧ w < n') (hle : n ≤ n') :
    ((cs.map (fun y => if y.name == nm then C else y)).flatMap (·.wires)).Nodup ∧
    (∀ c ∈ cs.map (fun y => if y.name == nm then C else y), ∀ w ∈ c.wires, w < n') := by
  -- the same net with the fresh wires all behind
  obtain ⟨_, g2, g3⟩ := WF_grow nm (pre ++ post) n n' cs c0 { C with wires := c0.wires ++ (pre ++ post) } hn hf hb hc0 hc0n hCn rfl
    hex hrange hle
  have hperm : ((cs.map (fun y => if y.name == nm then C else y)).flatMap (·.wires)).Perm
      ((cs.map (fun y => if y.name == nm then ({ C with wires := c0.wires ++ (pre ++ post) } : Cable) else y)).flatMap (·.wires)) := by
    rw [List.flatMap_map, List.flatMap_map]
    apply perm_flatMap
    intro y _
    by_cases e : y.name = nm
    · simp only [e, beq_self_eq_true, if_true, hCw]
      exact perm_mid pre c0.wires post
    · simp only [show (y.name == nm) = false by simp [e], Bool.false_eq_true, if_false]
      exact List.Perm.refl _
  refine ⟨(List.Perm.nodup_iff hperm).mpr g2, ?_⟩
  intro c hc w hw
  obtain ⟨y, hy, e⟩ := List.mem_map.mp hc
  by_cases ey : y.name = nm
  · simp only [ey, beq_self_eq_true, if_true] at e
    rw [← e, hCw] at hw
    apply g3 { C with wires := c0.wires ++ (pre ++ post) } (List.mem_map.mpr ⟨y, hy, by simp [ey]⟩) w
    simp only [List.mem_append] at hw ⊢
    rcases hw with (h | h) | h
    · exact Or.inr (Or.inl h)
    · exact Or.inl h
    · exact Or.inr (Or.inr h)
  · simp only [show (y.name == nm) = false by simp [ey], Bool.false_eq_true, if_false] at e
    rw [← e] at hw
    have := hb y hy w hw; omega

theorem ids_eq (n k : Nat) : (List.range k).map (· + n) = ids n k := rfl

theorem createOrUpdateCable_ww (s s' : St) (dn name : String) (l r : Option Int) (vt : Option String) (df : Bool)
    (hwf : TableWF s) (hs : WW s) (h : createOrUpdateCable s dn name l r vt df = .ok s') : WW s' := by
  unfold createOrUpdateCable at h
  simp only [bind, Except.bind] at h
  cases hg : getDef s dn with
  | error e => simp [hg] at h
  | ok d =>
    simp only [hg] at h
    have hdm : d ∈ s.defs := by
      have := getDef_find hg
      unfold St.find at this
      exact List.mem_of_find?_eq_some this
    split at h
    · -- a new net
      rename_i hc
      simp only [fresh, pure, Except.pure, Except.ok.injEq] at h
      rw [← h]
      generalize hk : (populateNew l r).2.1 = k
      have hk1 : 1 ≤ k := by
        rw [← hk]
        unfold populateNew
        split <;> simp <;> omega
      intro d' hd'
      unfold St.upd at hd'
      simp only at hd'
      obtain ⟨x, hx, e⟩ := List.mem_map.mp hd'
      obtain ⟨h1, h2, h3⟩ := hs x hx
      by_cases en : x.name = dn
      · simp only [en, beq_self_eq_true, if_true] at e
        rw [← e]
        refine ⟨?_, ?_, ?_⟩
        · unfold wiresOf
          simp only [List.flatMap_append, List.flatMap_cons, List.flatMap_nil, List.append_nil, ids_eq]
          rw [List.nodup_append]
          refine ⟨h1, ids_nodup _ _, ?_⟩
          intro a ha b hb
          have := h2 a ha
          have := ids_ge _ _ _ hb
          omega
        · intro w hw
          unfold wiresOf at hw
          simp only [List.flatMap_append, List.flatMap_cons, List.flatMap_nil, List.append_nil, ids_eq] at hw
          rcases List.mem_append.mp hw with e' | e'
          · have := h2 w e'; show w < s.next + k; omega
          · exact ids_lt _ _ _ e'
        · intro c hc'
          simp only at hc'
          rcases List.mem_append.mp hc' with e' | e'
          · exact h3 c e'
          · simp only [List.mem_singleton] at e'
            rw [e']; simp [hk1]
      · simp only [show (x.name == dn) = false by simp [en], Bool.false_eq_true, if_false] at e
        rw [← e]
        exact ⟨h1, fun w hw => by have := h2 w hw; show w < s.next + k; omega, h3⟩
    · -- an existing net grows
      rename_i c hc
      simp only [fresh, pure, Except.pure, Except.ok.injEq] at h
      rw [← h]
      generalize hrz : resizeCable c.lower c.wires.length l r df = rz
      intro d' hd'
      unfold St.upd at hd'
      simp only at hd'
      obtain ⟨x, hx, e⟩ := List.mem_map.mp hd'
      obtain ⟨h1, h2, h3⟩ := hs x hx
      by_cases en : x.name = dn
      · simp only [en, beq_self_eq_true, if_true] at e
        have hxd : x = d := by
          have hH := find_has hwf (getDef_find hg)
          exact hH.2.2 x hx en
        subst hxd
        have hcm := List.mem_of_find?_eq_some hc
        have hcn : c.name = name := by simpa using List.find?_some hc
        have hnodup : (ids s.next rz.pre ++ ids (s.next + rz.pre) rz.post).Nodup := by
          rw [List.nodup_append]
          refine ⟨ids_nodup _ _, ids_nodup _ _, ?_⟩
          intro a ha b hb
          have := ids_lt _ _ _ ha
          have := ids_ge _ _ _ hb
          omega
        have hrange : ∀ w ∈ ids s.next rz.pre ++ ids (s.next + rz.pre) rz.post, s.next ≤ w ∧ w < s.next + rz.pre + rz.post := by
          intro w hw
          rcases List.mem_append.mp hw with e' | e'
          · have := ids_ge _ _ _ e'; have := ids_lt _ _ _ e'; omega
          · have := ids_ge _ _ _ e'; have := ids_lt _ _ _ e'; omega
        have hflat : (x.cables.flatMap (·.wires)).Nodup := h1
        have hbound : ∀ c ∈ x.cables, ∀ w ∈ c.wires, w < s.next := fun c' hc' w hw => h2 w (mem_wiresOf.mpr ⟨c', hc', hw⟩)
        generalize hC : (⟨c.name, rz.lower, c.downto, _, _, c.attrs⟩ : Cable) = C at e
        have hCn : C.name = name := by rw [← hC]; exact hcn
        have hCw : C.wires = ids s.next rz.pre ++ c.wires ++ ids (s.next + rz.pre) rz.post := by rw [← hC]; rfl
        obtain ⟨g1, g2⟩ := grow_both name (ids s.next rz.pre) (ids (s.next + rz.pre) rz.post) s.next (s.next + rz.pre + rz.post)
          x.cables c C (hwf.defs x hx).cables hflat hbound hcm hcn hCn hCw hnodup hrange (by omega)
        rw [← e]
        refine ⟨?_, ?_, ?_⟩
        · exact g1
        · intro w hw
          obtain ⟨c', hc', hw'⟩ := mem_wiresOf.mp hw
          exact g2 c' hc' w hw'
        · intro c' hc'
          simp only at hc'
          obtain ⟨y, hy, ey⟩ := List.mem_map.mp hc'
          split at ey
          · rw [← ey, hCw]
            have := h3 c hcm
            simp only [List.length_append]; omega
          · rw [← ey]; exact h3 y hy
      · simp only [show (x.name == dn) = false by simp [en], Bool.false_eq_true, if_false] at e
        rw [← e]
        exact ⟨h1, fun w hw => by have := h2 w hw; show w < s.next + rz.pre + rz.post; omega, h3⟩
end Spydr.Verilog.Elab
