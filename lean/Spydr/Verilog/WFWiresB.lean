/-
  Verilog engine — WiresWF, part 2: the three clauses lifted through EVERY elaborator function (`elabDesign_ww`, `readV_ww`).
-/
import Spydr.Verilog.WFWiresA
set_option maxHeartbeats 1600000
namespace Spydr.Verilog.Elab
open Spydr.Verilog

/-! ### WiresWF through every elaborator function -/

theorem evalAtomE_ww (s s' : St) (dn : String) (a : XAtom) (ws : List Nat) (hwf : TableWF s) (hs : WW s)
    (h : evalAtomE s dn a = .ok (s', ws)) : WW s' := by
  unfold evalAtomE at h
  generalize hp : atomParts a = p at h
  obtain ⟨n, l, r⟩ := p
  simp only [bind, Except.bind] at h
  cases hc : createOrUpdateCable s dn n l r none false with
  | error e => simp [hc] at h
  | ok s1 =>
    simp only [hc] at h
    have w1 := createOrUpdateCable_ww s s1 dn n l r none false hwf hs hc
    cases hg : getDef s1 dn with
    | error e => simp [hg] at h
    | ok d =>
      simp only [hg] at h
      cases hf : d.cables.find? (fun c => c.name == n) with
      | none => simp [hf] at h
      | some c =>
        simp only [hf] at h
        cases hw : getWires ⟨c.lower, c.wires⟩ l r with
        | none => simp [hw] at h
        | some ws' =>
          simp only [hw, pure, Except.pure, Except.ok.injEq, Prod.mk.injEq] at h
          rw [← h.1]; exact w1

theorem evalAtomsE_ww (dn : String) : ∀ (as : List XAtom) (s s' : St) (ws : List Nat), TableWF s → WW s →
    evalAtomsE s dn as = .ok (s', ws) → WW s' := by
  intro as
  induction as with
  | nil =>
    intro s s' ws _ hs h
    simp only [evalAtomsE, pure, Except.pure, Except.ok.injEq, Prod.mk.injEq] at h
    rw [← h.1]; exact hs
  | cons a as ih =>
    intro s s' ws hwf hs h
    simp only [evalAtomsE, bind, Except.bind] at h
    cases h1 : evalAtomE s dn a with
    | error e => simp [h1] at h
    | ok r1 =>
      obtain ⟨s1, x⟩ := r1
      simp only [h1] at h
      have t1 := (evalAtomE_wf s s1 dn a x hwf h1).1
      have w1 := evalAtomE_ww s s1 dn a x hwf hs h1
      cases h2 : evalAtomsE s1 dn as with
      | error e => simp [h2] at h
      | ok r2 =>
        obtain ⟨s2, y⟩ := r2
        simp only [h2, pure, Except.pure, Except.ok.injEq, Prod.mk.injEq] at h
        rw [← h.1]
        exact ih s1 s2 y t1 w1 h2

theorem evalExprE_ww (s s' : St) (dn : String) (e : XExpr) (ws : List Nat) (hwf : TableWF s) (hs : WW s)
    (h : evalExprE s dn e = .ok (s', ws)) : WW s' := by
  cases e with
  | empty =>
    simp only [evalExprE, pure, Except.pure, Except.ok.injEq, Prod.mk.injEq] at h
    rw [← h.1]; exact hs
  | atom a => exact evalAtomE_ww s s' dn a ws hwf hs h
  | cat as => exact evalAtomsE_ww dn as s s' ws hwf hs h

theorem headerPort_ww (s s' : St) (dn : String) (h : HPort) (hwf : TableWF s) (hs : WW s)
    (hh : headerPort s dn h = .ok s') : WW s' := by
  unfold headerPort at hh
  simp only [bind, Except.bind] at hh
  cases h1 : createOrUpdatePort s dn h.name (rngL h.rng) (rngR h.rng) h.dir h.dir.isSome with
  | error e => simp [h1] at hh
  | ok s1 =>
    simp only [h1] at hh
    have t1 := createOrUpdatePort_wf s s1 dn h.name _ _ _ _ hwf h1
    have w1 := hs.keep (createOrUpdatePort_keep s s1 dn h.name _ _ _ _ h1)
    cases h2 : getDef s1 dn with
    | error e => simp [h2] at hh
    | ok d =>
      simp only [h2] at hh
      generalize hX : createOrUpdateCable s1 dn h.name _ _ none h.dir.isSome = X at hh
      cases X with
      | error e => simp at hh
      | ok s2 =>
        simp only at hh
        exact (createOrUpdateCable_ww s1 s2 dn h.name _ _ _ _ t1 w1 hX).keep (connectPortCable_keep s2 s' dn h.name hh)

theorem headerAlias_ww (s s' : St) (dn : String) (h : HPort) (e : XExpr) (hwf : TableWF s) (hs : WW s)
    (hh : headerAlias s dn h e = .ok s') : WW s' := by
  unfold headerAlias at hh
  simp only [bind, Except.bind] at hh
  cases h1 : evalExprE s dn e with
  | error x => simp [h1] at hh
  | ok r1 =>
    obtain ⟨s1, ws⟩ := r1
    simp only [h1] at hh
    have w1 := evalExprE_ww s s1 dn e ws hwf hs h1
    cases h2 : createOrUpdatePort s1 dn h.name (some ((ws.length : Int) - 1)) (some 0) none false with
    | error x => simp [h2] at hh
    | ok s2 =>
      simp only [h2] at hh
      have w2 := w1.keep (createOrUpdatePort_keep s1 s2 dn h.name _ _ _ _ h2)
      cases h3 : getDef s2 dn with
      | error x => simp [h3] at hh
      | ok d =>
        simp only [h3] at hh
        split at hh
        · cases hh
        · split at hh
          · cases hh
          · generalize hf : List.foldlM (m := Except String) _ _ (List.range ws.length) = X at hh
            cases X with
            | error x => simp at hh
            | ok pins =>
              simp only [pure, Except.pure, Except.ok.injEq] at hh
              rw [← hh]
              apply w2.keep
              apply keep_upd
              intro d; rfl

theorem foldlM_tw {α : Type} (f : St → α → M St)
    (hf : ∀ s a s', TableWF s → WW s → f s a = .ok s' → WW s') (hg : ∀ s a s', TableWF s → f s a = .ok s' → TableWF s') :
    ∀ (as : List α) (s s' : St), TableWF s → WW s → as.foldlM f s = .ok s' → WW s' := by
  intro as
  induction as with
  | nil => intro s s' _ hs h; simp only [List.foldlM_nil, pure, Except.pure, Except.ok.injEq] at h; rw [← h]; exact hs
  | cons a as ih =>
    intro s s' hwf hs h
    simp only [List.foldlM_cons, bind, Except.bind] at h
    cases h1 : f s a with
    | error e => simp [h1] at h
    | ok s1 =>
      simp only [h1] at h
      exact ih s1 s' (hg s a s1 hwf h1) (hf s a s1 hwf hs h1) h

theorem portDecl_ww (s s' : St) (dn : String) (dir : Dir) (vt : Option String) (rng : Option (Int × Int)) (name : String)
    (attrs : Attrs) (hwf : TableWF s) (hs : WW s) (h : portDecl s dn dir vt rng name attrs = .ok s') : WW s' := by
  unfold portDecl at h
  simp only [bind, Except.bind] at h
  cases h1 : createOrUpdateCable s dn name (rngL rng) (rngR rng) vt true with
  | error e => simp [h1] at h
  | ok s1 =>
    simp only [h1] at h
    have t1 := createOrUpdateCable_wf s s1 dn name _ _ _ _ hwf h1
    have w1 := createOrUpdateCable_ww s s1 dn name _ _ _ _ hwf hs h1
    cases h2 : getDef s1 dn with
    | error e => simp [h2] at h
    | ok d =>
      simp only [h2] at h
      cases hc : d.cables.find? (fun c => c.name == name) with
      | none => simp [hc] at h
      | some c =>
        simp only [hc] at h
        cases hw : getWires ⟨c.lower, c.wires⟩ (rngL rng) (rngR rng) with
        | none => simp [hw] at h
        | some ws =>
          simp only [hw] at h
          split at h
          · cases h
          · rename_i k hk
            generalize hpn : ((d.ports.getD k default).name).getD "" = pname at h
            cases h3 : createOrUpdatePort s1 dn pname (rngL rng) (rngR rng) (some dir) true with
            | error e => simp [h3] at h
            | ok s2 =>
              simp only [h3] at h
              have w2 := w1.keep (createOrUpdatePort_keep s1 s2 dn pname _ _ _ _ h3)
              generalize hs3 : (if attrs.isEmpty = true then s2 else s2.upd dn (fun d => { d with ports := d.ports.map (fun p =>
                if p.name == some pname then { p with attrs := some attrs } else p) })) = s3 at h
              have w3 : WW s3 := by
                rw [← hs3]; split
                · exact w2
                · apply w2.keep
                  apply keep_upd
                  intro d; rfl
              cases h4 : getDef s3 dn with
              | error e => simp [h4] at h
              | ok d3 =>
                simp only [h4] at h
                split at h
                · split at h
                  · split at h
                    · cases h
                    · simp only [pure, Except.pure, Except.ok.injEq] at h
                      rw [← h]
                      apply w3.keep
                      apply keep_upd
                      intro d; rfl
                  · simp only [pure, Except.pure, Except.ok.injEq] at h
                    rw [← h]; exact w3
                · cases h
          · generalize hX : List.foldlM (m := Except String) _ s1 _ = X at h
            cases X with
            | error e => simp at h
            | ok s2 =>
              simp only at h
              split at h
              · cases h
              · simp only [pure, Except.pure, Except.ok.injEq] at h
                rw [← h]
                exact foldlM_tw _ (fun S k S' _ hS hk => hS.keep (createOrUpdatePort_keep S S' dn _ _ _ _ _ hk))
                  (fun S k S' hS hk => createOrUpdatePort_wf S S' dn _ _ _ _ _ hS hk) _ s1 s2 t1 w1 hX

theorem namedConn_ww (s s' : St) (dn iname ref pname : String) (e : XExpr) (hwf : TableWF s) (hs : WW s)
    (h : namedConn s dn iname ref pname e = .ok s') : WW s' := by
  cases e with
  | empty => exact hs.keep (createOrUpdatePort_keep s s' ref pname _ _ _ _ h)
  | atom a =>
    simp only [namedConn, bind, Except.bind] at h
    cases h1 : evalExprE s dn (.atom a) with
    | error x => simp [h1] at h
    | ok r1 =>
      obtain ⟨s1, ws⟩ := r1
      simp only [h1] at h
      have w1 := evalExprE_ww s s1 dn _ ws hwf hs h1
      cases h2 : createOrUpdatePort s1 ref pname (some ((ws.length : Int) - 1)) (some 0) none false with
      | error x => simp [h2] at h
      | ok s2 =>
        simp only [h2] at h
        have w2 := w1.keep (createOrUpdatePort_keep s1 s2 ref pname _ _ _ _ h2)
        cases h3 : getDef s2 ref with
        | error x => simp [h3] at h
        | ok rd =>
          simp only [h3] at h
          split at h
          · cases h
          · exact w2.keep (connectInstRow_keep s2 s' dn iname _ ws h)
  | cat as =>
    simp only [namedConn, bind, Except.bind] at h
    cases h1 : evalExprE s dn (.cat as) with
    | error x => simp [h1] at h
    | ok r1 =>
      obtain ⟨s1, ws⟩ := r1
      simp only [h1] at h
      have w1 := evalExprE_ww s s1 dn _ ws hwf hs h1
      cases h2 : createOrUpdatePort s1 ref pname (some ((ws.length : Int) - 1)) (some 0) none false with
      | error x => simp [h2] at h
      | ok s2 =>
        simp only [h2] at h
        have w2 := w1.keep (createOrUpdatePort_keep s1 s2 ref pname _ _ _ _ h2)
        cases h3 : getDef s2 ref with
        | error x => simp [h3] at h
        | ok rd =>
          simp only [h3] at h
          split at h
          · cases h
          · exact w2.keep (connectInstRow_keep s2 s' dn iname _ ws h)
theorem keep_fields (s : St) (t : Option String) (a : Nat) (p : List (String × String × List XExpr)) :
    Keep s { s with top := t, acount := a, pending := p } := keep_of_eq _ _ rfl rfl

theorem instantiate_ww (s s' : St) (dn mod name : String) (params : Params) (attrs : Attrs) (named : Bool)
    (conns : List (Option String × XExpr)) (hwf : TableWF s) (hs : WW s)
    (h : instantiate s dn mod name params attrs named conns = .ok s') : WW s' := by
  have hfin := instantiate_wf s s' dn mod name params attrs named conns hwf h
  unfold instantiate at h
  simp only [bind, Except.bind] at h
  generalize hs1 : (if (s.top == some mod) = true then ({ s with top := some (climb s (s.defs.length + 1) dn) } : St) else s).ensure mod = s1 at h
  have w1 : WW s1 := by
    rw [← hs1]
    apply hs.keep
    split
    · exact Keep.trans (b := { s with top := some (climb s (s.defs.length + 1) dn) }) (keep_of_eq _ _ rfl rfl)
        (keep_ensure _ mod)
    · exact keep_ensure s mod
  have t1 : TableWF s1 := by
    -- as in `instantiate_wf`: the state after the top has been re-elected and the module looked up
    rw [← hs1]
    cases hg2 : getDef s1 dn with
    | error e =>
      -- the run fails in this case; any well-formedness will do, take it from the run
      exfalso
      cases hg1 : getDef s1 mod with
      | error e' => simp [hg1] at h
      | ok rd => simp [hg1, hg2] at h
    | ok d =>
      split
      · rw [ensure_top]
        apply (ensure_wf s mod hwf).set_top
        have hdn : ∃ x ∈ (s.ensure mod).defs, x.name = dn := by
          have hf := getDef_find hg2
          rw [← hs1] at hf
          rename_i hc
          simp only [hc, if_true, ensure_top] at hf
          unfold St.find at hf
          exact ⟨d, List.mem_of_find?_eq_some hf, by simpa using List.find?_some hf⟩
        rcases climb_in s (s.defs.length + 1) dn with e | ⟨x, hx, e⟩
        · rw [e]; exact hdn
        · refine ⟨x, ?_, e⟩
          unfold St.ensure
          cases s.find mod with
          | some _ => exact hx
          | none => exact List.mem_append_left _ hx
      · exact ensure_wf s mod hwf
  cases h1 : getDef s1 mod with
  | error e => simp [h1] at h
  | ok rd =>
    simp only [h1] at h
    cases h2 : getDef s1 dn with
    | error e => simp [h2] at h
    | ok d =>
      simp only [h2] at h
      have hd := find_has t1 (getDef_find h2)
      have hrd := find_has t1 (getDef_find h1)
      split at h
      · cases h
      · rename_i hfresh
        have hfresh' : instIdx d name = none := by
          cases hx : instIdx d name with
          | none => rfl
          | some v => rw [hx] at hfresh; simp at hfresh
        generalize hi : (⟨name, mod, [], some attrs, rd.ports.map (fun p => List.replicate p.pins.length (none : Option Nat))⟩ : Inst) = i at h
        have t2 : TableWF (s1.upd dn (fun d => { d with insts := d.insts ++ [i] })) := by
          apply add_inst_wf s1 dn d rd i t1 hd
          · rw [← hi]; exact hrd
          · rw [← hi]; simp [List.map_map, Function.comp_def]
          · rw [← hi]; exact hfresh'
          · rw [← hi]
            intro row hr w hw
            obtain ⟨p, _, e⟩ := List.mem_map.mp hr
            rw [← e] at hw
            have := List.eq_of_mem_replicate hw; cases this
        have w2 : WW (s1.upd dn (fun d => { d with insts := d.insts ++ [i] })) := by
          apply w1.keep
          apply keep_upd
          intro d; rfl
        cases named with
        | true =>
          simp only [if_true] at h
          generalize hX : List.foldlM (m := Except String) _ (s1.upd dn (fun d => { d with insts := d.insts ++ [i] })) conns = X at h
          cases X with
          | error e => simp at h
          | ok s3 =>
            simp only [pure, Except.pure, Except.ok.injEq] at h
            rw [← h]
            have w3 : WW s3 := by
              refine foldlM_tw _ ?_ ?_ conns _ s3 t2 w2 hX
              · intro S c S' hS hW hc
                split at hc
                · exact namedConn_ww S S' dn name mod _ c.2 hS hW hc
                · cases hc
              · intro S c S' hS hc
                split at hc
                · exact namedConn_wf S S' dn name mod _ c.2 hS hc
                · cases hc
            apply w3.keep
            apply keep_upd
            intro d; rfl
        | false =>
          simp only [Bool.false_eq_true, if_false, pure, Except.pure, Except.ok.injEq] at h
          rw [← h]
          apply w2.keep
          refine Keep.trans (b := { (s1.upd dn (fun d => { d with insts := d.insts ++ [i] })) with
            pending := (s1.upd dn (fun d => { d with insts := d.insts ++ [i] })).pending ++ [(dn, name, conns.map (·.2))] }) ?_ ?_
          · exact keep_of_eq _ _ rfl rfl
          · apply keep_upd
            intro d; rfl

theorem posStep_ww (dn iname ref : String) (nports : Nat) (acc r : St × Nat) (e : XExpr) (hacc : TableWF acc.1)
    (hw : WW acc.1) (h : posStep dn iname ref nports acc e = .ok r) : WW r.1 := by
  obtain ⟨S, idx⟩ := acc
  unfold posStep at h
  simp only [bind, Except.bind] at h
  cases he : evalExprE S dn e with
  | error x => simp [he] at h
  | ok r1 =>
    obtain ⟨S1, ws⟩ := r1
    simp only [he] at h
    have w1 := evalExprE_ww S S1 dn e ws hacc hw he
    split at h
    · cases hg : getDef S1 ref with
      | error x => simp [hg] at h
      | ok rd' =>
        simp only [hg] at h
        split at h
        · simp [throw, throwThe, MonadExceptOf.throw] at h
        generalize hc : connectInstRow _ dn iname rd'.ports.length ws = C at h
        cases C with
        | error x => simp at h
        | ok S3 =>
          simp only [pure, Except.pure, Except.ok.injEq] at h
          rw [← h]
          apply w1.keep
          refine Keep.trans ?_ (connectInstRow_keep _ S3 dn iname _ ws hc)
          apply keep_mapupd
          intro d; rfl
    · generalize hc : connectInstRow S1 dn iname idx ws = C at h
      cases C with
      | error x => simp at h
      | ok S3 =>
        simp only [pure, Except.pure, Except.ok.injEq] at h
        rw [← h]
        exact w1.keep (connectInstRow_keep S1 S3 dn iname _ ws hc)

theorem positional_ww (s s' : St) (dn iname : String) (es : List XExpr) (hwf : TableWF s) (hs : WW s)
    (h : positional s dn iname es = .ok s') : WW s' := by
  rw [positional_eq] at h
  simp only [bind, Except.bind] at h
  cases h1 : getDef s dn with
  | error e => simp [h1] at h
  | ok d =>
    simp only [h1] at h
    cases hii : instIdx d iname with
    | none => simp [hii] at h
    | some ii =>
      simp only [hii] at h
      generalize href : (d.insts.getD ii default).ref = ref at h
      generalize hX : getDef s ref = G at h
      cases G with
      | error e => simp at h
      | ok rd =>
        simp only at h
        generalize hY : List.foldlM (m := Except String) _ (s, 0) es = Y at h
        cases Y with
        | error e => simp at h
        | ok r =>
          simp only [pure, Except.pure, Except.ok.injEq] at h
          rw [← h]
          have hloop : ∀ (es : List XExpr) (acc r : St × Nat), TableWF acc.1 → WW acc.1 →
              es.foldlM (posStep dn iname ref rd.ports.length) acc = .ok r → WW r.1 := by
            intro es
            induction es with
            | nil =>
              intro acc r _ hacc hf
              simp only [List.foldlM_nil, pure, Except.pure, Except.ok.injEq] at hf
              rw [← hf]; exact hacc
            | cons e es ih =>
              intro acc r hacc hw hf
              simp only [List.foldlM_cons, bind, Except.bind] at hf
              cases hs1 : posStep dn iname ref rd.ports.length acc e with
              | error x => simp [hs1] at hf
              | ok a1 =>
                simp only [hs1] at hf
                exact ih a1 r (posStep_wf _ _ _ _ acc a1 e hacc hs1) (posStep_ww _ _ _ _ acc a1 e hacc hw hs1) hf
          exact hloop es (s, 0) r hwf hs hY

theorem assignStmt_ww (s s' : St) (dn : String) (l r : XAtom) (hwf : TableWF s) (hs : WW s)
    (h : assignStmt s dn l r = .ok s') : WW s' := by
  unfold assignStmt at h
  simp only [bind, Except.bind] at h
  cases h1 : evalAtomE s dn l with
  | error e => simp [h1] at h
  | ok r1 =>
    obtain ⟨s1, lw⟩ := r1
    simp only [h1] at h
    have t1 := (evalAtomE_wf s s1 dn l lw hwf h1).1
    have w1 := evalAtomE_ww s s1 dn l lw hwf hs h1
    cases h2 : evalAtomE s1 dn r with
    | error e => simp [h2] at h
    | ok r2 =>
      obtain ⟨s2, rw'⟩ := r2
      simp only [h2] at h
      have w2 := evalAtomE_ww s1 s2 dn r rw' t1 w1 h2
      cases h3 : ensureAssignDef s2 (min lw.length rw'.length) with
      | error e => simp [h3] at h
      | ok s3 =>
        simp only [h3] at h
        have w3 := w2.keep (ensureAssignDef_keep s2 s3 _ h3)
        cases h4 : getDef s3 (assignDefName (min lw.length rw'.length)) with
        | error e => simp [h4] at h
        | ok rd =>
          simp only [h4] at h
          split at h
          · cases h
          · cases h5 : getDef s3 dn with
            | error e => simp [h5] at h
            | ok d =>
              simp only [h5] at h
              split at h
              · cases h
              · simp only [pure, Except.pure, Except.ok.injEq] at h
                rw [← h]
                apply w3.keep
                refine Keep.trans (b := { s3 with acount := s3.acount + 1 }) (keep_of_eq _ _ rfl rfl) ?_
                apply keep_upd
                intro d; rfl

theorem elabItem_ww (s s' : St) (dn : String) (prim : Bool) (it : Item) (hwf : TableWF s) (hs : WW s)
    (h : elabItem s dn prim it = .ok s') : WW s' := by
  cases it with
  | portDecl dir vt rng name attrs => exact portDecl_ww s s' dn dir vt rng name _ hwf hs h
  | wireDecl ty rng name attrs =>
    simp only [elabItem] at h
    split at h
    · simp only [pure, Except.pure, Except.ok.injEq] at h; rw [← h]; exact hs
    · simp only [bind, Except.bind] at h
      cases h1 : createOrUpdateCable s dn name (rngL rng) (rngR rng) (some ty) false with
      | error e => simp [h1] at h
      | ok s1 =>
        simp only [h1, pure, Except.pure, Except.ok.injEq] at h
        rw [← h]
        apply (createOrUpdateCable_ww s s1 dn name _ _ _ _ hwf hs h1).keep
        unfold setCableAttrs
        apply keep_upd
        intro d
        simp only [List.map_map]
        apply List.map_congr_left
        intro c _
        simp only [Function.comp]
        split <;> rfl
  | inst mod name params attrs named conns =>
    simp only [elabItem] at h
    split at h
    · simp only [pure, Except.pure, Except.ok.injEq] at h; rw [← h]; exact hs
    · exact instantiate_ww s s' dn mod name params attrs named conns hwf hs h
  | assign l r =>
    simp only [elabItem] at h
    split at h
    · simp only [pure, Except.pure, Except.ok.injEq] at h; rw [← h]; exact hs
    · exact assignStmt_ww s s' dn l r hwf hs h
  | defparam i k v =>
    simp only [elabItem] at h
    split at h
    · simp only [pure, Except.pure, Except.ok.injEq] at h; rw [← h]; exact hs
    · simp only [bind, Except.bind] at h
      cases h1 : getDef s dn with
      | error e => simp [h1] at h
      | ok d =>
        simp only [h1] at h
        split at h
        · cases h
        · simp only [pure, Except.pure, Except.ok.injEq] at h
          rw [← h]
          apply hs.keep
          apply keep_upd
          intro d; rfl

theorem elabModule_ww (s s' : St) (m : Module) (hwf : TableWF s) (hs : WW s) (h : elabModule s m = .ok s') : WW s' := by
  unfold elabModule at h
  simp only [bind, Except.bind] at h
  have t0 := ensure_wf s m.name hwf
  have w0 := hs.keep (keep_ensure s m.name)
  cases h1 : getDef (s.ensure m.name) m.name with
  | error e => simp [h1] at h
  | ok d =>
    simp only [h1] at h
    have hd := find_has t0 (getDef_find h1)
    split at h
    · cases h
    · have t1 : TableWF ((s.ensure m.name).upd m.name (fun d => { d with lib := some (if m.prim then "hdi_primitives" else "work") })) :=
        upd_meta_wf _ _ _ (fun _ => rfl) (fun _ => rfl) (fun _ => rfl) (fun _ => rfl) t0
      have w1 : WW ((s.ensure m.name).upd m.name (fun d => { d with lib := some (if m.prim then "hdi_primitives" else "work") })) := by
        apply w0.keep
        apply keep_upd
        intro d; rfl
      generalize hs1 : (s.ensure m.name).upd m.name (fun d => { d with lib := some (if m.prim then "hdi_primitives" else "work") }) = s1 at h t1 w1
      have hin1 : ∃ x ∈ s1.defs, x.name = m.name := by
        rw [← hs1]
        have := hd.upd (fun d => ({ d with lib := some (if m.prim then "hdi_primitives" else "work") } : Def)) (fun _ => rfl)
        exact ⟨_, this.1, hd.2.1⟩
      generalize hs2 : (if m.prim = true then s1 else
        ({ (if s1.top.isNone = true then ({ s1 with top := some m.name } : St) else s1) with acount := 0 } : St)) = s2 at h
      have t2 : TableWF s2 := by
        rw [← hs2]
        split
        · exact t1
        · split
          · exact ⟨t1.defs, t1.glob, fun t e => by simp only [Option.some.injEq] at e; rw [← e]; exact hin1⟩
          · exact ⟨t1.defs, t1.glob, t1.top⟩
      have w2 : WW s2 := by
        rw [← hs2]
        split
        · exact w1
        · split
          · exact w1.keep (keep_of_eq _ _ rfl rfl)
          · exact w1.keep (keep_of_eq _ _ rfl rfl)
      generalize hs3 : (if m.params.isEmpty = true then s2 else s2.upd m.name (fun d => { d with params := mergeParams d.params m.params })) = s3 at h
      have t3 : TableWF s3 := by
        rw [← hs3]
        split
        · exact t2
        · exact upd_meta_wf _ _ _ (fun _ => rfl) (fun _ => rfl) (fun _ => rfl) (fun _ => rfl) t2
      have w3 : WW s3 := by
        rw [← hs3]
        split
        · exact w2
        · apply w2.keep
          apply keep_upd
          intro d; rfl
      generalize hX : List.foldlM (m := Except String) _ s3 m.header = X at h
      cases X with
      | error e => simp at h
      | ok s4 =>
        simp only at h
        have t4 : TableWF s4 := by
          refine foldlM_wf _ ?_ m.header s3 s4 t3 hX
          intro S hp S' hS hh
          split at hh
          · exact headerAlias_wf S S' m.name hp _ hS hh
          · exact headerPort_wf S S' m.name hp hS hh
        have w4 : WW s4 := by
          refine foldlM_tw _ ?_ ?_ m.header s3 s4 t3 w3 hX
          · intro S hp S' hS hW hh
            split at hh
            · exact headerAlias_ww S S' m.name hp _ hS hW hh
            · exact headerPort_ww S S' m.name hp hS hW hh
          · intro S hp S' hS hh
            split at hh
            · exact headerAlias_wf S S' m.name hp _ hS hh
            · exact headerPort_wf S S' m.name hp hS hh
        cases h5 : reorderPorts s4 m.name (m.header.map (·.name)) with
        | error e => simp [h5] at h
        | ok s5 =>
          simp only [h5] at h
          have t5 := reorderPorts_wf s4 s5 m.name _ t4 h5
          have w5 := w4.keep (reorderPorts_keep s4 s5 m.name _ h5)
          generalize hY : List.foldlM (m := Except String) _ s5 m.items = Y at h
          cases Y with
          | error e => simp at h
          | ok s6 =>
            simp only [pure, Except.pure, Except.ok.injEq] at h
            have w6 : WW s6 :=
              foldlM_tw _ (fun S it S' hS hW hh => elabItem_ww S S' m.name m.prim it hS hW hh)
                (fun S it S' hS hh => elabItem_wf S S' m.name m.prim it hS hh) m.items s5 s6 t5 w5 hY
            rw [← h]
            split
            · exact w6
            · apply w6.keep
              apply keep_upd
              intro d; rfl

theorem ww_init : WW ⟨[], 0, none, 0, []⟩ := fun d hd => by cases hd

/-- **elabDesign_ww.**  Whatever the elaboration accepts has, in every definition, distinct wire ids below the counter and
    no net without a wire — for ANY list of modules. -/
theorem elabDesign_ww (ms : List Module) (s : St) (h : elabDesign ms = .ok s) : WW s := by
  unfold elabDesign at h
  simp only [bind, Except.bind] at h
  cases h1 : List.foldlM elabModule (⟨[], 0, none, 0, []⟩ : St) ms with
  | error e => simp [h1] at h
  | ok s1 =>
    simp only [h1] at h
    have t1 : TableWF s1 := foldlM_wf _ (fun S m S' hS hh => elabModule_wf S S' m hS hh) ms _ s1 tableWF_init h1
    have w1 : WW s1 := foldlM_tw _ (fun S m S' hS hW hh => elabModule_ww S S' m hS hW hh)
      (fun S m S' hS hh => elabModule_wf S S' m hS hh) ms _ s1 tableWF_init ww_init h1
    have t2 := map_meta_wf s1 (fun (d : Def) => if d.lib.isNone then { d with lib := some "hdi_primitives", primitive := true } else d)
      (by intro d; split <;> rfl) (by intro d; split <;> rfl) (by intro d; split <;> rfl) (by intro d; split <;> rfl) t1
    have w2 : WW ({ s1 with defs := s1.defs.map (fun (d : Def) =>
        if d.lib.isNone then { d with lib := some "hdi_primitives", primitive := true } else d) } : St) := by
      apply w1.keep
      apply keep_defsmap
      intro d
      split <;> rfl
    exact foldlM_tw _ (fun S p S' hS hW hh => positional_ww S S' p.1 p.2.1 p.2.2 hS hW hh)
      (fun S p S' hS hh => positional_wf S S' p.1 p.2.1 p.2.2 hS hh) _ _ s t2 w2 h

theorem readV_ww (text : String) (s : St) (h : Parse.readV text = .ok s) : WW s := by
  unfold Parse.readV at h
  simp only [bind, Except.bind] at h
  cases h1 : Parse.parseV (Text.lexV text) with
  | error e => simp [h1] at h
  | ok ms => simp only [h1] at h; exact elabDesign_ww ms s h
end Spydr.Verilog.Elab
