/-
  Verilog engine — WiresWF, part 3: the decidable predicate `wiresWF`, `reader_wiresWF` for any text, non-vacuity, and the
  witness `unnamed_port_on_declared` (a declared module may get an unnamed port).
-/
import Spydr.Verilog.WFWiresB
set_option maxHeartbeats 1600000
namespace Spydr.Verilog.Elab
open Spydr.Verilog

/-! ### WiresWF as a decidable predicate; what is NOT a property: declared modules may get an unnamed port -/

/-- **WiresWF** (decidable): in every definition the wire ids of its nets are pairwise distinct (also across nets) and
    below the counter, and every net has at least one wire -/
def wiresWF (s : St) : Bool :=
  s.defs.all (fun d => decide ((wiresOf d).Nodup) && (wiresOf d).all (fun w => decide (w < s.next)) &&
    d.cables.all (fun c => decide (1 ≤ c.wires.length)))

theorem wiresWF_iff (s : St) : wiresWF s = true ↔ WW s := by
  unfold wiresWF WW
  simp only [List.all_eq_true, Bool.and_eq_true, decide_eq_true_eq]
  constructor
  · intro h d hd
    obtain ⟨⟨a, b⟩, c⟩ := h d hd
    exact ⟨a, b, c⟩
  · intro h d hd
    obtain ⟨a, b, c⟩ := h d hd
    exact ⟨⟨a, b⟩, c⟩

/-- **reader_wiresWF.**  For ANY text: whatever the reader accepts satisfies `wiresWF`. -/
theorem reader_wiresWF (text : String) (s : St) (h : Parse.readV text = .ok s) : wiresWF s = true :=
  (wiresWF_iff s).mpr (readV_ww text s h)

theorem elab_wiresWF (ms : List Module) (s : St) (h : elabDesign ms = .ok s) : wiresWF s = true :=
  (wiresWF_iff s).mpr (elabDesign_ww ms s h)

/-- non-vacuity -/
theorem exNet_wiresWF : ∃ text s, Parse.readV text = .ok s ∧ wiresWF s = true := by
  obtain ⟨text, _, s, _, _, _, h, _⟩ := exNet_roundtrip
  exact ⟨text, s, h, reader_wiresWF text s h⟩

/-- "every port of a module the file declares is named" is NOT a property of accepted designs: a positional port map with
    more expressions than the module has ports silently adds an UNNAMED port to the declared module (model and
    `connect_implicitly_mapped_ports` alike; confirmed on /repo) -/
def exUnnamed : List Module :=
  [⟨"M", false, [], [], [⟨"a", none, none, none⟩], [.portDecl .inp none none "a" []]⟩,
   ⟨"top", false, [], [], [⟨"x", none, none, none⟩, ⟨"y", none, none, none⟩],
     [.portDecl .inp none none "x" [], .portDecl .inp none none "y" [],
      .inst "M" "u0" [] [] false [(none, .atom (.id "x")), (none, .atom (.id "y"))]]⟩]

theorem unnamed_port_on_declared :
    ∃ s D, elabDesign exUnnamed = .ok s ∧ D ∈ s.defs ∧ D.name = "M" ∧ D.lib = some "work" ∧ ∃ P ∈ D.ports, P.name = none := by
  cases h : elabDesign exUnnamed with
  | error e =>
    exfalso
    have : (match elabDesign exUnnamed with | .ok _ => true | .error _ => false) = true := by decide
    rw [h] at this; cases this
  | ok s =>
    have hk : (match elabDesign exUnnamed with
      | .ok s => s.defs.any (fun D => D.name == "M" && D.lib == some "work" && D.ports.any (fun P => P.name.isNone))
      | .error _ => false) = true := by decide
    rw [h] at hk
    simp only [List.any_eq_true, Bool.and_eq_true, beq_iff_eq] at hk
    obtain ⟨D, hD, ⟨h1, h2⟩, P, hP, h3⟩ := hk
    refine ⟨s, D, rfl, hD, h1, h2, P, hP, ?_⟩
    cases hp : P.name with
    | none => rfl
    | some v => rw [hp] at h3; cases h3
end Spydr.Verilog.Elab
