/-
  Verilog engine — WiresWF, part 3: the decidable predicate `wiresWF`, `reader_wiresWF` for any text, non-vacuity, and the
  witnesses `positional_too_many_rejected` (a positional map longer than the port list of a DECLARED module: rejected after the
  repair docs/fixes/verilog_positional_too_many.diff) and `positional_undeclared_creates_ports`.
-/
import Spydr.Verilog.WFWiresB
set_option maxHeartbeats 1600000
namespace Spydr.Verilog.Elab
open Spydr.Verilog

/-! ### WiresWF as a decidable predicate; what is NOT a property: declared modules may get an unnamed port -/

/-- **WiresWF** (decidable): in every definition the wire ids of its nets are pairwise distinct (also across nets) and
    below the counter, and every net has at least one wire -/
def wiresWF (s : St) : Bool :=
  s.defs.all (fun d => decide ((wiresOf d).Nodup) && (wiresOf d).all (fun w => decide (w < s.next)) &&
    d.cables.all (fun c => decide (1 ≤ c.wires.length)))

theorem wiresWF_iff (s : St) : wiresWF s = true ↔ WW s := by
  unfold wiresWF WW
  simp only [List.all_eq_true, Bool.and_eq_true, decide_eq_true_eq]
  constructor
  · intro h d hd
    obtain ⟨⟨a, b⟩, c⟩ := h d hd
    exact ⟨a, b, c⟩
  · intro h d hd
    obtain ⟨a, b, c⟩ := h d hd
    exact ⟨⟨a, b⟩, c⟩

/-- **reader_wiresWF.**  For ANY text: whatever the reader accepts satisfies `wiresWF`. -/
theorem reader_wiresWF (text : String) (s : St) (h : Parse.readV text = .ok s) : wiresWF s = true :=
  (wiresWF_iff s).mpr (readV_ww text s h)

theorem elab_wiresWF (ms : List Module) (s : St) (h : elabDesign ms = .ok s) : wiresWF s = true :=
  (wiresWF_iff s).mpr (elabDesign_ww ms s h)

/-- non-vacuity -/
theorem exNet_wiresWF : ∃ text s, Parse.readV text = .ok s ∧ wiresWF s = true := by
  obtain ⟨text, _, s, _, _, _, h, _⟩ := exNet_roundtrip
  exact ⟨text, s, h, reader_wiresWF text s h⟩

/-- A positional port map with more expressions than a DECLARED module has ports.  The unrepaired reader silently added an
    UNNAMED port to the declared module (finding `sdn.parse.accepts.positional-map-longer-than-declared-port-list`,
    docs/fixes/verilog_positional_too_many.diff); the repaired reader — and the model — reject the text. -/
def exUnnamed : List Module :=
  [⟨"M", false, [], [], [⟨"a", none, none, none⟩], [.portDecl .inp none none "a" []]⟩,
   ⟨"top", false, [], [], [⟨"x", none, none, none⟩, ⟨"y", none, none, none⟩],
     [.portDecl .inp none none "x" [], .portDecl .inp none none "y" [],
      .inst "M" "u0" [] [] false [(none, .atom (.id "x")), (none, .atom (.id "y"))]]⟩]

theorem positional_too_many_rejected : ∃ e, elabDesign exUnnamed = .error e := by
  cases h : elabDesign exUnnamed with
  | error e => exact ⟨e, rfl⟩
  | ok s =>
    exfalso
    have : (match elabDesign exUnnamed with | .ok _ => false | .error _ => true) = true := by decide
    rw [h] at this; cases this

/-- the same map on a module the file never declares still creates the (unnamed) ports -/
def exUnnamedBB : List Module :=
  [⟨"top", false, [], [], [⟨"x", none, none, none⟩, ⟨"y", none, none, none⟩],
     [.portDecl .inp none none "x" [], .portDecl .inp none none "y" [],
      .inst "M" "u0" [] [] false [(none, .atom (.id "x")), (none, .atom (.id "y"))]]⟩]

theorem positional_undeclared_creates_ports :
    ∃ s D, elabDesign exUnnamedBB = .ok s ∧ D ∈ s.defs ∧ D.name = "M" ∧ D.primitive = true ∧ D.ports.map (·.name) = [none, none] := by
  cases h : elabDesign exUnnamedBB with
  | error e =>
    exfalso
    have : (match elabDesign exUnnamedBB with | .ok _ => true | .error _ => false) = true := by decide
    rw [h] at this; cases this
  | ok s =>
    have hk : (match elabDesign exUnnamedBB with
      | .ok s => s.defs.any (fun D => D.name == "M" && D.primitive && D.ports.map (·.name) == [none, none])
      | .error _ => false) = true := by decide
    rw [h] at hk
    simp only [List.any_eq_true, Bool.and_eq_true, beq_iff_eq] at hk
    obtain ⟨D, hD, ⟨h1, h2⟩, h3⟩ := hk
    exact ⟨s, D, rfl, hD, h1, h2, h3⟩
end Spydr.Verilog.Elab
