import Spydr.Xform.Props.C08
import Spydr.Xform.Props.C09
open Spydr.Xform
#print axioms uniquify_wf
#print axioms uniquify_unique
#print axioms uniquify_preserves_elab
#print axioms uniquify_preserves_nets
#print axioms uniquify_fresh_names
#print axioms uniquify_step_position
#print axioms uniquify_idem
#print axioms flatten_leaves
#print axioms leaf_occurrence_unique
#print axioms flatten_preserves_conn
#print axioms flatten_wf
#print axioms uniquify_never_stuck
#print axioms flatten_finishes
#print axioms connU_eq_conn
#print axioms flatten_preserves_elab_conn
#print axioms uniquify_behind_original
#print axioms uniquify_finishes
#print axioms uniquify_correct
#print axioms flatten_leftovers
