import Spydr.Xform.Props.C08
import Spydr.Xform.Props.C09
