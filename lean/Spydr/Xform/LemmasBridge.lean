/-
  The bridge between the two connectivity semantics: on a uniquified design with netlist-wide
  identifiers, the path-based elaborated connectivity `HConn` (SpecElab) and the heap-level `ConnU`
  (SpecFlat) agree on hierarchical pins / top-level port bits, via the map that forgets the path.
-/
import Spydr.Xform.LemmasFlatB4

set_option linter.unusedVariables false

namespace Spydr.Xform

theorem defAtFrom_eq_walk (d : Design) : ∀ (p : List Nat) (x : Nat), defAtFrom d x p = (walk d x p).map (·.2)
  | [], x => rfl
  | i :: p, x => by
    simp only [defAtFrom, walk]
    cases hc : childById (d.defs x) i with
    | none => rfl
    | some c =>
      simp only
      rw [defAtFrom_eq_walk d p c.ref]
      cases walk d c.ref p with
      | none => rfl
      | some r => rfl

theorem defAt_some {d : Design} {p : List Nat} {x : Nat} (h : defAt d p = some x) :
    ∃ cs, walk d d.top p = some (cs, x) := by
  simp only [defAt, defAtFrom_eq_walk] at h
  cases hw : walk d d.top p with
  | none => rw [hw] at h; cases h
  | some r =>
    obtain ⟨cs, y⟩ := r
    rw [hw] at h
    simp only [Option.map_some, Option.some.injEq] at h
    subst h
    exact ⟨cs, rfl⟩

theorem defAt_of_walk {d : Design} {p : List Nat} {cs : List Inst} {x : Nat} (h : walk d d.top p = some (cs, x)) :
    defAt d p = some x := by
  simp only [defAt, defAtFrom_eq_walk, h, Option.map_some]

/-- forget the path of a hierarchical node -/
def forget (d : Design) : HNode → UNode
  | .wire p ci wi =>
    match defAt d p with
    | none => .W 0 0
    | some x =>
      match (d.defs x).cables[ci]? with
      | none => .W 0 0
      | some c => .W c.id wi
  | .pin _ iid pi b => .P iid pi b
  | .tport pi b => .T pi b

/-- a hierarchical node that exists in the elaboration -/
def ValidH (d : Design) : HNode → Prop
  | .wire p ci wi => ∃ x c, defAt d p = some x ∧ (d.defs x).cables[ci]? = some c
  | .pin p iid _ _ => ∃ j, instAt d p iid = some j
  | .tport _ _ => True

section bridge
variable {d : Design}

theorem wireAt_some {D : Defn} {ci wi : Nat} {w : List Pin} (h : wireAt D ci wi = some w) :
    ∃ c, D.cables[ci]? = some c ∧ c.wires[wi]? = some w := by
  simp only [wireAt] at h
  cases hc : D.cables[ci]? with
  | none => simp [hc] at h
  | some c => exact ⟨c, rfl, by simpa [hc] using h⟩

theorem forget_wire {p : List Nat} {x ci wi : Nat} {c : Cable} (hx : defAt d p = some x)
    (hc : (d.defs x).cables[ci]? = some c) : forget d (.wire p ci wi) = .W c.id wi := by
  simp only [forget, hx, hc]

/-- every hierarchical edge is an edge of the heap-level graph -/
theorem hadj_forget (hyp : Hyp d) {a b : HNode} (h : HAdj d a b) : UAdj d (forget d a) (forget d b) := by
  cases h with
  | @outer p x ci wi w iid pi bit hx hw hp =>
    obtain ⟨c, hc, hcw⟩ := wireAt_some hw
    obtain ⟨cs, hwalk⟩ := defAt_some hx
    have hxlt := reach_lt hyp.wf (walk_reach p _ cs x Reach.top hwalk)
    rw [forget_wire hx hc]
    exact UAdj.outer hxlt (List.mem_of_getElem? hc) hcw hp
  | @inner p iid x ci wi w pi bit hx hw hp =>
    obtain ⟨c, hc, hcw⟩ := wireAt_some hw
    obtain ⟨cs, hwalk⟩ := defAt_some hx
    obtain ⟨cs1, y, j, h1, h2, h3⟩ := walk_snoc_inv p _ iid _ hwalk
    simp only [Prod.mk.injEq] at h3
    have hyR := walk_reach p _ cs1 y Reach.top h1
    have hjm := (childById_id h2).2
    have hjid := (childById_id h2).1
    have hxlt := reach_lt hyp.wf (walk_reach _ _ cs x Reach.top hwalk)
    rw [forget_wire hx hc]
    have : UNode.P iid pi bit = UNode.P j.id pi bit := by rw [hjid]
    simp only [forget]
    rw [this]
    exact UAdj.inner hxlt (by rw [h3.2]; exact reach_child_ne_top hyp.acyc hyp.wf hyR hjm) (List.mem_of_getElem? hc) hcw hp
      ⟨y, reach_lt hyp.wf hyR, hjm⟩ h3.2.symm
  | @top ci wi w pi bit hw hp =>
    obtain ⟨c, hc, hcw⟩ := wireAt_some hw
    have hx : defAt d [] = some d.top := rfl
    rw [forget_wire hx hc]
    exact UAdj.top (List.mem_of_getElem? hc) hcw hp

theorem hconn_forget (hyp : Hyp d) {a b : HNode} (h : HConn d a b) : ConnU d (forget d a) (forget d b) :=
  Conn.map (forget d) (fun _ _ hab => Conn.rel (hadj_forget hyp hab)) h

/-! ### backward: lifting heap edges to every hierarchical preimage -/

/-- every valid hierarchical preimage of `a'` is connected to some valid preimage of `b'` -/
def Lifts (d : Design) (a' b' : UNode) : Prop :=
  ∀ a, ValidH d a → forget d a = a' → ∃ b, ValidH d b ∧ forget d b = b' ∧ HConn d a b

theorem Lifts.refl (a' : UNode) : Lifts d a' a' := fun a va ha => ⟨a, va, ha, Conn.refl a⟩

theorem Lifts.trans {a' b' c' : UNode} (h1 : Lifts d a' b') (h2 : Lifts d b' c') : Lifts d a' c' := by
  intro a va ha
  obtain ⟨b, vb, hb, hab⟩ := h1 a va ha
  obtain ⟨c, vc, hc, hbc⟩ := h2 b vb hb
  exact ⟨c, vc, hc, Conn.trans hab hbc⟩

/-- a valid wire node's forgetful image determines the definition and the cable -/
theorem valid_wire_forget (hyp : Hyp d) {p : List Nat} {ci wi : Nat} {cid k : Nat}
    (hv : ValidH d (.wire p ci wi)) (hf : forget d (.wire p ci wi) = .W cid k) :
    ∃ x c cs, walk d d.top p = some (cs, x) ∧ (d.defs x).cables[ci]? = some c ∧ c.id = cid ∧ wi = k := by
  obtain ⟨x, c, hx, hc⟩ := hv
  rw [forget_wire hx hc] at hf
  simp only [UNode.W.injEq] at hf
  obtain ⟨cs, hw⟩ := defAt_some hx
  exact ⟨x, c, cs, hw, hc, hf.1, hf.2⟩

theorem nonleaf_of_child {D : Defn} {c : Inst} (h : c ∈ D.children) : D.isLeaf = false := by
  simp only [Defn.isLeaf]
  cases hch : D.children with
  | nil => rw [hch] at h; simp at h
  | cons a l => simp

theorem nonleaf_of_cable {D : Defn} {c : Cable} (h : c ∈ D.cables) : D.isLeaf = false := by
  simp only [Defn.isLeaf]
  cases hch : D.cables with
  | nil => rw [hch] at h; simp at h
  | cons a l => simp

theorem uadj_lifts (hyp : Hyp d) {a' b' : UNode} (h : UAdj d a' b') : Lifts d a' b' ∧ Lifts d b' a' := by
  cases h with
  | @outer x c k w iid pi bit hx hc hw hp =>
    -- the instance is a child of `x`
    obtain ⟨j, hj, hjid, _⟩ := hyp.wire_pinOk hx hc (List.mem_of_getElem? hw) hp
    refine ⟨?_, ?_⟩
    · intro a va ha
      cases a with
      | pin _ _ _ _ => simp [forget] at ha
      | tport _ _ => simp [forget] at ha
      | wire p ci wi =>
        obtain ⟨x', c', cs, hwalk, hc', hid', hk⟩ := valid_wire_forget hyp va ha
        subst hk
        have hx' := reach_lt hyp.wf (walk_reach p _ cs x' Reach.top hwalk)
        have hxx : x' = x := hyp.cable_ids_disjoint hx' hx (List.mem_of_getElem? hc') hc hid'
        subst hxx
        have hcc : c' = c := by
          have hnd := hyp.ids.2.2.1 x' (by simpa using hx')
          exact nodup_map_inj hnd (List.mem_of_getElem? hc') hc hid'
        subst hcc
        refine ⟨.pin p iid pi bit, ?_, rfl, Conn.rel (HAdj.outer (defAt_of_walk hwalk) (by simp [wireAt, hc', hw]) hp)⟩
        refine ⟨j, ?_⟩
        simp only [instAt, defAt_of_walk hwalk]
        rw [← hjid]; exact childById_of_mem (hyp.ids_nodup hx') hj
    · intro a va ha
      cases a with
      | wire _ _ _ => simp only [forget] at ha; split at ha <;> (try split at ha) <;> simp at ha
      | tport _ _ => simp [forget] at ha
      | pin p iid' pi' bit' =>
        simp only [forget, UNode.P.injEq] at ha
        obtain ⟨rfl, rfl, rfl⟩ := ha
        obtain ⟨j', hj'⟩ := va
        simp only [instAt] at hj'
        cases hdp : defAt d p with
        | none => simp [hdp] at hj'
        | some y =>
          simp only [hdp] at hj'
          obtain ⟨cs, hwalk⟩ := defAt_some hdp
          have hy := reach_lt hyp.wf (walk_reach p _ cs y Reach.top hwalk)
          have hyx : y = x := hyp.ids_disjoint hy hx (childById_id hj').2 hj ((childById_id hj').1.trans hjid.symm)
          subst hyx
          obtain ⟨ci, hci⟩ := List.getElem?_of_mem hc
          refine ⟨.wire p ci k, ⟨y, c, hdp, hci⟩, forget_wire hdp hci,
            Conn.symm (Conn.rel (HAdj.outer hdp (by simp [wireAt, hci, hw]) hp))⟩
  | @inner x c k w j pi bit hx hxt hc hw hp hj hr =>
    have hxl : (d.defs x).isLeaf = false := nonleaf_of_cable hc
    obtain ⟨q, hq, hjq⟩ := hj
    refine ⟨?_, ?_⟩
    · intro a va ha
      cases a with
      | pin _ _ _ _ => simp [forget] at ha
      | tport _ _ => simp [forget] at ha
      | wire p ci wi =>
        obtain ⟨x', c', cs, hwalk, hc', hid', hk⟩ := valid_wire_forget hyp va ha
        subst hk
        have hx' := reach_lt hyp.wf (walk_reach p _ cs x' Reach.top hwalk)
        have hxx : x' = x := hyp.cable_ids_disjoint hx' hx (List.mem_of_getElem? hc') hc hid'
        subst hxx
        have hcc : c' = c := nodup_map_inj (hyp.ids.2.2.1 x' (by simpa using hx')) (List.mem_of_getElem? hc') hc hid'
        subst hcc
        -- the path is non-empty and ends in an instance of `x`, which must be `j`
        rcases snoc_cases p with rfl | ⟨p1, i, rfl⟩
        · simp only [walk, Option.some.injEq, Prod.mk.injEq] at hwalk
          exact absurd hwalk.2.symm hxt
        · obtain ⟨cs1, y, j', h1, h2, h3⟩ := walk_snoc_inv p1 _ i _ hwalk
          simp only [Prod.mk.injEq] at h3
          have hyR := walk_reach p1 _ cs1 y Reach.top h1
          have hy := reach_lt hyp.wf hyR
          have hcnt : d.refCount x' = 1 := by
            rcases hyp.uniq y j' hyR (childById_id h2).2 with h | h
            · rw [← h3.2, hxl] at h; cases h
            · rw [← h3.2] at h; exact h
          obtain ⟨rfl, rfl⟩ := ref_unique_of_count hcnt hy hq (childById_id h2).2 hjq h3.2.symm hr
          have hi : i = j'.id := (childById_id h2).1.symm
          subst hi
          refine ⟨.pin p1 j'.id pi bit, ⟨j', by simp only [instAt, defAt_of_walk h1]; exact h2⟩, rfl,
            Conn.rel (HAdj.inner (defAt_of_walk hwalk) (by simp [wireAt, hc', hw]) hp)⟩
    · intro a va ha
      cases a with
      | wire _ _ _ => simp only [forget] at ha; split at ha <;> (try split at ha) <;> simp at ha
      | tport _ _ => simp [forget] at ha
      | pin p iid' pi' bit' =>
        simp only [forget, UNode.P.injEq] at ha
        obtain ⟨rfl, rfl, rfl⟩ := ha
        obtain ⟨j', hj'⟩ := va
        simp only [instAt] at hj'
        cases hdp : defAt d p with
        | none => simp [hdp] at hj'
        | some y =>
          simp only [hdp] at hj'
          obtain ⟨cs, hwalk⟩ := defAt_some hdp
          have hy := reach_lt hyp.wf (walk_reach p _ cs y Reach.top hwalk)
          have hyq : y = q := hyp.ids_disjoint hy hq (childById_id hj').2 hjq (childById_id hj').1
          subst hyq
          have hjj : j' = j := hyp.child_eq hy (childById_id hj').2 hjq (childById_id hj').1
          subst hjj
          have hwalk' := walk_snoc p _ cs y j'.id j' hwalk hj'
          rw [hr] at hwalk'
          obtain ⟨ci, hci⟩ := List.getElem?_of_mem hc
          refine ⟨.wire (p ++ [j'.id]) ci k, ⟨x, c, defAt_of_walk hwalk', hci⟩, forget_wire (defAt_of_walk hwalk') hci,
            Conn.symm (Conn.rel (HAdj.inner (defAt_of_walk hwalk') (by simp [wireAt, hci, hw]) hp))⟩
  | @top c k w pi bit hc hw hp =>
    refine ⟨?_, ?_⟩
    · intro a va ha
      cases a with
      | pin _ _ _ _ => simp [forget] at ha
      | tport _ _ => simp [forget] at ha
      | wire p ci wi =>
        obtain ⟨x', c', cs, hwalk, hc', hid', hk⟩ := valid_wire_forget hyp va ha
        subst hk
        have hx' := reach_lt hyp.wf (walk_reach p _ cs x' Reach.top hwalk)
        have hxx : x' = d.top := hyp.cable_ids_disjoint hx' hyp.wf.1 (List.mem_of_getElem? hc') hc hid'
        subst hxx
        have hcc : c' = c := nodup_map_inj (hyp.ids.2.2.1 _ (by simpa using hx')) (List.mem_of_getElem? hc') hc hid'
        subst hcc
        obtain ⟨rfl, _⟩ := walk_nil_of_top hyp hwalk
        exact ⟨.tport pi bit, trivial, rfl, Conn.rel (HAdj.top (by simp [wireAt, hc', hw]) hp)⟩
    · intro a va ha
      cases a with
      | wire _ _ _ => simp only [forget] at ha; split at ha <;> (try split at ha) <;> simp at ha
      | pin _ _ _ _ => simp [forget] at ha
      | tport pi' bit' =>
        simp only [forget, UNode.T.injEq] at ha
        obtain ⟨rfl, rfl⟩ := ha
        obtain ⟨ci, hci⟩ := List.getElem?_of_mem hc
        have hx : defAt d [] = some d.top := rfl
        exact ⟨.wire [] ci k, ⟨d.top, c, hx, hci⟩, forget_wire hx hci,
          Conn.symm (Conn.rel (HAdj.top (by simp [wireAt, hci, hw]) hp))⟩

theorem connU_lifts (hyp : Hyp d) {a' b' : UNode} (h : ConnU d a' b') : Lifts d a' b' ∧ Lifts d b' a' := by
  induction h with
  | rel hab => exact uadj_lifts hyp hab
  | refl a => exact ⟨Lifts.refl a, Lifts.refl a⟩
  | symm _ ih => exact ⟨ih.2, ih.1⟩
  | trans _ _ ih1 ih2 => exact ⟨ih1.1.trans ih2.1, ih2.2.trans ih1.2⟩

/-- the forgetful map is injective on valid pins and top-level port bits -/
theorem forget_inj_endpoint (hyp : Hyp d) {a b : HNode} (va : ValidH d a) (vb : ValidH d b)
    (hb : ∀ p ci wi, b ≠ .wire p ci wi) (ha : ∀ p ci wi, a ≠ .wire p ci wi) (h : forget d a = forget d b) : a = b := by
  cases a with
  | wire p ci wi => exact absurd rfl (ha p ci wi)
  | tport pi bit =>
    cases b with
    | wire p ci wi => exact absurd rfl (hb p ci wi)
    | tport pi' bit' => simpa [forget] using h
    | pin _ _ _ _ => simp [forget] at h
  | pin p iid pi bit =>
    cases b with
    | wire p ci wi => exact absurd rfl (hb p ci wi)
    | tport _ _ => simp [forget] at h
    | pin p' iid' pi' bit' =>
      simp only [forget, UNode.P.injEq] at h
      obtain ⟨rfl, rfl, rfl⟩ := h
      obtain ⟨j, hj⟩ := va
      obtain ⟨j', hj'⟩ := vb
      simp only [instAt] at hj hj'
      cases hdp : defAt d p with
      | none => simp [hdp] at hj
      | some y =>
        cases hdp' : defAt d p' with
        | none => simp [hdp'] at hj'
        | some y' =>
          simp only [hdp] at hj
          simp only [hdp'] at hj'
          obtain ⟨cs, hw⟩ := defAt_some hdp
          obtain ⟨cs', hw'⟩ := defAt_some hdp'
          have h1 := walk_snoc p _ cs y iid j hw hj
          have h2 := walk_snoc p' _ cs' y' iid j' hw' hj'
          have hid : j.id = j'.id := (childById_id hj).1.trans (childById_id hj').1.symm
          obtain ⟨hcs, hjj⟩ := path_unique hyp h1 h2 hid
          subst hjj
          have hy : y = y' := by
            have := hyp.ids_disjoint (reach_lt hyp.wf (walk_reach p _ cs y Reach.top hw))
              (reach_lt hyp.wf (walk_reach p' _ cs' y' Reach.top hw')) (childById_id hj).2 (childById_id hj').2 rfl
            exact this
          subst hy
          have hyl : (d.defs y).isLeaf = false := nonleaf_of_child (childById_id hj).2
          have := (walk_unique_to hyp _ p p' cs cs' y rfl hw hw' hyl).1
          subst this
          rfl

/-- C09 bridge: on a uniquified design with netlist-wide identifiers, two hierarchical pins /
    top-level port bits are connected in the elaboration iff their path-forgetting images are
    connected in the heap-level graph. -/
theorem hconn_iff_connU (hyp : Hyp d) {a b : HNode} (va : ValidH d a) (vb : ValidH d b)
    (ha : ∀ p ci wi, a ≠ .wire p ci wi) (hb : ∀ p ci wi, b ≠ .wire p ci wi) :
    HConn d a b ↔ ConnU d (forget d a) (forget d b) := by
  constructor
  · exact hconn_forget hyp
  · intro h
    obtain ⟨b2, vb2, hb2, hab2⟩ := (connU_lifts hyp h).1 a va rfl
    have hb2w : ∀ p ci wi, b2 ≠ .wire p ci wi := by
      intro p ci wi e
      subst e
      cases b with
      | wire p' ci' wi' => exact absurd rfl (hb p' ci' wi')
      | pin _ _ _ _ => simp only [forget] at hb2; split at hb2 <;> (try split at hb2) <;> simp at hb2
      | tport _ _ => simp only [forget] at hb2; split at hb2 <;> (try split at hb2) <;> simp at hb2
    have := forget_inj_endpoint hyp vb2 vb hb hb2w hb2
    subst this
    exact hab2

end bridge

end Spydr.Xform
