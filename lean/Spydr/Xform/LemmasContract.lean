/-
  The graph step behind `_redo_connections` (abstract form, after the design-phase prototype
  Contract.lean): wires are given by a function `pinsOf : label → List Pin`, a wire touches the node
  of each of its pins (`nodeOf`: the outer pin `inst i p b` and the lifted inner pin `inner i p b` are
  the SAME node `P i p b`), `R` is the rest of the graph.  `redoWire` applied to every wire
  (`redoOf`) preserves connectivity between all nodes other than wires and the dissolved pin `P i p b`.

  Two shapes: (merge) inner and outer wire both exist and differ — the inner net is contracted into
  the outer wire; (delete) otherwise — the dissolved pin only loses its edges, which all went to one
  wire.
-/
import Spydr.Xform.ModelFlatten
import Spydr.Xform.SpecFlat
import Spydr.Xform.LemmasElab

set_option linter.unusedSimpArgs false

namespace Spydr.Xform

def nodeOf : Pin → UNode
  | .port pi b => .T pi b
  | .inst i pi b => .P i pi b
  | .inner i pi b => .P i pi b

theorem nodeOf_ne_W (p : Pin) (c k : Nat) : nodeOf p ≠ .W c k := by cases p <;> simp [nodeOf]

theorem nodeOf_eq_P {p : Pin} {i pi b : Nat} (h : nodeOf p = .P i pi b) : p = .inner i pi b ∨ p = .inst i pi b := by
  cases p <;> simp [nodeOf] at h
  · right; obtain ⟨rfl, rfl, rfl⟩ := h; rfl
  · left; obtain ⟨rfl, rfl, rfl⟩ := h; rfl

abbrev Label := Nat × Nat

/-- wires of the top definition touch the nodes of their pins; `R`: all other edges -/
def WAdj (pinsOf : Label → List Pin) (R : UNode → UNode → Prop) (a b : UNode) : Prop :=
  (∃ l p, a = .W l.1 l.2 ∧ p ∈ pinsOf l ∧ b = nodeOf p) ∨ R a b

def redoOf (pinsOf : Label → List Pin) (ip op : Pin) (inW : Option (List Pin)) (hasOut : Bool) : Label → List Pin :=
  fun l => redoWire ip op inW hasOut (pinsOf l)

/-- every pin is on at most one wire, at most once -/
structure PinsOk (pinsOf : Label → List Pin) : Prop where
  nodup : ∀ l, (pinsOf l).Nodup
  uniq : ∀ p l1 l2, p ∈ pinsOf l1 → p ∈ pinsOf l2 → l1 = l2

/-! ### generic deletion of a node all of whose edges come from one node -/

theorem conn_delete {E E' : UNode → UNode → Prop} {N M : UNode} (hMN : M ≠ N)
    (h1 : ∀ a b, E' a b → E a b)
    (h2 : ∀ a b, E a b → (E' a b ∧ a ≠ N ∧ b ≠ N) ∨ (a = M ∧ b = N))
    {a b : UNode} (ha : a ≠ N) (hb : b ≠ N) : Conn E a b ↔ Conn E' a b := by
  constructor
  · intro h
    have := Conn.map (s := E') (fun n => if n = N then M else n) (by
      intro u v huv
      rcases h2 u v huv with ⟨h, hu, hv⟩ | ⟨rfl, rfl⟩
      · simp only [hu, hv, if_false]; exact Conn.rel h
      · simp only [hMN, if_false, if_true]; exact Conn.refl _) h
    simpa [ha, hb] using this
  · exact Conn.mono h1

/-! ### what `redoWire` does to membership -/

def InSpec (pinsOf : Label → List Pin) (ip : Pin) (inW : Option (List Pin)) : Prop :=
  (inW = none ∧ ∀ l, ip ∉ pinsOf l) ∨ (∃ lI, ip ∈ pinsOf lI ∧ inW = some (pinsOf lI))

def OutSpec (pinsOf : Label → List Pin) (op : Pin) (hasOut : Bool) : Prop :=
  (hasOut = false ∧ ∀ l, op ∉ pinsOf l) ∨ (hasOut = true ∧ ∃ lO, op ∈ pinsOf lO)

theorem redoWire_mem_iff {ip op : Pin} {inW : Option (List Pin)} {hasOut : Bool} {w : List Pin} (hw : w.Nodup)
    (hI : ∀ I, inW = some I → I.Nodup) (p : Pin) :
    p ∈ redoWire ip op inW hasOut w ↔
      (ip ∈ w ∧ op ∈ w ∧ p ∈ w ∧ p ≠ ip ∧ p ≠ op) ∨
      (ip ∈ w ∧ op ∉ w ∧ hasOut = false ∧ p ∈ w ∧ p ≠ ip) ∨
      (ip ∉ w ∧ op ∈ w ∧ ((p ∈ w ∧ p ≠ op) ∨ ∃ I, inW = some I ∧ p ∈ I ∧ p ≠ ip)) ∨
      (ip ∉ w ∧ op ∉ w ∧ p ∈ w) := by
  unfold redoWire
  by_cases h1 : ip ∈ w <;> by_cases h2 : op ∈ w
  · simp only [List.contains_iff_mem, h1, h2, if_true]
    rw [(hw.erase ip).mem_erase_iff, hw.mem_erase_iff]
    simp [h1, h2]; grind
  · simp only [List.contains_iff_mem, h1, h2, if_true, if_false]
    cases hasOut
    · simp only [Bool.false_eq_true, if_false]
      rw [hw.mem_erase_iff]; simp [h1, h2]; grind
    · simp [h1, h2]
  · simp only [List.contains_iff_mem, h1, h2, if_true, if_false]
    cases hin : inW with
    | none =>
      simp only
      rw [hw.mem_erase_iff]; simp [h1, h2]; grind
    | some I =>
      simp only [List.mem_append]
      rw [hw.mem_erase_iff, (hI I hin).mem_erase_iff]; simp [h1, h2]; grind
  · simp [List.contains_iff_mem, h1, h2]

/-! ### the two shapes of one redo step -/

/-- both pins only disappear; everything that touched the dissolved pin was one wire `lM` -/
def DeleteShape (pinsOf pinsOf' : Label → List Pin) (ip op : Pin) : Prop :=
  (∀ l p, p ∈ pinsOf' l ↔ p ∈ pinsOf l ∧ p ≠ ip ∧ p ≠ op) ∧
  ∃ lM : Label, ∀ l, (ip ∈ pinsOf l ∨ op ∈ pinsOf l) → l = lM

/-- the inner wire `lI` is emptied into the outer wire `lO` -/
def MergeShape (pinsOf pinsOf' : Label → List Pin) (ip op : Pin) (lI lO : Label) : Prop :=
  ip ∈ pinsOf lI ∧ op ∈ pinsOf lO ∧ lI ≠ lO ∧
  ∀ l p, p ∈ pinsOf' l ↔ (l ≠ lI ∧ ((p ∈ pinsOf l ∧ p ≠ op) ∨ (l = lO ∧ p ∈ pinsOf lI ∧ p ≠ ip)))

section shapes
variable {pinsOf : Label → List Pin} {ip op : Pin} {inW : Option (List Pin)} {hasOut : Bool}

theorem redo_shape (ok : PinsOk pinsOf) (_hne : ip ≠ op) (hin : InSpec pinsOf ip inW) (hout : OutSpec pinsOf op hasOut) :
    DeleteShape pinsOf (redoOf pinsOf ip op inW hasOut) ip op ∨
    ∃ lI lO, MergeShape pinsOf (redoOf pinsOf ip op inW hasOut) ip op lI lO := by
  have hI : ∀ I, inW = some I → I.Nodup := by
    intro I hI
    rcases hin with ⟨h, _⟩ | ⟨lI, _, h⟩
    · rw [h] at hI; cases hI
    · rw [h] at hI; cases hI; exact ok.nodup lI
  have hmem := fun l p => redoWire_mem_iff (ip := ip) (op := op) (inW := inW) (hasOut := hasOut) (ok.nodup l) hI p
  rcases hin with ⟨hinW, hnoip⟩ | ⟨lI, hipI, hinW⟩
  · -- the inner pin is on no wire
    left
    refine ⟨?_, ?_⟩
    · intro l p
      simp only [redoOf]
      rw [hmem l p]
      have h1 := hnoip l
      simp only [h1, hinW, false_and, not_false_eq_true, true_and, false_or, reduceCtorEq, exists_false, or_false]
      constructor
      · rintro (⟨_, h, h'⟩ | ⟨h, h'⟩)
        · exact ⟨h, fun e => h1 (e ▸ h), h'⟩
        · exact ⟨h', fun e => h1 (e ▸ h'), fun e => h (e ▸ h')⟩
      · rintro ⟨h, _, h'⟩
        by_cases hop : op ∈ pinsOf l
        · exact Or.inl ⟨hop, h, h'⟩
        · exact Or.inr ⟨hop, h⟩
    · rcases hout with ⟨_, hnoop⟩ | ⟨_, lO, hopO⟩
      · exact ⟨(0, 0), fun l h => by rcases h with h | h; exact absurd h (hnoip l); exact absurd h (hnoop l)⟩
      · exact ⟨lO, fun l h => by rcases h with h | h; exact absurd h (hnoip l); exact ok.uniq _ _ _ h hopO⟩
  · rcases hout with ⟨hout, hnoop⟩ | ⟨hout, lO, hopO⟩
    · -- the outer pin is on no wire
      left
      refine ⟨?_, ⟨lI, fun l h => by rcases h with h | h; exact ok.uniq _ _ _ h hipI; exact absurd h (hnoop l)⟩⟩
      intro l p
      simp only [redoOf]
      rw [hmem l p]
      have h1 := hnoop l
      simp only [h1, hout, false_and, not_false_eq_true, true_and, false_or, and_false, or_false]
      constructor
      · rintro (⟨_, h, h'⟩ | ⟨h, h'⟩)
        · exact ⟨h, h', fun e => h1 (e ▸ h)⟩
        · exact ⟨h', fun e => h (e ▸ h'), fun e => h1 (e ▸ h')⟩
      · rintro ⟨h, h', _⟩
        by_cases hip : ip ∈ pinsOf l
        · exact Or.inl ⟨hip, h, h'⟩
        · exact Or.inr ⟨hip, h⟩
    · by_cases hsame : lI = lO
      · -- both pins on the same wire
        subst hsame
        left
        refine ⟨?_, ⟨lI, fun l h => by rcases h with h | h; exact ok.uniq _ _ _ h hipI; exact ok.uniq _ _ _ h hopO⟩⟩
        intro l p
        simp only [redoOf]
        rw [hmem l p]
        by_cases hl : l = lI
        · subst hl
          simp only [hipI, hopO, true_and, not_true_eq_false, false_and, or_false, and_false]
        · have h1 : ip ∉ pinsOf l := fun h => hl (ok.uniq _ _ _ h hipI)
          have h2 : op ∉ pinsOf l := fun h => hl (ok.uniq _ _ _ h hopO)
          simp only [h1, h2, false_and, not_false_eq_true, true_and, false_or]
          constructor
          · intro h; exact ⟨h, fun e => h1 (e ▸ h), fun e => h2 (e ▸ h)⟩
          · intro h; exact h.1
      · right
        refine ⟨lI, lO, hipI, hopO, hsame, ?_⟩
        intro l p
        simp only [redoOf]
        rw [hmem l p]
        by_cases hl : l = lI
        · subst hl
          have h2 : op ∉ pinsOf l := fun h => hsame (ok.uniq _ _ _ h hopO)
          simp [hipI, h2, hout]
        · have h1 : ip ∉ pinsOf l := fun h => hl (ok.uniq _ _ _ h hipI)
          by_cases hlo : l = lO
          · subst hlo
            simp only [h1, hopO, false_and, not_false_eq_true, true_and, false_or, not_true_eq_false, or_false, hinW,
              Option.some.injEq, ne_eq, hl]
            constructor
            · rintro (h | ⟨I, rfl, h⟩)
              · exact Or.inl h
              · exact Or.inr h
            · rintro (h | h)
              · exact Or.inl h
              · exact Or.inr ⟨_, rfl, h⟩
          · have h2 : op ∉ pinsOf l := fun h => hlo (ok.uniq _ _ _ h hopO)
            simp only [h1, h2, false_and, not_false_eq_true, true_and, false_or, ne_eq, hl, hlo, or_false]
            constructor
            · intro h; exact ⟨h, fun e => h2 (e ▸ h)⟩
            · intro h; exact h.1

/-- the redone wires still have every pin on at most one wire, once -/
theorem redo_pinsOk (ok : PinsOk pinsOf) (hne : ip ≠ op) (hin : InSpec pinsOf ip inW) (hout : OutSpec pinsOf op hasOut) :
    PinsOk (redoOf pinsOf ip op inW hasOut) := by
  have hshape := redo_shape ok hne hin hout
  refine ⟨?_, ?_⟩
  · intro l
    have hw := ok.nodup l
    simp only [redoOf, redoWire]
    by_cases h1 : (pinsOf l).contains ip = true
    · by_cases h2 : (pinsOf l).contains op = true
      · simp only [h1, h2, if_true]; exact (hw.erase ip).erase op
      · simp only [h1, h2, if_true, if_false]
        cases hasOut
        · simp only [Bool.false_eq_true, if_false]; exact hw.erase ip
        · simp only [if_true]; exact List.nodup_nil
    · by_cases h2 : (pinsOf l).contains op = true
      · simp only [h1, h2, if_true, if_false]
        rcases hin with ⟨h, _⟩ | ⟨lI, hipI, h⟩
        · rw [h]; exact hw.erase op
        · rw [h]
          refine List.nodup_append.mpr ⟨hw.erase op, (ok.nodup lI).erase ip, ?_⟩
          intro a ha b hb hab
          subst hab
          have e1 := List.mem_of_mem_erase ha
          have e2 := List.mem_of_mem_erase hb
          have : l = lI := ok.uniq _ _ _ e1 e2
          subst this
          exact h1 (by simpa using hipI)
      · simp only [h1, h2, if_false]; exact hw
  · rcases hshape with ⟨hm, _⟩ | ⟨lI, lO, _, _, hIO, hm⟩
    · intro p l1 l2 h1 h2
      exact ok.uniq p l1 l2 ((hm l1 p).mp h1).1 ((hm l2 p).mp h2).1
    · intro p l1 l2 h1 h2
      obtain ⟨hl1, h1⟩ := (hm l1 p).mp h1
      obtain ⟨hl2, h2⟩ := (hm l2 p).mp h2
      rcases h1 with ⟨h1, _⟩ | ⟨e1, h1, _⟩ <;> rcases h2 with ⟨h2, _⟩ | ⟨e2, h2, _⟩
      · exact ok.uniq p l1 l2 h1 h2
      · exact absurd (ok.uniq p l1 lI h1 h2) hl1
      · exact absurd (ok.uniq p l2 lI h2 h1) hl2
      · rw [e1, e2]

/-- neither of the two pins is on a wire afterwards -/
theorem redo_gone (ok : PinsOk pinsOf) (hne : ip ≠ op) (hin : InSpec pinsOf ip inW) (hout : OutSpec pinsOf op hasOut)
    (l : Label) (p : Pin) (hp : p ∈ redoOf pinsOf ip op inW hasOut l) : p ≠ ip ∧ p ≠ op := by
  rcases redo_shape ok hne hin hout with ⟨hm, _⟩ | ⟨lI, lO, hipI, hopO, hIO, hm⟩
  · exact ((hm l p).mp hp).2
  · obtain ⟨hl, h⟩ := (hm l p).mp hp
    rcases h with ⟨h, h'⟩ | ⟨e, h, h'⟩
    · exact ⟨fun e => hl (ok.uniq _ _ _ (e ▸ h) hipI), h'⟩
    · exact ⟨h', fun e => hIO (ok.uniq _ _ _ (e ▸ h) hopO)⟩

/-- pins are only removed or moved, never invented -/
theorem redo_subset (ok : PinsOk pinsOf) (hne : ip ≠ op) (hin : InSpec pinsOf ip inW) (hout : OutSpec pinsOf op hasOut)
    (l : Label) (p : Pin) (hp : p ∈ redoOf pinsOf ip op inW hasOut l) : ∃ l', p ∈ pinsOf l' := by
  rcases redo_shape ok hne hin hout with ⟨hm, _⟩ | ⟨lI, lO, _, _, _, hm⟩
  · exact ⟨l, ((hm l p).mp hp).1⟩
  · obtain ⟨_, h⟩ := (hm l p).mp hp
    rcases h with ⟨h, _⟩ | ⟨_, h, _⟩
    · exact ⟨l, h⟩
    · exact ⟨lI, h⟩

/-- and every other pin stays on some wire -/
theorem redo_keeps (ok : PinsOk pinsOf) (hne : ip ≠ op) (hin : InSpec pinsOf ip inW) (hout : OutSpec pinsOf op hasOut)
    (l : Label) (p : Pin) (hp : p ∈ pinsOf l) (h1 : p ≠ ip) (h2 : p ≠ op) : ∃ l', p ∈ redoOf pinsOf ip op inW hasOut l' := by
  rcases redo_shape ok hne hin hout with ⟨hm, _⟩ | ⟨lI, lO, _, _, hIO, hm⟩
  · exact ⟨l, (hm l p).mpr ⟨hp, h1, h2⟩⟩
  · by_cases hl : l = lI
    · subst hl
      exact ⟨lO, (hm lO p).mpr ⟨fun e => hIO e.symm, Or.inr ⟨rfl, hp, h1⟩⟩⟩
    · exact ⟨l, (hm l p).mpr ⟨hl, Or.inl ⟨hp, h2⟩⟩⟩

end shapes

/-! ### connectivity across one redo step -/

section conn
variable {pinsOf pinsOf' : Label → List Pin} {R : UNode → UNode → Prop} {iid pi bit : Nat}

theorem nodeOf_inner (i pi b : Nat) : nodeOf (.inner i pi b) = .P i pi b := rfl
theorem nodeOf_inst (i pi b : Nat) : nodeOf (.inst i pi b) = .P i pi b := rfl

theorem conn_of_delete (hs : DeleteShape pinsOf pinsOf' (.inner iid pi bit) (.inst iid pi bit))
    (hR : ∀ a b, R a b → a ≠ .P iid pi bit ∧ b ≠ .P iid pi bit)
    {a b : UNode} (ha : a ≠ .P iid pi bit) (hb : b ≠ .P iid pi bit) :
    Conn (WAdj pinsOf R) a b ↔ Conn (WAdj pinsOf' R) a b := by
  obtain ⟨hm, lM, hlM⟩ := hs
  refine conn_delete (N := .P iid pi bit) (M := .W lM.1 lM.2) (by simp) ?_ ?_ ha hb
  · rintro u v (⟨l, p, rfl, hp, rfl⟩ | h)
    · exact Or.inl ⟨l, p, rfl, ((hm l p).mp hp).1, rfl⟩
    · exact Or.inr h
  · rintro u v (⟨l, p, rfl, hp, rfl⟩ | h)
    · by_cases hpp : p = .inner iid pi bit ∨ p = .inst iid pi bit
      · right
        have hl : l = lM := hlM l (by rcases hpp with e | e <;> subst e; exact Or.inl hp; exact Or.inr hp)
        subst hl
        refine ⟨rfl, ?_⟩
        rcases hpp with e | e <;> subst e <;> rfl
      · left
        have h1 : p ≠ .inner iid pi bit := fun e => hpp (Or.inl e)
        have h2 : p ≠ .inst iid pi bit := fun e => hpp (Or.inr e)
        refine ⟨Or.inl ⟨l, p, rfl, (hm l p).mpr ⟨hp, h1, h2⟩, rfl⟩, by simp, ?_⟩
        intro e
        exact hpp (nodeOf_eq_P e)
    · exact Or.inl ⟨Or.inr h, (hR u v h).1, (hR u v h).2⟩

theorem conn_of_merge {lI lO : Label} (ok : PinsOk pinsOf)
    (hs : MergeShape pinsOf pinsOf' (.inner iid pi bit) (.inst iid pi bit) lI lO)
    (hR : ∀ a b, R a b → a ≠ .P iid pi bit ∧ b ≠ .P iid pi bit ∧ a ≠ .W lI.1 lI.2 ∧ ∀ c k, b ≠ .W c k)
    {a b : UNode} (ha : a ≠ .P iid pi bit) (hb : b ≠ .P iid pi bit)
    (haw : ∀ c k, a ≠ .W c k) (hbw : ∀ c k, b ≠ .W c k) :
    Conn (WAdj pinsOf R) a b ↔ Conn (WAdj pinsOf' R) a b := by
  obtain ⟨hipI, hopO, hIO, hm⟩ := hs
  let φ : UNode → UNode := fun n => if n = .P iid pi bit then .W lO.1 lO.2 else if n = .W lI.1 lI.2 then .W lO.1 lO.2 else n
  have hφa : φ a = a := by
    simp only [φ, ha, if_false]
    rw [if_neg (haw _ _)]
  have hφb : φ b = b := by
    simp only [φ, hb, if_false]
    rw [if_neg (hbw _ _)]
  have hφW : ∀ l : Label, φ (.W l.1 l.2) = if l = lI then .W lO.1 lO.2 else .W l.1 l.2 := by
    intro l
    simp only [φ, reduceCtorEq, if_false, UNode.W.injEq]
    by_cases hl : l = lI
    · subst hl; simp
    · have : ¬ (l.1 = lI.1 ∧ l.2 = lI.2) := fun e => hl (Prod.ext e.1 e.2)
      simp [hl, this]
  constructor
  · intro h
    have := Conn.map (s := WAdj pinsOf' R) φ (by
      rintro u v (⟨l, p, rfl, hp, rfl⟩ | h)
      · by_cases hpp : p = .inner iid pi bit ∨ p = .inst iid pi bit
        · -- an edge into the dissolved pin: both ends go to the outer wire
          have hl : l = lI ∨ l = lO := by
            rcases hpp with e | e <;> subst e
            · exact Or.inl (ok.uniq _ _ _ hp hipI)
            · exact Or.inr (ok.uniq _ _ _ hp hopO)
          have hv : φ (nodeOf p) = .W lO.1 lO.2 := by
            rcases hpp with e | e <;> subst e <;> simp [φ, nodeOf]
          rw [hv, hφW]
          rcases hl with e | e <;> subst e
          · simp only [if_true]; exact Conn.refl _
          · simp only [Ne.symm hIO, if_false]; exact Conn.refl _
        · have h1 : p ≠ .inner iid pi bit := fun e => hpp (Or.inl e)
          have h2 : p ≠ .inst iid pi bit := fun e => hpp (Or.inr e)
          have hv : φ (nodeOf p) = nodeOf p := by
            have e1 : nodeOf p ≠ .P iid pi bit := fun e => hpp (nodeOf_eq_P e)
            simp only [φ, e1, if_false]
            rw [if_neg (nodeOf_ne_W p _ _)]
          rw [hv, hφW]
          by_cases hl : l = lI
          · subst hl
            simp only [if_true]
            exact Conn.rel (Or.inl ⟨lO, p, rfl, (hm lO p).mpr ⟨Ne.symm hIO, Or.inr ⟨rfl, hp, h1⟩⟩, rfl⟩)
          · simp only [hl, if_false]
            exact Conn.rel (Or.inl ⟨l, p, rfl, (hm l p).mpr ⟨hl, Or.inl ⟨hp, h2⟩⟩, rfl⟩)
      · obtain ⟨h1, h2, h3, h4⟩ := hR u v h
        have hu : φ u = u := by simp only [φ, h1, if_false]; rw [if_neg h3]
        have hv : φ v = v := by
          simp only [φ, h2, if_false]
          rw [if_neg (h4 _ _)]
        rw [hu, hv]; exact Conn.rel (Or.inr h)) h
    rwa [hφa, hφb] at this
  · intro h
    have hbridge : Conn (WAdj pinsOf R) (.W lO.1 lO.2) (.W lI.1 lI.2) :=
      Conn.trans (Conn.rel (Or.inl ⟨lO, _, rfl, hopO, rfl⟩))
        (Conn.symm (Conn.rel (Or.inl ⟨lI, _, rfl, hipI, rfl⟩)))
    refine Conn.map (s := WAdj pinsOf R) id ?_ h
    rintro u v (⟨l, p, rfl, hp, rfl⟩ | h)
    · obtain ⟨hl, hp⟩ := (hm l p).mp hp
      rcases hp with ⟨hp, _⟩ | ⟨rfl, hp, _⟩
      · exact Conn.rel (Or.inl ⟨l, p, rfl, hp, rfl⟩)
      · exact Conn.trans hbridge (Conn.rel (Or.inl ⟨lI, p, rfl, hp, rfl⟩))
    · exact Conn.rel (Or.inr h)

end conn

end Spydr.Xform
