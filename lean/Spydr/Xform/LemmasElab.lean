/-
  Simulation argument for the elaboration: if the definitions of two designs are related by a
  relation `B` under which related definitions have the same cables, children that correspond by
  identifier (same name, data; `B`-related references) and the same leaf status (a leaf related only
  to itself), and the two top definitions are related, then the two designs have the same
  elaboration (`SameElab`).
-/
import Spydr.Xform.SpecElab

namespace Spydr.Xform

theorem Conn.mono {α : Type} {r s : α → α → Prop} (h : ∀ a b, r a b → s a b) {a b : α} (hc : Conn r a b) :
    Conn s a b := by
  induction hc with
  | rel hab => exact Conn.rel (h _ _ hab)
  | refl a => exact Conn.refl a
  | symm _ ih => exact Conn.symm ih
  | trans _ _ ih1 ih2 => exact Conn.trans ih1 ih2

/-- transfer of connectivity along a map of nodes -/
theorem Conn.map {α β : Type} {r : α → α → Prop} {s : β → β → Prop} (φ : α → β)
    (h : ∀ a b, r a b → Conn s (φ a) (φ b)) {a b : α} (hc : Conn r a b) : Conn s (φ a) (φ b) := by
  induction hc with
  | rel hab => exact h _ _ hab
  | refl a => exact Conn.refl _
  | symm _ ih => exact Conn.symm ih
  | trans _ _ ih1 ih2 => exact Conn.trans ih1 ih2

structure Sim (d d' : Design) (B : Nat → Nat → Prop) : Prop where
  cables : ∀ x y, B x y → (d.defs x).cables = (d'.defs y).cables
  fwd : ∀ x y, B x y → ∀ iid c, childById (d.defs x) iid = some c →
      ∃ c', childById (d'.defs y) iid = some c' ∧ c.name = c'.name ∧ c.eid = c'.eid ∧ c.data = c'.data ∧ B c.ref c'.ref
  bwd : ∀ x y, B x y → ∀ iid c', childById (d'.defs y) iid = some c' →
      ∃ c, childById (d.defs x) iid = some c ∧ c.name = c'.name ∧ c.eid = c'.eid ∧ c.data = c'.data ∧ B c.ref c'.ref
  leaf : ∀ x y, B x y → (d.defs x).isLeaf = (d'.defs y).isLeaf ∧ ((d.defs x).isLeaf = true → x = y)

theorem Sim.flip {d d' : Design} {B : Nat → Nat → Prop} (s : Sim d d' B) : Sim d' d (fun a b => B b a) where
  cables := fun x y h => (s.cables y x h).symm
  fwd := by
    intro x y h iid c hc
    obtain ⟨c0, h1, h2, h3, h4, h5⟩ := s.bwd y x h iid c hc
    exact ⟨c0, h1, h2.symm, h3.symm, h4.symm, h5⟩
  bwd := by
    intro x y h iid c hc
    obtain ⟨c0, h1, h2, h3, h4, h5⟩ := s.fwd y x h iid c hc
    exact ⟨c0, h1, h2.symm, h3.symm, h4.symm, h5⟩
  leaf := by
    intro x y h
    obtain ⟨h1, h2⟩ := s.leaf y x h
    exact ⟨h1.symm, fun hl => (h2 (h1 ▸ hl)).symm⟩

theorem Sim.walk {d d' : Design} {B : Nat → Nat → Prop} (s : Sim d d' B) :
    ∀ (p : List Nat) (x y : Nat), B x y → ∀ z, defAtFrom d x p = some z → ∃ z', defAtFrom d' y p = some z' ∧ B z z' := by
  intro p
  induction p with
  | nil => intro x y h z hz; simp only [defAtFrom] at hz ⊢; cases hz; exact ⟨y, rfl, h⟩
  | cons i p ih =>
    intro x y h z hz
    simp only [defAtFrom] at hz ⊢
    cases hc : childById (d.defs x) i with
    | none => simp [hc] at hz
    | some c =>
      simp only [hc] at hz
      obtain ⟨c', hc', _, _, _, hB⟩ := s.fwd x y h i c hc
      simp only [hc']
      exact ih _ _ hB z hz

theorem Sim.walk_none {d d' : Design} {B : Nat → Nat → Prop} (s : Sim d d' B)
    (p : List Nat) (x y : Nat) (h : B x y) (hn : defAtFrom d x p = none) : defAtFrom d' y p = none := by
  cases h' : defAtFrom d' y p with
  | none => rfl
  | some z' =>
    obtain ⟨z, hz, _⟩ := s.flip.walk p y x h z' h'
    rw [hn] at hz; cases hz

theorem Sim.hadj {d d' : Design} {B : Nat → Nat → Prop} (s : Sim d d' B) (htop : B d.top d'.top)
    {a b : HNode} (h : HAdj d a b) : HAdj d' a b := by
  cases h with
  | outer h1 h2 h3 =>
    obtain ⟨y, hy, hB⟩ := s.walk _ _ _ htop _ h1
    refine HAdj.outer (x := y) hy ?_ h3
    simpa [wireAt, ← s.cables _ _ hB] using h2
  | inner h1 h2 h3 =>
    obtain ⟨y, hy, hB⟩ := s.walk _ _ _ htop _ h1
    refine HAdj.inner (x := y) hy ?_ h3
    simpa [wireAt, ← s.cables _ _ hB] using h2
  | top h2 h3 =>
    refine HAdj.top ?_ h3
    simpa [wireAt, ← s.cables _ _ htop] using h2

theorem Sim.unfold_eq {d d' : Design} {B : Nat → Nat → Prop} (s : Sim d d' B) (htop : B d.top d'.top)
    (p : List Nat) (iid : Nat) : unfoldAt d p iid = unfoldAt d' p iid := by
  simp only [unfoldAt, instAt, defAt]
  cases hx : defAtFrom d d.top p with
  | none => rw [s.walk_none p _ _ htop hx]; rfl
  | some x =>
    obtain ⟨y, hy, hB⟩ := s.walk p _ _ htop x hx
    rw [hy]
    simp only
    cases hc : childById (d.defs x) iid with
    | none =>
      cases hc' : childById (d'.defs y) iid with
      | none => rfl
      | some c' =>
        obtain ⟨c, h1, _⟩ := s.bwd x y hB iid c' hc'
        rw [hc] at h1; cases h1
    | some c =>
      obtain ⟨c', hc', h1, h2, h3, h4⟩ := s.fwd x y hB iid c hc
      rw [hc']
      simp only [Option.map_some, viewOf, Option.some.injEq, InstView.mk.injEq]
      refine ⟨h1, h2, h3, ?_⟩
      obtain ⟨l1, l2⟩ := s.leaf _ _ h4
      rw [← l1]
      split
      · rename_i hl; rw [l2 hl]
      · rfl

theorem Sim.sameElab {d d' : Design} {B : Nat → Nat → Prop} (s : Sim d d' B) (htop : B d.top d'.top) :
    SameElab d d' :=
  ⟨fun p iid => s.unfold_eq htop p iid,
   fun _ _ => ⟨Conn.mono (fun _ _ => s.hadj htop), Conn.mono (fun _ _ => s.flip.hadj htop)⟩⟩

theorem SameElab.refl (d : Design) : SameElab d d := ⟨fun _ _ => rfl, fun _ _ => Iff.rfl⟩

theorem SameElab.trans {a b c : Design} (h1 : SameElab a b) (h2 : SameElab b c) : SameElab a c :=
  ⟨fun p i => (h1.1 p i).trans (h2.1 p i), fun x y => (h1.2 x y).trans (h2.2 x y)⟩

end Spydr.Xform
