/-
  The structural invariant of the flatten walk, relative to the original design `d0`:
  where every instance is, which definitions have been dissolved, what the queue holds.

  `moved` = the instance records popped so far (as renamed), in pop order.  Then
  * every definition holds its original children minus the moved ones; the top definition
    additionally holds `moved` at the end;
  * a definition other than top has lost its cables iff an instance of it was moved and it was not a
    leaf (`Dissolved`); nothing else about it changed;
  * the queue holds exactly the not yet moved children of the top definition and of the dissolved
    definitions, each with the slash-joined name of its parent occurrence.
-/
import Spydr.Xform.LemmasFlatStep

namespace Spydr.Xform

structure Hyp (d0 : Design) : Prop where
  wf : WF d0
  ids : IdsUnique d0
  uniq : Unique d0
  acyc : Acyclic d0

def unmoved (d0 : Design) (mv : List Nat) (x : Nat) : List Inst :=
  (d0.defs x).children.filter (fun c => !(mv.contains c.id))

def Dissolved (d0 : Design) (moved : List Inst) (x : Nat) : Prop :=
  ∃ m ∈ moved, m.ref = x ∧ (d0.defs x).isLeaf = false

def MovedOrig (d0 : Design) (moved : List Inst) (m : Inst) : Prop :=
  ∃ p cs q c0, walk d0 d0.top p = some (cs, q) ∧ (q = d0.top ∨ Dissolved d0 moved q) ∧
    c0 ∈ (d0.defs q).children ∧ m.id = c0.id ∧ m.ref = c0.ref ∧ m.data = c0.data ∧
    m.name = some (slashJoin ((cs ++ [c0]).map instName))

def QueueOk (d0 : Design) (moved : List Inst) (e : Nat × Nat × String) : Prop :=
  ∃ p cs c0, walk d0 d0.top p = some (cs, e.1) ∧ (e.1 = d0.top ∨ Dissolved d0 moved e.1) ∧
    c0 ∈ (d0.defs e.1).children ∧ c0.id = e.2.1 ∧ e.2.1 ∉ moved.map (·.id) ∧
    e.2.2 = slashJoin (cs.map instName)

structure FInvA (d0 : Design) (s : FState) (moved : List Inst) : Prop where
  ndefs : s.d.ndefs = d0.ndefs
  top : s.d.top = d0.top
  order : s.d.order = d0.order
  extra : s.d.extra = d0.extra
  attrs : ∀ x, x < d0.ndefs → (s.d.defs x).ports = (d0.defs x).ports ∧ (s.d.defs x).lib = (d0.defs x).lib ∧
      (s.d.defs x).name = (d0.defs x).name ∧ (s.d.defs x).eid = (d0.defs x).eid ∧
      (s.d.defs x).info = (d0.defs x).info
  kids : ∀ x, x < d0.ndefs → (s.d.defs x).children = unmoved d0 (moved.map (·.id)) x ++ (if x = d0.top then moved else [])
  cablesKeep : ∀ x, x < d0.ndefs → x ≠ d0.top → ¬ Dissolved d0 moved x → (s.d.defs x).cables = (d0.defs x).cables
  cablesGone : ∀ x, x < d0.ndefs → x ≠ d0.top → Dissolved d0 moved x → (s.d.defs x).cables = []
  toRemove : s.toRemove = (moved.filter (fun m => !(d0.defs m.ref).isLeaf)).map (·.id)
  movedNodup : (moved.map (·.id)).Nodup
  movedOrig : ∀ m ∈ moved, MovedOrig d0 moved m
  queue : ∀ e ∈ s.queue, QueueOk d0 moved e
  queueNodup : (s.queue.map (·.2.1)).Nodup
  complete : ∀ x, x < d0.ndefs → (x = d0.top ∨ Dissolved d0 moved x) → ∀ c0 ∈ (d0.defs x).children,
      c0.id ∈ moved.map (·.id) ∨ c0.id ∈ s.queue.map (·.2.1)

/-! ### helper facts about `d0` -/

theorem Hyp.ids_disjoint {d0 : Design} (h : Hyp d0) {x y : Nat} (hx : x < d0.ndefs) (hy : y < d0.ndefs)
    {a b : Inst} (ha : a ∈ (d0.defs x).children) (hb : b ∈ (d0.defs y).children) (hid : a.id = b.id) : x = y := by
  by_cases hxy : x = y
  · exact hxy
  · exact absurd hid (h.ids.2.1 x (by simpa using hx) y (by simpa using hy) hxy a ha b hb)

theorem Hyp.ids_nodup {d0 : Design} (h : Hyp d0) {x : Nat} (hx : x < d0.ndefs) :
    ((d0.defs x).children.map (·.id)).Nodup := h.ids.1 x (by simpa using hx)

/-- within one definition an identifier determines the child -/
theorem Hyp.child_eq {d0 : Design} (h : Hyp d0) {x : Nat} (hx : x < d0.ndefs) {a b : Inst}
    (ha : a ∈ (d0.defs x).children) (hb : b ∈ (d0.defs x).children) (hid : a.id = b.id) : a = b := by
  have h1 := childById_of_mem (h.ids_nodup hx) ha
  have h2 := childById_of_mem (h.ids_nodup hx) hb
  rw [hid, h2] at h1
  exact (Option.some.inj h1).symm

theorem Dissolved.mono {d0 : Design} {moved : List Inst} {x : Nat} (h : Dissolved d0 moved x) (extra : List Inst) :
    Dissolved d0 (moved ++ extra) x := by
  obtain ⟨m, hm, h1, h2⟩ := h
  exact ⟨m, List.mem_append_left _ hm, h1, h2⟩

theorem MovedOrig.mono {d0 : Design} {moved : List Inst} {m : Inst} (h : MovedOrig d0 moved m) (extra : List Inst) :
    MovedOrig d0 (moved ++ extra) m := by
  obtain ⟨p, cs, q, c0, h1, h2, h3⟩ := h
  exact ⟨p, cs, q, c0, h1, h2.imp id (fun h => h.mono extra), h3⟩

theorem unmoved_snoc (d0 : Design) (mv : List Nat) (iid x : Nat) :
    unmoved d0 (mv ++ [iid]) x = (unmoved d0 mv x).filter (fun c => c.id != iid) := by
  simp only [unmoved, List.filter_filter]
  apply List.filter_congr
  intro c _
  simp only [List.contains_append, List.contains_cons, List.contains_nil, Bool.or_false, Bool.not_or, bne]
  rw [Bool.and_comm]

theorem filter_ne_of_not_mem {l : List Inst} {iid : Nat} (h : ∀ c ∈ l, c.id ≠ iid) :
    l.filter (fun c => c.id != iid) = l := by
  rw [List.filter_eq_self]
  intro c hc
  simpa using h c hc

section inv
variable {d0 : Design} {s : FState} {moved : List Inst}

/-- the children of a definition that is neither top nor dissolved have not been moved -/
theorem FInvA.untouched (hyp : Hyp d0) (inv : FInvA d0 s moved) {x : Nat} (hx : x < d0.ndefs) (hxt : x ≠ d0.top)
    (hnd : ¬ Dissolved d0 moved x) : ∀ c ∈ (d0.defs x).children, c.id ∉ moved.map (·.id) := by
  intro c hc hmem
  obtain ⟨m, hm, hmid⟩ := List.mem_map.mp hmem
  obtain ⟨p, cs, q, c0, hw, hq, hc0, hid, _⟩ := inv.movedOrig m hm
  have hqlt : q < d0.ndefs := reach_lt hyp.wf (walk_reach p _ cs q Reach.top hw)
  have : x = q := hyp.ids_disjoint hx hqlt hc hc0 (by rw [← hmid, hid])
  subst this
  rcases hq with h | h
  · exact hxt h
  · exact hnd h

theorem FInvA.unmoved_untouched (hyp : Hyp d0) (inv : FInvA d0 s moved) {x : Nat} (hx : x < d0.ndefs)
    (hxt : x ≠ d0.top) (hnd : ¬ Dissolved d0 moved x) : unmoved d0 (moved.map (·.id)) x = (d0.defs x).children := by
  simp only [unmoved]
  rw [List.filter_eq_self]
  intro c hc
  have := inv.untouched hyp hx hxt hnd c hc
  simpa using this

/-- a moved instance is an instance of `d0` below the top instance -/
theorem FInvA.moved_reach (inv : FInvA d0 s moved) {m : Inst} (hm : m ∈ moved) :
    ∃ q c0, Reach d0 q ∧ c0 ∈ (d0.defs q).children ∧ m.id = c0.id ∧ m.ref = c0.ref := by
  obtain ⟨p, cs, q, c0, hw, _, hc0, hid, hr, _⟩ := inv.movedOrig m hm
  exact ⟨q, c0, walk_reach p _ cs q Reach.top hw, hc0, hid, hr⟩

end inv

end Spydr.Xform
