/-
  One iteration of the flatten loop preserves the structural invariant `FInvA`.
-/
import Spydr.Xform.LemmasFlatA

namespace Spydr.Xform

theorem walk_mem {d : Design} : ∀ (p : List Nat) (x : Nat) (cs : List Inst) (y : Nat), Reach d x →
    walk d x p = some (cs, y) → ∀ c ∈ cs, ∃ q, Reach d q ∧ c ∈ (d.defs q).children
  | [], x, cs, y, _, h => by
    simp only [walk, Option.some.injEq, Prod.mk.injEq] at h
    rw [← h.1]; intro c hc; simp at hc
  | j :: p, x, cs, y, hx, h => by
    simp only [walk] at h
    cases hj : childById (d.defs x) j with
    | none => simp [hj] at h
    | some cj =>
      simp only [hj] at h
      cases hw : walk d cj.ref p with
      | none => simp [hw] at h
      | some r =>
        obtain ⟨cs', y'⟩ := r
        simp only [hw, Option.some.injEq, Prod.mk.injEq] at h
        rw [← h.1]
        intro c hc
        rcases List.mem_cons.mp hc with rfl | hc'
        · exact ⟨x, hx, (childById_id hj).2⟩
        · exact walk_mem p cj.ref cs' y' (Reach.step hx (childById_id hj).2) hw c hc'

theorem instName_ne_of_named {d0 : Design} (hnamed : Named d0) {q : Nat} (hq : q < d0.ndefs) {c : Inst}
    (hc : c ∈ (d0.defs q).children) : instName c ≠ "" := by
  have : c ∈ allInsts d0 := by
    simp only [allInsts, List.mem_flatMap, List.mem_range]
    exact ⟨q, hq, hc⟩
  have := hnamed.1 c this
  simp only [instName]
  cases hn : c.name with
  | none => simp [goodName, hn] at this
  | some n =>
    simp only [goodName, hn, bne_iff_ne, ne_eq] at this
    simpa using this

theorem find?_append_left {α : Type} {p : α → Bool} {l1 l2 : List α} {a : α} (h : l1.find? p = some a) :
    (l1 ++ l2).find? p = some a := by
  rw [List.find?_append, h]; rfl

theorem FInvA.step' {d0 : Design} (hyp : Hyp d0) (hnamed : Named d0) {d : Design} {q iid : Nat} {pn : String}
    {rest : List (Nat × Nat × String)} {tr : List Nat} {moved : List Inst}
    (inv : FInvA d0 ⟨d, (q, iid, pn) :: rest, tr⟩ moved) :
    ∃ c0, c0 ∈ (d0.defs q).children ∧ c0.id = iid ∧ (d.defs q).children.find? (fun c => c.id == iid) = some c0 ∧
      (fStep d q iid pn =
        if (d0.defs c0.ref).isLeaf = true then (moveInst d q (liftInst pn d.ctr c0).1 (liftInst pn d.ctr c0).2, [], [])
        else (dissolve (moveInst d q (liftInst pn d.ctr c0).1 (liftInst pn d.ctr c0).2) iid ((liftInst pn d.ctr c0).1.name.getD "") c0.ref,
              (d0.defs c0.ref).children.map (fun k => (c0.ref, k.id, (liftInst pn d.ctr c0).1.name.getD "")), [iid])) ∧
      FInvA d0 ⟨(fStep d q iid pn).1, rest ++ (fStep d q iid pn).2.1, tr ++ (fStep d q iid pn).2.2⟩
        (moved ++ [(liftInst pn d.ctr c0).1]) := by
  obtain ⟨p, cs, c0, hw, hqd, hc0, hid, hnm, hpn⟩ := inv.queue (q, iid, pn) List.mem_cons_self
  simp only at hw hqd hc0 hid hnm hpn
  have hqR : Reach d0 q := walk_reach p _ cs q Reach.top hw
  have hqlt : q < d0.ndefs := reach_lt hyp.wf hqR
  have htop : d.top = d0.top := inv.top
  have hkids := inv.kids
  simp only at hkids
  -- the lookup in the current parent finds the original record
  have hc0u : c0 ∈ unmoved d0 (moved.map (·.id)) q := by
    simp only [unmoved, List.mem_filter]
    refine ⟨hc0, ?_⟩
    rw [hid]; simpa using hnm
  have hndq : ((unmoved d0 (moved.map (·.id)) q).map (·.id)).Nodup :=
    List.Nodup.sublist ((List.filter_sublist).map _) (hyp.ids_nodup hqlt)
  have hfind : (d.defs q).children.find? (fun c => c.id == iid) = some c0 := by
    rw [hkids q hqlt]
    apply find?_append_left
    have := find?_of_mem_nodup _ hndq hc0u
    rwa [hid] at this
  refine ⟨c0, hc0, hid, hfind, ?_⟩
  -- the renamed record
  have hli := liftInst_fields pn d.ctr c0
  generalize hlidef : liftInst pn d.ctr c0 = li at hli ⊢
  obtain ⟨hcid, hcref, hcdata, hcname⟩ := hli
  have hcid' : li.1.id = iid := hcid.trans hid
  -- names along the path are non-empty
  have hcsne : ∀ m ∈ cs.map instName, m ≠ "" := by
    intro m hm
    obtain ⟨c, hc, rfl⟩ := List.mem_map.mp hm
    obtain ⟨qc, hqc, hcc⟩ := walk_mem p _ cs q Reach.top hw c hc
    exact instName_ne_of_named hnamed (reach_lt hyp.wf hqc) hcc
  have hname' : li.1.name = some (slashJoin ((cs ++ [c0]).map instName)) := by
    rw [hcname, hpn, joinName_slashJoin _ _ hcsne, List.map_append]; rfl
  -- the reference
  have hxlt : c0.ref < d0.ndefs := (hyp.wf.2.1 q (by simpa using hqlt)).1 c0 hc0
  have hxtop : c0.ref ≠ d0.top := reach_child_ne_top hyp.acyc hyp.wf hqR hc0
  have hxq : c0.ref ≠ q := child_ne_self hyp.acyc hqlt hc0
  have hxnd : (d0.defs c0.ref).isLeaf = false → ¬ Dissolved d0 moved c0.ref := by
    intro hl ⟨m, hm, hmr, _⟩
    obtain ⟨q', c0', hq', hc0', hmid, hmref⟩ := inv.moved_reach hm
    have := unique_ref hyp.wf hyp.uniq hqR hq' hc0 hc0' (by rw [← hmref, hmr]) hl
    obtain ⟨_, rfl⟩ := this
    exact hnm (List.mem_map.mpr ⟨m, hm, by rw [hmid, hid]⟩)
  have hxnd' : ¬ Dissolved d0 moved c0.ref := by
    intro hd
    obtain ⟨m, hm, hmr, hl⟩ := hd
    exact hxnd hl ⟨m, hm, hmr, hl⟩
  have hxkids : unmoved d0 (moved.map (·.id)) c0.ref = (d0.defs c0.ref).children :=
    inv.unmoved_untouched hyp hxlt hxtop hxnd'
  -- the state after `moveInst`
  let d2 := moveInst d q li.1 li.2
  have hmvids : (moved ++ [li.1]).map (·.id) = moved.map (·.id) ++ [iid] := by simp [hcid']
  have hmovedne : ∀ m ∈ moved, m.id ≠ iid := fun m hm e => hnm (List.mem_map.mpr ⟨m, hm, e⟩)
  have hkids2 : ∀ y, y < d0.ndefs → (d2.defs y).children =
      unmoved d0 ((moved ++ [li.1]).map (·.id)) y ++ (if y = d0.top then moved ++ [li.1] else []) := by
    intro y hy
    rw [moveInst_children, hmvids, unmoved_snoc, hkids y hy, htop, hcid']
    by_cases hyq : y = q
    · subst hyq
      simp only [if_true, List.filter_append]
      by_cases hyt : y = d0.top
      · simp only [hyt, if_true, List.append_assoc]
        rw [filter_ne_of_not_mem hmovedne]
      · simp only [hyt, if_false, List.filter_nil, List.append_nil]
    · simp only [hyq, if_false]
      have : (unmoved d0 (moved.map (·.id)) y).filter (fun c => c.id != iid) = unmoved d0 (moved.map (·.id)) y := by
        apply filter_ne_of_not_mem
        intro c hc e
        have hcy : c ∈ (d0.defs y).children := (List.mem_filter.mp hc).1
        exact hyq (hyp.ids_disjoint hy hqlt hcy hc0 (e.trans hid.symm))
      rw [this]
      by_cases hyt : y = d0.top
      · simp only [hyt, if_true, List.append_assoc]
      · simp only [hyt, if_false, List.append_nil]
  have hattrs2 : ∀ y, y < d0.ndefs → (d2.defs y).ports = (d0.defs y).ports ∧ (d2.defs y).lib = (d0.defs y).lib ∧
      (d2.defs y).name = (d0.defs y).name ∧ (d2.defs y).eid = (d0.defs y).eid ∧ (d2.defs y).info = (d0.defs y).info := by
    intro y hy
    have a := moveInst_attrs d q li.1 li.2 y
    have b := inv.attrs y hy
    exact ⟨a.2.1.trans b.1, a.2.2.1.trans b.2.1, a.2.2.2.1.trans b.2.2.1, a.2.2.2.2.1.trans b.2.2.2.1,
      a.2.2.2.2.2.trans b.2.2.2.2⟩
  have hcab2 : ∀ y, (d2.defs y).cables = (d.defs y).cables := fun y => (moveInst_attrs d q li.1 li.2 y).1
  have hx2kids : (d2.defs c0.ref).children = (d0.defs c0.ref).children := by
    rw [hkids2 _ hxlt, hmvids, unmoved_snoc, hxkids]
    simp only [hxtop, if_false, List.append_nil]
    apply filter_ne_of_not_mem
    intro c hc e
    exact hxq (hyp.ids_disjoint hxlt hqlt hc hc0 (e.trans hid.symm))
  have hx2cab : (d2.defs c0.ref).cables = (d0.defs c0.ref).cables := by
    rw [hcab2]; exact inv.cablesKeep _ hxlt hxtop hxnd'
  have hx2leaf : (d2.defs c0.ref).isLeaf = (d0.defs c0.ref).isLeaf := by
    simp only [Defn.isLeaf, hx2kids, hx2cab]
  have hrestnm : ∀ e ∈ rest, e.2.1 ≠ iid := by
    intro e he heq
    have := inv.queueNodup
    simp only [List.map_cons, List.nodup_cons] at this
    exact this.1 (List.mem_map.mpr ⟨e, he, heq⟩)
  have hmovedOrig' : ∀ m ∈ moved ++ [li.1], MovedOrig d0 (moved ++ [li.1]) m := by
    intro m hm
    rcases List.mem_append.mp hm with hm | hm
    · exact (inv.movedOrig m hm).mono _
    · simp only [List.mem_singleton] at hm; subst hm
      exact ⟨p, cs, q, c0, hw, hqd.imp id (fun h => h.mono _), hc0, hcid, hcref, hcdata, hname'⟩
  have hmovedNodup' : ((moved ++ [li.1]).map (·.id)).Nodup := by
    rw [hmvids]
    exact List.nodup_append.mpr ⟨inv.movedNodup, by simp, by
      intro a ha b hb; simp only [List.mem_singleton] at hb; subst hb; intro e; subst e; exact hnm ha⟩
  have hrestQ : ∀ e ∈ rest, QueueOk d0 (moved ++ [li.1]) e := by
    intro e he
    obtain ⟨p', cs', c0', h1, h2, h3, h4, h5, h6⟩ := inv.queue e (List.mem_cons_of_mem _ he)
    refine ⟨p', cs', c0', h1, h2.imp id (fun h => h.mono _), h3, h4, ?_, h6⟩
    rw [hmvids]
    intro hmem
    rcases List.mem_append.mp hmem with h | h
    · exact h5 h
    · simp only [List.mem_singleton] at h; exact hrestnm e he h
  have hrestNodup : (rest.map (·.2.1)).Nodup := by
    have := inv.queueNodup
    simp only [List.map_cons, List.nodup_cons] at this
    exact this.2
  -- unfold the step
  have hstep : fStep d q iid pn =
      if (d2.defs c0.ref).isLeaf then (d2, [], [])
      else (dissolve d2 iid (li.1.name.getD "") c0.ref,
            (d2.defs c0.ref).children.map (fun k => (c0.ref, k.id, li.1.name.getD "")), [iid]) := by
    simp only [fStep, hfind, hlidef]
    rfl
  refine ⟨by rw [hstep, hx2leaf, hx2kids], ?_⟩
  rw [hstep, hx2leaf]
  cases hleaf : (d0.defs c0.ref).isLeaf with
  | true =>
    -- leaf: only the move happened
    have hdis : ∀ y, Dissolved d0 (moved ++ [li.1]) y ↔ Dissolved d0 moved y := by
      intro y
      constructor
      · rintro ⟨m, hm, hmr, hl⟩
        rcases List.mem_append.mp hm with hm | hm
        · exact ⟨m, hm, hmr, hl⟩
        · simp only [List.mem_singleton] at hm; subst hm
          rw [← hmr, hcref, hleaf] at hl; cases hl
      · exact fun h => h.mono _
    simp only [if_true, List.append_nil]
    refine { ndefs := inv.ndefs, top := htop, order := inv.order, extra := inv.extra, attrs := hattrs2, kids := hkids2,
             cablesKeep := ?_, cablesGone := ?_, toRemove := ?_, movedNodup := hmovedNodup', movedOrig := hmovedOrig',
             queue := hrestQ, queueNodup := hrestNodup, complete := ?_ }
    · intro y hy hyt hnd
      show (d2.defs y).cables = _
      rw [hcab2]; exact inv.cablesKeep y hy hyt (fun h => hnd ((hdis y).mpr h))
    · intro y hy hyt hd
      show (d2.defs y).cables = _
      rw [hcab2]; exact inv.cablesGone y hy hyt ((hdis y).mp hd)
    · show tr = _
      rw [List.filter_append, List.map_append]
      have : [li.1].filter (fun m => !(d0.defs m.ref).isLeaf) = [] := by
        simp [hcref, hleaf]
      rw [this]; simpa using inv.toRemove
    · intro y hy hyd c hc
      have hyd' : y = d0.top ∨ Dissolved d0 moved y := hyd.imp id (hdis y).mp
      rw [hmvids]
      rcases inv.complete y hy hyd' c hc with h | h
      · exact Or.inl (List.mem_append_left _ h)
      · simp only [List.map_cons, List.mem_cons] at h
        rcases h with h | h
        · exact Or.inl (List.mem_append_right _ (by simp [h]))
        · exact Or.inr h
  | false =>
    have hxnd0 := hxnd hleaf
    have hdis : ∀ y, Dissolved d0 (moved ++ [li.1]) y ↔ (Dissolved d0 moved y ∨ y = c0.ref) := by
      intro y
      constructor
      · rintro ⟨m, hm, hmr, hl⟩
        rcases List.mem_append.mp hm with hm | hm
        · exact Or.inl ⟨m, hm, hmr, hl⟩
        · simp only [List.mem_singleton] at hm; subst hm
          exact Or.inr (by rw [← hmr, hcref])
      · rintro (h | h)
        · exact h.mono _
        · subst h; exact ⟨li.1, by simp, hcref, hleaf⟩
    simp only [Bool.false_eq_true, if_false]
    have hnmval0 : li.1.name.getD "" = slashJoin ((cs ++ [c0]).map instName) := by rw [hname']; rfl
    generalize li.1.name.getD "" = nm at hnmval0 ⊢
    have hnmval : nm = slashJoin ((cs ++ [c0]).map instName) := hnmval0
    have hchild : childById (d0.defs q) iid = some c0 := by
      rw [← hid]; exact childById_of_mem (hyp.ids_nodup hqlt) hc0
    have hwalk' : walk d0 d0.top (p ++ [iid]) = some (cs ++ [c0], c0.ref) := walk_snoc p _ cs q iid c0 hw hchild
    refine { ndefs := inv.ndefs, top := htop, order := inv.order, extra := inv.extra, attrs := ?_, kids := ?_,
             cablesKeep := ?_, cablesGone := ?_, toRemove := ?_, movedNodup := hmovedNodup', movedOrig := hmovedOrig',
             queue := ?_, queueNodup := ?_, complete := ?_ }
    · intro y hy
      have a := dissolve_attrs d2 iid nm c0.ref y
      have b := hattrs2 y hy
      exact ⟨a.2.1.trans b.1, a.2.2.1.trans b.2.1, a.2.2.2.1.trans b.2.2.1, a.2.2.2.2.1.trans b.2.2.2.1,
        a.2.2.2.2.2.trans b.2.2.2.2⟩
    · intro y hy
      show ((dissolve d2 iid nm c0.ref).defs y).children = _
      rw [(dissolve_attrs d2 iid nm c0.ref y).1]; exact hkids2 y hy
    · intro y hy hyt hnd
      show ((dissolve d2 iid nm c0.ref).defs y).cables = _
      have hyx : y ≠ c0.ref := fun e => hnd ((hdis y).mpr (Or.inr e))
      rw [dissolve_cables_other d2 iid nm c0.ref y (by show y ≠ d.top; rw [htop]; exact hyt)]
      simp only [hyx, if_false]
      rw [hcab2]; exact inv.cablesKeep y hy hyt (fun h => hnd ((hdis y).mpr (Or.inl h)))
    · intro y hy hyt hd
      show ((dissolve d2 iid nm c0.ref).defs y).cables = _
      rw [dissolve_cables_other d2 iid nm c0.ref y (by show y ≠ d.top; rw [htop]; exact hyt)]
      by_cases hyx : y = c0.ref
      · simp only [hyx, if_true]
      · simp only [hyx, if_false]
        rw [hcab2]
        rcases (hdis y).mp hd with h | h
        · exact inv.cablesGone y hy hyt h
        · exact absurd h hyx
    · show tr ++ [iid] = _
      rw [List.filter_append, List.map_append]
      have : [li.1].filter (fun m => !(d0.defs m.ref).isLeaf) = [li.1] := by
        simp [hcref, hleaf]
      rw [this]
      have := inv.toRemove
      simp only at this
      rw [this]; simp [hcid']
    · intro e he
      rcases List.mem_append.mp he with he | he
      · exact hrestQ e he
      · rw [hx2kids] at he
        obtain ⟨k, hk, rfl⟩ := List.mem_map.mp he
        refine ⟨p ++ [iid], cs ++ [c0], k, hwalk', Or.inr ((hdis _).mpr (Or.inr rfl)), hk, rfl, ?_, hnmval⟩
        rw [hmvids]
        intro hmem
        rcases List.mem_append.mp hmem with h | h
        · exact inv.untouched hyp hxlt hxtop hxnd0 k hk h
        · simp only [List.mem_singleton] at h
          exact hxq (hyp.ids_disjoint hxlt hqlt hk hc0 (h.trans hid.symm))
    · rw [hx2kids, List.map_append, List.map_map]
      refine List.nodup_append.mpr ⟨hrestNodup, ?_, ?_⟩
      · have : ((fun e : Nat × Nat × String => e.2.1) ∘ fun k : Inst => (c0.ref, k.id, nm)) = (·.id) := rfl
        rw [this]; exact hyp.ids_nodup hxlt
      · intro a ha b hb hab
        subst hab
        obtain ⟨e, he, hea⟩ := List.mem_map.mp ha
        obtain ⟨k, hk, hkb⟩ := List.mem_map.mp hb
        simp only [Function.comp] at hkb
        obtain ⟨p', cs', c0', h1, h2, h3, h4, _, _⟩ := inv.queue e (List.mem_cons_of_mem _ he)
        have he1 : e.1 < d0.ndefs := reach_lt hyp.wf (walk_reach p' _ cs' e.1 Reach.top h1)
        have : e.1 = c0.ref := hyp.ids_disjoint he1 hxlt h3 hk (by rw [h4, hea, hkb])
        rcases h2 with h2 | h2
        · exact hxtop (this ▸ h2)
        · exact hxnd0 (this ▸ h2)
    · intro y hy hyd c hc
      rw [hmvids, hx2kids, List.map_append, List.map_map]
      have hyd' : y = d0.top ∨ Dissolved d0 moved y ∨ y = c0.ref := hyd.imp id (hdis y).mp
      rcases hyd' with h | h | h
      · rcases inv.complete y hy (Or.inl h) c hc with h' | h'
        · exact Or.inl (List.mem_append_left _ h')
        · simp only [List.map_cons, List.mem_cons] at h'
          rcases h' with h' | h'
          · exact Or.inl (List.mem_append_right _ (by simp [h']))
          · exact Or.inr (List.mem_append_left _ h')
      · rcases inv.complete y hy (Or.inr h) c hc with h' | h'
        · exact Or.inl (List.mem_append_left _ h')
        · simp only [List.map_cons, List.mem_cons] at h'
          rcases h' with h' | h'
          · exact Or.inl (List.mem_append_right _ (by simp [h']))
          · exact Or.inr (List.mem_append_left _ h')
      · subst h
        right
        apply List.mem_append_right
        exact List.mem_map.mpr ⟨c, hc, rfl⟩

theorem FInvA.step {d0 : Design} (hyp : Hyp d0) (hnamed : Named d0) {d : Design} {q iid : Nat} {pn : String}
    {rest : List (Nat × Nat × String)} {tr : List Nat} {moved : List Inst}
    (inv : FInvA d0 ⟨d, (q, iid, pn) :: rest, tr⟩ moved) :
    ∃ moved', FInvA d0 ⟨(fStep d q iid pn).1, rest ++ (fStep d q iid pn).2.1, tr ++ (fStep d q iid pn).2.2⟩ moved' := by
  obtain ⟨c0, _, _, _, _, h⟩ := inv.step' hyp hnamed
  exact ⟨_, h⟩

end Spydr.Xform
