/-
  The graph of a flatten state: top-definition wires through `pinsAt` (lifted inner pins count as the
  instance pin they are), everything else as in `UAdj`.  Agreement with `UAdj` when the top
  definition has no lifted pins; invariance under `moveInst`; `liftCables`.
-/
import Spydr.Xform.LemmasFlatGraph
import Spydr.Xform.LemmasFlatStep

set_option linter.unusedSimpArgs false

namespace Spydr.Xform

/-- edges contributed by the definitions other than top -/
inductive RestAdj (d : Design) : UNode → UNode → Prop
  | outer {x : Nat} {c : Cable} {k : Nat} {w : List Pin} {iid pi bit : Nat} :
      x < d.ndefs → x ≠ d.top → c ∈ (d.defs x).cables → c.wires[k]? = some w → Pin.inst iid pi bit ∈ w →
      RestAdj d (.W c.id k) (.P iid pi bit)
  | inner {x : Nat} {c : Cable} {k : Nat} {w : List Pin} {j : Inst} {pi bit : Nat} :
      x < d.ndefs → x ≠ d.top → c ∈ (d.defs x).cables → c.wires[k]? = some w → Pin.port pi bit ∈ w →
      InstIn d j → j.ref = x → RestAdj d (.W c.id k) (.P j.id pi bit)

def SAdj (d : Design) : UNode → UNode → Prop := WAdj (pinsAt (d.defs d.top).cables) (RestAdj d)

theorem RestAdj.target_not_W {d : Design} {a b : UNode} (h : RestAdj d a b) : ∀ c k, b ≠ .W c k := by
  cases h <;> intro c k <;> simp

theorem getD_of_getElem? {α : Type} {l : List α} {k : Nat} {w : α} (h : l[k]? = some w) (dflt : α) :
    l.getD k dflt = w := by simp [List.getD, h]

/-- without lifted pins in the top definition the state graph is the specification graph -/
theorem uadj_iff_sadj {d : Design} (htop : d.top < d.ndefs)
    (hnd : ((d.defs d.top).cables.map (·.id)).Nodup)
    (hni : ∀ l p, p ∈ pinsAt (d.defs d.top).cables l → ∀ i pi b, p ≠ .inner i pi b) (a b : UNode) :
    UAdj d a b ↔ SAdj d a b := by
  constructor
  · intro h
    cases h with
    | @outer x c k w iid pi bit hx hc hw hp =>
      by_cases hxt : x = d.top
      · subst hxt
        left
        refine ⟨(c.id, k), .inst iid pi bit, rfl, ?_, rfl⟩
        rw [pinsAt_of_mem hnd hc, getD_of_getElem? hw]; exact hp
      · exact Or.inr (RestAdj.outer hx hxt hc hw hp)
    | inner hx hxt hc hw hp hj hr => exact Or.inr (RestAdj.inner hx hxt hc hw hp hj hr)
    | @top c k w pi bit hc hw hp =>
      left
      refine ⟨(c.id, k), .port pi bit, rfl, ?_, rfl⟩
      rw [pinsAt_of_mem hnd hc, getD_of_getElem? hw]; exact hp
  · rintro (⟨l, p, rfl, hp, rfl⟩ | h)
    · obtain ⟨c, hc, hid, w, hw, hpw⟩ := mem_pinsAt hp
      rw [← hid]
      cases p with
      | port pi bit => exact UAdj.top hc hw hpw
      | inst iid pi bit => exact UAdj.outer htop hc hw hpw
      | inner i pi bit => exact absurd rfl (hni l _ hp i pi bit)
    · cases h with
      | outer hx hxt hc hw hp => exact UAdj.outer hx hc hw hp
      | inner hx hxt hc hw hp hj hr => exact UAdj.inner hx hxt hc hw hp hj hr

/-! ### `liftCables` -/

theorem liftCables_ids (iid : Nat) (pn : String) : ∀ (ctr : Nat) (cs : List Cable),
    (liftCables iid pn ctr cs).1.map (·.id) = cs.map (·.id)
  | _, [] => rfl
  | ctr, c :: cs => by
    simp only [liftCables]
    cases c.eid with
    | none => simp only [List.map_cons]; rw [liftCables_ids iid pn ctr cs]
    | some _ => simp only [List.map_cons]; rw [liftCables_ids iid pn (ctr + 1) cs]

theorem pinsAt_liftCables (iid : Nat) (pn : String) (l : Label) : ∀ (ctr : Nat) (cs : List Cable),
    pinsAt (liftCables iid pn ctr cs).1 l = (pinsAt cs l).map (liftPin iid)
  | _, [] => rfl
  | ctr, c :: cs => by
    have hget : ∀ (ws : List (List Pin)), (ws.map (fun w => w.map (liftPin iid))).getD l.2 [] =
        (ws.getD l.2 []).map (liftPin iid) := by
      intro ws
      simp only [List.getD, List.getElem?_map]
      cases ws[l.2]? <;> simp
    simp only [liftCables]
    cases c.eid with
    | none =>
      simp only [pinsAt, List.find?_cons]
      cases h : c.id == l.1 with
      | true => simp only [hget]
      | false => exact pinsAt_liftCables iid pn l ctr cs
    | some _ =>
      simp only [pinsAt, List.find?_cons]
      cases h : c.id == l.1 with
      | true => simp only [hget]
      | false => exact pinsAt_liftCables iid pn l (ctr + 1) cs

theorem liftPin_inj (iid : Nat) {p q : Pin} (hp : ∀ i pi b, p ≠ .inner i pi b) (hq : ∀ i pi b, q ≠ .inner i pi b)
    (h : liftPin iid p = liftPin iid q) : p = q := by
  cases p with
  | inner i pi b => exact absurd rfl (hp i pi b)
  | port a b =>
    cases q with
    | inner i pi b => exact absurd rfl (hq i pi b)
    | port a' b' => simpa [liftPin] using h
    | inst i a' b' => simp [liftPin] at h
  | inst i a b =>
    cases q with
    | inner i' pi b' => exact absurd rfl (hq _ _ _)
    | port a' b' => simp [liftPin] at h
    | inst i' a' b' => simpa [liftPin] using h

/-! ### `moveInst` does not change the graph -/

theorem instIn_moveInst {d : Design} {q : Nat} {c' : Inst} {ctr1 : Nat} {c0 : Inst} (hq : q < d.ndefs)
    (htop : d.top < d.ndefs) (hc0 : c0 ∈ (d.defs q).children) (hid : c'.id = c0.id) (hr : c'.ref = c0.ref)
    (hnd : ∀ j ∈ (d.defs q).children, j.id = c0.id → j = c0) (i x : Nat) :
    (∃ j, InstIn (moveInst d q c' ctr1) j ∧ j.id = i ∧ j.ref = x) ↔ (∃ j, InstIn d j ∧ j.id = i ∧ j.ref = x) := by
  constructor
  · rintro ⟨j, ⟨y, hy, hj⟩, h1, h2⟩
    rw [moveInst_children] at hj
    rcases List.mem_append.mp hj with hj | hj
    · refine ⟨j, ⟨y, hy, ?_⟩, h1, h2⟩
      split at hj
      · exact (List.mem_filter.mp hj).1
      · exact hj
    · split at hj
      · simp only [List.mem_singleton] at hj; subst hj
        exact ⟨c0, ⟨q, hq, hc0⟩, by rw [← hid]; exact h1, by rw [← hr]; exact h2⟩
      · simp at hj
  · rintro ⟨j, ⟨y, hy, hj⟩, h1, h2⟩
    by_cases hjc : y = q ∧ j.id = c0.id
    · obtain ⟨rfl, hjid⟩ := hjc
      have : j = c0 := hnd j hj hjid
      subst this
      refine ⟨c', ⟨d.top, htop, ?_⟩, by rw [hid]; exact h1, by rw [hr]; exact h2⟩
      rw [moveInst_children]
      apply List.mem_append_right
      simp
    · refine ⟨j, ⟨y, hy, ?_⟩, h1, h2⟩
      rw [moveInst_children]
      apply List.mem_append_left
      split
      · rename_i hyq
        refine List.mem_filter.mpr ⟨hj, ?_⟩
        simp only [bne_iff_ne, ne_eq, hid]
        exact fun e => hjc ⟨hyq, e⟩
      · exact hj

theorem restAdj_congr {d d' : Design} (hn : d'.ndefs = d.ndefs) (ht : d'.top = d.top)
    (hc : ∀ x, x < d.ndefs → x ≠ d.top → (d'.defs x).cables = (d.defs x).cables)
    (hi : ∀ i x, (∃ j, InstIn d' j ∧ j.id = i ∧ j.ref = x) ↔ (∃ j, InstIn d j ∧ j.id = i ∧ j.ref = x))
    (a b : UNode) : RestAdj d' a b ↔ RestAdj d a b := by
  constructor
  · intro h
    cases h with
    | outer hx hxt hcm hw hp =>
      rw [hn] at hx; rw [ht] at hxt
      rw [hc _ hx hxt] at hcm
      exact RestAdj.outer hx hxt hcm hw hp
    | @inner x c k w j pi bit hx hxt hcm hw hp hj hr =>
      rw [hn] at hx; rw [ht] at hxt
      rw [hc _ hx hxt] at hcm
      obtain ⟨j', hj', h1, h2⟩ := (hi j.id x).mp ⟨j, hj, rfl, hr⟩
      rw [← h1]
      exact RestAdj.inner hx hxt hcm hw hp hj' h2
  · intro h
    cases h with
    | outer hx hxt hcm hw hp =>
      rw [← hc _ hx hxt] at hcm
      exact RestAdj.outer (by rw [hn]; exact hx) (by rw [ht]; exact hxt) hcm hw hp
    | @inner x c k w j pi bit hx hxt hcm hw hp hj hr =>
      rw [← hc _ hx hxt] at hcm
      obtain ⟨j', hj', h1, h2⟩ := (hi j.id x).mpr ⟨j, hj, rfl, hr⟩
      rw [← h1]
      exact RestAdj.inner (by rw [hn]; exact hx) (by rw [ht]; exact hxt) hcm hw hp hj' h2

theorem wadj_congr {f g : Label → List Pin} {R S : UNode → UNode → Prop} (hfg : ∀ l p, p ∈ f l ↔ p ∈ g l)
    (hRS : ∀ a b, R a b ↔ S a b) (a b : UNode) : WAdj f R a b ↔ WAdj g S a b := by
  simp only [WAdj]
  constructor
  · rintro (⟨l, p, h1, h2, h3⟩ | h)
    · exact Or.inl ⟨l, p, h1, (hfg l p).mp h2, h3⟩
    · exact Or.inr ((hRS a b).mp h)
  · rintro (⟨l, p, h1, h2, h3⟩ | h)
    · exact Or.inl ⟨l, p, h1, (hfg l p).mpr h2, h3⟩
    · exact Or.inr ((hRS a b).mpr h)

theorem conn_congr {α : Type} {r s : α → α → Prop} (h : ∀ a b, r a b ↔ s a b) (a b : α) : Conn r a b ↔ Conn s a b :=
  ⟨Conn.mono (fun a b => (h a b).mp), Conn.mono (fun a b => (h a b).mpr)⟩

end Spydr.Xform
