/-
  `_redo_connections` for all port pins of the dissolved instance: the fold of `redoPin` over
  `portBits` preserves pin uniqueness, removes every inner/outer pin of the instance that it visits,
  invents no pin, and preserves connectivity between all nodes it does not contract.
-/
import Spydr.Xform.LemmasFlatB1

set_option linter.unusedSimpArgs false

namespace Spydr.Xform

/-- nodes that no redo step of instance `iid` contracts -/
def StableFor (iid : Nat) (a : UNode) : Prop := (∀ c k, a ≠ .W c k) ∧ (∀ pi b, a ≠ .P iid pi b)

/-- what the rest of the graph must satisfy: it does not touch the pins of `iid`, and its wires are
    not wires of the cable list being rewritten -/
def RestOk (iid : Nat) (R : UNode → UNode → Prop) (ids : List Nat) : Prop :=
  ∀ a b, R a b → (∀ pi b', b ≠ .P iid pi b') ∧ (∀ c k, b ≠ .W c k) ∧ (∀ pi b', a ≠ .P iid pi b') ∧
    (∀ c k, a = .W c k → c ∉ ids)

theorem redoPin_step {iid : Nat} {R : UNode → UNode → Prop} {cs : List Cable} (pb : Nat × Nat)
    (hids : (cs.map (·.id)).Nodup) (hok : PinsOk (pinsAt cs)) (hR : RestOk iid R (cs.map (·.id))) :
    ((redoPin iid cs pb).map (·.id) = cs.map (·.id)) ∧ PinsOk (pinsAt (redoPin iid cs pb)) ∧
    (∀ l p, p ∈ pinsAt (redoPin iid cs pb) l → (∃ l', p ∈ pinsAt cs l') ∧ p ≠ .inner iid pb.1 pb.2 ∧ p ≠ .inst iid pb.1 pb.2) ∧
    (∀ a b, StableFor iid a → StableFor iid b →
      (Conn (WAdj (pinsAt cs) R) a b ↔ Conn (WAdj (pinsAt (redoPin iid cs pb)) R) a b)) := by
  have hne : Pin.inner iid pb.1 pb.2 ≠ Pin.inst iid pb.1 pb.2 := by simp
  have hin := findWire_inSpec hids (.inner iid pb.1 pb.2)
  have hout := findWire_outSpec hids (.inst iid pb.1 pb.2)
  rw [pinsAt_redoPin]
  refine ⟨redoPin_ids iid cs pb, redo_pinsOk hok hne hin hout, ?_, ?_⟩
  · intro l p hp
    exact ⟨redo_subset hok hne hin hout l p hp, redo_gone hok hne hin hout l p hp⟩
  · intro a b ha hb
    rcases redo_shape hok hne hin hout with hs | ⟨lI, lO, hs⟩
    · exact conn_of_delete hs (fun u v h => ⟨(hR u v h).2.2.1 _ _, (hR u v h).1 _ _⟩) (ha.2 _ _) (hb.2 _ _)
    · refine conn_of_merge hok hs ?_ (ha.2 _ _) (hb.2 _ _) ha.1 hb.1
      intro u v h
      obtain ⟨h1, h2, h3, h4⟩ := hR u v h
      refine ⟨h3 _ _, h1 _ _, ?_, h2⟩
      intro e
      obtain ⟨c, hc, hid, _⟩ := mem_pinsAt hs.1
      exact h4 _ _ e (List.mem_map.mpr ⟨c, hc, hid⟩)

theorem redoFold {iid : Nat} {R : UNode → UNode → Prop} : ∀ (pbs : List (Nat × Nat)) (cs : List Cable),
    (cs.map (·.id)).Nodup → PinsOk (pinsAt cs) → RestOk iid R (cs.map (·.id)) →
    ((pbs.foldl (redoPin iid) cs).map (·.id) = cs.map (·.id)) ∧ PinsOk (pinsAt (pbs.foldl (redoPin iid) cs)) ∧
    (∀ l p, p ∈ pinsAt (pbs.foldl (redoPin iid) cs) l → (∃ l', p ∈ pinsAt cs l') ∧
      ∀ pb ∈ pbs, p ≠ .inner iid pb.1 pb.2 ∧ p ≠ .inst iid pb.1 pb.2) ∧
    (∀ a b, StableFor iid a → StableFor iid b →
      (Conn (WAdj (pinsAt cs) R) a b ↔ Conn (WAdj (pinsAt (pbs.foldl (redoPin iid) cs)) R) a b))
  | [], cs, _, hok, _ => ⟨rfl, hok, fun l p hp => ⟨⟨l, hp⟩, by simp⟩, fun _ _ _ _ => Iff.rfl⟩
  | pb :: pbs, cs, hids, hok, hR => by
    obtain ⟨e1, ok1, sub1, conn1⟩ := redoPin_step pb hids hok hR
    have hids1 : ((redoPin iid cs pb).map (·.id)).Nodup := by rw [e1]; exact hids
    have hR1 : RestOk iid R ((redoPin iid cs pb).map (·.id)) := by rw [e1]; exact hR
    obtain ⟨e2, ok2, sub2, conn2⟩ := redoFold pbs (redoPin iid cs pb) hids1 ok1 hR1
    simp only [List.foldl_cons]
    refine ⟨e2.trans e1, ok2, ?_, ?_⟩
    · intro l p hp
      obtain ⟨⟨l1, hp1⟩, hg⟩ := sub2 l p hp
      obtain ⟨hsub, hg1⟩ := sub1 l1 p hp1
      refine ⟨hsub, ?_⟩
      intro pb' hpb'
      rcases List.mem_cons.mp hpb' with rfl | h
      · exact hg1
      · exact hg pb' h
    · intro a b ha hb
      exact (conn1 a b ha hb).trans (conn2 a b ha hb)

/-! ### `portBits` covers every valid port pin -/

theorem mem_portBits {ports : List Port} {pi b : Nat} {P : Port} (hP : ports[pi]? = some P) (hb : b < P.width) :
    (pi, b) ∈ portBits ports := by
  simp only [portBits, List.mem_flatMap, List.mem_range, List.mem_map]
  have hlt : pi < ports.length := (List.getElem?_eq_some_iff.mp hP).1
  refine ⟨pi, hlt, b, ?_, rfl⟩
  simp only [List.getD, hP, Option.getD_some]
  exact hb

end Spydr.Xform
