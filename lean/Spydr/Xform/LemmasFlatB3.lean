/-
  Two structural graph lemmas for the dissolve step:
  * `lift_iff`: bringing the cables of the dissolved definition to top (inner pins re-labelled as
    lifted pins of the unique instance) does not change any edge;
  * `restOk_of`: after that, the rest of the graph does not touch the pins of the dissolved instance.
-/
import Spydr.Xform.LemmasFlatB2

set_option linter.unusedSimpArgs false

namespace Spydr.Xform

theorem lift_iff {d2 dD : Design} {iid x : Nat} {tc xc lifted : List Cable}
    (hn : dD.ndefs = d2.ndefs) (ht : dD.top = d2.top) (hxlt : x < d2.ndefs) (hxt : x ≠ d2.top)
    (htc : (d2.defs d2.top).cables = tc) (hxc : (d2.defs x).cables = xc)
    (hDx : (dD.defs x).cables = [])
    (hDo : ∀ y, y < d2.ndefs → y ≠ d2.top → y ≠ x → (dD.defs y).cables = (d2.defs y).cables)
    (hkids : ∀ y, (dD.defs y).children = (d2.defs y).children)
    (hlift : ∀ l, pinsAt lifted l = (pinsAt xc l).map (liftPin iid))
    (hxcnd : (xc.map (·.id)).Nodup) (hdisj : ∀ c ∈ xc, c.id ∉ tc.map (·.id))
    (hnoinner : ∀ l p, p ∈ pinsAt xc l → ∀ i pi b, p ≠ .inner i pi b)
    (hshell : ∃ j, InstIn d2 j ∧ j.id = iid ∧ j.ref = x) (honly : ∀ j, InstIn d2 j → j.ref = x → j.id = iid)
    (a b : UNode) : SAdj d2 a b ↔ WAdj (pinsAt (tc ++ lifted)) (RestAdj dD) a b := by
  have hinst : ∀ j, InstIn dD j ↔ InstIn d2 j := by
    intro j
    simp only [InstIn, hn, hkids]
  -- a pin of a wire of `x`, as it shows up among the lifted cables
  have hup : ∀ {c : Cable} {k : Nat} {w : List Pin} {p : Pin}, c ∈ xc → c.wires[k]? = some w → p ∈ w →
      liftPin iid p ∈ pinsAt (tc ++ lifted) (c.id, k) := by
    intro c k w p hc hw hp
    rw [pinsAt_append, if_neg (hdisj c hc), hlift]
    apply List.mem_map_of_mem
    rw [pinsAt_of_mem hxcnd hc, getD_of_getElem? hw]; exact hp
  constructor
  · rintro (⟨l, p, rfl, hp, rfl⟩ | h)
    · left
      refine ⟨l, p, rfl, ?_, rfl⟩
      rw [htc] at hp
      obtain ⟨c, hc, hid, _⟩ := mem_pinsAt hp
      rw [pinsAt_append, if_pos (List.mem_map.mpr ⟨c, hc, hid⟩)]; exact hp
    · cases h with
      | @outer y c k w i pi bit hy hyt hc hw hp =>
        by_cases hyx : y = x
        · subst hyx
          rw [hxc] at hc
          left
          exact ⟨(c.id, k), .inst i pi bit, rfl, hup hc hw hp, rfl⟩
        · right
          exact RestAdj.outer (by rw [hn]; exact hy) (by rw [ht]; exact hyt) (by rw [hDo y hy hyt hyx]; exact hc) hw hp
      | @inner y c k w j pi bit hy hyt hc hw hp hj hr =>
        by_cases hyx : y = x
        · subst hyx
          rw [hxc] at hc
          left
          have hjid := honly j hj hr
          refine ⟨(c.id, k), .inner iid pi bit, rfl, hup hc hw hp, ?_⟩
          rw [hjid]; rfl
        · right
          exact RestAdj.inner (by rw [hn]; exact hy) (by rw [ht]; exact hyt) (by rw [hDo y hy hyt hyx]; exact hc) hw hp
            ((hinst j).mpr hj) hr
  · rintro (⟨l, p, rfl, hp, rfl⟩ | h)
    · rw [pinsAt_append] at hp
      split at hp
      · exact Or.inl ⟨l, p, rfl, by rw [htc]; exact hp, rfl⟩
      · rw [hlift] at hp
        obtain ⟨p0, hp0, rfl⟩ := List.mem_map.mp hp
        obtain ⟨c, hc, hid, w, hw, hpw⟩ := mem_pinsAt hp0
        right
        rw [← hid]
        cases p0 with
        | port pi bit =>
          obtain ⟨j, hj, hjid, hjr⟩ := hshell
          have : nodeOf (liftPin iid (.port pi bit)) = .P j.id pi bit := by rw [hjid]; rfl
          rw [this]
          exact RestAdj.inner hxlt hxt (by rw [hxc]; exact hc) hw hpw hj hjr
        | inst i pi bit => exact RestAdj.outer hxlt hxt (by rw [hxc]; exact hc) hw hpw
        | inner i pi bit => exact absurd rfl (hnoinner l _ hp0 i pi bit)
    · right
      cases h with
      | @outer y c k w i pi bit hy hyt hc hw hp =>
        rw [hn] at hy; rw [ht] at hyt
        have hyx : y ≠ x := by intro e; subst e; rw [hDx] at hc; simp at hc
        exact RestAdj.outer hy hyt (by rw [← hDo y hy hyt hyx]; exact hc) hw hp
      | @inner y c k w j pi bit hy hyt hc hw hp hj hr =>
        rw [hn] at hy; rw [ht] at hyt
        have hyx : y ≠ x := by intro e; subst e; rw [hDx] at hc; simp at hc
        exact RestAdj.inner hy hyt (by rw [← hDo y hy hyt hyx]; exact hc) hw hp ((hinst j).mp hj) hr

theorem restOk_of {dD : Design} {iid : Nat} {ids : List Nat}
    (hids : ∀ y, y < dD.ndefs → y ≠ dD.top → ∀ c ∈ (dD.defs y).cables, c.id ∉ ids)
    (hout : ∀ y, y < dD.ndefs → y ≠ dD.top → ∀ c ∈ (dD.defs y).cables, ∀ w ∈ c.wires, ∀ pi b, Pin.inst iid pi b ∉ w)
    (hin : ∀ j, InstIn dD j → j.id = iid → (dD.defs j.ref).cables = []) :
    RestOk iid (RestAdj dD) ids := by
  intro a b h
  cases h with
  | @outer y c k w i pi bit hy hyt hc hw hp =>
    refine ⟨?_, by simp, by simp, ?_⟩
    · intro pi' b' e
      simp only [UNode.P.injEq] at e
      obtain ⟨rfl, rfl, rfl⟩ := e
      exact hout y hy hyt c hc w (List.mem_of_getElem? hw) _ _ hp
    · intro c' k' e
      simp only [UNode.W.injEq] at e
      rw [← e.1]; exact hids y hy hyt c hc
  | @inner y c k w j pi bit hy hyt hc hw hp hj hr =>
    refine ⟨?_, by simp, by simp, ?_⟩
    · intro pi' b' e
      simp only [UNode.P.injEq] at e
      have := hin j hj e.1
      rw [hr] at this
      rw [this] at hc; simp at hc
    · intro c' k' e
      simp only [UNode.W.injEq] at e
      rw [← e.1]; exact hids y hy hyt c hc

theorem nodup_map_of_inj_on {α β : Type} {f : α → β} : ∀ {l : List α}, l.Nodup →
    (∀ a ∈ l, ∀ b ∈ l, f a = f b → a = b) → (l.map f).Nodup
  | [], _, _ => by simp
  | x :: l, hnd, hinj => by
    simp only [List.map_cons, List.nodup_cons] at hnd ⊢
    refine ⟨?_, nodup_map_of_inj_on hnd.2 (fun a ha b hb => hinj a (List.mem_cons_of_mem _ ha) b (List.mem_cons_of_mem _ hb))⟩
    intro hm
    obtain ⟨y, hy, hxy⟩ := List.mem_map.mp hm
    have := hinj y (List.mem_cons_of_mem _ hy) x List.mem_cons_self hxy
    subst this
    exact hnd.1 hy

end Spydr.Xform
