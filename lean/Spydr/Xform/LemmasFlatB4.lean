/-
  The invariant on the cables of the top definition during flatten (`FInvB`): cable identifiers,
  pin uniqueness, what kinds of pins may sit on top-level wires, and — the point of it all —
  connectivity between endpoints equals that of the original design.
-/
import Spydr.Xform.LemmasFlatB3
import Spydr.Xform.LemmasFlatLeaves

set_option linter.unusedSimpArgs false

namespace Spydr.Xform

/-- a pin that may sit on a wire of the top definition between two iterations -/
def PinAlive (d0 : Design) (moved : List Inst) (tr : List Nat) : Pin → Prop
  | .port pi b => ∃ P ∈ (d0.defs d0.top).ports[pi]?, b < P.width
  | .inst i pi b => ∃ y c0, y < d0.ndefs ∧ (y = d0.top ∨ Dissolved d0 moved y) ∧ c0 ∈ (d0.defs y).children ∧
      c0.id = i ∧ i ∉ tr ∧ ∃ P ∈ (d0.defs c0.ref).ports[pi]?, b < P.width
  | .inner _ _ _ => False

structure FInvB (d0 : Design) (s : FState) (moved : List Inst) : Prop where
  idsNodup : ((s.d.defs d0.top).cables.map (·.id)).Nodup
  idsOrig : ∀ c ∈ (s.d.defs d0.top).cables, ∃ y, y < d0.ndefs ∧ (y = d0.top ∨ Dissolved d0 moved y) ∧
      ∃ c0 ∈ (d0.defs y).cables, c0.id = c.id
  pinsOk : PinsOk (pinsAt (s.d.defs d0.top).cables)
  pins : ∀ l p, p ∈ pinsAt (s.d.defs d0.top).cables l → PinAlive d0 moved s.toRemove p
  conn : ∀ a b, UEndpoint d0 a → UEndpoint d0 b → (Conn (UAdj d0) a b ↔ Conn (SAdj s.d) a b)

theorem PinAlive.mono {d0 : Design} {moved : List Inst} {tr : List Nat} {p : Pin} (h : PinAlive d0 moved tr p)
    (extra : List Inst) : PinAlive d0 (moved ++ extra) tr p := by
  cases p with
  | port pi b => exact h
  | inner _ _ _ => exact h
  | inst i pi b =>
    obtain ⟨y, c0, h1, h2, h3⟩ := h
    exact ⟨y, c0, h1, h2.imp id (fun h => h.mono extra), h3⟩

/-! ### facts about `d0` used below -/

theorem Hyp.cable_ids_disjoint {d0 : Design} (h : Hyp d0) {x y : Nat} (hx : x < d0.ndefs) (hy : y < d0.ndefs)
    {a b : Cable} (ha : a ∈ (d0.defs x).cables) (hb : b ∈ (d0.defs y).cables) (hid : a.id = b.id) : x = y := by
  by_cases hxy : x = y
  · exact hxy
  · exact absurd hid (h.ids.2.2.2 x (by simpa using hx) y (by simpa using hy) hxy a ha b hb)

theorem Hyp.pinOk {d0 : Design} (h : Hyp d0) {x : Nat} (hx : x < d0.ndefs) {l : Label} {p : Pin}
    (hp : p ∈ pinsAt (d0.defs x).cables l) : PinOk d0 (d0.defs x) p :=
  (h.wf.2.1 x (by simpa using hx)).2.2.2 p (mem_allPins_of_pinsAt hp)

theorem Hyp.pinsOk {d0 : Design} (h : Hyp d0) {x : Nat} (hx : x < d0.ndefs) : PinsOk (pinsAt (d0.defs x).cables) :=
  pinsOk_of_nodup _ (h.wf.2.1 x (by simpa using hx)).2.2.1

theorem Hyp.wire_pinOk {d0 : Design} (h : Hyp d0) {x : Nat} (hx : x < d0.ndefs) {c : Cable} {w : List Pin} {p : Pin}
    (hc : c ∈ (d0.defs x).cables) (hw : w ∈ c.wires) (hp : p ∈ w) : PinOk d0 (d0.defs x) p := by
  refine (h.wf.2.1 x (by simpa using hx)).2.2.2 p ?_
  simp only [allPins, List.mem_flatten, List.mem_flatMap]
  exact ⟨w, ⟨c, hc, hw⟩, hp⟩

section state
variable {d0 : Design} {s : FState} {moved : List Inst}

/-- every instance of the current state is an instance of `d0` (same identifier and reference) -/
theorem FInvA.inst_origin (hyp : Hyp d0) (inv : FInvA d0 s moved) {j : Inst} (hj : InstIn s.d j) :
    ∃ z j0, z < d0.ndefs ∧ j0 ∈ (d0.defs z).children ∧ j0.id = j.id ∧ j0.ref = j.ref := by
  obtain ⟨z, hz, hjz⟩ := hj
  rw [inv.ndefs] at hz
  rw [inv.kids z hz] at hjz
  rcases List.mem_append.mp hjz with h | h
  · exact ⟨z, j, hz, (List.mem_filter.mp h).1, rfl, rfl⟩
  · split at h
    · obtain ⟨p, cs, q, c0, hw, _, hc0, h1, h2, _⟩ := inv.movedOrig j h
      exact ⟨q, c0, reach_lt hyp.wf (walk_reach p _ cs q Reach.top hw), hc0, h1.symm, h2.symm⟩
    · simp at h

/-- an instance of the current state whose identifier has been moved is the moved record -/
theorem FInvA.inst_moved (inv : FInvA d0 s moved) {j : Inst} (hj : InstIn s.d j) (hid : j.id ∈ moved.map (·.id)) :
    j ∈ moved := by
  obtain ⟨z, hz, hjz⟩ := hj
  rw [inv.ndefs] at hz
  rw [inv.kids z hz] at hjz
  rcases List.mem_append.mp hjz with h | h
  · have := (List.mem_filter.mp h).2
    simp only [Bool.not_eq_true', List.contains_eq_mem, decide_eq_false_iff_not] at this
    exact absurd hid this
  · split at h
    · exact h
    · simp at h

/-- the cables a definition other than top currently has are its original cables, and it is not
    dissolved -/
theorem FInvA.cable_origin (inv : FInvA d0 s moved) {y : Nat} (hy : y < d0.ndefs) (hyt : y ≠ d0.top) {c : Cable}
    (hc : c ∈ (s.d.defs y).cables) : c ∈ (d0.defs y).cables ∧ ¬ Dissolved d0 moved y := by
  by_cases hd : Dissolved d0 moved y
  · rw [inv.cablesGone y hy hyt hd] at hc; simp at hc
  · rw [inv.cablesKeep y hy hyt hd] at hc; exact ⟨hc, hd⟩

/-- facts about the head of the queue -/
theorem FInvA.head_facts (hyp : Hyp d0) {d : Design} {q iid : Nat} {pn : String} {rest : List (Nat × Nat × String)}
    {tr : List Nat} (inv : FInvA d0 ⟨d, (q, iid, pn) :: rest, tr⟩ moved) {c0 : Inst}
    (hc0 : c0 ∈ (d0.defs q).children) (hid : c0.id = iid) :
    Reach d0 q ∧ q < d0.ndefs ∧ (q = d0.top ∨ Dissolved d0 moved q) ∧ iid ∉ moved.map (·.id) ∧
    c0.ref < d0.ndefs ∧ c0.ref ≠ d0.top ∧ c0.ref ≠ q ∧ ¬ Dissolved d0 moved c0.ref := by
  obtain ⟨p, cs, c0', hw, hqd, hc0', hid', hnm, _⟩ := inv.queue (q, iid, pn) List.mem_cons_self
  simp only at hw hqd hc0' hid' hnm
  have hqR : Reach d0 q := walk_reach p _ cs q Reach.top hw
  have hqlt : q < d0.ndefs := reach_lt hyp.wf hqR
  refine ⟨hqR, hqlt, hqd, hnm, (hyp.wf.2.1 q (by simpa using hqlt)).1 c0 hc0,
    reach_child_ne_top hyp.acyc hyp.wf hqR hc0, child_ne_self hyp.acyc hqlt hc0, ?_⟩
  rintro ⟨m, hm, hmr, hl⟩
  obtain ⟨q', c1, hq', hc1, hmid, hmref⟩ := inv.moved_reach hm
  obtain ⟨_, rfl⟩ := unique_ref hyp.wf hyp.uniq hqR hq' hc0 hc1 (by rw [← hmref, hmr]) hl
  exact hnm (List.mem_map.mpr ⟨m, hm, by rw [hmid, hid]⟩)

end state

end Spydr.Xform
