/-
  One iteration of the flatten loop preserves `FInvB` (together with `FInvA`).
-/
import Spydr.Xform.LemmasFlatB4

set_option linter.unusedSimpArgs false
set_option linter.unusedVariables false

namespace Spydr.Xform

theorem endpoint_stable {d0 : Design} (hyp : Hyp d0) {q : Nat} (hq : q < d0.ndefs) {c0 : Inst}
    (hc0 : c0 ∈ (d0.defs q).children) (hl : (d0.defs c0.ref).isLeaf = false) {a : UNode} (ha : UEndpoint d0 a) :
    StableFor c0.id a := by
  cases a with
  | W c k => exact ha.elim
  | T pi b => exact ⟨by simp, by simp⟩
  | P i pi b =>
    refine ⟨by simp, ?_⟩
    intro pi' b' e
    simp only [UNode.P.injEq] at e
    obtain ⟨j, ⟨z, hz, hj⟩, hjid, hjl⟩ := ha
    have hzq : z = q := hyp.ids_disjoint hz hq hj hc0 (hjid.trans e.1)
    subst hzq
    have := hyp.child_eq hz hj hc0 (hjid.trans e.1)
    subst this
    rw [hl] at hjl; cases hjl

theorem FInvB.step {d0 : Design} (hyp : Hyp d0) (hnamed : Named d0) {d : Design} {q iid : Nat} {pn : String}
    {rest : List (Nat × Nat × String)} {tr : List Nat} {moved : List Inst}
    (invA : FInvA d0 ⟨d, (q, iid, pn) :: rest, tr⟩ moved) (invB : FInvB d0 ⟨d, (q, iid, pn) :: rest, tr⟩ moved) :
    ∃ moved', FInvA d0 ⟨(fStep d q iid pn).1, rest ++ (fStep d q iid pn).2.1, tr ++ (fStep d q iid pn).2.2⟩ moved' ∧
      FInvB d0 ⟨(fStep d q iid pn).1, rest ++ (fStep d q iid pn).2.1, tr ++ (fStep d q iid pn).2.2⟩ moved' := by
  obtain ⟨c0, hc0, hid, hfind, hfs, invA'⟩ := invA.step' hyp hnamed
  obtain ⟨hqR, hqlt, hqd, hnm, hxlt, hxtop, hxq, hxnd⟩ := invA.head_facts hyp hc0 hid
  have hli := liftInst_fields pn d.ctr c0
  generalize liftInst pn d.ctr c0 = li at hli hfs invA'
  obtain ⟨hcid, hcref, hcdata, hcname⟩ := hli
  have hcid' : li.1.id = iid := hcid.trans hid
  rw [hfs] at invA' ⊢
  refine ⟨moved ++ [li.1], ?_⟩
  have htopd : d.top = d0.top := invA.top
  have hnd : d.ndefs = d0.ndefs := invA.ndefs
  have htoplt : d0.top < d0.ndefs := hyp.wf.1
  have hkids := invA.kids
  simp only at hkids
  have hmvids : (moved ++ [li.1]).map (·.id) = moved.map (·.id) ++ [iid] := by simp [hcid']
  -- the current record of the head instance is the original one
  have hc0cur : c0 ∈ (d.defs q).children := List.mem_of_find?_eq_some hfind
  have hcur_uniq : ∀ j ∈ (d.defs q).children, j.id = c0.id → j = c0 := by
    intro j hj hjid
    rw [hkids q hqlt] at hj
    rcases List.mem_append.mp hj with h | h
    · exact hyp.child_eq hqlt (List.mem_filter.mp h).1 hc0 hjid
    · split at h
      · exact absurd (List.mem_map.mpr ⟨j, h, hjid.trans hid⟩) hnm
      · simp at h
  -- `moveInst` leaves the graph alone
  have hmove : ∀ a b, SAdj (moveInst d q li.1 li.2) a b ↔ SAdj d a b := by
    intro a b
    refine wadj_congr ?_ (restAdj_congr (d := d) (d' := moveInst d q li.1 li.2) rfl rfl (fun x _ _ => (moveInst_attrs d q li.1 li.2 x).1)
      (instIn_moveInst (by rw [hnd]; exact hqlt) (by rw [hnd, htopd]; exact htoplt) hc0cur hcid hcref hcur_uniq)) a b
    intro l p
    show p ∈ pinsAt ((moveInst d q li.1 li.2).defs d.top).cables l ↔ _
    rw [(moveInst_attrs d q li.1 li.2 d.top).1]
  have htc2 : ((moveInst d q li.1 li.2).defs d0.top).cables = (d.defs d0.top).cables :=
    (moveInst_attrs d q li.1 li.2 d0.top).1
  cases hleaf : (d0.defs c0.ref).isLeaf with
  | true =>
    rw [hleaf] at invA'
    simp only [if_true, List.append_nil] at invA' ⊢
    refine ⟨invA', ?_⟩
    refine { idsNodup := ?_, idsOrig := ?_, pinsOk := ?_, pins := ?_, conn := ?_ }
    · show (((moveInst d q li.1 li.2).defs d0.top).cables.map (·.id)).Nodup
      rw [htc2]; exact invB.idsNodup
    · intro c hc
      have hc' : c ∈ (d.defs d0.top).cables := by rw [← htc2]; exact hc
      obtain ⟨y, h1, h2, h3⟩ := invB.idsOrig c hc'
      exact ⟨y, h1, h2.imp id (fun h => h.mono _), h3⟩
    · show PinsOk (pinsAt ((moveInst d q li.1 li.2).defs d0.top).cables)
      rw [htc2]; exact invB.pinsOk
    · intro l p hp
      have hp' : p ∈ pinsAt (d.defs d0.top).cables l := by rw [← htc2]; exact hp
      exact (invB.pins l p hp').mono _
    · intro a b ha hb
      exact (invB.conn a b ha hb).trans (conn_congr hmove a b).symm
  | false =>
    rw [hleaf] at invA'
    simp only [Bool.false_eq_true, if_false] at invA' ⊢
    refine ⟨invA', ?_⟩
    generalize hnmdef : li.1.name.getD "" = nm at invA' ⊢
    -- names for the pieces
    have hd2top : (moveInst d q li.1 li.2).top = d0.top := htopd
    have hd2n : (moveInst d q li.1 li.2).ndefs = d0.ndefs := hnd
    have hxc2 : ((moveInst d q li.1 li.2).defs c0.ref).cables = (d0.defs c0.ref).cables := by
      rw [(moveInst_attrs d q li.1 li.2 c0.ref).1]; exact invA.cablesKeep _ hxlt hxtop hxnd
    have hports2 : ((moveInst d q li.1 li.2).defs c0.ref).ports = (d0.defs c0.ref).ports := by
      rw [(moveInst_attrs d q li.1 li.2 c0.ref).2.1]; exact (invA.attrs _ hxlt).1
    have htcD : ((dissolve (moveInst d q li.1 li.2) iid nm c0.ref).defs d0.top).cables =
        (portBits (d0.defs c0.ref).ports).foldl (redoPin iid)
          ((d.defs d0.top).cables ++ (liftCables iid nm li.2 (d0.defs c0.ref).cables).1) := by
      have := dissolve_cables_top (moveInst d q li.1 li.2) iid nm c0.ref (by rw [hd2top]; exact hxtop)
      rw [hd2top, hports2, hxc2, htc2] at this
      exact this
    generalize hliftdef : (liftCables iid nm li.2 (d0.defs c0.ref).cables).1 = lifted at htcD
    have hlids : lifted.map (·.id) = (d0.defs c0.ref).cables.map (·.id) := by
      rw [← hliftdef]; exact liftCables_ids _ _ _ _
    have hlpins : ∀ l, pinsAt lifted l = (pinsAt (d0.defs c0.ref).cables l).map (liftPin iid) := by
      intro l; rw [← hliftdef]; exact pinsAt_liftCables _ _ _ _ _
    have hxcnd : ((d0.defs c0.ref).cables.map (·.id)).Nodup := hyp.ids.2.2.1 _ (by simpa using hxlt)
    have hxcok := hyp.pinsOk hxlt
    have hxnoinner : ∀ l p, p ∈ pinsAt (d0.defs c0.ref).cables l → ∀ i pi b, p ≠ .inner i pi b := by
      intro l p hp i pi b e
      subst e
      exact hyp.pinOk hxlt hp
    -- cables of `x` are not yet among the top cables
    have hdisj : ∀ c ∈ (d0.defs c0.ref).cables, c.id ∉ (d.defs d0.top).cables.map (·.id) := by
      intro c hc hmem
      obtain ⟨c1, hc1, hid1⟩ := List.mem_map.mp hmem
      obtain ⟨y, hy, hyd, c2, hc2, hid2⟩ := invB.idsOrig c1 hc1
      have : y = c0.ref := hyp.cable_ids_disjoint hy hxlt hc2 hc (hid2.trans hid1)
      subst this
      rcases hyd with h | h
      · exact hxtop h
      · exact hxnd h
    have hdis' : Dissolved d0 (moved ++ [li.1]) c0.ref := ⟨li.1, by simp, hcref, hleaf⟩
    -- identifiers of the extended cable list
    have hidsL : (((d.defs d0.top).cables ++ lifted).map (·.id)).Nodup := by
      rw [List.map_append, hlids]
      refine List.nodup_append.mpr ⟨invB.idsNodup, hxcnd, ?_⟩
      intro a ha b hb hab
      subst hab
      obtain ⟨c, hc, hcid2⟩ := List.mem_map.mp hb
      exact hdisj c hc (hcid2 ▸ ha)
    -- pins of a lifted wire
    have hliftedAlive : ∀ l p, p ∈ pinsAt lifted l →
        (∃ pi b, p = .inner iid pi b ∧ (pi, b) ∈ portBits (d0.defs c0.ref).ports) ∨
        (∃ k pi b, p = .inst k pi b ∧ k ∈ (d0.defs c0.ref).children.map (·.id) ∧
          ∃ kc ∈ (d0.defs c0.ref).children, kc.id = k ∧ ∃ P ∈ (d0.defs kc.ref).ports[pi]?, b < P.width) := by
      intro l p hp
      rw [hlpins] at hp
      obtain ⟨p0, hp0, rfl⟩ := List.mem_map.mp hp
      have hok0 := hyp.pinOk hxlt hp0
      cases p0 with
      | port pi b =>
        obtain ⟨P, hP, hb⟩ := hok0
        exact Or.inl ⟨pi, b, rfl, mem_portBits hP hb⟩
      | inst k pi b =>
        obtain ⟨kc, hkc, hkid, P, hP, hb⟩ := hok0
        exact Or.inr ⟨k, pi, b, rfl, List.mem_map.mpr ⟨kc, hkc, hkid⟩, kc, hkc, hkid, P, hP, hb⟩
      | inner i pi b => exact hok0.elim
    -- children of `x` are not alive on top wires yet
    have hkid_fresh : ∀ kc ∈ (d0.defs c0.ref).children, ∀ y c1, y < d0.ndefs → (y = d0.top ∨ Dissolved d0 moved y) →
        c1 ∈ (d0.defs y).children → c1.id ≠ kc.id := by
      intro kc hkc y c1 hy hyd hc1 e
      have : y = c0.ref := hyp.ids_disjoint hy hxlt hc1 hkc e
      subst this
      rcases hyd with h | h
      · exact hxtop h
      · exact hxnd h
    have hokL : PinsOk (pinsAt ((d.defs d0.top).cables ++ lifted)) := by
      refine ⟨?_, ?_⟩
      · intro l
        rw [pinsAt_append]
        split
        · exact invB.pinsOk.nodup l
        · rw [hlpins]
          refine nodup_map_of_inj_on (hxcok.nodup l) ?_
          intro a ha b hb hab
          exact liftPin_inj iid (hxnoinner l a ha) (hxnoinner l b hb) hab
      · intro p l1 l2 h1 h2
        rw [pinsAt_append] at h1 h2
        split at h1 <;> split at h2
        · exact invB.pinsOk.uniq p l1 l2 h1 h2
        · -- on an old top wire and on a lifted wire: impossible
          exfalso
          have halive := invB.pins l1 p h1
          rcases hliftedAlive l2 p h2 with ⟨pi, b, rfl, _⟩ | ⟨k, pi, b, rfl, _, kc, hkc, hkid, _⟩
          · exact halive
          · obtain ⟨y, c1, hy, hyd, hc1, hc1id, _⟩ := halive
            exact hkid_fresh kc hkc y c1 hy hyd hc1 (hc1id.trans hkid.symm)
        · exfalso
          have halive := invB.pins l2 p h2
          rcases hliftedAlive l1 p h1 with ⟨pi, b, rfl, _⟩ | ⟨k, pi, b, rfl, _, kc, hkc, hkid, _⟩
          · exact halive
          · obtain ⟨y, c1, hy, hyd, hc1, hc1id, _⟩ := halive
            exact hkid_fresh kc hkc y c1 hy hyd hc1 (hc1id.trans hkid.symm)
        · rw [hlpins] at h1 h2
          obtain ⟨p1, hp1, e1⟩ := List.mem_map.mp h1
          obtain ⟨p2, hp2, e2⟩ := List.mem_map.mp h2
          have : p1 = p2 := liftPin_inj iid (hxnoinner l1 p1 hp1) (hxnoinner l2 p2 hp2) (e1.trans e2.symm)
          subst this
          exact hxcok.uniq p1 l1 l2 hp1 hp2
    -- the design after the step
    generalize hdDdef : dissolve (moveInst d q li.1 li.2) iid nm c0.ref = dD at invA' htcD ⊢
    have hDn : dD.ndefs = d0.ndefs := invA'.ndefs
    have hDtop : dD.top = d0.top := invA'.top
    -- cables of the other definitions after the step
    have hDcab : ∀ y, y < d0.ndefs → y ≠ d0.top → ∀ c ∈ (dD.defs y).cables,
        c ∈ (d0.defs y).cables ∧ ¬ Dissolved d0 (moved ++ [li.1]) y := fun y hy hyt c hc => invA'.cable_origin hy hyt hc
    have hRest : RestOk iid (RestAdj dD) (((d.defs d0.top).cables ++ lifted).map (·.id)) := by
      apply restOk_of
      · intro y hy hyt c hc hmem
        rw [hDn] at hy; rw [hDtop] at hyt
        obtain ⟨hc0y, hndy⟩ := hDcab y hy hyt c hc
        rw [List.map_append, hlids] at hmem
        rcases List.mem_append.mp hmem with h | h
        · obtain ⟨c1, hc1, hid1⟩ := List.mem_map.mp h
          obtain ⟨y', hy', hyd', c2, hc2, hid2⟩ := invB.idsOrig c1 hc1
          have : y' = y := hyp.cable_ids_disjoint hy' hy hc2 hc0y (hid2.trans hid1)
          subst this
          rcases hyd' with h' | h'
          · exact hyt h'
          · exact hndy (h'.mono _)
        · obtain ⟨c1, hc1, hid1⟩ := List.mem_map.mp h
          have : c0.ref = y := hyp.cable_ids_disjoint hxlt hy hc1 hc0y hid1
          subst this
          exact hndy hdis'
      · intro y hy hyt c hc w hw pi b hp
        rw [hDn] at hy; rw [hDtop] at hyt
        obtain ⟨hc0y, hndy⟩ := hDcab y hy hyt c hc
        obtain ⟨kc, hkc, hkid, _⟩ := hyp.wire_pinOk hy hc0y hw hp
        have : y = q := hyp.ids_disjoint hy hqlt hkc hc0 (hkid.trans hid.symm)
        subst this
        rcases hqd with h | h
        · exact hyt h
        · exact hndy (h.mono _)
      · intro j hj hjid
        have hjm : j ∈ moved ++ [li.1] := invA'.inst_moved hj (by rw [hmvids, hjid]; simp)
        have : j = li.1 := nodup_map_inj invA'.movedNodup hjm (by simp) (hjid.trans hcid'.symm)
        subst this
        rw [hcref]
        exact invA'.cablesGone _ hxlt hxtop hdis'
    obtain ⟨eids, okF, subF, connF⟩ := redoFold (portBits (d0.defs c0.ref).ports) _ hidsL hokL hRest
    rw [← htcD] at eids okF subF connF
    -- the only instance of `x` is the head instance
    have hcnt : d0.refCount c0.ref = 1 := by
      rcases hyp.uniq q c0 hqR hc0 with h | h
      · rw [hleaf] at h; cases h
      · exact h
    have honly : ∀ j, InstIn (moveInst d q li.1 li.2) j → j.ref = c0.ref → j.id = iid := by
      intro j hj hjr
      obtain ⟨j', hj', h1, h2⟩ := (instIn_moveInst (by rw [hnd]; exact hqlt) (by rw [hnd, htopd]; exact htoplt)
        hc0cur hcid hcref hcur_uniq j.id j.ref).mp ⟨j, hj, rfl, rfl⟩
      obtain ⟨z, j0, hz, hj0, e1, e2⟩ := invA.inst_origin hyp hj'
      have := ref_unique_of_count hcnt hz hqlt hj0 hc0 (by rw [e2, h2, hjr]) rfl
      obtain ⟨rfl, rfl⟩ := this
      rw [← h1, ← e1, hid]
    have hshell : ∃ j, InstIn (moveInst d q li.1 li.2) j ∧ j.id = iid ∧ j.ref = c0.ref := by
      refine ⟨li.1, ⟨d0.top, by rw [hd2n]; exact htoplt, ?_⟩, hcid', hcref⟩
      rw [moveInst_children, htopd]
      apply List.mem_append_right
      simp
    have hlift : ∀ a b, SAdj (moveInst d q li.1 li.2) a b ↔
        WAdj (pinsAt ((d.defs d0.top).cables ++ lifted)) (RestAdj dD) a b := by
      intro a b
      refine lift_iff (by rw [hDn, hd2n]) (by rw [hDtop, hd2top]) (by rw [hd2n]; exact hxlt) (by rw [hd2top]; exact hxtop)
        (by rw [hd2top]; exact htc2) hxc2 ?_ ?_ ?_ hlpins hxcnd hdisj hxnoinner hshell honly a b
      · exact invA'.cablesGone _ hxlt hxtop hdis'
      · intro y hy hyt hyx
        rw [← hdDdef]
        rw [hd2top] at hyt
        rw [dissolve_cables_other _ _ _ _ _ (by rw [hd2top]; exact hyt)]
        simp [hyx]
      · intro y
        rw [← hdDdef]
        exact (dissolve_attrs _ _ _ _ y).1
    refine { idsNodup := ?_, idsOrig := ?_, pinsOk := okF, pins := ?_, conn := ?_ }
    · show ((dD.defs d0.top).cables.map (·.id)).Nodup
      rw [eids]; exact hidsL
    · intro c hc
      have hmem : c.id ∈ ((d.defs d0.top).cables ++ lifted).map (·.id) := by
        rw [← eids]; exact List.mem_map.mpr ⟨c, hc, rfl⟩
      rw [List.map_append, hlids] at hmem
      rcases List.mem_append.mp hmem with h | h
      · obtain ⟨c1, hc1, hid1⟩ := List.mem_map.mp h
        obtain ⟨y, h1, h2, c2, hc2, hid2⟩ := invB.idsOrig c1 hc1
        exact ⟨y, h1, h2.imp id (fun h => h.mono _), c2, hc2, hid2.trans hid1⟩
      · obtain ⟨c1, hc1, hid1⟩ := List.mem_map.mp h
        exact ⟨c0.ref, hxlt, Or.inr hdis', c1, hc1, hid1⟩
    · intro l p hp
      obtain ⟨⟨l', hp'⟩, hgone⟩ := subF l p hp
      show PinAlive d0 (moved ++ [li.1]) (tr ++ [iid]) p
      rw [pinsAt_append] at hp'
      split at hp'
      · have halive := invB.pins l' p hp'
        cases p with
        | port pi b => exact halive
        | inner i pi b => exact halive.elim
        | inst i pi b =>
          obtain ⟨y, c1, hy, hyd, hc1, hc1id, hitr, P, hP, hb⟩ := halive
          refine ⟨y, c1, hy, hyd.imp id (fun h => h.mono _), hc1, hc1id, ?_, P, hP, hb⟩
          intro hmem
          rcases List.mem_append.mp hmem with h | h
          · exact hitr h
          · simp only [List.mem_singleton] at h
            -- the pin belongs to the dissolved instance: the fold removed it
            have hyq : y = q := hyp.ids_disjoint hy hqlt hc1 hc0 (hc1id.trans (h.trans hid.symm))
            subst hyq
            have : c1 = c0 := hyp.child_eq hy hc1 hc0 (hc1id.trans (h.trans hid.symm))
            subst this
            have := (hgone (pi, b) (mem_portBits hP hb)).2
            exact this (by rw [h])
      · rcases hliftedAlive l' p hp' with ⟨pi, b, rfl, hpb⟩ | ⟨k, pi, b, rfl, _, kc, hkc, hkid, P, hP, hb⟩
        · exact absurd rfl (hgone (pi, b) hpb).1
        · refine ⟨c0.ref, kc, hxlt, Or.inr hdis', hkc, hkid, ?_, P, hP, hb⟩
          intro hmem
          have hkmv : kc.id ∉ moved.map (·.id) := invA.untouched hyp hxlt hxtop hxnd kc hkc
          rcases List.mem_append.mp hmem with h | h
          · have htr := invA.toRemove
            simp only at htr
            rw [htr] at h
            obtain ⟨m, hm, hmid⟩ := List.mem_map.mp h
            exact hkmv (List.mem_map.mpr ⟨m, (List.mem_filter.mp hm).1, hmid.trans hkid.symm⟩)
          · simp only [List.mem_singleton] at h
            exact hxq (hyp.ids_disjoint hxlt hqlt hkc hc0 (hkid.trans (h.trans hid.symm)))
    · intro a b ha hb
      have hsa : StableFor iid a := hid ▸ endpoint_stable hyp hqlt hc0 hleaf ha
      have hsb : StableFor iid b := hid ▸ endpoint_stable hyp hqlt hc0 hleaf hb
      have h1 := invB.conn a b ha hb
      have h2 := (conn_congr hmove a b).symm
      have h3 := conn_congr hlift a b
      have h4 := connF a b hsa hsb
      have h5 : Conn (WAdj (pinsAt (dD.defs d0.top).cables) (RestAdj dD)) a b ↔ Conn (SAdj dD) a b := by
        simp only [SAdj, hDtop]
      exact h1.trans (h2.trans (h3.trans (h4.trans h5)))

end Spydr.Xform
