/-
  Basic facts for the flatten proofs: walks, slash-joined names, uniqueness of the instance of a
  non-leaf definition, unfolding of `moveInst` / `dissolve`.
-/
import Spydr.Xform.ModelFlatten
import Spydr.Xform.SpecFlat
import Spydr.Xform.LemmasUniqRun

namespace Spydr.Xform

/-! ### walks -/

theorem walk_snoc {d : Design} : ∀ (p : List Nat) (x : Nat) (cs : List Inst) (y i : Nat) (c : Inst),
    walk d x p = some (cs, y) → childById (d.defs y) i = some c →
    walk d x (p ++ [i]) = some (cs ++ [c], c.ref)
  | [], x, cs, y, i, c, h, hc => by
    simp only [walk, Option.some.injEq, Prod.mk.injEq] at h
    obtain ⟨rfl, rfl⟩ := h
    simp [walk, hc]
  | j :: p, x, cs, y, i, c, h, hc => by
    simp only [walk] at h
    cases hj : childById (d.defs x) j with
    | none => simp [hj] at h
    | some cj =>
      simp only [hj] at h
      cases hw : walk d cj.ref p with
      | none => simp [hw] at h
      | some r =>
        obtain ⟨cs', y'⟩ := r
        simp only [hw, Option.some.injEq, Prod.mk.injEq] at h
        obtain ⟨rfl, rfl⟩ := h
        have := walk_snoc p cj.ref cs' y' i c hw hc
        simp [walk, hj, this]

/-- a walk decomposes at its last step -/
theorem walk_snoc_inv {d : Design} : ∀ (p : List Nat) (x : Nat) (i : Nat) (r : List Inst × Nat),
    walk d x (p ++ [i]) = some r →
    ∃ cs y c, walk d x p = some (cs, y) ∧ childById (d.defs y) i = some c ∧ r = (cs ++ [c], c.ref)
  | [], x, i, r, h => by
    simp only [List.nil_append, walk] at h
    cases hc : childById (d.defs x) i with
    | none => simp [hc] at h
    | some c =>
      simp only [hc, Option.some.injEq] at h
      exact ⟨[], x, c, rfl, hc, by rw [← h]; rfl⟩
  | j :: p, x, i, r, h => by
    simp only [List.cons_append, walk] at h
    cases hj : childById (d.defs x) j with
    | none => simp [hj] at h
    | some cj =>
      simp only [hj] at h
      cases hw : walk d cj.ref (p ++ [i]) with
      | none => simp [hw] at h
      | some r' =>
        obtain ⟨cs', y'⟩ := r'
        simp only [hw, Option.some.injEq] at h
        obtain ⟨cs, y, c, h1, h2, h3⟩ := walk_snoc_inv p cj.ref i _ hw
        simp only [Prod.mk.injEq] at h3
        refine ⟨cj :: cs, y, c, by simp [walk, hj, h1], h2, ?_⟩
        rw [← h, h3.1, h3.2]; rfl

theorem walk_length {d : Design} : ∀ (p : List Nat) (x : Nat) (cs : List Inst) (y : Nat),
    walk d x p = some (cs, y) → cs.length = p.length
  | [], x, cs, y, h => by simp only [walk, Option.some.injEq, Prod.mk.injEq] at h; rw [← h.1]; rfl
  | j :: p, x, cs, y, h => by
    simp only [walk] at h
    cases hj : childById (d.defs x) j with
    | none => simp [hj] at h
    | some cj =>
      simp only [hj] at h
      cases hw : walk d cj.ref p with
      | none => simp [hw] at h
      | some r =>
        obtain ⟨cs', y'⟩ := r
        simp only [hw, Option.some.injEq, Prod.mk.injEq] at h
        rw [← h.1]; simp [walk_length p cj.ref cs' y' hw]

/-- the definition a walk from the top definition ends in is reachable -/
theorem walk_reach {d : Design} : ∀ (p : List Nat) (x : Nat) (cs : List Inst) (y : Nat), Reach d x →
    walk d x p = some (cs, y) → Reach d y
  | [], x, cs, y, hx, h => by simp only [walk, Option.some.injEq, Prod.mk.injEq] at h; rw [← h.2]; exact hx
  | j :: p, x, cs, y, hx, h => by
    simp only [walk] at h
    cases hj : childById (d.defs x) j with
    | none => simp [hj] at h
    | some cj =>
      simp only [hj] at h
      cases hw : walk d cj.ref p with
      | none => simp [hw] at h
      | some r =>
        obtain ⟨cs', y'⟩ := r
        simp only [hw, Option.some.injEq, Prod.mk.injEq] at h
        rw [← h.2]
        exact walk_reach p cj.ref cs' y' (Reach.step hx (childById_id hj).2) hw

/-! ### rank along reachability -/

theorem reach_rank {d : Design} {rank : Nat → Nat}
    (hr : ∀ q, q < d.ndefs → ∀ c ∈ (d.defs q).children, rank c.ref < rank q) (hwf : WF d)
    {x : Nat} (hx : Reach d x) : x < d.ndefs ∧ (x = d.top ∨ rank x < rank d.top) := by
  induction hx with
  | top => exact ⟨hwf.1, Or.inl rfl⟩
  | step _ hc ih =>
    have h1 := (hwf.2.1 _ (by simpa using ih.1)).1 _ hc
    have h2 := hr _ ih.1 _ hc
    refine ⟨h1, Or.inr ?_⟩
    rcases ih.2 with e | e
    · rw [← e]; exact h2
    · omega

/-- nothing reachable instantiates the top definition -/
theorem reach_child_ne_top {d : Design} (hac : Acyclic d) (hwf : WF d) {q : Nat} (hq : Reach d q)
    {c : Inst} (hc : c ∈ (d.defs q).children) : c.ref ≠ d.top := by
  obtain ⟨rank, hr⟩ := hac
  have h1 := reach_rank hr hwf hq
  have h2 := hr q h1.1 c hc
  intro e
  rw [e] at h2
  rcases h1.2 with e' | e'
  · rw [e'] at h2; omega
  · omega

/-- nothing instantiates its own definition -/
theorem child_ne_self {d : Design} (hac : Acyclic d) {q : Nat} (hq : q < d.ndefs)
    {c : Inst} (hc : c ∈ (d.defs q).children) : c.ref ≠ q := by
  obtain ⟨rank, hr⟩ := hac
  have := hr q hq c hc
  intro e; rw [e] at this; omega

/-! ### the instance of a non-leaf reachable definition is unique -/

theorem countP_ge_two {α : Type} (p : α → Bool) : ∀ (l : List α) (a b : α), a ∈ l → b ∈ l → a ≠ b →
    p a = true → p b = true → 2 ≤ l.countP p
  | [], a, _, ha, _, _, _, _ => by simp at ha
  | x :: l, a, b, ha, hb, hab, pa, pb => by
    simp only [List.countP_cons]
    rcases List.mem_cons.mp ha with rfl | ha' <;> rcases List.mem_cons.mp hb with rfl | hb'
    · exact absurd rfl hab
    · have : 1 ≤ l.countP p := List.countP_pos_iff.mpr ⟨b, hb', pb⟩
      rw [if_pos pa]; omega
    · have : 1 ≤ l.countP p := List.countP_pos_iff.mpr ⟨a, ha', pa⟩
      rw [if_pos pb]; omega
    · have := countP_ge_two p l a b ha' hb' hab pa pb
      omega

/-- `refCount = 1`: two children (anywhere in the design) referencing `x` are the same child -/
theorem ref_unique_of_count {d : Design} {x q1 q2 : Nat} {c1 c2 : Inst} (h1 : d.refCount x = 1)
    (hq1 : q1 < d.ndefs) (hq2 : q2 < d.ndefs) (hc1 : c1 ∈ (d.defs q1).children) (hc2 : c2 ∈ (d.defs q2).children)
    (hr1 : c1.ref = x) (hr2 : c2.ref = x) : q1 = q2 ∧ c1 = c2 := by
  have hrc : d.refCount x = d.extra x + ((List.range d.ndefs).map (fun j => (d.defs j).refsTo x)).sum := rfl
  have p1 := refsTo_pos hc1 hr1
  have p2 := refsTo_pos hc2 hr2
  by_cases hq : q1 = q2
  · subst hq
    refine ⟨rfl, ?_⟩
    by_cases hc : c1 = c2
    · exact hc
    · have h2 : 2 ≤ (d.defs q1).refsTo x :=
        countP_ge_two (fun c : Inst => c.ref == x) _ c1 c2 hc1 hc2 hc (by simpa using hr1) (by simpa using hr2)
      have h3 := sum_range_ge (fun j => (d.defs j).refsTo x) d.ndefs q1 hq1
      omega
  · have := sum_range_ge2 (fun j => (d.defs j).refsTo x) d.ndefs q1 q2 hq1 hq2 hq
    omega

theorem unique_ref {d : Design} (hwf : WF d) (hu : Unique d) {q1 q2 : Nat} {c1 c2 : Inst}
    (hq1 : Reach d q1) (hq2 : Reach d q2) (hc1 : c1 ∈ (d.defs q1).children) (hc2 : c2 ∈ (d.defs q2).children)
    (hr : c1.ref = c2.ref) (hl : (d.defs c1.ref).isLeaf = false) : q1 = q2 ∧ c1 = c2 := by
  have hlt : ∀ {y}, Reach d y → y < d.ndefs := by
    intro y hy
    induction hy with
    | top => exact hwf.1
    | step _ hc ih => exact (hwf.2.1 _ (by simpa using ih)).1 _ hc
  rcases hu q1 c1 hq1 hc1 with h | h
  · rw [hl] at h; cases h
  · exact ref_unique_of_count h (hlt hq1) (hlt hq2) hc1 hc2 rfl hr.symm

theorem reach_lt {d : Design} (hwf : WF d) {y : Nat} (hy : Reach d y) : y < d.ndefs := by
  induction hy with
  | top => exact hwf.1
  | step _ hc ih => exact (hwf.2.1 _ (by simpa using ih)).1 _ hc

/-! ### slash-joined names -/

theorem slashJoin_snoc_ne : ∀ (ns : List String) (n : String), ns ≠ [] →
    slashJoin (ns ++ [n]) = slashJoin ns ++ "/" ++ n
  | [], _, h => absurd rfl h
  | [a], n, _ => by simp [slashJoin]
  | a :: b :: rest, n, _ => by
    have ih := slashJoin_snoc_ne (b :: rest) n (by simp)
    simp only [List.cons_append] at ih ⊢
    simp only [slashJoin] at ih ⊢
    rw [ih]
    simp only [String.append_assoc]

theorem slashJoin_ne_empty : ∀ (ns : List String), ns ≠ [] → (∀ n ∈ ns, n ≠ "") → slashJoin ns ≠ ""
  | [], h, _ => absurd rfl h
  | [a], _, h => by simpa [slashJoin] using h a (by simp)
  | a :: b :: rest, _, h => by
    simp only [slashJoin]
    intro e
    have := congrArg String.length e
    simp [String.length_append] at this

/-- the name the model gives an instance under its parent name is the slash-joined path -/
theorem joinName_slashJoin (ns : List String) (n : String) (h : ∀ m ∈ ns, m ≠ "") :
    joinName (slashJoin ns) n = slashJoin (ns ++ [n]) := by
  by_cases hns : ns = []
  · subst hns; simp [joinName, slashJoin]
  · rw [slashJoin_snoc_ne ns n hns]
    simp [joinName, slashJoin_ne_empty ns hns h]

/-! ### `liftInst` -/

theorem liftInst_fields (pn : String) (ctr : Nat) (c : Inst) :
    (liftInst pn ctr c).1.id = c.id ∧ (liftInst pn ctr c).1.ref = c.ref ∧ (liftInst pn ctr c).1.data = c.data ∧
    (liftInst pn ctr c).1.name = some (joinName pn (instName c)) := by
  unfold liftInst
  cases c.eid <;> simp [instName]

end Spydr.Xform
