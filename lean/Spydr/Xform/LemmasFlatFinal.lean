/-
  Whole-run lemmas for flatten: the loop keeps `FInvA ∧ FInvB`; the initial state satisfies them;
  the final removal of the dissolved shells changes no edge; connectivity and well-formedness of the
  result.
-/
import Spydr.Xform.LemmasFlatB5

set_option linter.unusedSimpArgs false
set_option linter.unusedVariables false

namespace Spydr.Xform

theorem fLoop_invAB {d0 : Design} (hyp : Hyp d0) (hnamed : Named d0) (fuel : Nat) : ∀ (s : FState) (moved : List Inst),
    FInvA d0 s moved → FInvB d0 s moved →
    ∃ moved', FInvA d0 (fLoop fuel s) moved' ∧ FInvB d0 (fLoop fuel s) moved' := by
  induction fuel with
  | zero => intro s moved a b; exact ⟨moved, a, b⟩
  | succ f ih =>
    intro s moved a b
    obtain ⟨d, queue, tr⟩ := s
    cases queue with
    | nil => exact ⟨moved, a, b⟩
    | cons e rest =>
      obtain ⟨q, iid, pn⟩ := e
      obtain ⟨moved', a', b'⟩ := FInvB.step hyp hnamed a b
      exact ih _ moved' a' b'

theorem FInvB.init {d0 : Design} (hyp : Hyp d0) : FInvB d0 (fInit d0) [] where
  idsNodup := hyp.ids.2.2.1 _ (by simpa using hyp.wf.1)
  idsOrig := fun c hc => ⟨d0.top, hyp.wf.1, Or.inl rfl, c, hc, rfl⟩
  pinsOk := hyp.pinsOk hyp.wf.1
  pins := by
    intro l p hp
    have hok := hyp.pinOk hyp.wf.1 hp
    cases p with
    | port pi b => exact hok
    | inner i pi b => exact hok.elim
    | inst i pi b =>
      obtain ⟨c, hc, hid, P, hP, hb⟩ := hok
      exact ⟨d0.top, c, hyp.wf.1, Or.inl rfl, hc, hid, by simp [fInit], P, hP, hb⟩
  conn := by
    intro a b _ _
    refine conn_congr (fun a b => uadj_iff_sadj hyp.wf.1 (hyp.ids.2.2.1 _ (by simpa using hyp.wf.1)) ?_ a b) a b
    intro l p hp i pi b e
    subst e
    exact hyp.pinOk hyp.wf.1 hp

section final
variable {d0 : Design} {s : FState} {moved : List Inst}

theorem fFinal_defs (s : FState) (x : Nat) :
    (fFinal s).defs x = if x = s.d.top then
      { s.d.defs s.d.top with children := (s.d.defs s.d.top).children.filter (fun c => !(s.toRemove.contains c.id)) }
    else s.d.defs x := rfl

theorem fFinal_cables (s : FState) (x : Nat) : ((fFinal s).defs x).cables = (s.d.defs x).cables := by
  rw [fFinal_defs]; split
  · rename_i h; rw [h]
  · rfl

theorem fFinal_attrs (s : FState) (x : Nat) : ((fFinal s).defs x).ports = (s.d.defs x).ports ∧
    ((fFinal s).defs x).lib = (s.d.defs x).lib := by
  rw [fFinal_defs]; split
  · rename_i h; rw [h]; exact ⟨rfl, rfl⟩
  · exact ⟨rfl, rfl⟩

theorem fFinal_frame (s : FState) : (fFinal s).ndefs = s.d.ndefs ∧ (fFinal s).top = s.d.top ∧
    (fFinal s).order = s.d.order := ⟨rfl, rfl, rfl⟩

theorem fFinal_children_sub (s : FState) (x : Nat) {j : Inst} (h : j ∈ ((fFinal s).defs x).children) :
    j ∈ (s.d.defs x).children := by
  rw [fFinal_defs] at h
  split at h
  · rename_i hx; rw [hx]; exact (List.mem_filter.mp h).1
  · exact h

theorem fFinal_children_keep (s : FState) (x : Nat) {j : Inst} (h : j ∈ (s.d.defs x).children)
    (hn : j.id ∉ s.toRemove) : j ∈ ((fFinal s).defs x).children := by
  rw [fFinal_defs]
  split
  · rename_i hx; rw [hx] at h
    exact List.mem_filter.mpr ⟨h, by simpa using hn⟩
  · exact h

/-- a removed shell references a dissolved definition -/
theorem FInvA.removed_dissolved (hyp : Hyp d0) (inv : FInvA d0 s moved) {j : Inst} (hj : InstIn s.d j)
    (hr : j.id ∈ s.toRemove) : Dissolved d0 moved j.ref ∧ j.ref < d0.ndefs ∧ j.ref ≠ d0.top := by
  rw [inv.toRemove] at hr
  obtain ⟨m, hm, hmid⟩ := List.mem_map.mp hr
  obtain ⟨hmm, hml⟩ := List.mem_filter.mp hm
  have hjm : j ∈ moved := inv.inst_moved hj (List.mem_map.mpr ⟨m, hmm, hmid⟩)
  have : m = j := nodup_map_inj inv.movedNodup hmm hjm hmid
  subst this
  obtain ⟨q, c0, hq, hc0, _, hmr⟩ := inv.moved_reach hmm
  refine ⟨⟨m, hmm, rfl, by simpa using hml⟩, ?_, ?_⟩
  · rw [hmr]; exact (hyp.wf.2.1 q (by simpa using reach_lt hyp.wf hq)).1 c0 hc0
  · rw [hmr]; exact reach_child_ne_top hyp.acyc hyp.wf hq hc0

theorem sadj_final (hyp : Hyp d0) (inv : FInvA d0 s moved) (a b : UNode) : SAdj (fFinal s) a b ↔ SAdj s.d a b := by
  have hcab : ∀ x, ((fFinal s).defs x).cables = (s.d.defs x).cables := fFinal_cables s
  refine wadj_congr (fun l p => by show p ∈ pinsAt ((fFinal s).defs s.d.top).cables l ↔ _; rw [hcab]) ?_ a b
  intro a b
  constructor
  · intro h
    cases h with
    | outer hx hxt hc hw hp => exact RestAdj.outer hx hxt (by rw [← hcab]; exact hc) hw hp
    | inner hx hxt hc hw hp hj hr =>
      obtain ⟨z, hz, hjz⟩ := hj
      exact RestAdj.inner hx hxt (by rw [← hcab]; exact hc) hw hp ⟨z, hz, fFinal_children_sub s z hjz⟩ hr
  · intro h
    cases h with
    | outer hx hxt hc hw hp => exact RestAdj.outer hx hxt (by rw [hcab]; exact hc) hw hp
    | @inner x c k w j pi bit hx hxt hc hw hp hj hr =>
      by_cases hrem : j.id ∈ s.toRemove
      · exfalso
        obtain ⟨hd, hlt, hnt⟩ := inv.removed_dissolved hyp hj hrem
        rw [hr] at hd hlt hnt
        rw [inv.cablesGone x hlt hnt hd] at hc
        simp at hc
      · obtain ⟨z, hz, hjz⟩ := hj
        exact RestAdj.inner hx hxt (by rw [hcab]; exact hc) hw hp ⟨z, hz, fFinal_children_keep s z hjz hrem⟩ hr

theorem conn_final (hyp : Hyp d0) (invA : FInvA d0 s moved) (invB : FInvB d0 s moved) {a b : UNode}
    (ha : UEndpoint d0 a) (hb : UEndpoint d0 b) : ConnU d0 a b ↔ ConnU (fFinal s) a b := by
  have htop : s.d.top = d0.top := invA.top
  have hcab : ((fFinal s).defs (fFinal s).top).cables = (s.d.defs d0.top).cables := by
    show ((fFinal s).defs s.d.top).cables = _
    rw [fFinal_cables, htop]
  have h1 := invB.conn a b ha hb
  have h2 := (conn_congr (sadj_final hyp invA) a b).symm
  have h3 : Conn (UAdj (fFinal s)) a b ↔ Conn (SAdj (fFinal s)) a b := by
    refine conn_congr (fun a b => uadj_iff_sadj ?_ ?_ ?_ a b) a b
    · show s.d.top < s.d.ndefs
      rw [htop, invA.ndefs]; exact hyp.wf.1
    · rw [hcab]; exact invB.idsNodup
    · intro l p hp i pi bb e
      rw [hcab] at hp
      subst e
      exact invB.pins l _ hp
  exact h1.trans (h2.trans h3.symm)

/-! ### from pin uniqueness back to `Nodup (allPins …)` -/

theorem nodup_flatten_of_getD {α : Type} : ∀ (L : List (List α)), (∀ k, (L.getD k []).Nodup) →
    (∀ i j p, p ∈ L.getD i [] → p ∈ L.getD j [] → i = j) → L.flatten.Nodup
  | [], _, _ => by simp
  | a :: L, h1, h2 => by
    simp only [List.flatten_cons]
    refine List.nodup_append.mpr ⟨by simpa [List.getD] using h1 0, ?_, ?_⟩
    · refine nodup_flatten_of_getD L (fun k => by simpa [List.getD] using h1 (k + 1)) ?_
      intro i j p hi hj
      have := h2 (i + 1) (j + 1) p (by simpa [List.getD] using hi) (by simpa [List.getD] using hj)
      omega
    · intro x hx y hy hxy
      subst hxy
      obtain ⟨w, hw, hxw⟩ := List.mem_flatten.mp hy
      obtain ⟨k, hk⟩ := List.getElem?_of_mem hw
      have := h2 0 (k + 1) x (by simpa [List.getD] using hx) (by simpa [List.getD, hk] using hxw)
      omega

theorem pinsAt_cons_self (c : Cable) (cs : List Cable) (k : Nat) : pinsAt (c :: cs) (c.id, k) = c.wires.getD k [] := by
  simp [pinsAt]

theorem pinsAt_cons_ne (c : Cable) (cs : List Cable) (l : Label) (h : c.id ≠ l.1) : pinsAt (c :: cs) l = pinsAt cs l := by
  have hb : (c.id == l.1) = false := by simp [h]
  simp only [pinsAt, List.find?_cons, hb]

theorem nodup_allPins_of_pinsOk : ∀ (cs : List Cable), (cs.map (·.id)).Nodup → PinsOk (pinsAt cs) → (allPins cs).Nodup
  | [], _, _ => by simp [allPins]
  | c :: cs, hnd, ok => by
    simp only [List.map_cons, List.nodup_cons] at hnd
    have hne : ∀ c' ∈ cs, c.id ≠ c'.id := fun c' hc' e => hnd.1 (List.mem_map.mpr ⟨c', hc', e.symm⟩)
    have hrest : ∀ l, l.1 ∈ cs.map (·.id) → pinsAt (c :: cs) l = pinsAt cs l := by
      intro l hl
      apply pinsAt_cons_ne
      intro e
      exact hnd.1 (e ▸ hl)
    have okcs : PinsOk (pinsAt cs) := by
      refine ⟨?_, ?_⟩
      · intro l
        by_cases hl : l.1 ∈ cs.map (·.id)
        · rw [← hrest l hl]; exact ok.nodup l
        · have : pinsAt cs l = [] := by
            simp only [pinsAt]
            cases hf : cs.find? (fun c => c.id == l.1) with
            | none => rfl
            | some c' =>
              exact absurd (List.mem_map.mpr ⟨c', List.mem_of_find?_eq_some hf, by simpa using List.find?_some hf⟩) hl
          rw [this]; exact List.nodup_nil
      · intro p l1 l2 h1 h2
        obtain ⟨c1, hc1, hid1, _⟩ := mem_pinsAt h1
        obtain ⟨c2, hc2, hid2, _⟩ := mem_pinsAt h2
        have e1 := hrest l1 (List.mem_map.mpr ⟨c1, hc1, hid1⟩)
        have e2 := hrest l2 (List.mem_map.mpr ⟨c2, hc2, hid2⟩)
        exact ok.uniq p l1 l2 (by rw [e1]; exact h1) (by rw [e2]; exact h2)
    rw [allPins_cons]
    refine List.nodup_append.mpr ⟨?_, nodup_allPins_of_pinsOk cs hnd.2 okcs, ?_⟩
    · refine nodup_flatten_of_getD _ (fun k => by rw [← pinsAt_cons_self c cs k]; exact ok.nodup _) ?_
      intro i j p hi hj
      rw [← pinsAt_cons_self c cs] at hi hj
      have := ok.uniq p _ _ hi hj
      simpa using this
    · intro x hx y hy hxy
      subst hxy
      obtain ⟨w, hw, hxw⟩ := List.mem_flatten.mp hx
      obtain ⟨k, hk⟩ := List.getElem?_of_mem hw
      obtain ⟨l, hl⟩ := mem_pinsAt_of_allPins hnd.2 hy
      obtain ⟨c', hc', hid', _⟩ := mem_pinsAt hl
      have h1 : x ∈ pinsAt (c :: cs) (c.id, k) := by
        rw [pinsAt_cons_self]; simpa [List.getD, hk] using hxw
      have h2 : x ∈ pinsAt (c :: cs) l := by
        rw [hrest l (List.mem_map.mpr ⟨c', hc', hid'⟩)]; exact hl
      have := ok.uniq x _ _ h1 h2
      exact hne c' hc' (by rw [hid', ← this])

end final

end Spydr.Xform
