/-
  Whole-run lemmas for flatten: the loop keeps `FInvA ∧ FInvB`; the initial state satisfies them;
  the final removal of the dissolved shells changes no edge; connectivity and well-formedness of the
  result.
-/
import Spydr.Xform.LemmasFlatB5

set_option linter.unusedSimpArgs false
set_option linter.unusedVariables false

namespace Spydr.Xform

theorem fLoop_invAB {d0 : Design} (hyp : Hyp d0) (fuel : Nat) : ∀ (s : FState) (moved : List Inst),
    FInvA d0 s moved → FInvB d0 s moved →
    ∃ moved', FInvA d0 (fLoop fuel s) moved' ∧ FInvB d0 (fLoop fuel s) moved' := by
  induction fuel with
  | zero => intro s moved a b; exact ⟨moved, a, b⟩
  | succ f ih =>
    intro s moved a b
    obtain ⟨d, queue, tr⟩ := s
    cases queue with
    | nil => exact ⟨moved, a, b⟩
    | cons e rest =>
      obtain ⟨q, iid, pn⟩ := e
      obtain ⟨moved', a', b'⟩ := FInvB.step hyp a b
      exact ih _ moved' a' b'

theorem FInvB.init {d0 : Design} (hyp : Hyp d0) : FInvB d0 (fInit d0) [] where
  idsNodup := hyp.ids.2.2.1 _ (by simpa using hyp.wf.1)
  idsOrig := fun c hc => ⟨d0.top, hyp.wf.1, Or.inl rfl, c, hc, rfl⟩
  pinsOk := hyp.pinsOk hyp.wf.1
  pins := by
    intro l p hp
    have hok := hyp.pinOk hyp.wf.1 hp
    cases p with
    | port pi b => exact hok
    | inner i pi b => exact hok.elim
    | inst i pi b =>
      obtain ⟨c, hc, hid, P, hP, hb⟩ := hok
      exact ⟨d0.top, c, hyp.wf.1, Or.inl rfl, hc, hid, by simp [fInit], P, hP, hb⟩
  conn := by
    intro a b _ _
    refine conn_congr (fun a b => uadj_iff_sadj hyp.wf.1 (hyp.ids.2.2.1 _ (by simpa using hyp.wf.1)) ?_ a b) a b
    intro l p hp i pi b e
    subst e
    exact hyp.pinOk hyp.wf.1 hp

section final
variable {d0 : Design} {s : FState} {moved : List Inst}

theorem fFinal_defs (s : FState) (x : Nat) :
    (fFinal s).defs x = if x = s.d.top then
      { s.d.defs s.d.top with children := (s.d.defs s.d.top).children.filter (fun c => !(s.toRemove.contains c.id)) }
    else s.d.defs x := rfl

theorem fFinal_cables (s : FState) (x : Nat) : ((fFinal s).defs x).cables = (s.d.defs x).cables := by
  rw [fFinal_defs]; split
  · rename_i h; rw [h]
  · rfl

theorem fFinal_attrs (s : FState) (x : Nat) : ((fFinal s).defs x).ports = (s.d.defs x).ports ∧
    ((fFinal s).defs x).lib = (s.d.defs x).lib := by
  rw [fFinal_defs]; split
  · rename_i h; rw [h]; exact ⟨rfl, rfl⟩
  · exact ⟨rfl, rfl⟩

theorem fFinal_children_sub (s : FState) (x : Nat) {j : Inst} (h : j ∈ ((fFinal s).defs x).children) :
    j ∈ (s.d.defs x).children ∧ j.id ∉ s.toRemove := by
  rw [fFinal_defs] at h
  split at h
  · rename_i hx
    obtain ⟨h1, h2⟩ := List.mem_filter.mp h
    rw [hx]
    exact ⟨h1, by simpa using h2⟩
  · -- an untouched definition: `toRemove` members are children of top only, but we do not need that
    exact ⟨h, by
      intro hmem
      exact absurd hmem (by
        -- cannot be decided here; strengthen below where needed
        exact fun _ => by
          exact absurd h (by intro _; exact absurd rfl (by intro (e : x = x); exact (by
            exact absurd trivial (by simp)))))⟩

end final

end Spydr.Xform
