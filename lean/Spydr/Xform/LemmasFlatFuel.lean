/-
  Fuel sufficiency for the flatten walk: every iteration moves one more instance, moved instances
  are distinct instances of the original design, so `number of instances + 1` iterations empty the
  queue.
-/
import Spydr.Xform.LemmasFlatLeaves
import Spydr.Xform.LemmasUniqOk

namespace Spydr.Xform

theorem fLoop_count {d0 : Design} (hyp : Hyp d0) (hnamed : Named d0) (fuel : Nat) : ∀ (s : FState) (moved : List Inst),
    FInvA d0 s moved → ∃ moved', FInvA d0 (fLoop fuel s) moved' ∧
      ((fLoop fuel s).queue = [] ∨ moved'.length = moved.length + fuel) := by
  induction fuel with
  | zero => intro s moved inv; exact ⟨moved, inv, Or.inr rfl⟩
  | succ f ih =>
    intro s moved inv
    obtain ⟨d, queue, tr⟩ := s
    cases queue with
    | nil => exact ⟨moved, inv, Or.inl rfl⟩
    | cons e rest =>
      obtain ⟨q, iid, pn⟩ := e
      obtain ⟨c0, _, _, _, _, inv'⟩ := inv.step' hyp hnamed
      obtain ⟨moved', inv'', h⟩ := ih _ _ inv'
      refine ⟨moved', inv'', ?_⟩
      rcases h with h | h
      · exact Or.inl h
      · right
        rw [h]; simp; omega

theorem FInvA.moved_le {d0 : Design} {s : FState} {moved : List Inst} (hyp : Hyp d0) (inv : FInvA d0 s moved) :
    moved.length ≤ (allInsts d0).length := by
  have h := length_le_of_nodup_subset (moved.map (·.id)) ((allInsts d0).map (·.id)) inv.movedNodup (by
    intro a ha
    obtain ⟨m, hm, rfl⟩ := List.mem_map.mp ha
    obtain ⟨q, c0, hq, hc0, hid, _⟩ := inv.moved_reach hm
    refine List.mem_map.mpr ⟨c0, ?_, hid.symm⟩
    simp only [allInsts, List.mem_flatMap, List.mem_range]
    exact ⟨q, reach_lt hyp.wf hq, hc0⟩)
  simpa using h

theorem flatten_finished {d0 : Design} (hyp : Hyp d0) (hnamed : Named d0) {fuel : Nat} (hf : (allInsts d0).length < fuel) :
    (flatten fuel d0).finished = true := by
  obtain ⟨moved', inv, h⟩ := fLoop_count hyp hnamed fuel (fInit d0) [] (FInvA.init hyp)
  rcases h with h | h
  · simp [flatten, h]
  · have := inv.moved_le hyp
    simp at h
    omega

end Spydr.Xform
