/-
  From cable lists to the abstract wire function of LemmasContract: `pinsAt`, its behaviour under
  `mapWires` / append, pin uniqueness from `Nodup (allPins …)`, and the specification of `findWire`.
  Then the graph of a flatten state (`SAdj`) and its agreement with `UAdj`.
-/
import Spydr.Xform.LemmasContract
import Spydr.Xform.LemmasFlatBasic

set_option linter.unusedSimpArgs false

namespace Spydr.Xform

/-- the pins of the wire with label (cable identifier, position) among the cables `cs` -/
def pinsAt (cs : List Cable) (l : Label) : List Pin :=
  match cs.find? (fun c => c.id == l.1) with
  | none => []
  | some c => c.wires.getD l.2 []

theorem find?_cable_of_mem {c : Cable} : ∀ (l : List Cable), (l.map (·.id)).Nodup → c ∈ l →
    l.find? (fun x => x.id == c.id) = some c
  | [], _, hc => by simp at hc
  | a :: l, hnd, hc => by
    simp only [List.find?_cons]
    have hnd2 := List.nodup_cons.mp (by simpa using hnd : (a.id :: l.map (·.id)).Nodup)
    rcases List.mem_cons.mp hc with rfl | hc'
    · simp
    · have : a.id ≠ c.id := fun e => hnd2.1 (e ▸ List.mem_map_of_mem hc')
      have hb : (a.id == c.id) = false := by simp [this]
      rw [hb]
      exact find?_cable_of_mem l hnd2.2 hc'

theorem pinsAt_of_mem {cs : List Cable} (hnd : (cs.map (·.id)).Nodup) {c : Cable} (hc : c ∈ cs) (k : Nat) :
    pinsAt cs (c.id, k) = c.wires.getD k [] := by
  simp only [pinsAt, find?_cable_of_mem cs hnd hc]

theorem mem_pinsAt {cs : List Cable} {l : Label} {p : Pin} (h : p ∈ pinsAt cs l) :
    ∃ c ∈ cs, c.id = l.1 ∧ ∃ w, c.wires[l.2]? = some w ∧ p ∈ w := by
  simp only [pinsAt] at h
  cases hf : cs.find? (fun c => c.id == l.1) with
  | none => simp [hf] at h
  | some c =>
    simp only [hf] at h
    refine ⟨c, List.mem_of_find?_eq_some hf, by simpa using List.find?_some hf, ?_⟩
    cases hw : c.wires[l.2]? with
    | none => simp [List.getD, hw] at h
    | some w => exact ⟨w, rfl, by simpa [List.getD, hw] using h⟩

theorem mapWires_ids (f : List Pin → List Pin) (cs : List Cable) : (mapWires f cs).map (·.id) = cs.map (·.id) := by
  simp [mapWires, List.map_map, Function.comp]

theorem pinsAt_mapWires (f : List Pin → List Pin) (hf : f [] = []) (cs : List Cable) (l : Label) :
    pinsAt (mapWires f cs) l = f (pinsAt cs l) := by
  simp only [pinsAt, mapWires]
  induction cs with
  | nil => simp [hf]
  | cons a cs ih =>
    simp only [List.map_cons, List.find?_cons]
    cases h : a.id == l.1 with
    | true =>
      simp only [List.getD, List.getElem?_map]
      cases a.wires[l.2]? <;> simp [hf]
    | false => exact ih

theorem pinsAt_append (cs cs' : List Cable) (l : Label) :
    pinsAt (cs ++ cs') l = if l.1 ∈ cs.map (·.id) then pinsAt cs l else pinsAt cs' l := by
  simp only [pinsAt, List.find?_append]
  cases hf : cs.find? (fun c => c.id == l.1) with
  | some c =>
    have : l.1 ∈ cs.map (·.id) :=
      List.mem_map.mpr ⟨c, List.mem_of_find?_eq_some hf, by simpa using List.find?_some hf⟩
    simp [this]
  | none =>
    have : l.1 ∉ cs.map (·.id) := by
      intro h
      obtain ⟨c, hc, hid⟩ := List.mem_map.mp h
      have := List.find?_eq_none.mp hf c hc
      simp [hid] at this
    simp [this]

/-! ### pin uniqueness from `Nodup` of the flattened pin list -/

theorem flatten_getD_index {α : Type} : ∀ (L : List (List α)), L.flatten.Nodup → ∀ (i j : Nat) (p : α),
    p ∈ L.getD i [] → p ∈ L.getD j [] → i = j
  | [], _, i, j, p, h, _ => by simp [List.getD] at h
  | a :: L, hnd, i, j, p, hi, hj => by
    simp only [List.flatten_cons, List.nodup_append] at hnd
    obtain ⟨_, h2, h3⟩ := hnd
    have hsub : ∀ k, p ∈ L.getD k [] → p ∈ L.flatten := by
      intro k hk
      cases hw : L[k]? with
      | none => simp [List.getD, hw] at hk
      | some w =>
        simp only [List.getD, hw, Option.getD_some] at hk
        exact List.mem_flatten.mpr ⟨w, List.mem_of_getElem? hw, hk⟩
    cases i with
    | zero =>
      cases j with
      | zero => rfl
      | succ j =>
        simp only [List.getD, List.getElem?_cons_zero, Option.getD_some, List.getElem?_cons_succ] at hi hj
        exact absurd rfl (h3 p hi p (hsub j hj))
    | succ i =>
      cases j with
      | zero =>
        simp only [List.getD, List.getElem?_cons_zero, Option.getD_some, List.getElem?_cons_succ] at hi hj
        exact absurd rfl (h3 p hj p (hsub i hi))
      | succ j =>
        simp only [List.getD, List.getElem?_cons_succ] at hi hj
        rw [flatten_getD_index L h2 i j p hi hj]

theorem getD_nodup_of_flatten {α : Type} (L : List (List α)) (h : L.flatten.Nodup) (i : Nat) : (L.getD i []).Nodup := by
  cases hw : L[i]? with
  | none => simp [List.getD, hw]
  | some w =>
    simp only [List.getD, hw, Option.getD_some]
    exact List.Nodup.sublist (List.sublist_flatten_of_mem (List.mem_of_getElem? hw)) h

theorem allPins_cons (c : Cable) (cs : List Cable) : allPins (c :: cs) = c.wires.flatten ++ allPins cs := by
  simp [allPins]

theorem mem_allPins_of_pinsAt {cs : List Cable} {l : Label} {p : Pin} (h : p ∈ pinsAt cs l) : p ∈ allPins cs := by
  obtain ⟨c, hc, _, w, hw, hp⟩ := mem_pinsAt h
  simp only [allPins, List.mem_flatten, List.mem_flatMap]
  exact ⟨w, ⟨c, hc, List.mem_of_getElem? hw⟩, hp⟩

theorem mem_pinsAt_of_allPins {cs : List Cable} (hnd : (cs.map (·.id)).Nodup) {p : Pin} (h : p ∈ allPins cs) :
    ∃ l, p ∈ pinsAt cs l := by
  simp only [allPins, List.mem_flatten, List.mem_flatMap] at h
  obtain ⟨w, ⟨c, hc, hw⟩, hp⟩ := h
  obtain ⟨k, hk⟩ := List.getElem?_of_mem hw
  exact ⟨(c.id, k), by rw [pinsAt_of_mem hnd hc]; simpa [List.getD, hk] using hp⟩

theorem pinsOk_of_nodup : ∀ (cs : List Cable), (allPins cs).Nodup → PinsOk (pinsAt cs)
  | [], _ => ⟨fun l => by simp [pinsAt], fun p l1 l2 h => by simp [pinsAt] at h⟩
  | c :: cs, hnd => by
    rw [allPins_cons, List.nodup_append] at hnd
    obtain ⟨h1, h2, h3⟩ := hnd
    have ih := pinsOk_of_nodup cs h2
    have hcons : ∀ l, pinsAt (c :: cs) l = if c.id = l.1 then c.wires.getD l.2 [] else pinsAt cs l := by
      intro l
      simp only [pinsAt, List.find?_cons]
      by_cases h : c.id = l.1
      · simp [h]
      · have hb : (c.id == l.1) = false := by simp [h]
        simp only [hb, h, if_false]
    have hinc : ∀ k p, p ∈ c.wires.getD k [] → p ∈ c.wires.flatten := by
      intro k p hk
      cases hw : c.wires[k]? with
      | none => simp [List.getD, hw] at hk
      | some w =>
        simp only [List.getD, hw, Option.getD_some] at hk
        exact List.mem_flatten.mpr ⟨w, List.mem_of_getElem? hw, hk⟩
    refine ⟨?_, ?_⟩
    · intro l
      rw [hcons]
      split
      · exact getD_nodup_of_flatten _ h1 _
      · exact ih.nodup l
    · intro p l1 l2 hp1 hp2
      rw [hcons] at hp1 hp2
      by_cases e1 : c.id = l1.1 <;> by_cases e2 : c.id = l2.1
      · rw [if_pos e1] at hp1; rw [if_pos e2] at hp2
        have := flatten_getD_index _ h1 _ _ p hp1 hp2
        exact Prod.ext (e1.symm.trans e2) this
      · rw [if_pos e1] at hp1; rw [if_neg e2] at hp2
        exact absurd rfl (h3 p (hinc _ _ hp1) p (mem_allPins_of_pinsAt hp2))
      · rw [if_neg e1] at hp1; rw [if_pos e2] at hp2
        exact absurd rfl (h3 p (hinc _ _ hp2) p (mem_allPins_of_pinsAt hp1))
      · rw [if_neg e1] at hp1; rw [if_neg e2] at hp2
        exact ih.uniq p l1 l2 hp1 hp2

/-! ### `findWire` meets the abstract lookup specifications -/

theorem findWire_inSpec {cs : List Cable} (hnd : (cs.map (·.id)).Nodup) (p : Pin) :
    InSpec (pinsAt cs) p (findWire p cs) := by
  simp only [InSpec, findWire]
  cases hf : (cs.flatMap (·.wires)).find? (fun w => w.contains p) with
  | none =>
    left
    refine ⟨rfl, ?_⟩
    intro l hl
    obtain ⟨c, hc, _, w, hw, hp⟩ := mem_pinsAt hl
    have := List.find?_eq_none.mp hf w (List.mem_flatMap.mpr ⟨c, hc, List.mem_of_getElem? hw⟩)
    simp [hp] at this
  | some w =>
    right
    have hwm := List.mem_of_find?_eq_some hf
    have hp : p ∈ w := by simpa using List.find?_some hf
    obtain ⟨c, hc, hwc⟩ := List.mem_flatMap.mp hwm
    obtain ⟨k, hk⟩ := List.getElem?_of_mem hwc
    refine ⟨(c.id, k), ?_, ?_⟩
    · rw [pinsAt_of_mem hnd hc]; simpa [List.getD, hk] using hp
    · rw [pinsAt_of_mem hnd hc]; simp [List.getD, hk]

theorem findWire_outSpec {cs : List Cable} (hnd : (cs.map (·.id)).Nodup) (p : Pin) :
    OutSpec (pinsAt cs) p (findWire p cs).isSome := by
  rcases findWire_inSpec hnd p with ⟨h1, h2⟩ | ⟨l, h1, h2⟩
  · left; rw [h1]; exact ⟨rfl, h2⟩
  · right; rw [h2]; exact ⟨rfl, l, h1⟩

theorem pinsAt_redoPin (iid : Nat) (cs : List Cable) (pb : Nat × Nat) :
    pinsAt (redoPin iid cs pb) =
      redoOf (pinsAt cs) (.inner iid pb.1 pb.2) (.inst iid pb.1 pb.2)
        (findWire (.inner iid pb.1 pb.2) cs) (findWire (.inst iid pb.1 pb.2) cs).isSome := by
  funext l
  simp only [redoPin, redoOf]
  exact pinsAt_mapWires _ (by simp [redoWire]) cs l

theorem redoPin_ids (iid : Nat) (cs : List Cable) (pb : Nat × Nat) :
    (redoPin iid cs pb).map (·.id) = cs.map (·.id) := mapWires_ids _ _

end Spydr.Xform
