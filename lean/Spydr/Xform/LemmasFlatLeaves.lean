/-
  From the structural invariant to the C09 instance theorem (`LeavesOf`):
  loop induction, initial state, uniqueness of paths, the final state.
-/
import Spydr.Xform.LemmasFlatA2

namespace Spydr.Xform

theorem snoc_cases {α : Type} (l : List α) : l = [] ∨ ∃ l' b, l = l' ++ [b] := by
  rcases List.eq_nil_or_concat l with h | ⟨l', b, h⟩
  · exact Or.inl h
  · exact Or.inr ⟨l', b, by rw [h, List.concat_eq_append]⟩

/-! ### the loop -/

theorem fLoop_invA {d0 : Design} (hyp : Hyp d0) (hnamed : Named d0) (fuel : Nat) : ∀ (s : FState) (moved : List Inst),
    FInvA d0 s moved → ∃ moved', FInvA d0 (fLoop fuel s) moved' := by
  induction fuel with
  | zero => intro s moved inv; exact ⟨moved, inv⟩
  | succ f ih =>
    intro s moved inv
    obtain ⟨d, queue, tr⟩ := s
    cases queue with
    | nil => exact ⟨moved, inv⟩
    | cons e rest =>
      obtain ⟨q, iid, pn⟩ := e
      obtain ⟨moved', inv'⟩ := inv.step hyp hnamed
      exact ih _ moved' inv'

theorem FInvA.init {d0 : Design} (hyp : Hyp d0) : FInvA d0 (fInit d0) [] where
  ndefs := rfl
  top := rfl
  order := rfl
  extra := rfl
  attrs := fun _ _ => ⟨rfl, rfl, rfl, rfl, rfl⟩
  kids := by
    intro x _
    have : (d0.defs x).children.filter (fun c => !(([] : List Inst).map (·.id)).contains c.id) = (d0.defs x).children := by
      rw [List.filter_eq_self]; intro c _; simp
    show (d0.defs x).children = unmoved d0 (([] : List Inst).map (·.id)) x ++ _
    simp only [unmoved, this]
    split <;> simp
  cablesKeep := fun _ _ _ _ => rfl
  cablesGone := by
    intro x _ _ hd
    obtain ⟨m, hm, _⟩ := hd
    simp at hm
  toRemove := rfl
  movedNodup := by simp
  movedOrig := by intro m hm; simp at hm
  queue := by
    intro e he
    simp only [fInit, List.mem_map] at he
    obtain ⟨k, hk, rfl⟩ := he
    exact ⟨[], [], k, rfl, Or.inl rfl, hk, rfl, by simp, rfl⟩
  queueNodup := by
    simp only [fInit, List.map_map]
    exact hyp.ids_nodup hyp.wf.1
  complete := by
    intro x _ hx c hc
    rcases hx with rfl | ⟨m, hm, _⟩
    · right
      simp only [fInit, List.map_map]
      exact List.mem_map.mpr ⟨c, hc, rfl⟩
    · simp at hm

/-! ### paths are determined by the instance they end in -/

theorem walk_nil_of_top {d0 : Design} (hyp : Hyp d0) {p : List Nat} {cs : List Inst}
    (h : walk d0 d0.top p = some (cs, d0.top)) : p = [] ∧ cs = [] := by
  rcases snoc_cases p with rfl | ⟨p1, i, rfl⟩
  · simp only [walk, Option.some.injEq, Prod.mk.injEq] at h; exact ⟨rfl, h.1.symm⟩
  · obtain ⟨cs1, y, c, h1, h2, h3⟩ := walk_snoc_inv p1 _ i _ h
    simp only [Prod.mk.injEq] at h3
    have hy := walk_reach p1 _ cs1 y Reach.top h1
    exact absurd h3.2.symm (reach_child_ne_top hyp.acyc hyp.wf hy (childById_id h2).2)

/-- two walks from top to the same non-leaf definition coincide -/
theorem walk_unique_to {d0 : Design} (hyp : Hyp d0) : ∀ (n : Nat) (p p' : List Nat) (cs cs' : List Inst) (x : Nat),
    p.length = n → walk d0 d0.top p = some (cs, x) → walk d0 d0.top p' = some (cs', x) →
    (d0.defs x).isLeaf = false → p = p' ∧ cs = cs' := by
  intro n
  induction n with
  | zero =>
    intro p p' cs cs' x hn h h' _
    have hp : p = [] := List.eq_nil_of_length_eq_zero hn
    subst hp
    simp only [walk, Option.some.injEq, Prod.mk.injEq] at h
    obtain ⟨rfl, rfl⟩ := h
    have := walk_nil_of_top hyp h'
    exact ⟨this.1.symm, this.2.symm⟩
  | succ n ih =>
    intro p p' cs cs' x hn h h' hl
    rcases snoc_cases p with rfl | ⟨p1, i, rfl⟩
    · simp at hn
    · obtain ⟨cs1, y, c, h1, h2, h3⟩ := walk_snoc_inv p1 _ i _ h
      simp only [Prod.mk.injEq] at h3
      obtain ⟨rfl, rfl⟩ := h3
      rcases snoc_cases p' with rfl | ⟨p1', i', rfl⟩
      · simp only [walk, Option.some.injEq, Prod.mk.injEq] at h'
        have hy := walk_reach p1 _ cs1 y Reach.top h1
        exact absurd h'.2.symm (reach_child_ne_top hyp.acyc hyp.wf hy (childById_id h2).2)
      · obtain ⟨cs1', y', c', h1', h2', h3'⟩ := walk_snoc_inv p1' _ i' _ h'
        simp only [Prod.mk.injEq] at h3'
        obtain ⟨rfl, hrr⟩ := h3'
        have hy := walk_reach p1 _ cs1 y Reach.top h1
        have hy' := walk_reach p1' _ cs1' y' Reach.top h1'
        have hcm := (childById_id h2).2
        have hcm' := (childById_id h2').2
        obtain ⟨rfl, rfl⟩ := unique_ref hyp.wf hyp.uniq hy hy' hcm hcm' hrr hl
        have hyl : (d0.defs y).isLeaf = false := by
          simp only [Defn.isLeaf]
          cases hch : (d0.defs y).children with
          | nil => rw [hch] at hcm; simp at hcm
          | cons a l => simp
        have hlen : p1.length = n := by simpa using hn
        obtain ⟨rfl, rfl⟩ := ih p1 p1' cs1 cs1' y hlen h1 h1' hyl
        have hi : i = i' := by rw [← (childById_id h2).1, ← (childById_id h2').1]
        subst hi
        exact ⟨rfl, rfl⟩

/-- a path is determined by the identifier of the instance it ends in -/
theorem path_unique {d0 : Design} (hyp : Hyp d0) {p p' : List Nat} {cs cs' : List Inst} {c c' : Inst} {y y' : Nat}
    (h : walk d0 d0.top p = some (cs ++ [c], y)) (h' : walk d0 d0.top p' = some (cs' ++ [c'], y'))
    (hid : c.id = c'.id) : cs = cs' ∧ c = c' := by
  rcases snoc_cases p with rfl | ⟨p1, i, rfl⟩
  · simp only [walk, Option.some.injEq, Prod.mk.injEq] at h
    have := h.1; simp at this
  rcases snoc_cases p' with rfl | ⟨p1', i', rfl⟩
  · simp only [walk, Option.some.injEq, Prod.mk.injEq] at h'
    have := h'.1; simp at this
  obtain ⟨cs1, x, c1, h1, h2, h3⟩ := walk_snoc_inv p1 _ i _ h
  obtain ⟨cs1', x', c1', h1', h2', h3'⟩ := walk_snoc_inv p1' _ i' _ h'
  simp only [Prod.mk.injEq] at h3 h3'
  obtain ⟨e1, _⟩ := h3
  obtain ⟨e1', _⟩ := h3'
  obtain ⟨rfl, hcc1⟩ := List.append_inj' e1 rfl
  obtain ⟨rfl, hcc1'⟩ := List.append_inj' e1' rfl
  have hcc1 : c = c1 := by simpa using hcc1
  have hcc1' : c' = c1' := by simpa using hcc1'
  subst hcc1; subst hcc1'
  have hx := reach_lt hyp.wf (walk_reach p1 _ _ x Reach.top h1)
  have hx' := reach_lt hyp.wf (walk_reach p1' _ _ x' Reach.top h1')
  have hcm := (childById_id h2).2
  have hcm' := (childById_id h2').2
  have hxx : x = x' := hyp.ids_disjoint hx hx' hcm hcm' (by simpa using hid)
  subst hxx
  have hcc : c = c' := by
    have := hyp.child_eq hx hcm hcm' (by simpa using hid)
    simpa using this
  have hxl : (d0.defs x).isLeaf = false := by
    simp only [Defn.isLeaf]
    cases hch : (d0.defs x).children with
    | nil => rw [hch] at hcm; simp at hcm
    | cons a l => simp
  exact ⟨(walk_unique_to hyp _ p1 p1' _ _ x rfl h1 h1' hxl).2, hcc⟩

theorem nodup_map_inj {α : Type} {f : α → Nat} : ∀ {l : List α}, (l.map f).Nodup → ∀ {a b : α}, a ∈ l → b ∈ l →
    f a = f b → a = b
  | [], _, a, _, ha, _, _ => by simp at ha
  | x :: l, hnd, a, b, ha, hb, hab => by
    simp only [List.map_cons, List.nodup_cons] at hnd
    rcases List.mem_cons.mp ha with rfl | ha' <;> rcases List.mem_cons.mp hb with rfl | hb'
    · rfl
    · exact absurd (List.mem_map.mpr ⟨b, hb', hab.symm⟩) hnd.1
    · exact absurd (List.mem_map.mpr ⟨a, ha', hab⟩) hnd.1
    · exact nodup_map_inj hnd.2 ha' hb' hab

/-! ### the final state -/

section final
variable {d0 : Design} {s : FState} {moved : List Inst}

/-- with an empty queue every instance on a path from top has been moved -/
theorem FInvA.path_moved (hyp : Hyp d0) (inv : FInvA d0 s moved) (hq : s.queue = []) :
    ∀ (n : Nat) (p : List Nat) (cs : List Inst) (y : Nat), p.length = n → walk d0 d0.top p = some (cs, y) →
      (∀ c ∈ cs, c.id ∈ moved.map (·.id)) ∧ (y = d0.top ∨ ∃ m ∈ moved, m.ref = y) := by
  intro n
  induction n with
  | zero =>
    intro p cs y hn h
    have hp : p = [] := List.eq_nil_of_length_eq_zero hn
    subst hp
    simp only [walk, Option.some.injEq, Prod.mk.injEq] at h
    obtain ⟨rfl, rfl⟩ := h
    exact ⟨by simp, Or.inl rfl⟩
  | succ n ih =>
    intro p cs y hn h
    rcases snoc_cases p with rfl | ⟨p1, i, rfl⟩
    · simp at hn
    · obtain ⟨cs1, x, c, h1, h2, h3⟩ := walk_snoc_inv p1 _ i _ h
      simp only [Prod.mk.injEq] at h3
      obtain ⟨rfl, rfl⟩ := h3
      have hlen : p1.length = n := by simpa using hn
      obtain ⟨ih1, ih2⟩ := ih p1 cs1 x hlen h1
      have hxR := walk_reach p1 _ cs1 x Reach.top h1
      have hx := reach_lt hyp.wf hxR
      have hcm := (childById_id h2).2
      have hxl : (d0.defs x).isLeaf = false := by
        simp only [Defn.isLeaf]
        cases hch : (d0.defs x).children with
        | nil => rw [hch] at hcm; simp at hcm
        | cons a l => simp
      have hxd : x = d0.top ∨ Dissolved d0 moved x := by
        rcases ih2 with h | ⟨m, hm, hmr⟩
        · exact Or.inl h
        · exact Or.inr ⟨m, hm, hmr, hxl⟩
      have hmv : c.id ∈ moved.map (·.id) := by
        rcases inv.complete x hx hxd c hcm with h | h
        · exact h
        · rw [hq] at h; simp at h
      refine ⟨?_, Or.inr ?_⟩
      · intro c' hc'
        rcases List.mem_append.mp hc' with h | h
        · exact ih1 c' h
        · simp only [List.mem_singleton] at h; subst h; exact hmv
      · obtain ⟨m, hm, hmid⟩ := List.mem_map.mp hmv
        refine ⟨m, hm, ?_⟩
        obtain ⟨p', cs', q', c0', hw', _, hc0', hid', hr', _⟩ := inv.movedOrig m hm
        have hq' := reach_lt hyp.wf (walk_reach p' _ cs' q' Reach.top hw')
        have hqq : q' = x := hyp.ids_disjoint hq' hx hc0' hcm (by rw [← hid', hmid])
        subst hqq
        have := hyp.child_eq hq' hc0' hcm (by rw [← hid', hmid])
        rw [hr', this]

theorem FInvA.final_children (hyp : Hyp d0) (inv : FInvA d0 s moved) (hq : s.queue = []) :
    ((fFinal s).defs d0.top).children = moved.filter (fun m => (d0.defs m.ref).isLeaf) := by
  have htop : s.d.top = d0.top := inv.top
  have hk := inv.kids d0.top hyp.wf.1
  have hun : unmoved d0 (moved.map (·.id)) d0.top = [] := by
    simp only [unmoved, List.filter_eq_nil_iff]
    intro c hc
    rcases inv.complete d0.top hyp.wf.1 (Or.inl rfl) c hc with h | h
    · simpa using h
    · rw [hq] at h; simp at h
  simp only [fFinal, Design.setDef, htop, if_true]
  rw [hk, hun]
  simp only [if_true, List.nil_append]
  apply List.filter_congr
  intro m hm
  rw [inv.toRemove]
  have key : m.id ∈ (moved.filter (fun m => !(d0.defs m.ref).isLeaf)).map (·.id) ↔ (d0.defs m.ref).isLeaf = false := by
    constructor
    · intro h
      obtain ⟨m', hm', hid⟩ := List.mem_map.mp h
      obtain ⟨hm'', hl'⟩ := List.mem_filter.mp hm'
      have := nodup_map_inj inv.movedNodup hm'' hm hid
      subst this; simpa using hl'
    · intro hl; exact List.mem_map.mpr ⟨m, List.mem_filter.mpr ⟨hm, by simp [hl]⟩, rfl⟩
  cases hl : (d0.defs m.ref).isLeaf with
  | true =>
    have : ((moved.filter (fun m => !(d0.defs m.ref).isLeaf)).map (·.id)).contains m.id = false := by
      rw [Bool.eq_false_iff]
      intro h
      have := key.mp (by simpa using h)
      rw [hl] at this; cases this
    rw [this]; rfl
  | false =>
    have : ((moved.filter (fun m => !(d0.defs m.ref).isLeaf)).map (·.id)).contains m.id = true := by
      simpa using key.mpr hl
    rw [this]; rfl

theorem FInvA.final_leaf_def (hyp : Hyp d0) (inv : FInvA d0 s moved) {x : Nat} (hx : x < d0.ndefs) (hxt : x ≠ d0.top)
    (hl : (d0.defs x).isLeaf = true) : ((fFinal s).defs x).isLeaf = true := by
  have htop : s.d.top = d0.top := inv.top
  have hnd : ¬ Dissolved d0 moved x := by
    rintro ⟨_, _, _, h⟩; rw [hl] at h; cases h
  have h1 := inv.kids x hx
  have h2 := inv.cablesKeep x hx hxt hnd
  have hd : (fFinal s).defs x = s.d.defs x := by
    simp only [fFinal, Design.setDef, htop, hxt, if_false]
  rw [hd]
  simp only [Defn.isLeaf, Bool.and_eq_true, List.isEmpty_iff] at hl ⊢
  refine ⟨?_, by rw [h2]; exact hl.2⟩
  rw [h1, inv.unmoved_untouched hyp hx hxt hnd]
  simp [hxt, hl.1]

theorem FInvA.leavesOf (hyp : Hyp d0) (inv : FInvA d0 s moved) (hq : s.queue = []) : LeavesOf d0 (fFinal s) := by
  have htop : (fFinal s).top = d0.top := inv.top
  have hch := inv.final_children hyp hq
  -- a moved instance with a leaf reference is a leaf occurrence of `d0`
  have hocc : ∀ m ∈ moved, ∃ cs c, (∃ p, walk d0 d0.top p = some (cs ++ [c], c.ref)) ∧ m.id = c.id ∧ m.ref = c.ref ∧
      m.data = c.data ∧ m.name = some (slashJoin ((cs ++ [c]).map instName)) ∧ c.ref < d0.ndefs ∧ c.ref ≠ d0.top := by
    intro m hm
    obtain ⟨p, cs, q, c0, hw, _, hc0, h1, h2, h3, h4⟩ := inv.movedOrig m hm
    have hqR := walk_reach p _ cs q Reach.top hw
    have hq' := reach_lt hyp.wf hqR
    refine ⟨cs, c0, ⟨p ++ [c0.id], walk_snoc p _ cs q c0.id c0 hw (childById_of_mem (hyp.ids_nodup hq') hc0)⟩,
      h1, h2, h3, h4, (hyp.wf.2.1 q (by simpa using hq')).1 c0 hc0, reach_child_ne_top hyp.acyc hyp.wf hqR hc0⟩
  refine ⟨?_, ?_, ?_, ?_⟩
  · intro c' hc'
    rw [htop, hch] at hc'
    obtain ⟨hm, hl⟩ := List.mem_filter.mp hc'
    obtain ⟨cs, c, _, _, hr, _, _, hlt, hnt⟩ := hocc c' hm
    rw [hr] at hl ⊢
    exact inv.final_leaf_def hyp hlt hnt hl
  · intro c' hc'
    rw [htop, hch] at hc'
    obtain ⟨hm, hl⟩ := List.mem_filter.mp hc'
    obtain ⟨cs, c, hp, h1, h2, h3, h4, _, _⟩ := hocc c' hm
    obtain ⟨p, hp⟩ := hp
    exact ⟨cs, c, ⟨p, hp, by rw [← h2]; exact hl⟩, h1, h2, h3, h4⟩
  · intro cs c ⟨p, hp, hl⟩
    obtain ⟨hall, _⟩ := inv.path_moved hyp hq _ p (cs ++ [c]) c.ref rfl hp
    have hmv := hall c (by simp)
    obtain ⟨m, hm, hmid⟩ := List.mem_map.mp hmv
    obtain ⟨cs', c', ⟨p', hp'⟩, h1, h2, h3, h4, _, _⟩ := hocc m hm
    obtain ⟨rfl, rfl⟩ := path_unique hyp hp hp' (by rw [← hmid, h1])
    refine ⟨m, ?_, h1, h2, h3, h4⟩
    rw [htop, hch]
    exact List.mem_filter.mpr ⟨hm, by rw [h2]; exact hl⟩
  · rw [htop, hch]
    exact List.Nodup.sublist ((List.filter_sublist).map _) inv.movedNodup

end final

end Spydr.Xform
