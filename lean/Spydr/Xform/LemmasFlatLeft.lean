/-
  What flatten leaves behind: every definition that was instantiated below the top instance and was
  not a leaf ends up with no children and no cables; its only leftover is (at most) one stale member
  of its reference set — the removed shell, which `remove_child` does not un-reference (`extra`).
-/
import Spydr.Xform.LemmasFlatWF

set_option linter.unusedVariables false

namespace Spydr.Xform

theorem reach_walk {d : Design} (hyp : Hyp d) {x : Nat} (hx : Reach d x) : ∃ p cs, walk d d.top p = some (cs, x) := by
  induction hx with
  | top => exact ⟨[], [], rfl⟩
  | @step q c hq hc ih =>
    obtain ⟨p, cs, hw⟩ := ih
    have hqlt := reach_lt hyp.wf hq
    exact ⟨p ++ [c.id], cs ++ [c], walk_snoc p _ cs q c.id c hw (childById_of_mem (hyp.ids_nodup hqlt) hc)⟩

theorem nodup_of_nodup_map {α β : Type} (f : α → β) : ∀ {l : List α}, (l.map f).Nodup → l.Nodup
  | [], _ => List.nodup_nil
  | x :: l, h => by
    simp only [List.map_cons, List.nodup_cons] at h ⊢
    exact ⟨fun hx => h.1 (List.mem_map_of_mem hx), nodup_of_nodup_map f h.2⟩

theorem countP_le_one {α : Type} (p : α → Bool) : ∀ (l : List α), l.Nodup → (∀ a ∈ l, ∀ b ∈ l, p a = true → p b = true → a = b) →
    l.countP p ≤ 1
  | [], _, _ => by simp
  | x :: l, hnd, h => by
    simp only [List.nodup_cons] at hnd
    simp only [List.countP_cons]
    by_cases hx : p x = true
    · have hz : l.countP p = 0 := by
        rw [List.countP_eq_zero]
        intro a ha hpa
        have := h a (List.mem_cons_of_mem _ ha) x List.mem_cons_self hpa hx
        subst this
        exact hnd.1 ha
      simp [hx, hz]
    · have ih := countP_le_one p l hnd.2 (fun a ha b hb => h a (List.mem_cons_of_mem _ ha) b (List.mem_cons_of_mem _ hb))
      simp [hx]; exact ih

theorem leftovers {d0 : Design} {s : FState} {moved : List Inst} (hyp : Hyp d0) (invA : FInvA d0 s moved)
    (hq : s.queue = []) {x : Nat} (hx : Reach d0 x) (hxt : x ≠ d0.top) (hxl : (d0.defs x).isLeaf = false) :
    ((fFinal s).defs x).children = [] ∧ ((fFinal s).defs x).cables = [] ∧ (fFinal s).extra x ≤ 1 := by
  have hxlt := reach_lt hyp.wf hx
  obtain ⟨p, cs, hw⟩ := reach_walk hyp hx
  obtain ⟨_, hm⟩ := invA.path_moved hyp hq _ p cs x rfl hw
  have hdis : Dissolved d0 moved x := by
    rcases hm with h | ⟨m, hm, hmr⟩
    · exact absurd h hxt
    · exact ⟨m, hm, hmr, hxl⟩
  have hstop : s.d.top = d0.top := invA.top
  have hdef : (fFinal s).defs x = s.d.defs x := by rw [fFinal_defs, hstop, if_neg hxt]
  refine ⟨?_, ?_, ?_⟩
  · rw [hdef, invA.kids x hxlt]
    simp only [hxt, if_false, List.append_nil, unmoved, List.filter_eq_nil_iff]
    intro c hc
    rcases invA.complete x hxlt (Or.inr hdis) c hc with h | h
    · simpa using h
    · rw [hq] at h; simp at h
  · rw [hdef]; exact invA.cablesGone x hxlt hxt hdis
  · -- the original reference set of `x` holds only its one instance
    obtain ⟨m, hmm, hmr, _⟩ := hdis
    obtain ⟨q0, c0, hq0, hc0, _, hcr⟩ := invA.moved_reach hmm
    have hcnt : d0.refCount x = 1 := by
      rcases hyp.uniq q0 c0 hq0 hc0 with h | h
      · rw [← hcr, hmr, hxl] at h; cases h
      · rw [← hcr, hmr] at h; exact h
    have hq0lt := reach_lt hyp.wf hq0
    have hpos : 1 ≤ (d0.defs q0).refsTo x := refsTo_pos hc0 (by rw [← hcr, hmr])
    have hsum := sum_range_ge (fun j => (d0.defs j).refsTo x) d0.ndefs q0 hq0lt
    have hrc : d0.refCount x = d0.extra x + ((List.range d0.ndefs).map (fun j => (d0.defs j).refsTo x)).sum := rfl
    have hex0 : d0.extra x = 0 := by omega
    -- at most one removed shell references `x`
    show s.d.extra x + _ ≤ 1
    rw [invA.extra, hex0, Nat.zero_add]
    apply countP_le_one
    · have hnd := invA.cur_children_nodup hyp hyp.wf.1
      rw [← hstop] at hnd
      exact List.Nodup.sublist List.filter_sublist (nodup_of_nodup_map _ hnd)
    · intro a ha b hb hpa hpb
      have ha' := List.mem_filter.mp ha
      have hb' := List.mem_filter.mp hb
      have htr := invA.toRemove
      have inA : InstIn s.d a := ⟨s.d.top, by rw [hstop, invA.ndefs]; exact hyp.wf.1, ha'.1⟩
      have inB : InstIn s.d b := ⟨s.d.top, by rw [hstop, invA.ndefs]; exact hyp.wf.1, hb'.1⟩
      have hmem : ∀ z : Inst, s.toRemove.contains z.id = true → z.id ∈ moved.map (·.id) := by
        intro z hz
        have hz' : z.id ∈ s.toRemove := by simpa using hz
        rw [htr] at hz'
        obtain ⟨m', hm', hid'⟩ := List.mem_map.mp hz'
        exact List.mem_map.mpr ⟨m', (List.mem_filter.mp hm').1, hid'⟩
      have ham := invA.inst_moved inA (hmem a ha'.2)
      have hbm := invA.inst_moved inB (hmem b hb'.2)
      obtain ⟨qa, ca, hqa, hca, hida, hra⟩ := invA.moved_reach ham
      obtain ⟨qb, cb, hqb, hcb, hidb, hrb⟩ := invA.moved_reach hbm
      have hax : a.ref = x := by simpa using hpa
      have hbx : b.ref = x := by simpa using hpb
      obtain ⟨_, hcc⟩ := unique_ref hyp.wf hyp.uniq hqa hqb hca hcb (by rw [← hra, ← hrb, hax, hbx])
        (by rw [← hra, hax]; exact hxl)
      exact nodup_map_inj invA.movedNodup ham hbm (by rw [hida, hidb, hcc])

end Spydr.Xform
