/-
  The flattened design again satisfies the hypotheses of the bridge (`Hyp`), hence the C09
  connectivity theorem can be stated in the path-based semantics of the elaboration.
-/
import Spydr.Xform.LemmasFlatWF
import Spydr.Xform.LemmasBridge

set_option linter.unusedVariables false

namespace Spydr.Xform

section finalhyp
variable {d0 : Design} {s : FState} {moved : List Inst}

theorem final_child_cases (invA : FInvA d0 s moved) {x : Nat} (hx : x < d0.ndefs) {a : Inst}
    (ha : a ∈ ((fFinal s).defs x).children) :
    (a ∈ (d0.defs x).children ∧ a.id ∉ moved.map (·.id)) ∨ (x = d0.top ∧ a ∈ moved) := by
  have h := fFinal_children_sub s x ha
  rw [invA.kids x hx] at h
  rcases List.mem_append.mp h with h | h
  · left
    obtain ⟨h1, h2⟩ := List.mem_filter.mp h
    exact ⟨h1, by simpa using h2⟩
  · right
    split at h
    · rename_i hxt; exact ⟨hxt, h⟩
    · simp at h

theorem final_cable_cases (invA : FInvA d0 s moved) (invB : FInvB d0 s moved) {x : Nat} (hx : x < d0.ndefs) {c : Cable}
    (hc : c ∈ ((fFinal s).defs x).cables) :
    ∃ y, y < d0.ndefs ∧ (∃ c0 ∈ (d0.defs y).cables, c0.id = c.id) ∧
      ((x = d0.top ∧ (y = d0.top ∨ Dissolved d0 moved y)) ∨ (x ≠ d0.top ∧ y = x ∧ ¬ Dissolved d0 moved x)) := by
  rw [fFinal_cables] at hc
  by_cases hxt : x = d0.top
  · subst hxt
    obtain ⟨y, hy, hyd, c0, hc0, hid⟩ := invB.idsOrig c hc
    exact ⟨y, hy, ⟨c0, hc0, hid⟩, Or.inl ⟨rfl, hyd⟩⟩
  · obtain ⟨h1, h2⟩ := invA.cable_origin hx hxt hc
    exact ⟨x, hx, ⟨c, h1, rfl⟩, Or.inr ⟨hxt, rfl, h2⟩⟩

theorem hyp_final (hyp : Hyp d0) (invA : FInvA d0 s moved) (invB : FInvB d0 s moved) (hq : s.queue = []) :
    Hyp (fFinal s) := by
  have hwf := wf_final hyp invA invB hq
  have hn : (fFinal s).ndefs = d0.ndefs := invA.ndefs
  have htop : (fFinal s).top = d0.top := invA.top
  have hleaves := invA.leavesOf hyp hq
  refine { wf := hwf, ids := ?_, uniq := ?_, acyc := ?_ }
  · refine ⟨fun i hi => (hwf.2.1 i hi).2.1, ?_, ?_, ?_⟩
    · intro i hi j hj hij a ha b hb e
      rw [hn] at hi hj
      have hi' : i < d0.ndefs := by simpa using hi
      have hj' : j < d0.ndefs := by simpa using hj
      rcases final_child_cases invA hi' ha with ⟨ha1, ha2⟩ | ⟨hit, ham⟩ <;>
        rcases final_child_cases invA hj' hb with ⟨hb1, hb2⟩ | ⟨hjt, hbm⟩
      · exact hij (hyp.ids_disjoint hi' hj' ha1 hb1 e)
      · exact ha2 (List.mem_map.mpr ⟨b, hbm, e.symm⟩)
      · exact hb2 (List.mem_map.mpr ⟨a, ham, e⟩)
      · exact hij (hit.trans hjt.symm)
    · intro i hi
      rw [hn] at hi
      have hi' : i < d0.ndefs := by simpa using hi
      rw [fFinal_cables]
      by_cases hit : i = d0.top
      · subst hit; exact invB.idsNodup
      · by_cases hd : Dissolved d0 moved i
        · rw [invA.cablesGone i hi' hit hd]; simp
        · rw [invA.cablesKeep i hi' hit hd]; exact hyp.ids.2.2.1 i hi
    · intro i hi j hj hij a ha b hb e
      rw [hn] at hi hj
      have hi' : i < d0.ndefs := by simpa using hi
      have hj' : j < d0.ndefs := by simpa using hj
      obtain ⟨y, hy, ⟨a0, ha0, haid⟩, hcase⟩ := final_cable_cases invA invB hi' ha
      obtain ⟨z, hz, ⟨b0, hb0, hbid⟩, hcase'⟩ := final_cable_cases invA invB hj' hb
      have hyz : y = z := hyp.cable_ids_disjoint hy hz ha0 hb0 (haid.trans (e.trans hbid.symm))
      subst hyz
      rcases hcase with ⟨hit, hyd⟩ | ⟨hit, hyi, hnd⟩ <;> rcases hcase' with ⟨hjt, hyd'⟩ | ⟨hjt, hyj, hnd'⟩
      · exact hij (hit.trans hjt.symm)
      · subst hyj
        rcases hyd with h | h
        · exact hjt h
        · exact hnd' h
      · subst hyi
        rcases hyd' with h | h
        · exact hit h
        · exact hnd h
      · exact hij (hyi.symm.trans hyj)
  · -- everything reachable in the flattened design is top or a leaf
    have hP : ∀ q, Reach (fFinal s) q → q = (fFinal s).top ∨ (((fFinal s).defs q).isLeaf = true) := by
      intro q hq'
      induction hq' with
      | top => exact Or.inl rfl
      | step _ hc ih =>
        rcases ih with rfl | h
        · exact Or.inr (hleaves.flat _ hc)
        · simp only [Defn.isLeaf, Bool.and_eq_true, List.isEmpty_iff] at h
          rw [h.1] at hc; simp at hc
    intro q c hq' hc
    rcases hP q hq' with rfl | h
    · exact Or.inl (hleaves.flat _ hc)
    · simp only [Defn.isLeaf, Bool.and_eq_true, List.isEmpty_iff] at h
      rw [h.1] at hc; simp at hc
  · obtain ⟨rank, hr⟩ := hyp.acyc
    refine ⟨rank, ?_⟩
    intro q hq' c hc
    rw [hn] at hq'
    rcases final_child_cases invA hq' hc with ⟨h1, _⟩ | ⟨hqt, hm⟩
    · exact hr q hq' c h1
    · obtain ⟨q0, c0, hq0, hc0, _, hcr⟩ := invA.moved_reach hm
      have h1 := reach_rank hr hyp.wf hq0
      have h2 := hr q0 h1.1 c0 hc0
      rw [hcr, hqt]
      rcases h1.2 with e | e
      · rw [← e]; exact h2
      · omega

end finalhyp

/-- where an endpoint of the hierarchical design sits after flatten: directly below top -/
def flatImage : HNode → HNode
  | .pin _ iid pi b => .pin [] iid pi b
  | n => n

theorem isEndpoint_leafOcc {d : Design} (hyp : Hyp d) {p : List Nat} {iid pi b : Nat}
    (h : IsEndpoint d (.pin p iid pi b)) : ∃ cs c, LeafOcc d cs c ∧ c.id = iid ∧ instAt d p iid = some c ∧
      InstIn d c := by
  obtain ⟨c, hc, hl⟩ := h
  simp only [instAt] at hc
  cases hdp : defAt d p with
  | none => simp [hdp] at hc
  | some x =>
    simp only [hdp] at hc
    obtain ⟨cs, hw⟩ := defAt_some hdp
    exact ⟨cs, c, ⟨p ++ [iid], walk_snoc p _ cs x iid c hw hc, hl⟩, (childById_id hc).1, by simp [instAt, hdp, hc],
      ⟨x, reach_lt hyp.wf (walk_reach p _ cs x Reach.top hw), (childById_id hc).2⟩⟩

theorem flatten_hconn {d0 : Design} {s : FState} {moved : List Inst} (hyp : Hyp d0) (invA : FInvA d0 s moved)
    (invB : FInvB d0 s moved) (hq : s.queue = []) {a b : HNode} (ha : IsEndpoint d0 a) (hb : IsEndpoint d0 b) :
    HConn d0 a b ↔ HConn (fFinal s) (flatImage a) (flatImage b) := by
  have hypF := hyp_final hyp invA invB hq
  have hleaves := invA.leavesOf hyp hq
  -- facts per endpoint
  have key : ∀ n, IsEndpoint d0 n → ValidH d0 n ∧ (∀ p ci wi, n ≠ .wire p ci wi) ∧ UEndpoint d0 (forget d0 n) ∧
      ValidH (fFinal s) (flatImage n) ∧ (∀ p ci wi, flatImage n ≠ .wire p ci wi) ∧
      forget (fFinal s) (flatImage n) = forget d0 n := by
    intro n hn
    cases n with
    | wire p ci wi => exact hn.elim
    | tport pi bit => exact ⟨trivial, by simp, trivial, trivial, by simp [flatImage], rfl⟩
    | pin p iid pi bit =>
      obtain ⟨cs, c, hocc, hcid, hinst, hin⟩ := isEndpoint_leafOcc hyp hn
      obtain ⟨c', hc', hid', _⟩ := hleaves.complete cs c hocc
      obtain ⟨pp, hwalk, hleaf⟩ := hocc
      refine ⟨⟨c, hinst⟩, by simp, ⟨c, hin, hcid, hleaf⟩, ?_, by simp [flatImage], rfl⟩
      · refine ⟨c', ?_⟩
        simp only [instAt]
        have hd : defAt (fFinal s) [] = some (fFinal s).top := rfl
        rw [hd]
        simp only
        rw [← hcid, ← hid']
        exact childById_of_mem hleaves.nodup hc'
  obtain ⟨va, hwa, uea, vFa, hwFa, hfa⟩ := key a ha
  obtain ⟨vb, hwb, ueb, vFb, hwFb, hfb⟩ := key b hb
  rw [hconn_iff_connU hyp va vb hwa hwb, hconn_iff_connU hypF vFa vFb hwFa hwFb, hfa, hfb]
  exact conn_final hyp invA invB uea ueb

end Spydr.Xform
