/-
  Field-by-field description of `moveInst` and `dissolve`.
-/
import Spydr.Xform.LemmasFlatBasic

namespace Spydr.Xform

theorem moveInst_frame (d : Design) (q : Nat) (c' : Inst) (ctr1 : Nat) :
    (moveInst d q c' ctr1).ndefs = d.ndefs ∧ (moveInst d q c' ctr1).top = d.top ∧
    (moveInst d q c' ctr1).order = d.order ∧ (moveInst d q c' ctr1).extra = d.extra ∧
    (moveInst d q c' ctr1).ctr = ctr1 := ⟨rfl, rfl, rfl, rfl, rfl⟩

theorem moveInst_defs (d : Design) (q : Nat) (c' : Inst) (ctr1 : Nat) (x : Nat) :
    (moveInst d q c' ctr1).defs x =
      if x = d.top then
        { (if d.top = q then { d.defs q with children := (d.defs q).children.filter (fun y => y.id != c'.id) } else d.defs d.top) with
          children := (if d.top = q then { d.defs q with children := (d.defs q).children.filter (fun y => y.id != c'.id) } else d.defs d.top).children ++ [c'] }
      else if x = q then { d.defs q with children := (d.defs q).children.filter (fun y => y.id != c'.id) }
      else d.defs x := rfl

theorem moveInst_children (d : Design) (q : Nat) (c' : Inst) (ctr1 : Nat) (x : Nat) :
    ((moveInst d q c' ctr1).defs x).children =
      (if x = q then (d.defs x).children.filter (fun y => y.id != c'.id) else (d.defs x).children) ++
      (if x = d.top then [c'] else []) := by
  rw [moveInst_defs]
  by_cases hxt : x = d.top
  · subst hxt
    by_cases hq : d.top = q
    · simp only [if_true, hq]
    · simp only [if_true, hq, if_false]
  · by_cases hq : x = q
    · subst hq; simp only [hxt, if_false, if_true, List.append_nil]
    · simp only [hxt, hq, if_false, List.append_nil]

theorem moveInst_defs_eq (d : Design) (q : Nat) (c' : Inst) (ctr1 : Nat) (x : Nat) :
    ∃ ch, (moveInst d q c' ctr1).defs x = { d.defs x with children := ch } := by
  rw [moveInst_defs]
  by_cases hxt : x = d.top
  · subst hxt
    by_cases hq : d.top = q
    · rw [if_pos rfl, if_pos hq, ← hq]; exact ⟨_, rfl⟩
    · rw [if_pos rfl, if_neg hq]; exact ⟨_, rfl⟩
  · by_cases hq : x = q
    · subst hq; rw [if_neg hxt, if_pos rfl]; exact ⟨_, rfl⟩
    · rw [if_neg hxt, if_neg hq]; exact ⟨_, rfl⟩

theorem moveInst_attrs (d : Design) (q : Nat) (c' : Inst) (ctr1 : Nat) (x : Nat) :
    ((moveInst d q c' ctr1).defs x).cables = (d.defs x).cables ∧
    ((moveInst d q c' ctr1).defs x).ports = (d.defs x).ports ∧
    ((moveInst d q c' ctr1).defs x).lib = (d.defs x).lib ∧
    ((moveInst d q c' ctr1).defs x).name = (d.defs x).name ∧
    ((moveInst d q c' ctr1).defs x).eid = (d.defs x).eid ∧
    ((moveInst d q c' ctr1).defs x).info = (d.defs x).info := by
  obtain ⟨ch, h⟩ := moveInst_defs_eq d q c' ctr1 x
  rw [h]; exact ⟨rfl, rfl, rfl, rfl, rfl, rfl⟩

/-- the cables the top definition holds after `dissolve` -/
def dissolvedTopCables (d : Design) (iid : Nat) (nm : String) (x : Nat) : List Cable :=
  (portBits (d.defs x).ports).foldl (redoPin iid)
    ((if d.top = x then { d.defs x with cables := [] } else d.defs d.top).cables ++
      (liftCables iid nm d.ctr (d.defs x).cables).1)

theorem dissolve_frame (d : Design) (iid : Nat) (nm : String) (x : Nat) :
    (dissolve d iid nm x).ndefs = d.ndefs ∧ (dissolve d iid nm x).top = d.top ∧
    (dissolve d iid nm x).order = d.order ∧ (dissolve d iid nm x).extra = d.extra := ⟨rfl, rfl, rfl, rfl⟩

theorem dissolve_defs (d : Design) (iid : Nat) (nm : String) (x y : Nat) :
    (dissolve d iid nm x).defs y =
      if y = d.top then
        { (if d.top = x then { d.defs x with cables := [] } else d.defs d.top) with
          cables := dissolvedTopCables d iid nm x }
      else if y = x then { d.defs x with cables := [] }
      else d.defs y := rfl

theorem dissolve_defs_eq (d : Design) (iid : Nat) (nm : String) (x y : Nat) :
    ∃ cs, (dissolve d iid nm x).defs y = { d.defs y with cables := cs } := by
  rw [dissolve_defs]
  by_cases hyt : y = d.top
  · subst hyt
    by_cases hx : d.top = x
    · rw [if_pos rfl, if_pos hx, ← hx]; exact ⟨_, rfl⟩
    · rw [if_pos rfl, if_neg hx]; exact ⟨_, rfl⟩
  · by_cases hx : y = x
    · subst hx; rw [if_neg hyt, if_pos rfl]; exact ⟨_, rfl⟩
    · rw [if_neg hyt, if_neg hx]; exact ⟨_, rfl⟩

theorem dissolve_attrs (d : Design) (iid : Nat) (nm : String) (x y : Nat) :
    ((dissolve d iid nm x).defs y).children = (d.defs y).children ∧
    ((dissolve d iid nm x).defs y).ports = (d.defs y).ports ∧
    ((dissolve d iid nm x).defs y).lib = (d.defs y).lib ∧
    ((dissolve d iid nm x).defs y).name = (d.defs y).name ∧
    ((dissolve d iid nm x).defs y).eid = (d.defs y).eid ∧
    ((dissolve d iid nm x).defs y).info = (d.defs y).info := by
  obtain ⟨cs, h⟩ := dissolve_defs_eq d iid nm x y
  rw [h]; exact ⟨rfl, rfl, rfl, rfl, rfl, rfl⟩

theorem dissolve_cables_other (d : Design) (iid : Nat) (nm : String) (x y : Nat) (hyt : y ≠ d.top) :
    ((dissolve d iid nm x).defs y).cables = if y = x then [] else (d.defs y).cables := by
  rw [dissolve_defs]
  by_cases hx : y = x
  · subst hx; simp only [hyt, if_false, if_true]
  · simp only [hyt, hx, if_false]

/-- the cables of the top definition after `dissolve` (for `x ≠ top`) -/
theorem dissolve_cables_top (d : Design) (iid : Nat) (nm : String) (x : Nat) (hx : x ≠ d.top) :
    ((dissolve d iid nm x).defs d.top).cables =
      (portBits (d.defs x).ports).foldl (redoPin iid)
        ((d.defs d.top).cables ++ (liftCables iid nm d.ctr (d.defs x).cables).1) := by
  rw [dissolve_defs]
  simp only [if_true, dissolvedTopCables, Ne.symm hx, if_false]

end Spydr.Xform
