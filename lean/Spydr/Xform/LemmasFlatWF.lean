/-
  Well-formedness of the flattened design.
-/
import Spydr.Xform.LemmasFlatFinal

set_option linter.unusedSimpArgs false
set_option linter.unusedVariables false

namespace Spydr.Xform

section wf
variable {d0 : Design} {s : FState} {moved : List Inst}

theorem FInvA.cur_children_nodup (hyp : Hyp d0) (inv : FInvA d0 s moved) {x : Nat} (hx : x < d0.ndefs) :
    ((s.d.defs x).children.map (·.id)).Nodup := by
  rw [inv.kids x hx, List.map_append]
  refine List.nodup_append.mpr ⟨List.Nodup.sublist ((List.filter_sublist).map _) (hyp.ids_nodup hx), ?_, ?_⟩
  · split
    · exact inv.movedNodup
    · simp
  · intro a ha b hb hab
    subst hab
    obtain ⟨c, hc, hca⟩ := List.mem_map.mp ha
    have := (List.mem_filter.mp hc).2
    simp only [Bool.not_eq_true', List.contains_eq_mem, decide_eq_false_iff_not] at this
    split at hb
    · rw [hca] at this; exact this hb
    · simp at hb

theorem wf_final (hyp : Hyp d0) (invA : FInvA d0 s moved) (invB : FInvB d0 s moved) (hq : s.queue = []) :
    WF (fFinal s) := by
  have hn : (fFinal s).ndefs = d0.ndefs := invA.ndefs
  have htop : (fFinal s).top = d0.top := invA.top
  have hstop : s.d.top = d0.top := invA.top
  have hports : ∀ x, x < d0.ndefs → ((fFinal s).defs x).ports = (d0.defs x).ports :=
    fun x hx => (fFinal_attrs s x).1.trans (invA.attrs x hx).1
  have hreflt : ∀ x, x < d0.ndefs → ∀ j ∈ ((fFinal s).defs x).children, j.ref < d0.ndefs := by
    intro x hx j hj
    obtain ⟨z, j0, hz, hj0, _, hr⟩ := invA.inst_origin hyp ⟨x, by rw [invA.ndefs]; exact hx, fFinal_children_sub s x hj⟩
    rw [← hr]; exact (hyp.wf.2.1 z (by simpa using hz)).1 j0 hj0
  have hidsnd : ∀ x, x < d0.ndefs → (((fFinal s).defs x).children.map (·.id)).Nodup := by
    intro x hx
    refine List.Nodup.sublist (List.Sublist.map _ ?_) (invA.cur_children_nodup hyp hx)
    rw [fFinal_defs]
    split
    · rename_i h; rw [h]; exact List.filter_sublist
    · exact List.Sublist.refl _
  refine ⟨by rw [htop, hn]; exact hyp.wf.1, ?_, ?_⟩
  · intro i hi
    rw [hn] at hi
    have hi' : i < d0.ndefs := by simpa using hi
    refine ⟨?_, hidsnd i hi', ?_, ?_⟩
    · intro c hc; rw [hn]; exact hreflt i hi' c hc
    · rw [fFinal_cables]
      by_cases hit : i = d0.top
      · subst hit
        exact nodup_allPins_of_pinsOk _ invB.idsNodup invB.pinsOk
      · by_cases hd : Dissolved d0 moved i
        · rw [invA.cablesGone i hi' hit hd]; simp [allPins]
        · rw [invA.cablesKeep i hi' hit hd]; exact (hyp.wf.2.1 i hi).2.2.1
    · intro p hp
      rw [fFinal_cables] at hp
      by_cases hit : i = d0.top
      · subst hit
        obtain ⟨l, hl⟩ := mem_pinsAt_of_allPins invB.idsNodup hp
        have halive := invB.pins l p hl
        cases p with
        | port pi b =>
          simp only [PinOk, hports _ hi']
          exact halive
        | inner _ _ _ => exact halive.elim
        | inst k pi b =>
          obtain ⟨y, c1, hy, hyd, hc1, hc1id, hktr, P, hP, hb⟩ := halive
          -- the instance has been moved, is not a shell, hence is a child of the final top
          have hmv : c1.id ∈ moved.map (·.id) := by
            rcases invA.complete y hy hyd c1 hc1 with h | h
            · exact h
            · rw [hq] at h; simp at h
          obtain ⟨m, hm, hmid⟩ := List.mem_map.mp hmv
          have hmtop : m ∈ (s.d.defs d0.top).children := by
            rw [invA.kids _ hyp.wf.1]
            apply List.mem_append_right
            simp [hm]
          have hmfin : m ∈ ((fFinal s).defs d0.top).children :=
            fFinal_children_keep s _ hmtop (by rw [hmid, hc1id]; exact hktr)
          obtain ⟨p', cs', q', c0', hw', _, hc0', hid', hr', _⟩ := invA.movedOrig m hm
          have hq' := reach_lt hyp.wf (walk_reach p' _ cs' q' Reach.top hw')
          have hqq : q' = y := hyp.ids_disjoint hq' hy hc0' hc1 (by rw [← hid', hmid])
          subst hqq
          have hcc : c0' = c1 := hyp.child_eq hq' hc0' hc1 (by rw [← hid', hmid])
          subst hcc
          refine ⟨m, hmfin, hmid.trans hc1id, P, ?_, hb⟩
          rw [hr', hports _ ((hyp.wf.2.1 q' (by simpa using hq')).1 c0' hc0')]
          exact hP
      · by_cases hd : Dissolved d0 moved i
        · rw [invA.cablesGone i hi' hit hd] at hp; simp [allPins] at hp
        · rw [invA.cablesKeep i hi' hit hd] at hp
          have hok := (hyp.wf.2.1 i hi).2.2.2 p hp
          have hch : ((fFinal s).defs i).children = (d0.defs i).children := by
            rw [fFinal_defs, hstop, if_neg hit, invA.kids i hi', invA.unmoved_untouched hyp hi' hit hd]
            simp [hit]
          cases p with
          | port pi b => simp only [PinOk, hports _ hi']; exact hok
          | inner _ _ _ => exact hok.elim
          | inst k pi b =>
            obtain ⟨c, hc, hcid, P, hP, hb⟩ := hok
            refine ⟨c, by rw [hch]; exact hc, hcid, P, ?_, hb⟩
            rw [hports _ ((hyp.wf.2.1 i hi).1 c hc)]; exact hP
  · obtain ⟨o1, o2, o3, o4⟩ := hyp.wf.2.2
    have hord : (fFinal s).order = d0.order := invA.order
    refine ⟨by rw [hord]; exact o1, by rw [hord, hn]; exact o2, by rw [hord, hn]; exact o3, ?_⟩
    rw [hord]
    intro l hl i hi
    have hilt : i < d0.ndefs := o2 i (by
      simp only [List.mem_flatten]
      have hl' : l < d0.order.length := by simpa using hl
      exact ⟨d0.order.getD l [], by simp [List.getD, hl'], hi⟩)
    rw [(fFinal_attrs s i).2, (invA.attrs i hilt).2.1]
    exact o4 l hl i hi

end wf

end Spydr.Xform
