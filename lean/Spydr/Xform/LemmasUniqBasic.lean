/-
  Basic facts about one `makeUnique` step and the loop structure of the uniquify model.
-/
import Spydr.Xform.ModelUniquify
import Spydr.Xform.Spec

namespace Spydr.Xform

/-! ### `cloneDefn` -/

theorem cloneDefn_fields {d : Design} {D D' : Defn} {c : Nat} (h : cloneDefn d D = some (D', c)) :
    D'.lib = D.lib ∧ D'.info = D.info ∧ D'.ports = D.ports ∧ D'.cables = D.cables ∧ D'.children = D.children := by
  unfold cloneDefn at h
  split at h
  · cases h; simp
  · split at h
    · cases h
    · cases h; simp

theorem pickCtr_spec {names eids : List String} {nm eid : Option String} {fuel ctr k : Nat}
    (h : pickCtr names eids nm eid fuel ctr = some k) :
    ctr ≤ k ∧ candTaken names eids nm eid k = false := by
  induction fuel generalizing ctr with
  | zero => simp [pickCtr] at h
  | succ f ih =>
    simp only [pickCtr] at h
    split at h
    · have := ih h; exact ⟨by omega, this.2⟩
    · cases h
      rename_i hc
      exact ⟨Nat.le_refl _, by simpa using hc⟩

/-- name of the copy: none for an unnamed original, otherwise `name ++ "_sdn_unique_" ++ k` with `k`
    at least the counter and the name not yet used in the library; the counter never decreases -/
theorem cloneDefn_name {d : Design} {D D' : Defn} {c : Nat} (h : cloneDefn d D = some (D', c)) :
    (D.name = none ∧ D'.name = none ∧ d.ctr ≤ c) ∨
    (∃ n k, D.name = some n ∧ D'.name = some (n ++ uniqSuffix k) ∧ d.ctr ≤ k ∧ c = k + 1 ∧
       (n ++ uniqSuffix k) ∉ d.libNames D.lib) := by
  unfold cloneDefn at h
  split at h
  · rename_i hnone
    cases h
    simp only [Bool.and_eq_true, Option.isNone_iff_eq_none] at hnone
    exact Or.inl ⟨hnone.1, hnone.1, Nat.le_refl _⟩
  · split at h
    · cases h
    · rename_i k hk
      cases h
      have hs := pickCtr_spec hk
      cases hn : D.name with
      | none => exact Or.inl ⟨rfl, by simp, by omega⟩
      | some n =>
        right
        refine ⟨n, k, rfl, by simp, hs.1, rfl, ?_⟩
        have := hs.2
        simp only [candTaken, hn, Bool.or_eq_false_iff] at this
        simpa using this.1

/-- identifier of the copy: absent like the original's, otherwise `eid ++ "_sdn_unique_" ++ k` whose
    case-folded form is not yet an identifier of the library -/
theorem cloneDefn_eid {d : Design} {D D' : Defn} {c : Nat} (h : cloneDefn d D = some (D', c)) :
    (D.eid = none ∧ D'.eid = none) ∨
    (∃ e k, D.eid = some e ∧ D'.eid = some (e ++ uniqSuffix k) ∧ lowerStr (e ++ uniqSuffix k) ∉ d.libEids D.lib) := by
  unfold cloneDefn at h
  split at h
  · rename_i hnone
    cases h
    simp only [Bool.and_eq_true, Option.isNone_iff_eq_none] at hnone
    exact Or.inl ⟨hnone.2, hnone.2⟩
  · split at h
    · cases h
    · rename_i k hk
      cases h
      have hs := pickCtr_spec hk
      cases he : D.eid with
      | none => exact Or.inl ⟨rfl, by simp⟩
      | some e =>
        right
        refine ⟨e, k, rfl, by simp, ?_⟩
        have := hs.2
        simp only [candTaken, he, Bool.or_eq_false_iff] at this
        simpa using this.2

/-! ### `makeUnique` -/

theorem makeUnique_some {d d' : Design} {q k x : Nat} (h : makeUnique d q k x = some d') :
    ∃ D' c, cloneDefn d (d.defs x) = some (D', c) ∧
      d'.ndefs = d.ndefs + 1 ∧
      d'.defs = (fun j => if j = d.ndefs then D' else if j = q then setChildRef (d.defs q) k d.ndefs else d.defs j) ∧
      d'.order = d.order.map (insertAfter x d.ndefs) ∧ d'.top = d.top ∧
      d'.extra = (fun j => if j = d.ndefs then 0 else d.extra j) ∧ d'.ctr = c := by
  unfold makeUnique at h
  split at h
  · cases h
  · rename_i D' c hc
    cases h
    exact ⟨D', c, hc, rfl, rfl, rfl, rfl, rfl, rfl⟩

theorem setChildRef_ports (D : Defn) (k r : Nat) : (setChildRef D k r).ports = D.ports := rfl
theorem setChildRef_cables (D : Defn) (k r : Nat) : (setChildRef D k r).cables = D.cables := rfl
theorem setChildRef_lib (D : Defn) (k r : Nat) : (setChildRef D k r).lib = D.lib := rfl
theorem setChildRef_name (D : Defn) (k r : Nat) : (setChildRef D k r).name = D.name := rfl

theorem setChildRef_children_length (D : Defn) (k r : Nat) :
    (setChildRef D k r).children.length = D.children.length := by
  simp [setChildRef]

theorem setChildRef_getElem? (D : Defn) (k r j : Nat) :
    (setChildRef D k r).children[j]? =
      (D.children[j]?).map (fun c => if k = j then { c with ref := r } else c) := by
  simp only [setChildRef, List.getElem?_modify]
  cases D.children[j]? <;> simp

theorem setChildRef_map_id (D : Defn) (k r : Nat) :
    (setChildRef D k r).children.map (·.id) = D.children.map (·.id) := by
  apply List.ext_getElem?
  intro j
  simp only [List.getElem?_map, setChildRef_getElem?]
  cases D.children[j]? <;> simp
  split <;> rfl

/-- a child of the re-pointed definition is an old child, possibly with the new reference -/
theorem mem_setChildRef {D : Defn} {k r : Nat} {c : Inst} (h : c ∈ (setChildRef D k r).children) :
    ∃ c0 ∈ D.children, c.id = c0.id ∧ c.name = c0.name ∧ c.eid = c0.eid ∧ c.data = c0.data ∧
      (c.ref = c0.ref ∨ (c.ref = r ∧ D.children[k]? = some c0)) := by
  obtain ⟨j, hj⟩ := List.getElem?_of_mem h
  rw [setChildRef_getElem?] at hj
  cases hc0 : D.children[j]? with
  | none => simp [hc0] at hj
  | some c0 =>
    simp only [hc0, Option.map_some, Option.some.injEq] at hj
    refine ⟨c0, List.mem_of_getElem? hc0, ?_⟩
    split at hj
    · rename_i hkj; subst hkj; subst hj; simp [hc0]
    · subst hj; simp

theorem setChildRef_isLeaf (D : Defn) (k r : Nat) : (setChildRef D k r).isLeaf = D.isLeaf := by
  simp only [Defn.isLeaf, setChildRef]
  cases h : D.children with
  | nil => simp
  | cons a l => cases k <;> simp [List.modify]

end Spydr.Xform
