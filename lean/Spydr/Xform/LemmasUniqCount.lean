/-
  Reference-set sizes (`refCount`) across one `makeUnique` step.
-/
import Spydr.Xform.LemmasUniqWF

namespace Spydr.Xform

theorem countP_modify {α : Type} (p : α → Bool) (f : α → α) :
    ∀ (l : List α) (k : Nat) (c : α), l[k]? = some c →
      (l.modify k f).countP p + (if p c then 1 else 0) = l.countP p + (if p (f c) then 1 else 0)
  | [], k, c, h => by simp at h
  | a :: l, 0, c, h => by
    simp at h; subst h
    simp only [List.modify_zero_cons, List.countP_cons]
    omega
  | a :: l, k + 1, c, h => by
    simp at h
    have := countP_modify p f l k c h
    simp only [List.modify_succ_cons, List.countP_cons]
    omega

theorem sum_range_update (f g : Nat → Nat) (q : Nat) :
    ∀ n, q < n → (∀ j, j < n → j ≠ q → g j = f j) →
      ((List.range n).map g).sum + f q = ((List.range n).map f).sum + g q
  | 0, hq, _ => by omega
  | n + 1, hq, h => by
    simp only [List.range_succ, List.map_append, List.sum_append, List.map_cons, List.map_nil, List.sum_cons, List.sum_nil]
    by_cases hqn : q = n
    · subst hqn
      have : (List.range q).map g = (List.range q).map f := by
        apply List.map_congr_left
        intro j hj
        have hj' : j < q := by simpa using hj
        exact h j (by omega) (by omega)
      rw [this]; omega
    · have ih := sum_range_update f g q n (by omega) (fun j hj hne => h j (by omega) hne)
      have := h n (by omega) (fun e => hqn e.symm)
      omega

theorem sum_range_congr (f g : Nat → Nat) (n : Nat) (h : ∀ j, j < n → g j = f j) :
    ((List.range n).map g).sum = ((List.range n).map f).sum := by
  congr 1
  apply List.map_congr_left
  intro j hj
  exact h j (by simpa using hj)

theorem sum_range_ge (f : Nat → Nat) (n q : Nat) (hq : q < n) : f q ≤ ((List.range n).map f).sum := by
  induction n with
  | zero => omega
  | succ n ih =>
    simp only [List.range_succ, List.map_append, List.sum_append, List.map_cons, List.map_nil, List.sum_cons, List.sum_nil]
    by_cases hqn : q = n
    · subst hqn; omega
    · have := ih (by omega); omega

theorem sum_range_ge2 (f : Nat → Nat) (n q r : Nat) (hq : q < n) (hr : r < n) (hne : q ≠ r) :
    f q + f r ≤ ((List.range n).map f).sum := by
  induction n with
  | zero => omega
  | succ n ih =>
    simp only [List.range_succ, List.map_append, List.sum_append, List.map_cons, List.map_nil, List.sum_cons, List.sum_nil]
    by_cases hqn : q = n
    · subst hqn
      have := sum_range_ge f q r (by omega); omega
    · by_cases hrn : r = n
      · subst hrn
        have := sum_range_ge f r q (by omega); omega
      · have := ih (by omega) (by omega); omega

theorem sum_range_zero (f : Nat → Nat) (n : Nat) (h : ∀ j, j < n → f j = 0) :
    ((List.range n).map f).sum = 0 := by
  induction n with
  | zero => rfl
  | succ n ih =>
    simp only [List.range_succ, List.map_append, List.sum_append, List.map_cons, List.map_nil, List.sum_cons, List.sum_nil]
    rw [ih (fun j hj => h j (by omega)), h n (by omega)]; rfl

theorem refsTo_eq_zero {D : Defn} {y : Nat} (h : ∀ c ∈ D.children, c.ref ≠ y) : D.refsTo y = 0 := by
  simp only [Defn.refsTo, List.countP_eq_zero]
  intro c hc; simpa using h c hc

theorem refsTo_pos {D : Defn} {y : Nat} {c : Inst} (hc : c ∈ D.children) (h : c.ref = y) : 1 ≤ D.refsTo y := by
  simp only [Defn.refsTo]
  exact List.countP_pos_iff.mpr ⟨c, hc, by simpa using h⟩

theorem refsTo_setChildRef {D : Defn} {k : Nat} {c : Inst} (hc : D.children[k]? = some c) (r y : Nat) :
    (setChildRef D k r).refsTo y + (if c.ref = y then 1 else 0) = D.refsTo y + (if r = y then 1 else 0) := by
  have := countP_modify (fun c : Inst => c.ref == y) (fun c => { c with ref := r }) D.children k c hc
  simpa [Defn.refsTo, setChildRef] using this

section step
variable {d d' : Design} {q k x : Nat}

/-- the size of an old definition's reference set after the step: the re-pointed instance leaves
    `x`'s set, the copied children enter the sets of their references -/
theorem makeUnique_refCount_old (_hwf : WF d) (hq : q < d.ndefs) {c : Inst}
    (hc : (d.defs q).children[k]? = some c) (hx : c.ref = x)
    (h : makeUnique d q k x = some d') {y : Nat} (hy : y < d.ndefs) :
    d'.refCount y + (if x = y then 1 else 0) = d.refCount y + (d.defs x).refsTo y := by
  obtain ⟨D', cc, hcl, hn, hdefs, _, _, hextra, _⟩ := makeUnique_some h
  have hyn : y ≠ d.ndefs := Nat.ne_of_lt hy
  have hqn : q ≠ d.ndefs := Nat.ne_of_lt hq
  have hnew := makeUnique_new h
  simp only [Design.refCount, hn, hextra, hyn, if_false, List.range_succ, List.map_append, List.sum_append,
    List.map_cons, List.map_nil, List.sum_cons, List.sum_nil]
  have e1 : (d'.defs d.ndefs).refsTo y = (d.defs x).refsTo y := by
    simp only [Defn.refsTo, hnew.2.2.2.1]
  have e2 := sum_range_update (fun j => (d.defs j).refsTo y) (fun j => (d'.defs j).refsTo y) q d.ndefs hq
    (fun j hj hjq => by rw [makeUnique_children_other h (Nat.ne_of_lt hj) hjq])
  have e3 : (d'.defs q).refsTo y + (if x = y then 1 else 0) = (d.defs q).refsTo y := by
    rw [makeUnique_children_q h hqn]
    have := refsTo_setChildRef hc d.ndefs y
    rw [hx] at this
    simp only [show ¬ d.ndefs = y from fun e => hyn e.symm, if_false] at this
    omega
  omega

theorem makeUnique_refCount_new (hwf : WF d) (hq : q < d.ndefs) {c : Inst}
    (hc : (d.defs q).children[k]? = some c) (hx : c.ref = x)
    (h : makeUnique d q k x = some d') : d'.refCount d.ndefs = 1 := by
  obtain ⟨D', cc, hcl, hn, hdefs, _, _, hextra, _⟩ := makeUnique_some h
  have hqn : q ≠ d.ndefs := Nat.ne_of_lt hq
  have hnew := makeUnique_new h
  obtain ⟨_, hdefsWF, _⟩ := hwf
  have hreflt : ∀ j, j < d.ndefs → ∀ c ∈ (d.defs j).children, c.ref ≠ d.ndefs := by
    intro j hj c hc
    have := (hdefsWF j (by simpa using hj)).1 c hc
    omega
  have hcm : c ∈ (d.defs q).children := List.mem_of_getElem? hc
  have hxn : x < d.ndefs := hx ▸ (hdefsWF q (by simpa using hq)).1 c hcm
  simp only [Design.refCount, hn, hextra, if_true, List.range_succ, List.map_append, List.sum_append,
    List.map_cons, List.map_nil, List.sum_cons, List.sum_nil]
  have e1 : (d'.defs d.ndefs).refsTo d.ndefs = 0 := by
    simp only [Defn.refsTo, hnew.2.2.2.1]
    exact refsTo_eq_zero (hreflt x hxn)
  have e2 := sum_range_update (fun j => (d.defs j).refsTo d.ndefs) (fun j => (d'.defs j).refsTo d.ndefs) q d.ndefs hq
    (fun j hj hjq => by rw [makeUnique_children_other h (Nat.ne_of_lt hj) hjq])
  have e0 : ((List.range d.ndefs).map (fun j => (d.defs j).refsTo d.ndefs)).sum = 0 :=
    sum_range_zero _ _ (fun j hj => refsTo_eq_zero (hreflt j hj))
  have e3 : (d'.defs q).refsTo d.ndefs = 1 := by
    rw [makeUnique_children_q h hqn]
    have := refsTo_setChildRef hc d.ndefs d.ndefs
    have hz : (d.defs q).refsTo d.ndefs = 0 := refsTo_eq_zero (hreflt q hq)
    have hcx : ¬ c.ref = d.ndefs := by rw [hx]; omega
    simp only [hcx, if_false, if_true, hz] at this
    omega
  have hz : (d.defs q).refsTo d.ndefs = 0 := refsTo_eq_zero (hreflt q hq)
  omega

end step

end Spydr.Xform
