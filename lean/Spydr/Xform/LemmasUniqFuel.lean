/-
  Fuel sufficiency for the uniquify walk: the number of iterations equals the number of instance
  occurrences of the elaborated design.  `wt d n x` is the size (number of definition occurrences) of
  the unfolding of `x` cut at depth `n`; with a rank function it is independent of `n ≥ rank x`.
  Every iteration removes exactly one unit of the total weight of the queue.
-/
import Spydr.Xform.LemmasUniqRun

set_option linter.unusedVariables false

namespace Spydr.Xform

def wt (d : Design) : Nat → Nat → Nat
  | 0, _ => 1
  | n + 1, x => 1 + ((d.defs x).children.map (fun c => wt d n c.ref)).sum

theorem wt_pos (d : Design) (n x : Nat) : 1 ≤ wt d n x := by
  cases n <;> simp [wt]

def RankOk (d : Design) (rank : Nat → Nat) : Prop :=
  ∀ q, q < d.ndefs → ∀ c ∈ (d.defs q).children, rank c.ref < rank q

theorem sum_map_congr {α : Type} {f g : α → Nat} : ∀ {l : List α}, (∀ a ∈ l, f a = g a) → (l.map f).sum = (l.map g).sum
  | [], _ => rfl
  | a :: l, h => by
    simp only [List.map_cons, List.sum_cons]
    rw [h a List.mem_cons_self, sum_map_congr (fun b hb => h b (List.mem_cons_of_mem _ hb))]

/-- above the rank the cut does not matter -/
theorem wt_stable {d : Design} {rank : Nat → Nat} (hwf : WF d) (hr : RankOk d rank) :
    ∀ (n x : Nat), x < d.ndefs → rank x ≤ n → wt d n x = wt d (rank x) x := by
  intro n
  induction n using Nat.strongRecOn with
  | _ n ih =>
    intro x hx hle
    cases n with
    | zero =>
      have : rank x = 0 := by omega
      rw [this]
    | succ n =>
      cases hrx : rank x with
      | zero =>
        -- no children (their rank would be below 0)
        have hno : (d.defs x).children = [] := by
          cases hch : (d.defs x).children with
          | nil => rfl
          | cons c l =>
            have := hr x hx c (by rw [hch]; exact List.mem_cons_self)
            omega
        simp [wt, hno]
      | succ r =>
        simp only [wt]
        congr 1
        apply sum_map_congr
        intro c hc
        have hcr := hr x hx c hc
        have hclt := (hwf.2.1 x (by simpa using hx)).1 c hc
        rw [ih n (by omega) c.ref hclt (by omega), ih r (by omega) c.ref hclt (by omega)]

/-- the weight of a definition is one more than the weights of its children's references -/
theorem wt_unfold {d : Design} {rank : Nat → Nat} (hwf : WF d) (hr : RankOk d rank) {x : Nat} (hx : x < d.ndefs) :
    wt d (rank x) x = 1 + ((d.defs x).children.map (fun c => wt d (rank c.ref) c.ref)).sum := by
  cases hrx : rank x with
  | zero =>
    have hno : (d.defs x).children = [] := by
      cases hch : (d.defs x).children with
      | nil => rfl
      | cons c l =>
        have := hr x hx c (by rw [hch]; exact List.mem_cons_self)
        omega
    simp [wt, hno]
  | succ r =>
    simp only [wt]
    congr 1
    apply sum_map_congr
    intro c hc
    have hcr := hr x hx c hc
    exact wt_stable hwf hr r c.ref ((hwf.2.1 x (by simpa using hx)).1 c hc) (by omega)

/-- weight of a queue entry -/
def entryWt (d : Design) (rank : Nat → Nat) (a : Nat × Nat) : Nat :=
  (((d.defs a.1).children[a.2]?).map (fun c => wt d (rank c.ref) c.ref)).getD 1

def queueWt (d : Design) (rank : Nat → Nat) (queue : List (Nat × Nat)) : Nat := (queue.map (entryWt d rank)).sum

theorem entryWt_pos (d : Design) (rank : Nat → Nat) (a : Nat × Nat) : 1 ≤ entryWt d rank a := by
  simp only [entryWt]
  cases (d.defs a.1).children[a.2]? with
  | none => simp
  | some c => simp only [Option.map_some, Option.getD_some]; exact wt_pos _ _ _

theorem queueWt_zero {d : Design} {rank : Nat → Nat} {queue : List (Nat × Nat)} (h : queueWt d rank queue = 0) :
    queue = [] := by
  cases queue with
  | nil => rfl
  | cons a l =>
    simp only [queueWt, List.map_cons, List.sum_cons] at h
    have := entryWt_pos d rank a
    omega

theorem map_range_getElem {α : Type} (f : α → Nat) (dflt : Nat) (l : List α) :
    (List.range l.length).map (fun k => ((l[k]?).map f).getD dflt) = l.map f := by
  apply List.ext_getElem?
  intro i
  simp only [List.getElem?_map]
  by_cases hi : i < l.length
  · simp [hi]
  · simp [hi]

/-- the weight of all children addresses of `x` is the weight of `x` minus one -/
theorem queueWt_childAddrs {d : Design} {rank : Nat → Nat} (hwf : WF d) (hr : RankOk d rank) {x : Nat} (hx : x < d.ndefs) :
    queueWt d rank (childAddrs x (d.defs x)) + 1 = wt d (rank x) x := by
  rw [wt_unfold hwf hr hx]
  have h1 : (childAddrs x (d.defs x)).map (entryWt d rank) =
      (List.range (d.defs x).children.length).map
        (fun k => (((d.defs x).children[k]?).map (fun c : Inst => wt d (rank c.ref) c.ref)).getD 1) := by
    simp only [childAddrs, List.map_map]
    rfl
  simp only [queueWt]
  rw [h1, map_range_getElem (fun c : Inst => wt d (rank c.ref) c.ref) 1 (d.defs x).children]
  omega

/-- after a clone step (copy ranked like its original) all weights are unchanged -/
theorem wt_makeUnique {d d' : Design} {q k : Nat} {c : Inst} (hwf : WF d) (hq : q < d.ndefs)
    (hc : (d.defs q).children[k]? = some c) (h : makeUnique d q k c.ref = some d') :
    ∀ m, (∀ y, y < d.ndefs → wt d' m y = wt d m y) ∧ wt d' m d.ndefs = wt d m c.ref := by
  have hqn : q ≠ d.ndefs := Nat.ne_of_lt hq
  have hnew := makeUnique_new h
  have hreflt : ∀ j, j < d.ndefs → ∀ c ∈ (d.defs j).children, c.ref < d.ndefs :=
    fun j hj => (hwf.2.1 j (by simpa using hj)).1
  intro m
  induction m with
  | zero => exact ⟨fun _ _ => rfl, rfl⟩
  | succ m ih =>
    obtain ⟨ih1, ih2⟩ := ih
    refine ⟨?_, ?_⟩
    · intro y hy
      simp only [wt]
      congr 1
      by_cases hyq : y = q
      · subst hyq
        rw [makeUnique_children_q h hqn]
        -- position by position
        have hlen := setChildRef_children_length (d.defs y) k d.ndefs
        apply congrArg List.sum
        apply List.ext_getElem?
        intro i
        simp only [List.getElem?_map, setChildRef_getElem?]
        cases hci : (d.defs y).children[i]? with
        | none => simp
        | some c0 =>
          simp only [Option.map_some, Option.some.injEq]
          by_cases hki : k = i
          · subst hki
            rw [hc] at hci; cases hci
            simp only [if_true, ih2]
          · simp only [hki, if_false]
            exact ih1 _ (hreflt y hy c0 (List.mem_of_getElem? hci))
      · rw [makeUnique_children_other h (Nat.ne_of_lt hy) hyq]
        apply sum_map_congr
        intro c0 hc0
        exact ih1 _ (hreflt y hy c0 hc0)
    · simp only [wt]
      congr 1
      rw [hnew.2.2.2.1]
      have hxn : c.ref < d.ndefs := hreflt q hq c (List.mem_of_getElem? hc)
      apply sum_map_congr
      intro c0 hc0
      exact ih1 _ (hreflt _ hxn c0 hc0)

structure TInv (d : Design) (queue : List (Nat × Nat)) (rank : Nat → Nat) : Prop where
  wf : WF d
  rankOk : RankOk d rank
  queueLt : ∀ a ∈ queue, a.1 < d.ndefs

/-- one iteration removes exactly one unit of weight -/
theorem TInv.step {d d' : Design} {q k : Nat} {rest push : List (Nat × Nat)} {rank : Nat → Nat}
    (inv : TInv d ((q, k) :: rest) rank) (h : uStep d q k = some (d', push)) :
    ∃ rank', TInv d' (rest ++ push) rank' ∧ queueWt d' rank' (rest ++ push) + 1 = queueWt d rank ((q, k) :: rest) := by
  have hq : q < d.ndefs := inv.queueLt (q, k) List.mem_cons_self
  have hrest : ∀ a ∈ rest, a.1 < d.ndefs := fun a ha => inv.queueLt a (List.mem_cons_of_mem _ ha)
  have hsplit : ∀ (dd : Design) (rk : Nat → Nat) (l1 l2 : List (Nat × Nat)),
      queueWt dd rk (l1 ++ l2) = queueWt dd rk l1 + queueWt dd rk l2 := by
    intro dd rk l1 l2; simp [queueWt, List.sum_append]
  rcases uStep_cases h with ⟨hdd, hnone, rfl⟩ | ⟨c, hc, ⟨hdd, _, rfl⟩ | ⟨_, hl, hm, rfl⟩⟩
  · have hdd' : d = d' := hdd.symm
    subst hdd'
    refine ⟨rank, ⟨inv.wf, inv.rankOk, by simpa using hrest⟩, ?_⟩
    simp only [List.append_nil, queueWt, List.map_cons, List.sum_cons, entryWt, hnone, Option.map_none, Option.getD_none]
    omega
  · have hdd' : d = d' := hdd.symm
    subst hdd'
    have hxn : c.ref < d.ndefs := (inv.wf.2.1 q (by simpa using hq)).1 c (List.mem_of_getElem? hc)
    refine ⟨rank, ⟨inv.wf, inv.rankOk, ?_⟩, ?_⟩
    · intro a ha
      rcases List.mem_append.mp ha with ha | ha
      · exact hrest a ha
      · rw [(mem_childAddrs.mp ha).1]; exact hxn
    · rw [hsplit]
      have := queueWt_childAddrs inv.wf inv.rankOk hxn
      simp only [queueWt, List.map_cons, List.sum_cons] at this ⊢
      simp only [entryWt, hc, Option.map_some, Option.getD_some]
      omega
  · have hxn : c.ref < d.ndefs := (inv.wf.2.1 q (by simpa using hq)).1 c (List.mem_of_getElem? hc)
    have hqn : q ≠ d.ndefs := Nat.ne_of_lt hq
    have hn := (makeUnique_some hm).choose_spec.choose_spec.2.1
    have hnew := makeUnique_new hm
    have hwf' := makeUnique_wf inv.wf hq hc rfl hm
    have hreflt : ∀ j, j < d.ndefs → ∀ c ∈ (d.defs j).children, c.ref < d.ndefs :=
      fun j hj => (inv.wf.2.1 j (by simpa using hj)).1
    let rank' : Nat → Nat := fun y => if y = d.ndefs then rank c.ref else rank y
    have hrk' : RankOk d' rank' := by
      intro j hj c' hc'
      rw [hn] at hj
      by_cases hjn : j = d.ndefs
      · subst hjn
        rw [hnew.2.2.2.1] at hc'
        have h1 := hreflt c.ref hxn c' hc'
        have h2 := inv.rankOk c.ref hxn c' hc'
        simp only [rank', if_true, show ¬ c'.ref = d.ndefs by omega, if_false]
        exact h2
      · have hj' : j < d.ndefs := by omega
        simp only [rank', hjn, if_false]
        by_cases hjq : j = q
        · subst hjq
          rw [makeUnique_children_q hm hqn] at hc'
          obtain ⟨c0, hc0, _, _, _, _, hr⟩ := mem_setChildRef hc'
          rcases hr with hr | ⟨hr, _⟩
          · have := hreflt j hj' c0 hc0
            rw [hr]; simp only [show ¬ c0.ref = d.ndefs by omega, if_false]
            exact inv.rankOk j hj' c0 hc0
          · rw [hr]; simp only [if_true]
            exact inv.rankOk j hj' c (List.mem_of_getElem? hc)
        · rw [makeUnique_children_other hm hjn hjq] at hc'
          have := hreflt j hj' c' hc'
          simp only [show ¬ c'.ref = d.ndefs by omega, if_false]
          exact inv.rankOk j hj' c' hc'
    have hwt := wt_makeUnique inv.wf hq hc hm
    -- weights of definitions, old and new
    have hW_old : ∀ y, y < d.ndefs → wt d' (rank' y) y = wt d (rank y) y := by
      intro y hy
      simp only [rank', Nat.ne_of_lt hy, if_false]
      exact (hwt (rank y)).1 y hy
    have hW_new : wt d' (rank' d.ndefs) d.ndefs = wt d (rank c.ref) c.ref := by
      simp only [rank', if_true]
      exact (hwt (rank c.ref)).2
    -- weights of the queue entries that stay
    have hentry : ∀ a, a.1 < d.ndefs → entryWt d' rank' a = entryWt d rank a := by
      intro a ha
      simp only [entryWt]
      by_cases haq : a.1 = q
      · rw [haq, makeUnique_children_q hm hqn, setChildRef_getElem?]
        cases hci : (d.defs q).children[a.2]? with
        | none => simp
        | some c0 =>
          simp only [Option.map_some, Option.getD_some]
          by_cases hka : k = a.2
          · subst hka
            rw [hc] at hci; cases hci
            simp only [if_true]
            exact hW_new
          · simp only [hka, if_false]
            exact hW_old _ (hreflt q hq c0 (List.mem_of_getElem? hci))
      · rw [makeUnique_children_other hm (Nat.ne_of_lt ha) haq]
        cases hci : (d.defs a.1).children[a.2]? with
        | none => rfl
        | some c0 =>
          simp only [Option.map_some, Option.getD_some]
          exact hW_old _ (hreflt a.1 ha c0 (List.mem_of_getElem? hci))
    have hrestWt : queueWt d' rank' rest = queueWt d rank rest := by
      simp only [queueWt]
      exact sum_map_congr (fun a ha => hentry a (hrest a ha))
    refine ⟨rank', ⟨hwf', hrk', ?_⟩, ?_⟩
    · intro a ha
      rw [hn]
      rcases List.mem_append.mp ha with ha | ha
      · have := hrest a ha; omega
      · rw [(mem_childAddrs.mp ha).1]; omega
    · rw [hsplit, hrestWt]
      have := queueWt_childAddrs hwf' hrk' (x := d.ndefs) (by rw [hn]; omega)
      rw [hW_new] at this
      simp only [queueWt, List.map_cons, List.sum_cons] at this ⊢
      simp only [entryWt, hc, Option.map_some, Option.getD_some]
      omega

theorem uLoop_finishes (fuel : Nat) : ∀ (s : UState) (rank : Nat → Nat), TInv s.d s.queue rank →
    queueWt s.d rank s.queue ≤ fuel → (uLoop fuel s).queue = [] := by
  induction fuel with
  | zero =>
    intro s rank inv h
    exact queueWt_zero (Nat.le_zero.mp h)
  | succ f ih =>
    intro s rank inv h
    unfold uLoop
    split
    · rename_i hq; exact hq
    · rename_i q k rest hqueue
      split
      · rfl
      · rename_i d' push hstep
        rw [hqueue] at inv h
        obtain ⟨rank', inv', hw⟩ := inv.step hstep
        exact ih _ rank' inv' (by simp only; omega)

/-- the walk terminates: with fuel at least the number of instance occurrences below the top
    instance (`wt … top - 1`) the queue runs empty -/
theorem uniquify_finished {d : Design} (hwf : WF d) {rank : Nat → Nat} (hr : RankOk d rank) {fuel : Nat}
    (hf : wt d (rank d.top) d.top ≤ fuel + 1) : (uniquify fuel d).finished = true := by
  have inv : TInv (uInit d).d (uInit d).queue rank :=
    ⟨hwf, hr, fun a ha => by rw [(mem_childAddrs.mp ha).1]; exact hwf.1⟩
  have hw := queueWt_childAddrs hwf hr hwf.1
  have := uLoop_finishes fuel (uInit d) rank inv (by
    show queueWt d rank (childAddrs d.top (d.defs d.top)) ≤ fuel
    omega)
  simp [uniquify, this]

end Spydr.Xform
