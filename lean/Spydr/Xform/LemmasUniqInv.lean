/-
  The loop invariant of the uniquify walk and its consequences:
  well-formedness is preserved and, when the queue runs empty, every non-leaf instance below the
  top instance is the only instance of its definition.

  `Done` is the set of definitions the walk has settled (the top definition and the final reference
  of every processed instance): a settled non-leaf definition (other than top) has exactly one
  instance and that instance sits in a settled definition; consequently a settled definition is
  never copied again, and copying an unsettled one does not touch the reference sets of settled ones.
-/
import Spydr.Xform.LemmasUniqCount

namespace Spydr.Xform

theorem mem_childAddrs {a : Nat × Nat} {q : Nat} {D : Defn} :
    a ∈ childAddrs q D ↔ a.1 = q ∧ a.2 < D.children.length := by
  simp only [childAddrs, List.mem_map, List.mem_range]
  constructor
  · rintro ⟨k, hk, rfl⟩; exact ⟨rfl, hk⟩
  · rintro ⟨h1, h2⟩; exact ⟨a.2, h2, by cases a; simp_all⟩

structure UInv (d : Design) (queue : List (Nat × Nat)) (Done : Nat → Prop) (rank : Nat → Nat) : Prop where
  wf : WF d
  acyc : ∀ q, q < d.ndefs → ∀ c ∈ (d.defs q).children, rank c.ref < rank q
  doneLt : ∀ x, Done x → x < d.ndefs
  top : Done d.top
  rankTop : ∀ x, Done x → x ≠ d.top → rank x < rank d.top
  queueOk : ∀ a ∈ queue, Done a.1
  closed : ∀ x, Done x → ∀ k c, (d.defs x).children[k]? = some c →
      (x, k) ∈ queue ∨ (Done c.ref ∧ ((d.defs c.ref).isLeaf = true ∨ d.refCount c.ref = 1))
  uniq : ∀ y, Done y → y ≠ d.top → (d.defs y).isLeaf = false →
      d.refCount y = 1 ∧ ∃ q, Done q ∧ 1 ≤ (d.defs q).refsTo y

theorem UInv.init {d : Design} (hwf : WF d) {rank : Nat → Nat}
    (hr : ∀ q, q < d.ndefs → ∀ c ∈ (d.defs q).children, rank c.ref < rank q) :
    UInv d (childAddrs d.top (d.defs d.top)) (· = d.top) rank where
  wf := hwf
  acyc := hr
  doneLt := by intro x hx; subst hx; exact hwf.1
  top := rfl
  rankTop := by intro x hx hne; exact absurd hx hne
  queueOk := by intro a ha; exact (mem_childAddrs.mp ha).1
  closed := by
    intro x hx k c hc
    subst hx
    left
    exact mem_childAddrs.mpr ⟨rfl, (List.getElem?_eq_some_iff.mp hc).1⟩
  uniq := by intro y hy hne; exact absurd hy hne

/-- everything reachable is settled once the queue is empty -/
theorem UInv.reach_done {d : Design} {Done : Nat → Prop} {rank : Nat → Nat} (inv : UInv d [] Done rank) :
    ∀ q, Reach d q → Done q := by
  intro q hq
  induction hq with
  | top => exact inv.top
  | step _ hc ih =>
    obtain ⟨k, hk⟩ := List.getElem?_of_mem hc
    rcases inv.closed _ ih k _ hk with h | h
    · simp at h
    · exact h.1

theorem UInv.unique {d : Design} {Done : Nat → Prop} {rank : Nat → Nat} (inv : UInv d [] Done rank) :
    Unique d := by
  intro q c hq hc
  have hd := inv.reach_done q hq
  obtain ⟨k, hk⟩ := List.getElem?_of_mem hc
  rcases inv.closed _ hd k _ hk with h | h
  · simp at h
  · exact h.2

/-- a settled definition is not above the top definition in rank -/
theorem UInv.rank_le {d : Design} {queue Done rank} (inv : UInv d queue Done rank) {x : Nat} (hx : Done x) :
    rank x ≤ rank d.top := by
  by_cases h : x = d.top
  · subst h; exact Nat.le_refl _
  · exact Nat.le_of_lt (inv.rankTop x hx h)

theorem UInv.child_ne_top {d : Design} {queue Done rank} (inv : UInv d queue Done rank) {y : Nat} (hy : Done y)
    {c : Inst} (hc : c ∈ (d.defs y).children) : c.ref ≠ d.top := by
  intro e
  have h1 := inv.acyc y (inv.doneLt y hy) c hc
  have h2 := inv.rank_le hy
  rw [e] at h1
  omega

/-- the step when the head of the queue does not address a child (never happens; keeps the model total) -/
theorem UInv.step_none {d : Design} {q k : Nat} {rest : List (Nat × Nat)} {Done rank}
    (inv : UInv d ((q, k) :: rest) Done rank) (hnone : (d.defs q).children[k]? = none) :
    UInv d rest Done rank :=
  { inv with
    queueOk := fun a ha => inv.queueOk a (List.mem_cons_of_mem _ ha)
    closed := by
      intro x hx k' c hc
      rcases inv.closed x hx k' c hc with h | h
      · rcases List.mem_cons.mp h with h | h
        · cases h; rw [hnone] at hc; cases hc
        · exact Or.inl h
      · exact Or.inr h }

/-- the step for an instance that is already unique -/
theorem UInv.step_keep {d : Design} {q k : Nat} {rest : List (Nat × Nat)} {Done rank}
    (inv : UInv d ((q, k) :: rest) Done rank) {c : Inst} (hc : (d.defs q).children[k]? = some c)
    (hu : d.refCount c.ref = 1 ∨ (d.defs c.ref).isLeaf = true) :
    UInv d (rest ++ childAddrs c.ref (d.defs c.ref)) (fun y => Done y ∨ y = c.ref) rank := by
  have hqd : Done q := inv.queueOk (q, k) (List.mem_cons_self)
  have hq : q < d.ndefs := inv.doneLt q hqd
  have hcm : c ∈ (d.defs q).children := List.mem_of_getElem? hc
  have hxn : c.ref < d.ndefs := (inv.wf.2.1 q (by simpa using hq)).1 c hcm
  have hrk : rank c.ref < rank q := inv.acyc q hq c hcm
  have hqle := inv.rank_le hqd
  refine { wf := inv.wf, acyc := inv.acyc, doneLt := ?_, top := Or.inl inv.top, rankTop := ?_, queueOk := ?_,
           closed := ?_, uniq := ?_ }
  · rintro x (hx | rfl)
    · exact inv.doneLt x hx
    · exact hxn
  · rintro x (hx | rfl) hne
    · exact inv.rankTop x hx hne
    · omega
  · intro a ha
    rcases List.mem_append.mp ha with ha | ha
    · exact Or.inl (inv.queueOk a (List.mem_cons_of_mem _ ha))
    · exact Or.inr (mem_childAddrs.mp ha).1
  · intro y hy k' c' hc'
    by_cases hyx : y = c.ref
    · left
      apply List.mem_append_right
      exact mem_childAddrs.mpr ⟨hyx, by rw [← hyx]; exact (List.getElem?_eq_some_iff.mp hc').1⟩
    · have hyd : Done y := by rcases hy with h | h; exact h; exact absurd h hyx
      rcases inv.closed y hyd k' c' hc' with h | h
      · rcases List.mem_cons.mp h with h | h
        · cases h
          rw [hc] at hc'; cases hc'
          right
          exact ⟨Or.inr rfl, hu.symm⟩
        · exact Or.inl (List.mem_append_left _ h)
      · exact Or.inr ⟨Or.inl h.1, h.2⟩
  · intro y hy hne hleaf
    rcases hy with hy | rfl
    · obtain ⟨h1, q', hq', h2⟩ := inv.uniq y hy hne hleaf
      exact ⟨h1, q', Or.inl hq', h2⟩
    · rcases hu with hu | hu
      · exact ⟨hu, q, Or.inl hqd, refsTo_pos hcm rfl⟩
      · rw [hu] at hleaf; cases hleaf

/-- the step that copies the (shared, non-leaf) reference `x` of child `k` of `q` -/
theorem UInv.step_clone {d d' : Design} {q k : Nat} {rest : List (Nat × Nat)} {Done rank}
    (inv : UInv d ((q, k) :: rest) Done rank) {c : Inst} (hc : (d.defs q).children[k]? = some c)
    (hcnt : d.refCount c.ref ≠ 1) (hleaf : (d.defs c.ref).isLeaf = false)
    (h : makeUnique d q k c.ref = some d') :
    UInv d' (rest ++ childAddrs d.ndefs (d'.defs d.ndefs)) (fun y => Done y ∨ y = d.ndefs)
      (fun y => if y = d.ndefs then rank c.ref else rank y) := by
  have hqd : Done q := inv.queueOk (q, k) (List.mem_cons_self)
  have hq : q < d.ndefs := inv.doneLt q hqd
  have hqn : q ≠ d.ndefs := Nat.ne_of_lt hq
  have hcm : c ∈ (d.defs q).children := List.mem_of_getElem? hc
  have hwfd := inv.wf.2.1
  have hreflt : ∀ j, j < d.ndefs → ∀ c ∈ (d.defs j).children, c.ref < d.ndefs :=
    fun j hj => (hwfd j (by simpa using hj)).1
  have hxn : c.ref < d.ndefs := hreflt q hq c hcm
  have hrk : rank c.ref < rank q := inv.acyc q hq c hcm
  have hqle := inv.rank_le hqd
  have hxtop : c.ref ≠ d.top := inv.child_ne_top hqd hcm
  have hxnd : ¬ Done c.ref := fun hd => hcnt (inv.uniq _ hd hxtop hleaf).1
  obtain ⟨D', cc, hcl, hn, hdefs, hord, htop, hextra, hctr⟩ := makeUnique_some h
  have hnew := makeUnique_new h
  have hwf' : WF d' := makeUnique_wf inv.wf hq hc rfl h
  have hleaf' : ∀ j, j < d.ndefs → (d'.defs j).isLeaf = (d.defs j).isLeaf :=
    fun j hj => (makeUnique_ports_old h (Nat.ne_of_lt hj)).2.2.2.2
  -- reference sets of settled definitions do not change
  have hcount : ∀ z, Done z → z ≠ d.top → (d.defs z).isLeaf = false → d'.refCount z = 1 := by
    intro z hz hzt hzl
    obtain ⟨h1, qz, hqz, h2⟩ := inv.uniq z hz hzt hzl
    have hzn := inv.doneLt z hz
    have hqzn := inv.doneLt qz hqz
    have hne : qz ≠ c.ref := fun e => hxnd (e ▸ hqz)
    have hxz : c.ref ≠ z := fun e => hxnd (e ▸ hz)
    have e := makeUnique_refCount_old inv.wf hq hc rfl h hzn
    have hsum := sum_range_ge2 (fun j => (d.defs j).refsTo z) d.ndefs qz c.ref hqzn hxn hne
    have hrc : d.refCount z = d.extra z + ((List.range d.ndefs).map (fun j => (d.defs j).refsTo z)).sum := rfl
    simp only [hxz, if_false] at e
    omega
  have hT : ∀ z, Done z → z ≠ d.top → ((d.defs z).isLeaf = true ∨ d.refCount z = 1) →
      ((d'.defs z).isLeaf = true ∨ d'.refCount z = 1) := by
    intro z hz hzt hu
    rw [hleaf' z (inv.doneLt z hz)]
    cases hl : (d.defs z).isLeaf with
    | true => exact Or.inl rfl
    | false => exact Or.inr (hcount z hz hzt hl)
  refine { wf := hwf', acyc := ?_, doneLt := ?_, top := ?_, rankTop := ?_, queueOk := ?_, closed := ?_, uniq := ?_ }
  · -- acyclic with the copy ranked like its original
    intro j hj c' hc'
    rw [hn] at hj
    by_cases hjn : j = d.ndefs
    · subst hjn
      rw [hnew.2.2.2.1] at hc'
      have := hreflt c.ref hxn c' hc'
      have := inv.acyc c.ref hxn c' hc'
      simp only [if_true, show ¬ c'.ref = d.ndefs by omega, if_false]
      exact this
    · have hj' : j < d.ndefs := by omega
      simp only [hjn, if_false]
      by_cases hjq : j = q
      · subst hjq
        rw [makeUnique_children_q h hqn] at hc'
        obtain ⟨c0, hc0, _, _, _, _, hr⟩ := mem_setChildRef hc'
        rcases hr with hr | ⟨hr, _⟩
        · have := hreflt j hj' c0 hc0
          rw [hr]; simp only [show ¬ c0.ref = d.ndefs by omega, if_false]
          exact inv.acyc j hj' c0 hc0
        · rw [hr]; simp only [if_true]; exact hrk
      · rw [makeUnique_children_other h hjn hjq] at hc'
        have := hreflt j hj' c' hc'
        simp only [show ¬ c'.ref = d.ndefs by omega, if_false]
        exact inv.acyc j hj' c' hc'
  · rintro x (hx | rfl)
    · have := inv.doneLt x hx; omega
    · omega
  · rw [htop]; exact Or.inl inv.top
  · rw [htop]
    have htn : d.top ≠ d.ndefs := Nat.ne_of_lt inv.wf.1
    rintro x (hx | rfl) hne
    · have := inv.doneLt x hx
      simp only [show ¬ x = d.ndefs by omega, htn, if_false]
      exact inv.rankTop x hx hne
    · simp only [if_true, htn, if_false]; omega
  · intro a ha
    rcases List.mem_append.mp ha with ha | ha
    · exact Or.inl (inv.queueOk a (List.mem_cons_of_mem _ ha))
    · exact Or.inr (mem_childAddrs.mp ha).1
  · intro y hy k' c' hc'
    by_cases hyn : y = d.ndefs
    · left
      apply List.mem_append_right
      exact mem_childAddrs.mpr ⟨hyn, by rw [← hyn]; exact (List.getElem?_eq_some_iff.mp hc').1⟩
    · have hyd : Done y := by rcases hy with h | h; exact h; exact absurd h hyn
      have hyl := inv.doneLt y hyd
      by_cases hyq : y = q
      · subst hyq
        rw [makeUnique_children_q h hqn, setChildRef_getElem?] at hc'
        cases hc0 : (d.defs y).children[k']? with
        | none => simp [hc0] at hc'
        | some c0 =>
          simp only [hc0, Option.map_some, Option.some.injEq] at hc'
          by_cases hkk : k = k'
          · subst hkk
            simp only [if_true] at hc'
            subst hc'
            right
            exact ⟨Or.inr rfl, Or.inr (makeUnique_refCount_new inv.wf hq hc rfl h)⟩
          · simp only [hkk, if_false] at hc'
            subst hc'
            rcases inv.closed y hyd k' c0 hc0 with h0 | h0
            · rcases List.mem_cons.mp h0 with h0 | h0
              · cases h0; exact absurd rfl hkk
              · exact Or.inl (List.mem_append_left _ h0)
            · right
              have hne := inv.child_ne_top hyd (List.mem_of_getElem? hc0)
              exact ⟨Or.inl h0.1, hT _ h0.1 hne h0.2⟩
      · rw [makeUnique_children_other h hyn hyq] at hc'
        rcases inv.closed y hyd k' c' hc' with h0 | h0
        · rcases List.mem_cons.mp h0 with h0 | h0
          · cases h0; exact absurd rfl hyq
          · exact Or.inl (List.mem_append_left _ h0)
        · right
          have hne := inv.child_ne_top hyd (List.mem_of_getElem? hc')
          exact ⟨Or.inl h0.1, hT _ h0.1 hne h0.2⟩
  · rw [htop]
    intro y hy hne hyleaf
    rcases hy with hy | rfl
    · have hyl := inv.doneLt y hy
      rw [hleaf' y hyl] at hyleaf
      refine ⟨hcount y hy hne hyleaf, ?_⟩
      obtain ⟨_, qz, hqz, h2⟩ := inv.uniq y hy hne hyleaf
      refine ⟨qz, Or.inl hqz, ?_⟩
      have hqzn := inv.doneLt qz hqz
      by_cases hqq : qz = q
      · subst hqq
        rw [makeUnique_children_q h hqn]
        have := refsTo_setChildRef hc d.ndefs y
        have hxy : ¬ c.ref = y := fun e => hxnd (e ▸ hy)
        simp only [hxy, if_false, show ¬ d.ndefs = y by omega] at this
        omega
      · rw [makeUnique_children_other h (Nat.ne_of_lt hqzn) hqq]; exact h2
    · refine ⟨makeUnique_refCount_new inv.wf hq hc rfl h, q, Or.inl hqd, ?_⟩
      rw [makeUnique_children_q h hqn]
      have hk : (setChildRef (d.defs q) k d.ndefs).children[k]? = some { c with ref := d.ndefs } := by
        rw [setChildRef_getElem?, hc]; simp
      exact refsTo_pos (List.mem_of_getElem? hk) rfl

/-- one iteration of the loop keeps the invariant (for some settled set and rank) -/
theorem UInv.step {d d' : Design} {q k : Nat} {rest push : List (Nat × Nat)} {Done rank}
    (inv : UInv d ((q, k) :: rest) Done rank) (h : uStep d q k = some (d', push)) :
    ∃ Done' rank', UInv d' (rest ++ push) Done' rank' := by
  unfold uStep at h
  split at h
  · rename_i hnone
    cases h
    exact ⟨Done, rank, by simpa using inv.step_none hnone⟩
  · rename_i c hc
    split at h
    · rename_i hu
      cases h
      refine ⟨_, rank, inv.step_keep hc ?_⟩
      simpa using hu
    · rename_i hu
      split at h
      · cases h
      · rename_i d1 hm
        cases h
        simp only [Bool.or_eq_true, beq_iff_eq, not_or] at hu
        exact ⟨_, _, inv.step_clone hc hu.1 (by simpa using hu.2) hm⟩

/-- the whole loop -/
theorem uLoop_inv (fuel : Nat) : ∀ (s : UState) (Done : Nat → Prop) (rank : Nat → Nat),
    UInv s.d s.queue Done rank → (uLoop fuel s).ok = true →
    ∃ Done' rank', UInv (uLoop fuel s).d (uLoop fuel s).queue Done' rank' := by
  induction fuel with
  | zero => intro s Done rank inv _; exact ⟨Done, rank, inv⟩
  | succ f ih =>
    intro s Done rank inv hok
    unfold uLoop at hok ⊢
    split
    · exact ⟨Done, rank, inv⟩
    · rename_i q k rest hqueue
      split
      · rename_i hnone
        simp only [hqueue, hnone] at hok
        cases hok
      · rename_i d' push hstep
        simp only [hqueue, hstep] at hok
        rw [hqueue] at inv
        obtain ⟨Done', rank', inv'⟩ := inv.step hstep
        exact ih _ Done' rank' inv' hok

end Spydr.Xform
