/-
  What a uniquify run does to the definition table and the library order (`Grows`):
  old definitions keep their name, library, ports, cables; every new definition is a renamed copy of
  an earlier one in the same library; the relative order of the old definitions is unchanged.
  Per step: the copy is inserted immediately behind its original.
-/
import Spydr.Xform.LemmasUniqRun

namespace Spydr.Xform

/-- the name of a copy: unnamed like its original, or `name ++ "_sdn_unique_" ++ k`, `lo ≤ k < hi` -/
def NameOfCopy (o c : Option String) (lo hi : Nat) : Prop :=
  (o = none ∧ c = none) ∨ ∃ nm k, o = some nm ∧ c = some (nm ++ uniqSuffix k) ∧ lo ≤ k ∧ k < hi

structure Grows (d d' : Design) : Prop where
  ndefs : d.ndefs ≤ d'.ndefs
  ctr : d.ctr ≤ d'.ctr
  top : d'.top = d.top
  old : ∀ i, i < d.ndefs → (d'.defs i).name = (d.defs i).name ∧ (d'.defs i).lib = (d.defs i).lib ∧
      (d'.defs i).ports = (d.defs i).ports ∧ (d'.defs i).cables = (d.defs i).cables ∧
      (d'.defs i).children.map (·.id) = (d.defs i).children.map (·.id)
  new : ∀ n, d.ndefs ≤ n → n < d'.ndefs → ∃ x, x < n ∧ (d'.defs n).lib = (d'.defs x).lib ∧
      (d'.defs n).ports = (d'.defs x).ports ∧ (d'.defs n).cables = (d'.defs x).cables ∧
      NameOfCopy (d'.defs x).name (d'.defs n).name d.ctr d'.ctr
  order : d'.order.map (List.filter (· < d.ndefs)) = d.order

theorem filter_lt_of_all {l : List Nat} {n : Nat} (h : ∀ i ∈ l, i < n) : l.filter (· < n) = l := by
  rw [List.filter_eq_self]; intro a ha; simpa using h a ha

theorem filter_filter_lt {a b : Nat} (h : a ≤ b) (l : List Nat) :
    (l.filter (· < b)).filter (· < a) = l.filter (· < a) := by
  simp only [List.filter_filter]
  apply List.filter_congr
  intro x _
  by_cases hx : x < a
  · have : x < b := by omega
    simp [hx, this]
  · simp [hx]

theorem Grows.refl {d : Design} (hord : ∀ i ∈ d.order.flatten, i < d.ndefs) : Grows d d where
  ndefs := Nat.le_refl _
  ctr := Nat.le_refl _
  top := rfl
  old := fun _ _ => ⟨rfl, rfl, rfl, rfl, rfl⟩
  new := fun n h1 h2 => by omega
  order := by
    conv => rhs; rw [← List.map_id d.order]
    apply List.map_congr_left
    intro l hl
    exact filter_lt_of_all (fun i hi => hord i (List.mem_flatten.mpr ⟨l, hl, hi⟩))

theorem NameOfCopy.mono {o c : Option String} {lo hi lo' hi' : Nat} (h : NameOfCopy o c lo hi)
    (h1 : lo' ≤ lo) (h2 : hi ≤ hi') : NameOfCopy o c lo' hi' := by
  rcases h with h | ⟨nm, k, a, b, c1, c2⟩
  · exact Or.inl h
  · exact Or.inr ⟨nm, k, a, b, by omega, by omega⟩

theorem Grows.trans {a b c : Design} (h1 : Grows a b) (h2 : Grows b c) : Grows a c where
  ndefs := Nat.le_trans h1.ndefs h2.ndefs
  ctr := Nat.le_trans h1.ctr h2.ctr
  top := h2.top.trans h1.top
  old := by
    intro i hi
    obtain ⟨p1, p2, p3, p4, p5⟩ := h1.old i hi
    obtain ⟨q1, q2, q3, q4, q5⟩ := h2.old i (Nat.lt_of_lt_of_le hi h1.ndefs)
    exact ⟨q1.trans p1, q2.trans p2, q3.trans p3, q4.trans p4, q5.trans p5⟩
  new := by
    intro n hn1 hn2
    by_cases hnb : n < b.ndefs
    · obtain ⟨x, hx, e1, e2, e3, e4⟩ := h1.new n hn1 hnb
      obtain ⟨q1, q2, q3, q4, _⟩ := h2.old n hnb
      obtain ⟨r1, r2, r3, r4, _⟩ := h2.old x (by omega)
      refine ⟨x, hx, by rw [q2, r2, e1], by rw [q3, r3, e2], by rw [q4, r4, e3], ?_⟩
      rw [q1, r1]
      exact e4.mono (Nat.le_refl _) h2.ctr
    · obtain ⟨x, hx, e1, e2, e3, e4⟩ := h2.new n (by omega) hn2
      exact ⟨x, hx, e1, e2, e3, e4.mono h1.ctr (Nat.le_refl _)⟩
  order := by
    have := congrArg (List.map (List.filter (· < a.ndefs))) h2.order
    rw [h1.order, List.map_map] at this
    rw [← this]
    apply List.map_congr_left
    intro l _
    simp only [Function.comp]
    exact (filter_filter_lt h1.ndefs l).symm

theorem filter_insertAfter_ge {x y n : Nat} (hy : n ≤ y) : ∀ l : List Nat,
    (insertAfter x y l).filter (· < n) = l.filter (· < n)
  | [] => rfl
  | a :: l => by
    simp only [insertAfter]
    split
    · have : ¬ y < n := by omega
      simp [List.filter_cons, this]
    · simp only [List.filter_cons, filter_insertAfter_ge hy l]

theorem makeUnique_grows {d d' : Design} {q k : Nat} {c : Inst} (hwf : WF d) (hq : q < d.ndefs)
    (hc : (d.defs q).children[k]? = some c) (h : makeUnique d q k c.ref = some d') : Grows d d' := by
  obtain ⟨D', cc, hcl, hn, hdefs, hord, htop, _, hctr⟩ := makeUnique_some h
  have hnew := makeUnique_new h
  have hxn : c.ref < d.ndefs := (hwf.2.1 q (by simpa using hq)).1 c (List.mem_of_getElem? hc)
  have hname := cloneDefn_name hcl
  have hD' : d'.defs d.ndefs = D' := by rw [hdefs]; simp
  have hctr' : d.ctr ≤ d'.ctr := by
    rw [hctr]
    rcases hname with ⟨_, _, h3⟩ | ⟨_, _, _, _, h3, h4, _⟩ <;> omega
  refine ⟨by omega, hctr', htop, ?_, ?_, ?_⟩
  · intro i hi
    have := makeUnique_ports_old h (Nat.ne_of_lt hi)
    refine ⟨this.2.2.1, this.2.1, this.1, this.2.2.2.1, ?_⟩
    by_cases hiq : i = q
    · subst hiq; rw [makeUnique_children_q h (Nat.ne_of_lt hq), setChildRef_map_id]
    · rw [makeUnique_children_other h (Nat.ne_of_lt hi) hiq]
  · intro n h1 h2
    have hnn : n = d.ndefs := by omega
    subst hnn
    have hold := makeUnique_ports_old h (Nat.ne_of_lt hxn)
    refine ⟨c.ref, hxn, by rw [hnew.2.1, hold.2.1], by rw [hnew.1, hold.1], by rw [hnew.2.2.1, hold.2.2.2.1], ?_⟩
    rw [hold.2.2.1, hD', hctr]
    rcases hname with ⟨a1, a2, _⟩ | ⟨nm, k', a1, a2, a3, a4, _⟩
    · exact Or.inl ⟨a1, a2⟩
    · exact Or.inr ⟨nm, k', a1, a2, a3, by omega⟩
  · rw [hord, List.map_map]
    conv => rhs; rw [← List.map_id d.order]
    apply List.map_congr_left
    intro l hl
    simp only [Function.comp, id]
    rw [filter_insertAfter_ge (Nat.le_refl _)]
    exact filter_lt_of_all (fun i hi => hwf.2.2.2.1 i (List.mem_flatten.mpr ⟨l, hl, hi⟩))

/-- the copy is inserted immediately behind its original, in the original's library;
    the other libraries are untouched -/
theorem makeUnique_position {d d' : Design} {q k : Nat} {c : Inst} (hwf : WF d) (hq : q < d.ndefs)
    (hc : (d.defs q).children[k]? = some c) (h : makeUnique d q k c.ref = some d') :
    ∃ l pre post, d.order[l]? = some (pre ++ c.ref :: post) ∧
      d'.order[l]? = some (pre ++ c.ref :: d.ndefs :: post) ∧ (d.defs c.ref).lib = l ∧
      (d'.defs d.ndefs).lib = l ∧ ∀ l', l' ≠ l → d'.order[l']? = d.order[l']? := by
  obtain ⟨D', cc, hcl, hn, hdefs, hord, htop, _, hctr⟩ := makeUnique_some h
  have hnew := makeUnique_new h
  have hxn : c.ref < d.ndefs := (hwf.2.1 q (by simpa using hq)).1 c (List.mem_of_getElem? hc)
  obtain ⟨o1, o2, o3, o4⟩ := hwf.2.2
  have hxf : c.ref ∈ d.order.flatten := o3 _ (by simpa using hxn)
  obtain ⟨lst, hlst, hxl⟩ := List.mem_flatten.mp hxf
  obtain ⟨l, hl⟩ := List.getElem?_of_mem hlst
  have hll : l < d.order.length := (List.getElem?_eq_some_iff.mp hl).1
  obtain ⟨pre, post, e1, _, e3⟩ := insertAfter_split (y := d.ndefs) hxl
  have hlib : (d.defs c.ref).lib = l := o4 l (by simpa using hll) _ (by simpa [List.getD, hl] using hxl)
  refine ⟨l, pre, post, by rw [hl, e1], by rw [hord, List.getElem?_map, hl, Option.map_some, e3], hlib,
    by rw [hnew.2.1, hlib], ?_⟩
  intro l' hne
  rw [hord, List.getElem?_map]
  cases hl' : d.order[l']? with
  | none => rfl
  | some lst' =>
    simp only [Option.map_some, Option.some.injEq]
    apply insertAfter_not_mem
    intro hx'
    -- `c.ref` would occur in two different libraries' lists
    have hll' : l' < d.order.length := (List.getElem?_eq_some_iff.mp hl').1
    have h1 := o4 l' (by simpa using hll') _ (by simpa [List.getD, hl'] using hx')
    exact hne (h1.symm.trans hlib)

end Spydr.Xform
