/-
  The bounded search for a free name never fails (`ok` is always true): the `ndefs + 1` candidate
  names `base_sdn_unique_k` are pairwise different (decimal rendering is injective) and a library has
  at most `ndefs` names.
-/
import Spydr.Xform.LemmasUniqRun

namespace Spydr.Xform

theorem nat_repr_inj {a b : Nat} (h : a.repr = b.repr) : a = b := by
  have := congrArg String.toList h
  simp only [Nat.toList_repr] at this
  have h2 := congrArg (fun l => Nat.ofDigitChars 10 l 0) this
  simpa using h2

theorem uniqSuffix_inj {base : String} {a b : Nat} (h : base ++ uniqSuffix a = base ++ uniqSuffix b) : a = b := by
  rw [String.append_right_inj] at h
  simp only [uniqSuffix, String.append_right_inj] at h
  exact nat_repr_inj h

theorem length_le_of_nodup_subset {α : Type} [DecidableEq α] : ∀ (l names : List α), l.Nodup → (∀ a ∈ l, a ∈ names) →
    l.length ≤ names.length
  | [], _, _, _ => by simp
  | a :: l, names, hnd, hsub => by
    simp only [List.nodup_cons] at hnd
    have ha : a ∈ names := hsub a List.mem_cons_self
    have ih := length_le_of_nodup_subset l (names.erase a) hnd.2 (by
      intro b hb
      have hba : b ≠ a := fun e => hnd.1 (e ▸ hb)
      exact (List.mem_erase_of_ne hba).mpr (hsub b (List.mem_cons_of_mem _ hb)))
    rw [List.length_erase_of_mem ha] at ih
    have : 0 < names.length := List.length_pos_of_mem ha
    simp only [List.length_cons]
    omega

theorem toLower_of_isDigit {c : Char} (h : c.isDigit = true) : c.toLower = c := by
  simp only [Char.isDigit, Bool.and_eq_true, decide_eq_true_eq] at h
  simp only [Char.toLower]
  split
  · rename_i hu
    exfalso
    have h1 : c.val.toNat ≤ '9'.val.toNat := UInt32.le_iff_toNat_le.mp h.2
    have h2 : 'A'.val.toNat ≤ c.val.toNat := UInt32.le_iff_toNat_le.mp hu.1
    have e1 : '9'.val.toNat = 57 := by decide
    have e2 : 'A'.val.toNat = 65 := by decide
    omega
  · rfl

theorem lowerStr_append (a b : String) : lowerStr (a ++ b) = lowerStr a ++ lowerStr b := by
  simp only [lowerStr, String.toList_append, List.map_append, String.ofList_append]

theorem map_toLower_digits (n : Nat) : (Nat.toDigits 10 n).map Char.toLower = Nat.toDigits 10 n := by
  conv => rhs; rw [← List.map_id (Nat.toDigits 10 n)]
  apply List.map_congr_left
  intro c hc
  exact toLower_of_isDigit (Nat.isDigit_of_mem_toDigits (by decide) (by decide) hc)

theorem lowerSuffix_inj {base : String} {a b : Nat}
    (h : lowerStr (base ++ uniqSuffix a) = lowerStr (base ++ uniqSuffix b)) : a = b := by
  rw [lowerStr_append, lowerStr_append, String.append_right_inj] at h
  simp only [uniqSuffix, lowerStr_append, String.append_right_inj] at h
  have h2 := congrArg String.toList h
  simp only [lowerStr, String.toList_ofList, Nat.toString_eq_repr, Nat.toList_repr, map_toLower_digits] at h2
  have h3 := congrArg (fun l => Nat.ofDigitChars 10 l 0) h2
  simpa using h3

/-- if the search fails, all `fuel` candidates are taken -/
theorem pickCtr_none {names eids : List String} {nm eid : Option String} : ∀ (fuel ctr : Nat),
    pickCtr names eids nm eid fuel ctr = none → ∀ k, ctr ≤ k → k < ctr + fuel → candTaken names eids nm eid k = true
  | 0, ctr, _, k, h1, h2 => by omega
  | fuel + 1, ctr, h, k, h1, h2 => by
    simp only [pickCtr] at h
    split at h
    · rename_i hc
      by_cases hk : k = ctr
      · subst hk; exact hc
      · exact pickCtr_none fuel (ctr + 1) h k (by omega) (by omega)
    · cases h

def nameHit (names : List String) (nm : Option String) (k : Nat) : Bool :=
  match nm with | some n => names.contains (n ++ uniqSuffix k) | none => false

def eidHit (eids : List String) (eid : Option String) (k : Nat) : Bool :=
  match eid with | some e => eids.contains (lowerStr (e ++ uniqSuffix k)) | none => false

theorem candTaken_eq (names eids : List String) (nm eid : Option String) (k : Nat) :
    candTaken names eids nm eid k = (nameHit names nm k || eidHit eids eid k) := rfl

theorem nameHit_mem {names : List String} {nm : Option String} {k : Nat} (h : nameHit names nm k = true) :
    nm.getD "" ++ uniqSuffix k ∈ names := by
  cases nm with
  | none => simp [nameHit] at h
  | some n => simpa [nameHit] using h

theorem eidHit_mem {eids : List String} {eid : Option String} {k : Nat} (h : eidHit eids eid k = true) :
    lowerStr (eid.getD "" ++ uniqSuffix k) ∈ eids := by
  cases eid with
  | none => simp [eidHit] at h
  | some e => simpa [eidHit] using h

theorem nodup_map_of_inj_on'' {α β : Type} {f : α → β} : ∀ {l : List α}, l.Nodup →
    (∀ a ∈ l, ∀ b ∈ l, f a = f b → a = b) → (l.map f).Nodup
  | [], _, _ => by simp
  | x :: l, hnd, hinj => by
    simp only [List.map_cons, List.nodup_cons] at hnd ⊢
    refine ⟨?_, nodup_map_of_inj_on'' hnd.2 (fun a ha b hb => hinj a (List.mem_cons_of_mem _ ha) b (List.mem_cons_of_mem _ hb))⟩
    intro hm
    obtain ⟨y, hy, hxy⟩ := List.mem_map.mp hm
    have := hinj y (List.mem_cons_of_mem _ hy) x List.mem_cons_self hxy
    subst this
    exact hnd.1 hy

theorem pickCtr_some {names eids : List String} {nm eid : Option String} {fuel ctr : Nat}
    (h : names.length + eids.length < fuel) : (pickCtr names eids nm eid fuel ctr).isSome = true := by
  cases hp : pickCtr names eids nm eid fuel ctr with
  | some k => rfl
  | none =>
    exfalso
    have hall := pickCtr_none fuel ctr hp
    let f : Nat → Bool × String := fun i =>
      if nameHit names nm (ctr + i) then (false, nm.getD "" ++ uniqSuffix (ctr + i))
      else (true, lowerStr (eid.getD "" ++ uniqSuffix (ctr + i)))
    let pool : List (Bool × String) := names.map (fun s => (false, s)) ++ eids.map (fun s => (true, s))
    have hnd : ((List.range fuel).map f).Nodup := by
      refine nodup_map_of_inj_on'' List.nodup_range ?_
      intro a _ b _ hab
      simp only [f] at hab
      by_cases ha : nameHit names nm (ctr + a) <;> by_cases hb : nameHit names nm (ctr + b)
      · simp only [ha, hb, if_true, Prod.mk.injEq, true_and] at hab
        have := uniqSuffix_inj hab; omega
      · simp [ha, hb] at hab
      · simp [ha, hb] at hab
      · simp only [ha, hb, Bool.false_eq_true, if_false, Prod.mk.injEq, true_and] at hab
        have := lowerSuffix_inj hab; omega
    have hsub : ∀ x ∈ (List.range fuel).map f, x ∈ pool := by
      intro x hx
      obtain ⟨i, hi, rfl⟩ := List.mem_map.mp hx
      have hi' := List.mem_range.mp hi
      have ht := hall (ctr + i) (by omega) (by omega)
      rw [candTaken_eq] at ht
      simp only [f, pool, List.mem_append, List.mem_map]
      by_cases hh : nameHit names nm (ctr + i)
      · simp only [hh, if_true]
        exact Or.inl ⟨_, nameHit_mem hh, rfl⟩
      · simp only [hh, Bool.false_eq_true, if_false]
        have hh' : nameHit names nm (ctr + i) = false := by simpa using hh
        rw [hh', Bool.false_or] at ht
        exact Or.inr ⟨_, eidHit_mem ht, rfl⟩
    have := length_le_of_nodup_subset _ pool hnd hsub
    simp only [pool, List.length_map, List.length_range, List.length_append] at this
    omega

theorem libNames_length (d : Design) (lib : Nat) : (d.libNames lib).length ≤ d.ndefs := by
  simp only [Design.libNames]
  have := List.length_filterMap_le (fun j => if (d.defs j).lib = lib then (d.defs j).name else none) (List.range d.ndefs)
  simpa using this

theorem libEids_length (d : Design) (lib : Nat) : (d.libEids lib).length ≤ d.ndefs := by
  simp only [Design.libEids]
  have := List.length_filterMap_le (fun j => if (d.defs j).lib = lib then (d.defs j).eid.map lowerStr else none) (List.range d.ndefs)
  simpa using this

theorem cloneDefn_isSome (d : Design) (D : Defn) : (cloneDefn d D).isSome = true := by
  unfold cloneDefn
  split
  · rfl
  · have := pickCtr_some (names := d.libNames D.lib) (eids := d.libEids D.lib) (nm := D.name) (eid := D.eid)
      (fuel := 2 * d.ndefs + 1) (ctr := d.ctr)
      (by have := libNames_length d D.lib; have := libEids_length d D.lib; omega)
    cases hp : pickCtr (d.libNames D.lib) (d.libEids D.lib) D.name D.eid (2 * d.ndefs + 1) d.ctr with
    | none => rw [hp] at this; cases this
    | some k => rfl

theorem uStep_isSome (d : Design) (q k : Nat) : (uStep d q k).isSome = true := by
  unfold uStep
  split
  · rfl
  · split
    · rfl
    · rename_i c _ _
      have := cloneDefn_isSome d (d.defs c.ref)
      unfold makeUnique
      cases hc : cloneDefn d (d.defs c.ref) with
      | none => rw [hc] at this; cases this
      | some r => rfl

/-- the walk never stops for want of a free name -/
theorem uLoop_ok (fuel : Nat) : ∀ s : UState, s.ok = true → (uLoop fuel s).ok = true := by
  induction fuel with
  | zero => intro s h; exact h
  | succ f ih =>
    intro s h
    unfold uLoop
    split
    · exact h
    · rename_i q k rest _
      have := uStep_isSome s.d q k
      cases hs : uStep s.d q k with
      | none => rw [hs] at this; cases this
      | some r =>
        obtain ⟨d', push⟩ := r
        exact ih _ h

theorem uniquify_ok (fuel : Nat) (d : Design) : (uniquify fuel d).ok = true :=
  uLoop_ok fuel (uInit d) rfl

end Spydr.Xform
