/-
  The bounded search for a free name never fails (`ok` is always true): the `ndefs + 1` candidate
  names `base_sdn_unique_k` are pairwise different (decimal rendering is injective) and a library has
  at most `ndefs` names.
-/
import Spydr.Xform.LemmasUniqRun

namespace Spydr.Xform

theorem nat_repr_inj {a b : Nat} (h : a.repr = b.repr) : a = b := by
  have := congrArg String.toList h
  simp only [Nat.toList_repr] at this
  have h2 := congrArg (fun l => Nat.ofDigitChars 10 l 0) this
  simpa using h2

theorem uniqSuffix_inj {base : String} {a b : Nat} (h : base ++ uniqSuffix a = base ++ uniqSuffix b) : a = b := by
  rw [String.append_right_inj] at h
  simp only [uniqSuffix, String.append_right_inj] at h
  exact nat_repr_inj h

theorem length_le_of_nodup_subset {α : Type} [DecidableEq α] : ∀ (l names : List α), l.Nodup → (∀ a ∈ l, a ∈ names) →
    l.length ≤ names.length
  | [], _, _, _ => by simp
  | a :: l, names, hnd, hsub => by
    simp only [List.nodup_cons] at hnd
    have ha : a ∈ names := hsub a List.mem_cons_self
    have ih := length_le_of_nodup_subset l (names.erase a) hnd.2 (by
      intro b hb
      have hba : b ≠ a := fun e => hnd.1 (e ▸ hb)
      exact (List.mem_erase_of_ne hba).mpr (hsub b (List.mem_cons_of_mem _ hb)))
    rw [List.length_erase_of_mem ha] at ih
    have : 0 < names.length := List.length_pos_of_mem ha
    simp only [List.length_cons]
    omega

/-- if the search fails, all `fuel` candidates are taken -/
theorem pickCtr_none {names : List String} {base : String} : ∀ (fuel ctr : Nat), pickCtr names base fuel ctr = none →
    ∀ k, ctr ≤ k → k < ctr + fuel → (base ++ uniqSuffix k) ∈ names
  | 0, ctr, _, k, h1, h2 => by omega
  | fuel + 1, ctr, h, k, h1, h2 => by
    simp only [pickCtr] at h
    split at h
    · rename_i hc
      by_cases hk : k = ctr
      · subst hk; simpa using hc
      · exact pickCtr_none fuel (ctr + 1) h k (by omega) (by omega)
    · cases h

theorem pickCtr_some {names : List String} {base : String} {fuel ctr : Nat} (h : names.length < fuel) :
    (pickCtr names base fuel ctr).isSome = true := by
  cases hp : pickCtr names base fuel ctr with
  | some k => rfl
  | none =>
    exfalso
    have hall := pickCtr_none fuel ctr hp
    let cand := (List.range fuel).map (fun i => base ++ uniqSuffix (ctr + i))
    have hnd : cand.Nodup := by
      refine nodup_map_of_inj_on' (List.nodup_range) ?_
      intro a _ b _ hab
      have := uniqSuffix_inj hab
      omega
    have hsub : ∀ a ∈ cand, a ∈ names := by
      intro a ha
      obtain ⟨i, hi, rfl⟩ := List.mem_map.mp ha
      exact hall (ctr + i) (by omega) (by have := List.mem_range.mp hi; omega)
    have := length_le_of_nodup_subset cand names hnd hsub
    simp only [cand, List.length_map, List.length_range] at this
    omega
where
  nodup_map_of_inj_on' {α β : Type} {f : α → β} : ∀ {l : List α}, l.Nodup →
      (∀ a ∈ l, ∀ b ∈ l, f a = f b → a = b) → (l.map f).Nodup
    | [], _, _ => by simp
    | x :: l, hnd, hinj => by
      simp only [List.map_cons, List.nodup_cons] at hnd ⊢
      refine ⟨?_, nodup_map_of_inj_on' hnd.2 (fun a ha b hb => hinj a (List.mem_cons_of_mem _ ha) b (List.mem_cons_of_mem _ hb))⟩
      intro hm
      obtain ⟨y, hy, hxy⟩ := List.mem_map.mp hm
      have := hinj y (List.mem_cons_of_mem _ hy) x List.mem_cons_self hxy
      subst this
      exact hnd.1 hy

theorem libNames_length (d : Design) (lib : Nat) : (d.libNames lib).length ≤ d.ndefs := by
  simp only [Design.libNames]
  have := List.length_filterMap_le (fun j => if (d.defs j).lib = lib then (d.defs j).name else none) (List.range d.ndefs)
  simpa using this

theorem cloneDefn_isSome (d : Design) (D : Defn) : (cloneDefn d D).isSome = true := by
  unfold cloneDefn
  split
  · rfl
  · rename_i n _
    have := pickCtr_some (names := d.libNames D.lib) (base := n) (fuel := d.ndefs + 1) (ctr := d.ctr)
      (by have := libNames_length d D.lib; omega)
    cases hp : pickCtr (d.libNames D.lib) n (d.ndefs + 1) d.ctr with
    | none => rw [hp] at this; cases this
    | some k => rfl

theorem uStep_isSome (d : Design) (q k : Nat) : (uStep d q k).isSome = true := by
  unfold uStep
  split
  · rfl
  · split
    · rfl
    · rename_i c _ _
      have := cloneDefn_isSome d (d.defs c.ref)
      unfold makeUnique
      cases hc : cloneDefn d (d.defs c.ref) with
      | none => rw [hc] at this; cases this
      | some r => rfl

/-- the walk never stops for want of a free name -/
theorem uLoop_ok (fuel : Nat) : ∀ s : UState, s.ok = true → (uLoop fuel s).ok = true := by
  induction fuel with
  | zero => intro s h; exact h
  | succ f ih =>
    intro s h
    unfold uLoop
    split
    · exact h
    · rename_i q k rest _
      have := uStep_isSome s.d q k
      cases hs : uStep s.d q k with
      | none => rw [hs] at this; cases this
      | some r =>
        obtain ⟨d', push⟩ := r
        exact ih _ h

theorem uniquify_ok (fuel : Nat) (d : Design) : (uniquify fuel d).ok = true :=
  uLoop_ok fuel (uInit d) rfl

end Spydr.Xform
