/-
  Whole-run form of "new definitions sit right behind their original": in the final library order
  every new definition `n` is preceded — in the same library list — by the definition `x` it is a copy
  of, with only definitions newer than `n` in between (later copies of `x`, or copies of those).
-/
import Spydr.Xform.LemmasUniqNames

namespace Spydr.Xform

theorem insertAfter_append (y z : Nat) : ∀ (A B : List Nat),
    insertAfter y z (A ++ B) = if y ∈ A then insertAfter y z A ++ B else A ++ insertAfter y z B
  | [], B => by simp
  | a :: A, B => by
    simp only [List.cons_append, insertAfter]
    by_cases ha : a = y
    · subst ha; simp
    · have ih := insertAfter_append y z A B
      simp only [ha, if_false, ih]
      by_cases hy : y ∈ A
      · have : y ∈ a :: A := List.mem_cons_of_mem _ hy
        simp [hy, this]
      · have : y ∉ a :: A := by
          intro h
          rcases List.mem_cons.mp h with h | h
          · exact ha h.symm
          · exact hy h
        simp [hy, this]

/-- inserting behind `y` keeps a decomposition `pre ++ x :: mid ++ n :: post`; only `z` can be added
    to the middle part -/
theorem insertAfter_decomp (y z x n : Nat) (pre mid post : List Nat) :
    ∃ pre' mid' post', insertAfter y z (pre ++ x :: (mid ++ n :: post)) = pre' ++ x :: (mid' ++ n :: post') ∧
      ∀ m ∈ mid', m ∈ mid ∨ m = z := by
  rw [insertAfter_append]
  by_cases h1 : y ∈ pre
  · simp only [h1, if_true]
    exact ⟨insertAfter y z pre, mid, post, rfl, fun m hm => Or.inl hm⟩
  · simp only [h1, if_false, insertAfter]
    by_cases h2 : x = y
    · simp only [h2, if_true]
      exact ⟨pre, z :: mid, post, by simp, fun m hm => by
        rcases List.mem_cons.mp hm with h | h
        · exact Or.inr h
        · exact Or.inl h⟩
    · simp only [h2, if_false]
      rw [insertAfter_append]
      by_cases h3 : y ∈ mid
      · simp only [h3, if_true]
        refine ⟨pre, insertAfter y z mid, post, rfl, ?_⟩
        intro m hm
        rcases mem_insertAfter.mp hm with h | ⟨h, _⟩
        · exact Or.inl h
        · exact Or.inr h
      · simp only [h3, if_false, insertAfter]
        by_cases h4 : n = y
        · simp only [h4, if_true]
          exact ⟨pre, mid, z :: post, rfl, fun m hm => Or.inl hm⟩
        · simp only [h4, if_false]
          exact ⟨pre, mid, insertAfter y z post, rfl, fun m hm => Or.inl hm⟩

/-- every definition with index at least `n0` sits behind the definition it copies -/
def Behind (n0 : Nat) (d : Design) : Prop :=
  ∀ n, n0 ≤ n → n < d.ndefs → ∃ (x l : Nat) (pre mid post : List Nat), x < n ∧ d.order[l]? = some (pre ++ x :: (mid ++ n :: post)) ∧
    (∀ m ∈ mid, n < m) ∧ (d.defs n).lib = (d.defs x).lib ∧ (d.defs n).ports = (d.defs x).ports ∧
    (d.defs n).cables = (d.defs x).cables ∧ NameOfCopy (d.defs x).name (d.defs n).name 0 d.ctr

theorem behind_refl (d : Design) : Behind d.ndefs d := by
  intro n h1 h2; omega

theorem makeUnique_behind {d d' : Design} {q k : Nat} {c : Inst} {n0 : Nat} (hwf : WF d) (hq : q < d.ndefs)
    (hc : (d.defs q).children[k]? = some c) (h : makeUnique d q k c.ref = some d') (_hn0 : n0 ≤ d.ndefs)
    (hb : Behind n0 d) : Behind n0 d' := by
  obtain ⟨D', cc, hcl, hn, hdefs, hord, htop, _, hctr⟩ := makeUnique_some h
  have hnew := makeUnique_new h
  have hxn : c.ref < d.ndefs := (hwf.2.1 q (by simpa using hq)).1 c (List.mem_of_getElem? hc)
  have hold := fun j (hj : j < d.ndefs) => makeUnique_ports_old h (Nat.ne_of_lt hj)
  have hname := cloneDefn_name hcl
  have hD' : d'.defs d.ndefs = D' := by rw [hdefs]; simp
  have hctr' : d.ctr ≤ d'.ctr := by
    rw [hctr]
    rcases hname with ⟨_, _, h3⟩ | ⟨_, _, _, _, h3, h4, _⟩ <;> omega
  intro n h1 h2
  rw [hn] at h2
  by_cases hnn : n = d.ndefs
  · subst hnn
    obtain ⟨l, pre, post, _, e2, _, _, _⟩ := makeUnique_position hwf hq hc h
    have ho := hold c.ref hxn
    refine ⟨c.ref, l, pre, [], post, hxn, by simpa using e2, by simp, by rw [hnew.2.1, ho.2.1],
      by rw [hnew.1, ho.1], by rw [hnew.2.2.1, ho.2.2.2.1], ?_⟩
    rw [ho.2.2.1, hD', hctr]
    rcases hname with ⟨a1, a2, _⟩ | ⟨nm, k', a1, a2, a3, a4, _⟩
    · exact Or.inl ⟨a1, a2⟩
    · exact Or.inr ⟨nm, k', a1, a2, by omega, by omega⟩
  · have hnlt : n < d.ndefs := by omega
    obtain ⟨x, l, pre, mid, post, hx, hl, hmid, e1, e2, e3, e4⟩ := hb n h1 hnlt
    have hon := hold n hnlt
    have hox := hold x (by omega)
    obtain ⟨pre', mid', post', hdec, hmid'⟩ := insertAfter_decomp c.ref d.ndefs x n pre mid post
    refine ⟨x, l, pre', mid', post', hx, ?_, ?_, by rw [hon.2.1, hox.2.1, e1], by rw [hon.1, hox.1, e2],
      by rw [hon.2.2.2.1, hox.2.2.2.1, e3], ?_⟩
    · rw [hord, List.getElem?_map, hl, Option.map_some, hdec]
    · intro m hm
      rcases hmid' m hm with h' | h'
      · exact hmid m h'
      · omega
    · rw [hon.2.2.1, hox.2.2.1]
      exact e4.mono (Nat.le_refl _) hctr'

end Spydr.Xform
