/-
  Whole-run lemmas of the uniquify model: generic loop induction, well-formedness, elaboration,
  names, fixpoint on already unique designs.
-/
import Spydr.Xform.LemmasUniqInv
import Spydr.Xform.LemmasElab

namespace Spydr.Xform

/-! ### generic induction over the loop -/

theorem uLoop_induct (P : Design → List (Nat × Nat) → Prop)
    (hstep : ∀ d q k rest d' push, P d ((q, k) :: rest) → uStep d q k = some (d', push) → P d' (rest ++ push))
    (fuel : Nat) : ∀ s : UState, P s.d s.queue → (uLoop fuel s).ok = true →
      P (uLoop fuel s).d (uLoop fuel s).queue := by
  induction fuel with
  | zero => intro s h _; exact h
  | succ f ih =>
    intro s h hok
    unfold uLoop at hok ⊢
    split
    · exact h
    · rename_i q k rest hqueue
      split
      · rename_i hnone
        simp only [hqueue, hnone] at hok
        cases hok
      · rename_i d' push hstep'
        simp only [hqueue, hstep'] at hok
        rw [hqueue] at h
        exact ih _ (hstep _ _ _ _ _ _ h hstep') hok

/-- case analysis of one iteration -/
theorem uStep_cases {d d' : Design} {q k : Nat} {push : List (Nat × Nat)} (h : uStep d q k = some (d', push)) :
    (d' = d ∧ (d.defs q).children[k]? = none ∧ push = []) ∨
    (∃ c, (d.defs q).children[k]? = some c ∧
      ((d' = d ∧ (d.refCount c.ref = 1 ∨ (d.defs c.ref).isLeaf = true) ∧ push = childAddrs c.ref (d.defs c.ref)) ∨
       (d.refCount c.ref ≠ 1 ∧ (d.defs c.ref).isLeaf = false ∧ makeUnique d q k c.ref = some d' ∧
         push = childAddrs d.ndefs (d'.defs d.ndefs)))) := by
  unfold uStep at h
  split at h
  · rename_i hnone; cases h; exact Or.inl ⟨rfl, hnone, rfl⟩
  · rename_i c hc
    right
    refine ⟨c, hc, ?_⟩
    split at h
    · rename_i hu; cases h; left; exact ⟨rfl, by simpa using hu, rfl⟩
    · rename_i hu
      split at h
      · cases h
      · rename_i d1 hm; cases h
        simp only [Bool.or_eq_true, beq_iff_eq, not_or] at hu
        exact Or.inr ⟨hu.1, by simpa using hu.2, hm, rfl⟩

/-! ### well-formedness (no acyclicity needed) -/

def WFQ (d : Design) (queue : List (Nat × Nat)) : Prop := WF d ∧ ∀ a ∈ queue, a.1 < d.ndefs

theorem WFQ.step {d d' : Design} {q k : Nat} {rest push : List (Nat × Nat)}
    (inv : WFQ d ((q, k) :: rest)) (h : uStep d q k = some (d', push)) : WFQ d' (rest ++ push) := by
  obtain ⟨hwf, hqs⟩ := inv
  have hq : q < d.ndefs := hqs (q, k) List.mem_cons_self
  have hrest : ∀ a ∈ rest, a.1 < d.ndefs := fun a ha => hqs a (List.mem_cons_of_mem _ ha)
  rcases uStep_cases h with ⟨rfl, _, rfl⟩ | ⟨c, hc, ⟨rfl, _, rfl⟩ | ⟨_, _, hm, rfl⟩⟩
  · exact ⟨hwf, by simpa using hrest⟩
  · refine ⟨hwf, ?_⟩
    intro a ha
    rcases List.mem_append.mp ha with ha | ha
    · exact hrest a ha
    · rw [(mem_childAddrs.mp ha).1]
      exact (hwf.2.1 q (by simpa using hq)).1 c (List.mem_of_getElem? hc)
  · have hn := (makeUnique_some hm).choose_spec.choose_spec.2.1
    refine ⟨makeUnique_wf hwf hq hc rfl hm, ?_⟩
    intro a ha
    rw [hn]
    rcases List.mem_append.mp ha with ha | ha
    · have := hrest a ha; omega
    · rw [(mem_childAddrs.mp ha).1]; omega

theorem WFQ.init {d : Design} (hwf : WF d) : WFQ d (uInit d).queue :=
  ⟨hwf, fun a ha => by rw [(mem_childAddrs.mp ha).1]; exact hwf.1⟩

/-! ### the elaboration is untouched by one step -/

theorem find?_modify_nodup {α : Type} (key : α → Nat) (f : α → α) (hf : ∀ a, key (f a) = key a) (iid : Nat) :
    ∀ (l : List α) (k : Nat) (ck : α), (l.map key).Nodup → l[k]? = some ck →
      (l.modify k f).find? (fun c => key c == iid) =
        (l.find? (fun c => key c == iid)).map (fun c => if key c = key ck then f c else c)
  | [], k, ck, _, h => by simp at h
  | a :: l, 0, ck, hnd, h => by
    simp at h; subst h
    simp only [List.modify_zero_cons, List.find?_cons, hf]
    cases hp : key a == iid with
    | true => simp
    | false =>
      simp only
      have hal : key a ∉ l.map key := (List.nodup_cons.mp (by simpa using hnd)).1
      cases hfd : l.find? (fun c => key c == iid) with
      | none => rfl
      | some c =>
        have hcm : c ∈ l := List.mem_of_find?_eq_some hfd
        have : key c ≠ key a := fun e => hal (e ▸ List.mem_map_of_mem hcm)
        simp [this]
  | a :: l, k + 1, ck, hnd, h => by
    simp at h
    have hnd' : (l.map key).Nodup := (List.nodup_cons.mp (by simpa using hnd)).2
    have hal : key a ∉ l.map key := (List.nodup_cons.mp (by simpa using hnd)).1
    simp only [List.modify_succ_cons, List.find?_cons]
    cases hp : key a == iid with
    | true =>
      have : key a ≠ key ck := fun e => hal (e ▸ List.mem_map_of_mem (List.mem_of_getElem? h))
      simp [this]
    | false => exact find?_modify_nodup key f hf iid l k ck hnd' h

theorem childById_setChildRef {D : Defn} {k : Nat} {ck : Inst} (hnd : (D.children.map (·.id)).Nodup)
    (hk : D.children[k]? = some ck) (r iid : Nat) :
    childById (setChildRef D k r) iid =
      (childById D iid).map (fun c => if c.id = ck.id then { c with ref := r } else c) := by
  simp only [childById, setChildRef]
  exact find?_modify_nodup (·.id) (fun c => { c with ref := r }) (fun _ => rfl) iid D.children k ck hnd hk

theorem childById_id {D : Defn} {iid : Nat} {c : Inst} (h : childById D iid = some c) : c.id = iid ∧ c ∈ D.children := by
  simp only [childById] at h
  exact ⟨by simpa using List.find?_some h, List.mem_of_find?_eq_some h⟩

theorem find?_of_mem_nodup {c : Inst} : ∀ (l : List Inst), (l.map (·.id)).Nodup → c ∈ l →
    l.find? (fun x => x.id == c.id) = some c
  | [], _, hc => by simp at hc
  | a :: l, hnd, hc => by
    simp only [List.find?_cons]
    have hnd2 := List.nodup_cons.mp (by simpa using hnd : (a.id :: l.map (·.id)).Nodup)
    rcases List.mem_cons.mp hc with rfl | hc'
    · simp
    · have : a.id ≠ c.id := fun e => hnd2.1 (e ▸ List.mem_map_of_mem hc')
      have hb : (a.id == c.id) = false := by simp [this]
      rw [hb]
      exact find?_of_mem_nodup l hnd2.2 hc'

/-- with distinct identifiers the child with a given identifier is the one found by the lookup -/
theorem childById_of_mem {D : Defn} (hnd : (D.children.map (·.id)).Nodup) {c : Inst} (hc : c ∈ D.children) :
    childById D c.id = some c := find?_of_mem_nodup D.children hnd hc

theorem makeUnique_sameElab {d d' : Design} {q k : Nat} {c : Inst} (hwf : WF d) (hq : q < d.ndefs)
    (hc : (d.defs q).children[k]? = some c) (hleaf : (d.defs c.ref).isLeaf = false)
    (h : makeUnique d q k c.ref = some d') : SameElab d d' := by
  have hqn : q ≠ d.ndefs := Nat.ne_of_lt hq
  have hwfd := hwf.2.1
  have hreflt : ∀ j, j < d.ndefs → ∀ c ∈ (d.defs j).children, c.ref < d.ndefs :=
    fun j hj => (hwfd j (by simpa using hj)).1
  have hcm : c ∈ (d.defs q).children := List.mem_of_getElem? hc
  have hxn : c.ref < d.ndefs := hreflt q hq c hcm
  have hnew := makeUnique_new h
  have htop := (makeUnique_some h).choose_spec.choose_spec.2.2.2.2.1
  have hndq : ((d.defs q).children.map (·.id)).Nodup := (hwfd q (by simpa using hq)).2.1
  let B : Nat → Nat → Prop := fun a b => (a = b ∧ a < d.ndefs) ∨ (a = c.ref ∧ b = d.ndefs)
  have hBrefl : ∀ a, a < d.ndefs → B a a := fun a ha => Or.inl ⟨rfl, ha⟩
  -- children of an old definition `a` in `d'`, looked up by identifier
  have hchild : ∀ a, a < d.ndefs → ∀ iid,
      (∀ c0, childById (d.defs a) iid = some c0 → ∃ c1, childById (d'.defs a) iid = some c1 ∧
        c0.name = c1.name ∧ c0.eid = c1.eid ∧ c0.data = c1.data ∧ B c0.ref c1.ref) ∧
      (∀ c1, childById (d'.defs a) iid = some c1 → ∃ c0, childById (d.defs a) iid = some c0 ∧
        c0.name = c1.name ∧ c0.eid = c1.eid ∧ c0.data = c1.data ∧ B c0.ref c1.ref) := by
    intro a ha iid
    by_cases haq : a = q
    · subst haq
      rw [makeUnique_children_q h hqn, childById_setChildRef hndq hc]
      constructor
      · intro c0 h0
        rw [h0]
        refine ⟨_, rfl, ?_⟩
        have hc0m := (childById_id h0).2
        simp only []
        split
        · rename_i hid
          have : c0 = c := by
            have h1 := childById_of_mem hndq hc0m
            have h2 := childById_of_mem hndq hcm
            rw [hid] at h1; rw [h1] at h2; exact Option.some.inj h2
          subst this
          exact ⟨rfl, rfl, rfl, Or.inr ⟨rfl, rfl⟩⟩
        · exact ⟨rfl, rfl, rfl, hBrefl _ (hreflt a ha c0 hc0m)⟩
      · intro c1 h1
        cases h0 : childById (d.defs a) iid with
        | none => simp [h0] at h1
        | some c0 =>
          simp only [h0, Option.map_some, Option.some.injEq] at h1
          refine ⟨c0, rfl, ?_⟩
          have hc0m := (childById_id h0).2
          split at h1
          · rename_i hid
            have : c0 = c := by
              have e1 := childById_of_mem hndq hc0m
              have e2 := childById_of_mem hndq hcm
              rw [hid] at e1; rw [e1] at e2; exact Option.some.inj e2
            subst this; subst h1
            exact ⟨rfl, rfl, rfl, Or.inr ⟨rfl, rfl⟩⟩
          · subst h1
            exact ⟨rfl, rfl, rfl, hBrefl _ (hreflt a ha c0 hc0m)⟩
    · rw [makeUnique_children_other h (Nat.ne_of_lt ha) haq]
      constructor
      · intro c0 h0
        exact ⟨c0, h0, rfl, rfl, rfl, hBrefl _ (hreflt a ha c0 (childById_id h0).2)⟩
      · intro c1 h1
        exact ⟨c1, h1, rfl, rfl, rfl, hBrefl _ (hreflt a ha c1 (childById_id h1).2)⟩
  have hchildNew : ∀ iid, childById (d'.defs d.ndefs) iid = childById (d.defs c.ref) iid := by
    intro iid; simp only [childById, hnew.2.2.2.1]
  have sim : Sim d d' B := by
    refine ⟨?_, ?_, ?_, ?_⟩
    · rintro x y (⟨rfl, hx⟩ | ⟨rfl, rfl⟩)
      · exact (makeUnique_ports_old h (Nat.ne_of_lt hx)).2.2.2.1.symm
      · exact hnew.2.2.1.symm
    · rintro x y (⟨rfl, hx⟩ | ⟨rfl, rfl⟩) iid c0 h0
      · exact (hchild x hx iid).1 c0 h0
      · rw [hchildNew]
        exact ⟨c0, h0, rfl, rfl, rfl, hBrefl _ (hreflt _ hxn c0 (childById_id h0).2)⟩
    · rintro x y (⟨rfl, hx⟩ | ⟨rfl, rfl⟩) iid c1 h1
      · exact (hchild x hx iid).2 c1 h1
      · rw [hchildNew] at h1
        exact ⟨c1, h1, rfl, rfl, rfl, hBrefl _ (hreflt _ hxn c1 (childById_id h1).2)⟩
    · rintro x y (⟨rfl, hx⟩ | ⟨rfl, rfl⟩)
      · exact ⟨(makeUnique_ports_old h (Nat.ne_of_lt hx)).2.2.2.2.symm, fun _ => rfl⟩
      · refine ⟨?_, fun hl => by rw [hleaf] at hl; cases hl⟩
        simp only [Defn.isLeaf, hnew.2.2.1, hnew.2.2.2.1]
  exact sim.sameElab (by rw [htop]; exact hBrefl _ hwf.1)

/-! ### names -/

theorem mem_libNames {d : Design} {j l : Nat} {s : String} (hj : j < d.ndefs) (hl : (d.defs j).lib = l)
    (hs : (d.defs j).name = some s) : s ∈ d.libNames l := by
  simp only [Design.libNames, List.mem_filterMap, List.mem_range]
  exact ⟨j, hj, by simp [hl, hs]⟩

theorem makeUnique_names {d d' : Design} {q k x : Nat}
    (h : makeUnique d q k x = some d') (hu : DefNamesUnique d) : DefNamesUnique d' := by
  obtain ⟨D', cc, hcl, hn, hdefs, _⟩ := makeUnique_some h
  have hold := fun j (hj : j < d.ndefs) => makeUnique_ports_old h (Nat.ne_of_lt hj)
  have hnew := makeUnique_new h
  have hname := cloneDefn_name hcl
  have hD' : d'.defs d.ndefs = D' := by rw [hdefs]; simp
  -- a named old definition of the copy's library does not carry the copy's name
  have hfresh : ∀ j, j < d.ndefs → (d.defs j).lib = (d.defs x).lib → D'.name ≠ none → D'.name ≠ (d.defs j).name := by
    intro j hj hlib hne e
    rcases hname with ⟨_, h2, _⟩ | ⟨n, k, _, h2, _, _, h5⟩
    · exact hne h2
    · rw [h2] at e
      exact h5 (mem_libNames hj hlib e.symm)
  intro i hi j hj hij hlib hnm
  simp only [List.mem_range, hn] at hi hj
  by_cases hin : i = d.ndefs
  · subst hin
    have hjn : j < d.ndefs := by omega
    rw [(hold j hjn).2.2.1]
    rw [hD'] at hnm ⊢
    rw [hnew.2.1, (hold j hjn).2.1] at hlib
    exact hfresh j hjn hlib.symm hnm
  · have hi' : i < d.ndefs := by omega
    rw [(hold i hi').2.2.1] at hnm ⊢
    by_cases hjn : j = d.ndefs
    · subst hjn
      rw [hD']
      rw [hnew.2.1, (hold i hi').2.1] at hlib
      intro e
      have : D'.name ≠ none := by rw [← e]; exact hnm
      exact hfresh i hi' hlib this e.symm
    · have hj' : j < d.ndefs := by omega
      rw [(hold j hj').2.2.1]
      rw [(hold i hi').2.1, (hold j hj').2.1] at hlib
      exact hu i (by simpa using hi') j (by simpa using hj') hij hlib hnm

theorem mem_libEids {d : Design} {j l : Nat} {s : String} (hj : j < d.ndefs) (hl : (d.defs j).lib = l)
    (hs : (d.defs j).eid = some s) : lowerStr s ∈ d.libEids l := by
  simp only [Design.libEids, List.mem_filterMap, List.mem_range]
  exact ⟨j, hj, by simp [hl, hs]⟩

theorem makeUnique_eid_old {d d' : Design} {q k x : Nat} (h : makeUnique d q k x = some d') {j : Nat}
    (hj : j ≠ d.ndefs) : (d'.defs j).eid = (d.defs j).eid := by
  obtain ⟨D', c, _, _, hdefs, _⟩ := makeUnique_some h
  rw [hdefs]
  simp only [hj, if_false]
  split
  · rename_i hq; subst hq; rfl
  · rfl

theorem makeUnique_eids {d d' : Design} {q k x : Nat}
    (h : makeUnique d q k x = some d') (hu : DefEidsUnique d) : DefEidsUnique d' := by
  obtain ⟨D', cc, hcl, hn, hdefs, _⟩ := makeUnique_some h
  have hold := fun j (hj : j < d.ndefs) => makeUnique_ports_old h (Nat.ne_of_lt hj)
  have holde := fun j (hj : j < d.ndefs) => makeUnique_eid_old h (Nat.ne_of_lt hj)
  have hnew := makeUnique_new h
  have heid := cloneDefn_eid hcl
  have hD' : d'.defs d.ndefs = D' := by rw [hdefs]; simp
  -- an old definition of the copy's library does not carry the copy's identifier
  have hfresh : ∀ j, j < d.ndefs → (d.defs j).lib = (d.defs x).lib → ∀ a b, D'.eid = some a → (d.defs j).eid = some b →
      lowerStr a ≠ lowerStr b := by
    intro j hj hlib a b ha hb e
    rcases heid with ⟨_, h2⟩ | ⟨e0, k0, _, h2, h3⟩
    · rw [h2] at ha; cases ha
    · rw [h2] at ha; cases ha
      exact h3 (e ▸ mem_libEids hj hlib hb)
  intro i hi j hj hij hlib a b ha hb
  simp only [List.mem_range, hn] at hi hj
  by_cases hin : i = d.ndefs
  · subst hin
    have hjn : j < d.ndefs := by omega
    rw [holde j hjn] at hb
    rw [hD'] at ha
    rw [hnew.2.1, (hold j hjn).2.1] at hlib
    exact hfresh j hjn hlib.symm a b ha hb
  · have hi' : i < d.ndefs := by omega
    rw [holde i hi'] at ha
    by_cases hjn : j = d.ndefs
    · subst hjn
      rw [hD'] at hb
      rw [hnew.2.1, (hold i hi').2.1] at hlib
      exact fun e => hfresh i hi' hlib b a hb ha e.symm
    · have hj' : j < d.ndefs := by omega
      rw [holde j hj'] at hb
      rw [(hold i hi').2.1, (hold j hj').2.1] at hlib
      exact hu i (by simpa using hi') j (by simpa using hj') hij hlib a b ha hb

/-! ### a unique design is a fixpoint -/

theorem uLoop_fix {d : Design} (hU : Unique d) (fuel : Nat) : ∀ s : UState, s.d = d →
    (∀ a ∈ s.queue, Reach d a.1) → (uLoop fuel s).d = d ∧ (uLoop fuel s).ok = s.ok := by
  induction fuel with
  | zero => intro s h _; exact ⟨h, rfl⟩
  | succ f ih =>
    intro s hd hq
    unfold uLoop
    split
    · exact ⟨hd, rfl⟩
    · rename_i q k rest hqueue
      have hreach : Reach d q := hq (q, k) (by rw [hqueue]; exact List.mem_cons_self)
      have hrest : ∀ a ∈ rest, Reach d a.1 := fun a ha => hq a (by rw [hqueue]; exact List.mem_cons_of_mem _ ha)
      have hstep : ∃ push, uStep s.d q k = some (d, push) ∧ ∀ a ∈ push, Reach d a.1 := by
        rw [hd]
        unfold uStep
        cases hc : (d.defs q).children[k]? with
        | none => exact ⟨[], rfl, by simp⟩
        | some c =>
          have hcm := List.mem_of_getElem? hc
          have := hU q c hreach hcm
          have hcond : (d.refCount c.ref == 1 || (d.defs c.ref).isLeaf) = true := by
            rcases this with h | h <;> simp [h]
          simp only [hcond, if_true]
          refine ⟨_, rfl, ?_⟩
          intro a ha
          rw [(mem_childAddrs.mp ha).1]
          exact Reach.step hreach hcm
      obtain ⟨push, hs, hp⟩ := hstep
      simp only [hs]
      have := ih { s with d := d, queue := rest ++ push } rfl (by
        intro a ha
        rcases List.mem_append.mp ha with ha | ha
        · exact hrest a ha
        · exact hp a ha)
      exact this

end Spydr.Xform
