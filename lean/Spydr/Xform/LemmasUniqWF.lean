/-
  `makeUnique` (clone + insert + re-point) preserves well-formedness.
-/
import Spydr.Xform.LemmasUniqBasic

namespace Spydr.Xform

/-! ### `insertAfter` -/

theorem mem_insertAfter {x y a : Nat} {l : List Nat} :
    a ∈ insertAfter x y l ↔ a ∈ l ∨ (a = y ∧ x ∈ l) := by
  induction l with
  | nil => simp [insertAfter]
  | cons b l ih =>
    simp only [insertAfter]
    split
    · rename_i hb; subst hb; simp; grind
    · rename_i hb; simp [ih]; grind

theorem nodup_insertAfter {x y : Nat} {l : List Nat} (h : l.Nodup) (hy : y ∉ l) :
    (insertAfter x y l).Nodup := by
  induction l with
  | nil => simp [insertAfter]
  | cons b l ih =>
    simp only [insertAfter]
    have hb : b ∉ l := (List.nodup_cons.mp h).1
    have hl : l.Nodup := (List.nodup_cons.mp h).2
    have hyb : y ≠ b := by intro e; subst e; simp at hy
    have hyl : y ∉ l := fun e => hy (List.mem_cons_of_mem _ e)
    split
    · simp [hb, hl, hyl]; exact fun e => hyb e.symm
    · rename_i hbx
      refine List.nodup_cons.mpr ⟨?_, ih hl hyl⟩
      rw [mem_insertAfter]
      rintro (h1 | ⟨h1, _⟩)
      · exact hb h1
      · exact hyb h1.symm

theorem insertAfter_nil (x y : Nat) : insertAfter x y [] = [] := rfl

/-- `insertAfter x y` puts `y` immediately behind `x` -/
theorem insertAfter_split {x y : Nat} {l : List Nat} (hx : x ∈ l) :
    ∃ pre post, l = pre ++ x :: post ∧ x ∉ pre ∧ insertAfter x y l = pre ++ x :: y :: post := by
  induction l with
  | nil => simp at hx
  | cons b l ih =>
    simp only [insertAfter]
    split
    · rename_i hb; subst hb; exact ⟨[], l, rfl, by simp, rfl⟩
    · rename_i hb
      have hx' : x ∈ l := by
        rcases List.mem_cons.mp hx with h | h
        · exact absurd h.symm hb
        · exact h
      obtain ⟨pre, post, h1, h2, h3⟩ := ih hx'
      refine ⟨b :: pre, post, by simp [h1], ?_, by simp [h3]⟩
      simp; exact ⟨fun e => hb e.symm, h2⟩

theorem insertAfter_not_mem {x y : Nat} {l : List Nat} (hx : x ∉ l) : insertAfter x y l = l := by
  induction l with
  | nil => rfl
  | cons b l ih =>
    simp only [insertAfter]
    have : ¬ b = x := by intro e; subst e; simp at hx
    simp [this]
    exact ih (fun e => hx (List.mem_cons_of_mem _ e))

theorem mem_flatten_map_insertAfter {x y a : Nat} {o : List (List Nat)} :
    a ∈ (o.map (insertAfter x y)).flatten ↔ a ∈ o.flatten ∨ (a = y ∧ x ∈ o.flatten) := by
  simp only [List.mem_flatten, List.mem_map]
  constructor
  · rintro ⟨l, ⟨l0, hl0, rfl⟩, ha⟩
    rw [mem_insertAfter] at ha
    rcases ha with ha | ⟨ha, hx⟩
    · exact Or.inl ⟨l0, hl0, ha⟩
    · exact Or.inr ⟨ha, l0, hl0, hx⟩
  · rintro (⟨l0, hl0, ha⟩ | ⟨ha, l0, hl0, hx⟩)
    · exact ⟨_, ⟨l0, hl0, rfl⟩, mem_insertAfter.mpr (Or.inl ha)⟩
    · exact ⟨_, ⟨l0, hl0, rfl⟩, mem_insertAfter.mpr (Or.inr ⟨ha, hx⟩)⟩

theorem nodup_flatten_map_insertAfter {x y : Nat} {o : List (List Nat)}
    (h : o.flatten.Nodup) (hy : y ∉ o.flatten) : (o.map (insertAfter x y)).flatten.Nodup := by
  induction o with
  | nil => simp
  | cons l o ih =>
    simp only [List.flatten_cons, List.map_cons] at *
    rw [List.nodup_append] at h ⊢
    obtain ⟨h1, h2, h3⟩ := h
    have hyl : y ∉ l := fun e => hy (List.mem_append_left _ e)
    have hyo : y ∉ o.flatten := fun e => hy (List.mem_append_right _ e)
    refine ⟨nodup_insertAfter h1 hyl, ih h2 hyo, ?_⟩
    intro a ha b hb
    rw [mem_insertAfter] at ha
    rw [mem_flatten_map_insertAfter] at hb
    rcases ha with ha | ⟨ha, hx⟩ <;> rcases hb with hb | ⟨hb, hx'⟩
    · exact h3 a ha b hb
    · subst hb; intro e; subst e; exact hyl ha
    · subst ha; intro e; subst e; exact hyo hb
    · exact absurd rfl (h3 x hx x hx')

/-! ### ports are untouched -/

section step
variable {d d' : Design} {q k x : Nat}

theorem makeUnique_ports_old (h : makeUnique d q k x = some d') {j : Nat} (hj : j ≠ d.ndefs) :
    (d'.defs j).ports = (d.defs j).ports ∧ (d'.defs j).lib = (d.defs j).lib ∧
    (d'.defs j).name = (d.defs j).name ∧ (d'.defs j).cables = (d.defs j).cables ∧
    (d'.defs j).isLeaf = (d.defs j).isLeaf := by
  obtain ⟨D', c, _, _, hdefs, _⟩ := makeUnique_some h
  rw [hdefs]
  simp only [hj, if_false]
  split
  · rename_i hq; subst hq
    exact ⟨rfl, rfl, rfl, rfl, setChildRef_isLeaf _ _ _⟩
  · exact ⟨rfl, rfl, rfl, rfl, rfl⟩

theorem makeUnique_new (h : makeUnique d q k x = some d') :
    (d'.defs d.ndefs).ports = (d.defs x).ports ∧ (d'.defs d.ndefs).lib = (d.defs x).lib ∧
    (d'.defs d.ndefs).cables = (d.defs x).cables ∧ (d'.defs d.ndefs).children = (d.defs x).children ∧
    (d'.defs d.ndefs).info = (d.defs x).info := by
  obtain ⟨D', c, hc, _, hdefs, _⟩ := makeUnique_some h
  rw [hdefs]
  simp only [if_true]
  have := cloneDefn_fields hc
  exact ⟨this.2.2.1, this.1, this.2.2.2.1, this.2.2.2.2, this.2.1⟩

theorem makeUnique_children_other (h : makeUnique d q k x = some d') {j : Nat} (hj : j ≠ d.ndefs) (hq : j ≠ q) :
    d'.defs j = d.defs j := by
  obtain ⟨D', c, _, _, hdefs, _⟩ := makeUnique_some h
  rw [hdefs]; simp [hj, hq]

theorem makeUnique_children_q (h : makeUnique d q k x = some d') (hq : q ≠ d.ndefs) :
    d'.defs q = setChildRef (d.defs q) k d.ndefs := by
  obtain ⟨D', c, _, _, hdefs, _⟩ := makeUnique_some h
  rw [hdefs]; simp [hq]

/-- transfer of pin validity between two (design, definition) pairs whose children correspond by
    identifier with references of equal port shape -/
theorem pinOk_transfer {d d' : Design} {D D' : Defn} (hp : D'.ports = D.ports)
    (hc : ∀ c ∈ D.children, ∃ c' ∈ D'.children, c'.id = c.id ∧ (d'.defs c'.ref).ports = (d.defs c.ref).ports)
    {p : Pin} (h : PinOk d D p) : PinOk d' D' p := by
  cases p with
  | port pi bit => simpa [PinOk, hp] using h
  | inst iid pi bit =>
    simp only [PinOk] at h ⊢
    obtain ⟨c, hcm, hid, P, hP, hb⟩ := h
    obtain ⟨c', hc'm, hid', hports⟩ := hc c hcm
    exact ⟨c', hc'm, hid'.trans hid, P, by rw [hports]; exact hP, hb⟩
  | inner _ _ _ => exact h.elim

theorem makeUnique_wf (hwf : WF d) (hq : q < d.ndefs) {c : Inst}
    (hc : (d.defs q).children[k]? = some c) (hx : c.ref = x)
    (h : makeUnique d q k x = some d') : WF d' := by
  obtain ⟨htop, hdefs, hord⟩ := hwf
  have hn := (makeUnique_some h).choose_spec.choose_spec.2.1
  have htop' := (makeUnique_some h).choose_spec.choose_spec.2.2.2.2.1
  have hord' := (makeUnique_some h).choose_spec.choose_spec.2.2.2.1
  have hwfq : WFDef d (d.defs q) := hdefs q (by simpa using hq)
  have hcm : c ∈ (d.defs q).children := List.mem_of_getElem? hc
  have hxn : x < d.ndefs := hx ▸ hwfq.1 c hcm
  have hqn : q ≠ d.ndefs := Nat.ne_of_lt hq
  -- port shapes of all old definitions are unchanged
  have hports : ∀ j, j < d.ndefs → (d'.defs j).ports = (d.defs j).ports :=
    fun j hj => (makeUnique_ports_old h (Nat.ne_of_lt hj)).1
  have hnew := makeUnique_new h
  -- an unchanged children list transfers
  have same_children : ∀ D : Defn, (∀ c ∈ D.children, c.ref < d.ndefs) →
      ∀ c ∈ D.children, ∃ c' ∈ D.children, c'.id = c.id ∧ (d'.defs c'.ref).ports = (d.defs c.ref).ports :=
    fun D hD c hcD => ⟨c, hcD, rfl, hports _ (hD c hcD)⟩
  refine ⟨by rw [htop', hn]; omega, ?_, ?_⟩
  · intro i hi
    rw [hn] at hi
    have hi' : i < d.ndefs + 1 := by simpa using hi
    by_cases hin : i = d.ndefs
    · -- the copy
      subst hin
      have hwfx : WFDef d (d.defs x) := hdefs x (by simpa using hxn)
      obtain ⟨w1, w2, w3, w4⟩ := hwfx
      refine ⟨?_, ?_, ?_, ?_⟩
      · rw [hnew.2.2.2.1, hn]; intro c hc; have := w1 c hc; omega
      · rw [hnew.2.2.2.1]; exact w2
      · rw [hnew.2.2.1]; exact w3
      · rw [hnew.2.2.1]; intro p hp
        refine pinOk_transfer hnew.1 ?_ (w4 p hp)
        rw [hnew.2.2.2.1]; exact same_children _ w1
    · have hi'' : i < d.ndefs := by omega
      have hwfi : WFDef d (d.defs i) := hdefs i (by simpa using hi'')
      obtain ⟨w1, w2, w3, w4⟩ := hwfi
      by_cases hiq : i = q
      · -- the re-pointed parent
        subst hiq
        rw [makeUnique_children_q h hqn]
        refine ⟨?_, ?_, ?_, ?_⟩
        · intro c' hc'
          obtain ⟨c0, hc0, _, _, _, _, hr⟩ := mem_setChildRef hc'
          rw [hn]
          rcases hr with hr | ⟨hr, _⟩
          · rw [hr]; have := w1 c0 hc0; omega
          · omega
        · rw [setChildRef_map_id]; exact w2
        · exact w3
        · intro p hp
          refine pinOk_transfer (D := d.defs i) (setChildRef_ports _ _ _) ?_ (w4 p hp)
          intro c0 hc0
          obtain ⟨j, hj⟩ := List.getElem?_of_mem hc0
          have hj' := setChildRef_getElem? (d.defs i) k d.ndefs j
          rw [hj] at hj'
          simp only [Option.map_some] at hj'
          refine ⟨_, List.mem_of_getElem? hj', ?_, ?_⟩
          · split <;> rfl
          · split
            · rename_i hkj; subst hkj
              rw [hc] at hj; cases hj
              simp only; rw [hnew.1, hx]
            · exact hports _ (w1 c0 hc0)
      · rw [makeUnique_children_other h hin hiq]
        refine ⟨?_, w2, w3, ?_⟩
        · intro c hc; have := w1 c hc; omega
        · intro p hp
          exact pinOk_transfer rfl (same_children _ w1) (w4 p hp)
  · obtain ⟨o1, o2, o3, o4⟩ := hord
    have hnf : d.ndefs ∉ d.order.flatten := fun e => Nat.lt_irrefl _ (o2 _ e)
    have hxf : x ∈ d.order.flatten := o3 x (by simpa using hxn)
    refine ⟨?_, ?_, ?_, ?_⟩
    · rw [hord']; exact nodup_flatten_map_insertAfter o1 hnf
    · rw [hord', hn]; intro i hi
      rw [mem_flatten_map_insertAfter] at hi
      rcases hi with hi | ⟨hi, _⟩
      · have := o2 i hi; omega
      · omega
    · rw [hord', hn]; intro i hi
      rw [mem_flatten_map_insertAfter]
      have hi' : i < d.ndefs + 1 := by simpa using hi
      by_cases hin : i = d.ndefs
      · exact Or.inr ⟨hin, hxf⟩
      · exact Or.inl (o3 i (by simp; omega))
    · rw [hord']; intro l hl i hi
      simp only [List.length_map] at hl
      have hl' : l < d.order.length := by simpa using hl
      have hget : (d.order.map (insertAfter x d.ndefs)).getD l [] = insertAfter x d.ndefs (d.order.getD l []) := by
        simp [List.getD, hl']
      rw [hget, mem_insertAfter] at hi
      rcases hi with hi | ⟨hi, hxl⟩
      · have hil : i < d.ndefs := o2 i (by
          simp only [List.mem_flatten]
          refine ⟨d.order.getD l [], ?_, hi⟩
          simp [List.getD, hl'])
        rw [(makeUnique_ports_old h (Nat.ne_of_lt hil)).2.1]
        exact o4 l hl i hi
      · subst hi
        rw [hnew.2.1]
        exact o4 l hl x hxl

end step

end Spydr.Xform
