/-
  L2 (value level) — the netlist as a self-contained value, and the shared vocabulary of the two
  transformation models (`ModelUniquify.lean`, `ModelFlatten.lean`).

  A `Design` is what the harness extracts from a live spydrnet netlist:
    * a table of definitions `defs : Nat → Defn` (only indices `< ndefs` are meaningful; the table is
      append-only, so a definition index is a stable identity),
    * `order`: per library, the definition indices in `library.definitions` order,
    * `top`: index of the definition the top instance references,
    * `extra x`: the number of members of `defs x`'s `Definition._references` that are NOT children of
      a definition of this netlist (the top instance, instances outside every definition, …), so
      that `len(definition.references) = refCount`,
    * `ctr`: the global name counter of the transformation (`uniquify.MOD_NAME_UID`,
      `flatten.mod_name_uid`) read by the harness before the call.

  Pins on wires are value-level references: `port pi bit` is bit `bit` of port number `pi` of the
  definition that owns the wire; `inst iid pi bit` is the outer pin of the child with identifier `iid`
  (identifiers are unique inside a definition; for flatten the harness makes them unique in the whole
  netlist) for bit `bit` of port `pi` of the child's reference; `inner iid pi bit` only exists
  transiently inside `flatten`: the inner pin (`pi`,`bit`) of the definition referenced by instance
  `iid`, sitting on a wire that has already been moved into the top definition.

  NO Mathlib import (linked into the driver executable).
-/
namespace Spydr.Xform

inductive Pin where
  | port (pi bit : Nat)
  | inst (iid pi bit : Nat)
  | inner (iid pi bit : Nat)
  deriving DecidableEq, Repr, Inhabited

structure Port where
  width : Nat
  /-- everything else the harness knows about the port (name, direction, indexing, data), opaque -/
  info : String
  deriving DecidableEq, Repr, Inhabited

structure Cable where
  id : Nat
  name : Option String
  /-- `EDIF.identifier` entry of the data dictionary, if present -/
  eid : Option String
  info : String
  wires : List (List Pin)
  deriving DecidableEq, Repr, Inhabited

structure Inst where
  id : Nat
  name : Option String
  eid : Option String
  ref : Nat
  /-- data dictionary without the two naming keys, opaque -/
  data : String
  deriving DecidableEq, Repr, Inhabited

structure Defn where
  lib : Nat
  name : Option String
  eid : Option String
  info : String
  ports : List Port
  cables : List Cable
  children : List Inst
  deriving DecidableEq, Repr, Inhabited

structure Design where
  ndefs : Nat
  defs : Nat → Defn
  order : List (List Nat)
  top : Nat
  extra : Nat → Nat
  ctr : Nat

/-- `Definition.is_leaf()`: no children and no cables. -/
def Defn.isLeaf (D : Defn) : Bool := D.children.isEmpty && D.cables.isEmpty

def Design.setDef (d : Design) (i : Nat) (D : Defn) : Design :=
  { d with defs := fun j => if j = i then D else d.defs j }

/-- number of children of definition `D` that reference definition `x` -/
def Defn.refsTo (D : Defn) (x : Nat) : Nat := D.children.countP (fun c => c.ref == x)

/-- `len(defs[x].references)` -/
def Design.refCount (d : Design) (x : Nat) : Nat :=
  d.extra x + ((List.range d.ndefs).map (fun j => (d.defs j).refsTo x)).sum

/-- ASCII lower-casing (`str.lower()` on the identifiers considered; EDIF identifiers are ASCII): the
    EDIF naming policy compares the `EDIF.identifier` entries of siblings case-insensitively -/
def lowerStr (s : String) : String := String.ofList (s.toList.map Char.toLower)

/-- all pins listed by the wires of a cable list, in order -/
def allPins (cs : List Cable) : List Pin := (cs.flatMap (·.wires)).flatten

end Spydr.Xform
