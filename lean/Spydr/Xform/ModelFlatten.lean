/-
  Executable model of `spydrnet/flatten.py`.

  Transcription notes
  * `instance_queue` / `name_queue`: one list of `(parent definition index, instance identifier,
    parent name)`.  The parent index is what `e.parent` is when the entry is popped: an instance is
    moved only when it is popped, so the definition it was found in when pushed still holds it.
  * `_bring_to_top(instance)`: `EDIF.identifier` (if present) becomes `instance_sdn_flat_N`;
    `parent.remove_child`, rename to `parent_name + "/" + name` (no prefix when the parent name is the
    empty string), `top.add_child` (append).
  * non-leaf reference `D`: children are queued under the instance's NEW name; every cable of `D` is
    brought to top (`cable_sdn_flat_N`, `inst_name + "/" + name`, append to top's cables).  The wires
    keep their pin objects: an inner pin of `D` now sits on a wire of the top definition; it is
    written `Pin.inner iid pi bit` here (`D` has exactly one instance in a uniquified netlist).
  * `_redo_connections`, per port pin in port order then bit order: with `in_wire` the wire of the
    inner pin and `out_wire` the wire of the instance's outer pin — both pins are disconnected;
    if both wires exist all remaining pins of `in_wire` are moved (appended in order) to `out_wire`.
    Written in closed form as a map over the wires of the top definition (`redoWire`).
  * the hierarchical instances are removed from the top definition at the end (they keep their
    reference, see `fFinal`).

  NO Mathlib import.
-/
import Spydr.Xform.Model

namespace Spydr.Xform

def joinName (parent : String) (n : String) : String :=
  if parent = "" then n else parent ++ "/" ++ n

def flatSuffix (n : Nat) : String := "sdn_flat_" ++ toString n

/-- rename + `EDIF.identifier` renewal of an instance brought to top; returns the new counter -/
def liftInst (pn : String) (ctr : Nat) (c : Inst) : Inst × Nat :=
  let nm := joinName pn (c.name.getD "")
  match c.eid with
  | none => ({ c with name := some nm }, ctr)
  | some _ => ({ c with name := some nm, eid := some ("instance_" ++ flatSuffix ctr) }, ctr + 1)

def liftPin (iid : Nat) : Pin → Pin
  | .port pi bit => .inner iid pi bit
  | p => p

/-- the cables of the dissolved definition as they arrive in the top definition -/
def liftCables (iid : Nat) (pn : String) : (ctr : Nat) → List Cable → List Cable × Nat
  | ctr, [] => ([], ctr)
  | ctr, c :: cs =>
    let nm := joinName pn (c.name.getD "")
    let ws := c.wires.map (fun w => w.map (liftPin iid))
    match c.eid with
    | none =>
      let r := liftCables iid pn ctr cs
      ({ c with name := some nm, wires := ws } :: r.1, r.2)
    | some _ =>
      let r := liftCables iid pn (ctr + 1) cs
      ({ c with name := some nm, eid := some ("cable_" ++ flatSuffix ctr), wires := ws } :: r.1, r.2)

/-- the wire (its pin list) of the top definition that lists pin `p` -/
def findWire (p : Pin) (cs : List Cable) : Option (List Pin) :=
  (cs.flatMap (·.wires)).find? (fun w => w.contains p)

/-- what `_redo_connections` does, for one port pin, to one wire `w` of the top definition.
    `ip`/`op`: the inner / outer pin; `inW`: the pins of the inner pin's wire (if any) before the
    call; `hasOut`: the outer pin is on a wire. -/
def redoWire (ip op : Pin) (inW : Option (List Pin)) (hasOut : Bool) (w : List Pin) : List Pin :=
  if w.contains ip then
    if w.contains op then (w.erase ip).erase op
    else if hasOut then [] else w.erase ip
  else if w.contains op then
    match inW with
    | some I => w.erase op ++ I.erase ip
    | none => w.erase op
  else w

def mapWires (f : List Pin → List Pin) (cs : List Cable) : List Cable :=
  cs.map (fun c => { c with wires := c.wires.map f })

def redoPin (iid : Nat) (cs : List Cable) (pb : Nat × Nat) : List Cable :=
  let ip := Pin.inner iid pb.1 pb.2
  let op := Pin.inst iid pb.1 pb.2
  mapWires (redoWire ip op (findWire ip cs) (findWire op cs).isSome) cs

/-- (port index, bit) of every port pin, in `for port in ports: for pin in port.pins` order -/
def portBits (ports : List Port) : List (Nat × Nat) :=
  (List.range ports.length).flatMap (fun pi => (List.range (ports.getD pi default).width).map (fun b => (pi, b)))

structure FState where
  d : Design
  queue : List (Nat × Nat × String)
  toRemove : List Nat

/-- `_bring_to_top(instance)`: take the child with identifier `c'.id` out of definition `q` and append
    the renamed record `c'` to the top definition -/
def moveInst (d : Design) (q : Nat) (c' : Inst) (ctr1 : Nat) : Design :=
  let Q' := { d.defs q with children := (d.defs q).children.filter (fun x => x.id != c'.id) }
  let d1 := { d with ctr := ctr1 }.setDef q Q'
  let T1 := d1.defs d.top
  d1.setDef d.top { T1 with children := T1.children ++ [c'] }

/-- the non-leaf part of the loop body for instance `iid` (already in the top definition under the
    name `nm`) whose reference is `x`: bring the cables of `x` to top, redo the connections of every
    port pin -/
def dissolve (d : Design) (iid : Nat) (nm : String) (x : Nat) : Design :=
  let D := d.defs x
  let lc := liftCables iid nm d.ctr D.cables
  let d3 := { d with ctr := lc.2 }.setDef x { D with cables := [] }
  let T3 := d3.defs d.top
  let cs := (portBits D.ports).foldl (redoPin iid) (T3.cables ++ lc.1)
  d3.setDef d.top { T3 with cables := cs }

/-- one iteration of the `while` loop for the queue head `(q, iid, pn)` -/
def fStep (d : Design) (q iid : Nat) (pn : String) : Design × List (Nat × Nat × String) × List Nat :=
  match (d.defs q).children.find? (fun c => c.id == iid) with
  | none => (d, [], [])
  | some c =>
    let li := liftInst pn d.ctr c
    let d2 := moveInst d q li.1 li.2
    let x := c.ref
    let D := d2.defs x
    if D.isLeaf then (d2, [], [])
    else
      let nm := li.1.name.getD ""
      (dissolve d2 iid nm x, D.children.map (fun k => (x, k.id, nm)), [iid])

def fLoop : Nat → FState → FState
  | 0, s => s
  | fuel + 1, s =>
    match s.queue with
    | [] => s
    | (q, iid, pn) :: rest =>
      let r := fStep s.d q iid pn
      fLoop fuel { d := r.1, queue := rest ++ r.2.1, toRemove := s.toRemove ++ r.2.2 }

def fInit (d : Design) : FState :=
  { d := d, queue := (d.defs d.top).children.map (fun k => (d.top, k.id, "")), toRemove := [] }

/-- `for i in to_remove: top_definition.remove_child(i)`.  `remove_child` does not clear the
    reference of the removed instance: the shell stays a member of its (now empty) definition's
    reference set as an instance outside every definition, which is what `extra` counts. -/
def fFinal (s : FState) : Design :=
  let T := s.d.defs s.d.top
  let gone := T.children.filter (fun c => s.toRemove.contains c.id)
  { s.d.setDef s.d.top { T with children := T.children.filter (fun c => !(s.toRemove.contains c.id)) } with
    extra := fun x => s.d.extra x + gone.countP (fun c => c.ref == x) }

structure FResult where
  design : Design
  finished : Bool

def flatten (fuel : Nat) (d : Design) : FResult :=
  let s := fLoop fuel (fInit d)
  { design := fFinal s, finished := s.queue.isEmpty }

end Spydr.Xform
