/-
  Executable model of `spydrnet/uniquify.py` (as repaired by docs/fixes/xform_uniquify_name_clash.diff
  and docs/fixes/xform_uniquify_identifier_clash.diff: the name counter is advanced until the
  candidate name AND the candidate `EDIF.identifier` (compared case-insensitively, as the EDIF naming
  policy does) are free in the library; the identifier gets the suffix also when the definition has
  no name).

  Transcription notes
  * `instance_queue` holds instances; an instance is addressed here by (parent definition index,
    position in the parent's children list) — uniquify never adds, removes or reorders children.
  * `_is_unique`: `len(reference.references) == 1 or reference.is_leaf()`.
  * `_make_instance_unique`: `reference.clone()` is a literal copy of the `Defn` value (ports, cables,
    wires with their value-level pin references, children with the same — still shared — references);
    `Definition.clone` registers the copied children in the reference sets of their references, which
    is what `refCount` computes from the table.  The copy is renamed `name ++ "_sdn_unique_" ++ N`
    (the `EDIF.identifier` entry gets the same suffix), inserted
    at `index + 1` of the original's library and the instance is re-pointed to it
    (`Instance.reference` setter: connections are kept by port position, i.e. the pin references on
    the parent's wires are unchanged).
  * The children of the (possibly new) reference are appended to the queue.
  * The walk takes fuel; `finished` reports that the queue ran empty.

  NO Mathlib import.
-/
import Spydr.Xform.Model

namespace Spydr.Xform

def uniqSuffix (n : Nat) : String := "_sdn_unique_" ++ toString n

/-- names of the definitions of library `lib` -/
def Design.libNames (d : Design) (lib : Nat) : List String :=
  (List.range d.ndefs).filterMap (fun j => if (d.defs j).lib = lib then (d.defs j).name else none)

/-- lower-cased `EDIF.identifier` entries of the definitions of library `lib` (the EDIF naming policy
    compares identifiers of siblings case-insensitively) -/
def Design.libEids (d : Design) (lib : Nat) : List String :=
  (List.range d.ndefs).filterMap (fun j => if (d.defs j).lib = lib then (d.defs j).eid.map lowerStr else none)

/-- candidate counter value `k` is unusable: the name or the (case-folded) identifier is taken -/
def candTaken (names eids : List String) (nm eid : Option String) (k : Nat) : Bool :=
  (match nm with | some n => names.contains (n ++ uniqSuffix k) | none => false) ||
  (match eid with | some e => eids.contains (lowerStr (e ++ uniqSuffix k)) | none => false)

/-- first counter value `k ≥ ctr` (trying at most `fuel` values) whose name and identifier are free -/
def pickCtr (names eids : List String) (nm eid : Option String) : (fuel ctr : Nat) → Option Nat
  | 0, _ => none
  | fuel + 1, ctr => if candTaken names eids nm eid ctr then pickCtr names eids nm eid fuel (ctr + 1) else some ctr

/-- insert `y` right after the first occurrence of `x` -/
def insertAfter (x y : Nat) : List Nat → List Nat
  | [] => []
  | a :: l => if a = x then a :: y :: l else a :: insertAfter x y l

def setChildRef (D : Defn) (k r : Nat) : Defn :=
  { D with children := D.children.modify k (fun c => { c with ref := r }) }

/-- the renamed copy and the counter after it: name and `EDIF.identifier` (whichever are present) get
    the same suffix `_sdn_unique_k` -/
def cloneDefn (d : Design) (D : Defn) : Option (Defn × Nat) :=
  if D.name.isNone && D.eid.isNone then some (D, d.ctr)
  else
    match pickCtr (d.libNames D.lib) (d.libEids D.lib) D.name D.eid (2 * d.ndefs + 1) d.ctr with
    | none => none
    | some k => some ({ D with name := D.name.map (· ++ uniqSuffix k), eid := D.eid.map (· ++ uniqSuffix k) }, k + 1)

/-- `_make_instance_unique` for child `k` of definition `q`, whose reference is `x`. -/
def makeUnique (d : Design) (q k x : Nat) : Option Design :=
  match cloneDefn d (d.defs x) with
  | none => none
  | some (D', ctr') =>
    let n := d.ndefs
    some { ndefs := n + 1
           defs := fun j => if j = n then D' else if j = q then setChildRef (d.defs q) k n else d.defs j
           order := d.order.map (insertAfter x n)
           top := d.top
           extra := fun j => if j = n then 0 else d.extra j
           ctr := ctr' }

structure UState where
  d : Design
  queue : List (Nat × Nat)
  /-- false: a free name was not found within the search bound (cannot happen, see `pickCtr_some`) -/
  ok : Bool := true

def childAddrs (q : Nat) (D : Defn) : List (Nat × Nat) := (List.range D.children.length).map (fun k => (q, k))

/-- one iteration of the `while` loop for the queue head `(q, k)` -/
def uStep (d : Design) (q k : Nat) : Option (Design × List (Nat × Nat)) :=
  match (d.defs q).children[k]? with
  | none => some (d, [])
  | some c =>
    if d.refCount c.ref == 1 || (d.defs c.ref).isLeaf then
      some (d, childAddrs c.ref (d.defs c.ref))
    else
      match makeUnique d q k c.ref with
      | none => none
      | some d' => some (d', childAddrs d.ndefs (d'.defs d.ndefs))

def uLoop : Nat → UState → UState
  | 0, s => s
  | fuel + 1, s =>
    match s.queue with
    | [] => s
    | (q, k) :: rest =>
      match uStep s.d q k with
      | none => { s with ok := false, queue := [] }
      | some (d', push) => uLoop fuel { s with d := d', queue := rest ++ push }

def uInit (d : Design) : UState := { d := d, queue := childAddrs d.top (d.defs d.top) }

structure UResult where
  design : Design
  finished : Bool
  ok : Bool

def uniquify (fuel : Nat) (d : Design) : UResult :=
  let s := uLoop fuel (uInit d)
  { design := s.d, finished := s.queue.isEmpty, ok := s.ok }

end Spydr.Xform
