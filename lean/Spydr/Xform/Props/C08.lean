import Spydr.Xform.ModelUniquify
import Spydr.Xform.Spec
