/-
  C08 — uniquify makes every non-leaf instance unique without changing the design.

  Model: `uniquify : Nat → Design → UResult` (ModelUniquify.lean), fuel-bounded transcription of
  spydrnet/uniquify.py (as repaired by docs/fixes/xform_uniquify_name_clash.diff).
  Spec:  `WF`, `Unique`, `Acyclic`, `DefNamesUnique` (Spec.lean), `SameElab` (SpecElab.lean).

  Hypotheses that appear below
  * `WF d`                      decidable; evaluated by the driver on every dumped netlist;
  * `Acyclic d`                 no definition instantiates itself transitively;
  * `(uniquify fuel d).finished` the walk ran to completion with the given fuel (reported by the driver
                                for every input; `uniquify_finishes`: it does for every fuel ≥ the
                                size of the unfolding);
  (`(uniquify fuel d).ok`, the bounded search for a free name succeeded, is a theorem: `uniquify_ok`.)
-/
import Spydr.Xform.LemmasUniqNames
import Spydr.Xform.LemmasUniqOk
import Spydr.Xform.LemmasUniqPos
import Spydr.Xform.LemmasUniqFuel

namespace Spydr.Xform

/-- The bounded search for a free name never fails: the `ndefs + 1` candidates `name_sdn_unique_k` are
    pairwise different and the library holds at most `ndefs` names. -/
theorem uniquify_never_stuck (fuel : Nat) (d : Design) : (uniquify fuel d).ok = true := uniquify_ok fuel d

/-- The netlist stays well-formed. -/
theorem uniquify_wf (fuel : Nat) (d : Design) (hwf : WF d) :
    WF (uniquify fuel d).design :=
  (uLoop_induct WFQ (fun _ _ _ _ _ _ inv h => inv.step h) fuel (uInit d) (WFQ.init hwf) (uniquify_ok fuel d)).1

/-- After uniquify every non-leaf instance reachable from the top instance is the only instance of
    its definition (`Unique`: the reference set has exactly one member, counting every instance there
    is — also instances in definitions outside the top hierarchy and instances outside every
    definition). -/
theorem uniquify_unique (fuel : Nat) (d : Design) (hwf : WF d) (hac : Acyclic d)
    (hfin : (uniquify fuel d).finished = true) :
    Unique (uniquify fuel d).design := by
  have hok := uniquify_ok fuel d
  obtain ⟨rank, hr⟩ := hac
  obtain ⟨Done, rank', inv⟩ := uLoop_inv fuel (uInit d) _ rank (UInv.init hwf hr) hok
  have hq : (uLoop fuel (uInit d)).queue = [] := by simpa [uniquify] using hfin
  rw [hq] at inv
  exact inv.unique

/-- The elaborated design is untouched: the unfolding tree (instance names, data and leaf cell type
    at every path) and the connectivity between all hierarchical wires, hierarchical pins and
    top-level port bits — in particular the grouping of leaf pins and top-level port bits into nets —
    are exactly what they were.  (Holds for every prefix of the walk, hence no `finished`.) -/
theorem uniquify_preserves_elab (fuel : Nat) (d : Design) (hwf : WF d) :
    SameElab d (uniquify fuel d).design := by
  have hok := uniquify_ok fuel d
  have := uLoop_induct (fun d' queue => WFQ d' queue ∧ SameElab d d')
    (by
      intro d1 q k rest d2 push ⟨inv, hs⟩ h
      refine ⟨inv.step h, ?_⟩
      have hq : q < d1.ndefs := inv.2 (q, k) List.mem_cons_self
      rcases uStep_cases h with ⟨rfl, _, _⟩ | ⟨c, hc, ⟨rfl, _, _⟩ | ⟨_, hl, hm, _⟩⟩
      · exact hs
      · exact hs
      · exact hs.trans (makeUnique_sameElab inv.1 hq hc hl hm))
    fuel (uInit d) ⟨WFQ.init hwf, SameElab.refl d⟩ hok
  exact this.2

/-- Restriction of `uniquify_preserves_elab` to the sentence of the property: two endpoints (leaf pin
    bits, top-level port bits) are connected after uniquify iff they were before; what is an
    endpoint does not change either. -/
theorem uniquify_preserves_nets (fuel : Nat) (d : Design) (hwf : WF d)
    (a b : HNode) :
    (IsEndpoint d a ↔ IsEndpoint (uniquify fuel d).design a) ∧
    (HConn d a b ↔ HConn (uniquify fuel d).design a b) := by
  have h := uniquify_preserves_elab fuel d hwf
  refine ⟨?_, h.2 a b⟩
  cases a with
  | wire => exact Iff.rfl
  | tport => exact Iff.rfl
  | pin p iid pi bit =>
    have hu := h.1 p iid
    simp only [unfoldAt] at hu
    simp only [IsEndpoint]
    constructor
    · rintro ⟨c, hc, hl⟩
      rw [hc] at hu
      cases hc' : instAt (uniquify fuel d).design p iid with
      | none => rw [hc'] at hu; cases hu
      | some c' =>
        rw [hc'] at hu
        simp only [Option.map_some, Option.some.injEq, viewOf, InstView.mk.injEq, hl, if_true] at hu
        refine ⟨c', rfl, ?_⟩
        cases hx : ((uniquify fuel d).design.defs c'.ref).isLeaf with
        | true => rfl
        | false => simp [hx] at hu
    · rintro ⟨c', hc', hl⟩
      rw [hc'] at hu
      cases hc : instAt d p iid with
      | none => rw [hc] at hu; cases hu
      | some c =>
        rw [hc] at hu
        simp only [Option.map_some, Option.some.injEq, viewOf, InstView.mk.injEq, hl, if_true] at hu
        refine ⟨c, rfl, ?_⟩
        cases hx : (d.defs c.ref).isLeaf with
        | true => rfl
        | false => simp [hx] at hu

/-- Newly created definitions have fresh unique names in the original's library:
    * definition names stay pairwise distinct inside every library (`DefNamesUnique`), and so do the
      `EDIF.identifier` entries the code also rewrites, compared case-insensitively as the EDIF
      naming policy does (`DefEidsUnique`);
    * `Grows`: old definitions keep name, library, ports and cables; every new definition `n` is a
      copy (same library, ports, cables) of an earlier definition `x`, unnamed if `x` is unnamed and
      otherwise named `name x ++ "_sdn_unique_" ++ k` with `k` between the counter before and after
      the call; the relative order of the old definitions in every library is unchanged. -/
theorem uniquify_fresh_names (fuel : Nat) (d : Design) (hwf : WF d) :
    (DefNamesUnique d → DefNamesUnique (uniquify fuel d).design) ∧
    (DefEidsUnique d → DefEidsUnique (uniquify fuel d).design) ∧ Grows d (uniquify fuel d).design := by
  have hok := uniquify_ok fuel d
  have := uLoop_induct (fun d' queue => WFQ d' queue ∧ (DefNamesUnique d → DefNamesUnique d') ∧
      (DefEidsUnique d → DefEidsUnique d') ∧ Grows d d')
    (by
      intro d1 q k rest d2 push ⟨inv, hnm, hei, hg⟩ h
      refine ⟨inv.step h, ?_⟩
      have hq : q < d1.ndefs := inv.2 (q, k) List.mem_cons_self
      rcases uStep_cases h with ⟨rfl, _, _⟩ | ⟨c, hc, ⟨rfl, _, _⟩ | ⟨_, hl, hm, _⟩⟩
      · exact ⟨hnm, hei, hg⟩
      · exact ⟨hnm, hei, hg⟩
      · exact ⟨fun h0 => makeUnique_names hm (hnm h0), fun h0 => makeUnique_eids hm (hei h0),
          hg.trans (makeUnique_grows inv.1 hq hc hm)⟩)
    fuel (uInit d) ⟨WFQ.init hwf, id, id, Grows.refl hwf.2.2.2.1⟩ hok
  exact this.2

/-- Each copy is inserted immediately behind its original in the original's library (one step of the
    walk; `pre ++ x :: post` becomes `pre ++ x :: new :: post`, other libraries untouched).
    Whole-run form: `uniquify_behind_original` below. -/
theorem uniquify_step_position {d d' : Design} {q k : Nat} {c : Inst} (hwf : WF d) (hq : q < d.ndefs)
    (hc : (d.defs q).children[k]? = some c) (h : makeUnique d q k c.ref = some d') :
    ∃ l pre post, d.order[l]? = some (pre ++ c.ref :: post) ∧
      d'.order[l]? = some (pre ++ c.ref :: d.ndefs :: post) ∧ (d.defs c.ref).lib = l ∧
      (d'.defs d.ndefs).lib = l ∧ ∀ l', l' ≠ l → d'.order[l']? = d.order[l']? :=
  makeUnique_position hwf hq hc h

/-- Whole-run form of "new definitions sit right behind their original": in the final order of every
    library, each new definition `n` is preceded in its list by the definition `x` it is a copy of
    (same library, ports, cables; name `x_sdn_unique_k`), with only definitions newer than `n` in
    between. -/
theorem uniquify_behind_original (fuel : Nat) (d : Design) (hwf : WF d) :
    Behind d.ndefs (uniquify fuel d).design := by
  have := uLoop_induct (fun d' queue => WFQ d' queue ∧ d.ndefs ≤ d'.ndefs ∧ Behind d.ndefs d')
    (by
      intro d1 q k rest d2 push ⟨inv, hle, hb⟩ h
      refine ⟨inv.step h, ?_⟩
      have hq : q < d1.ndefs := inv.2 (q, k) List.mem_cons_self
      rcases uStep_cases h with ⟨rfl, _, _⟩ | ⟨c, hc, ⟨rfl, _, _⟩ | ⟨_, hl, hm, _⟩⟩
      · exact ⟨hle, hb⟩
      · exact ⟨hle, hb⟩
      · have hn := (makeUnique_some hm).choose_spec.choose_spec.2.1
        exact ⟨by omega, makeUnique_behind inv.1 hq hc hm hle hb⟩)
    fuel (uInit d) ⟨WFQ.init hwf, Nat.le_refl _, behind_refl d⟩ (uniquify_ok fuel d)
  exact this.2.2

/-- Fuel: the walk terminates; explicitly, it finishes as soon as the fuel reaches the number of
    instance occurrences of the elaborated design (`wt d (rank top) top - 1`, the size of the
    unfolding below the top instance). -/
theorem uniquify_finishes (d : Design) (hwf : WF d) (hac : Acyclic d) :
    ∃ N, ∀ fuel, N ≤ fuel → (uniquify fuel d).finished = true := by
  obtain ⟨rank, hr⟩ := hac
  exact ⟨wt d (rank d.top) d.top, fun fuel hf => uniquify_finished hwf hr (by omega)⟩

/-- Running uniquify again changes nothing (not even the name counter), whatever the fuel. -/
theorem uniquify_idem (fuel : Nat) (d : Design) (hwf : WF d) (hac : Acyclic d)
    (hfin : (uniquify fuel d).finished = true) (fuel' : Nat) :
    (uniquify fuel' (uniquify fuel d).design).design = (uniquify fuel d).design ∧
    (uniquify fuel' (uniquify fuel d).design).ok = true := by
  have hU := uniquify_unique fuel d hwf hac hfin
  have := uLoop_fix hU fuel' (uInit (uniquify fuel d).design) rfl (by
    intro a ha
    rw [(mem_childAddrs.mp ha).1]
    exact Reach.top)
  exact ⟨this.1, this.2⟩

/-- Headline, without run-time flags: there is a fuel bound `N` (the size of the unfolding) such that
    for every larger fuel the model's result is well-formed, uniquified, has the same elaboration
    as the input, and is a fixpoint of uniquify (also for the name counter). -/
theorem uniquify_correct (d : Design) (hwf : WF d) (hac : Acyclic d) :
    ∃ N, ∀ fuel, N ≤ fuel →
      WF (uniquify fuel d).design ∧ Unique (uniquify fuel d).design ∧ SameElab d (uniquify fuel d).design ∧
      (∀ fuel', (uniquify fuel' (uniquify fuel d).design).design = (uniquify fuel d).design) := by
  obtain ⟨N, hN⟩ := uniquify_finishes d hwf hac
  refine ⟨N, fun fuel hf => ?_⟩
  have hfin := hN fuel hf
  exact ⟨uniquify_wf fuel d hwf, uniquify_unique fuel d hwf hac hfin, uniquify_preserves_elab fuel d hwf,
    fun fuel' => (uniquify_idem fuel d hwf hac hfin fuel').1⟩

/-! ### Non-vacuity: a concrete shared, two-level design satisfies the hypotheses, and the model
    really copies on it. -/

/-- leaf `0`; `1` = non-leaf cell with a port, a wire and a leaf child; top `2` instantiates `1`
    twice and ties the two instances together. -/
def exC08 : Design :=
  { ndefs := 3
    defs := fun i =>
      if i = 0 then { lib := 0, name := some "leaf", eid := none, info := "", ports := [⟨1, ""⟩], cables := [], children := [] }
      else if i = 1 then
        { lib := 0, name := none, eid := none, info := "", ports := [⟨1, ""⟩],
          cables := [{ id := 0, name := some "n", eid := none, info := "", wires := [[.port 0 0, .inst 0 0 0]] }],
          children := [{ id := 0, name := some "u", eid := none, ref := 0, data := "" }] }
      else if i = 2 then
        { lib := 0, name := some "top", eid := none, info := "", ports := [],
          cables := [{ id := 1, name := some "w", eid := none, info := "", wires := [[.inst 0 0 0, .inst 1 0 0]] }],
          children := [{ id := 0, name := some "a", eid := none, ref := 1, data := "" },
                       { id := 1, name := some "b", eid := none, ref := 1, data := "" }] }
      else default
    order := [[0, 1, 2]]
    top := 2
    extra := fun i => if i = 2 then 1 else 0
    ctr := 0 }

example : WF exC08 := by decide
example : Acyclic exC08 := ⟨fun i => i, by decide⟩
example : exC08.refCount 1 = 2 := by decide
example : ¬ Unique exC08 := by
  intro h
  have := h 2 { id := 0, name := some "a", eid := none, ref := 1, data := "" } Reach.top (by decide)
  revert this; decide
example : (uniquify 10 exC08).finished = true ∧ (uniquify 10 exC08).ok = true ∧
    (uniquify 10 exC08).design.ndefs = 4 ∧ (uniquify 10 exC08).design.order = [[0, 1, 3, 2]] := by decide

end Spydr.Xform
