import Spydr.Xform.ModelFlatten
import Spydr.Xform.Spec
