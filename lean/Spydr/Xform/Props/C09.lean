/-
  C09 — flatten removes all hierarchy and preserves leaf-level connectivity.

  Model: `flatten : Nat → Design → FResult` (ModelFlatten.lean), fuel-bounded transcription of
  spydrnet/flatten.py.
  Spec:  `LeavesOf`, `ConnU`, `UEndpoint` (SpecFlat.lean), `WF`, `IdsUnique`, `Unique`, `Acyclic`,
         `Named`, `Flat` (Spec.lean).

  Hypotheses (`Hyp d` and `Named d`): `WF d`, `IdsUnique d` (instance / cable identifiers are netlist-wide object
  identities), `Unique d` (the netlist is uniquified), `Acyclic d`, `Named d` (instances and cables have
  non-empty names; '/' is allowed); all decidable and evaluated by the driver / harness on every input,
  except `Acyclic` and `Unique`, which the harness checks on the live netlist.
  `(flatten fuel d).finished`: the work list ran empty; `flatten_finishes`: it does whenever
  fuel > number of instances (the harness passes number of instances + 5 and checks the flag).
-/
import Spydr.Xform.LemmasFlatWF
import Spydr.Xform.LemmasFlatFuel
import Spydr.Xform.LemmasFlatPath
import Spydr.Xform.LemmasFlatLeft

namespace Spydr.Xform

/-!
  Domain statement (what the model does not have: exceptions).  The implementation refuses a duplicate
  sibling name / identifier (`add_child`, `add_cable`, `__setitem__` raise `ValueError`); the model
  always appends.  The theorems therefore describe the implementation on inputs where
    (a) the slash-joined path names of all instance occurrences (leaf AND hierarchical: shells are
        parked in the top definition until the end) and of all cables are pairwise distinct — true
        whenever no name contains '/'; when two LEAF occurrences (or two cables) share a joined name
        the property itself is unsatisfiable; when only a shell is involved the implementation fails
        although the property is satisfiable: open finding `flatten.shell_name_collision.raises_value`;
    (b) under the EDIF naming policy, no renewed identifier `instance_sdn_flat_N` / `cable_sdn_flat_N`
        clashes case-insensitively with an existing one: open finding
        `flatten.identifier_clash.raises_value`.
  The harness evaluates both conditions on every input and classifies a refusal accordingly.
  "Same data" in `LeavesOf` is the data dictionary WITHOUT the naming keys: `.NAME` becomes the path
  name and `EDIF.identifier` (if present) is renewed to `instance_sdn_flat_N` by design
  (`LeavesOf` leaves `eid` unconstrained; the correspondence compares it exactly).
-/

/-- Fuel: one more iteration than the netlist has instances empties the work list
    (`allInsts d` = the children of all definitions; the harness passes that number + 5). -/
theorem flatten_finishes (fuel : Nat) (d : Design) (hyp : Hyp d) (hnamed : Named d) (hf : (allInsts d).length < fuel) :
    (flatten fuel d).finished = true := flatten_finished hyp hnamed hf

/-- After flatten the top definition holds exactly one instance per leaf occurrence of the original
    design, named by the slash-joined instance path, with the same leaf definition and data; no
    hierarchical instance remains (`LeavesOf.flat`), no identifier occurs twice.  Together with
    `path_unique` (a leaf occurrence is determined by the identifier of its instance) this is a
    bijection between the leaf occurrences of `d` and the children of the flattened top. -/
theorem flatten_leaves (fuel : Nat) (d : Design) (hyp : Hyp d) (hnamed : Named d) (hfin : (flatten fuel d).finished = true) :
    LeavesOf d (flatten fuel d).design := by
  obtain ⟨moved, inv⟩ := fLoop_invA hyp hnamed fuel (fInit d) [] (FInvA.init hyp)
  have hq : (fLoop fuel (fInit d)).queue = [] := by simpa [flatten] using hfin
  exact inv.leavesOf hyp hq

/-- a leaf occurrence is determined by the identifier of the instance it ends in -/
theorem leaf_occurrence_unique (d : Design) (hyp : Hyp d) {cs cs' : List Inst} {c c' : Inst}
    (h : LeafOcc d cs c) (h' : LeafOcc d cs' c') (hid : c.id = c'.id) : cs = cs' ∧ c = c' := by
  obtain ⟨p, hp, _⟩ := h
  obtain ⟨p', hp', _⟩ := h'
  exact path_unique hyp hp hp' hid

/-- Two endpoints (leaf pin bits, top-level port bits) of the original design are electrically
    connected after flatten iff they were before.  `ConnU` is the connectivity of a uniquified
    netlist with netlist-wide instance identifiers: the equivalence closure of "wire touches instance
    pin (from outside or from inside) / top-level port bit"; flatten keeps the identifier of every
    instance, so the endpoints `P iid port bit` / `T port bit` are the same nodes before and after.
    Holds for every fuel (also for an unfinished walk). -/
theorem flatten_preserves_conn (fuel : Nat) (d : Design) (hyp : Hyp d) (hnamed : Named d) (a b : UNode)
    (ha : UEndpoint d a) (hb : UEndpoint d b) :
    ConnU d a b ↔ ConnU (flatten fuel d).design a b := by
  obtain ⟨moved, invA, invB⟩ := fLoop_invAB hyp hnamed fuel (fInit d) [] (FInvA.init hyp) (FInvB.init hyp)
  exact conn_final hyp invA invB ha hb

/-- The two semantics agree (DESIGN's `connU_eq_conn`): on a uniquified design with netlist-wide
    identifiers, hierarchical pins / top-level port bits are connected in the path-based elaboration
    (`HConn`, SpecElab) iff their images under the path-forgetting map are connected in `ConnU`. -/
theorem connU_eq_conn (d : Design) (hyp : Hyp d) {a b : HNode} (va : ValidH d a) (vb : ValidH d b)
    (ha : ∀ p ci wi, a ≠ .wire p ci wi) (hb : ∀ p ci wi, b ≠ .wire p ci wi) :
    HConn d a b ↔ ConnU d (forget d a) (forget d b) := hconn_iff_connU hyp va vb ha hb

/-- C09 in the semantics of the elaboration: two endpoints of the hierarchical design (pin bits of
    leaf occurrences, addressed by their instance path, and top-level port bits) are electrically
    connected in the elaboration of `d` iff the corresponding endpoints (`flatImage`: the same
    instance identifier directly below top) are connected in the elaboration of the flattened
    design — including nets that cross several levels, feed through a cell or stop at an unconnected
    port, since `HConn` is the full equivalence closure over all hierarchical wires and pins. -/
theorem flatten_preserves_elab_conn (fuel : Nat) (d : Design) (hyp : Hyp d) (hnamed : Named d)
    (hfin : (flatten fuel d).finished = true) (a b : HNode) (ha : IsEndpoint d a) (hb : IsEndpoint d b) :
    HConn d a b ↔ HConn (flatten fuel d).design (flatImage a) (flatImage b) := by
  obtain ⟨moved, invA, invB⟩ := fLoop_invAB hyp hnamed fuel (fInit d) [] (FInvA.init hyp) (FInvB.init hyp)
  have hq : (fLoop fuel (fInit d)).queue = [] := by simpa [flatten] using hfin
  exact flatten_hconn hyp invA invB hq ha hb

/-- The netlist stays well-formed (in particular no lifted inner pin, no pin of a removed shell and
    no pin twice on the wires of the top definition). -/
theorem flatten_wf (fuel : Nat) (d : Design) (hyp : Hyp d) (hnamed : Named d) (hfin : (flatten fuel d).finished = true) :
    WF (flatten fuel d).design := by
  obtain ⟨moved, invA, invB⟩ := fLoop_invAB hyp hnamed fuel (fInit d) [] (FInvA.init hyp) (FInvB.init hyp)
  have hq : (fLoop fuel (fInit d)).queue = [] := by simpa [flatten] using hfin
  exact wf_final hyp invA invB hq

/-- Nothing else is left behind: every definition that was instantiated below the top instance and
    was not a leaf ends up without children and without cables; the only trace is at most one stale
    member of its reference set (`extra`: the dissolved shell, which `Definition.remove_child` does
    not un-reference — an instance outside every definition, exactly like the clones `Instance.clone`
    documents; `canon.wf_problems` accepts it, so it is recorded as an observation, not as a
    well-formedness violation).  `flatten_wf` itself does not constrain `extra`. -/
theorem flatten_leftovers (fuel : Nat) (d : Design) (hyp : Hyp d) (hnamed : Named d)
    (hfin : (flatten fuel d).finished = true) (x : Nat) (hx : Reach d x) (hxt : x ≠ d.top)
    (hxl : (d.defs x).isLeaf = false) :
    ((flatten fuel d).design.defs x).children = [] ∧ ((flatten fuel d).design.defs x).cables = [] ∧
    (flatten fuel d).design.extra x ≤ 1 := by
  obtain ⟨moved, invA, _⟩ := fLoop_invAB hyp hnamed fuel (fInit d) [] (FInvA.init hyp) (FInvB.init hyp)
  have hq : (fLoop fuel (fInit d)).queue = [] := by simpa [flatten] using hfin
  exact leftovers hyp invA hq hx hxt hxl

/-! ### Non-vacuity: a concrete two-level design with a feed-through satisfies the hypotheses and the
    model really dissolves it. -/

/-- leaf `0` (two one-bit ports); `1` = pass-through shell: its two ports tied by one wire, which
    also reaches a leaf inside; top `2` holds the shell `s` and two leaves `a`, `b`, `a.P0 — s.P0`,
    `s.P1 — b.P0`: after flatten `a.P0`, `b.P0` and the inner leaf's `P0` are one net (on wire `w2`). -/
def exC09 : Design :=
  { ndefs := 3
    defs := fun i =>
      if i = 0 then { lib := 0, name := some "leaf", eid := none, info := "", ports := [⟨1, ""⟩, ⟨1, ""⟩], cables := [], children := [] }
      else if i = 1 then
        { lib := 0, name := some "shell", eid := none, info := "", ports := [⟨1, ""⟩, ⟨1, ""⟩],
          cables := [{ id := 0, name := some "t", eid := none, info := "", wires := [[.port 0 0, .port 1 0, .inst 3 0 0]] }],
          children := [{ id := 3, name := some "u", eid := none, ref := 0, data := "" }] }
      else if i = 2 then
        { lib := 0, name := some "top", eid := none, info := "", ports := [],
          cables := [{ id := 1, name := some "w1", eid := none, info := "", wires := [[.inst 0 0 0, .inst 1 0 0]] },
                     { id := 2, name := some "w2", eid := none, info := "", wires := [[.inst 1 1 0, .inst 2 0 0]] }],
          children := [{ id := 0, name := some "a", eid := none, ref := 0, data := "" },
                       { id := 1, name := some "s", eid := none, ref := 1, data := "" },
                       { id := 2, name := some "b", eid := none, ref := 0, data := "" }] }
      else default
    order := [[0, 1, 2]]
    top := 2
    extra := fun i => if i = 2 then 1 else 0
    ctr := 0 }

theorem exC09_unique : Unique exC09 := by
  intro q c hq hc
  have hq' : q = 2 ∨ q = 1 ∨ q = 0 := by
    clear hc
    induction hq with
    | top => exact Or.inl rfl
    | step _ hc ih =>
      rcases ih with rfl | rfl | rfl
      · have : _ ∈ [_, _, _] := hc
        simp only [List.mem_cons, List.mem_nil_iff, or_false] at this
        rcases this with rfl | rfl | rfl <;> simp
      · have : _ ∈ [_] := hc
        simp only [List.mem_cons, List.mem_nil_iff, or_false] at this
        subst this; simp
      · have : _ ∈ ([] : List Inst) := hc
        simp at this
  rcases hq' with rfl | rfl | rfl
  · have : c ∈ [_, _, _] := hc
    simp only [List.mem_cons, List.mem_nil_iff, or_false] at this
    rcases this with rfl | rfl | rfl <;> decide
  · have : c ∈ [_] := hc
    simp only [List.mem_cons, List.mem_nil_iff, or_false] at this
    subst this; decide
  · have : c ∈ ([] : List Inst) := hc
    simp at this

example : Hyp exC09 ∧ Named exC09 :=
  ⟨{ wf := by decide, ids := by decide, uniq := exC09_unique, acyc := ⟨fun i => i, by decide⟩ }, by decide⟩

example : (flatten 10 exC09).finished = true ∧
    ((flatten 10 exC09).design.defs 2).children.map (·.name) = [some "a", some "b", some "s/u"] ∧
    (((flatten 10 exC09).design.defs 2).cables.map (·.wires)) =
      [[[]], [[.inst 2 0 0, .inst 0 0 0, .inst 3 0 0]], [[]]] := by decide

end Spydr.Xform
