/-
  C09 — flatten removes all hierarchy and preserves leaf-level connectivity.

  Model: `flatten : Nat → Design → FResult` (ModelFlatten.lean), fuel-bounded transcription of
  spydrnet/flatten.py.
  Spec:  `LeavesOf`, `ConnU`, `UEndpoint` (SpecFlat.lean), `WF`, `IdsUnique`, `Unique`, `Acyclic`,
         `Named`, `Flat` (Spec.lean).

  Hypotheses (`Hyp d`): `WF d`, `IdsUnique d` (instance / cable identifiers are netlist-wide object
  identities), `Unique d` (the netlist is uniquified), `Acyclic d`, `Named d` (instances and cables have
  non-empty names without '/'); all decidable and evaluated by the driver / harness on every input,
  except `Acyclic` and `Unique`, which the harness checks on the live netlist.
  `(flatten fuel d).finished`: the work list ran empty (reported by the driver, checked by the
  harness for fuel = number of instances + 5).
-/
import Spydr.Xform.LemmasFlatLeaves

namespace Spydr.Xform

/-- After flatten the top definition holds exactly one instance per leaf occurrence of the original
    design, named by the slash-joined instance path, with the same leaf definition and data; no
    hierarchical instance remains (`LeavesOf.flat`), no identifier occurs twice.  Together with
    `path_unique` (a leaf occurrence is determined by the identifier of its instance) this is a
    bijection between the leaf occurrences of `d` and the children of the flattened top. -/
theorem flatten_leaves (fuel : Nat) (d : Design) (hyp : Hyp d) (hfin : (flatten fuel d).finished = true) :
    LeavesOf d (flatten fuel d).design := by
  obtain ⟨moved, inv⟩ := fLoop_invA hyp fuel (fInit d) [] (FInvA.init hyp)
  have hq : (fLoop fuel (fInit d)).queue = [] := by simpa [flatten] using hfin
  exact inv.leavesOf hyp hq

/-- a leaf occurrence is determined by the identifier of the instance it ends in -/
theorem leaf_occurrence_unique (d : Design) (hyp : Hyp d) {cs cs' : List Inst} {c c' : Inst}
    (h : LeafOcc d cs c) (h' : LeafOcc d cs' c') (hid : c.id = c'.id) : cs = cs' ∧ c = c' := by
  obtain ⟨p, hp, _⟩ := h
  obtain ⟨p', hp', _⟩ := h'
  exact path_unique hyp hp hp' hid

end Spydr.Xform
