/-
  Specification side of engine `xform`, part 1: the decidable predicates (evaluated by the driver on
  dumps of the implementation's netlists) and the reachability vocabulary.
  Written against `Model.lean` (the data types) only — not against the transformation models.

  NO Mathlib import (the driver links this file).
-/
import Spydr.Xform.Model

namespace Spydr.Xform

/-! ## Well-formedness of a dumped netlist (structural part of C01/C02 at value level) -/

/-- the pin reference `p` on a wire of definition `D` denotes an existing pin -/
def PinOk (d : Design) (D : Defn) : Pin → Prop
  | .port pi bit => ∃ P ∈ D.ports[pi]?, bit < P.width
  | .inst iid pi bit => ∃ c ∈ D.children, c.id = iid ∧ ∃ P ∈ (d.defs c.ref).ports[pi]?, bit < P.width
  | .inner _ _ _ => False

instance (d : Design) (D : Defn) (p : Pin) : Decidable (PinOk d D p) := by
  cases p <;> simp only [PinOk] <;> infer_instance

/-- one definition: references resolve, child identifiers are distinct, every pin reference is valid
    and sits on at most one wire (at most once) -/
def WFDef (d : Design) (D : Defn) : Prop :=
  (∀ c ∈ D.children, c.ref < d.ndefs) ∧
  (D.children.map (·.id)).Nodup ∧
  (allPins D.cables).Nodup ∧
  (∀ p ∈ allPins D.cables, PinOk d D p)

instance (d : Design) (D : Defn) : Decidable (WFDef d D) := by unfold WFDef; infer_instance

/-- the library order lists every definition exactly once, in the library it says it is in -/
def OrderOk (d : Design) : Prop :=
  d.order.flatten.Nodup ∧
  (∀ i ∈ d.order.flatten, i < d.ndefs) ∧
  (∀ i ∈ List.range d.ndefs, i ∈ d.order.flatten) ∧
  (∀ l ∈ List.range d.order.length, ∀ i ∈ d.order.getD l [], (d.defs i).lib = l)

instance (d : Design) : Decidable (OrderOk d) := by unfold OrderOk; infer_instance

def WF (d : Design) : Prop :=
  d.top < d.ndefs ∧ (∀ i ∈ List.range d.ndefs, WFDef d (d.defs i)) ∧ OrderOk d

instance (d : Design) : Decidable (WF d) := by unfold WF; infer_instance

def wfCheck (d : Design) : Bool := decide (WF d)

/-- named definitions of one library carry pairwise different names -/
def DefNamesUnique (d : Design) : Prop :=
  ∀ i ∈ List.range d.ndefs, ∀ j ∈ List.range d.ndefs, i ≠ j → (d.defs i).lib = (d.defs j).lib →
    (d.defs i).name ≠ none → (d.defs i).name ≠ (d.defs j).name

instance (d : Design) : Decidable (DefNamesUnique d) := by unfold DefNamesUnique; infer_instance

/-- definitions of one library carry pairwise different `EDIF.identifier` entries, compared
    case-insensitively (what the EDIF naming policy enforces among siblings) -/
def DefEidsUnique (d : Design) : Prop :=
  ∀ i ∈ List.range d.ndefs, ∀ j ∈ List.range d.ndefs, i ≠ j → (d.defs i).lib = (d.defs j).lib →
    ∀ a b, (d.defs i).eid = some a → (d.defs j).eid = some b → lowerStr a ≠ lowerStr b

/-! ## Preconditions of flatten -/

def allInsts (d : Design) : List Inst := (List.range d.ndefs).flatMap (fun i => (d.defs i).children)
def allCables (d : Design) : List Cable := (List.range d.ndefs).flatMap (fun i => (d.defs i).cables)

/-- instance identifiers and cable identifiers are unique in the whole netlist (the harness numbers
    the Python objects, so this is object identity): distinct inside every definition, and no
    identifier occurs in two definitions -/
def IdsUnique (d : Design) : Prop :=
  (∀ i ∈ List.range d.ndefs, ((d.defs i).children.map (·.id)).Nodup) ∧
  (∀ i ∈ List.range d.ndefs, ∀ j ∈ List.range d.ndefs, i ≠ j →
      ∀ a ∈ (d.defs i).children, ∀ b ∈ (d.defs j).children, a.id ≠ b.id) ∧
  (∀ i ∈ List.range d.ndefs, ((d.defs i).cables.map (·.id)).Nodup) ∧
  (∀ i ∈ List.range d.ndefs, ∀ j ∈ List.range d.ndefs, i ≠ j →
      ∀ a ∈ (d.defs i).cables, ∀ b ∈ (d.defs j).cables, a.id ≠ b.id)

instance (d : Design) : Decidable (IdsUnique d) := by unfold IdsUnique; infer_instance

def idsUniqueCheck (d : Design) : Bool := decide (IdsUnique d)

/-- every instance and cable has a non-empty name (flatten concatenates names; the empty parent name
    is its "no prefix" sentinel).  Names may contain `/`; what the implementation additionally needs
    — it refuses a duplicate sibling name in `add_child` / `add_cable`, an exception the model does
    not have — is that the slash-joined path names of all instance occurrences and of all cables are
    pairwise distinct, which the harness checks on every input (`joined_name_collisions`). -/
def goodName : Option String → Bool
  | none => false
  | some s => s != ""

def Named (d : Design) : Prop :=
  (∀ c ∈ allInsts d, goodName c.name = true) ∧ (∀ c ∈ allCables d, goodName c.name = true)

instance (d : Design) : Decidable (Named d) := by unfold Named; infer_instance

def namedCheck (d : Design) : Bool := decide (Named d)

/-! ## Reachability from the top definition -/

/-- definition `x` is instantiated (transitively) below the top instance, or is the top definition -/
inductive Reach (d : Design) : Nat → Prop
  | top : Reach d d.top
  | step {q : Nat} {c : Inst} : Reach d q → c ∈ (d.defs q).children → Reach d c.ref

/-- C08: every non-leaf instance below the top instance is the only instance of its definition
    (`len(reference.references) == 1`, counting every instance there is, also those outside the top
    hierarchy and outside every definition). -/
def Unique (d : Design) : Prop :=
  ∀ q c, Reach d q → c ∈ (d.defs q).children → (d.defs c.ref).isLeaf = true ∨ d.refCount c.ref = 1

/-- C09: the top definition holds leaf instances only. -/
def Flat (d : Design) : Prop :=
  ∀ c ∈ (d.defs d.top).children, (d.defs c.ref).isLeaf = true

/-- a definition never instantiates itself transitively: there is a rank that strictly decreases
    along every parent → reference edge -/
def Acyclic (d : Design) : Prop :=
  ∃ rank : Nat → Nat, ∀ q, q < d.ndefs → ∀ c ∈ (d.defs q).children, rank c.ref < rank q

end Spydr.Xform
