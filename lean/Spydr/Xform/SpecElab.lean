/-
  Specification side of engine `xform`, part 2: the *elaboration* of a design.

  The elaborated design is the unfolding of the instance hierarchy below the top definition:
  * an occurrence of a definition is addressed by the path of child identifiers leading to it
    (`defAt`), an occurrence of an instance by the path to its parent plus its identifier;
  * hierarchical wires `(path, cable position, wire position)`, hierarchical pins
    `(path of the parent, instance identifier, port, bit)` — one node for the pin seen from outside
    (outer pin on a wire of the parent) and from inside (inner pin on a wire of the reference) —
    and the port bits of the top definition;
  * `HAdj`: a hierarchical wire touches a hierarchical pin; `HConn` is its equivalence closure:
    "electrically connected";
  * endpoints are the pins of leaf occurrences and the top-level port bits.

  Nothing here mentions `uniquify` or `flatten`.  NO Mathlib import.
-/
import Spydr.Xform.Spec

namespace Spydr.Xform

/-- equivalence closure (reflexive, symmetric, transitive) of a relation -/
inductive Conn {α : Type} (r : α → α → Prop) : α → α → Prop
  | rel {a b} : r a b → Conn r a b
  | refl (a) : Conn r a a
  | symm {a b} : Conn r a b → Conn r b a
  | trans {a b c} : Conn r a b → Conn r b c → Conn r a c

def childById (D : Defn) (iid : Nat) : Option Inst := D.children.find? (fun c => c.id == iid)

/-- the definition reached from definition `x` by descending along the instance identifiers `p` -/
def defAtFrom (d : Design) : Nat → List Nat → Option Nat
  | x, [] => some x
  | x, i :: p =>
    match childById (d.defs x) i with
    | none => none
    | some c => defAtFrom d c.ref p

/-- the definition occurrence at path `p` below the top instance (`[]` = the top definition) -/
def defAt (d : Design) (p : List Nat) : Option Nat := defAtFrom d d.top p

/-- the instance occurrence `p ++ [iid]` -/
def instAt (d : Design) (p : List Nat) (iid : Nat) : Option Inst :=
  match defAt d p with
  | none => none
  | some x => childById (d.defs x) iid

def wireAt (D : Defn) (ci wi : Nat) : Option (List Pin) :=
  match D.cables[ci]? with
  | none => none
  | some c => c.wires[wi]?

inductive HNode where
  | wire (p : List Nat) (ci wi : Nat)
  | pin (p : List Nat) (iid pi bit : Nat)
  | tport (pi bit : Nat)
  deriving DecidableEq, Repr

/-- a hierarchical wire touches a hierarchical pin / top-level port bit -/
inductive HAdj (d : Design) : HNode → HNode → Prop
  | outer {p : List Nat} {x ci wi : Nat} {w : List Pin} {iid pi bit : Nat} :
      defAt d p = some x → wireAt (d.defs x) ci wi = some w → Pin.inst iid pi bit ∈ w →
      HAdj d (.wire p ci wi) (.pin p iid pi bit)
  | inner {p : List Nat} {iid x ci wi : Nat} {w : List Pin} {pi bit : Nat} :
      defAt d (p ++ [iid]) = some x → wireAt (d.defs x) ci wi = some w → Pin.port pi bit ∈ w →
      HAdj d (.wire (p ++ [iid]) ci wi) (.pin p iid pi bit)
  | top {ci wi : Nat} {w : List Pin} {pi bit : Nat} :
      wireAt (d.defs d.top) ci wi = some w → Pin.port pi bit ∈ w →
      HAdj d (.wire [] ci wi) (.tport pi bit)

/-- electrically connected in the elaborated design -/
def HConn (d : Design) : HNode → HNode → Prop := Conn (HAdj d)

/-- what is observable of an instance occurrence: name, identifier entry, data, and — for a leaf —
    which definition it instantiates -/
structure InstView where
  name : Option String
  eid : Option String
  data : String
  leafType : Option Nat
  deriving DecidableEq, Repr

def viewOf (d : Design) (c : Inst) : InstView :=
  { name := c.name, eid := c.eid, data := c.data,
    leafType := if (d.defs c.ref).isLeaf then some c.ref else none }

/-- the unfolding tree as a function on paths: what (if anything) sits at `p ++ [iid]` -/
def unfoldAt (d : Design) (p : List Nat) (iid : Nat) : Option InstView :=
  (instAt d p iid).map (viewOf d)

/-- leaf pin bit / top-level port bit -/
def IsEndpoint (d : Design) : HNode → Prop
  | .wire _ _ _ => False
  | .pin p iid _ _ => ∃ c, instAt d p iid = some c ∧ (d.defs c.ref).isLeaf = true
  | .tport _ _ => True

/-- two designs have the same elaboration: same unfolding tree (instance names, data, leaf cell type
    at every path) and the same connectivity between all hierarchical nodes — in particular the
    same grouping of leaf pins and top-level port bits into nets. -/
def SameElab (d d' : Design) : Prop :=
  (∀ p iid, unfoldAt d p iid = unfoldAt d' p iid) ∧ (∀ a b, HConn d a b ↔ HConn d' a b)

end Spydr.Xform
